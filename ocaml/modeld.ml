(* modeld: generic driver around the extracted Coq engines.
   usage: modeld <engine>   reads one case per line on stdin, prints one verdict per line.
   Line syntax (s-expression over numbers and byte strings):
     val ::= <decimal>            -> M.VN
           | x<hex digits>        -> M.VB   (x alone = empty byte string)
           | ( val* )             -> M.VL
   All property logic lives in the extracted code (Model.engine); this file only parses and prints. *)
module M = Model

let rec pos_of_int (i : int) : M.positive =
  if i = 1 then M.XH
  else if i land 1 = 0 then M.XO (pos_of_int (i lsr 1))
  else M.XI (pos_of_int (i lsr 1))

let n_of_int (i : int) : M.n = if i = 0 then M.N0 else M.Npos (pos_of_int i)

(* decimal strings may exceed OCaml's int: parse by repeated *10 + d on Coq N *)
let n_of_decimal (s : string) : M.n =
  if String.length s <= 17 then n_of_int (int_of_string s)
  else begin
    let ten = n_of_int 10 in
    let acc = ref M.N0 in
    String.iter (fun c -> acc := M.N.add (M.N.mul !acc ten) (n_of_int (Char.code c - 48))) s;
    !acc
  end

let rec int_of_pos (p : M.positive) : int =
  match p with M.XH -> 1 | M.XO q -> 2 * int_of_pos q | M.XI q -> 2 * int_of_pos q + 1

let string_of_n (x : M.n) : string =
  (* values printed by engines fit in 62 bits except in pathological cases; fall back to Z-style *)
  match x with
  | M.N0 -> "0"
  | M.Npos p ->
      let rec bits p = match p with M.XH -> 1 | M.XO q | M.XI q -> 1 + bits q in
      if bits p <= 62 then string_of_int (int_of_pos p)
      else begin
        (* decimal conversion by repeated division on Coq N *)
        let ten = n_of_int 10 in
        let buf = Buffer.create 32 in
        let rec go v acc =
          match v with
          | M.N0 -> acc
          | _ ->
              let q = M.N.div v ten and r = M.N.modulo v ten in
              go q ((match r with M.N0 -> 0 | M.Npos p -> int_of_pos p) :: acc) in
        List.iter (fun d -> Buffer.add_char buf (Char.chr (48 + d))) (go x []);
        Buffer.contents buf
      end

let hexval c =
  match c with
  | '0' .. '9' -> Char.code c - 48
  | 'a' .. 'f' -> Char.code c - 87
  | 'A' .. 'F' -> Char.code c - 55
  | _ -> failwith "bad hex"

exception Parse_error of string

let parse_line (s : string) : M.val0 =
  let len = String.length s in
  let pos = ref 0 in
  let rec skip () = if !pos < len && (s.[!pos] = ' ' || s.[!pos] = '\t' || s.[!pos] = '\r') then (incr pos; skip ()) in
  let rec value () : M.val0 =
    skip ();
    if !pos >= len then raise (Parse_error "eof");
    match s.[!pos] with
    | '(' ->
        incr pos;
        let items = ref [] in
        let rec loop () =
          skip ();
          if !pos >= len then raise (Parse_error "unclosed");
          if s.[!pos] = ')' then incr pos
          else (items := value () :: !items; loop ()) in
        loop ();
        M.VL (List.rev !items)
    | 'x' ->
        incr pos;
        let start = !pos in
        while !pos < len && (match s.[!pos] with '0' .. '9' | 'a' .. 'f' | 'A' .. 'F' -> true | _ -> false) do incr pos done;
        let h = String.sub s start (!pos - start) in
        if String.length h mod 2 <> 0 then raise (Parse_error "odd hex");
        let l = ref [] in
        let i = ref (String.length h - 2) in
        while !i >= 0 do
          l := n_of_int (hexval h.[!i] * 16 + hexval h.[!i + 1]) :: !l;
          i := !i - 2
        done;
        M.VB !l
    | '0' .. '9' ->
        let start = !pos in
        while !pos < len && (match s.[!pos] with '0' .. '9' -> true | _ -> false) do incr pos done;
        M.VN (n_of_decimal (String.sub s start (!pos - start)))
    | c -> raise (Parse_error (Printf.sprintf "unexpected %c at %d" c !pos))
  in
  let v = value () in
  skip ();
  if !pos <> len then raise (Parse_error "trailing");
  v

let rec print_val (b : Buffer.t) (v : M.val0) : unit =
  match v with
  | M.VN x -> Buffer.add_string b (string_of_n x)
  | M.VB l ->
      Buffer.add_char b 'x';
      List.iter (fun x ->
        let i = (match x with M.N0 -> 0 | M.Npos p -> int_of_pos p) in
        Buffer.add_string b (Printf.sprintf "%02x" (i land 255))) l
  | M.VL l ->
      Buffer.add_char b '(';
      List.iteri (fun i x -> if i > 0 then Buffer.add_char b ' '; print_val b x) l;
      Buffer.add_char b ')'

let bytes_of_ocaml_string (s : string) : M.n list =
  List.init (String.length s) (fun i -> n_of_int (Char.code s.[i]))

let () =
  if Array.length Sys.argv < 2 then (prerr_endline "usage: modeld <engine>"; exit 2);
  let name = bytes_of_ocaml_string Sys.argv.(1) in
  let buf = Buffer.create 65536 in
  (try
     while true do
       let line = input_line stdin in
       if String.length line > 0 && line.[0] <> '#' then begin
         (match (try Some (parse_line line) with Parse_error _ | Failure _ -> None) with
          | Some c -> print_val buf (M.engine name c)
          | None -> Buffer.add_string buf "(9 x 0)");
         Buffer.add_char buf '\n';
         if Buffer.length buf > 60000 then (print_string (Buffer.contents buf); Buffer.clear buf)
       end
     done
   with End_of_file -> ());
  print_string (Buffer.contents buf)
