module verifharness

go 1.21

require github.com/mochi-mqtt/server/v2 v2.0.0

replace github.com/mochi-mqtt/server/v2 => /repo
