// Package broker drives a real in-process *mqtt.Server over in-memory connections, one event
// at a time, waiting for quiescence after every event, and records everything the broker writes.
package broker

import (
	"errors"
	"io"
	"net"
	"sync"
	"time"
)

// Chunk is one Write call of the broker on a connection.
type Chunk struct {
	Step int
	Data []byte
}

type memAddr string

func (a memAddr) Network() string { return "mem" }
func (a memAddr) String() string  { return string(a) }

// MemConn is an in-memory net.Conn. Write never blocks (appends to a log); Read serves bytes
// fed by the harness and otherwise parks, which is the signal that everything fed so far has
// been consumed by the connection's handler goroutine.
type MemConn struct {
	mu         sync.Mutex
	cond       *sync.Cond
	in         []byte
	waiting    bool // a Read is parked with an empty input buffer
	peerClosed bool // the harness (client side) closed the network connection
	closed     bool // the broker called Close
	closeStep  int
	holdClose  bool // Close does not wake a parked Read until releaseClose (deterministic teardown order)
	released   bool
	out        []Chunk
	outAfter   int // number of bytes written after Close was called (must stay 0)
	deadlines  []time.Time
	deadlineAt []time.Time
	remote     string
	step       *int // current step number of the harness
	// WriteErr, when set, makes Write fail (simulates a broken pipe) after recording nothing.
	WriteErr error
	failNext int // the next failNext Write calls fail (transient fault), recording nothing
}

func newMemConn(remote string, step *int) *MemConn {
	c := &MemConn{remote: remote, step: step}
	c.cond = sync.NewCond(&c.mu)
	return c
}

func (c *MemConn) Read(p []byte) (int, error) {
	c.mu.Lock()
	defer c.mu.Unlock()
	for len(c.in) == 0 {
		if c.closed && (!c.holdClose || c.released) {
			return 0, net.ErrClosed
		}
		if c.peerClosed {
			return 0, io.EOF
		}
		c.waiting = true
		c.cond.Broadcast()
		c.cond.Wait()
	}
	c.waiting = false
	n := copy(p, c.in)
	c.in = c.in[n:]
	return n, nil
}

func (c *MemConn) Write(p []byte) (int, error) {
	c.mu.Lock()
	defer c.mu.Unlock()
	if c.closed {
		c.outAfter += len(p)
		return 0, errors.New("write on closed memconn")
	}
	if c.WriteErr != nil {
		return 0, c.WriteErr
	}
	if c.failNext > 0 {
		c.failNext--
		return 0, errors.New("transient write fault")
	}
	c.out = append(c.out, Chunk{Step: *c.step, Data: append([]byte{}, p...)})
	return len(p), nil
}

func (c *MemConn) Close() error {
	c.mu.Lock()
	defer c.mu.Unlock()
	if !c.closed {
		c.closed = true
		c.closeStep = *c.step
	}
	c.cond.Broadcast()
	return nil
}

func (c *MemConn) LocalAddr() net.Addr  { return memAddr("broker") }
func (c *MemConn) RemoteAddr() net.Addr { return memAddr(c.remote) }
func (c *MemConn) SetDeadline(t time.Time) error {
	c.mu.Lock()
	c.deadlines = append(c.deadlines, t)
	c.deadlineAt = append(c.deadlineAt, time.Now())
	c.mu.Unlock()
	return nil
}
func (c *MemConn) SetReadDeadline(t time.Time) error  { return c.SetDeadline(t) }
func (c *MemConn) SetWriteDeadline(t time.Time) error { return nil }

// feed makes bytes available to the broker's reader.
func (c *MemConn) feed(b []byte) {
	c.mu.Lock()
	c.in = append(c.in, b...)
	c.waiting = false
	c.cond.Broadcast()
	c.mu.Unlock()
}

// peerClose simulates the client closing the network connection.
func (c *MemConn) peerClose() {
	c.mu.Lock()
	c.peerClosed = true
	c.waiting = false
	c.cond.Broadcast()
	c.mu.Unlock()
}

// releaseClose lets a Read parked on a connection the broker closed return its error.
func (c *MemConn) releaseClose() {
	c.mu.Lock()
	c.released = true
	c.waiting = false
	c.cond.Broadcast()
	c.mu.Unlock()
}

// parked reports whether the broker's reader is waiting for more input with nothing buffered.
func (c *MemConn) parked() bool {
	c.mu.Lock()
	defer c.mu.Unlock()
	return c.waiting && len(c.in) == 0
}

// heldParked: the broker closed the connection but its reader is still parked (not released).
func (c *MemConn) heldParked() bool {
	c.mu.Lock()
	defer c.mu.Unlock()
	return c.closed && c.holdClose && !c.released && c.waiting
}

// Closed reports whether the broker closed the connection.
func (c *MemConn) Closed() bool {
	c.mu.Lock()
	defer c.mu.Unlock()
	return c.closed
}

// OutLen is the number of chunks written so far.
func (c *MemConn) outLen() int {
	c.mu.Lock()
	defer c.mu.Unlock()
	return len(c.out)
}

func (c *MemConn) chunksFrom(i int) []Chunk {
	c.mu.Lock()
	defer c.mu.Unlock()
	return append([]Chunk{}, c.out[i:]...)
}

// AllOutput returns every byte written to the connection, in order.
func (c *MemConn) AllOutput() []byte {
	c.mu.Lock()
	defer c.mu.Unlock()
	var b []byte
	for _, ch := range c.out {
		b = append(b, ch.Data...)
	}
	return b
}

// WrittenAfterClose is the number of bytes the broker tried to write after closing.
func (c *MemConn) WrittenAfterClose() int {
	c.mu.Lock()
	defer c.mu.Unlock()
	return c.outAfter
}

// Deadlines returns the recorded SetDeadline calls (deadline, time of call).
func (c *MemConn) Deadlines() ([]time.Time, []time.Time) {
	c.mu.Lock()
	defer c.mu.Unlock()
	return append([]time.Time{}, c.deadlines...), append([]time.Time{}, c.deadlineAt...)
}

// FailNext makes the next n Write calls on the connection fail without recording anything
// (a transient fault: the connection is not closed by it).
func (c *MemConn) FailNext(n int) {
	c.mu.Lock()
	c.failNext = n
	c.mu.Unlock()
}

// FailPending reports how many armed write faults have not been consumed yet.
func (c *MemConn) FailPending() int {
	c.mu.Lock()
	defer c.mu.Unlock()
	return c.failNext
}
