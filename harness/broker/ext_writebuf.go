package broker

// Extension for the C34 engine (write buffering): the individual Write calls of the broker on a
// connection. Add-only; nothing else in the package depends on it.

// ChunksFrom returns the Write calls recorded on the connection from index i on, one Chunk per call.
func (c *MemConn) ChunksFrom(i int) []Chunk { return c.chunksFrom(i) }
