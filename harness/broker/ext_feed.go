package broker

// Feed makes bytes available to the broker on connection c WITHOUT waiting for quiescence
// (forced-schedule engines park broker goroutines on purpose and synchronise themselves).
func (b *B) Feed(c *Conn, data []byte) {
	b.Step++
	c.MC.feed(data)
}

// Parked reports whether the handler of c is waiting for input with nothing buffered.
func (c *Conn) Parked() bool { return c.MC.parked() }
