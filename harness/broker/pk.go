package broker

import "github.com/mochi-mqtt/server/v2/packets"

// ConnectPk builds a CONNECT packet (version 3, 4 or 5).
func ConnectPk(id string, version byte, clean bool) packets.Packet {
	name := []byte("MQTT")
	if version == 3 {
		name = []byte("MQIsdp")
	}
	return packets.Packet{
		FixedHeader:     packets.FixedHeader{Type: packets.Connect},
		ProtocolVersion: version,
		Connect: packets.ConnectParams{
			ProtocolName:     name,
			Clean:            clean,
			Keepalive:        60,
			ClientIdentifier: id,
		},
	}
}

// PublishPk builds a PUBLISH packet.
func PublishPk(topic string, payload []byte, qos byte, retain bool, pid uint16) packets.Packet {
	return packets.Packet{
		FixedHeader: packets.FixedHeader{Type: packets.Publish, Qos: qos, Retain: retain},
		TopicName:   topic,
		Payload:     payload,
		PacketID:    pid,
	}
}

// SubscribePk builds a SUBSCRIBE packet.
func SubscribePk(pid uint16, subs ...packets.Subscription) packets.Packet {
	return packets.Packet{
		FixedHeader: packets.FixedHeader{Type: packets.Subscribe, Qos: 1},
		PacketID:    pid,
		Filters:     subs,
	}
}

// UnsubscribePk builds an UNSUBSCRIBE packet.
func UnsubscribePk(pid uint16, filters ...string) packets.Packet {
	fs := packets.Subscriptions{}
	for _, f := range filters {
		fs = append(fs, packets.Subscription{Filter: f})
	}
	return packets.Packet{
		FixedHeader: packets.FixedHeader{Type: packets.Unsubscribe, Qos: 1},
		PacketID:    pid,
		Filters:     fs,
	}
}

// AckPk builds PUBACK / PUBREC / PUBREL / PUBCOMP.
func AckPk(ty byte, pid uint16, reason byte) packets.Packet {
	pk := packets.Packet{FixedHeader: packets.FixedHeader{Type: ty}, PacketID: pid, ReasonCode: reason}
	if ty == packets.Pubrel {
		pk.FixedHeader.Qos = 1
	}
	return pk
}

// DisconnectPk builds a DISCONNECT packet.
func DisconnectPk(reason byte) packets.Packet {
	return packets.Packet{FixedHeader: packets.FixedHeader{Type: packets.Disconnect}, ReasonCode: reason}
}

// PingPk builds a PINGREQ.
func PingPk() packets.Packet {
	return packets.Packet{FixedHeader: packets.FixedHeader{Type: packets.Pingreq}}
}
