package broker

import (
	"sync"

	mqtt "github.com/mochi-mqtt/server/v2"
	"github.com/mochi-mqtt/server/v2/packets"
)

// Recorder is a plain mqtt.Hook that logs the calls the properties talk about and (optionally)
// decides authentication / ACL.
type Recorder struct {
	mqtt.HookBase
	b      *B
	mu     sync.Mutex
	events []HookEvent
	pos    int
	auth   func(cl *mqtt.Client, pk packets.Packet) bool
	acl    func(cl *mqtt.Client, topic string, write bool) bool
}

func (r *Recorder) ID() string { return "verif-recorder" }

func (r *Recorder) Provides(b byte) bool {
	switch b {
	case mqtt.OnConnectAuthenticate:
		return r.auth != nil
	case mqtt.OnACLCheck:
		return r.acl != nil
	case mqtt.OnPacketProcessed, mqtt.OnDisconnect, mqtt.OnPublishDropped, mqtt.OnQosPublish, mqtt.OnQosComplete,
		mqtt.OnQosDropped, mqtt.OnPacketSent, mqtt.OnRetainMessage, mqtt.OnRetainPublished, mqtt.OnWillSent,
		mqtt.OnClientExpired, mqtt.OnRetainedExpired, mqtt.OnPacketIDExhausted, mqtt.OnPublished,
		mqtt.OnSessionEstablished, mqtt.OnSubscribed, mqtt.OnUnsubscribed:
		return true
	}
	return false
}

func (r *Recorder) add(e HookEvent) {
	r.mu.Lock()
	e.Step = r.b.Step
	r.events = append(r.events, e)
	r.mu.Unlock()
}

// Drain returns the events recorded since the previous Drain.
func (r *Recorder) Drain() []HookEvent {
	r.mu.Lock()
	defer r.mu.Unlock()
	ev := append([]HookEvent{}, r.events[r.pos:]...)
	r.pos = len(r.events)
	return ev
}

// All returns every event recorded so far.
func (r *Recorder) All() []HookEvent {
	r.mu.Lock()
	defer r.mu.Unlock()
	return append([]HookEvent{}, r.events...)
}

func errStr(err error) string {
	if err == nil {
		return ""
	}
	return err.Error()
}

func (r *Recorder) OnConnectAuthenticate(cl *mqtt.Client, pk packets.Packet) bool {
	if r.auth == nil {
		return false
	}
	return r.auth(cl, pk)
}
func (r *Recorder) OnACLCheck(cl *mqtt.Client, topic string, write bool) bool {
	if r.acl == nil {
		return false
	}
	return r.acl(cl, topic, write)
}
func (r *Recorder) OnPacketProcessed(cl *mqtt.Client, pk packets.Packet, err error) {
	r.add(HookEvent{Name: "PacketProcessed", Client: cl.ID, Pk: pk, Err: errStr(err)})
}
func (r *Recorder) OnDisconnect(cl *mqtt.Client, err error, expire bool) {
	x := "keep"
	if expire {
		x = "expire"
	}
	r.add(HookEvent{Name: "Disconnect", Client: cl.ID, Err: errStr(err), Extra: x})
}
func (r *Recorder) OnPublishDropped(cl *mqtt.Client, pk packets.Packet) {
	r.add(HookEvent{Name: "PublishDropped", Client: cl.ID, Pk: pk})
}
func (r *Recorder) OnQosPublish(cl *mqtt.Client, pk packets.Packet, sent int64, resends int) {
	r.add(HookEvent{Name: "QosPublish", Client: cl.ID, Pk: pk, N: sent})
}
func (r *Recorder) OnQosComplete(cl *mqtt.Client, pk packets.Packet) {
	r.add(HookEvent{Name: "QosComplete", Client: cl.ID, Pk: pk})
}
func (r *Recorder) OnQosDropped(cl *mqtt.Client, pk packets.Packet) {
	r.add(HookEvent{Name: "QosDropped", Client: cl.ID, Pk: pk})
}
func (r *Recorder) OnPacketSent(cl *mqtt.Client, pk packets.Packet, b []byte) {
	r.add(HookEvent{Name: "PacketSent", Client: cl.ID, Pk: pk, N: int64(len(b))})
}
func (r *Recorder) OnRetainMessage(cl *mqtt.Client, pk packets.Packet, n int64) {
	r.add(HookEvent{Name: "RetainMessage", Client: cl.ID, Pk: pk, N: n})
}
func (r *Recorder) OnRetainPublished(cl *mqtt.Client, pk packets.Packet) {
	r.add(HookEvent{Name: "RetainPublished", Client: cl.ID, Pk: pk})
}
func (r *Recorder) OnWillSent(cl *mqtt.Client, pk packets.Packet) {
	r.add(HookEvent{Name: "WillSent", Client: cl.ID, Pk: pk})
}
func (r *Recorder) OnClientExpired(cl *mqtt.Client) {
	r.add(HookEvent{Name: "ClientExpired", Client: cl.ID})
}
func (r *Recorder) OnRetainedExpired(filter string) {
	r.add(HookEvent{Name: "RetainedExpired", Extra: filter})
}
func (r *Recorder) OnPacketIDExhausted(cl *mqtt.Client, pk packets.Packet) {
	r.add(HookEvent{Name: "PacketIDExhausted", Client: cl.ID, Pk: pk})
}
func (r *Recorder) OnPublished(cl *mqtt.Client, pk packets.Packet) {
	r.add(HookEvent{Name: "Published", Client: cl.ID, Pk: pk})
}
func (r *Recorder) OnSessionEstablished(cl *mqtt.Client, pk packets.Packet) {
	r.add(HookEvent{Name: "SessionEstablished", Client: cl.ID, Pk: pk})
}
func (r *Recorder) OnSubscribed(cl *mqtt.Client, pk packets.Packet, reasonCodes []byte) {
	r.add(HookEvent{Name: "Subscribed", Client: cl.ID, Pk: pk, Extra: string(reasonCodes)})
}
func (r *Recorder) OnUnsubscribed(cl *mqtt.Client, pk packets.Packet) {
	r.add(HookEvent{Name: "Unsubscribed", Client: cl.ID, Pk: pk})
}
