package broker

import (
	"bytes"
	"fmt"
	"io"
	"log/slog"
	"runtime"
	"sync"
	"sync/atomic"
	"time"

	mqtt "github.com/mochi-mqtt/server/v2"
	"github.com/mochi-mqtt/server/v2/packets"
)

// Opts configures the broker under test.
type Opts struct {
	Caps         *mqtt.Capabilities // nil = defaults
	InlineClient bool
	// Auth / ACL decide in the recording hook. nil Auth = the recording hook provides no
	// authentication (with no other auth hook every connection is refused).
	Auth func(cl *mqtt.Client, pk packets.Packet) bool
	ACL  func(cl *mqtt.Client, topic string, write bool) bool
	// ExtraHooks are added after the recording hook, in order.
	ExtraHooks []mqtt.Hook
	// HooksFirst are added before the recording hook, in order.
	HooksFirst      []mqtt.Hook
	MaxPacketID     uint32 // 0 = leave 65535
	WriteBufferSize int
	ManualTeardown  bool // if set, a connection closed by the broker keeps its handler parked until Teardown(c)
	QuiesceTimeout  time.Duration
	SysInterval     int64
}

// AllowAll is the permissive Auth/ACL.
func AllowAuth(*mqtt.Client, packets.Packet) bool { return true }
func AllowACL(*mqtt.Client, string, bool) bool    { return true }

// Conn is one client connection of the harness.
type Conn struct {
	Idx      int
	MC       *MemConn
	Version  byte
	done     atomic.Bool // EstablishConnection returned
	Err      error
	ClientID string // as sent in CONNECT
	readPos  int    // chunks already drained
	pending  []byte // undecoded tail of the output stream (partial packet)
	held     bool   // broker closed it, handler kept parked (ManualTeardown)
}

// Done reports whether the connection handler has returned.
func (c *Conn) Done() bool { return c.done.Load() }

// HookEvent is one recorded hook call.
type HookEvent struct {
	Step   int
	Name   string
	Client string
	Pk     packets.Packet
	Err    string
	Extra  string
	N      int64
}

// B is a broker under test.
type B struct {
	Srv   *mqtt.Server
	Conns []*Conn
	Rec   *Recorder
	Step  int
	Hung  bool // quiescence was not reached within the timeout at some step
	opts  Opts
	wg    sync.WaitGroup
	// pending counts Do actions that have not returned yet
	pending atomic.Int32
}

// New creates a server (no listeners, no event loop) with the recording hook installed.
func New(o Opts) *B {
	caps := o.Caps
	if caps == nil {
		caps = mqtt.NewDefaultServerCapabilities()
	}
	if o.QuiesceTimeout == 0 {
		o.QuiesceTimeout = 30 * time.Second
	}
	srv := mqtt.New(&mqtt.Options{
		Capabilities:             caps,
		InlineClient:             o.InlineClient,
		Logger:                   slog.New(slog.NewTextHandler(io.Discard, nil)),
		ClientNetWriteBufferSize: o.WriteBufferSize,
		SysTopicResendInterval:   o.SysInterval,
	})
	b := &B{Srv: srv, opts: o}
	b.Rec = &Recorder{b: b, auth: o.Auth, acl: o.ACL}
	for _, h := range o.HooksFirst {
		if err := srv.AddHook(h, nil); err != nil {
			panic(err)
		}
	}
	if err := srv.AddHook(b.Rec, nil); err != nil {
		panic(err)
	}
	for _, h := range o.ExtraHooks {
		if err := srv.AddHook(h, nil); err != nil {
			panic(err)
		}
	}
	if o.MaxPacketID != 0 {
		srv.VerifSetMaxPacketID(o.MaxPacketID)
	}
	return b
}

// Open creates a new network connection to the broker and starts its handler; nothing is sent yet.
func (b *B) Open(remote string) *Conn {
	b.Step++
	c := &Conn{Idx: len(b.Conns), Version: 4}
	c.MC = newMemConn(remote, &b.Step)
	c.MC.holdClose = true
	b.Conns = append(b.Conns, c)
	b.wg.Add(1)
	go func() {
		defer b.wg.Done()
		defer func() {
			if r := recover(); r != nil {
				c.Err = fmt.Errorf("PANIC: %v", r)
				b.Rec.add(HookEvent{Name: "PANIC", Extra: fmt.Sprint(r)})
			}
			c.done.Store(true)
		}()
		c.Err = b.Srv.EstablishConnection("t1", c.MC)
	}()
	b.Quiesce()
	return c
}

// Send feeds bytes to the broker on connection c and waits for quiescence.
func (b *B) Send(c *Conn, data []byte) {
	b.Step++
	c.MC.feed(data)
	b.Quiesce()
}

// SendPacket encodes pk with mochi's encoder (client side) and sends it.
func (b *B) SendPacket(c *Conn, pk packets.Packet) error {
	pk.ProtocolVersion = c.Version
	if pk.FixedHeader.Type == packets.Connect {
		c.Version = pk.ProtocolVersion
		c.ClientID = pk.Connect.ClientIdentifier
	}
	data, err := Encode(pk)
	if err != nil {
		return err
	}
	b.Send(c, data)
	return nil
}

// Connect opens a connection and sends the CONNECT packet.
func (b *B) Connect(remote string, pk packets.Packet) *Conn {
	c := b.Open(remote)
	c.Version = pk.ProtocolVersion
	c.ClientID = pk.Connect.ClientIdentifier
	data, err := Encode(pk)
	if err != nil {
		panic(err)
	}
	b.Send(c, data)
	return c
}

// NetClose simulates the client closing its network connection (no DISCONNECT).
func (b *B) NetClose(c *Conn) {
	b.Step++
	c.MC.peerClose()
	b.Quiesce()
}

// Teardown lets the handler of a connection the broker has closed run to completion
// (only meaningful with ManualTeardown).
func (b *B) Teardown(c *Conn) {
	b.Step++
	c.MC.releaseClose()
	b.Quiesce()
}

// Tick runs one housekeeping task at time now (unix seconds).
func (b *B) Tick(kind string, now int64) {
	b.Step++
	func() {
		// in the real broker the event loop runs this on its own goroutine and nothing recovers a
		// panic there (the process dies); here it is recorded as an observation
		defer func() {
			if r := recover(); r != nil {
				b.Rec.add(HookEvent{Name: "PANIC", Extra: "housekeeping " + kind + ": " + fmt.Sprint(r)})
			}
		}()
		b.Srv.VerifTick(kind, now)
	}()
	b.Quiesce()
}

// Do runs an arbitrary synchronous action against the server as one step (inline API calls, Close...).
func (b *B) Do(f func()) {
	b.Step++
	// f runs in its own goroutine: an action such as Server.Close waits for connection handlers,
	// which stay parked until Quiesce releases them, so f must not block the harness itself.
	b.pending.Add(1)
	go func() {
		defer b.pending.Add(-1)
		defer func() {
			if r := recover(); r != nil {
				b.Rec.add(HookEvent{Name: "PANIC", Extra: fmt.Sprint(r)})
			}
		}()
		f()
	}()
	b.Quiesce()
}

// Quiesce waits until every live handler is parked in Read (or has returned) and no outbound
// queue holds or is writing a packet; checked twice in a row.
func (b *B) Quiesce() {
	deadline := time.Now().Add(b.opts.QuiesceTimeout)
	stable := 0  // consecutive rounds in which connections and queues were quiet
	stableP := 0 // ... and no Do action was running, sampled BEFORE looking at the queues
	spins := 0
	for {
		pz := b.pending.Load() == 0
		ok := b.Srv.VerifQuiescent()
		if ok {
			for _, c := range b.Conns {
				if c.Done() || c.MC.parked() {
					continue
				}
				ok = false
				break
			}
		}
		if ok {
			stable++
			if pz {
				stableP++
			} else {
				stableP = 0
			}
			if stable >= 3 {
				// everything else is quiet: now let the handler of a connection the broker closed
				// from another goroutine (takeover, shutdown) run its teardown, one at a time, in
				// connection order, so that the order of effects is deterministic.  This also happens
				// while a Do action is pending (Server.Close waits for the handlers).
				released := false
				if !b.opts.ManualTeardown {
					if c := b.heldConn(); c != nil {
						c.MC.releaseClose()
						stable, stableP = 0, 0
						released = true
					}
				}
				if !released && stableP >= 3 {
					return
				}
			}
		} else {
			stable, stableP = 0, 0
		}
		spins++
		if spins < 50 {
			runtime.Gosched()
		} else {
			time.Sleep(20 * time.Microsecond)
		}
		if time.Now().After(deadline) {
			b.Hung = true
			return
		}
	}
}

func (b *B) heldConn() *Conn {
	for _, c := range b.Conns {
		if !c.Done() && c.MC.heldParked() {
			return c
		}
	}
	return nil
}

// Held lists the connections whose handler is still parked although the broker closed them.
func (b *B) Held() []*Conn {
	var r []*Conn
	for _, c := range b.Conns {
		if !c.Done() && c.MC.heldParked() {
			r = append(r, c)
		}
	}
	return r
}

// Out is what one connection received during the last drain.
type Out struct {
	Conn    int
	Raw     []byte
	Packets []packets.Packet
	DecErr  string // mochi's decoder failed on the stream (the raw bytes are still available)
	Closed  bool   // the broker has closed the connection
	Done    bool   // the handler returned
}

// Drain returns, per connection, the bytes written since the previous Drain, decoded with
// mochi's own decoder for convenience (raw bytes are kept for independent decoding).
func (b *B) Drain() []Out {
	var outs []Out
	for _, c := range b.Conns {
		chunks := c.MC.chunksFrom(c.readPos)
		c.readPos += len(chunks)
		var raw []byte
		for _, ch := range chunks {
			raw = append(raw, ch.Data...)
		}
		o := Out{Conn: c.Idx, Raw: raw, Closed: c.MC.Closed(), Done: c.Done()}
		if len(raw) > 0 {
			stream := append(c.pending, raw...)
			pks, rest, err := DecodeStream(c.Version, stream)
			o.Packets = pks
			c.pending = append([]byte{}, rest...)
			if err != nil {
				o.DecErr = err.Error()
				c.pending = nil
			}
		}
		if len(raw) > 0 || o.Closed || o.Done {
			outs = append(outs, o)
		}
	}
	return outs
}

// Shutdown stops everything (closes all connections, waits for handlers).
func (b *B) Shutdown() {
	for _, c := range b.Conns {
		c.MC.releaseClose()
		c.MC.peerClose()
	}
	done := make(chan struct{})
	go func() { b.wg.Wait(); close(done) }()
	select {
	case <-done:
	case <-time.After(20 * time.Second):
		b.Hung = true
	}
}

// Encode encodes a packet with mochi's encoder.
func Encode(pk packets.Packet) ([]byte, error) {
	buf := new(bytes.Buffer)
	var err error
	switch pk.FixedHeader.Type {
	case packets.Connect:
		err = pk.ConnectEncode(buf)
	case packets.Connack:
		err = pk.ConnackEncode(buf)
	case packets.Publish:
		err = pk.PublishEncode(buf)
	case packets.Puback:
		err = pk.PubackEncode(buf)
	case packets.Pubrec:
		err = pk.PubrecEncode(buf)
	case packets.Pubrel:
		err = pk.PubrelEncode(buf)
	case packets.Pubcomp:
		err = pk.PubcompEncode(buf)
	case packets.Subscribe:
		err = pk.SubscribeEncode(buf)
	case packets.Suback:
		err = pk.SubackEncode(buf)
	case packets.Unsubscribe:
		err = pk.UnsubscribeEncode(buf)
	case packets.Unsuback:
		err = pk.UnsubackEncode(buf)
	case packets.Pingreq:
		err = pk.PingreqEncode(buf)
	case packets.Pingresp:
		err = pk.PingrespEncode(buf)
	case packets.Disconnect:
		err = pk.DisconnectEncode(buf)
	case packets.Auth:
		err = pk.AuthEncode(buf)
	default:
		err = fmt.Errorf("bad type %d", pk.FixedHeader.Type)
	}
	return buf.Bytes(), err
}

// DecodeStream splits a byte stream into packets using mochi's decoder. It returns the decoded
// packets, the undecoded tail (an incomplete packet) and an error for a malformed packet.
func DecodeStream(version byte, b []byte) (pks []packets.Packet, rest []byte, err error) {
	defer func() {
		if r := recover(); r != nil {
			err = fmt.Errorf("decoder panic: %v", r)
		}
	}()
	for len(b) > 0 {
		var fh packets.FixedHeader
		if e := fh.Decode(b[0]); e != nil {
			return pks, b, e
		}
		rd := bytes.NewReader(b[1:])
		n, bu, e := packets.DecodeLength(rd)
		if e != nil {
			if e == io.EOF {
				return pks, b, nil
			}
			return pks, b, e
		}
		if len(b) < 1+bu+n {
			return pks, b, nil
		}
		fh.Remaining = n
		body := append([]byte{}, b[1+bu:1+bu+n]...)
		pk := packets.Packet{FixedHeader: fh, ProtocolVersion: version}
		switch fh.Type {
		case packets.Connack:
			e = pk.ConnackDecode(body)
		case packets.Publish:
			e = pk.PublishDecode(body)
		case packets.Puback:
			e = pk.PubackDecode(body)
		case packets.Pubrec:
			e = pk.PubrecDecode(body)
		case packets.Pubrel:
			e = pk.PubrelDecode(body)
		case packets.Pubcomp:
			e = pk.PubcompDecode(body)
		case packets.Suback:
			e = pk.SubackDecode(body)
		case packets.Unsuback:
			e = pk.UnsubackDecode(body)
		case packets.Pingresp:
		case packets.Disconnect:
			e = pk.DisconnectDecode(body)
		case packets.Auth:
			e = pk.AuthDecode(body)
		default:
			e = fmt.Errorf("packet type %d is not sent by a server", fh.Type)
		}
		if e != nil {
			return pks, b, e
		}
		pks = append(pks, pk)
		b = b[1+bu+n:]
	}
	return pks, nil, nil
}
