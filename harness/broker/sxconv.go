package broker

import (
	mqtt "github.com/mochi-mqtt/server/v2"
	"github.com/mochi-mqtt/server/v2/packets"

	"verifharness/sx"
)

// The positional layouts below are parsed by coq/Session/Pkt.v; keep the two in step.

// PropsSx: (alias subids mei ct rt cd user rs sei seiflag rm tam maxqos maxqosflag aci ska skaflag
//           pfi pfiflag mps wdi ri sr rpi rpiflag rri)
func PropsSx(p packets.Properties) sx.V {
	subids := sx.L{}
	for _, i := range p.SubscriptionIdentifier {
		subids = append(subids, sx.N(uint64(i)))
	}
	user := sx.L{}
	for _, u := range p.User {
		user = append(user, sx.L{sx.S(u.Key), sx.S(u.Val)})
	}
	alias := uint64(0)
	if p.TopicAliasFlag {
		alias = uint64(p.TopicAlias)
	}
	return sx.L{
		sx.N(alias), subids, sx.N(uint64(p.MessageExpiryInterval)), sx.S(p.ContentType), sx.S(p.ResponseTopic),
		sx.B(p.CorrelationData), user, sx.S(p.ReasonString), sx.N(uint64(p.SessionExpiryInterval)),
		sx.Bool(p.SessionExpiryIntervalFlag), sx.N(uint64(p.ReceiveMaximum)), sx.N(uint64(p.TopicAliasMaximum)),
		sx.N(uint64(p.MaximumQos)), sx.Bool(p.MaximumQosFlag), sx.S(p.AssignedClientID),
		sx.N(uint64(p.ServerKeepAlive)), sx.Bool(p.ServerKeepAliveFlag), sx.N(uint64(p.PayloadFormat)),
		sx.Bool(p.PayloadFormatFlag), sx.N(uint64(p.MaximumPacketSize)), sx.N(uint64(p.WillDelayInterval)),
		sx.S(p.ResponseInfo), sx.S(p.ServerReference), sx.N(uint64(p.RequestProblemInfo)),
		sx.Bool(p.RequestProblemInfoFlag), sx.N(uint64(p.RequestResponseInfo)),
	}
}

// SubSx: (filter qos nolocal rap rh id)
func SubSx(s packets.Subscription) sx.V {
	return sx.L{sx.S(s.Filter), sx.N(uint64(s.Qos)), sx.Bool(s.NoLocal), sx.Bool(s.RetainAsPublished),
		sx.N(uint64(s.RetainHandling)), sx.N(uint64(s.Identifier))}
}

// PkSx: (type dup qos retain pid topic payload rc rcs sp props filters)
func PkSx(pk packets.Packet) sx.V {
	filters := sx.L{}
	for _, f := range pk.Filters {
		filters = append(filters, SubSx(f))
	}
	return sx.L{
		sx.N(uint64(pk.FixedHeader.Type)), sx.Bool(pk.FixedHeader.Dup), sx.N(uint64(pk.FixedHeader.Qos)),
		sx.Bool(pk.FixedHeader.Retain), sx.N(uint64(pk.PacketID)), sx.S(pk.TopicName), sx.B(pk.Payload),
		sx.N(uint64(pk.ReasonCode)), sx.B(pk.ReasonCodes), sx.Bool(pk.SessionPresent), PropsSx(pk.Properties), filters,
	}
}

// ConnectSx: (version clean keepalive clientid willflag willqos willretain willtopic willpayload
//             willdelay userflag username passflag password props)
func ConnectSx(pk packets.Packet) sx.V {
	c := pk.Connect
	return sx.L{
		sx.N(uint64(pk.ProtocolVersion)), sx.Bool(c.Clean), sx.N(uint64(c.Keepalive)), sx.S(c.ClientIdentifier),
		sx.Bool(c.WillFlag), sx.N(uint64(c.WillQos)), sx.Bool(c.WillRetain), sx.S(c.WillTopic), sx.B(c.WillPayload),
		sx.N(uint64(c.WillProperties.WillDelayInterval)), sx.Bool(c.UsernameFlag), sx.B(c.Username),
		sx.Bool(c.PasswordFlag), sx.B(c.Password), PropsSx(pk.Properties),
	}
}

// OutSx: (conn raw pkts closed done decerr)
func OutSx(o Out) sx.V {
	pks := sx.L{}
	for _, p := range o.Packets {
		pks = append(pks, PkSx(p))
	}
	return sx.L{sx.N(uint64(o.Conn)), sx.B(o.Raw), pks, sx.Bool(o.Closed), sx.Bool(o.Done), sx.S(o.DecErr)}
}

func OutsSx(os []Out) sx.V {
	l := sx.L{}
	for _, o := range os {
		l = append(l, OutSx(o))
	}
	return l
}

// HookSx: (name client pk err extra n)
func HookSx(e HookEvent) sx.V {
	n := e.N
	if n < 0 {
		n = 0
	}
	return sx.L{sx.S(e.Name), sx.S(e.Client), PkSx(e.Pk), sx.S(e.Err), sx.S(e.Extra), sx.N(uint64(n))}
}

// HooksSx converts events, keeping only those whose name is in keep (nil = all).
func HooksSx(es []HookEvent, keep map[string]bool) sx.V {
	l := sx.L{}
	for _, e := range es {
		if keep == nil || keep[e.Name] {
			l = append(l, HookSx(e))
		}
	}
	return l
}

func z(n int64) sx.V {
	// signed values: (0 n) for n >= 0, (1 |n|) for n < 0
	if n < 0 {
		return sx.L{sx.N(1), sx.N(uint64(-n))}
	}
	return sx.L{sx.N(0), sx.N(uint64(n))}
}

// InflightSx: (pid type qos dup retain topic payload created expiry alias) with created/expiry signed
func InflightSx(i mqtt.VerifInflight) sx.V {
	return sx.L{sx.N(uint64(i.PacketID)), sx.N(uint64(i.Type)), sx.N(uint64(i.Qos)), sx.Bool(i.Dup), sx.Bool(i.Retain),
		sx.S(i.Topic), sx.B(i.Payload), z(i.Created), z(i.Expiry), sx.N(uint64(i.Alias))}
}

// ClientSx: (id connected takenover stoptime version clean sei seiflag willflag inflight sendq recvq
//            maxsend maxrecv packetid subs outboundlen)
func ClientSx(c mqtt.VerifClient) sx.V {
	infl := sx.L{}
	for _, i := range c.Inflight {
		infl = append(infl, InflightSx(i))
	}
	subs := sx.L{}
	for _, s := range c.Subscriptions {
		subs = append(subs, SubSx(s))
	}
	return sx.L{sx.S(c.ID), sx.Bool(c.Connected), sx.Bool(c.TakenOver), z(c.StopTime), sx.N(uint64(c.Version)),
		sx.Bool(c.Clean), sx.N(uint64(c.SEI)), sx.Bool(c.SEIFlag), sx.N(uint64(c.WillFlag)), infl,
		z(int64(c.SendQuota)), z(int64(c.RecvQuota)), z(int64(c.MaxSendQuota)), z(int64(c.MaxRecvQuota)),
		sx.N(uint64(c.PacketID)), subs, sx.N(uint64(c.OutboundLen))}
}

// SnapSx: (clients infoConnected infoSubs infoRetained infoInflight actualSubs actualInline
//          actualRetained actualInflight actualConnected willDelayed) — info* are signed
func SnapSx(s mqtt.VerifSnap) sx.V {
	cls := sx.L{}
	for _, c := range s.Clients {
		cls = append(cls, ClientSx(c))
	}
	wd := sx.L{}
	for _, id := range s.WillDelayed {
		wd = append(wd, sx.S(id))
	}
	return sx.L{cls, z(s.InfoConnected), z(s.InfoSubs), z(s.InfoRetained), z(s.InfoInflight),
		sx.N(uint64(s.ActualSubs)), sx.N(uint64(s.ActualInline)), sx.N(uint64(s.ActualRetained)),
		sx.N(uint64(s.ActualInflight)), sx.N(uint64(s.ActualConnected)), wd}
}
