// Package fsched forces schedules on the real broker goroutines.  The broker code (built with the
// `verif` tag) calls mqtt.verifPoint(name) at named schedule points; Ctl.Hook is installed as
// mqtt.VerifPointHook.  A goroutine that registered itself as a controlled thread parks at every
// point whose name is in the stop set until the harness releases it; all other goroutines pass
// through.  The harness realises a schedule (a list of thread keys) entry by entry: release the
// thread, wait until every controlled thread is settled again (parked at a point, finished, or
// blocked on network input / a WaitGroup — never merely on a mutex inside the broker), observe.
package fsched

import (
	"bytes"
	"runtime"
	"strconv"
	"strings"
	"sync"
	"time"
)

// Thread is one controlled goroutine.
type Thread struct {
	Key      string
	gid      uint64
	at       string
	parked   bool
	finished bool
	rel      chan struct{}
	passed   []string
}

// Ctl is the schedule controller.
type Ctl struct {
	mu      sync.Mutex
	threads map[string]*Thread
	byG     map[uint64]*Thread
	stops   map[string]bool
	gen     uint64
	order   []string // keys in registration order
	// WaitSites: a goroutine blocked on a semaphore counts as settled only if its stack contains
	// one of these substrings (the WaitGroup.Wait call sites that only other controlled threads
	// can end).  Default: none — only network reads count.
	WaitSites []string
}

// New creates a controller; controlled goroutines park at the points named in stops.
func New(stops ...string) *Ctl {
	c := &Ctl{threads: map[string]*Thread{}, byG: map[uint64]*Thread{}, stops: map[string]bool{}}
	for _, s := range stops {
		c.stops[s] = true
	}
	return c
}

// GoID is the runtime's identifier of the calling goroutine (parsed from its stack header).
func GoID() uint64 {
	var buf [64]byte
	n := runtime.Stack(buf[:], false)
	// "goroutine 123 [running]:..."
	f := bytes.Fields(buf[:n])
	if len(f) < 2 {
		return 0
	}
	id, _ := strconv.ParseUint(string(f[1]), 10, 64)
	return id
}

// Register makes the calling goroutine the controlled thread `key`.
func (c *Ctl) Register(key string) {
	g := GoID()
	c.mu.Lock()
	t := &Thread{Key: key, gid: g, rel: make(chan struct{}, 1)}
	c.threads[key] = t
	c.byG[g] = t
	c.order = append(c.order, key)
	c.gen++
	c.mu.Unlock()
}

// Finish marks the calling goroutine's thread as finished.
func (c *Ctl) Finish(key string) {
	c.mu.Lock()
	if t := c.threads[key]; t != nil {
		t.finished = true
		t.parked = false
		t.at = ""
		delete(c.byG, t.gid)
	}
	c.gen++
	c.mu.Unlock()
}

// Hook is installed as mqtt.VerifPointHook.
func (c *Ctl) Hook(name string) {
	g := GoID()
	c.mu.Lock()
	t := c.byG[g]
	if t == nil {
		c.mu.Unlock()
		return
	}
	t.passed = append(t.passed, name)
	if !c.stops[name] {
		c.mu.Unlock()
		return
	}
	t.parked = true
	t.at = name
	c.gen++
	c.mu.Unlock()
	<-t.rel
}

// Release lets a parked thread run on; false if it is not parked.
func (c *Ctl) Release(key string) bool {
	c.mu.Lock()
	t := c.threads[key]
	if t == nil || !t.parked {
		c.mu.Unlock()
		return false
	}
	t.parked = false
	t.at = ""
	c.gen++
	c.mu.Unlock()
	t.rel <- struct{}{}
	return true
}

// State of a thread: known (registered), parked at which point, finished.
func (c *Ctl) State(key string) (known bool, at string, finished bool) {
	c.mu.Lock()
	defer c.mu.Unlock()
	t := c.threads[key]
	if t == nil {
		return false, "", false
	}
	return true, t.at, t.finished
}

// Passed lists every point the thread has reached so far (parked or not).
func (c *Ctl) Passed(key string) []string {
	c.mu.Lock()
	defer c.mu.Unlock()
	if t := c.threads[key]; t != nil {
		return append([]string{}, t.passed...)
	}
	return nil
}

// Keys of all registered threads in registration order.
func (c *Ctl) Keys() []string {
	c.mu.Lock()
	defer c.mu.Unlock()
	return append([]string{}, c.order...)
}

// goroutine states from a full stack dump: id -> (state, stack text)
type gstate struct {
	state string // "running", "IO wait", "semacquire", "sync.Mutex.Lock", ...
	stack string
}

func goroutineStates() map[uint64]gstate {
	buf := make([]byte, 1<<18)
	for {
		n := runtime.Stack(buf, true)
		if n < len(buf) {
			buf = buf[:n]
			break
		}
		buf = make([]byte, 2*len(buf))
	}
	res := map[uint64]gstate{}
	for _, blk := range strings.Split(string(buf), "\n\n") {
		if !strings.HasPrefix(blk, "goroutine ") {
			continue
		}
		line := blk
		if i := strings.IndexByte(blk, '\n'); i >= 0 {
			line = blk[:i]
		}
		rest := line[len("goroutine "):]
		sp := strings.IndexByte(rest, ' ')
		if sp < 0 {
			continue
		}
		id, err := strconv.ParseUint(rest[:sp], 10, 64)
		if err != nil {
			continue
		}
		st := rest[sp+1:]
		st = strings.TrimPrefix(st, "[")
		if i := strings.IndexAny(st, ",]"); i >= 0 {
			st = st[:i]
		}
		res[id] = gstate{state: st, stack: blk}
	}
	return res
}

// stablyBlocked: the goroutine waits for something only the harness or another controlled thread
// can provide: network input (the netpoller) or a sync.WaitGroup.Wait at one of the declared call
// sites (Ctl.WaitSites).  A goroutine that is merely
// blocked for a moment inside the broker (a mutex in WritePacket, a channel hand-off, the
// scheduler) is NOT settled: sampling then would catch it half-way through its step.
func stablyBlocked(g gstate, sites []string) bool {
	if g.state == "IO wait" {
		return true
	}
	// (the state of a goroutine already released from the semaphore is "runnable"; a WaitGroup
	// that uncontrolled goroutines complete, e.g. Hooks.Stop, is not a stable place)
	if (g.state == "semacquire" || g.state == "sync.WaitGroup.Wait") && strings.Contains(g.stack, "sync.(*WaitGroup).Wait") {
		for _, site := range sites {
			if strings.Contains(g.stack, site) {
				return true
			}
		}
	}
	return false
}

// Settle waits until every controlled thread is parked at a verifPoint, has finished, or is
// blocked in a way that only the harness or another controlled thread can end, and nothing moved
// between two looks.  It returns false on timeout (a hang).
//
// With a predicate, a thread that is neither parked nor finished counts as settled only if
// blocked(key) holds (e.g. its in-memory connection is parked in Read): the runtime's view of the
// goroutine is not consulted at all.  Without a predicate (real sockets) the goroutine dump is
// consulted, and only "IO wait" (network read) and sync.WaitGroup.Wait at a declared site count (stablyBlocked), seen
// in two consecutive dumps.
func (c *Ctl) Settle(timeout time.Duration, blocked func(key string) bool) bool {
	start := time.Now()
	deadline := start.Add(timeout)
	var lastGen uint64
	good := 0
	spins := 0
	for {
		c.mu.Lock()
		gen := c.gen
		var unknown []*Thread
		for _, t := range c.threads {
			if t.parked || t.finished {
				continue
			}
			unknown = append(unknown, t)
		}
		c.mu.Unlock()
		ok := true
		var states map[uint64]gstate
		for _, t := range unknown {
			if blocked != nil {
				if blocked(t.Key) {
					continue
				}
				ok = false
				break
			}
			if spins < 200 && time.Since(start) < 300*time.Microsecond {
				ok = false
				break
			}
			if states == nil {
				states = goroutineStates()
			}
			if !stablyBlocked(states[t.gid], c.WaitSites) {
				ok = false
				break
			}
		}
		if ok && good > 0 && gen == lastGen {
			good++
		} else if ok {
			good = 1
		} else {
			good = 0
		}
		lastGen = gen
		if good >= 2 {
			return true
		}
		if time.Now().After(deadline) {
			return false
		}
		spins++
		if spins < 200 {
			runtime.Gosched()
		} else {
			time.Sleep(20 * time.Microsecond)
		}
	}
}

// WaitParked waits until thread key is registered and parked (at any stop point) or finished.
func (c *Ctl) WaitParked(key string, timeout time.Duration) bool {
	deadline := time.Now().Add(timeout)
	spins := 0
	for {
		c.mu.Lock()
		t := c.threads[key]
		ok := t != nil && (t.parked || t.finished)
		c.mu.Unlock()
		if ok {
			return true
		}
		if time.Now().After(deadline) {
			return false
		}
		spins++
		if spins < 200 {
			runtime.Gosched()
		} else {
			time.Sleep(20 * time.Microsecond)
		}
	}
}
