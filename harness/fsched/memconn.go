package fsched

import (
	"errors"
	"io"
	"net"
	"sync"
	"time"
)

type memAddr string

func (a memAddr) Network() string { return "mem" }
func (a memAddr) String() string  { return string(a) }

// Conn is an in-memory net.Conn for forced schedules: Write never blocks and is recorded; Read
// serves the bytes fed by the harness and otherwise parks (Blocked reports that) until more is
// fed, the client side closes (io.EOF) or the broker closes the connection (net.ErrClosed).
type Conn struct {
	mu           sync.Mutex
	cond         *sync.Cond
	in           []byte
	out          []byte
	waiting      bool
	peerClosed   bool
	serverClosed bool
	remote       string
}

func NewConn(remote string) *Conn {
	c := &Conn{remote: remote}
	c.cond = sync.NewCond(&c.mu)
	return c
}

func (c *Conn) Read(p []byte) (int, error) {
	c.mu.Lock()
	defer c.mu.Unlock()
	for len(c.in) == 0 {
		if c.serverClosed {
			return 0, net.ErrClosed
		}
		if c.peerClosed {
			return 0, io.EOF
		}
		c.waiting = true
		c.cond.Wait()
	}
	c.waiting = false
	n := copy(p, c.in)
	c.in = c.in[n:]
	return n, nil
}

func (c *Conn) Write(p []byte) (int, error) {
	c.mu.Lock()
	defer c.mu.Unlock()
	if c.serverClosed {
		return 0, errors.New("write on closed connection")
	}
	if c.peerClosed {
		return 0, errors.New("broken pipe")
	}
	c.out = append(c.out, p...)
	return len(p), nil
}

func (c *Conn) Close() error {
	c.mu.Lock()
	c.serverClosed = true
	c.waiting = false
	c.cond.Broadcast()
	c.mu.Unlock()
	return nil
}

func (c *Conn) LocalAddr() net.Addr                { return memAddr("broker") }
func (c *Conn) RemoteAddr() net.Addr               { return memAddr(c.remote) }
func (c *Conn) SetDeadline(t time.Time) error      { return nil }
func (c *Conn) SetReadDeadline(t time.Time) error  { return nil }
func (c *Conn) SetWriteDeadline(t time.Time) error { return nil }

// Feed makes bytes available to the broker's reader.
func (c *Conn) Feed(b []byte) {
	c.mu.Lock()
	c.in = append(c.in, b...)
	c.waiting = false
	c.cond.Broadcast()
	c.mu.Unlock()
}

// PeerClose: the client closes its end.
func (c *Conn) PeerClose() {
	c.mu.Lock()
	c.peerClosed = true
	c.waiting = false
	c.cond.Broadcast()
	c.mu.Unlock()
}

// Blocked: the broker's reader is parked with nothing to read.
func (c *Conn) Blocked() bool {
	c.mu.Lock()
	defer c.mu.Unlock()
	return c.waiting && len(c.in) == 0 && !c.serverClosed && !c.peerClosed
}

// ServerClosed: the broker closed the connection.
func (c *Conn) ServerClosed() bool {
	c.mu.Lock()
	defer c.mu.Unlock()
	return c.serverClosed
}

// PeerClosed: the client closed the connection.
func (c *Conn) PeerClosed() bool {
	c.mu.Lock()
	defer c.mu.Unlock()
	return c.peerClosed
}

// Output is everything the broker wrote so far.
func (c *Conn) Output() []byte {
	c.mu.Lock()
	defer c.mu.Unlock()
	return append([]byte{}, c.out...)
}

// Connack returns the reason code of the CONNACK at the start of the broker's output, or 255.
func Connack(out []byte) int {
	if len(out) >= 4 && out[0] == 0x20 {
		return int(out[3])
	}
	return 255
}

// DisconnectCode scans the output after the CONNACK for a DISCONNECT packet and returns its
// reason code (0 for a bare MQTT 3/5 DISCONNECT with remaining length 0), or -1 if there is none.
func DisconnectCode(out []byte) int {
	i := 0
	for i+1 < len(out) {
		ty := out[i] >> 4
		// remaining length (variable byte integer)
		rl, mult, j := 0, 1, i+1
		for {
			if j >= len(out) {
				return -1
			}
			b := out[j]
			rl += int(b&0x7f) * mult
			mult *= 128
			j++
			if b&0x80 == 0 {
				break
			}
		}
		if ty == 14 {
			if rl == 0 || j >= len(out) {
				return 0
			}
			return int(out[j])
		}
		i = j + rl
	}
	return -1
}
