// Package sx writes the s-expression case format read by the OCaml driver (modeld).
package sx

import (
	"bufio"
	"encoding/hex"
	"os"
	"strconv"
	"strings"
)

// V is a value: N (number), B (bytes) or L (list).
type V interface{ write(sb *strings.Builder) }

type N uint64
type B []byte
type L []V

func (n N) write(sb *strings.Builder) { sb.WriteString(strconv.FormatUint(uint64(n), 10)) }
func (b B) write(sb *strings.Builder) { sb.WriteByte('x'); sb.WriteString(hex.EncodeToString(b)) }
func (l L) write(sb *strings.Builder) {
	sb.WriteByte('(')
	for i, v := range l {
		if i > 0 {
			sb.WriteByte(' ')
		}
		v.write(sb)
	}
	sb.WriteByte(')')
}

// S is a byte string given as a Go string.
func S(s string) B { return B([]byte(s)) }

// Bool encodes a bool as 0/1.
func Bool(b bool) N {
	if b {
		return 1
	}
	return 0
}

func String(v V) string {
	var sb strings.Builder
	v.write(&sb)
	return sb.String()
}

// Out is a buffered case writer on stdout.
type Out struct {
	w *bufio.Writer
	n int
}

func NewOut() *Out { return &Out{w: bufio.NewWriterSize(os.Stdout, 1<<20)} }

func (o *Out) Case(v V) {
	o.w.WriteString(String(v))
	o.w.WriteByte('\n')
	o.n++
}
func (o *Out) Comment(s string) { o.w.WriteString("# " + s + "\n") }
func (o *Out) Count() int       { return o.n }
func (o *Out) Flush()           { o.w.Flush() }
