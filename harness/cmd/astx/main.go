package main

import (
	"encoding/json"
	"flag"
	"fmt"
	"os"
)

// usage: VERIF_REPO=/repo astx lockgraph|access -coq <out.v> -json <out.json>
func main() {
	if len(os.Args) < 2 {
		fatal("usage: astx lockgraph|access -coq <out.v> -json <out.json>")
	}
	fs := flag.NewFlagSet(os.Args[1], flag.ExitOnError)
	coq := fs.String("coq", "", "Coq output file")
	js := fs.String("json", "", "JSON side file (names, positions, notes)")
	fs.Parse(os.Args[2:])
	w := loadWorld()
	var coqText string
	var side any
	switch os.Args[1] {
	case "lockgraph":
		res := analyseLockGraph(w)
		coqText, side = res.coq(), res
	case "access":
		res := analyseAccess(w)
		coqText, side = res.coq(), res
	default:
		fatal("unknown sub-command %s", os.Args[1])
	}
	if *coq != "" {
		if err := os.WriteFile(*coq, []byte(coqText), 0o644); err != nil {
			fatal("%v", err)
		}
	} else {
		fmt.Print(coqText)
	}
	if *js != "" {
		b, _ := json.MarshalIndent(side, "", " ")
		if err := os.WriteFile(*js, append(b, '\n'), 0o644); err != nil {
			fatal("%v", err)
		}
	}
	if len(w.errs) > 0 {
		fmt.Fprintf(os.Stderr, "astx: %d type-check diagnostics ignored (third-party imports are stubbed); first: %s\n", len(w.errs), w.errs[0])
	}
}
