// astx: small structural translators from the Go sources of mochi-mqtt/server to Coq data files.
// Only the standard library is used (go/parser, go/ast, go/types).  The repository analysed is
// $VERIF_REPO (default /repo).
package main

import (
	"bufio"
	"fmt"
	"go/ast"
	"go/build"
	"go/importer"
	"go/parser"
	"go/token"
	"go/types"
	"os"
	"path/filepath"
	"sort"
	"strings"
)

// the packages whose non-test files are analysed (relative to the module root)
var scopeDirs = []string{".", "packets", "hooks/auth", "hooks/storage", "mempool", "listeners", "system"}

type pkgInfo struct {
	dir   string // relative dir
	path  string // import path
	files []*ast.File
	pkg   *types.Package
	info  *types.Info
	short string // prefix used in names ("" for the root package)
}

type world struct {
	repo    string
	module  string
	fset    *token.FileSet
	pkgs    map[string]*pkgInfo // by import path
	scope   []*pkgInfo          // the analysed packages, in scopeDirs order
	std     types.Importer
	loading map[string]bool
	errs    []string
}

func modulePath(repo string) string {
	f, err := os.Open(filepath.Join(repo, "go.mod"))
	if err != nil {
		fatal("cannot read go.mod: %v", err)
	}
	defer f.Close()
	sc := bufio.NewScanner(f)
	for sc.Scan() {
		l := strings.TrimSpace(sc.Text())
		if strings.HasPrefix(l, "module ") {
			return strings.TrimSpace(strings.TrimPrefix(l, "module "))
		}
	}
	fatal("no module line in go.mod")
	return ""
}

func fatal(f string, a ...any) {
	fmt.Fprintf(os.Stderr, "astx: "+f+"\n", a...)
	os.Exit(2)
}

func loadWorld() *world {
	repo := os.Getenv("VERIF_REPO")
	if repo == "" {
		repo = "/repo"
	}
	repo, _ = filepath.Abs(repo)
	w := &world{repo: repo, module: modulePath(repo), fset: token.NewFileSet(),
		pkgs: map[string]*pkgInfo{}, loading: map[string]bool{}}
	build.Default.CgoEnabled = false
	w.std = importer.ForCompiler(w.fset, "source", nil)
	for _, d := range scopeDirs {
		ip := w.module
		if d != "." {
			ip = w.module + "/" + d
		}
		p := w.load(ip)
		if p == nil {
			fatal("cannot load package %s", ip)
		}
		w.scope = append(w.scope, p)
	}
	return w
}

// Import implements types.Importer: module packages are type-checked from $VERIF_REPO, the
// standard library from source; anything else (third-party modules) becomes an empty package
// (type errors caused by that are ignored: nothing analysed here depends on those types).
func (w *world) Import(path string) (*types.Package, error) {
	if path == w.module || strings.HasPrefix(path, w.module+"/") {
		p := w.load(path)
		if p == nil {
			return nil, fmt.Errorf("cannot load %s", path)
		}
		return p.pkg, nil
	}
	if !strings.Contains(strings.Split(path, "/")[0], ".") {
		if p, err := w.std.Import(path); err == nil {
			return p, nil
		}
	}
	name := path[strings.LastIndex(path, "/")+1:]
	fp := types.NewPackage(path, name)
	fp.MarkComplete()
	return fp, nil
}

func (w *world) load(ip string) *pkgInfo {
	if p, ok := w.pkgs[ip]; ok {
		return p
	}
	if w.loading[ip] {
		return nil
	}
	w.loading[ip] = true
	rel := strings.TrimPrefix(strings.TrimPrefix(ip, w.module), "/")
	if rel == "" {
		rel = "."
	}
	dir := filepath.Join(w.repo, rel)
	ents, err := os.ReadDir(dir)
	if err != nil {
		return nil
	}
	var names []string
	for _, e := range ents {
		n := e.Name()
		if e.IsDir() || !strings.HasSuffix(n, ".go") || strings.HasSuffix(n, "_test.go") {
			continue
		}
		names = append(names, n)
	}
	sort.Strings(names)
	p := &pkgInfo{dir: rel, path: ip}
	for _, n := range names {
		full := filepath.Join(dir, n)
		// honour build constraints with the default context (so //go:build verif files are
		// excluded: the analysis is about the code that ships)
		if ok, _ := build.Default.MatchFile(dir, n); !ok {
			continue
		}
		f, err := parser.ParseFile(w.fset, full, nil, parser.SkipObjectResolution)
		if err != nil {
			fatal("parse %s: %v", full, err)
		}
		p.files = append(p.files, f)
	}
	if len(p.files) == 0 {
		return nil
	}
	p.info = &types.Info{
		Types:      map[ast.Expr]types.TypeAndValue{},
		Defs:       map[*ast.Ident]types.Object{},
		Uses:       map[*ast.Ident]types.Object{},
		Selections: map[*ast.SelectorExpr]*types.Selection{},
	}
	cfg := types.Config{Importer: w, FakeImportC: true, Error: func(err error) {
		w.errs = append(w.errs, err.Error())
	}}
	p.pkg, _ = cfg.Check(ip, w.fset, p.files, p.info)
	if rel != "." {
		p.short = rel[strings.LastIndex(rel, "/")+1:] + "."
		if rel == "hooks/storage" {
			p.short = "storage."
		}
	}
	w.pkgs[ip] = p
	return p
}

func (w *world) inScope(pkg *types.Package) *pkgInfo {
	if pkg == nil {
		return nil
	}
	for _, p := range w.scope {
		if p.pkg == pkg {
			return p
		}
	}
	return nil
}

func (w *world) pos(p token.Pos) string {
	ps := w.fset.Position(p)
	rel, err := filepath.Rel(w.repo, ps.Filename)
	if err != nil {
		rel = ps.Filename
	}
	return fmt.Sprintf("%s:%d", rel, ps.Line)
}

// typeName gives "Clients", "packets.Packets", ... for a named type of an analysed package.
func (w *world) typeName(t types.Type) string {
	t = deref(t)
	n, ok := t.(*types.Named)
	if !ok {
		return ""
	}
	o := n.Obj()
	if p := w.inScope(o.Pkg()); p != nil {
		return p.short + o.Name()
	}
	if o.Pkg() != nil {
		return o.Pkg().Name() + "." + o.Name()
	}
	return o.Name()
}

func deref(t types.Type) types.Type {
	for {
		p, ok := t.(*types.Pointer)
		if !ok {
			return t
		}
		t = p.Elem()
	}
}

func isSyncType(t types.Type, names ...string) bool {
	n, ok := deref(t).(*types.Named)
	if !ok || n.Obj().Pkg() == nil || n.Obj().Pkg().Path() != "sync" {
		return false
	}
	for _, s := range names {
		if n.Obj().Name() == s {
			return true
		}
	}
	return false
}

// funcName names a declared function or method: "Clients.Add", "packets.Packets.Add", "NewClients".
func (w *world) funcName(f *types.Func) string {
	p := w.inScope(f.Pkg())
	short := ""
	if p != nil {
		short = p.short
	} else if f.Pkg() != nil {
		short = f.Pkg().Name() + "."
	}
	sig, _ := f.Type().(*types.Signature)
	if sig != nil && sig.Recv() != nil {
		if n, ok := deref(sig.Recv().Type()).(*types.Named); ok {
			return short + n.Obj().Name() + "." + f.Name()
		}
		return short + "?." + f.Name()
	}
	return short + f.Name()
}
