package main

import (
	"fmt"
	"go/ast"
	"go/token"
	"go/types"
	"sort"
	"strings"
)

// ---------------------------------------------------------------------------------------------
// Lock graph (C32).  For every function of the analysed packages: the lock acquisitions it
// performs and the calls it makes, each with the set of locks *this function's own frame* holds
// at that point.  Lock identity = "<owner type>.<mutex field>" (the type that declares the
// sync.Mutex / sync.RWMutex field).  The transitive closure over calls, the lock-order graph and
// its check are computed in Coq (Conc/Locks.v), not here.
// ---------------------------------------------------------------------------------------------

// Refinements of a lock class by access path.  A class may only be split when the instances
// reached through the path are never locked through any other expression.  One case: the root
// particle of the topic trie is locked as x.root by the exported mutators of TopicsIndex; every
// other particle lock (RetainMessage: n := x.set(..); n.Lock()) is on a descendant returned by
// set(), never on the root (set always descends at least one level).
var classRefinements = map[string]bool{"TopicsIndex.root": true}

type heldLock struct {
	class    string
	mode     string // "R" | "W"
	key      string // printed lock expression, used to match the release
	deferred bool   // released by a defer: held until the frame ends
	frame    int    // activation (function body / synchronously executed closure) that acquired it
}

type lgSite struct {
	Fn     string   `json:"fn"`
	Held   []string `json:"held"` // "class/mode"
	Kind   string   `json:"kind"` // "acq" | "call"
	Class  string   `json:"class,omitempty"`
	Mode   string   `json:"mode,omitempty"`
	Callee string   `json:"callee,omitempty"`
	Pos    string   `json:"pos"`
}

// a path through a function that leaves it (return, panic, falling off the end) while a lock the
// function acquired itself is neither released nor scheduled for release by a defer
type lgLeak struct {
	Fn   string `json:"fn"`
	Lock string `json:"lock"`
	Pos  string `json:"pos"`
	How  string `json:"how"`
}

type lgResult struct {
	Unbalanced []lgLeak `json:"unbalanced"`
	Sites      []lgSite `json:"sites"`
	Notes      []string `json:"notes"`
	Classes    []string `json:"classes"`
	Fns        []string `json:"fns"`
	NFuncs     int      `json:"functions_analysed"`
}

// a declared function or method (or a function literal) used as a value somewhere in the analysed
// packages: the possible targets of calls through function-typed variables, fields and parameters
type funcValue struct {
	name string
	sig  *types.Signature
}

type lgWalker struct {
	fvals    *[]funcValue
	w        *world
	p        *pkgInfo
	fn       string
	res      *lgResult
	goSeq    int
	acc      *accCollector // optional: field-access collection for the access table (C33)
	recvName string        // name of the receiver variable of the enclosing declared method
	exported bool          // enclosing declared function is exported / usable from outside
	curCall  *ast.CallExpr
	frame    int // current activation depth (closures executed in place count as activations)

	stopGuarded map[string]bool // object expressions dominated by a "StopTime() == 0 -> leave" guard
}

// exit: control leaves the current activation at pos; every lock this activation acquired must
// have been released or be covered by a defer.
func (lw *lgWalker) exit(pos token.Pos, held []heldLock, how string) {
	for _, h := range held {
		if h.frame == lw.frame && !h.deferred {
			lw.res.Unbalanced = append(lw.res.Unbalanced, lgLeak{Fn: strings.SplitN(lw.fn, "$lit", 2)[0], Lock: h.class + "/" + h.mode + " (" + h.key + ")", Pos: lw.w.pos(pos), How: how})
			lw.note(pos, "UNBALANCED %s while still holding %s/%s (%s): not released on this path", how, h.class, h.mode, h.key)
		}
	}
}

func (lw *lgWalker) note(pos token.Pos, f string, a ...any) {
	lw.res.Notes = append(lw.res.Notes, fmt.Sprintf("%s: %s: ", lw.w.pos(pos), lw.fn)+fmt.Sprintf(f, a...))
}

func heldStrings(h []heldLock) []string {
	m := map[string]bool{}
	for _, x := range h {
		m[x.class+"/"+x.mode] = true
	}
	out := make([]string, 0, len(m))
	for k := range m {
		out = append(out, k)
	}
	sort.Strings(out)
	return out
}

func copyHeld(h []heldLock) []heldLock { return append([]heldLock{}, h...) }

func unionHeld(a, b []heldLock) []heldLock {
	out := copyHeld(a)
	for _, x := range b {
		found := false
		for _, y := range out {
			if x.class == y.class && x.mode == y.mode && x.key == y.key {
				found = true
				break
			}
		}
		if !found {
			out = append(out, x)
		}
	}
	return out
}

// fieldOwner follows a selection's index path and returns the named type that declares the
// selected field, and the field.
func (w *world) fieldOwner(recv types.Type, index []int) (string, *types.Var) {
	t := deref(recv)
	var fld *types.Var
	owner := w.typeName(t)
	for _, i := range index {
		st, ok := t.Underlying().(*types.Struct)
		if !ok || i >= st.NumFields() {
			return owner, fld
		}
		if n := w.typeName(t); n != "" {
			owner = n
		}
		fld = st.Field(i)
		t = deref(fld.Type())
	}
	return owner, fld
}

// lockOp recognises x.Lock / RLock / Unlock / RUnlock on a sync.Mutex / sync.RWMutex (directly or
// promoted through embedding).  Returns the method name, lock class and key.
func (lw *lgWalker) lockOp(call *ast.CallExpr) (method, class, key string, ok bool) {
	fun, isSel := call.Fun.(*ast.SelectorExpr)
	if !isSel {
		return
	}
	sel := lw.p.info.Selections[fun]
	if sel == nil || sel.Kind() != types.MethodVal {
		return
	}
	f, _ := sel.Obj().(*types.Func)
	if f == nil || f.Pkg() == nil || f.Pkg().Path() != "sync" {
		return
	}
	sig := f.Type().(*types.Signature)
	if sig.Recv() == nil || !isSyncType(sig.Recv().Type(), "Mutex", "RWMutex") {
		return
	}
	method = f.Name()
	key = types.ExprString(fun.X)
	xt := lw.p.info.Types[fun.X].Type
	if isSyncType(xt, "Mutex", "RWMutex") {
		// the expression is the mutex itself: a.mu.Lock()
		switch x := fun.X.(type) {
		case *ast.SelectorExpr:
			if xs := lw.p.info.Selections[x]; xs != nil && xs.Kind() == types.FieldVal {
				owner, fld := lw.w.fieldOwner(xs.Recv(), xs.Index())
				class = owner + "." + fld.Name()
			} else {
				class = "var:" + key
			}
		case *ast.Ident:
			if o := lw.p.info.Uses[x]; o != nil && o.Parent() == o.Pkg().Scope() {
				class = "var:" + lw.p.short + x.Name
			} else {
				class = "local:" + lw.fn + "." + x.Name
			}
		default:
			class = "expr:" + key
		}
	} else {
		// promoted through embedding: the index path up to the method leads to the mutex field
		idx := sel.Index()
		owner, fld := lw.w.fieldOwner(sel.Recv(), idx[:len(idx)-1])
		if fld == nil {
			return "", "", "", false
		}
		class = owner + "." + fld.Name()
		// declared refinement by access path (see classRefinements)
		if x, isSel := fun.X.(*ast.SelectorExpr); isSel {
			if xs := lw.p.info.Selections[x]; xs != nil && xs.Kind() == types.FieldVal {
				fo, ff := lw.w.fieldOwner(xs.Recv(), xs.Index())
				if ff != nil && classRefinements[fo+"."+ff.Name()] {
					class += "#" + ff.Name()
				}
			}
		}
	}
	return method, class, key, true
}

func (lw *lgWalker) emitAcq(pos token.Pos, held []heldLock, class, mode string) {
	lw.res.Sites = append(lw.res.Sites, lgSite{Fn: lw.fn, Held: heldStrings(held), Kind: "acq", Class: class, Mode: mode, Pos: lw.w.pos(pos)})
}

func (lw *lgWalker) emitCall(pos token.Pos, held []heldLock, callee string) {
	if lw.acc != nil {
		lw.acc.call(lw, callee, held)
	}
	lw.res.Sites = append(lw.res.Sites, lgSite{Fn: lw.fn, Held: heldStrings(held), Kind: "call", Callee: callee, Pos: lw.w.pos(pos)})
}

func (lw *lgWalker) release(pos token.Pos, held []heldLock, class, mode, key string, isDefer bool) []heldLock {
	pick := -1
	for i := len(held) - 1; i >= 0; i-- {
		if held[i].key == key && held[i].mode == mode {
			pick = i
			break
		}
	}
	if pick < 0 {
		for i := len(held) - 1; i >= 0; i-- {
			if held[i].class == class && held[i].mode == mode {
				pick = i
				lw.note(pos, "release of %s/%s matched by class, not by expression (%s)", class, mode, key)
				break
			}
		}
	}
	if pick < 0 {
		lw.note(pos, "UNSUPPORTED release of %s/%s (%s) which this function did not acquire", class, mode, key)
		return held
	}
	out := copyHeld(held)
	if isDefer {
		out[pick].deferred = true
		return out
	}
	return append(out[:pick], out[pick+1:]...)
}

// call handles one call expression after its operands have been visited.
func (lw *lgWalker) call(c *ast.CallExpr, held []heldLock, inDefer bool) []heldLock {
	lw.curCall = c
	if m, class, key, ok := lw.lockOp(c); ok {
		switch m {
		case "Lock", "RLock":
			mode := "W"
			if m == "RLock" {
				mode = "R"
			}
			if inDefer {
				lw.note(c.Pos(), "UNSUPPORTED deferred acquisition of %s", class)
				return held
			}
			lw.emitAcq(c.Pos(), held, class, mode)
			return append(copyHeld(held), heldLock{class: class, mode: mode, key: key, frame: lw.frame})
		case "Unlock", "RUnlock":
			mode := "W"
			if m == "RUnlock" {
				mode = "R"
			}
			return lw.release(c.Pos(), held, class, mode, key, inDefer)
		default:
			lw.note(c.Pos(), "UNSUPPORTED lock method %s on %s", m, class)
			return held
		}
	}
	info := lw.p.info
	var callee *types.Func
	dynamic := ""
	switch fun := c.Fun.(type) {
	case *ast.SelectorExpr:
		if sel := info.Selections[fun]; sel != nil {
			switch sel.Kind() {
			case types.MethodVal:
				f := sel.Obj().(*types.Func)
				if types.IsInterface(sel.Recv()) {
					lw.interfaceCall(c, fun, sel, f, held)
					return held
				}
				callee = f
			default:
				dynamic = "function-valued field " + types.ExprString(fun)
			}
		} else if o := info.Uses[fun.Sel]; o != nil {
			switch o := o.(type) {
			case *types.Func:
				callee = o
			case *types.Var:
				dynamic = "function variable " + types.ExprString(fun)
			}
		}
	case *ast.Ident:
		switch o := info.Uses[fun].(type) {
		case *types.Func:
			callee = o
		case *types.Var:
			dynamic = "function variable " + fun.Name
		}
	case *ast.FuncLit:
		// immediately invoked closure: part of this function, its own defer scope
		return lw.closure(fun, held)
	case *ast.ParenExpr, *ast.ArrayType, *ast.MapType, *ast.ChanType, *ast.FuncType, *ast.InterfaceType, *ast.StarExpr, *ast.IndexExpr:
		// conversions / generic instantiation
	default:
		dynamic = "call of " + types.ExprString(c.Fun)
	}
	if callee != nil {
		if lw.w.inScope(callee.Pkg()) != nil {
			lw.emitCall(c.Pos(), held, lw.w.funcName(callee))
		} else if len(held) > 0 && callee.Pkg() != nil && callee.Pkg().Path() == "sync" && (callee.Name() == "Wait") {
			lw.note(c.Pos(), "BLOCKING sync.%s while holding %v (outside the lock model)", lw.w.funcName(callee), heldStrings(held))
		}
	}
	if dynamic != "" {
		lw.dynamicCall(c, dynamic, held)
	}
	return held
}

// dynamicCall: a call through a function-typed variable / field / parameter is resolved to every
// function value of the analysed packages with an identical signature.
func (lw *lgWalker) dynamicCall(c *ast.CallExpr, what string, held []heldLock) {
	n := 0
	if tv, ok := lw.p.info.Types[c.Fun]; ok && lw.fvals != nil {
		if sig, ok := tv.Type.Underlying().(*types.Signature); ok {
			seen := map[string]bool{}
			for _, fv := range *lw.fvals {
				if !seen[fv.name] && types.Identical(fv.sig, sig) {
					seen[fv.name] = true
					lw.emitCall(c.Pos(), held, fv.name)
					n++
				}
			}
		}
	}
	if len(held) > 0 {
		lw.note(c.Pos(), "DYNAMIC %s while holding %v (resolved to the %d function values of identical signature in the analysed packages; values from elsewhere assumed not to take broker locks)", what, heldStrings(held), n)
	}
}

// interfaceCall: class-hierarchy resolution for interfaces declared in the analysed packages;
// other interface calls are dynamic.
func (lw *lgWalker) interfaceCall(c *ast.CallExpr, fun *ast.SelectorExpr, sel *types.Selection, f *types.Func, held []heldLock) {
	named, _ := deref(sel.Recv()).(*types.Named)
	if named == nil || lw.w.inScope(named.Obj().Pkg()) == nil {
		if len(held) > 0 {
			lw.note(c.Pos(), "DYNAMIC interface call %s while holding %v (callee unknown; assumed not to take broker locks)", types.ExprString(fun), heldStrings(held))
		}
		return
	}
	iface := named.Underlying().(*types.Interface)
	seen := map[string]bool{}
	for _, p := range lw.w.scope {
		sc := p.pkg.Scope()
		for _, n := range sc.Names() {
			tn, ok := sc.Lookup(n).(*types.TypeName)
			if !ok || tn.IsAlias() {
				continue
			}
			T := tn.Type()
			if types.IsInterface(T) {
				continue
			}
			pt := types.NewPointer(T)
			if !types.Implements(pt, iface) && !types.Implements(T, iface) {
				continue
			}
			ms := types.NewMethodSet(pt)
			if m := ms.Lookup(f.Pkg(), f.Name()); m != nil {
				if mf, ok := m.Obj().(*types.Func); ok && lw.w.inScope(mf.Pkg()) != nil {
					name := lw.w.funcName(mf)
					if !seen[name] {
						seen[name] = true
						lw.emitCall(c.Pos(), held, name)
					}
				}
			}
		}
	}
	if len(held) > 0 {
		lw.note(c.Pos(), "DYNAMIC interface call %s while holding %v (resolved to the %d implementations in the analysed packages; implementations elsewhere assumed not to take broker locks)",
			types.ExprString(fun), heldStrings(held), len(seen))
	}
}

// closure analyses a function literal executed synchronously at this point: same function name,
// own defer scope.  Locks it still holds at its end (not deferred-released) stay held.
func (lw *lgWalker) closure(fl *ast.FuncLit, held []heldLock) []heldLock {
	n := len(held)
	lw.frame++
	out, term := lw.block(fl.Body.List, held)
	if !term {
		lw.exit(fl.Body.End(), out, "end of closure reached")
	}
	lw.frame--
	// entries acquired inside and released by a defer inside end with the closure
	res := []heldLock{}
	for i, h := range out {
		if i >= n && h.deferred {
			continue
		}
		res = append(res, h)
	}
	return res
}

// expr visits the calls inside an expression in evaluation order (operands before the call).
func (lw *lgWalker) expr(e ast.Node, held []heldLock, inDefer bool) []heldLock {
	if e == nil {
		return held
	}
	switch x := e.(type) {
	case *ast.CallExpr:
		if fl, ok := x.Fun.(*ast.FuncLit); ok {
			for _, a := range x.Args {
				held = lw.expr(a, held, false)
			}
			_ = fl
			return lw.call(x, held, inDefer)
		}
		if sel, ok := x.Fun.(*ast.SelectorExpr); ok {
			held = lw.expr(sel.X, held, false)
		} else if _, ok := x.Fun.(*ast.Ident); !ok {
			held = lw.expr(x.Fun, held, false)
		}
		for _, a := range x.Args {
			held = lw.expr(a, held, false)
		}
		return lw.call(x, held, inDefer)
	case *ast.FuncLit:
		// a closure used as a value (callback, sort.Slice less, once.Do argument): assumed to run
		// synchronously here with the locks currently held
		before := heldStrings(held)
		lw.goSeq++
		sub := &lgWalker{w: lw.w, p: lw.p, fn: litName(lw.w, lw.fn, x), res: lw.res, acc: lw.acc, recvName: lw.recvName, fvals: lw.fvals}
		sub.function(x.Body)
		out := lw.closure(x, held)
		if strings.Join(heldStrings(out), ",") != strings.Join(before, ",") {
			lw.note(x.Pos(), "UNSUPPORTED closure value changes the held locks")
		}
		return held
	case *ast.UnaryExpr:
		if x.Op == token.ARROW && len(held) > 0 {
			lw.note(x.Pos(), "BLOCKING channel receive while holding %v (outside the lock model)", heldStrings(held))
		}
		return lw.expr(x.X, held, false)
	}
	// generic traversal of the children, in source order
	ast.Inspect(e, func(n ast.Node) bool {
		if n == nil || n == e {
			return true
		}
		switch n.(type) {
		case *ast.CallExpr, *ast.FuncLit, *ast.UnaryExpr:
			held = lw.expr(n, held, false)
			return false
		}
		return true
	})
	return held
}

func terminates(s ast.Stmt) bool {
	switch x := s.(type) {
	case *ast.ReturnStmt:
		return true
	case *ast.ExprStmt:
		if c, ok := x.X.(*ast.CallExpr); ok {
			if id, ok := c.Fun.(*ast.Ident); ok && id.Name == "panic" {
				return true
			}
		}
	}
	return false
}

// block walks a statement list; returns the locks held afterwards and whether control cannot
// fall off the end.
func (lw *lgWalker) block(stmts []ast.Stmt, held []heldLock) ([]heldLock, bool) {
	// stop guards are scoped to the block: x := obj.StopTime(); if x == 0 { continue / return }
	// dominates the statements that follow it in this block (and the blocks nested in them)
	savedGuard := lw.stopGuarded
	stopVars := map[string]string{} // variable -> object expression whose StopTime() it holds
	defer func() { lw.stopGuarded = savedGuard }()
	for _, s := range stmts {
		var term bool
		held, term = lw.stmt(s, held)
		if term {
			return held, true
		}
		lw.noteStopGuard(s, stopVars)
	}
	return held, false
}

// noteStopGuard recognises, after statement s of the current block has been walked,
//
//	v := <obj>.StopTime()                 (Client.StopTime: atomic load of State.disconnected)
//	if v == 0 { continue | return }       (nothing else in the body, no else)
//
// and marks <obj> as guarded for the rest of the block.
func (lw *lgWalker) noteStopGuard(s ast.Stmt, stopVars map[string]string) {
	switch x := s.(type) {
	case *ast.AssignStmt:
		for i, l := range x.Lhs {
			id, ok := l.(*ast.Ident)
			if !ok {
				continue
			}
			delete(stopVars, id.Name)
			if len(x.Lhs) != len(x.Rhs) {
				continue
			}
			c, ok := x.Rhs[i].(*ast.CallExpr)
			if !ok || len(c.Args) != 0 {
				continue
			}
			sel, ok := c.Fun.(*ast.SelectorExpr)
			if !ok || sel.Sel.Name != "StopTime" {
				continue
			}
			if sl := lw.p.info.Selections[sel]; sl != nil && sl.Kind() == types.MethodVal && lw.w.typeName(sl.Recv()) == "Client" {
				stopVars[id.Name] = types.ExprString(sel.X)
			}
		}
	case *ast.IfStmt:
		if x.Init != nil || x.Else != nil || len(x.Body.List) != 1 {
			return
		}
		switch b := x.Body.List[0].(type) {
		case *ast.BranchStmt:
			if b.Tok != token.CONTINUE {
				return
			}
		case *ast.ReturnStmt:
		default:
			return
		}
		be, ok := x.Cond.(*ast.BinaryExpr)
		if !ok || be.Op != token.EQL {
			return
		}
		var id *ast.Ident
		if i, ok := be.X.(*ast.Ident); ok {
			if lit, ok := be.Y.(*ast.BasicLit); ok && lit.Value == "0" {
				id = i
			}
		}
		if i, ok := be.Y.(*ast.Ident); ok {
			if lit, ok := be.X.(*ast.BasicLit); ok && lit.Value == "0" {
				id = i
			}
		}
		if id == nil {
			return
		}
		if obj, ok := stopVars[id.Name]; ok {
			g := map[string]bool{}
			for k := range lw.stopGuarded {
				g[k] = true
			}
			g[obj] = true
			lw.stopGuarded = g
		}
	}
}

func (lw *lgWalker) branches(held []heldLock, bodies [][]ast.Stmt, hasDefault bool) ([]heldLock, bool) {
	var merged []heldLock
	any := false
	if !hasDefault {
		merged = copyHeld(held)
		any = true
	}
	for _, b := range bodies {
		out, term := lw.block(b, copyHeld(held))
		if term {
			continue
		}
		if !any {
			merged = out
			any = true
		} else {
			merged = unionHeld(merged, out)
		}
	}
	if !any {
		return held, true
	}
	return merged, false
}

func (lw *lgWalker) stmt(s ast.Stmt, held []heldLock) ([]heldLock, bool) {
	if lw.acc != nil && s != nil {
		lw.acc.scanStmt(lw, s, held)
	}
	switch x := s.(type) {
	case nil:
		return held, false
	case *ast.ExprStmt:
		held = lw.expr(x.X, held, false)
		if terminates(s) {
			lw.exit(s.Pos(), held, "panic")
			return held, true
		}
		return held, false
	case *ast.AssignStmt:
		for _, e := range x.Rhs {
			held = lw.expr(e, held, false)
		}
		for _, e := range x.Lhs {
			held = lw.expr(e, held, false)
		}
	case *ast.DeclStmt:
		held = lw.expr(x.Decl, held, false)
	case *ast.IncDecStmt:
		held = lw.expr(x.X, held, false)
	case *ast.SendStmt:
		held = lw.expr(x.Chan, held, false)
		held = lw.expr(x.Value, held, false)
		if len(held) > 0 {
			lw.note(x.Pos(), "BLOCKING channel send while holding %v (outside the lock model)", heldStrings(held))
		}
	case *ast.ReturnStmt:
		for _, e := range x.Results {
			held = lw.expr(e, held, false)
		}
		lw.exit(s.Pos(), held, "return")
		return held, true
	case *ast.GoStmt:
		// operands are evaluated here; the call itself runs in a new goroutine holding nothing
		for _, a := range x.Call.Args {
			held = lw.expr(a, held, false)
		}
		if fl, ok := x.Call.Fun.(*ast.FuncLit); ok {
			lw.goSeq++
			sub := &lgWalker{w: lw.w, p: lw.p, fn: fmt.Sprintf("%s$go%d", lw.fn, lw.goSeq), res: lw.res, acc: lw.acc, recvName: lw.recvName, fvals: lw.fvals}
			sub.function(fl.Body)
		} else if sel, ok := x.Call.Fun.(*ast.SelectorExpr); ok {
			held = lw.expr(sel.X, held, false)
		}
	case *ast.DeferStmt:
		for _, a := range x.Call.Args {
			held = lw.expr(a, held, false)
		}
		if fl, ok := x.Call.Fun.(*ast.FuncLit); ok {
			// deferred closure: analysed with the locks held here; its releases are deferred releases
			for _, st := range fl.Body.List {
				if es, ok := st.(*ast.ExprStmt); ok {
					if c, ok := es.X.(*ast.CallExpr); ok {
						if _, _, _, isLock := lw.lockOp(c); isLock {
							held = lw.call(c, held, true)
							continue
						}
					}
				}
				held, _ = lw.stmt(st, held)
			}
		} else {
			if sel, ok := x.Call.Fun.(*ast.SelectorExpr); ok {
				if _, _, _, isLock := lw.lockOp(x.Call); !isLock {
					held = lw.expr(sel.X, held, false)
				}
			}
			held = lw.call(x.Call, held, true)
		}
	case *ast.BlockStmt:
		return lw.block(x.List, held)
	case *ast.LabeledStmt:
		return lw.stmt(x.Stmt, held)
	case *ast.IfStmt:
		held, _ = lw.stmt(x.Init, held)
		held = lw.expr(x.Cond, held, false)
		bodies := [][]ast.Stmt{x.Body.List}
		hasElse := x.Else != nil
		if hasElse {
			bodies = append(bodies, []ast.Stmt{x.Else})
		}
		return lw.branches(held, bodies, hasElse)
	case *ast.ForStmt:
		held, _ = lw.stmt(x.Init, held)
		held = lw.expr(x.Cond, held, false)
		out, _ := lw.block(x.Body.List, copyHeld(held))
		out, _ = lw.stmt(x.Post, out)
		if len(unionHeld(held, out)) != len(held) {
			// a lock acquired in the body survives the iteration: analyse the body once more with it
			held = unionHeld(held, out)
			lw.block(x.Body.List, copyHeld(held))
		}
	case *ast.RangeStmt:
		held = lw.expr(x.X, held, false)
		if len(held) > 0 {
			if _, isChan := lw.p.info.Types[x.X].Type.Underlying().(*types.Chan); isChan {
				lw.note(x.Pos(), "BLOCKING range over channel while holding %v (outside the lock model)", heldStrings(held))
			}
		}
		out, _ := lw.block(x.Body.List, copyHeld(held))
		if len(unionHeld(held, out)) != len(held) {
			held = unionHeld(held, out)
			lw.block(x.Body.List, copyHeld(held))
		}
	case *ast.SwitchStmt:
		held, _ = lw.stmt(x.Init, held)
		held = lw.expr(x.Tag, held, false)
		return lw.clauses(x.Body, held)
	case *ast.TypeSwitchStmt:
		held, _ = lw.stmt(x.Init, held)
		held, _ = lw.stmt(x.Assign, held)
		return lw.clauses(x.Body, held)
	case *ast.SelectStmt:
		if len(held) > 0 {
			lw.note(x.Pos(), "BLOCKING select while holding %v (outside the lock model)", heldStrings(held))
		}
		return lw.clauses(x.Body, held)
	case *ast.BranchStmt, *ast.EmptyStmt:
	default:
		lw.note(s.Pos(), "UNSUPPORTED statement %T", s)
	}
	return held, false
}

func (lw *lgWalker) clauses(body *ast.BlockStmt, held []heldLock) ([]heldLock, bool) {
	var bodies [][]ast.Stmt
	hasDefault := false
	for _, c := range body.List {
		switch cc := c.(type) {
		case *ast.CaseClause:
			if cc.List == nil {
				hasDefault = true
			}
			for _, e := range cc.List {
				if lw.acc != nil {
					lw.acc.scan(lw, e, accRead, held)
				}
				held = lw.expr(e, held, false)
			}
			bodies = append(bodies, cc.Body)
		case *ast.CommClause:
			if cc.Comm == nil {
				hasDefault = true
			}
			b := cc.Body
			if cc.Comm != nil {
				b = append([]ast.Stmt{cc.Comm}, cc.Body...)
			}
			bodies = append(bodies, b)
		}
	}
	return lw.branches(held, bodies, hasDefault)
}

// function analyses one body as a frame starting with no lock held.
func (lw *lgWalker) function(body *ast.BlockStmt) {
	if body == nil {
		return
	}
	held, term := lw.block(body.List, nil)
	if !term {
		lw.exit(body.End(), held, "end of function reached")
	}
}

// litName names a function literal used as a value: enclosing declared function + ordinal (source
// order) of the literal within it, so that unrelated edits do not rename it.
var litNames map[token.Pos]string

func litName(w *world, fn string, fl *ast.FuncLit) string {
	if litNames == nil {
		litNames = map[token.Pos]string{}
		for _, p := range w.scope {
			for _, f := range p.files {
				for _, d := range f.Decls {
					fd, ok := d.(*ast.FuncDecl)
					if !ok || fd.Body == nil {
						continue
					}
					obj, _ := p.info.Defs[fd.Name].(*types.Func)
					if obj == nil {
						continue
					}
					k := 0
					ast.Inspect(fd.Body, func(n ast.Node) bool {
						if l, ok := n.(*ast.FuncLit); ok {
							k++
							litNames[l.Pos()] = fmt.Sprintf("%s$lit%d", w.funcName(obj), k)
						}
						return true
					})
				}
			}
		}
	}
	if n, ok := litNames[fl.Pos()]; ok {
		return n
	}
	return fmt.Sprintf("%s$lit?", fn)
}

// collectFuncValues finds the declared functions / methods referenced other than in call position
// and the function literals not immediately invoked.
func collectFuncValues(w *world) []funcValue {
	var out []funcValue
	for _, p := range w.scope {
		for _, f := range p.files {
			callFun := map[ast.Expr]bool{}
			ast.Inspect(f, func(n ast.Node) bool {
				switch x := n.(type) {
				case *ast.CallExpr:
					fun := x.Fun
					for {
						pe, ok := fun.(*ast.ParenExpr)
						if !ok {
							break
						}
						fun = pe.X
					}
					callFun[fun] = true
				case *ast.GoStmt:
					callFun[x.Call.Fun] = true
				}
				return true
			})
			var encl string
			var visit func(n ast.Node) bool
			visit = func(n ast.Node) bool {
				switch x := n.(type) {
				case *ast.FuncDecl:
					if obj, _ := p.info.Defs[x.Name].(*types.Func); obj != nil {
						encl = w.funcName(obj)
					}
				case *ast.SelectorExpr:
					if !callFun[x] {
						var fn *types.Func
						if sel := p.info.Selections[x]; sel != nil {
							if sel.Kind() == types.MethodVal && !types.IsInterface(sel.Recv()) {
								fn, _ = sel.Obj().(*types.Func)
							}
						} else {
							fn, _ = p.info.Uses[x.Sel].(*types.Func)
						}
						if fn != nil && w.inScope(fn.Pkg()) != nil {
							sig := fn.Type().(*types.Signature)
							out = append(out, funcValue{w.funcName(fn), types.NewSignatureType(nil, nil, nil, sig.Params(), sig.Results(), sig.Variadic())})
						}
					}
					ast.Inspect(x.X, visit)
					return false
				case *ast.Ident:
					if !callFun[x] {
						if fn, _ := p.info.Uses[x].(*types.Func); fn != nil && w.inScope(fn.Pkg()) != nil {
							sig := fn.Type().(*types.Signature)
							if sig.Recv() == nil {
								out = append(out, funcValue{w.funcName(fn), sig})
							}
						}
					}
				case *ast.FuncLit:
					if !callFun[x] {
						if tv, ok := p.info.Types[x]; ok {
							if sig, ok := tv.Type.(*types.Signature); ok {
								out = append(out, funcValue{litName(w, encl, x), sig})
							}
						}
					}
				}
				return true
			}
			ast.Inspect(f, visit)
		}
	}
	return out
}

func analyseLockGraph(w *world) *lgResult { return analyseLockGraphAcc(w, nil) }

func analyseLockGraphAcc(w *world, acc *accCollector) *lgResult {
	res := &lgResult{}
	fvals := collectFuncValues(w)
	if acc != nil {
		acc.fvals = fvals
	}
	for _, p := range w.scope {
		for _, f := range p.files {
			for _, d := range f.Decls {
				fd, ok := d.(*ast.FuncDecl)
				if !ok || fd.Body == nil {
					continue
				}
				obj, _ := p.info.Defs[fd.Name].(*types.Func)
				if obj == nil {
					continue
				}
				res.NFuncs++
				lw := &lgWalker{w: w, p: p, fn: w.funcName(obj), res: res, fvals: &fvals, acc: acc}
				if fd.Recv != nil && len(fd.Recv.List) == 1 && len(fd.Recv.List[0].Names) == 1 {
					lw.recvName = fd.Recv.List[0].Names[0].Name
				}
				if acc != nil {
					acc.declare(lw.fn, obj, lw.recvName)
				}
				lw.function(fd.Body)
			}
		}
	}
	// canonical order, duplicates removed
	key := func(s lgSite) string {
		return s.Fn + "|" + s.Kind + "|" + s.Class + "|" + s.Mode + "|" + s.Callee + "|" + strings.Join(s.Held, ",")
	}
	sort.SliceStable(res.Sites, func(i, j int) bool { return key(res.Sites[i]) < key(res.Sites[j]) })
	var ded []lgSite
	for i, s := range res.Sites {
		if i > 0 && key(s) == key(res.Sites[i-1]) {
			continue
		}
		ded = append(ded, s)
	}
	res.Sites = ded
	cs, fs := map[string]bool{}, map[string]bool{}
	for _, s := range res.Sites {
		fs[s.Fn] = true
		if s.Kind == "acq" {
			cs[s.Class] = true
		} else {
			fs[s.Callee] = true
		}
		for _, h := range s.Held {
			cs[h[:strings.LastIndex(h, "/")]] = true
		}
	}
	for _, u := range res.Unbalanced {
		fs[u.Fn] = true
	}
	for c := range cs {
		res.Classes = append(res.Classes, c)
	}
	for f := range fs {
		res.Fns = append(res.Fns, f)
	}
	sort.Strings(res.Classes)
	sort.Strings(res.Fns)
	sort.Strings(res.Notes)
	return res
}

func coqString(s string) string { return "\"" + strings.ReplaceAll(s, "\"", "\"\"") + "\"" }

func (res *lgResult) coq() string {
	ci, fi := map[string]int{}, map[string]int{}
	for i, c := range res.Classes {
		ci[c] = i
	}
	for i, f := range res.Fns {
		fi[f] = i
	}
	var b strings.Builder
	b.WriteString("(* GENERATED by harness/cmd/astx (lockgraph) from the Go sources of mochi-mqtt/server; do not edit.\n")
	b.WriteString("   One record per lock acquisition / call site of every function of the analysed packages:\n")
	b.WriteString("   function, locks held by that function's own frame at the site, and what happens there. *)\n")
	b.WriteString("From Coq Require Import List NArith String.\nFrom MV Require Import Conc.Locks.\nImport ListNotations.\nOpen Scope N_scope.\nOpen Scope string_scope.\n\n")
	b.WriteString("Definition lock_names : list (N * string) := [\n")
	for i, c := range res.Classes {
		sep := ";"
		if i == len(res.Classes)-1 {
			sep = ""
		}
		fmt.Fprintf(&b, "  (%d, %s)%s\n", i, coqString(c), sep)
	}
	b.WriteString("].\n\nDefinition fn_names : list (N * string) := [\n")
	for i, f := range res.Fns {
		sep := ";"
		if i == len(res.Fns)-1 {
			sep = ""
		}
		fmt.Fprintf(&b, "  (%d, %s)%s\n", i, coqString(f), sep)
	}
	b.WriteString("].\n\n(* functions with a path (return, panic, end) that leaves them while a lock they acquired is neither\n   released nor covered by a defer; positions are in the translator's notes *)\nDefinition unbalanced : list fname := [")
	ub := map[string]bool{}
	var ubs []string
	for _, u := range res.Unbalanced {
		if !ub[u.Fn] {
			ub[u.Fn] = true
			ubs = append(ubs, u.Fn)
		}
	}
	sort.Strings(ubs)
	for i, f := range ubs {
		if i > 0 {
			b.WriteString("; ")
		}
		fmt.Fprintf(&b, "%d (* %s *)", fi[f], f)
	}
	b.WriteString("].\n\nDefinition table : lock_table := [\n")
	for i, s := range res.Sites {
		sep := ";"
		if i == len(res.Sites)-1 {
			sep = ""
		}
		var hs []string
		for _, h := range s.Held {
			k := strings.LastIndex(h, "/")
			hs = append(hs, fmt.Sprintf("(%d, %s)", ci[h[:k]], h[k+1:]))
		}
		act := ""
		cm := ""
		if s.Kind == "acq" {
			act = fmt.Sprintf("Acquire %d %s", ci[s.Class], s.Mode)
			cm = fmt.Sprintf("%s: %s %s", s.Fn, map[string]string{"R": "RLock", "W": "Lock"}[s.Mode], s.Class)
		} else {
			act = fmt.Sprintf("Call %d", fi[s.Callee])
			cm = fmt.Sprintf("%s -> %s", s.Fn, s.Callee)
		}
		if len(s.Held) > 0 {
			cm += "   holding " + strings.Join(s.Held, ", ")
		}
		fmt.Fprintf(&b, "  mk_site %d [%s] (%s)%s (* %s *)\n", fi[s.Fn], strings.Join(hs, "; "), act, sep, cm)
	}
	b.WriteString("].\n")
	return b.String()
}
