package main

import (
	"fmt"
	"go/ast"
	"go/token"
	"go/types"
	"sort"
	"strings"
)

// ---------------------------------------------------------------------------------------------
// Access table (C33).  Every syntactic access to a field of the shared broker types in the
// non-test files: the field path, the function, read / write, whether it goes through sync/atomic,
// the locks held at the site (this frame's, plus those every caller holds at every call of an
// unexported function) with a flag telling whether the lock belongs to the very object accessed,
// and the goroutine roots from which the enclosing function is reachable.
// The lock discipline itself (which field is protected how) is NOT here: it is the hand-written
// declaration coq/Conc/Discipline.v, and the check is done by Coq.
// ---------------------------------------------------------------------------------------------

// the shared types (fields of these types are access-tracked); value-typed struct fields nested
// in them are followed (ClientProperties.Props.SessionExpiryInterval, ...)
var sharedTypes = map[string]bool{
	"Clients": true, "Client": true, "Inflight": true, "TopicsIndex": true, "particle": true, "particles": true,
	"Subscriptions": true, "SharedSubscriptions": true, "InlineSubscriptions": true,
	"InboundTopicAliases": true, "OutboundTopicAliases": true, "Hooks": true, "Server": true, "loop": true,
	"packets.Packets": true, "system.Info": true,
}

// goroutine roots: entry functions
var rootEntries = map[string][]string{
	"H": {"Server.EstablishConnection", "Server.attachClient"}, // one per connection
	"W": {"Client.WriteLoop"},                                  // one per connection
	"E": {"Server.eventLoop"},                                  // one per server
	"I": {"New", "Server.readStore"},                           // before anything else runs
	// "A" = exported methods of Server other than EstablishConnection (callable by the embedding
	// application and by hooks, from any goroutine): filled in below
}

type accKind int

const (
	accRead accKind = iota
	accWrite
	accReadWrite
	accAtomicRead
	accAtomicWrite
	accAddr
	accSkip // the field is an internally synchronised object used through its methods: no access recorded
)

type atLock struct {
	Class string `json:"class"`
	Mode  string `json:"mode"`
	Own   bool   `json:"own"`
}

type atSite struct {
	Path      []string `json:"path"`
	Fn        string   `json:"fn"`
	Base      string   `json:"base"`
	Write     bool     `json:"write"`
	Atomic    bool     `json:"atomic"`
	AfterStop bool     `json:"after_stop_guard"`
	Locks     []atLock `json:"locks"`
	Roots     []string `json:"roots"`
	Pos       string   `json:"pos"`
	frameHeld []heldLock
}

type accCallEdge struct {
	caller, callee string
	held           []heldLock
	recvExpr       string
	callerRecv     string
}

type accFunc struct {
	obj      *types.Func
	recvName string
}

type accCollector struct {
	w     *world
	sites []*atSite
	calls []accCallEdge
	funcs map[string]accFunc
	fvals []funcValue
	notes []string

	freshVars map[*types.Var]bool
}

type atResult struct {
	Sites     []*atSite         `json:"sites"`
	Notes     []string          `json:"notes"`
	EntryHeld map[string]string `json:"entry_held"`
	Roots     map[string]int    `json:"functions_per_root"`
}

func (a *accCollector) declare(fn string, obj *types.Func, recvName string) {
	a.funcs[fn] = accFunc{obj, recvName}
}

func (a *accCollector) call(lw *lgWalker, callee string, held []heldLock) {
	recv := ""
	if lw.curCall != nil {
		if sel, ok := lw.curCall.Fun.(*ast.SelectorExpr); ok {
			recv = types.ExprString(sel.X)
		}
	}
	a.calls = append(a.calls, accCallEdge{caller: lw.fn, callee: callee, held: copyHeld(held), recvExpr: recv, callerRecv: lw.recvName})
}

// scanStmt scans the expressions evaluated by the statement itself (not nested blocks: the walker
// visits those, with the locks held there).
func (a *accCollector) scanStmt(lw *lgWalker, s ast.Stmt, held []heldLock) {
	switch x := s.(type) {
	case *ast.ExprStmt:
		a.scan(lw, x.X, accRead, held)
	case *ast.AssignStmt:
		k := accWrite
		if x.Tok != token.ASSIGN && x.Tok != token.DEFINE {
			k = accReadWrite
		}
		for _, e := range x.Lhs {
			a.scan(lw, e, k, held)
		}
		for _, e := range x.Rhs {
			a.scan(lw, e, accRead, held)
		}
	case *ast.IncDecStmt:
		a.scan(lw, x.X, accReadWrite, held)
	case *ast.DeclStmt:
		a.scan(lw, x.Decl, accRead, held)
	case *ast.SendStmt:
		a.scan(lw, x.Chan, accRead, held)
		a.scan(lw, x.Value, accRead, held)
	case *ast.ReturnStmt:
		for _, e := range x.Results {
			a.scan(lw, e, accRead, held)
		}
	case *ast.GoStmt:
		a.scanCallOperands(lw, x.Call, held)
	case *ast.DeferStmt:
		a.scanCallOperands(lw, x.Call, held)
	case *ast.IfStmt:
		a.scan(lw, x.Cond, accRead, held)
	case *ast.ForStmt:
		a.scan(lw, x.Cond, accRead, held)
	case *ast.RangeStmt:
		a.scan(lw, x.X, accRead, held)
		if x.Tok == token.ASSIGN {
			a.scan(lw, x.Key, accWrite, held)
			a.scan(lw, x.Value, accWrite, held)
		}
	case *ast.SwitchStmt:
		a.scan(lw, x.Tag, accRead, held)
	}
}

func (a *accCollector) scanCallOperands(lw *lgWalker, c *ast.CallExpr, held []heldLock) {
	if _, ok := c.Fun.(*ast.FuncLit); !ok {
		a.scan(lw, c, accRead, held)
		return
	}
	for _, e := range c.Args {
		a.scan(lw, e, accRead, held)
	}
}

func pkgPathOf(t types.Type) string {
	if n, ok := deref(t).(*types.Named); ok && n.Obj().Pkg() != nil {
		return n.Obj().Pkg().Path()
	}
	return ""
}

// scan visits an expression evaluated with access kind k for its outermost location.
func (a *accCollector) scan(lw *lgWalker, n ast.Node, k accKind, held []heldLock) {
	if n == nil {
		return
	}
	info := lw.p.info
	switch x := n.(type) {
	case *ast.FuncLit:
		return // visited by the lock walker as a closure
	case *ast.ParenExpr:
		a.scan(lw, x.X, k, held)
		return
	case *ast.SelectorExpr:
		if sel := info.Selections[x]; sel != nil && sel.Kind() == types.FieldVal {
			a.chain(lw, x, k, held)
			return
		}
		a.scan(lw, x.X, accRead, held)
		return
	case *ast.IndexExpr:
		// element of a map / slice held in a field: a write to the element is a write to the container
		a.scan(lw, x.X, k, held)
		a.scan(lw, x.Index, accRead, held)
		return
	case *ast.StarExpr:
		a.scan(lw, x.X, accRead, held)
		return
	case *ast.UnaryExpr:
		if x.Op == token.AND {
			a.scan(lw, x.X, accAddr, held)
			return
		}
		a.scan(lw, x.X, accRead, held)
		return
	case *ast.CallExpr:
		a.callExpr(lw, x, held)
		return
	case *ast.KeyValueExpr:
		a.scan(lw, x.Value, accRead, held)
		return
	}
	ast.Inspect(n, func(c ast.Node) bool {
		if c == nil || c == n {
			return true
		}
		switch c.(type) {
		case ast.Expr:
			a.scan(lw, c, accRead, held)
			return false
		}
		return true
	})
}

func (a *accCollector) callExpr(lw *lgWalker, c *ast.CallExpr, held []heldLock) {
	info := lw.p.info
	// sync/atomic functions: atomic.AddInt64(&x.f, ..)
	if sel, ok := c.Fun.(*ast.SelectorExpr); ok {
		if f, ok := info.Uses[sel.Sel].(*types.Func); ok && f.Pkg() != nil && f.Pkg().Path() == "sync/atomic" && info.Selections[sel] == nil {
			k := accAtomicWrite
			if strings.HasPrefix(f.Name(), "Load") {
				k = accAtomicRead
			}
			for i, arg := range c.Args {
				if u, ok := arg.(*ast.UnaryExpr); ok && i == 0 && u.Op == token.AND {
					a.scan(lw, u.X, k, held)
				} else {
					a.scan(lw, arg, accRead, held)
				}
			}
			return
		}
		if s := info.Selections[sel]; s != nil && s.Kind() == types.MethodVal {
			// method call: the receiver expression
			rt := info.Types[sel.X].Type
			switch {
			case pkgPathOf(rt) == "sync/atomic":
				k := accAtomicWrite
				if sel.Sel.Name == "Load" {
					k = accAtomicRead
				}
				a.scan(lw, sel.X, k, held)
			case pkgPathOf(rt) == "sync":
				// internally synchronised object (Once, WaitGroup, Mutex): only the path leading to it is read
				if _, isPtr := rt.(*types.Pointer); isPtr {
					a.scan(lw, sel.X, accRead, held)
				} else {
					a.scan(lw, sel.X, accSkip, held)
				}
			default:
				_, isPtr := rt.(*types.Pointer)
				if !isPtr && a.ownsLock(rt) {
					// value field with its own mutex (particles): the callee locks; no access here
					a.scan(lw, sel.X, accSkip, held)
				} else {
					a.scan(lw, sel.X, accRead, held)
				}
			}
			for _, arg := range c.Args {
				a.scan(lw, arg, accRead, held)
			}
			return
		}
	}
	if id, ok := c.Fun.(*ast.Ident); ok {
		if b, ok := info.Uses[id].(*types.Builtin); ok {
			switch b.Name() {
			case "delete", "copy", "clear":
				for i, arg := range c.Args {
					if i == 0 {
						a.scan(lw, arg, accWrite, held)
					} else {
						a.scan(lw, arg, accRead, held)
					}
				}
				return
			}
		}
	}
	if _, ok := c.Fun.(*ast.FuncLit); !ok {
		a.scan(lw, c.Fun, accRead, held)
	}
	for _, arg := range c.Args {
		a.scan(lw, arg, accRead, held)
	}
}

func (a *accCollector) ownsLock(t types.Type) bool {
	st, ok := deref(t).Underlying().(*types.Struct)
	if !ok {
		return false
	}
	for i := 0; i < st.NumFields(); i++ {
		if isSyncType(st.Field(i).Type(), "Mutex", "RWMutex") {
			return true
		}
	}
	return false
}

// chain handles a maximal chain of value-field selections  base.f1.f2...fn  (memory inside the
// object designated by base).
func (a *accCollector) chain(lw *lgWalker, e *ast.SelectorExpr, k accKind, held []heldLock) {
	info := lw.p.info
	// collect selectors from the outside in, as long as the inner selection is a value-typed field
	var sels []*ast.SelectorExpr
	cur := e
	for {
		sels = append(sels, cur)
		inner, ok := cur.X.(*ast.SelectorExpr)
		if !ok {
			break
		}
		is := info.Selections[inner]
		if is == nil || is.Kind() != types.FieldVal {
			break
		}
		if _, isPtr := is.Type().(*types.Pointer); isPtr {
			break
		}
		if _, isStruct := is.Type().Underlying().(*types.Struct); !isStruct {
			break
		}
		cur = inner
	}
	base := cur.X
	baseT := info.Types[base].Type
	owner := a.w.typeName(baseT)
	// field names from the inside out (embedded promotions expanded)
	var names []string
	for i := len(sels) - 1; i >= 0; i-- {
		s := info.Selections[sels[i]]
		t := deref(s.Recv())
		for _, idx := range s.Index() {
			st, ok := t.Underlying().(*types.Struct)
			if !ok {
				break
			}
			f := st.Field(idx)
			names = append(names, f.Name())
			t = deref(f.Type())
		}
	}
	if sharedTypes[owner] {
		last := info.Selections[e]
		lt := last.Type()
		skip := false
		if (pkgPathOf(lt) == "sync" && k != accWrite) || k == accSkip {
			skip = true // mutex / once / waitgroup fields used through their methods
		}
		if id, ok := base.(*ast.Ident); ok && a.fresh(lw, id) {
			skip = true // object created in this very function and not yet visible to anyone else
		}
		if !skip {
			site := &atSite{Path: append([]string{owner}, names...), Fn: lw.fn, Base: types.ExprString(base), Pos: a.w.pos(e.Sel.Pos()), frameHeld: copyHeld(held)}
			site.AfterStop = lw.stopGuarded[site.Base]
			switch k {
			case accRead:
			case accWrite:
				site.Write = true
			case accReadWrite:
				site.Write = true
			case accAtomicRead:
				site.Atomic = true
			case accAtomicWrite:
				site.Atomic, site.Write = true, true
			case accAddr:
				site.Write = true
				a.notes = append(a.notes, fmt.Sprintf("%s: %s: ADDR address of %s taken (counted as a write)", site.Pos, lw.fn, strings.Join(site.Path, ".")))
			}
			a.sites = append(a.sites, site)
		}
	}
	a.scan(lw, base, accRead, held)
}

// fresh: the identifier is a local variable defined (:=) from a composite literal or from a
// constructor / copier (New*, new*, Clone, Copy): the object is not yet shared.
func (a *accCollector) fresh(lw *lgWalker, id *ast.Ident) bool {
	obj, ok := lw.p.info.Uses[id].(*types.Var)
	if !ok || obj.IsField() {
		return false
	}
	if a.freshVars == nil {
		a.freshVars = map[*types.Var]bool{}
		for _, p := range a.w.scope {
			for _, f := range p.files {
				ast.Inspect(f, func(n ast.Node) bool {
					as, ok := n.(*ast.AssignStmt)
					if !ok || as.Tok != token.DEFINE || len(as.Lhs) != len(as.Rhs) {
						return true
					}
					for i, l := range as.Lhs {
						li, ok := l.(*ast.Ident)
						if !ok {
							continue
						}
						v, ok := p.info.Defs[li].(*types.Var)
						if !ok {
							continue
						}
						r := as.Rhs[i]
						if u, ok := r.(*ast.UnaryExpr); ok && u.Op == token.AND {
							r = u.X
						}
						switch x := r.(type) {
						case *ast.CompositeLit:
							a.freshVars[v] = true
						case *ast.CallExpr:
							name := ""
							switch fn := x.Fun.(type) {
							case *ast.Ident:
								name = fn.Name
							case *ast.SelectorExpr:
								name = fn.Sel.Name
							}
							if strings.HasPrefix(name, "New") || strings.HasPrefix(name, "new") || name == "Clone" || name == "Copy" {
								a.freshVars[v] = true
							}
						}
					}
					return true
				})
			}
		}
	}
	return a.freshVars[obj]
}

func isExportedName(n string) bool { return n != "" && n[0] >= 'A' && n[0] <= 'Z' }

func analyseAccess(w *world) *atResult {
	acc := &accCollector{w: w, funcs: map[string]accFunc{}}
	lg := analyseLockGraphAcc(w, acc)
	res := &atResult{EntryHeld: map[string]string{}, Roots: map[string]int{}}

	// ---- locks every caller holds at every call of an unexported, never-escaping function ----
	usedAsValue := map[string]bool{}
	for _, fv := range acc.fvals {
		usedAsValue[fv.name] = true
	}
	callers := map[string][]accCallEdge{}
	for _, c := range acc.calls {
		callers[c.callee] = append(callers[c.callee], c)
	}
	type el struct {
		class, mode string
		recv        bool
	}
	elKey := func(e el) string { return fmt.Sprintf("%s/%s/%v", e.class, e.mode, e.recv) }
	entry := map[string]map[string]el{} // nil = not yet known (top)
	candidate := func(fn string) bool {
		base := strings.SplitN(fn, "$", 2)[0]
		f, ok := acc.funcs[base]
		if !ok || fn != base {
			return false
		}
		return !f.obj.Exported() && !usedAsValue[fn] && len(callers[fn]) > 0
	}
	for changed, round := true, 0; changed && round < 50; round++ {
		changed = false
		for fn := range acc.funcs {
			if !candidate(fn) {
				continue
			}
			var inter map[string]el
			unknown := false
			for _, c := range callers[fn] {
				cur := map[string]el{}
				for _, h := range c.held {
					e := el{h.class, h.mode, h.key == c.recvExpr}
					cur[elKey(e)] = e
				}
				if candidate(c.caller) {
					ce := entry[c.caller]
					if ce == nil {
						unknown = true // caller not resolved yet: skip this edge in this round
						continue
					}
					for _, e := range ce {
						e2 := el{e.class, e.mode, e.recv && c.recvExpr == c.callerRecv}
						cur[elKey(e2)] = e2
					}
				}
				if inter == nil {
					inter = cur
				} else {
					for k := range inter {
						if _, ok := cur[k]; !ok {
							delete(inter, k)
						}
					}
				}
			}
			if inter == nil {
				if unknown {
					continue
				}
				inter = map[string]el{}
			}
			old := entry[fn]
			if old == nil || len(old) != len(inter) {
				entry[fn] = inter
				changed = true
			}
		}
	}
	for fn, m := range entry {
		if len(m) > 0 {
			var ks []string
			for k := range m {
				ks = append(ks, k)
			}
			sort.Strings(ks)
			res.EntryHeld[fn] = strings.Join(ks, ", ")
		}
	}

	// ---- goroutine roots: reachability in the call graph ----
	succ := map[string][]string{}
	for _, c := range acc.calls {
		succ[c.caller] = append(succ[c.caller], c.callee)
	}
	// closures analysed as part of their function share its roots; go-closures are their own roots
	entries := map[string][]string{}
	for r, es := range rootEntries {
		entries[r] = append([]string{}, es...)
	}
	for fn, f := range acc.funcs {
		if strings.HasPrefix(fn, "Server.") && f.obj.Exported() && fn != "Server.EstablishConnection" {
			entries["A"] = append(entries["A"], fn)
		}
	}
	reach := map[string]map[string]bool{}
	for r, es := range entries {
		seen := map[string]bool{}
		stack := append([]string{}, es...)
		for len(stack) > 0 {
			f := stack[len(stack)-1]
			stack = stack[:len(stack)-1]
			if seen[f] {
				continue
			}
			seen[f] = true
			stack = append(stack, succ[f]...)
		}
		reach[r] = seen
		res.Roots[r] = len(seen)
	}
	rootsOf := func(fn string) []string {
		base := fn
		if i := strings.Index(fn, "$lit"); i >= 0 {
			base = fn[:i] // a closure value runs where its function runs (or where it is called: covered by the call edges)
		}
		var rs []string
		for _, r := range []string{"A", "E", "H", "I", "W"} {
			if reach[r][fn] || reach[r][base] {
				rs = append(rs, r)
			}
		}
		if strings.Contains(fn, "$go") && len(rs) == 0 {
			rs = []string{"G"}
		}
		if len(rs) == 0 {
			rs = []string{"X"} // reachable from no known root: exported API of the type, callable from anywhere
		}
		return rs
	}

	// ---- finish the sites ----
	for _, s := range acc.sites {
		locks := map[string]atLock{}
		add := func(l atLock) {
			k := fmt.Sprintf("%s/%s", l.Class, l.Mode)
			if old, ok := locks[k]; !ok || (l.Own && !old.Own) {
				locks[k] = l
			}
		}
		for _, h := range s.frameHeld {
			add(atLock{h.class, h.mode, h.key == s.Base})
		}
		declFn := strings.SplitN(s.Fn, "$", 2)[0]
		if m := entry[declFn]; m != nil && !strings.Contains(s.Fn, "$go") {
			f := acc.funcs[declFn]
			for _, e := range m {
				add(atLock{e.class, e.mode, e.recv && f.recvName != "" && s.Base == f.recvName})
			}
		}
		var ks []string
		for k := range locks {
			ks = append(ks, k)
		}
		sort.Strings(ks)
		for _, k := range ks {
			s.Locks = append(s.Locks, locks[k])
		}
		s.Roots = rootsOf(s.Fn)
	}
	key := func(s *atSite) string {
		var ls []string
		for _, l := range s.Locks {
			ls = append(ls, fmt.Sprintf("%s/%s/%v", l.Class, l.Mode, l.Own))
		}
		return fmt.Sprintf("%s|%s|%v|%v|%v|%s|%s", strings.Join(s.Path, "."), s.Fn, s.Write, s.Atomic, s.AfterStop, strings.Join(ls, ","), strings.Join(s.Roots, ","))
	}
	sort.SliceStable(acc.sites, func(i, j int) bool { return key(acc.sites[i]) < key(acc.sites[j]) })
	for i, s := range acc.sites {
		if i > 0 && key(s) == key(acc.sites[i-1]) {
			continue
		}
		res.Sites = append(res.Sites, s)
	}
	res.Notes = append(acc.notes, lg.Notes...)
	sort.Strings(res.Notes)
	return res
}

func (r *atResult) coq() string {
	var b strings.Builder
	b.WriteString("(* GENERATED by harness/cmd/astx (access) from the Go sources of mochi-mqtt/server; do not edit.\n")
	b.WriteString("   One record per syntactic access to a field of the shared broker types (non-test files):\n")
	b.WriteString("   field path, function, write?, through sync/atomic?, dominated by a guard\n")
	b.WriteString("   \"v := obj.StopTime(); if v == 0 { continue/return }\" on the accessed object?, locks held (class, mode, lock of the accessed\n")
	b.WriteString("   object itself?), goroutine roots reaching the function (H connection handler, W write loop,\n")
	b.WriteString("   E event loop, A API caller, I initialisation, G other spawned goroutine, X no known root). *)\n")
	b.WriteString("From Coq Require Import List String.\nFrom MV Require Import Conc.Locks Conc.Discipline.\nImport ListNotations.\nOpen Scope string_scope.\n\n")
	b.WriteString("Definition tbl : access_table := [\n")
	for i, s := range r.Sites {
		sep := ";"
		if i == len(r.Sites)-1 {
			sep = ""
		}
		var ps, ls, rs []string
		for _, p := range s.Path {
			ps = append(ps, coqString(p))
		}
		for _, l := range s.Locks {
			ls = append(ls, fmt.Sprintf("(%s, %s, %v)", coqString(l.Class), l.Mode, l.Own))
		}
		for _, x := range s.Roots {
			rs = append(rs, "R"+x)
		}
		fmt.Fprintf(&b, "  mk_asite [%s] %s %v %v %v [%s] [%s]%s\n", strings.Join(ps, "; "), coqString(s.Fn), s.Write, s.Atomic, s.AfterStop,
			strings.Join(ls, "; "), strings.Join(rs, "; "), sep)
	}
	b.WriteString("].\n\n")
	b.WriteString("(* the engine of hx race: race reports are classified against the declaration and this table *)\n")
	b.WriteString("(* ENGINE race Gen.AccessTable.race_engine *)\n")
	b.WriteString("Definition race_engine := race_engine_with decl tbl.\n")
	return b.String()
}
