package main

type atResult struct{}

func (r *atResult) coq() string { return "" }

func analyseAccess(w *world) *atResult { return &atResult{} }
