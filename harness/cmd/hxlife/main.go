// hx: correspondence harness. Each sub-command runs the real implementation (/repo, built with
// -tags verif) on generated inputs and prints one case (input + observation) per line.
package main

import (
	"flag"
	"fmt"
	"os"
	"sort"

	"verifharness/sx"
)

type engineFn func(seed int64, tier string, args []string, out *sx.Out)

var engines = map[string]engineFn{}

func main() {
	if len(os.Args) < 2 {
		names := []string{}
		for k := range engines {
			names = append(names, k)
		}
		sort.Strings(names)
		fmt.Fprintln(os.Stderr, "usage: hx <engine> [-seed n] [-tier quick|thorough] ...; engines:", names)
		os.Exit(2)
	}
	fn, ok := engines[os.Args[1]]
	if !ok {
		fmt.Fprintln(os.Stderr, "unknown engine", os.Args[1])
		os.Exit(2)
	}
	fs := flag.NewFlagSet(os.Args[1], flag.ExitOnError)
	seed := fs.Int64("seed", 1, "PRNG seed")
	tier := fs.String("tier", "quick", "quick|thorough")
	fs.Parse(os.Args[2:])
	out := sx.NewOut()
	fn(*seed, *tier, fs.Args(), out)
	out.Flush()
}
