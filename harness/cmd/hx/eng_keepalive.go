package main

// C37 — keepalive.  Three kinds of cases (see coq/IO/Keepalive.v, keepalive_engine):
//   (0 K disabled offset_ms)               deadline probe through the real Client.Read, every K
//   (1 K events)                           sessions over the real server on a recording net.Conn
//   (2 K arrivals closed closed_at until)  real-time runs over net.Pipe (K=1 quick; 0..3 thorough)

import (
	"errors"
	"io"
	"log/slog"
	"math/rand"
	"net"
	"sort"
	"sync"
	"time"

	mqtt "github.com/mochi-mqtt/server/v2"
	"github.com/mochi-mqtt/server/v2/hooks/auth"
	"github.com/mochi-mqtt/server/v2/packets"

	"verifharness/sx"
)

func init() { engines["keepalive"] = engKeepalive }

type kaAddr struct{}

func (kaAddr) Network() string { return "mem" }
func (kaAddr) String() string  { return "127.0.0.1:1" }

type kaEvent struct {
	arm      bool
	disabled bool
	offMs    int64
	n        int
	write    bool // the broker wrote n bytes to the connection
}

// kaConn is a net.Conn that records SetDeadline/SetReadDeadline arguments relative to a reference
// instant and serves packets fed by the harness, one per Read call.  No waiting on timers.
type kaConn struct {
	mu     sync.Mutex
	ref    time.Time // reference instant for the next arm (time of the triggering action)
	events []kaEvent
	feed   chan []byte   // nil => Read returns io.EOF at once
	parked chan struct{} // signalled each time Read is entered with nothing pending
	rest   []byte
	closed bool
	writes int
}

func (c *kaConn) Read(p []byte) (int, error) {
	if c.feed == nil {
		return 0, io.EOF
	}
	if len(c.rest) == 0 {
		c.parked <- struct{}{}
		b, ok := <-c.feed
		if !ok {
			return 0, io.EOF
		}
		c.rest = b
		c.mu.Lock()
		c.ref = time.Now()
		c.mu.Unlock()
	}
	n := copy(p, c.rest)
	c.rest = c.rest[n:]
	c.mu.Lock()
	c.events = append(c.events, kaEvent{n: n})
	c.mu.Unlock()
	return n, nil
}
func (c *kaConn) Write(p []byte) (int, error) {
	c.mu.Lock()
	c.events = append(c.events, kaEvent{write: true, n: len(p)})
	c.writes++
	c.mu.Unlock()
	return len(p), nil
}
func (c *kaConn) nWrites() int {
	c.mu.Lock()
	defer c.mu.Unlock()
	return c.writes
}
func (c *kaConn) Close() error {
	c.mu.Lock()
	c.closed = true
	c.mu.Unlock()
	return nil
}
func (c *kaConn) LocalAddr() net.Addr  { return kaAddr{} }
func (c *kaConn) RemoteAddr() net.Addr { return kaAddr{} }
func (c *kaConn) arm(t time.Time) {
	c.mu.Lock()
	defer c.mu.Unlock()
	if t.IsZero() {
		c.events = append(c.events, kaEvent{arm: true, disabled: true})
		return
	}
	off := t.Sub(c.ref).Milliseconds() // rounds toward zero
	if off < 0 {
		off = 0
	}
	c.events = append(c.events, kaEvent{arm: true, offMs: off})
}
func (c *kaConn) SetDeadline(t time.Time) error      { c.arm(t); return nil }
func (c *kaConn) SetReadDeadline(t time.Time) error  { c.arm(t); return nil }
func (c *kaConn) SetWriteDeadline(t time.Time) error { return nil }

func kaServer() *mqtt.Server {
	caps := mqtt.NewDefaultServerCapabilities()
	caps.MaximumClientWritesPending = 8
	s := mqtt.New(&mqtt.Options{
		Logger:       slog.New(slog.NewTextHandler(io.Discard, nil)),
		Capabilities: caps,
		InlineClient: true,
	})
	_ = s.AddHook(new(auth.AllowHook), nil)
	return s
}

// kaProbe drives the real Client.Read once with keepalive K on a connection that is at EOF and
// returns what was passed to SetDeadline.  Several attempts, smallest offset kept: each attempt
// is a genuine observation, the smallest one has the least scheduling noise in it.
func kaProbe(s *mqtt.Server, k uint16) (disabled bool, offMs int64, ok bool) {
	best := int64(-1)
	for attempt := 0; attempt < 4; attempt++ {
		c := &kaConn{}
		cl := s.NewClient(c, "t", "probe", false)
		cl.State.Keepalive = k
		c.ref = time.Now()
		_ = cl.Read(func(*mqtt.Client, packets.Packet) error { return nil })
		var first *kaEvent
		for i := range c.events {
			if c.events[i].arm {
				first = &c.events[i]
				break
			}
		}
		if first == nil {
			return false, 0, false
		}
		if first.disabled {
			return true, 0, true
		}
		if best < 0 || first.offMs < best {
			best = first.offMs
		}
		if first.offMs%500 < 3 {
			break // no visible noise
		}
	}
	return false, best, true
}

func kaConnect(version byte, k uint16, id string) []byte {
	vh := []byte{0, 4, 'M', 'Q', 'T', 'T', version, 2, byte(k >> 8), byte(k)}
	if version == 5 {
		vh = append(vh, 0)
	}
	vh = append(vh, byte(len(id)>>8), byte(len(id)))
	vh = append(vh, id...)
	return append([]byte{0x10, byte(len(vh))}, vh...)
}

func kaPacket(rng *rand.Rand, version byte, pid *uint16) []byte {
	props := []byte{}
	if version == 5 {
		props = []byte{0}
	}
	switch rng.Intn(4) {
	case 0:
		return []byte{0xc0, 0}
	case 1: // SUBSCRIBE a/b qos 1
		*pid++
		b := []byte{byte(*pid >> 8), byte(*pid)}
		b = append(b, props...)
		b = append(b, 0, 3, 'a', '/', 'b', 1)
		return append([]byte{0x82, byte(len(b))}, b...)
	case 2: // PUBLISH qos 0
		b := []byte{0, 3, 'a', '/', 'b'}
		b = append(b, props...)
		b = append(b, 'x', 'y')
		return append([]byte{0x30, byte(len(b))}, b...)
	default: // PUBLISH qos 1
		*pid++
		b := []byte{0, 3, 'c', '/', 'd', byte(*pid >> 8), byte(*pid)}
		b = append(b, props...)
		b = append(b, 'z')
		return append([]byte{0x32, byte(len(b))}, b...)
	}
}

// kaSession: CONNECT with keepalive K followed by n packets through EstablishConnection.
func kaSession(rng *rand.Rand, k uint16, n int) (evs []kaEvent, ok bool) {
	s := kaServer()
	c := &kaConn{feed: make(chan []byte), parked: make(chan struct{}, 1)}
	done := make(chan struct{})
	go func() { _ = s.EstablishConnection("t", c); close(done) }()
	version := byte(4 + rng.Intn(2))
	pid := uint16(0)
	pks := [][]byte{kaConnect(version, k, "ka")}
	for i := 0; i < n; i++ {
		pks = append(pks, kaPacket(rng, version, &pid))
	}
	ok = true
	for _, p := range pks {
		select {
		case <-c.parked:
		case <-done:
			ok = false
		case <-time.After(5 * time.Second):
			ok = false
		}
		if !ok {
			break
		}
		c.feed <- p
	}
	if ok {
		select {
		case <-c.parked:
		case <-done:
		case <-time.After(5 * time.Second):
			ok = false
		}
	}
	c.mu.Lock()
	evs = append(evs, c.events...)
	c.mu.Unlock()
	close(c.feed)
	select {
	case <-done:
	case <-time.After(5 * time.Second):
	}
	return evs, ok
}

func kaSessionQuiet(evs []kaEvent) bool {
	for _, e := range evs {
		if e.arm && !e.disabled && e.offMs%500 > 20 {
			return false
		}
	}
	return true
}

func kaSessionCase(k uint16, evs []kaEvent) sx.V {
	l := sx.L{}
	for _, e := range evs {
		if e.arm {
			l = append(l, sx.L{sx.N(0), sx.Bool(e.disabled), sx.N(e.offMs)})
		} else if e.write {
			l = append(l, sx.L{sx.N(2), sx.N(e.n)})
		} else {
			l = append(l, sx.L{sx.N(1), sx.N(e.n)})
		}
	}
	return sx.L{sx.N(1), sx.N(k), l}
}

// kaFeed hands one packet to a connection's reader and waits until the broker is parked in Read again.
func kaFeed(c *kaConn, done chan struct{}, p []byte) bool {
	select {
	case <-c.parked:
	case <-done:
		return false
	case <-time.After(5 * time.Second):
		return false
	}
	c.feed <- p
	return true
}

func kaStart(s *mqtt.Server) (*kaConn, chan struct{}) {
	c := &kaConn{feed: make(chan []byte), parked: make(chan struct{}, 1)}
	done := make(chan struct{})
	go func() { _ = s.EstablishConnection("t", c); close(done) }()
	return c, done
}

func kaEnd(c *kaConn, done chan struct{}) {
	select {
	case <-c.parked:
	case <-done:
	case <-time.After(2 * time.Second):
	}
	close(c.feed)
	select {
	case <-done:
	case <-time.After(5 * time.Second):
	}
}

// kaSessionWrites: a subscriber with keepalive K that stays silent after its SUBSCRIBE while the
// broker writes to it on its own initiative — a retained message on subscribe, deliveries caused
// by an inline publish or by another client, another client's will — each at least 80 ms (more
// than the probe tolerance) after the subscriber's last inbound packet.  Offsets of SetDeadline
// calls are measured from that last inbound packet: a deadline moved by a write shows as an
// offset above 1.5 K + tolerance.
func kaSessionWrites(rng *rand.Rand, k uint16) (evs []kaEvent, ok bool) {
	s := kaServer()
	if rng.Intn(2) == 0 {
		_ = s.Publish("ka/retained", []byte("r"), true, 0)
	}
	version := byte(4 + rng.Intn(2))
	sub, subDone := kaStart(s)
	props := []byte{}
	if version == 5 {
		props = []byte{0}
	}
	sb := append([]byte{0, 1}, props...)
	sb = append(sb, 0, 4, 'k', 'a', '/', '#', byte(rng.Intn(2)))
	ok = kaFeed(sub, subDone, kaConnect(version, k, "kasub")) &&
		kaFeed(sub, subDone, append([]byte{0x82, byte(len(sb))}, sb...))
	// wait until the subscriber is parked again (SUBACK and any retained message written)
	if ok {
		select {
		case <-sub.parked:
			sub.parked <- struct{}{}
		case <-subDone:
			ok = false
		case <-time.After(5 * time.Second):
			ok = false
		}
	}
	waitWrite := func(before int) {
		for i := 0; i < 2000 && sub.nWrites() <= before; i++ {
			time.Sleep(time.Millisecond)
		}
	}
	rounds := 1 + rng.Intn(3)
	for r := 0; ok && r < rounds; r++ {
		time.Sleep(80 * time.Millisecond)
		before := sub.nWrites()
		switch rng.Intn(3) {
		case 0: // inline publish
			_ = s.Publish("ka/inline", []byte("x"), false, byte(rng.Intn(2)))
		case 1: // another client publishes
			pc, pd := kaStart(s)
			pb := []byte{0, 4, 'k', 'a', '/', 'p', 'y'}
			if kaFeed(pc, pd, kaConnect(4, 0, "kapub")) {
				kaFeed(pc, pd, append([]byte{0x30, byte(len(pb))}, pb...))
			}
			kaEnd(pc, pd)
		default: // another client's will
			wc, wd := kaStart(s)
			vh := []byte{0, 4, 'M', 'Q', 'T', 'T', 4, 0x06, 0, 0, 0, 6, 'k', 'a', 'w', 'i', 'l', 'l', 0, 4, 'k', 'a', '/', 'w', 0, 1, 'w'}
			kaFeed(wc, wd, append([]byte{0x10, byte(len(vh))}, vh...))
			kaEnd(wc, wd) // the connection ends without DISCONNECT: the will is published
		}
		waitWrite(before)
	}
	if ok && rng.Intn(2) == 0 { // the subscriber speaks again: a proper re-arm
		ok = kaFeed(sub, subDone, []byte{0xc0, 0})
	}
	if ok {
		select {
		case <-sub.parked:
			sub.parked <- struct{}{}
		case <-subDone:
		case <-time.After(5 * time.Second):
			ok = false
		}
	}
	sub.mu.Lock()
	evs = append(evs, sub.events...)
	sub.mu.Unlock()
	kaEnd(sub, subDone)
	return evs, ok
}

// kaRealtimeMixed: a subscriber over net.Pipe that is silent after SUBSCRIBE while an inline
// publisher delivers to it every pubEveryMs; it must be closed 1.5 K after the SUBSCRIBE.
// case = (3 K ((0 t_in) | (1 t_out) ...) closed closed_at until)
func kaRealtimeMixed(k uint16, pubEveryMs, watchMs int64) sx.V {
	s := kaServer()
	a, b := net.Pipe()
	done := make(chan struct{})
	go func() { _ = s.EstablishConnection("t", b); close(done) }()
	type hev struct {
		out bool
		t   int64
	}
	var mu sync.Mutex
	var hist []hev
	var start time.Time
	closedCh := make(chan time.Time, 1)
	started := make(chan struct{})
	go func() {
		buf := make([]byte, 512)
		<-started
		for {
			_, err := a.Read(buf)
			now := time.Now()
			if err != nil {
				closedCh <- now
				return
			}
			mu.Lock()
			hist = append(hist, hev{true, now.Sub(start).Milliseconds()})
			mu.Unlock()
		}
	}()
	fail := func() sx.V { return sx.L{sx.N(3), sx.N(k), sx.L{}, sx.N(0), sx.N(0), sx.N(0)} }
	if _, err := a.Write(kaConnect(4, k, "rtsub")); err != nil {
		return fail()
	}
	start = time.Now()
	close(started)
	sb := []byte{0, 1, 0, 4, 'k', 'a', '/', '#', 0}
	if _, err := a.Write(append([]byte{0x82, byte(len(sb))}, sb...)); err != nil {
		return fail()
	}
	tsub := time.Since(start).Milliseconds()
	mu.Lock()
	hist = append(hist, hev{false, tsub})
	mu.Unlock()
	stopPub := make(chan struct{})
	go func() {
		tk := time.NewTicker(time.Duration(pubEveryMs) * time.Millisecond)
		defer tk.Stop()
		for {
			select {
			case <-stopPub:
				return
			case <-tk.C:
				_ = s.Publish("ka/rt", []byte("p"), false, 0)
			}
		}
	}()
	closed, closedAt := false, int64(0)
	select {
	case ct := <-closedCh:
		closed, closedAt = true, ct.Sub(start).Milliseconds()
	case <-time.After(time.Duration(tsub+watchMs) * time.Millisecond):
	}
	until := time.Since(start).Milliseconds()
	close(stopPub)
	_ = a.Close()
	select {
	case <-done:
	case <-time.After(5 * time.Second):
	}
	mu.Lock()
	defer mu.Unlock()
	sort.SliceStable(hist, func(i, j int) bool { return hist[i].t < hist[j].t })
	l := sx.L{}
	for _, h := range hist {
		if h.t <= until {
			l = append(l, sx.L{sx.Bool(h.out), sx.N(h.t)})
		}
	}
	return sx.L{sx.N(3), sx.N(k), l, sx.Bool(closed), sx.N(closedAt), sx.N(until)}
}

// kaRealtime: real server, net.Pipe, wall-clock.  gaps (ms) between the packets the harness sends
// after the CONNECT; then it watches for the close until watchMs after the last send attempt.
type kaRT struct {
	k        uint16
	arrivals []int64
	closed   bool
	closedAt int64
	until    int64
	noisy    bool
}

func kaRealtime(k uint16, gapsMs []int64, watchMs int64) kaRT {
	s := kaServer()
	a, b := net.Pipe()
	done := make(chan struct{})
	go func() { _ = s.EstablishConnection("t", b); close(done) }()
	res := kaRT{k: k}
	if _, err := a.Write(kaConnect(4, k, "rt")); err != nil {
		return res
	}
	start := time.Now()
	closedCh := make(chan time.Time, 1)
	go func() {
		buf := make([]byte, 256)
		for {
			if _, err := a.Read(buf); err != nil {
				closedCh <- time.Now()
				return
			}
		}
	}()
	var closedT time.Time
	isClosed := false
	wait := func(until time.Time) {
		if isClosed {
			return
		}
		d := time.Until(until)
		if d < 0 {
			d = 0
		}
		tm := time.NewTimer(d)
		defer tm.Stop()
		select {
		case closedT = <-closedCh:
			isClosed = true
		case <-tm.C:
			if over := time.Since(until); over > 100*time.Millisecond {
				res.noisy = true
			}
		}
	}
	last := start
	for _, g := range gapsMs {
		target := last.Add(time.Duration(g) * time.Millisecond)
		wait(target)
		if isClosed {
			break
		}
		_ = a.SetWriteDeadline(time.Now().Add(2 * time.Second))
		if _, err := a.Write([]byte{0xc0, 0}); err != nil {
			// not accepted: either closed (the reader will say when) or stuck
			if !errors.Is(err, io.ErrClosedPipe) {
				res.noisy = true
			}
			break
		}
		last = time.Now()
		res.arrivals = append(res.arrivals, last.Sub(start).Milliseconds())
	}
	wait(last.Add(time.Duration(watchMs) * time.Millisecond))
	if !isClosed {
		select {
		case closedT = <-closedCh:
			isClosed = true
		default:
		}
	}
	res.until = time.Since(start).Milliseconds()
	if isClosed {
		res.closed = true
		res.closedAt = closedT.Sub(start).Milliseconds()
	}
	_ = a.Close()
	select {
	case <-done:
	case <-time.After(5 * time.Second):
	}
	return res
}

func (r kaRT) toCase() sx.V {
	arr := sx.L{}
	for _, t := range r.arrivals {
		arr = append(arr, sx.N(t))
	}
	return sx.L{sx.N(2), sx.N(r.k), arr, sx.Bool(r.closed), sx.N(r.closedAt), sx.N(r.until)}
}

func engKeepalive(seed int64, tier string, _ []string, out *sx.Out) {
	rng := rand.New(rand.NewSource(seed))

	// real-time scenarios run in the background while the probes are taken
	type scen struct {
		k     uint16
		gaps  []int64
		watch int64
	}
	scens := []scen{
		{1, []int64{1250}, 2000}, // survives a 1.25 s gap, then closes 1.5 s after the last packet
		{1, []int64{1750}, 500},  // a packet 1.75 s after the CONNECT comes too late
	}
	if tier == "thorough" {
		scens = []scen{
			{0, []int64{1000, 2000}, 4000},
			{1, []int64{1250, 1250, 1250}, 2000},
			{1, []int64{1750}, 500},
			{1, nil, 2000},
			{2, []int64{2500, 2500, 1000}, 4000},
			{2, []int64{3500}, 1000},
			{3, []int64{3750, 3750, 500}, 6000},
			{3, []int64{5250}, 1000},
		}
	}
	rts := make([]kaRT, len(scens))
	var wg sync.WaitGroup
	for i, sc := range scens {
		wg.Add(1)
		go func(i int, sc scen) {
			defer wg.Done()
			for attempt := 0; attempt < 3; attempt++ {
				rts[i] = kaRealtime(sc.k, sc.gaps, sc.watch)
				if !rts[i].noisy {
					return
				}
			}
		}(i, sc)
	}

	// sessions and real-time runs in which the broker writes to a silent subscriber
	wks := []uint16{1, 1, 2, 3, 5, 10, 60, 0, 43691, 65535}
	type mixedScen struct {
		k            uint16
		every, watch int64
	}
	mixed := []mixedScen{{1, 400, 2600}}
	if tier == "thorough" {
		for i := 0; i < 60; i++ {
			wks = append(wks, uint16(rng.Intn(65536)))
		}
		mixed = []mixedScen{{1, 400, 2600}, {1, 1000, 2600}, {2, 700, 4500}, {3, 1200, 6500}, {0, 500, 3000}}
	}
	wseeds := make([]int64, len(wks))
	for i := range wseeds {
		wseeds[i] = rng.Int63()
	}
	wevs := make([][]kaEvent, len(wks))
	mixedOut := make([]sx.V, len(mixed))
	sem := make(chan struct{}, 6)
	for i := range wks {
		wg.Add(1)
		go func(i int) {
			defer wg.Done()
			sem <- struct{}{}
			defer func() { <-sem }()
			for attempt := 0; attempt < 3; attempt++ {
				evs, ok := kaSessionWrites(rand.New(rand.NewSource(wseeds[i])), wks[i])
				wevs[i] = evs
				if ok && kaSessionQuiet(evs) {
					return
				}
			}
		}(i)
	}
	for i, m := range mixed {
		wg.Add(1)
		go func(i int, m mixedScen) {
			defer wg.Done()
			mixedOut[i] = kaRealtimeMixed(m.k, m.every, m.watch)
		}(i, m)
	}

	// (i) exhaustive: every keepalive value
	s := kaServer()
	for k := 0; k <= 65535; k++ {
		dis, off, ok := kaProbe(s, uint16(k))
		if !ok {
			out.Case(sx.L{sx.N(0), sx.N(k), sx.N(2), sx.N(0)}) // no SetDeadline at all: unparsable on purpose
			continue
		}
		out.Case(sx.L{sx.N(0), sx.N(k), sx.Bool(dis), sx.N(off)})
	}

	// (ii) sessions through the real server: boundary keepalives and random ones
	ks := []uint16{0, 1, 2, 3, 4, 5, 9, 10, 11, 59, 60, 61, 255, 256, 257, 21845, 32767, 32768, 43689, 43690, 43691, 43692, 65533, 65534, 65535}
	nrand := 150
	if tier == "thorough" {
		nrand = 3000
	}
	for i := 0; i < nrand; i++ {
		ks = append(ks, uint16(rng.Intn(65536)))
	}
	for _, k := range ks {
		n := rng.Intn(7)
		var evs []kaEvent
		st := rng.Int63()
		for attempt := 0; attempt < 3; attempt++ {
			var ok bool
			evs, ok = kaSession(rand.New(rand.NewSource(st)), k, n)
			if ok && kaSessionQuiet(evs) {
				break
			}
		}
		out.Case(kaSessionCase(k, evs))
	}

	// (iii) real-time
	wg.Wait()
	for _, r := range rts {
		out.Case(r.toCase())
	}
	for i, evs := range wevs {
		out.Case(kaSessionCase(wks[i], evs))
	}
	for _, c := range mixedOut {
		out.Case(c)
	}
}
