package main

import (
	"fmt"
	"os"
	"sync"
	"time"

	mqtt "github.com/mochi-mqtt/server/v2"
	"github.com/mochi-mqtt/server/v2/packets"

	"verifharness/sx"
)

func init() {
	engines["connack_sched"] = engConnackSched
	engines["takeover_sched"] = engTakeoverSched
}

// Forced schedules for the takeover / CONNACK windows (C13, C14, C16).  The broker goroutines are
// parked at verifPoints (mqtt.VerifPointHook) and released in the order of a schedule of the
// interleaving models coq/Conc/Connack.v and coq/Conc/Takeover.v; the case reports the schedule in
// model thread ids and what the real broker showed at the end.

type lsCtl struct {
	mu     sync.Mutex
	armed  map[string]bool
	parked map[string]chan struct{}
}

func newLsCtl() *lsCtl {
	c := &lsCtl{armed: map[string]bool{}, parked: map[string]chan struct{}{}}
	mqtt.VerifPointHook = c.hook
	return c
}

func (c *lsCtl) hook(name string) {
	c.mu.Lock()
	if !c.armed[name] {
		c.mu.Unlock()
		return
	}
	delete(c.armed, name)
	ch := make(chan struct{})
	c.parked[name] = ch
	c.mu.Unlock()
	<-ch
}

func (c *lsCtl) arm(name string) {
	c.mu.Lock()
	c.armed[name] = true
	c.mu.Unlock()
}

func (c *lsCtl) isParked(name string) bool {
	c.mu.Lock()
	defer c.mu.Unlock()
	return c.parked[name] != nil
}

// waitParked waits (briefly) until a goroutine is parked at the point.
func (c *lsCtl) waitParked(name string) bool {
	for i := 0; i < 100000; i++ {
		if c.isParked(name) {
			return true
		}
		time.Sleep(50 * time.Microsecond)
	}
	return false
}

func (c *lsCtl) release(name string) {
	c.mu.Lock()
	ch := c.parked[name]
	delete(c.parked, name)
	delete(c.armed, name)
	c.mu.Unlock()
	if ch != nil {
		close(ch)
	}
}

func (c *lsCtl) done() {
	c.mu.Lock()
	for n, ch := range c.parked {
		close(ch)
		delete(c.parked, n)
	}
	c.armed = map[string]bool{}
	c.mu.Unlock()
	mqtt.VerifPointHook = nil
}

// schedHarness: a life-cycle history harness whose steps tolerate a parked handler.
func newSchedH() *lifeH {
	h := newLifeHOpts(defaultLifeCaps(), 1, 150*time.Millisecond)
	return h
}

// settle: with nothing parked at a schedule point the broker must become quiescent; the short
// quiescence timeout of this harness may expire under machine load, so wait again.
func (h *lifeH) settle() {
	for i := 0; i < 100; i++ {
		h.b.Hung = false
		h.b.Quiesce()
		if !h.b.Hung {
			return
		}
	}
}

func nums(l ...int) sx.L {
	r := sx.L{}
	for _, n := range l {
		r = append(r, sx.N(uint64(n)))
	}
	return r
}

// wire of a connection so far: packet types in order (2 CONNACK, 3 PUBLISH), other types skipped
func (h *lifeH) wireTypes(lc *lconn) sx.L {
	r := sx.L{}
	pks, _, _ := brokerDecodeAll(lc)
	for _, p := range pks {
		if p.FixedHeader.Type == packets.Connack || p.FixedHeader.Type == packets.Publish {
			r = append(r, sx.N(uint64(p.FixedHeader.Type)))
		}
	}
	return r
}

func (h *lifeH) inflightOf(id string) int {
	for _, c := range h.b.Srv.VerifLifeSnapshot().Clients {
		if c.ID == id {
			return len(c.Inflight)
		}
	}
	return 0
}

// engConnackSched: args[0] = "C13" (CONNACK-first window) or "C14" (inherit window)
func engConnackSched(seed int64, tier string, args []string, out *sx.Out) {
	focus := "C13"
	if len(args) > 0 {
		focus = args[0]
	}
	t0 := time.Now()
	reps := 1
	if tier == "thorough" {
		reps = 20
	}
	type sc struct {
		point string // where B's attach is parked while the publisher runs ("" = not parked)
		when  int    // 0 publish before B connects, 1 publish while parked, 2 publish after B is connected
		sched []int
	}
	var scs []sc
	if focus == "C13" {
		scs = []sc{
			{"attach.afterClientsAdd", 1, []int{0, 0, 1, 2, 0, 0}}, // Inherit ClientsAdd | Publish Write | SendConnack Resend
			{"", 2, []int{0, 0, 0, 0, 1, 2}},
			{"", 0, []int{1, 0, 0, 0, 0}},
		}
	} else {
		scs = []sc{
			{"attach.afterInherit", 1, []int{0, 1, 0, 0, 0}}, // Inherit | Publish | ClientsAdd SendConnack Resend
			{"", 2, []int{0, 0, 0, 0, 1, 2}},
			{"", 0, []int{1, 0, 0, 0, 0}},
		}
	}
	for r := 0; r < reps; r++ {
		for _, s := range scs {
			for _, ver := range []byte{5, 4} {
				ctl := newLsCtl()
				h := newSchedH()
				o := h.opConnect(stdConnect("obs", 5, true))
				h.settle()
				va := stdConnect("a", ver, false)
				if ver == 5 {
					va.seiFlag, va.sei = true, 30
				}
				a := h.opConnect(va)
				h.settle()
				h.opSubscribe(a, "t/1", 1)
				h.settle()
				h.opNetClose(a)
				h.settle()
				if s.when == 0 {
					h.opPublish(o, "t/1", []byte("m1"), 1, false)
					h.settle()
				}
				if s.point != "" {
					ctl.arm(s.point)
				}
				b := h.opConnect(va)
				ok := true
				if s.point != "" {
					ok = ctl.waitParked(s.point)
					h.b.Hung = false
				}
				if s.when == 1 {
					h.opPublish(o, "t/1", []byte("m1"), 1, false)
					h.b.Hung = false
				}
				if s.point != "" {
					ctl.release(s.point)
				}
				h.settle()
				if s.when == 2 {
					h.opPublish(o, "t/1", []byte("m1"), 1, false)
					h.settle()
				}
				wire := h.wireTypes(b)
				infl := h.inflightOf("a")
				ctl.done()
				hung := h.b.Hung
				h.b.Shutdown()
				if !ok || hung {
					out.Case(sx.L{nums(s.sched...), sx.L{sx.N(99)}, sx.N(0)})
					continue
				}
				out.Case(sx.L{nums(s.sched...), wire, sx.N(uint64(infl))})
			}
		}
	}
	fmt.Fprintf(os.Stderr, "connack_sched %s: %d cases in %v\n", focus, out.Count(), time.Since(t0))
}

// engTakeoverSched: args[0] = "C14" (registration) or "C16" (delayed will)
func engTakeoverSched(seed int64, tier string, args []string, out *sx.Out) {
	focus := "C14"
	if len(args) > 0 {
		focus = args[0]
	}
	t0 := time.Now()
	reps := 1
	if tier == "thorough" {
		reps = 20
	}
	type sc struct {
		expire, will, delay, clean bool
		order                      int // 0 B completely, then A's teardown; 1 stale IsTakenOver check; 2 A's teardown while B is parked before willDelayed.Delete
		// 3 A has ended by its OWN normal DISCONNECT (stopped with that cause) and is parked at attach.readReturned; B completely; then A's clean-up
		// 4 Compatibilities.PassiveClientDisconnect: the takeover does not stop A; B completely; then A's client closes and A's clean-up runs
		sched []int
	}
	var scs []sc
	if focus == "C14" {
		scs = []sc{
			{true, false, false, false, 1, []int{1, 1, 0, 0, 0, 1, 1, 1, 1, 0, 0}},
			{true, false, false, true, 1, []int{1, 1, 0, 0, 0, 1, 1, 1, 1, 0, 0}},
			{true, false, false, false, 0, []int{1, 1, 1, 1, 1, 1, 0, 0, 0}},
			{false, false, false, false, 0, []int{1, 1, 1, 1, 1, 1, 0, 0, 0}},
			{true, true, false, false, 0, []int{1, 1, 1, 1, 1, 1, 0, 0, 0}},
			{true, false, false, false, 3, []int{1, 1, 1, 1, 1, 1, 0, 0, 0}},
			{true, false, false, true, 3, []int{1, 1, 1, 1, 1, 1, 0, 0, 0}},
			{true, false, false, false, 4, []int{1, 1, 1, 1, 1, 1, 0, 0, 0}},
			{true, false, false, true, 4, []int{1, 1, 1, 1, 1, 1, 0, 0, 0}},
			{true, true, false, false, 4, []int{1, 1, 1, 1, 1, 1, 0, 0, 0}},
		}
	} else {
		scs = []sc{
			{false, true, true, false, 0, []int{1, 1, 1, 1, 1, 1, 0, 0, 0}},
			{false, true, true, false, 2, []int{1, 1, 1, 1, 1, 0, 0, 0, 1}},
			{false, true, false, false, 0, []int{1, 1, 1, 1, 1, 1, 0, 0, 0}},
			{false, true, false, false, 2, []int{1, 1, 1, 1, 1, 0, 0, 0, 1}},
			{false, true, true, true, 0, []int{1, 1, 1, 1, 1, 1, 0, 0, 0}},
		}
	}
	for r := 0; r < reps; r++ {
		for _, s := range scs {
			ctl := newLsCtl()
			h := newSchedH()
			o := h.opConnect(stdConnect("obs", 5, true))
			h.settle()
			h.opSubscribe(o, "w/1", 2)
			h.settle()
			va := stdConnect("a", 5, false)
			va.seiFlag, va.sei = true, 30
			if s.expire {
				va.sei = 0
			}
			if s.will {
				va.willFlag, va.willQos, va.willTopic, va.willPayload = true, 1, "w/1", []byte("will-a")
				if s.delay {
					va.willDelay = 5
				}
			}
			a := h.opConnect(va)
			h.settle()
			h.opSubscribe(a, "t/1", 1)
			h.settle()
			vb := stdConnect("a", 5, s.clean)
			vb.seiFlag, vb.sei = true, 30
			ok := true
			var b *lconn
			switch s.order {
			case 0:
				b = h.opConnect(vb)
				h.settle()
				if h.held(a) {
					h.opTeardown(a)
					h.settle()
				}
			case 1:
				ctl.arm("inherit.afterDisconnectOld")
				ctl.arm("attach.insideExpireBlock")
				b = h.opConnect(vb)
				ok = ctl.waitParked("inherit.afterDisconnectOld")
				h.b.Hung = false
				h.opTeardown(a) // A's read returns: sendLWT, Stop, the expire test, parked inside the block
				ok = ok && ctl.waitParked("attach.insideExpireBlock")
				h.b.Hung = false
				ctl.release("inherit.afterDisconnectOld") // B: Store(true), Clients.Add, CONNACK, willDelayed.Delete
				h.b.Quiesce()
				h.b.Hung = false
				ctl.release("attach.insideExpireBlock") // A: ClearInflights, UnsubscribeClient, Clients.Delete
				h.settle()
			case 3:
				ctl.arm("attach.readReturned")
				h.opDisconnect(a, 0, false, 0) // A's read loop returns (A stopped itself: cause = client DISCONNECT), parked before its clean-up
				ok = ctl.waitParked("attach.readReturned")
				h.b.Hung = false
				b = h.opConnect(vb) // B: finds A still registered, takes the session over, Clients.Add, CONNACK
				h.b.Hung = false
				ctl.release("attach.readReturned") // A: the expire test (taken over: nothing to clean up)
				h.settle()
			case 4:
				h.b.Srv.Options.Capabilities.Compatibilities.PassiveClientDisconnect = true
				b = h.opConnect(vb) // A receives DISCONNECT 0x8E but is not stopped by the broker
				h.settle()
				h.opNetClose(a) // A's client closes: A stops with its own cause, its clean-up runs
				h.settle()
			case 2:
				ctl.arm("attach.afterConnack")
				b = h.opConnect(vb)
				ok = ctl.waitParked("attach.afterConnack")
				h.b.Hung = false
				if h.held(a) {
					h.opTeardown(a)
				}
				h.b.Hung = false
				ctl.release("attach.afterConnack")
				h.settle()
			}
			snap := h.b.Srv.VerifLifeSnapshot()
			reg := 0
			for _, c := range snap.Clients {
				if c.ID == "a" {
					if c.Remote == fmt.Sprintf("c%d", a.c.Idx) {
						reg = 1
					} else if c.Remote == fmt.Sprintf("c%d", b.c.Idx) {
						reg = 2
					}
				}
			}
			pending := false
			for _, w := range snap.Wills {
				if w.Client == "a" {
					pending = true
				}
			}
			pks, _, _ := brokerDecodeAll(o)
			pub := 0
			for _, p := range pks {
				if p.FixedHeader.Type == packets.Publish && string(p.Payload) == "will-a" {
					pub++
				}
			}
			ctl.done()
			hung := h.b.Hung
			h.b.Shutdown()
			prm := sx.L{sx.Bool(s.expire), sx.Bool(s.will), sx.Bool(s.delay), sx.Bool(s.clean), sx.Bool(s.order == 3 || s.order == 4)}
			if !ok || hung {
				out.Case(sx.L{prm, nums(s.sched...), sx.L{sx.N(9), sx.Bool(false), sx.N(9)}})
				continue
			}
			out.Case(sx.L{prm, nums(s.sched...), sx.L{sx.N(uint64(reg)), sx.Bool(pending), sx.N(uint64(pub))}})
		}
	}
	fmt.Fprintf(os.Stderr, "takeover_sched %s: %d cases in %v\n", focus, out.Count(), time.Since(t0))
}
