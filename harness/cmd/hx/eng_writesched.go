package main

import (
	"math/rand"
	"sync"
	"time"

	mqtt "github.com/mochi-mqtt/server/v2"
	"github.com/mochi-mqtt/server/v2/packets"

	"verifharness/broker"
	"verifharness/sx"
)

func init() { engines["writesched"] = engWriteSched }

// writesched: forced interleavings of the write loop and the connection handler in
// Client.WritePacket (schedule point write.beforeLock).  A response to a request is made to enter
// WritePacket while publishes for the same client are still queued, the queue is drained by the
// write loop, and only then is the response allowed to take the client lock.  Whatever the order,
// the response must be on the wire when the broker is quiescent.  Cases are emitted in the format
// of the `respond` engine (C07's monitor decides).

type gate struct {
	mu      sync.Mutex
	armed   bool
	waiters []chan struct{}
}

func (g *gate) hook(name string) {
	if name != "write.beforeLock" {
		return
	}
	g.mu.Lock()
	if !g.armed {
		g.mu.Unlock()
		return
	}
	ch := make(chan struct{})
	g.waiters = append(g.waiters, ch)
	g.mu.Unlock()
	<-ch
}

func (g *gate) count() int {
	g.mu.Lock()
	defer g.mu.Unlock()
	return len(g.waiters)
}

func (g *gate) release(i int) {
	g.mu.Lock()
	ch := g.waiters[i]
	g.mu.Unlock()
	close(ch)
}

func (g *gate) disarm() {
	g.mu.Lock()
	g.armed = false
	g.mu.Unlock()
}

func waitFor(cond func() bool) bool {
	deadline := time.Now().Add(20 * time.Second)
	for !cond() {
		if time.Now().After(deadline) {
			return false
		}
		time.Sleep(50 * time.Microsecond)
	}
	return true
}

func engWriteSched(seed int64, tier string, _ []string, out *sx.Out) {
	rng := rand.New(rand.NewSource(seed))
	n := 60
	if tier == "thorough" {
		n = 1500
	}
	for i := 0; i < n; i++ {
		if i%5 == 4 {
			if !failedQueuedWrite(rng, out) {
				break
			}
			continue
		}
		g := &gate{}
		mqtt.VerifPointHook = g.hook
		ver := []byte{4, 5}[i%2]
		b := broker.New(broker.Opts{Auth: broker.AllowAuth, ACL: broker.AllowACL})
		s := b.Connect("10.0.0.1:1", broker.ConnectPk("s", ver, true))
		p := b.Connect("10.0.0.2:1", broker.ConnectPk("p", 4, true))
		b.SendPacket(s, broker.SubscribePk(1, packets.Subscription{Filter: "t", Qos: 0}))
		b.Drain()
		// the request whose response will race with the write loop
		var req packets.Packet
		fl := sx.L{}
		switch rng.Intn(3) {
		case 0:
			req = broker.PingPk()
		case 1:
			req = broker.SubscribePk(7, packets.Subscription{Filter: "x/y", Qos: 1})
			fl = sx.L{sx.L{sx.N(1), sx.N(0), sx.N(1), sx.N(0)}}
		default:
			req = broker.PublishPk("other", []byte("q"), 1, false, 9)
		}
		req.ProtocolVersion = ver
		queued := 2 + rng.Intn(3)
		handlerFirst := rng.Intn(4) == 0 // sometimes the response goes before the queue is drained
		g.mu.Lock()
		g.armed = true
		g.mu.Unlock()
		var burst []byte
		for k := 0; k < queued; k++ {
			e, _ := broker.Encode(broker.PublishPk("t", []byte{byte('a' + k)}, 0, false, 0))
			burst = append(burst, e...)
		}
		ok := true
		b.Feed(p, burst)
		// write loop of s parks with the first publish; the others stay queued
		ok = ok && waitFor(func() bool { return g.count() == 1 && p.Parked() })
		reqBytes, _ := broker.Encode(req)
		b.Feed(s, reqBytes)
		ok = ok && waitFor(func() bool { return g.count() == 2 }) // the handler of s parks with the response
		released := map[int]bool{}
		if ok && handlerFirst {
			g.release(1)
			released[1] = true
		}
		if ok {
			// let the write loop drain the queue, one packet at a time
			g.release(0)
			released[0] = true
			for k := 1; k < queued && ok; k++ {
				want := 2 + k
				ok = waitFor(func() bool { return g.count() == want })
				if ok {
					g.release(want - 1)
					released[want-1] = true
				}
			}
			ok = ok && waitFor(func() bool { return b.Srv.VerifQuiescent() })
		}
		g.disarm()
		for j := 0; j < g.count(); j++ {
			if !released[j] {
				g.release(j)
			}
		}
		b.Quiesce()
		outs := sx.L{}
		closed := false
		for _, o := range b.Drain() {
			if o.Conn == s.Idx {
				for _, q := range o.Packets {
					outs = append(outs, broker.PkSx(q))
				}
				closed = o.Closed
			}
		}
		if !ok || b.Hung {
			closed = false
			outs = sx.L{} // a schedule that could not be realised or a hang: reported as unanswered
		}
		out.Case(sx.L{sx.N(uint64(ver)), sx.N(2), sx.N(0), sx.N(1), sx.L{sx.N(0), sx.N(1024)}, sx.N(1), sx.L{}, fl,
			broker.PkSx(req), outs, sx.Bool(closed), sx.Bool(false)})
		b.Shutdown()
		mqtt.VerifPointHook = nil
		if !ok {
			break // the schedule point is not being reached: one report is enough, do not wait 60 times
		}
	}
}

// failedQueuedWrite: a queued PUBLISH that the write loop cannot write (larger than the MQTT 5
// subscriber's Maximum Packet Size) with packets queued before and behind it, then a request from
// that subscriber.  The write loop is held at write.beforeLock with the first packet until the whole
// burst is queued, so the refused packet is met with a non-empty queue behind it (the path through
// flushIdle's "more writes are queued" return).  Whatever happens to the refused packet, the
// request must be answered and the small packets must be on the wire at quiescence.  Emits one case
// in the format of the `respond` engine; returns false when the schedule point is not reached.
func failedQueuedWrite(rng *rand.Rand, out *sx.Out) bool {
	g := &gate{}
	mqtt.VerifPointHook = g.hook
	defer func() { mqtt.VerifPointHook = nil }()
	b := broker.New(broker.Opts{Auth: broker.AllowAuth, ACL: broker.AllowACL})
	defer b.Shutdown()
	cp := broker.ConnectPk("s", 5, true)
	cp.Properties.MaximumPacketSize = 100
	s := b.Connect("10.0.0.1:1", cp)
	p := b.Connect("10.0.0.2:1", broker.ConnectPk("p", 4, true))
	b.SendPacket(s, broker.SubscribePk(1, packets.Subscription{Filter: "t", Qos: 0}))
	b.Drain()
	before := 1 + rng.Intn(2)
	behind := rng.Intn(3)
	var burst []byte
	add := func(payload []byte) {
		e, _ := broker.Encode(broker.PublishPk("t", payload, 0, false, 0))
		burst = append(burst, e...)
	}
	for k := 0; k < before; k++ {
		add([]byte{byte('a' + k)})
	}
	add(make([]byte, 300)) // refused by the write loop: larger than the subscriber's maximum packet size
	for k := 0; k < behind; k++ {
		add([]byte{byte('m' + k)})
	}
	g.mu.Lock()
	g.armed = true
	g.mu.Unlock()
	b.Feed(p, burst)
	ok := waitFor(func() bool { return g.count() == 1 && p.Parked() })
	g.disarm()
	for j := 0; j < g.count(); j++ {
		g.release(j)
	}
	var req packets.Packet
	fl := sx.L{}
	switch rng.Intn(3) {
	case 0:
		req = broker.PingPk()
	case 1:
		req = broker.SubscribePk(7, packets.Subscription{Filter: "x/y", Qos: 1})
		fl = sx.L{sx.L{sx.N(1), sx.N(0), sx.N(1), sx.N(0)}}
	default:
		req = broker.PublishPk("other", []byte("q"), 1, false, 9)
	}
	req.ProtocolVersion = 5
	if ok {
		ok = waitFor(func() bool { return b.Srv.VerifQuiescent() })
	}
	b.SendPacket(s, req)
	b.Quiesce()
	outs := sx.L{}
	closed := false
	small := 0
	for _, o := range b.Drain() {
		if o.Conn == s.Idx {
			for _, q := range o.Packets {
				if q.FixedHeader.Type == packets.Publish {
					small++
				}
				outs = append(outs, broker.PkSx(q))
			}
			closed = o.Closed
		}
	}
	if !ok || b.Hung || (!closed && small != before+behind) {
		closed = false
		outs = sx.L{} // unrealised schedule, hang, or accepted packets stranded: reported as unanswered
	}
	out.Case(sx.L{sx.N(5), sx.N(2), sx.N(0), sx.N(1), sx.L{sx.N(0), sx.N(1024)}, sx.N(1), sx.L{}, fl,
		broker.PkSx(req), outs, sx.Bool(closed), sx.Bool(false)})
	return ok
}
