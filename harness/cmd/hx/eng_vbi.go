package main

import (
	"bytes"
	"errors"
	"math/rand"

	"github.com/mochi-mqtt/server/v2/packets"

	"verifharness/sx"
)

func init() { engines["vbi"] = engVbi }

func vbiDecodeCase(in []byte) sx.V {
	n, bu, err := packets.DecodeLength(bytes.NewReader(in))
	kind := 0
	if err != nil {
		if errors.Is(err, packets.ErrMalformedVariableByteInteger) {
			kind = 2
		} else {
			kind = 1
		}
		n = 0
	}
	return sx.L{sx.N(1), sx.B(in), sx.N(kind), sx.N(n), sx.N(bu)}
}

func vbiEncodeCase(n int64) sx.V {
	return sx.L{sx.N(0), sx.N(n), sx.B(packets.VerifEncodeLength(n))}
}

func engVbi(seed int64, tier string, _ []string, out *sx.Out) {
	rng := rand.New(rand.NewSource(seed))
	// (i) exhaustive: every byte string of length <= maxLen over a boundary alphabet
	alpha := []byte{0x00, 0x01, 0x7f, 0x80, 0x81, 0xff}
	maxLen := 6
	if tier == "thorough" {
		alpha = []byte{0x00, 0x01, 0x0f, 0x7f, 0x80, 0x81, 0xfe, 0xff}
		maxLen = 7
	}
	var rec func(prefix []byte)
	rec = func(prefix []byte) {
		out.Case(vbiDecodeCase(prefix))
		if len(prefix) == maxLen {
			return
		}
		for _, a := range alpha {
			rec(append(append([]byte{}, prefix...), a))
		}
	}
	rec(nil)
	// (ii) encoder: boundaries +-3, plus random values; thorough: every value below 2^21+2^10
	bounds := []int64{0, 127, 128, 16383, 16384, 2097151, 2097152, 268435455, 268435456, 1 << 31, 1 << 35, 1<<62 + 5}
	for _, b := range bounds {
		for d := int64(-3); d <= 3; d++ {
			if b+d >= 0 {
				out.Case(vbiEncodeCase(b + d))
			}
		}
	}
	nrand := 20000
	if tier == "thorough" {
		for v := int64(0); v < 2097152+1024; v++ {
			out.Case(vbiEncodeCase(v))
		}
		nrand = 2000000
	}
	for i := 0; i < nrand; i++ {
		bits := uint(rng.Intn(29))
		v := rng.Int63n(int64(1)<<bits + 1)
		enc := packets.VerifEncodeLength(v)
		out.Case(vbiEncodeCase(v))
		// (iii) decode the encoder's own output followed by junk, and random byte strings
		junk := make([]byte, rng.Intn(3))
		rng.Read(junk)
		out.Case(vbiDecodeCase(append(append([]byte{}, enc...), junk...)))
		rb := make([]byte, 1+rng.Intn(7))
		rng.Read(rb)
		if rng.Intn(2) == 0 {
			for j := range rb {
				rb[j] |= 0x80
			}
			rb[len(rb)-1] &= 0x7f
		}
		out.Case(vbiDecodeCase(rb))
	}
}
