package main

import (
	"fmt"
	"io"
	"math/rand"
	"os"
	"strconv"
	"sync"
	"time"

	mqtt "github.com/mochi-mqtt/server/v2"
	"github.com/mochi-mqtt/server/v2/packets"

	"verifharness/broker"
	"verifharness/sx"
)

func init() { engines["qos"] = engQos }

// C08-C12: the QoS flows of one client session S.  One case per history:
//   (cfg steps)   cfg  = (maxpid maxinflight srvrm maxexp)
//                 step = (op obs)
//   op  = (1 pubqos subqos uid grp now mei ppv5 qfull)   the broker delivers a message to S (a publisher published)
//       | (2 qos pid dup uid now)                        S publishes
//       | (3 type pid rc now)                            S sends PUBACK/PUBREC/PUBREL/PUBCOMP
//       | (4)                                            S sends PINGREQ/SUBSCRIBE (only the post-packet block matters)
//       | (5 graceful)                                   S's connection ends (DISCONNECT packet / network close)
//       | (6 v5 clean sei rm)                            a new connection for S's client id (reconnect or takeover)
//       | (7 now)                                        in-flight expiry housekeeping at time now
//   obs = (pkts fwds closed drops snap)
//       pkts  = what S's current connection received: (type pid dup qos uid rc); CONNACK: dup = session present
//       fwds  = uids of S's own messages forwarded to the subscriber R in this step
//       drops = uids the broker reported as dropped for S (in-flight limit, id exhaustion, queue full)
//       snap  = () if no client object for S exists, else
//               (connected infl sendq recvq maxsend maxrecv packetid), infl = list of (pid type qos uid immediate)
// Everything S does is decided online from what it has received so far (ack the oldest / newest /
// random unacknowledged message, reuse an identifier the broker is using, retransmit before PUBREL...).

type qPend struct {
	pid   uint16
	uid   uint64
	qos   byte
	phase int // 0 = PUBLISH received, 1 = PUBREC sent (QoS 2)
}

type qOpen struct {
	pid uint16
	uid uint64
	rec bool // PUBREC seen
}

type qosRun struct {
	rng         *rand.Rand
	b           *broker.B
	s           *broker.Conn
	p           [3]*broker.Conn
	r           *broker.Conn
	sv5         bool
	srm         uint16
	ssei        uint32
	sclean      bool
	subqos      byte
	uid         uint64
	steps       sx.L
	straddle    bool
	trace       bool
	pend        []qPend           // S's view: outbound messages it has not finished acknowledging
	open2       []qOpen           // S's own QoS 2 publishes without PUBREL yet
	myuid       map[uint64][]byte // uid -> payload
	lastDrop    int64
	nextPid     uint16
	prevSnap    *mqtt.VerifClient
	t0          int64
	sleepy      bool
	evPos       int
	gate        *gate          // parks S's write loop at write.beforeLock (forced queue-full)
	gated       bool           // the write loop is parked right now
	gatedStep   map[uint64]int // uid -> index of the step in which it was published while the loop was parked
	fault       bool           // the step being executed runs with failing writes on S\'s connection
	ng          *ngate         // parks allocators inside NextPacketID (forced schedules)
	wl, pa      *ngate         // write loop / publish.afterAlias gates (quota schedules)
	monitorOnly bool           // the history is judged by the monitors only
	forcePid    uint16         // gated bursts: the publishers\' own packet identifier (0 = random 1..3)
	forceOne    bool           // gated bursts: one publisher, one topic, QoS 1
	padTo       int            // payload length of the next publishes (write-buffer bursts)
	wbuf        int            // write-buffer histories: ClientNetWriteBufferSize in force
}

func zz(n int64) sx.V {
	if n < 0 {
		return sx.L{sx.N(1), sx.N(uint64(-n))}
	}
	return sx.L{sx.N(0), sx.N(uint64(n))}
}

func uidOf(payload []byte) uint64 {
	n, err := strconv.ParseUint(string(payload), 10, 64)
	if err != nil {
		return 0
	}
	return n
}

func (q *qosRun) snapS() *mqtt.VerifClient {
	snap := q.b.Srv.VerifSnapshot()
	for i := range snap.Clients {
		if snap.Clients[i].ID == "s" {
			return &snap.Clients[i]
		}
	}
	return nil
}

func (q *qosRun) dropCount() int64 {
	snap := q.b.Srv.VerifSnapshot()
	return snap.InfoInflightDrop
}

// sPacket converts one packet S received (nil if it is of no interest) and updates S's own bookkeeping.
func (q *qosRun) sPacket(pk packets.Packet) sx.V {
	t := pk.FixedHeader.Type
	switch t {
	case packets.Publish:
		u := uidOf(pk.Payload)
		if pk.FixedHeader.Qos > 0 {
			found := false
			for i := range q.pend {
				if q.pend[i].pid == pk.PacketID {
					found = true
				}
			}
			if !found {
				q.pend = append(q.pend, qPend{pid: pk.PacketID, uid: u, qos: pk.FixedHeader.Qos})
			}
		}
		return sx.L{sx.N(3), sx.N(uint64(pk.PacketID)), sx.Bool(pk.FixedHeader.Dup),
			sx.N(uint64(pk.FixedHeader.Qos)), sx.N(u), sx.N(0)}
	case packets.Puback, packets.Pubrec, packets.Pubrel, packets.Pubcomp, packets.Disconnect:
		if t == packets.Pubrec {
			for i := range q.open2 {
				if q.open2[i].pid == pk.PacketID {
					q.open2[i].rec = true
				}
			}
		}
		return sx.L{sx.N(uint64(t)), sx.N(uint64(pk.PacketID)), sx.N(0), sx.N(0), sx.N(0), sx.N(uint64(pk.ReasonCode))}
	case packets.Connack:
		return sx.L{sx.N(2), sx.N(0), sx.Bool(pk.SessionPresent), sx.N(0), sx.N(0), sx.N(uint64(pk.ReasonCode))}
	}
	return nil
}

// observe drains everything and builds the obs value; cur is the connection whose output is S's.
func (q *qosRun) observe(op sx.L, dropUid uint64) sx.L {
	pkts := sx.L{}
	fwds := sx.L{}
	closed := false
	for _, o := range q.b.Drain() {
		if q.s != nil && o.Conn == q.s.Idx {
			for _, pk := range o.Packets {
				if v := q.sPacket(pk); v != nil {
					pkts = append(pkts, v)
				}
			}
			closed = o.Closed
		}
		if q.r != nil && o.Conn == q.r.Idx {
			for _, pk := range o.Packets {
				if pk.FixedHeader.Type == packets.Publish {
					fwds = append(fwds, sx.N(uidOf(pk.Payload)))
				}
			}
		}
	}
	if q.s != nil && q.s.MC.Closed() {
		closed = true
	}
	// drops: the in-flight limit and identifier exhaustion count in Info.InflightDropped (and, since 17f8a7b, also
	// call OnPublishDropped); a full outbound queue only calls OnPublishDropped
	drops := sx.L{}
	evs := q.b.Rec.Drain()
	nEv := int64(0)
	for _, e := range evs {
		if e.Name == "PublishDropped" && e.Client == "s" {
			nEv++
		}
		if e.Name == "PANIC" {
			fmt.Fprintln(os.Stderr, "PANIC in broker:", e.Extra)
		}
	}
	dc := q.dropCount()
	counted := dc - q.lastDrop
	q.lastDrop = dc
	for n := counted; n > 0; n-- {
		drops = append(drops, sx.N(dropUid))
	}
	for n := nEv - counted; n > 0; n-- {
		drops = append(drops, sx.N(dropUid))
	}
	q.evPos = len(q.b.Rec.All())
	me := q.snapS()
	q.prevSnap = me
	var snap sx.V = sx.L{}
	if me != nil {
		infl := sx.L{}
		for _, r := range me.Inflight {
			u := uint64(0)
			if r.Type == packets.Publish {
				u = uidOf(r.Payload)
			}
			infl = append(infl, sx.L{sx.N(uint64(r.PacketID)), sx.N(uint64(r.Type)), sx.N(uint64(r.Qos)), sx.N(u),
				sx.Bool(r.Expiry < 0)})
		}
		snap = sx.L{sx.Bool(me.Connected), infl, zz(int64(me.SendQuota)), zz(int64(me.RecvQuota)),
			zz(int64(me.MaxSendQuota)), zz(int64(me.MaxRecvQuota)), sx.N(uint64(me.PacketID))}
	}
	if time.Now().Unix() != q.t0 {
		q.straddle = true
	}
	obs := sx.L{pkts, fwds, sx.Bool(closed), drops, snap}
	if q.fault {
		obs = append(obs, sx.N(1)) // every write to S's connection failed during this step
	}
	if q.trace {
		fmt.Fprintf(os.Stderr, "  %s\n     -> %s\n", sx.String(op), sx.String(obs))
	}
	q.steps = append(q.steps, sx.L{op, obs})
	return obs
}

func (q *qosRun) begin() int64 {
	q.t0 = time.Now().Unix()
	return q.t0
}

func (q *qosRun) sConnected() bool {
	return q.s != nil && !q.s.MC.Closed() && !q.s.Done()
}

func (q *qosRun) sSubscribed() bool {
	me := q.snapS()
	return me != nil && len(me.Subscriptions) > 0
}

// connectS opens a new connection for client id "s" (reconnect or takeover).
func (q *qosRun) connectS(v5 bool, clean bool, sei uint32, rm uint16) {
	now := q.begin()
	_ = now
	ver := byte(4)
	if v5 {
		ver = 5
	}
	pk := broker.ConnectPk("s", ver, clean)
	if v5 {
		pk.Properties.ReceiveMaximum = rm
		pk.Properties.SessionExpiryInterval = sei
		pk.Properties.SessionExpiryIntervalFlag = true
	} else {
		rm = 0
		sei = 0
	}
	q.sv5, q.sclean, q.ssei, q.srm = v5, clean, sei, rm
	q.s = q.b.Connect("10.0.0.9:1", pk)
	op := sx.L{sx.N(6), sx.Bool(v5), sx.Bool(clean), sx.N(uint64(sei)), sx.N(uint64(rm))}
	obs := q.observe(op, 0)
	// S's view: a new session forgets everything
	sp := false
	for _, p := range obs[0].(sx.L) {
		l := p.(sx.L)
		if l[0].(sx.N) == 2 && l[2].(sx.N) == 1 {
			sp = true
		}
	}
	if !sp {
		q.pend = nil
		q.open2 = nil
	}
}

func (q *qosRun) subscribeS() {
	q.begin()
	q.b.SendPacket(q.s, broker.SubscribePk(100, packets.Subscription{Filter: "p/#", Qos: q.subqos}))
	q.observe(sx.L{sx.N(4)}, 0)
}

func (q *qosRun) pingS() {
	q.begin()
	q.b.SendPacket(q.s, broker.PingPk())
	q.observe(sx.L{sx.N(4)}, 0)
}

// publishP: publisher k publishes on topic t with qos; emits an OutPublish op when S has a session with a subscription.
func (q *qosRun) publishP(k int, t int, qos byte, mei uint32) {
	if q.sleepy && q.rng.Intn(3) == 0 {
		// let the wall clock move on so that Created stamps differ between messages
		time.Sleep(time.Until(time.Unix(time.Now().Unix()+1, 2e6)))
	}
	now := q.begin()
	q.uid++
	u := q.uid
	deliver := q.sSubscribed()
	payload := strconv.FormatUint(u, 10)
	for len(payload) < q.padTo { // leading zeros keep the uid readable
		payload = "0" + payload
	}
	pk := broker.PublishPk([]string{"p/a", "p/b"}[t], []byte(payload), qos, false, 0)
	if qos > 0 {
		pk.PacketID = 1
	}
	pv5 := k == 0
	if pv5 && mei > 0 {
		pk.Properties.MessageExpiryInterval = mei
	} else {
		mei = 0
	}
	if q.gated {
		// S's write loop is parked: feed without waiting for quiescence, wait for the publisher's handler only.
		// The publisher's own identifier varies so that it collides with identifiers the broker uses towards S.
		if qos > 0 {
			pk.PacketID = uint16(1 + q.rng.Intn(3))
			if q.forcePid > 0 {
				pk.PacketID = q.forcePid
			}
		}
		pk.ProtocolVersion = q.p[k].Version
		data, _ := broker.Encode(pk)
		q.b.Feed(q.p[k], data)
		ok := waitFor(func() bool { return q.p[k].Parked() })
		if ok && qos == 2 {
			rel := broker.AckPk(packets.Pubrel, pk.PacketID, 0)
			rel.ProtocolVersion = q.p[k].Version
			data, _ = broker.Encode(rel)
			q.b.Feed(q.p[k], data)
			ok = waitFor(func() bool { return q.p[k].Parked() })
		}
		if !ok {
			q.b.Hung = true
		}
		q.gatedStep[u] = len(q.steps)
	} else {
		q.b.SendPacket(q.p[k], pk)
		if qos == 2 {
			q.b.SendPacket(q.p[k], broker.AckPk(packets.Pubrel, 1, 0))
		}
	}
	op := sx.L{sx.N(1), sx.N(uint64(qos)), sx.N(uint64(q.subqos)), sx.N(u), sx.N(uint64(k*2 + t)), zz(now),
		sx.N(uint64(mei)), sx.Bool(pv5), sx.N(0)}
	if !deliver {
		// no op for S; still drain so that nothing is attributed to a later step
		q.b.Drain()
		q.b.Rec.Drain()
		q.evPos = len(q.b.Rec.All())
		q.lastDrop = q.dropCount()
		if q.trace {
			fmt.Fprintf(os.Stderr, "  (publish %d not for S)\n", u)
		}
		return
	}
	// queue-full is reconstructed from the PublishDropped event
	evs := q.b.Rec.All()
	nDropEv := int64(0)
	for i := q.evPos; i < len(evs); i++ {
		if evs[i].Name == "PublishDropped" && evs[i].Client == "s" {
			nDropEv++
		}
	}
	qfull := !q.fault && nDropEv > q.dropCount()-q.lastDrop // under fault injection the report means "could not be written"
	if qfull {
		op[8] = sx.N(1)
	}
	q.observe(op, u)
}

// gatedBurst forces the queue-full rollback of publishToClient: S's write loop is parked in WritePacket
// (schedule point write.beforeLock) holding one QoS 0 message, so with MaximumClientWritesPending = 1 the
// first further message fills the outbound queue and every later one takes the `default:` branch of the
// select.  What S receives after the release is attributed to the step that published it (by uid).
func (q *qosRun) gatedBurst(n int) {
	if q.gate == nil || !q.sConnected() || !q.sSubscribed() {
		return
	}
	g := q.gate
	g.mu.Lock()
	g.armed = true
	base := len(g.waiters)
	g.mu.Unlock()
	q.gated = true
	q.publishP(1, 0, 0, 0) // the message the write loop parks with
	parked := waitFor(func() bool { return g.count() == base+1 })
	g.disarm() // later arrivals (the publishers' own acknowledgements) pass
	if parked {
		for i := 0; i < n; i++ {
			if q.forceOne {
				q.publishP(0, 0, 1, 0)
			} else {
				q.publishP(q.rng.Intn(2), q.rng.Intn(2), byte(1+q.rng.Intn(2)), 0)
			}
		}
	} else {
		q.b.Hung = true
	}
	for j := base; j < g.count(); j++ {
		g.release(j)
	}
	q.gated = false
	q.b.Quiesce()
	for _, o := range q.b.Drain() {
		if q.s == nil || o.Conn != q.s.Idx {
			continue
		}
		for _, pk := range o.Packets {
			v := q.sPacket(pk)
			if v == nil || pk.FixedHeader.Type != packets.Publish {
				continue
			}
			if idx, ok := q.gatedStep[uidOf(pk.Payload)]; ok && idx < len(q.steps) {
				step := q.steps[idx].(sx.L)
				obs := step[1].(sx.L)
				obs[0] = append(obs[0].(sx.L), v)
			}
		}
	}
	if q.trace {
		fmt.Fprintf(os.Stderr, "  (gated burst released)\n")
	}
}

// ngate parks goroutines at one named schedule point.
type ngate struct {
	mu      sync.Mutex
	point   string
	limit   int // > 0: park only while fewer than this many are parked (counted from base)
	base    int
	armed   bool
	waiters []chan struct{}
}

func (g *ngate) hook(name string) {
	if name != g.point {
		return
	}
	g.mu.Lock()
	if !g.armed || (g.limit > 0 && len(g.waiters)-g.base >= g.limit) {
		g.mu.Unlock()
		return
	}
	ch := make(chan struct{})
	g.waiters = append(g.waiters, ch)
	g.mu.Unlock()
	<-ch
}
func (g *ngate) count() int { g.mu.Lock(); defer g.mu.Unlock(); return len(g.waiters) }
func (g *ngate) release(i int) {
	g.mu.Lock()
	ch := g.waiters[i]
	g.mu.Unlock()
	close(ch)
}
func (g *ngate) arm(b bool) { g.mu.Lock(); g.armed = b; g.mu.Unlock() }

// schedBurst: forced schedule inside Client.NextPacketID (schedule point nextid.inside, reached with the client lock
// held).  Allocator A (publisher 0 delivering a QoS 1 message to S) is parked inside the critical section; allocators
// B, C (other publishers delivering to S) are started.  Mutual exclusion: none of them may reach the point while A is
// parked (bounded wait).  Then they are let through one at a time, each observed as an ordinary step.  If one DID get
// in (overlap), everything is released at once and the outcome is reported in wire order as a monitor-only history:
// two unacknowledged outbound PUBLISH packets with one identifier are a violation of C10.
// Returns true if the allocators overlapped.
func (q *qosRun) schedBurst(n int) bool {
	g := q.ng
	if g == nil || !q.sConnected() || !q.sSubscribed() {
		return false
	}
	type alloc struct {
		k   int
		uid uint64
		op  sx.L
		idx int
	}
	var as []alloc
	base := g.count()
	g.arm(true)
	start := func(k int) {
		now := q.begin()
		q.uid++
		u := q.uid
		pk := broker.PublishPk("p/a", []byte(strconv.FormatUint(u, 10)), 1, false, uint16(1+q.rng.Intn(3)))
		pk.ProtocolVersion = q.p[k].Version
		data, _ := broker.Encode(pk)
		q.b.Feed(q.p[k], data)
		op := sx.L{sx.N(1), sx.N(1), sx.N(uint64(q.subqos)), sx.N(u), sx.N(uint64(k * 2)), zz(now), sx.N(0), sx.Bool(k == 0), sx.N(0)}
		as = append(as, alloc{k: k, uid: u, op: op})
	}
	start(0)
	if !waitFor(func() bool { return g.count() == base+1 }) {
		q.b.Hung = true
		g.arm(false)
		return false
	}
	for k := 1; k < n; k++ {
		start(k)
	}
	// does anybody else get inside while A is parked there?
	deadline := time.Now().Add(30 * time.Millisecond)
	for time.Now().Before(deadline) && g.count() == base+1 {
		time.Sleep(200 * time.Microsecond)
	}
	overlap := g.count() > base+1
	if overlap {
		g.arm(false)
		for j := base; j < g.count(); j++ {
			g.release(j)
		}
		q.b.Quiesce()
		q.monitorOnly = true
		for i, a := range as {
			if i < len(as)-1 {
				// state and packets are only known at the end
				q.b.Rec.Drain()
				me := q.snapS()
				_ = me
				q.steps = append(q.steps, sx.L{a.op, sx.L{sx.L{}, sx.L{}, sx.N(0), sx.L{}, q.snapSx()}})
			} else {
				obs := q.observe(a.op, a.uid)
				// the schedule-level observation: a second allocator was inside the critical section
				step := q.steps[len(q.steps)-1].(sx.L)
				step[1] = append(obs, sx.N(0), sx.N(1))
			}
		}
		return true
	}
	// mutual exclusion held: one allocator after the other (which one gets in next is the runtime's choice)
	released := base
	pending := map[int]bool{}
	for i := range as {
		pending[i] = true
	}
	for len(pending) > 0 {
		g.release(released)
		released++
		last := len(pending) == 1
		if last {
			g.arm(false)
		}
		// the allocator that was inside finishes: its publisher's handler becomes idle; the next one parks inside
		done := -1
		ok := waitFor(func() bool {
			for i := range pending {
				if q.p[as[i].k].Parked() {
					done = i
					return last || g.count() == released+1
				}
			}
			return false
		})
		if !ok {
			q.b.Hung = true
			g.arm(false)
			for j := released; j < g.count(); j++ {
				g.release(j)
			}
			return false
		}
		delete(pending, done)
		q.gatedStep[as[done].uid] = len(q.steps)
		if last {
			q.b.Quiesce()
			// everything S received during the block, attributed to the step that published it
			var late []packets.Packet
			for _, o := range q.b.Drain() {
				if q.s != nil && o.Conn == q.s.Idx {
					late = append(late, o.Packets...)
				}
			}
			q.observe(as[done].op, as[done].uid)
			for _, pk := range late {
				v := q.sPacket(pk)
				if v == nil || pk.FixedHeader.Type != packets.Publish {
					continue
				}
				if idx, ok := q.gatedStep[uidOf(pk.Payload)]; ok && idx < len(q.steps) {
					step := q.steps[idx].(sx.L)
					obs := step[1].(sx.L)
					obs[0] = append(obs[0].(sx.L), v)
				}
			}
		} else {
			q.steps = append(q.steps, sx.L{as[done].op, sx.L{sx.L{}, sx.L{}, sx.N(0), sx.L{}, q.snapSx()}})
			q.b.Rec.Drain()
			q.evPos = len(q.b.Rec.All())
		}
	}
	return false
}

// snapSx is S's snapshot in case format.
func (q *qosRun) snapSx() sx.V {
	me := q.snapS()
	if me == nil {
		return sx.L{}
	}
	infl := sx.L{}
	for _, r := range me.Inflight {
		u := uint64(0)
		if r.Type == packets.Publish {
			u = uidOf(r.Payload)
		}
		infl = append(infl, sx.L{sx.N(uint64(r.PacketID)), sx.N(uint64(r.Type)), sx.N(uint64(r.Qos)), sx.N(u), sx.Bool(r.Expiry < 0)})
	}
	return sx.L{sx.Bool(me.Connected), infl, zz(int64(me.SendQuota)), zz(int64(me.RecvQuota)),
		zz(int64(me.MaxSendQuota)), zz(int64(me.MaxRecvQuota)), sx.N(uint64(me.PacketID))}
}

// faultyDeliver: the write loop cannot write a QUEUED delivery to S (MemConn.WriteErr while another client publishes
// to S): publishToClient has recorded the message and taken its quota; nothing may be rolled back.  Then the
// connection is dropped and the session resumed: the message must be redelivered.
func (q *qosRun) faultyDeliver(c qosCfg, qos byte) {
	if !q.sConnected() || !q.sSubscribed() {
		return
	}
	q.fault = true
	q.s.MC.WriteErr = io.ErrClosedPipe
	q.publishP(q.rng.Intn(2), q.rng.Intn(2), qos, 0)
	q.fault = false
	if q.sConnected() {
		q.disconnectS(false)
	}
	q.reconnect(c, false)
}

// quotaSched: forced schedule across publishToClient's queue-full rollback.  S's write loop is parked (write.beforeLock)
// holding a QoS 0 message, the outbound queue (capacity 1) is empty.  Delivery A (QoS 1) is parked at schedule point
// publish.afterAlias: it has recorded its message and taken a unit of send quota.  Delivery B (QoS 1) runs through and
// fills the queue.  A is released, finds the queue full and rolls back: its own unit must come back, not B's.  Then the
// write loop is released.  The history is reported in wire order (monitor-only); the following ordinary publishes show
// on the wire whether more QoS 1/2 PUBLISH packets are in transit than the client's receive maximum.
func (q *qosRun) quotaSched() {
	if q.wl == nil || !q.sConnected() || !q.sSubscribed() {
		return
	}
	mkop := func(k int, qos byte, u uint64, now int64, qfull bool) sx.L {
		return sx.L{sx.N(1), sx.N(uint64(qos)), sx.N(uint64(q.subqos)), sx.N(u), sx.N(uint64(k * 2)), zz(now), sx.N(0),
			sx.Bool(k == 0), sx.Bool(qfull)}
	}
	feed := func(k int, qos byte) (uint64, int64) {
		now := q.begin()
		q.uid++
		pk := broker.PublishPk("p/a", []byte(strconv.FormatUint(q.uid, 10)), qos, false, 0)
		if qos > 0 {
			pk.PacketID = 1
		}
		pk.ProtocolVersion = q.p[k].Version
		data, _ := broker.Encode(pk)
		q.b.Feed(q.p[k], data)
		return q.uid, now
	}
	wl, pa := q.wl, q.pa
	wl.mu.Lock()
	wl.base, wl.limit, wl.armed = len(wl.waiters), 1, true
	wl.mu.Unlock()
	u0, n0 := feed(2, 0) // the message the write loop parks with
	ok := waitFor(func() bool { return wl.count() == wl.base+1 && q.p[2].Parked() })
	pa.mu.Lock()
	pa.base, pa.limit, pa.armed = len(pa.waiters), 1, true
	pa.mu.Unlock()
	var uA, uB uint64
	var nA, nB int64
	if ok {
		uA, nA = feed(0, 1)
		ok = waitFor(func() bool { return pa.count() == pa.base+1 }) // A parked between quota and queue
	}
	if ok {
		uB, nB = feed(1, 1)
		ok = waitFor(func() bool { return q.p[1].Parked() }) // B went through and is queued
	}
	pa.arm(false)
	for j := pa.base; j < pa.count(); j++ {
		pa.release(j)
	}
	if ok {
		ok = waitFor(func() bool { return q.p[0].Parked() }) // A has met the full queue and rolled back
	}
	wl.arm(false)
	for j := wl.base; j < wl.count(); j++ {
		wl.release(j)
	}
	q.b.Quiesce()
	if !ok {
		q.b.Hung = true
		return
	}
	q.monitorOnly = true
	// was A really dropped?  (if the schedule did not produce the rollback the history is still a valid observation)
	dropped := false
	evs := q.b.Rec.All()
	for i := q.evPos; i < len(evs); i++ {
		if evs[i].Name == "PublishDropped" && evs[i].Client == "s" && uidOf(evs[i].Pk.Payload) == uA {
			dropped = true
		}
	}
	empty := func() sx.L { return sx.L{sx.L{}, sx.L{}, sx.N(0), sx.L{}, q.snapSx()} }
	q.steps = append(q.steps, sx.L{mkop(2, 0, u0, n0, false), empty()})
	oa := empty()
	if dropped {
		oa[3] = sx.L{sx.N(uA)}
	}
	q.steps = append(q.steps, sx.L{mkop(0, 1, uA, nA, dropped), oa})
	q.lastDrop = q.dropCount()
	q.observe(mkop(1, 1, uB, nB, false), 0) // everything S received, in wire order
	step := q.steps[len(q.steps)-1].(sx.L)
	step[1].(sx.L)[3] = sx.L{} // the drop report belongs to A's step
}

// faulty runs one client step f with every write to S's connection failing (MemConn.WriteErr: broken pipe at the
// moment the broker answers), then drops the connection if the broker has not done so and reconnects with clean
// start 0.  The broker has read and handled the client's packet (the step waits for quiescence); only its
// answer is lost.
func (q *qosRun) faulty(c qosCfg, f func()) {
	if !q.sConnected() {
		return
	}
	q.fault = true
	q.s.MC.WriteErr = io.ErrClosedPipe
	f()
	q.fault = false
	if q.sConnected() {
		q.disconnectS(false)
	}
	q.reconnect(c, false)
}

// wbufBurst: one publisher, one topic, one QoS, payload sizes around the write-buffer size, all queued for S while
// its write loop is parked, so that the loop then runs with a non-empty queue and goes through WritePacket's
// buffering branches.  What S receives is reported in WIRE ORDER in one closing step (these histories are judged by
// the C12 monitor only; the component model has no write-buffer stage).
func (q *qosRun) wbufBurst() {
	if q.gate == nil || !q.sConnected() || !q.sSubscribed() {
		return
	}
	g := q.gate
	g.mu.Lock()
	g.armed = true
	base := len(g.waiters)
	g.mu.Unlock()
	q.gated = true
	q.padTo = 0
	q.publishP(1, 1, 0, 0) // another publisher / topic: the message the write loop parks with
	parked := waitFor(func() bool { return g.count() == base+1 })
	g.disarm()
	if parked {
		qos := byte(q.rng.Intn(3))
		n := 3 + q.rng.Intn(3)
		w := q.wbuf
		sizes := []int{0, 0, w / 2, w - 20, w - 8, w, w + 10, 2 * w}
		big := q.rng.Intn(n-1) + 1 // at least one packet of a buffer's size behind a small one
		for i := 0; i < n; i++ {
			q.padTo = sizes[q.rng.Intn(len(sizes))]
			if i == 0 {
				q.padTo = 0
			}
			if i == big {
				q.padTo = w + q.rng.Intn(w)
			}
			q.publishP(0, 0, qos, 0)
		}
		q.padTo = 0
	} else {
		q.b.Hung = true
	}
	for j := base; j < g.count(); j++ {
		g.release(j)
	}
	q.gated = false
	q.begin()
	q.b.Quiesce()
	q.observe(sx.L{sx.N(4)}, 0) // everything S received, in wire order
	for guard := 0; len(q.pend) > 0 && guard < 40 && q.sConnected(); guard++ {
		q.ackNext(0, 0)
	}
}

// publishS: S publishes with an identifier of its choice.
func (q *qosRun) publishS(qos byte, pid uint16, dup bool, uid uint64) {
	now := q.begin()
	if uid == 0 {
		q.uid++
		uid = q.uid
	}
	if qos == 0 {
		pid = 0
	}
	pk := broker.PublishPk("s/t", []byte(strconv.FormatUint(uid, 10)), qos, false, pid)
	pk.FixedHeader.Dup = dup
	q.b.SendPacket(q.s, pk)
	if qos == 2 && !dup {
		q.open2 = append(q.open2, qOpen{pid: pid, uid: uid})
	}
	q.observe(sx.L{sx.N(2), sx.N(uint64(qos)), sx.N(uint64(pid)), sx.Bool(dup), sx.N(uid), zz(now)}, 0)
}

func (q *qosRun) ackS(ty byte, pid uint16, rc byte) {
	now := q.begin()
	if !q.sv5 {
		rc = 0
	}
	q.b.SendPacket(q.s, broker.AckPk(ty, pid, rc))
	// S's view
	switch ty {
	case packets.Puback:
		for i := range q.pend {
			if q.pend[i].pid == pid && q.pend[i].qos == 1 {
				q.pend = append(q.pend[:i:i], q.pend[i+1:]...)
				break
			}
		}
	case packets.Pubrec:
		for i := range q.pend {
			if q.pend[i].pid == pid && q.pend[i].qos == 2 {
				if rc >= 0x80 {
					q.pend = append(q.pend[:i:i], q.pend[i+1:]...)
				} else {
					q.pend[i].phase = 1
				}
				break
			}
		}
	case packets.Pubcomp:
		for i := range q.pend {
			if q.pend[i].pid == pid && q.pend[i].qos == 2 && q.pend[i].phase == 1 {
				q.pend = append(q.pend[:i:i], q.pend[i+1:]...)
				break
			}
		}
	case packets.Pubrel:
		for i := range q.open2 {
			if q.open2[i].pid == pid {
				q.open2 = append(q.open2[:i:i], q.open2[i+1:]...)
				break
			}
		}
	}
	q.observe(sx.L{sx.N(3), sx.N(uint64(ty)), sx.N(uint64(pid)), sx.N(uint64(rc)), zz(now)}, 0)
}

func (q *qosRun) disconnectS(graceful bool) {
	q.begin()
	if graceful {
		q.b.SendPacket(q.s, broker.DisconnectPk(0))
	} else {
		q.b.NetClose(q.s)
	}
	q.observe(sx.L{sx.N(5), sx.Bool(graceful)}, 0)
	if (q.sv5 && q.ssei == 0) || (!q.sv5 && q.sclean) {
		q.pend = nil
		q.open2 = nil
	}
}

func (q *qosRun) expire(offset int64) {
	now := q.begin()
	q.b.Tick("inflight", now+offset)
	q.observe(sx.L{sx.N(7), zz(now + offset)}, 0)
}

// ackNext sends the acknowledgement S owes for pend[i].
func (q *qosRun) ackNext(i int, rc byte) {
	p := q.pend[i]
	switch {
	case p.qos == 1:
		q.ackS(packets.Puback, p.pid, 0)
	case p.phase == 0:
		q.ackS(packets.Pubrec, p.pid, rc)
	default:
		q.ackS(packets.Pubcomp, p.pid, 0)
	}
}

func (q *qosRun) freshPid() uint16 {
	for {
		q.nextPid++
		if q.nextPid == 0 {
			q.nextPid = 1
		}
		used := false
		for _, o := range q.open2 {
			if o.pid == q.nextPid {
				used = true
			}
		}
		if !used {
			return q.nextPid
		}
	}
}

type qosCfg struct {
	maxpid  uint32
	maxinfl uint16
	srvrm   uint16
	v5      bool
	clean   bool
	sei     uint32
	rm      uint16
	subqos  byte
	script  string
	steps   int
	sleepy  bool
	faults  bool   // random steps include client packets whose answer cannot be written
	sched   int    // > 0: forced schedules inside NextPacketID with this many concurrent allocators
	qsched  bool   // forced schedules across the queue-full rollback (C11)
	gate    bool   // MaximumClientWritesPending = 1 and forced queue-full bursts
	wbuf    int    // > 0: write-buffer bursts with this ClientNetWriteBufferSize (monitor-only histories)
	word    []byte // exhaustive stream: a word over the symbolic alphabet a..g
}

// runHistory runs one history and returns its case (nil if a step straddled a second boundary or the broker hung).
func runQosHistory(seed int64, c qosCfg, trace bool) sx.V {
	caps := mqtt.NewDefaultServerCapabilities()
	caps.ReceiveMaximum = c.srvrm
	caps.MaximumInflight = c.maxinfl
	var g *gate
	if c.qsched {
		caps.MaximumClientWritesPending = 1
	}
	if c.gate {
		caps.MaximumClientWritesPending = 1
		g = &gate{}
		mqtt.VerifPointHook = g.hook
	} else if c.wbuf > 0 {
		g = &gate{}
		mqtt.VerifPointHook = g.hook
	} else if c.sched > 0 || c.qsched {
		mqtt.VerifPointHook = nil
	} else {
		mqtt.VerifPointHook = nil
	}
	b := broker.New(broker.Opts{Caps: caps, Auth: broker.AllowAuth, ACL: broker.AllowACL, MaxPacketID: c.maxpid,
		WriteBufferSize: c.wbuf})
	defer b.Shutdown()
	q := &qosRun{rng: rand.New(rand.NewSource(seed)), b: b, subqos: c.subqos, trace: trace, myuid: map[uint64][]byte{},
		sleepy: c.sleepy, gate: g, gatedStep: map[uint64]int{}, wbuf: c.wbuf}
	if trace {
		fmt.Fprintf(os.Stderr, "history seed=%d cfg=%+v\n", seed, c)
	}
	q.p[0] = b.Connect("10.0.0.1:1", broker.ConnectPk("p0", 5, true))
	q.p[1] = b.Connect("10.0.0.2:1", broker.ConnectPk("p1", 4, true))
	q.p[2] = b.Connect("10.0.0.4:1", broker.ConnectPk("p2", 4, true))
	q.r = b.Connect("10.0.0.3:1", broker.ConnectPk("r", 4, true))
	b.SendPacket(q.r, broker.SubscribePk(1, packets.Subscription{Filter: "s/#", Qos: 0}))
	b.Drain()
	b.Rec.Drain()
	q.connectS(c.v5, c.clean, c.sei, c.rm)
	q.subscribeS()
	q.runScript(c)
	if c.qsched {
		q.wl = &ngate{point: "write.beforeLock"}
		q.pa = &ngate{point: "publish.afterAlias"}
		mqtt.VerifPointHook = func(name string) { q.wl.hook(name); q.pa.hook(name) }
		for j := q.rng.Intn(2); j > 0; j-- {
			q.publishP(q.rng.Intn(2), 0, 1, 0)
		}
		q.quotaSched()
		for j := 0; j < 5 && !b.Hung; j++ { // ordinary deliveries: how many reach the wire unacknowledged?
			q.publishP(q.rng.Intn(2), 0, byte(1+q.rng.Intn(2)), 0)
		}
	}
	if c.sched > 0 {
		q.ng = &ngate{point: "nextid.inside"}
		mqtt.VerifPointHook = q.ng.hook
		for i := 0; i < 3 && !b.Hung; i++ {
			for j := q.rng.Intn(3); j > 0; j-- { // some unacknowledged traffic before, so that ids differ
				q.publishP(q.rng.Intn(2), 0, 1, 0)
			}
			if q.schedBurst(c.sched) {
				break
			}
			// acknowledge (almost) everything: identifiers must not run out in these histories
			for keep := q.rng.Intn(2); len(q.pend) > keep && q.sConnected(); {
				q.ackNext(0, 0)
			}
		}
	}
	for i := 0; c.wbuf > 0 && i < 4 && !b.Hung; i++ {
		q.wbufBurst()
	}
	for _, sym := range c.word {
		q.symbolic(c, sym)
	}
	for i := 0; i < c.steps && !b.Hung; i++ {
		q.randomStep(c)
	}
	if b.Hung {
		fmt.Fprintln(os.Stderr, "broker hung in history seed", seed)
		return nil
	}
	if q.straddle {
		return nil
	}
	cfg := sx.L{sx.N(uint64(c.maxpid)), sx.N(uint64(c.maxinfl)), sx.N(uint64(c.srvrm)),
		sx.N(uint64(caps.MaximumMessageExpiryInterval))}
	if c.wbuf > 0 || q.monitorOnly {
		cfg = append(cfg, sx.N(1)) // monitor-only history
	}
	return sx.L{cfg, q.steps}
}

func (q *qosRun) reconnect(c qosCfg, clean bool) {
	// mostly keep the connect parameters, sometimes change receive maximum / version
	v5, sei, rm := c.v5, c.sei, c.rm
	if q.rng.Intn(6) == 0 {
		rm = uint16(1 + q.rng.Intn(4))
	}
	q.connectS(v5, clean, sei, rm)
	if !q.sSubscribed() {
		q.subscribeS()
	}
}

// the scripted prefixes reproduce the listed defects deterministically (witnesses)
func (q *qosRun) runScript(c qosCfg) {
	switch c.script {
	case "c08": // retransmission before PUBREL
		q.publishS(2, 5, false, 0)
		q.publishS(2, 5, true, q.open2[0].uid)
		q.ackS(packets.Pubrel, 5, 0)
	case "c08r": // retransmission after reconnecting with the session
		q.publishS(2, 5, false, 0)
		u := q.open2[0].uid
		q.disconnectS(false)
		q.reconnect(c, false)
		q.publishS(2, 5, true, u)
		q.ackS(packets.Pubrel, 5, 0)
	case "c09": // deferred send deletes the record
		q.publishP(0, 0, 1, 0)
		q.publishP(0, 0, 1, 0)
		if len(q.pend) > 0 {
			q.ackNext(0, 0)
		}
		q.disconnectS(false)
		q.reconnect(c, false)
	case "c10a": // S's own publish reuses an identifier the broker is using
		q.publishP(0, 0, 1, 0)
		q.publishS(1, 1, false, 0)
		q.disconnectS(false)
		q.reconnect(c, false)
	case "c10b": // acknowledgement acts on the other direction's record
		q.publishP(0, 0, 1, 0)
		q.publishS(2, 1, false, 0)
		q.ackS(packets.Puback, 1, 0)
		q.ackS(packets.Pubrel, 1, 0)
	case "c10c": // S's PUBREL completes the broker's outbound message
		q.publishP(0, 0, 2, 0)
		q.ackS(packets.Pubrel, 1, 0)
	case "c11a": // PUBREC for an outbound message consumes receive quota
		q.publishP(0, 0, 2, 0)
		if len(q.pend) > 0 {
			q.ackNext(0, 0)
		}
		q.publishS(1, 7, false, 0)
	case "c11b": // PUBREL of S's own publish raises the send quota
		q.publishP(0, 0, 1, 0)
		q.publishS(2, 9, false, 0)
		q.ackS(packets.Pubrel, 9, 0)
		q.publishP(0, 0, 1, 0)
	case "c11c": // resume resets the quotas
		q.publishP(0, 0, 1, 0)
		q.disconnectS(false)
		q.reconnect(c, false)
		q.publishP(0, 0, 1, 0)
	case "c11d": // starvation after a deferred send
		q.publishP(0, 0, 1, 0)
		q.publishP(0, 0, 1, 0)
		for len(q.pend) > 0 {
			q.ackNext(0, 0)
		}
		q.publishP(0, 0, 1, 0)
		q.pingS()
	case "c11e": // QoS 0 publish at the limit
		q.publishS(2, 3, false, 0)
		q.publishS(0, 0, false, 0)
	case "c11f": // retransmission at the limit
		q.publishS(2, 3, false, 0)
		q.publishS(2, 3, true, q.open2[0].uid)
	case "c11g": // after PUBREC 0x91 the client gives the exchange up, the broker keeps its unit of receive quota
		q.publishS(2, 3, false, 0)
		q.publishS(2, 3, true, q.open2[0].uid)
		q.publishS(2, 4, false, 0)
		q.publishS(1, 5, false, 0)
	case "c11h": // an own exchange removed by the acknowledgement of a broker id never returns its unit
		q.publishP(0, 0, 1, 0)
		q.publishS(2, 1, false, 0)
		q.ackS(packets.Puback, 1, 0)
		q.ackS(packets.Pubrel, 1, 0)
		q.publishS(1, 7, false, 0)
	case "c10d": // an identifier is handed out again while the released held-back message is unacknowledged
		q.publishP(0, 0, 1, 0)
		q.publishP(0, 0, 1, 0)
		q.ackS(packets.Puback, 1, 0)
		q.disconnectS(false)
		q.reconnect(c, false)
		q.publishP(0, 0, 1, 0)
		q.publishP(0, 0, 1, 0)
		q.ackS(packets.Puback, 1, 0)
	case "c09f": // the PUBREL answering S's PUBREC cannot be written: the session must still hold (and resend) PUBREL
		q.publishP(0, 0, 2, 0)
		if len(q.pend) > 0 {
			q.faulty(c, func() { q.ackNext(0, 0) })
		}
		for i := 0; i < 2 && len(q.pend) > 0; i++ {
			q.ackNext(0, 0)
		}
	case "c09h": // the write loop cannot write a queued QoS 1 delivery: it stays in the session and is redelivered
		q.faultyDeliver(c, 1)
		for len(q.pend) > 0 {
			q.ackNext(0, 0)
		}
	case "c09i": // the same for QoS 2
		q.faultyDeliver(c, 2)
		q.faultyDeliver(c, 1)
	case "c09g": // the PUBCOMP answering S's PUBREL cannot be written
		q.publishS(2, 5, false, 0)
		q.faulty(c, func() { q.ackS(packets.Pubrel, 5, 0) })
		q.ackS(packets.Pubrel, 5, 0)
	case "c08f": // the PUBREC answering S's QoS 2 PUBLISH cannot be written: recorded, never forwarded
		q.faulty(c, func() { q.publishS(2, 5, false, 0) })
		if len(q.open2) > 0 {
			q.publishS(2, 5, true, q.open2[0].uid)
			q.ackS(packets.Pubrel, 5, 0)
		}
	case "c08q": // queue-full rollback while the publisher's identifier equals the identifier of S's own open QoS 2 exchange
		q.publishS(2, 2, false, 0)
		q.forcePid = 2
		q.gatedBurst(3)
		q.forcePid = 0
		if len(q.open2) > 0 {
			q.publishS(2, 2, true, q.open2[0].uid)
			q.ackS(packets.Pubrel, 2, 0)
		}
	case "c12q": // a delivery dropped on a full queue must be gone: not first transmitted by a later resend, after later messages
		q.forcePid, q.forceOne = 7, true
		q.gatedBurst(3)
		q.forcePid, q.forceOne = 0, false
		q.publishP(0, 0, 1, 0)
		q.disconnectS(false)
		q.reconnect(c, false)
	case "c10q": // queue-full rollback while the publisher's identifier collides with one in flight to S
		q.publishP(0, 0, 1, 0)
		q.publishP(0, 0, 2, 0)
		q.publishP(0, 0, 1, 0)
		q.gatedBurst(4)
		q.disconnectS(false)
		q.reconnect(c, false)
	case "c12a": // deferred messages leave in arbitrary order
		q.publishP(0, 0, 1, 0)
		q.publishP(0, 0, 1, 0)
		q.publishP(0, 0, 1, 0)
		q.publishP(0, 0, 1, 0)
		for i := 0; i < 4 && len(q.pend) > 0; i++ {
			q.ackNext(0, 0)
		}
	case "c12b": // messages queued while offline are resent in arbitrary order
		q.disconnectS(false)
		q.publishP(0, 0, 1, 0)
		q.publishP(0, 0, 1, 0)
		q.publishP(0, 0, 1, 0)
		q.reconnect(c, false)
	}
}

// symbolic executes one letter of the small alphabet of the exhaustive stream.
func (q *qosRun) symbolic(c qosCfg, sym byte) {
	if !q.sConnected() {
		q.reconnect(c, false)
		return
	}
	switch sym {
	case 'a':
		q.publishP(0, 0, 1, 0)
	case 'b':
		q.publishP(0, 0, 2, 0)
	case 'c':
		if len(q.pend) > 0 {
			q.ackNext(0, 0)
		} else {
			q.pingS()
		}
	case 'd':
		pid := q.freshPid()
		if len(q.pend) > 0 {
			pid = q.pend[0].pid
		}
		for _, o := range q.open2 {
			if o.pid == pid {
				pid = q.freshPid()
			}
		}
		q.publishS(1, pid, false, 0)
	case 'e':
		if len(q.open2) > 0 {
			q.publishS(2, q.open2[0].pid, true, q.open2[0].uid)
		} else {
			q.publishS(2, q.freshPid(), false, 0)
		}
	case 'f':
		if len(q.open2) > 0 {
			q.ackS(packets.Pubrel, q.open2[0].pid, 0)
		} else {
			q.pingS()
		}
	case 'g':
		q.disconnectS(false)
		q.reconnect(c, false)
	}
}

func (q *qosRun) randomStep(c qosCfg) {
	r := q.rng
	if c.faults && q.sConnected() && r.Intn(8) == 0 {
		// a client packet whose answer the broker fails to write
		switch k := r.Intn(7); {
		case k < 3 && len(q.pend) > 0:
			q.faulty(c, func() { q.ackNext(r.Intn(len(q.pend)), 0) })
		case k < 4 && len(q.open2) > 0:
			o := q.open2[r.Intn(len(q.open2))]
			q.faulty(c, func() { q.ackS(packets.Pubrel, o.pid, 0) })
		case k < 5:
			q.faulty(c, func() { q.publishS(byte(1+r.Intn(2)), q.freshPid(), false, 0) })
		case k < 6:
			q.faultyDeliver(c, byte(r.Intn(3)))
		default:
			q.faulty(c, func() { q.pingS() })
		}
		return
	}
	if !q.sConnected() {
		switch k := r.Intn(10); {
		case k < 4:
			q.publishP(r.Intn(2), r.Intn(2), byte(r.Intn(3)), 0)
		case k < 5:
			q.reconnect(c, true)
		default:
			q.reconnect(c, false)
		}
		return
	}
	switch k := r.Intn(100); {
	case k < 30: // a publisher publishes
		mei := uint32(0)
		if r.Intn(8) == 0 {
			mei = 5
		}
		q.publishP(r.Intn(2), r.Intn(2), byte(r.Intn(3)), mei)
	case k < 55: // S acknowledges
		if len(q.pend) == 0 {
			q.pingS()
			return
		}
		i := 0
		switch r.Intn(3) {
		case 1:
			i = len(q.pend) - 1
		case 2:
			i = r.Intn(len(q.pend))
		}
		rc := byte(0)
		if r.Intn(12) == 0 {
			rc = 0x80
		}
		q.ackNext(i, rc)
	case k < 70: // S publishes
		qos := byte(r.Intn(3))
		pid := q.freshPid()
		if r.Intn(2) == 0 && len(q.pend) > 0 {
			pid = q.pend[r.Intn(len(q.pend))].pid // collide with an identifier the broker is using
		} else if r.Intn(4) == 0 {
			pid = uint16(1 + r.Intn(4))
		}
		for _, o := range q.open2 {
			if o.pid == pid { // never reuse the id of an own open exchange for a new message
				pid = 0
			}
		}
		if pid == 0 && qos > 0 {
			pid = q.freshPid()
		}
		q.publishS(qos, pid, false, 0)
	case k < 78: // S retransmits an own QoS 2 publish before PUBREL
		if len(q.open2) == 0 {
			q.pingS()
			return
		}
		o := q.open2[r.Intn(len(q.open2))]
		q.publishS(2, o.pid, true, o.uid)
	case k < 86: // S releases an own QoS 2 publish
		if len(q.open2) == 0 {
			q.pingS()
			return
		}
		o := q.open2[r.Intn(len(q.open2))]
		if !o.rec && r.Intn(8) != 0 { // a PUBREL normally follows the PUBREC
			q.publishS(2, o.pid, true, o.uid)
			return
		}
		q.ackS(packets.Pubrel, o.pid, 0)
	case k < 89: // an acknowledgement with a stray identifier / of the wrong kind
		ty := []byte{packets.Puback, packets.Pubrec, packets.Pubrel, packets.Pubcomp}[r.Intn(4)]
		pid := uint16(1 + r.Intn(5))
		q.ackS(ty, pid, 0)
	case k < 91:
		if q.gate != nil {
			q.gatedBurst(1 + r.Intn(4))
		} else {
			q.pingS()
		}
	case k < 95:
		q.disconnectS(r.Intn(3) == 0)
	case k < 98: // takeover: a second connection with the same client id
		q.reconnect(c, r.Intn(5) == 0)
	default:
		if r.Intn(2) == 0 {
			q.expire(10)
		} else {
			q.expire(86400 + 100)
		}
	}
}

func engQos(seed int64, tier string, args []string, out *sx.Out) {
	trace := false
	only := ""
	wbuf := false
	sched := false
	qsched := false
	for _, a := range args {
		if a == "trace" {
			trace = true
		} else if a == "qsched" {
			qsched = true // C11 only: forced schedules across the queue-full rollback
		} else if a == "sched" {
			sched = true // C10 only: forced schedules inside NextPacketID
		} else if a == "wbuf" {
			wbuf = true // C12 only: write-buffer bursts, judged by the monitor alone
		} else {
			only = a
		}
	}
	rng := rand.New(rand.NewSource(seed))
	scripts := []string{"c08", "c08r", "c08f", "c09", "c09f", "c09g", "c09h", "c09i", "c10a", "c10b", "c10c", "c10d", "c11a", "c11b", "c11c", "c11d", "c11e", "c11f",
		"c11g", "c11h", "c12a", "c12b"}
	nrandom := 230
	if tier == "thorough" {
		nrandom = 6000
	}
	emit := func(c qosCfg) {
		for try := 0; try < 4; try++ {
			v := runQosHistory(rng.Int63(), c, trace)
			if v != nil {
				out.Case(v)
				return
			}
		}
	}
	base := qosCfg{maxpid: 8, maxinfl: 8192, srvrm: 1, v5: true, sei: 300, rm: 1, subqos: 2}
	// witnesses: each scripted prefix alone, then followed by random steps
	for _, s := range scripts {
		if only != "" && only != s {
			continue
		}
		reps := 1
		if s == "c12a" || s == "c12b" {
			reps = 6
		}
		for i := 0; i < reps; i++ {
			c := base
			c.script = s
			if s == "c12a" || s == "c12b" || s == "c09" {
				c.srvrm = 4
			}
			if s == "c08" || s == "c08r" || s == "c11g" || s == "c08f" || s == "c09f" || s == "c09g" || s == "c09h" || s == "c09i" {
				c.srvrm = 2
			}
			if s == "c10d" {
				c.maxpid = 2
			}
			emit(c)
			c.steps = 12
			emit(c)
		}
	}
	if qsched {
		nq := 12
		if tier == "thorough" {
			nq = 150
		}
		for i := 0; i < nq && (only == "" || only == "qs"); i++ {
			c := base
			c.maxpid, c.srvrm, c.rm, c.qsched = 65535, 4, uint16(3+i%2), true // room for A and B; 5 more deliveries reach the limit
			emit(c)
		}
	}
	if sched {
		ns := 12
		if tier == "thorough" {
			ns = 150
		}
		for i := 0; i < ns && (only == "" || only == "sch"); i++ {
			c := base
			c.maxpid, c.srvrm, c.rm = []uint32{16, 65535, 8}[i%3], 4, uint16(20*(i%2))
			c.sched = 2 + i%2
			if i%5 == 4 {
				c.v5, c.sei, c.rm = false, 0, 0
			}
			emit(c)
		}
	}
	if wbuf {
		nw := 12
		if tier == "thorough" {
			nw = 200
		}
		for i := 0; i < nw && (only == "" || only == "wb"); i++ {
			c := base
			c.maxpid, c.srvrm, c.rm = 65535, 4, 0
			c.wbuf = []int{64, 128, 256, 2048}[i%4]
			if i%5 == 4 {
				c.v5, c.sei = false, 0
			}
			emit(c)
		}
	}
	// fault injection inside random histories
	nf := 16
	if tier == "thorough" {
		nf = 400
	}
	for i := 0; i < nf && only == ""; i++ {
		c := qosCfg{maxpid: 8, maxinfl: 8192, srvrm: uint16(2 + rng.Intn(3)), v5: i%4 != 3, sei: 300,
			rm: uint16(2 + rng.Intn(3)), subqos: 2, steps: 30, faults: true}
		if !c.v5 {
			c.sei, c.rm = 0, 0
		}
		emit(c)
	}
	// forced queue-full (write loop parked, outbound queue of one): scripted, then inside random histories
	nq := 6
	if tier == "thorough" {
		nq = 120
	}
	for _, sc := range []string{"c08q", "c12q", "c08q", "c12q"} {
		if only != "" && only != sc {
			continue
		}
		c := base
		c.srvrm, c.rm, c.gate, c.script = 4, 20, true, sc
		emit(c)
	}
	for i := 0; i < nq && (only == "" || only == "c10q"); i++ {
		c := base
		c.srvrm, c.rm, c.gate, c.script = 4, uint16(20*(i%2)), true, "c10q" // quota left: the burst reaches the queue
		if i%3 != 0 {
			c.steps = 15
		}
		if i%3 == 2 {
			c.maxpid = 6
		}
		emit(c)
	}
	if only != "" {
		return
	}
	// exhaustive stream: every word of length wlen over the alphabet a..g (receive maxima 1 / 2)
	wlen := 3
	if tier == "thorough" {
		wlen = 4
	}
	total := 1
	for i := 0; i < wlen; i++ {
		total *= 7
	}
	for n := 0; n < total; n++ {
		w := make([]byte, wlen)
		for i, m := 0, n; i < wlen; i, m = i+1, m/7 {
			w[i] = byte('a' + m%7)
		}
		c := base
		c.srvrm, c.word = 2, w
		emit(c)
	}
	// the same scripts on an MQTT 3.1.1 session
	for _, s := range scripts {
		c := base
		c.v5, c.sei, c.rm, c.script, c.srvrm = false, 0, 0, s, 2
		emit(c)
	}
	// histories with distinct Created stamps (real seconds pass)
	nsleepy := 2
	if tier == "thorough" {
		nsleepy = 20
	}
	for i := 0; i < nsleepy; i++ {
		c := base
		c.srvrm, c.rm, c.sleepy, c.steps = 4, uint16(1+i%2), true, 14
		emit(c)
	}
	for i := 0; i < nrandom; i++ {
		c := qosCfg{maxpid: 8, maxinfl: 8192, srvrm: uint16(1 + rng.Intn(4)), v5: true, sei: 300,
			rm: uint16(1 + rng.Intn(4)), subqos: 2, steps: 25 + rng.Intn(20)}
		switch i % 10 {
		case 3:
			c.v5, c.sei, c.rm = false, 0, 0 // MQTT 3.1.1, session kept
		case 5:
			c.sei = 0 // session ends at disconnect
		case 6:
			c.v5, c.sei, c.rm, c.clean = false, 0, 0, true
		case 7:
			c.maxinfl = 3
		case 8:
			c.maxpid = 65535
			c.rm = 0 // no receive maximum declared
		case 9:
			c.subqos = byte(1 + rng.Intn(2))
			c.maxpid = 4
		}
		emit(c)
	}
}
