package main

import (
	"math/rand"
	"strings"
	"time"

	mqtt "github.com/mochi-mqtt/server/v2"
	"github.com/mochi-mqtt/server/v2/listeners"
	"github.com/mochi-mqtt/server/v2/packets"

	"verifharness/broker"
	"verifharness/sx"
)

func init() { engines["wire"] = engWire }

// C23: every byte the broker writes.  Mixed histories over MQTT 3 / 3.1.1 / 5 clients, including the
// error paths (protocol violations, ACL refusals, quota, invalid filters), takeovers, wills, retained
// replay, small Maximum Packet Size, Request Problem Information 0 and server shutdown.  One case per
// connection: what the client declared + the complete byte stream it received.
type wireClient struct {
	c       *broker.Conn
	id      string
	ver     byte
	mps     uint32
	problem bool
	resp    bool
	nextPid uint16
}

func engWire(seed int64, tier string, _ []string, out *sx.Out) {
	rng := rand.New(rand.NewSource(seed))
	histories := 120
	steps := 40
	if tier == "thorough" {
		histories, steps = 3000, 70
	}
	ids := []string{"a", "b", "c", "d"}
	topics := []string{"t/1", "t/2", "u", "deny/x", "$SYS/broker/x", "t/1"}
	filters := []string{"t/#", "t/+", "u", "#", "deny/#", "$share/g/t/1", "bad#f", "+/1"}
	acl := func(cl *mqtt.Client, topic string, write bool) bool { return !strings.HasPrefix(topic, "deny") }
	for h := 0; h < histories; h++ {
		caps := mqtt.NewDefaultServerCapabilities()
		caps.MaximumQos = []byte{2, 2, 1, 2}[h%4]
		if h%5 == 1 {
			caps.ReceiveMaximum = 2
		}
		if h%7 == 3 {
			caps.MaximumMessageExpiryInterval = 100
		}
		if h%6 == 2 {
			caps.Compatibilities.ObscureNotAuthorized = true
		}
		b := broker.New(broker.Opts{Caps: caps, Auth: broker.AllowAuth, ACL: acl, InlineClient: h%3 == 0})
		if h%4 == 0 { // a registered listener "t1" so that Server.Close disconnects the clients
			_ = b.Srv.AddListener(listeners.NewMockListener("t1", "mem"))
		}
		var all []*wireClient
		live := map[string]*wireClient{}
		connect := func(id string) {
			ver := []byte{3, 4, 5, 5, 5}[rng.Intn(5)]
			pk := broker.ConnectPk(id, ver, rng.Intn(3) == 0)
			w := &wireClient{id: id, ver: ver, problem: true, nextPid: 1}
			if rng.Intn(3) == 0 {
				pk.Connect.WillFlag = true
				pk.Connect.WillTopic = topics[rng.Intn(len(topics))]
				pk.Connect.WillPayload = []byte("will-" + id)
				pk.Connect.WillQos = byte(rng.Intn(int(caps.MaximumQos) + 1))
				pk.Connect.WillRetain = rng.Intn(2) == 0
			}
			if ver == 5 {
				if rng.Intn(3) == 0 {
					w.mps = uint32(20 + rng.Intn(60))
					pk.Properties.MaximumPacketSize = w.mps
				}
				if rng.Intn(3) == 0 {
					w.problem = false
					pk.Properties.RequestProblemInfoFlag = true
					pk.Properties.RequestProblemInfo = 0
				}
				if rng.Intn(4) == 0 {
					w.resp = true
					pk.Properties.RequestResponseInfo = 1
				}
				if rng.Intn(3) == 0 {
					pk.Properties.ReceiveMaximum = uint16(1 + rng.Intn(3))
				}
				if rng.Intn(3) == 0 {
					pk.Properties.TopicAliasMaximum = uint16(1 + rng.Intn(3))
				}
				if rng.Intn(2) == 0 {
					pk.Properties.SessionExpiryIntervalFlag = true
					pk.Properties.SessionExpiryInterval = uint32(rng.Intn(3) * 50)
				}
				if rng.Intn(5) == 0 {
					pk.Properties.User = []packets.UserProperty{{Key: "k", Val: "v"}}
				}
			}
			if rng.Intn(12) == 0 { // protocol violation in CONNECT
				pk.Connect.ProtocolName = []byte("MQXX")
			}
			w.c = b.Connect("10.0.0."+id+":1", pk)
			all = append(all, w)
			live[id] = w
		}
		for s := 0; s < steps && !b.Hung; s++ {
			id := ids[rng.Intn(len(ids))]
			w := live[id]
			if w == nil || w.c.MC.Closed() || w.c.Done() {
				connect(id)
				continue
			}
			pid := w.nextPid
			w.nextPid = w.nextPid%9 + 1
			switch k := rng.Intn(20); {
			case k < 6:
				qos := byte(rng.Intn(3))
				p := uint16(0)
				if qos > 0 {
					p = pid
				}
				pk := broker.PublishPk(topics[rng.Intn(len(topics))], []byte("m"), qos, rng.Intn(3) == 0, p)
				if w.ver == 5 && rng.Intn(3) == 0 {
					pk.Properties.User = []packets.UserProperty{{Key: "uk", Val: "uv"}}
					pk.Properties.ContentType = "text/plain"
					pk.Properties.MessageExpiryInterval = uint32(rng.Intn(200))
				}
				if rng.Intn(10) == 0 {
					pk.Payload = make([]byte, 100) // larger than some clients' Maximum Packet Size
				}
				b.SendPacket(w.c, pk)
			case k < 9:
				n := 1 + rng.Intn(2)
				subs := []packets.Subscription{}
				for j := 0; j < n; j++ {
					sb := packets.Subscription{Filter: filters[rng.Intn(len(filters))], Qos: byte(rng.Intn(3))}
					if w.ver == 5 {
						sb.NoLocal = rng.Intn(6) == 0
						sb.RetainAsPublished = rng.Intn(3) == 0
						sb.RetainHandling = byte(rng.Intn(3))
						if rng.Intn(3) == 0 {
							sb.Identifier = 1 + rng.Intn(5)
						}
					}
					subs = append(subs, sb)
				}
				pk := broker.SubscribePk(pid, subs...)
				if w.ver == 5 && rng.Intn(4) == 0 {
					pk.Properties.User = []packets.UserProperty{{Key: "sk", Val: "sv"}}
				}
				b.SendPacket(w.c, pk)
			case k < 10:
				b.SendPacket(w.c, broker.UnsubscribePk(pid, filters[rng.Intn(len(filters))]))
			case k < 12: // acknowledge whatever is outstanding towards this client
				snap := b.Srv.VerifSnapshot()
				for _, sc := range snap.Clients {
					if sc.ID == id {
						for _, r := range sc.Inflight {
							switch r.Type {
							case packets.Publish:
								if r.Qos == 1 {
									b.SendPacket(w.c, broker.AckPk(packets.Puback, r.PacketID, 0))
								} else {
									b.SendPacket(w.c, broker.AckPk(packets.Pubrec, r.PacketID, 0))
								}
							case packets.Pubrel:
								b.SendPacket(w.c, broker.AckPk(packets.Pubcomp, r.PacketID, 0))
							case packets.Pubrec:
								b.SendPacket(w.c, broker.AckPk(packets.Pubrel, r.PacketID, 0))
							}
							break
						}
					}
				}
			case k < 13:
				b.SendPacket(w.c, broker.AckPk(packets.Pubrel, uint16(1+rng.Intn(9)), 0))
			case k < 14:
				b.SendPacket(w.c, broker.PingPk())
			case k < 15: // protocol violations
				switch rng.Intn(4) {
				case 0:
					b.SendPacket(w.c, broker.ConnectPk(id, w.ver, true)) // second CONNECT
				case 1:
					b.SendPacket(w.c, broker.PublishPk("t/+", []byte("m"), 0, false, 0)) // wildcard topic
				case 2:
					b.Send(w.c, []byte{0x30, 0x02, 0x00}) // truncated PUBLISH
				default:
					b.Send(w.c, []byte{0xf3, 0x00}) // AUTH with bad flags
				}
			case k < 16:
				rc := byte(0)
				if w.ver == 5 && rng.Intn(2) == 0 {
					rc = 4
				}
				b.SendPacket(w.c, broker.DisconnectPk(rc))
			case k < 17:
				b.NetClose(w.c)
			case k < 18: // takeover
				connect(id)
			case k < 19:
				kind := []string{"clients", "retained", "will", "inflight", "sys"}[rng.Intn(5)]
				b.Tick(kind, time.Now().Unix()+int64(rng.Intn(3))*60)
			default:
				if h%3 == 0 {
					t := topics[rng.Intn(len(topics))]
					b.Do(func() { _ = b.Srv.Publish(t, []byte("inline"), rng.Intn(2) == 0, byte(rng.Intn(3))) })
				}
			}
		}
		if h%4 == 0 && !b.Hung { // server shutdown: DISCONNECT 0x8B to everybody
			b.Do(func() { _ = b.Srv.Close() })
		}
		b.Shutdown()
		for _, w := range all {
			out.Case(sx.L{sx.N(uint64(w.ver)), sx.N(uint64(w.mps)), sx.Bool(w.problem), sx.Bool(w.resp), sx.B(w.c.MC.AllOutput())})
		}
	}
}
