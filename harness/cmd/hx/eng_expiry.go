package main

import (
	"fmt"
	"math/rand"
	"os"
	"sync"
	"time"

	mqtt "github.com/mochi-mqtt/server/v2"
	"github.com/mochi-mqtt/server/v2/packets"

	"verifharness/broker"
	"verifharness/sx"
)

func init() { engines["expiry"] = engExpiry }

// C25: expired messages are not delivered, expiry intervals only shrink.  One case per message copy:
//
//	(smax interval ver5 subver5 place created storedExpiry (event ...))
//	  ver5 = the PUBLISHER is an MQTT 5 client; subver5 = the receiving client is (only then does the
//	  delivered PUBLISH carry a Message Expiry Interval)
//	  place 0 = retained store, 1 = in-flight of a parked (offline) session, 2 = in-flight held back by
//	  flow control (receive maximum 1 with one message outstanding)
//	  created / storedExpiry = what the broker stored for the copy (unix seconds; storedExpiry signed)
//	  event = (1 h present)                housekeeping ran with time h; is the copy still stored afterwards
//	        | (2 t0 t1 delivered mei)      a delivery was triggered between wall-clock seconds t0 and t1 (late
//	                                       subscriber / reconnect / acknowledgement that frees the quota);
//	                                       mei = Message Expiry Interval on the delivered PUBLISH (0 = absent)
type expScenario struct {
	smax     int64
	interval uint32
	pubver   byte
	subver   byte // protocol version of the receiving client (0 = 5)
	place    int
	deltas   []int64 // housekeeping at created + eff + delta
	sleep    time.Duration
}

func effInterval(smax int64, interval uint32) int64 {
	i := int64(interval)
	if smax == 0 {
		return i
	}
	if i == 0 || smax < i {
		return smax
	}
	return i
}

func findPayload(outs []broker.Out, conn int, payload string) (bool, uint32) {
	for _, o := range outs {
		if o.Conn != conn {
			continue
		}
		for _, q := range o.Packets {
			if q.FixedHeader.Type == packets.Publish && string(q.Payload) == payload {
				return true, q.Properties.MessageExpiryInterval
			}
		}
	}
	return false, 0
}

// runExpiry runs one scenario.  The held-back scenario needs the message M0 that occupies the send quota to
// be published in the same wall-clock second as the message under observation: M0 carries no interval of its
// own, so with a server maximum it expires max seconds after ITS publish second; had that been the second
// before, a housekeeping run exactly at M's expiry time would remove M0 but not M, the acknowledgement of M0
// would then find nothing and free no quota (expired in-flight messages do not give their quota back: C11),
// and the delivery of M would never be triggered.  Such a run says nothing about M and is repeated.
func runExpiry(sc expScenario) (sx.V, bool) {
	for attempt := 0; ; attempt++ {
		v, ok, straddled := runExpiryOnce(sc)
		if !straddled || attempt >= 6 {
			return v, ok
		}
	}
}

func runExpiryOnce(sc expScenario) (sx.V, bool, bool) {
	if sc.subver == 0 {
		sc.subver = 5
	}
	caps := mqtt.NewDefaultServerCapabilities()
	caps.MaximumMessageExpiryInterval = sc.smax
	b := broker.New(broker.Opts{Caps: caps, Auth: broker.AllowAuth, ACL: broker.AllowACL})
	defer b.Shutdown()
	p := b.Connect("10.0.0.1:1", broker.ConnectPk("p", sc.pubver, true))
	var s *broker.Conn
	connectS := func() {
		pk := broker.ConnectPk("s", sc.subver, false)
		pk.Properties.SessionExpiryInterval = 100000
		pk.Properties.SessionExpiryIntervalFlag = true
		if sc.place == 2 {
			pk.Properties.ReceiveMaximum = 1
		}
		s = b.Connect("10.0.0.2:1", pk)
	}
	msg := broker.PublishPk("e/t", []byte("M"), 1, sc.place == 0, 7)
	if sc.pubver == 5 {
		msg.Properties.MessageExpiryInterval = sc.interval
	}
	var m0pid uint16
	switch sc.place {
	case 1:
		connectS()
		_ = b.SendPacket(s, broker.SubscribePk(1, packets.Subscription{Filter: "e/#", Qos: 1}))
		b.NetClose(s)
	case 2:
		connectS()
		_ = b.SendPacket(s, broker.SubscribePk(1, packets.Subscription{Filter: "e/#", Qos: 1}))
		_ = b.SendPacket(p, broker.PublishPk("e/t", []byte("M0"), 1, false, 6))
		for _, o := range b.Drain() {
			if o.Conn == s.Idx {
				for _, q := range o.Packets {
					if q.FixedHeader.Type == packets.Publish {
						m0pid = q.PacketID
					}
				}
			}
		}
	}
	_ = b.SendPacket(p, msg)
	b.Drain()
	// what did the broker store for the copy?
	lookup := func() (bool, int64, int64) {
		if sc.place == 0 {
			if pk, ok := b.Srv.Topics.Retained.Get("e/t"); ok {
				return true, pk.Created, pk.Expiry
			}
			return false, 0, 0
		}
		if c := snapClient(b.Srv.VerifSnapshot(), "s"); c != nil {
			for _, r := range c.Inflight {
				if string(r.Payload) == "M" {
					return true, r.Created, r.Expiry
				}
			}
		}
		return false, 0, 0
	}
	ok, created, stored := lookup()
	if !ok {
		return nil, false, false
	}
	if sc.place == 2 {
		if c := snapClient(b.Srv.VerifSnapshot(), "s"); c != nil {
			for _, r := range c.Inflight {
				if string(r.Payload) == "M0" && r.Created != created {
					return nil, false, true // the two publishes straddle a second boundary
				}
			}
		}
	}
	eff := effInterval(sc.smax, sc.interval)
	if sc.pubver != 5 {
		eff = effInterval(sc.smax, 0)
	}
	base := created + eff
	if eff == 0 {
		base = created + 50
	}
	evs := sx.L{}
	kind := "inflight"
	if sc.place == 0 {
		kind = "retained"
	}
	tick := func(d int64) {
		b.Tick(kind, base+d)
		present, _, _ := lookup()
		evs = append(evs, sx.L{sx.N(1), zs(base + d), sx.Bool(present)})
	}
	late := 0
	deliver := func() {
		t0 := time.Now().Unix()
		conn := -1
		switch sc.place {
		case 0:
			late++
			pk := broker.ConnectPk(fmt.Sprintf("late%d", late), sc.subver, true)
			l := b.Connect("10.0.0.3:1", pk)
			b.Drain()
			_ = b.SendPacket(l, broker.SubscribePk(1, packets.Subscription{Filter: "e/#", Qos: 1}))
			conn = l.Idx
		case 1:
			connectS()
			conn = s.Idx
		case 2:
			_ = b.SendPacket(s, broker.AckPk(packets.Puback, m0pid, 0))
			conn = s.Idx
		}
		got, mei := findPayload(b.Drain(), conn, "M")
		t1 := time.Now().Unix()
		evs = append(evs, sx.L{sx.N(2), zs(t0), zs(t1), sx.Bool(got), sx.N(uint64(mei))})
	}
	if sc.sleep > 0 {
		time.Sleep(sc.sleep)
	}
	if sc.place == 0 {
		for _, d := range sc.deltas {
			tick(d)
			deliver()
		}
		if len(sc.deltas) == 0 {
			deliver()
		}
	} else {
		for _, d := range sc.deltas {
			tick(d)
		}
		deliver()
	}
	ver5 := sc.pubver == 5
	if !ver5 {
		sc.interval = 0 // an MQTT 3 publisher cannot send the property
	}
	return sx.L{zs(sc.smax), sx.N(uint64(sc.interval)), sx.Bool(ver5), sx.Bool(sc.subver == 5), sx.N(uint64(sc.place)), zs(created), zs(stored), evs}, !b.Hung, false
}

func engExpiry(seed int64, tier string, _ []string, out *sx.Out) {
	rng := rand.New(rand.NewSource(seed))
	debug := os.Getenv("HX_DEBUG") != ""
	smaxs := []int64{0, 2, 3, 86400}
	intervals := []uint32{0, 1, 2, 3, 5, 100}
	deltas := []int64{-1, 0, 1, 100}
	emit := func(sc expScenario) {
		v, ok := runExpiry(sc)
		if v == nil {
			out.Comment(fmt.Sprintf("copy not stored: %+v", sc))
			return
		}
		if !ok {
			out.Comment("hung")
		}
		if debug {
			fmt.Fprintf(os.Stderr, "%+v -> %s\n", sc, sx.String(v))
		}
		out.Case(v)
	}
	// exhaustive small grid: one housekeeping run at every boundary offset, then the delivery
	for _, m := range smaxs {
		for _, i := range intervals {
			for place := 0; place < 3; place++ {
				for _, d := range deltas {
					emit(expScenario{smax: m, interval: i, pubver: 5, place: place, deltas: []int64{d}})
				}
			}
		}
		for place := 0; place < 3; place++ { // MQTT 3 publisher: no interval of its own
			for _, d := range deltas {
				emit(expScenario{smax: m, pubver: 4, place: place, deltas: []int64{d}})
			}
		}
	}
	// mixed protocol versions: whether a message has an expiry of its own is decided by the PUBLISHER's
	// message (version 5 + interval), whoever receives it; the copy waits in the retained store or in the
	// in-flight store of a parked MQTT 3.1 / 3.1.1 session (such a client is never held back by a send quota)
	for _, m := range []int64{0, 3, 86400} {
		for _, i := range []uint32{1, 2, 5} {
			for _, sv := range []byte{4, 3} {
				for place := 0; place < 2; place++ {
					for _, d := range deltas {
						emit(expScenario{smax: m, interval: i, pubver: 5, subver: sv, place: place, deltas: []int64{d}})
					}
				}
			}
		}
		for _, pv := range []byte{4, 3} {
			for _, sv := range []byte{4, 3} {
				for place := 0; place < 2; place++ {
					for _, d := range deltas {
						emit(expScenario{smax: m, pubver: pv, subver: sv, place: place, deltas: []int64{d}})
					}
				}
			}
		}
	}
	// random: two housekeeping runs in either order, other offsets
	n := 120
	if tier == "thorough" {
		n = 6000
	}
	offs := []int64{-5, -1, 0, 1, 2, 7, 100, 100000}
	for k := 0; k < n; k++ {
		sc := expScenario{smax: smaxs[rng.Intn(len(smaxs))], interval: intervals[rng.Intn(len(intervals))], pubver: 5,
			place: rng.Intn(3), deltas: []int64{offs[rng.Intn(len(offs))], offs[rng.Intn(len(offs))]}}
		if rng.Intn(6) == 0 {
			sc.pubver = 3
		}
		if sc.place != 2 && rng.Intn(3) == 0 {
			sc.subver = []byte{4, 3}[rng.Intn(2)]
		}
		emit(sc)
	}
	// real time passes: the expiry time is reached on the wall clock before any housekeeping
	type res struct {
		v  sx.V
		ok bool
	}
	var scs []expScenario
	for place := 0; place < 3; place++ {
		scs = append(scs, expScenario{smax: 0, interval: 1, pubver: 5, place: place, sleep: 2100 * time.Millisecond})
		scs = append(scs, expScenario{smax: 86400, interval: 2, pubver: 5, place: place, sleep: 1100 * time.Millisecond})
		scs = append(scs, expScenario{smax: 1, interval: 0, pubver: 4, place: place, sleep: 2100 * time.Millisecond,
			deltas: []int64{-1}})
	}
	rs := make([]res, len(scs))
	var wg sync.WaitGroup
	for i := range scs {
		wg.Add(1)
		go func(i int) {
			defer wg.Done()
			rs[i].v, rs[i].ok = runExpiry(scs[i])
		}(i)
	}
	wg.Wait()
	for i, r := range rs {
		if r.v != nil {
			if debug {
				fmt.Fprintf(os.Stderr, "%+v -> %s\n", scs[i], sx.String(r.v))
			}
			out.Case(r.v)
		}
	}
}
