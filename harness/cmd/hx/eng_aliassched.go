package main

import (
	"fmt"
	"math/rand"
	"os"
	"sync"
	"time"

	mqtt "github.com/mochi-mqtt/server/v2"
	"github.com/mochi-mqtt/server/v2/packets"

	"verifharness/broker"
	"verifharness/sx"
)

func init() { engines["aliassched"] = engAliasSched }

// C24 under concurrent publishers: forced schedules on the outbound alias path of one MQTT 5 subscriber.
// One case per schedule (model: coq/Session/AliasSched.v):
//
//	(tam overlap (sched ...) (obs ...))
//	  sched = (0 k topic): publisher k's OutboundTopicAliases.Set(topic);  (1 k): its packet enters the queue
//	  obs   = (topic wireTopic wireAlias): the PUBLISH packets on the subscriber's connection, in wire order
//	          (topic = the topic the message was published to, taken from its payload)
//	  overlap = 1: a second publisher was observed inside Set's critical section while the first was parked there
//
// Two schedule points of /repo (verif build tag) are used:
//   - alias.afterCursor, inside OutboundTopicAliases.Set with the table's lock held: publisher 0 is parked there,
//     the others start delivering first messages on OTHER new topics to the same subscriber; none of them may
//     reach the point while publisher 0 is inside (mutual exclusion of lookup + allocation); then every topic is
//     published once more and the receiver-side check decides;
//   - publish.afterAlias, in publishToClient between the alias decision and the queue: publisher 0 (new topic) is
//     parked after Set, publisher 1 publishes on the SAME topic, gets the alias as existing and is let through
//     first: its alias-only PUBLISH is written before the PUBLISH that announces the alias.
type asGate struct {
	mu      sync.Mutex
	point   string
	armed   bool
	waiters []chan struct{}
}

func (g *asGate) hook(name string) {
	g.mu.Lock()
	if !g.armed || name != g.point {
		g.mu.Unlock()
		return
	}
	ch := make(chan struct{})
	g.waiters = append(g.waiters, ch)
	g.mu.Unlock()
	<-ch
}
func (g *asGate) count() int { g.mu.Lock(); defer g.mu.Unlock(); return len(g.waiters) }
func (g *asGate) arm(point string) {
	g.mu.Lock()
	g.point, g.armed = point, point != ""
	g.mu.Unlock()
}
func (g *asGate) release(i int) { g.mu.Lock(); ch := g.waiters[i]; g.mu.Unlock(); close(ch) }

func asWait(d time.Duration, cond func() bool) bool {
	deadline := time.Now().Add(d)
	for !cond() {
		if time.Now().After(deadline) {
			return false
		}
		time.Sleep(50 * time.Microsecond)
	}
	return true
}

type asRun struct {
	b     *broker.B
	g     *asGate
	s     *broker.Conn
	p     []*broker.Conn
	tam   uint16
	sched sx.L
	obs   sx.L
	seq   int
	hung  bool
}

func (r *asRun) encode(k int, topic string) []byte {
	r.seq++
	pk := broker.PublishPk(topic, []byte(fmt.Sprintf("%s|%d", topic, r.seq)), 0, false, 0)
	pk.ProtocolVersion = r.p[k].Version
	data, _ := broker.Encode(pk)
	return data
}

// collect appends what the subscriber received since the last call; returns the topics in wire order.
func (r *asRun) collect() []string {
	var ts []string
	for _, o := range r.b.Drain() {
		if o.Conn != r.s.Idx {
			continue
		}
		for _, q := range o.Packets {
			if q.FixedHeader.Type != packets.Publish {
				continue
			}
			t, _ := splitPayload(q.Payload)
			a := uint64(0)
			if q.Properties.TopicAliasFlag {
				a = uint64(q.Properties.TopicAlias)
			}
			r.obs = append(r.obs, sx.L{sx.S(t), sx.S(q.TopicName), sx.N(a)})
			ts = append(ts, t)
		}
	}
	return ts
}

// plain: publisher k publishes on topic, nothing parked.
func (r *asRun) plain(k int, topic string) {
	r.b.Send(r.p[k], r.encode(k, topic))
	r.sched = append(r.sched, sx.L{sx.N(0), sx.N(uint64(k)), sx.S(topic)}, sx.L{sx.N(1), sx.N(uint64(k))})
	r.collect()
}

func newAsRun(tam uint16, publishers int, pre []string) *asRun {
	g := &asGate{}
	mqtt.VerifPointHook = g.hook
	b := broker.New(broker.Opts{Auth: broker.AllowAuth, ACL: broker.AllowACL})
	r := &asRun{b: b, g: g, tam: tam}
	cpk := broker.ConnectPk("s", 5, true)
	cpk.Properties.TopicAliasMaximum = tam
	r.s = b.Connect("10.0.0.2:1", cpk)
	_ = b.SendPacket(r.s, broker.SubscribePk(1, packets.Subscription{Filter: "q0/#", Qos: 0}))
	for k := 0; k < publishers; k++ {
		r.p = append(r.p, b.Connect(fmt.Sprintf("10.0.0.1:%d", k+1), broker.ConnectPk(fmt.Sprintf("p%d", k), 4, true)))
	}
	b.Drain()
	for i, t := range pre {
		r.plain(i%publishers, t)
	}
	return r
}

func (r *asRun) finish(out *sx.Out, overlap bool) {
	if r.b.Hung || r.hung {
		out.Comment("hung")
	}
	out.Case(sx.L{sx.N(uint64(r.tam)), sx.Bool(overlap), r.sched, r.obs})
	r.b.Shutdown()
	mqtt.VerifPointHook = nil
}

// exclusion: publisher 0 is parked inside Set; do the others get in?
func asExclusion(out *sx.Out, tam uint16, publishers int, pre []string, debug bool) {
	r := newAsRun(tam, publishers, pre)
	topics := []string{"q0/a", "q0/b", "q0/c"}[:publishers]
	// a chain: publisher k is parked inside Set, publisher k+1 is started; it must not get inside before k is
	// released, and then parks there itself (so the order of the Set calls is 0, 1, 2, ...)
	r.g.arm("alias.afterCursor")
	overlap := false
	r.b.Feed(r.p[0], r.encode(0, topics[0]))
	if !asWait(5*time.Second, func() bool { return r.g.count() == 1 }) {
		r.hung = true
	}
	for k := 1; k < publishers && !r.hung && !overlap; k++ {
		r.b.Feed(r.p[k], r.encode(k, topics[k]))
		asWait(30*time.Millisecond, func() bool { return r.g.count() > k })
		if r.g.count() > k {
			overlap = true
			break
		}
		r.g.release(k - 1)
		if !asWait(5*time.Second, func() bool { return r.g.count() == k+1 }) {
			r.hung = true
		}
	}
	r.g.arm("")
	if overlap || r.hung {
		for i := 0; i < r.g.count(); i++ {
			func() { defer func() { _ = recover() }(); r.g.release(i) }() // some are released already
		}
	} else {
		r.g.release(publishers - 1)
	}
	r.b.Quiesce()
	// Set in the order the publishers were started (publisher 0 first: it was inside), queue order = wire order
	for k := 0; k < publishers; k++ {
		r.sched = append(r.sched, sx.L{sx.N(0), sx.N(uint64(k)), sx.S(topics[k])})
	}
	for _, t := range r.collect() {
		for k := range topics {
			if topics[k] == t {
				r.sched = append(r.sched, sx.L{sx.N(1), sx.N(uint64(k))})
			}
		}
	}
	// every topic once more, one after the other, and one more new topic
	for k := 0; k < publishers; k++ {
		r.plain(k, topics[k])
	}
	r.plain(0, "q0/z")
	for k := 0; k < publishers; k++ {
		r.plain((k+1)%publishers, topics[k])
	}
	if debug {
		fmt.Fprintf(os.Stderr, "exclusion tam=%d n=%d pre=%v overlap=%v obs=%s\n", tam, publishers, pre, overlap, sx.String(r.obs))
	}
	r.finish(out, overlap)
}

// overtaking: publisher 0 is parked between Set and the queue; publisher 1 (same or other topic) goes first.
func asOvertaking(out *sx.Out, tam uint16, pre []string, same bool, debug bool) {
	r := newAsRun(tam, 2, pre)
	t0, t1 := "q0/a", "q0/a"
	if !same {
		t1 = "q0/b"
	}
	r.g.arm("publish.afterAlias")
	r.b.Feed(r.p[0], r.encode(0, t0))
	if !asWait(5*time.Second, func() bool { return r.g.count() == 1 }) {
		r.hung = true
	}
	r.b.Feed(r.p[1], r.encode(1, t1))
	if !asWait(5*time.Second, func() bool { return r.g.count() == 2 }) {
		r.hung = true
	}
	r.g.arm("")
	if r.g.count() == 2 {
		r.g.release(1)
		if !asWait(5*time.Second, func() bool { return r.p[1].Parked() && r.b.Srv.VerifQuiescent() }) {
			r.hung = true
		}
	}
	r.g.release(0)
	r.b.Quiesce()
	r.sched = append(r.sched, sx.L{sx.N(0), sx.N(0), sx.S(t0)}, sx.L{sx.N(0), sx.N(1), sx.S(t1)}, sx.L{sx.N(1), sx.N(1)}, sx.L{sx.N(1), sx.N(0)})
	r.collect()
	r.plain(0, t0)
	r.plain(1, t1)
	if debug {
		fmt.Fprintf(os.Stderr, "overtaking tam=%d pre=%v same=%v obs=%s\n", tam, pre, same, sx.String(r.obs))
	}
	r.finish(out, false)
}

func engAliasSched(seed int64, tier string, _ []string, out *sx.Out) {
	rng := rand.New(rand.NewSource(seed))
	debug := os.Getenv("HX_DEBUG") != ""
	pres := [][]string{nil, {"q0/p"}, {"q0/p", "q0/q"}}
	for _, tam := range []uint16{1, 2, 8} {
		for _, pre := range pres {
			for n := 2; n <= 3; n++ {
				asExclusion(out, tam, n, pre, debug)
			}
			asOvertaking(out, tam, pre, true, debug)
			asOvertaking(out, tam, pre, false, debug)
		}
	}
	extra := 6
	if tier == "thorough" {
		extra = 200
	}
	for i := 0; i < extra; i++ {
		tam := uint16(1 + rng.Intn(8))
		pre := pres[rng.Intn(len(pres))]
		if rng.Intn(2) == 0 {
			asExclusion(out, tam, 2+rng.Intn(2), pre, debug)
		} else {
			asOvertaking(out, tam, pre, rng.Intn(3) > 0, debug)
		}
	}
}
