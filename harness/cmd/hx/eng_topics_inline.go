package main

// topics_inlinesched (C40, concurrency dimension): the embedding API (Server.Subscribe / Unsubscribe / Publish)
// racing with client unsubscribes and retained clears on the same branch of the topic tree.  One inline
// Subscribe is parked at the schedule point "inline.add" (between the walk that creates the filter's path and
// the insertion of the subscription); the other goroutines get a chance to run in that gap; then it is
// released.  After quiescence the index is probed: publishes, unsubscribes, publishes again.  The Coq engine
// Topics.InlineConc.inline_engine decides whether SOME serial order of the concurrent operations (consistent
// with each goroutine's order) explains every return value and every handler call — i.e. whether every inline
// subscription whose Subscribe returned nil and that was not unsubscribed receives every matching publish
// exactly once, and Unsubscribe stops delivery.
//
// case = (7 pre threads post), each element (cop ret); cop = index op as in eng_topics.go | (6 topic) = Publish.

import (
	"fmt"
	"io"
	"log/slog"
	"math/rand"
	"sync"
	"sync/atomic"
	"time"

	mqtt "github.com/mochi-mqtt/server/v2"
	"github.com/mochi-mqtt/server/v2/packets"

	"verifharness/sx"
)

func init() { engines["topics_inlinesched"] = engTopicsInlineSched }

type inlineWorld struct {
	s     *mqtt.Server
	mu    sync.Mutex
	calls map[string][4]int // payload tag -> calls per handler id
	npub  int32
}

func newInlineWorld() *inlineWorld {
	s := mqtt.New(&mqtt.Options{InlineClient: true, Logger: slog.New(slog.NewTextHandler(io.Discard, nil))})
	return &inlineWorld{s: s, calls: map[string][4]int{}}
}

func (w *inlineWorld) handler(id int) mqtt.InlineSubFn {
	return func(_ *mqtt.Client, sub packets.Subscription, pk packets.Packet) {
		w.mu.Lock()
		c := w.calls[string(pk.Payload)]
		if id >= 1 && id <= 3 {
			c[id]++
		}
		w.calls[string(pk.Payload)] = c
		w.mu.Unlock()
	}
}

// cOp: kind 0..5 as tOp, 6 = publish
func (w *inlineWorld) apply(o tOp) int {
	switch o.kind {
	case 2:
		if err := w.s.Subscribe(o.filter, o.id, w.handler(o.id)); err != nil {
			return 9
		}
		return 0
	case 3:
		if err := w.s.Unsubscribe(o.filter, o.id); err != nil {
			return 9
		}
		return 0
	case 6:
		tag := fmt.Sprintf("p%d", atomic.AddInt32(&w.npub, 1))
		if err := w.s.Publish(o.filter, []byte(tag), false, 0); err != nil {
			return 999
		}
		w.mu.Lock()
		c := w.calls[tag]
		w.mu.Unlock()
		m := 0
		for id, mul := 1, 1; id <= 3; id, mul = id+1, mul*4 {
			n := c[id]
			if n > 3 {
				n = 3
			}
			m += n * mul
		}
		return m
	default:
		return o.apply(w.s.Topics)
	}
}

func copSx(o tOp) sx.V {
	if o.kind == 6 {
		return sx.L{sx.N(6), sx.S(o.filter)}
	}
	if o.kind == 2 {
		return sx.L{sx.N(2), sx.N(o.id), sx.S(o.filter), sx.N(0)}
	}
	return o.sx()
}

var inlinePark struct {
	armed   int32
	parked  chan struct{}
	release chan struct{}
}

func engTopicsInlineSched(seed int64, tier string, _ []string, out *sx.Out) {
	rng := rand.New(rand.NewSource(seed))
	n := 900
	gap := 2 * time.Millisecond
	if tier == "thorough" {
		n = 15000
	}
	mqtt.VerifPointHook = func(name string) {
		if name == "inline.add" && atomic.CompareAndSwapInt32(&inlinePark.armed, 1, 0) {
			inlinePark.parked <- struct{}{}
			<-inlinePark.release
		}
	}
	defer func() { mqtt.VerifPointHook = nil }()
	// filters with the topics that exercise them (incl. trailing '#' on the parent level)
	branches := []struct {
		f      string
		topics []string
	}{{"a/b", []string{"a/b", "a"}}, {"a/#", []string{"a", "a/b"}}, {"x/+/z", []string{"x/y/z", "x/y"}},
		{"a/b/c", []string{"a/b/c", "a/b"}}, {"+/b", []string{"a/b", "b"}}, {"q", []string{"q", "q/r"}}}
	gapRuns := 0
	for i := 0; i < n; i++ {
		br := branches[rng.Intn(len(branches))]
		f := br.f
		w := newInlineWorld()
		emit := func(ops []tOp) sx.L {
			l := sx.L{}
			for _, o := range ops {
				r := w.apply(o)
				l = append(l, sx.L{copSx(o), sx.N(r)})
			}
			return l
		}
		// pre: what makes the branch exist (a client subscription, another inline subscription, nothing)
		var pre []tOp
		switch rng.Intn(5) {
		case 0, 1:
			pre = append(pre, tOp{kind: 0, client: "c1", filter: f, pay: 1})
		case 2:
			pre = append(pre, tOp{kind: 2, id: 2, filter: f})
		case 3:
			pre = append(pre, tOp{kind: 0, client: "c1", filter: f, pay: 1}, tOp{kind: 0, client: "c2", filter: f + "/d", pay: 1})
		}
		preL := emit(pre)
		// goroutine 0: the inline Subscribe that is parked between walk and add (then possibly more)
		th := [][]tOp{{{kind: 2, id: 1, filter: f}}}
		if rng.Intn(4) == 0 {
			th[0] = append(th[0], tOp{kind: 6, filter: br.topics[0]})
		}
		// the racers: prune the branch / touch it while goroutine 0 is parked
		racer := func() tOp {
			switch rng.Intn(8) {
			case 0, 1, 2:
				return tOp{kind: 1, client: "c1", filter: f}
			case 3:
				t := br.topics[0]
				return tOp{kind: 4, filter: t, payload: ""} // retained clear on the branch: set + trim
			case 4:
				return tOp{kind: 3, id: 2, filter: f}
			case 5:
				return tOp{kind: 3, id: 1, filter: f}
			case 6:
				return tOp{kind: 6, filter: br.topics[rng.Intn(len(br.topics))]}
			default:
				return tOp{kind: 1, client: "c2", filter: f + "/d"}
			}
		}
		nr := 1 + rng.Intn(2)
		for r := 0; r < nr; r++ {
			ops := []tOp{racer()}
			if rng.Intn(3) == 0 {
				ops = append(ops, racer())
			}
			th = append(th, ops)
		}
		rets := make([][]int, len(th))
		inlinePark.parked = make(chan struct{}, 1)
		inlinePark.release = make(chan struct{})
		atomic.StoreInt32(&inlinePark.armed, 1)
		var wg sync.WaitGroup
		var racersDone int32
		run := func(t int) {
			defer wg.Done()
			for k, o := range th[t] {
				rets[t][k] = w.apply(o)
			}
			if t > 0 {
				atomic.AddInt32(&racersDone, 1)
			}
		}
		rets[0] = make([]int, len(th[0]))
		wg.Add(1)
		go run(0)
		hung := false
		select {
		case <-inlinePark.parked:
		case <-time.After(5 * time.Second):
			hung = true
		}
		for t := 1; t < len(th); t++ {
			rets[t] = make([]int, len(th[t]))
			wg.Add(1)
			go run(t)
		}
		deadline := time.Now().Add(gap)
		for time.Now().Before(deadline) && atomic.LoadInt32(&racersDone) < int32(len(th)-1) {
			time.Sleep(50 * time.Microsecond)
		}
		if atomic.LoadInt32(&racersDone) == int32(len(th)-1) {
			gapRuns++
		}
		close(inlinePark.release)
		done := make(chan struct{})
		go func() { wg.Wait(); close(done) }()
		select {
		case <-done:
		case <-time.After(10 * time.Second):
			hung = true
		}
		thL := sx.L{}
		for t := range th {
			l := sx.L{}
			for k, o := range th[t] {
				r := rets[t][k]
				if hung {
					r = 777
				}
				l = append(l, sx.L{copSx(o), sx.N(r)})
			}
			thL = append(thL, l)
		}
		if hung { // nothing more can be done safely with this server
			out.Case(sx.L{sx.N(7), preL, thL, sx.L{}})
			continue
		}
		// post: probe, unsubscribe what is still there, probe again
		var post []tOp
		for _, t := range br.topics {
			post = append(post, tOp{kind: 6, filter: t})
		}
		post = append(post, tOp{kind: 3, id: 1, filter: f})
		post = append(post, tOp{kind: 6, filter: br.topics[0]})
		if rng.Intn(2) == 0 {
			post = append(post, tOp{kind: 3, id: 2, filter: f}, tOp{kind: 6, filter: br.topics[0]})
		}
		postL := emit(post)
		out.Case(sx.L{sx.N(7), preL, thL, postL})
		_ = w.s.Close()
	}
	out.Comment(fmt.Sprintf("topics_inlinesched: in %d of %d schedules every racer completed while the inline Subscribe was parked at inline.add", gapRuns, n))
}
