package main

// Sandboxed execution of the real decoders for codec_total (C27).  A decoder that does not
// terminate (or allocates without bound) cannot be stopped inside a Go process, so the decode
// calls run in a child process (this binary re-executed as the hidden engine "codec_worker"):
// the parent streams requests to the child's stdin and copies the case lines the child prints; a
// watchdog inside the child gives every request a time budget, and when it is exceeded prints the
// case with outcome class 3 ("did not terminate") and exits, which also frees whatever the runaway
// decoder allocated.  The parent then restarts the child after the offending request.  If the child
// dies without reporting (e.g. killed for memory), the parent reports the request it was working on
// with outcome class 3 itself.

import (
	"bufio"
	"encoding/hex"
	"fmt"
	"io"
	"os"
	"os/exec"
	"runtime"
	"strconv"
	"strings"
	"sync"
	"time"

	"github.com/mochi-mqtt/server/v2/packets"

	"verifharness/sx"
)

func init() { engines["codec_worker"] = engCodecWorker }

const outHang = 3
const hangMarker = "#HANG"

type decReq struct {
	stream bool
	v      byte
	fh     packets.FixedHeader
	data   []byte
}

func (r *decReq) line() string {
	if r.stream {
		return "S " + strconv.Itoa(int(r.v)) + " " + hex.EncodeToString(r.data) + "\n"
	}
	return fmt.Sprintf("B %d %d %d %d %d %d %s\n", r.v, r.fh.Type, r.fh.Qos, sx.Bool(r.fh.Dup), sx.Bool(r.fh.Retain),
		r.fh.Remaining, hex.EncodeToString(r.data))
}

// hangCase is the case line for a request whose decoding did not terminate.
func (r *decReq) hangCase() sx.V {
	if r.stream {
		return sx.L{sx.N(1), sx.N(r.v), sx.B(r.data), sx.N(outHang), sx.L{}, sx.B(nil)}
	}
	return sx.L{sx.N(0), sx.N(r.v), sx.N(r.fh.Type), sx.N(r.fh.Qos), sx.Bool(r.fh.Dup), sx.Bool(r.fh.Retain),
		sx.N(uint64(r.fh.Remaining)), sx.B(r.data), sx.N(outHang), sx.L{}}
}

func parseReq(line string) (*decReq, bool) {
	f := strings.Fields(line)
	num := func(s string) int { n, _ := strconv.Atoi(s); return n }
	switch {
	case len(f) >= 2 && f[0] == "S":
		h := ""
		if len(f) > 2 {
			h = f[2]
		}
		d, err := hex.DecodeString(h)
		return &decReq{stream: true, v: byte(num(f[1])), data: d}, err == nil
	case len(f) >= 7 && f[0] == "B":
		h := ""
		if len(f) > 7 {
			h = f[7]
		}
		d, err := hex.DecodeString(h)
		return &decReq{v: byte(num(f[1])), fh: packets.FixedHeader{Type: byte(num(f[2])), Qos: byte(num(f[3])),
			Dup: num(f[4]) != 0, Retain: num(f[5]) != 0, Remaining: num(f[6])}, data: d}, err == nil
	}
	return nil, false
}

// the child: one case line per request line, in order
func engCodecWorker(_ int64, _ string, _ []string, out *sx.Out) {
	budget := 1500 * time.Millisecond
	if ms, err := strconv.Atoi(os.Getenv("HX_BUDGET_MS")); err == nil && ms > 0 {
		budget = time.Duration(ms) * time.Millisecond
	}
	const memCap = 1536 << 20 // a decoder holding 1.5 GB for an input of a few kB allocates without bound
	var mu sync.Mutex
	var cur *decReq
	var started time.Time
	go func() { // watchdog
		var ms runtime.MemStats
		for {
			time.Sleep(40 * time.Millisecond)
			mu.Lock()
			if cur != nil {
				over := time.Since(started) > budget
				if !over && time.Since(started) > 100*time.Millisecond {
					runtime.ReadMemStats(&ms)
					over = ms.HeapAlloc > memCap
				}
				if over {
					out.Flush()
					os.Stdout.WriteString(hangMarker + "\n")
					os.Exit(3)
				}
			}
			mu.Unlock()
		}
	}()
	in := bufio.NewReaderSize(os.Stdin, 1<<20)
	n := 0
	for {
		line, err := in.ReadString('\n')
		if len(line) > 1 {
			if r, ok := parseReq(line); ok {
				mu.Lock()
				cur, started = r, time.Now()
				mu.Unlock()
				var c sx.V
				if r.stream {
					c = streamCase(r.v, r.data)
				} else {
					c = bodyCase(r.v, r.fh, r.data)
				}
				mu.Lock()
				cur = nil
				out.Case(c)
				n++
				if n%512 == 0 {
					out.Flush()
				}
				mu.Unlock()
			}
		}
		if err != nil {
			break
		}
	}
	mu.Lock()
	out.Flush()
	os.Exit(0)
}

// decQueue collects decode requests and runs them through child processes in chunks.
type decQueue struct {
	out     *sx.Out
	reqs    []*decReq
	chunk   int
	hangs   int
	stopped bool
}

func newDecQueue(out *sx.Out) *decQueue { return &decQueue{out: out, chunk: 100000} }

func (q *decQueue) body(v byte, fh packets.FixedHeader, b []byte) {
	q.reqs = append(q.reqs, &decReq{v: v, fh: fh, data: append([]byte{}, b...)})
	if len(q.reqs) >= q.chunk {
		q.flush()
	}
}

func (q *decQueue) stream(v byte, bs []byte) {
	q.reqs = append(q.reqs, &decReq{stream: true, v: v, data: append([]byte{}, bs...)})
	if len(q.reqs) >= q.chunk {
		q.flush()
	}
}

// flush runs all queued requests; the case lines are copied to stdout in request order.
func (q *decQueue) flush() {
	if q.stopped {
		q.reqs = nil
		return
	}
	if os.Getenv("HX_SANDBOX_TRACE") != "" {
		t0 := time.Now()
		defer func() { fmt.Fprintln(os.Stderr, "sandbox flush", time.Since(t0)) }()
	}
	reqs := q.reqs
	q.reqs = nil
	q.out.Flush()
	for len(reqs) > 0 {
		done, lines := q.runChild(reqs, "")
		os.Stdout.WriteString(lines)
		if done < len(reqs) {
			// the child gave up on request [done] (time budget / memory cap) or died on it: decide on
			// that request alone, in a fresh child with a generous budget, so that a slow machine is
			// never mistaken for a decoder that does not terminate
			d, l := q.runChild(reqs[done:done+1], "5000")
			if d == 1 {
				os.Stdout.WriteString(l)
			} else {
				q.out.Case(reqs[done].hangCase())
				q.out.Flush()
				q.hangs++
			}
			done++
		}
		reqs = reqs[done:]
		if q.hangs >= 5 {
			// the verdict is settled (each confirmed hang is a failing input of its own); every further
			// one would cost seconds, so the remaining requests of this run are not executed
			q.out.Comment(fmt.Sprintf("stopped after %d decodes that did not terminate; %d requests not run", q.hangs, len(reqs)))
			q.out.Flush()
			q.stopped = true
			return
		}
	}
}

// runChild feeds reqs to a fresh child; returns the number of case lines received and the lines.
func (q *decQueue) runChild(reqs []*decReq, budgetMs string) (int, string) {
	exe, err := os.Executable()
	if err != nil {
		fmt.Fprintln(os.Stderr, "codec sandbox: cannot locate own executable:", err)
		os.Exit(4)
	}
	cmd := exec.Command(exe, "codec_worker")
	cmd.Stderr = io.Discard
	if budgetMs != "" {
		cmd.Env = append(os.Environ(), "HX_BUDGET_MS="+budgetMs)
	}
	stdin, _ := cmd.StdinPipe()
	stdout, _ := cmd.StdoutPipe()
	if err := cmd.Start(); err != nil {
		fmt.Fprintln(os.Stderr, "codec sandbox: cannot start worker:", err)
		os.Exit(4)
	}
	go func() {
		w := bufio.NewWriterSize(stdin, 1<<20)
		for _, r := range reqs {
			if _, err := w.WriteString(r.line()); err != nil {
				break
			}
		}
		w.Flush()
		stdin.Close()
	}()
	// a hard deadline for the whole chunk in case the child's own watchdog is starved
	timer := time.AfterFunc(10*time.Minute, func() { cmd.Process.Kill() })
	defer timer.Stop()
	rd := bufio.NewReaderSize(stdout, 1<<20)
	var sb strings.Builder
	got := 0
	for {
		line, err := rd.ReadString('\n')
		if strings.HasPrefix(line, hangMarker) {
			break
		}
		if len(line) > 0 && strings.HasSuffix(line, "\n") && got < len(reqs) {
			sb.WriteString(line)
			got++
		}
		if err != nil {
			break
		}
	}
	cmd.Process.Kill()
	cmd.Wait()
	return got, sb.String()
}
