package main

import (
	"io"
	"log/slog"
	"math/rand"
	"sort"
	"strings"

	mqtt "github.com/mochi-mqtt/server/v2"
	"github.com/mochi-mqtt/server/v2/hooks/auth"
	"github.com/mochi-mqtt/server/v2/packets"

	"verifharness/sx"
)

// ledger: auth ledger (C18).
//   (0 filter topic matched)                                  auth.MatchTopic
//   (1 ledger id user remote topic write outcomes)            Ledger.ACLOk + Hook.OnACLCheck, 50 evaluations
//   (2 ledger id user remote password outcomes)               Ledger.AuthOk + Hook.OnConnectAuthenticate, 50 evaluations
//   (3 rule value matched)                                    RString.Matches
// outcomes = the distinct (n ok hook_ok) triples observed, sorted.
func init() { engines["ledger"] = engLedger }

const ledgerEvals = 50

type lgFilter struct {
	f string
	a byte
}
type lgUser struct {
	name, pw string
	disallow bool
	acl      []lgFilter
}
type lgAuth struct {
	client, user, remote, pw string
	allow                    bool
}
type lgACL struct {
	client, user, remote string
	filters              []lgFilter
}
type lgLedger struct {
	users []lgUser
	auth  []lgAuth
	acl   []lgACL
}

func lgFiltersV(fs []lgFilter) sx.V {
	l := sx.L{}
	for _, f := range fs {
		l = append(l, sx.L{sx.S(f.f), sx.N(f.a)})
	}
	return l
}

func (g *lgLedger) val() sx.V {
	us, au, ac := sx.L{}, sx.L{}, sx.L{}
	for _, u := range g.users {
		us = append(us, sx.L{sx.S(u.name), sx.S(u.pw), sx.Bool(u.disallow), lgFiltersV(u.acl)})
	}
	for _, a := range g.auth {
		au = append(au, sx.L{sx.S(a.client), sx.S(a.user), sx.S(a.remote), sx.S(a.pw), sx.Bool(a.allow)})
	}
	for _, a := range g.acl {
		ac = append(ac, sx.L{sx.S(a.client), sx.S(a.user), sx.S(a.remote), lgFiltersV(a.filters)})
	}
	return sx.L{us, au, ac}
}

func lgFilterMap(fs []lgFilter) auth.Filters {
	m := auth.Filters{}
	for _, f := range fs {
		m[auth.RString(f.f)] = auth.Access(f.a)
	}
	return m
}

func (g *lgLedger) build() *auth.Ledger {
	l := &auth.Ledger{Users: auth.Users{}, Auth: auth.AuthRules{}, ACL: auth.ACLRules{}}
	for _, u := range g.users {
		l.Users[u.name] = auth.UserRule{Username: auth.RString(u.name), Password: auth.RString(u.pw), Disallow: u.disallow, ACL: lgFilterMap(u.acl)}
	}
	for _, a := range g.auth {
		l.Auth = append(l.Auth, auth.AuthRule{Client: auth.RString(a.client), Username: auth.RString(a.user),
			Remote: auth.RString(a.remote), Password: auth.RString(a.pw), Allow: a.allow})
	}
	for _, a := range g.acl {
		l.ACL = append(l.ACL, auth.ACLRule{Client: auth.RString(a.client), Username: auth.RString(a.user),
			Remote: auth.RString(a.remote), Filters: lgFilterMap(a.filters)})
	}
	return l
}

type lgOutcome struct {
	n        int
	ok, hook bool
}

func lgOutcomesV(seen map[lgOutcome]bool) sx.V {
	os := []lgOutcome{}
	for o := range seen {
		os = append(os, o)
	}
	sort.Slice(os, func(i, j int) bool {
		if os[i].n != os[j].n {
			return os[i].n < os[j].n
		}
		if os[i].ok != os[j].ok {
			return !os[i].ok
		}
		return !os[i].hook && os[j].hook
	})
	l := sx.L{}
	for _, o := range os {
		l = append(l, sx.L{sx.N(o.n), sx.Bool(o.ok), sx.Bool(o.hook)})
	}
	return l
}

func lgHook(l *auth.Ledger) *auth.Hook {
	h := new(auth.Hook)
	h.SetOpts(slog.New(slog.NewTextHandler(io.Discard, nil)), nil)
	if err := h.Init(&auth.Options{Ledger: l}); err != nil {
		panic(err)
	}
	return h
}

func lgClient(id, user, remote string) *mqtt.Client {
	cl := &mqtt.Client{ID: id}
	cl.Properties.Username = []byte(user)
	cl.Net.Remote = remote
	return cl
}

func lgACLCase(out *sx.Out, g *lgLedger, l *auth.Ledger, h *auth.Hook, id, user, remote, topic string, write bool) {
	cl := lgClient(id, user, remote)
	seen := map[lgOutcome]bool{}
	for i := 0; i < ledgerEvals; i++ {
		n, ok := l.ACLOk(cl, topic, write)
		seen[lgOutcome{n, ok, h.OnACLCheck(cl, topic, write)}] = true
	}
	out.Case(sx.L{sx.N(1), g.val(), sx.S(id), sx.S(user), sx.S(remote), sx.S(topic), sx.Bool(write), lgOutcomesV(seen)})
}

func lgAuthCase(out *sx.Out, g *lgLedger, l *auth.Ledger, h *auth.Hook, id, user, remote, pw string) {
	cl := lgClient(id, user, remote)
	pk := packets.Packet{}
	pk.Connect.Username = []byte(user)
	pk.Connect.Password = []byte(pw)
	seen := map[lgOutcome]bool{}
	for i := 0; i < ledgerEvals; i++ {
		n, ok := l.AuthOk(cl, pk)
		seen[lgOutcome{n, ok, h.OnConnectAuthenticate(cl, pk)}] = true
	}
	out.Case(sx.L{sx.N(2), g.val(), sx.S(id), sx.S(user), sx.S(remote), sx.S(pw), lgOutcomesV(seen)})
}

// all strings of 1..depth levels over the tokens
func lgLevelStrings(tokens []string, depth int) []string {
	res := []string{}
	var rec func(parts []string)
	rec = func(parts []string) {
		if len(parts) > 0 {
			res = append(res, strings.Join(parts, "/"))
		}
		if len(parts) == depth {
			return
		}
		for _, t := range tokens {
			rec(append(append([]string{}, parts...), t))
		}
	}
	rec(nil)
	return res
}

func lgPick(rng *rand.Rand, pool []string) string { return pool[rng.Intn(len(pool))] }

// distinct filters with random access; overlapping on purpose (the pool is small and nested)
func lgRandFilters(rng *rand.Rand, pool []string, max int) []lgFilter {
	n := rng.Intn(max + 1)
	perm := rng.Perm(len(pool))
	fs := []lgFilter{}
	for i := 0; i < n && i < len(pool); i++ {
		a := byte(rng.Intn(4))
		if rng.Intn(40) == 0 {
			a = byte(4 + rng.Intn(3)) // an Access value outside the four constants
		}
		fs = append(fs, lgFilter{pool[perm[i]], a})
	}
	return fs
}

func engLedger(seed int64, tier string, _ []string, out *sx.Out) {
	rng := rand.New(rand.NewSource(seed))
	thorough := tier == "thorough"

	// (i) MatchTopic: every filter x topic pair of depth <= 3 over {a, b, "", +, #} (thorough: depth 4 topics,
	// plus levels with an embedded wildcard character)
	ftok := []string{"a", "b", "", "+", "#"}
	fdepth, tdepth := 3, 3
	if thorough {
		ftok = []string{"a", "b", "", "+", "#", "a+", "#b"}
		tdepth = 4
	}
	fs := append(lgLevelStrings(ftok, fdepth), "")
	ts := append(lgLevelStrings([]string{"a", "b", "", "+", "#"}, tdepth), "")
	for _, f := range fs {
		for _, t := range ts {
			_, m := auth.MatchTopic(f, t)
			out.Case(sx.L{sx.N(0), sx.S(f), sx.S(t), sx.Bool(m)})
		}
	}

	// (ii) RString.Matches: every rule x value over {a, b, *} up to length 3, plus the literal shapes used in rules
	rs := []string{""}
	for i := 0; i < len(rs); i++ {
		if len(rs[i]) < 3 {
			for _, c := range []string{"a", "b", "*"} {
				rs = append(rs, rs[i]+c)
			}
		}
	}
	for _, r := range rs {
		for _, a := range rs {
			out.Case(sx.L{sx.N(3), sx.S(r), sx.S(a), sx.Bool(auth.RString(r).Matches(a))})
		}
	}

	// (iii) random ledgers x clients x topics, every decision evaluated 50 times
	filterPool := []string{"a/#", "a/+", "a/b", "#", "+/b", "a", "a/b/c", "a/+/c", "b/#", "+", "+/+", "a/b/#", "a/#/c", "", "a/", "+/#"}
	topicPool := lgLevelStrings([]string{"a", "b", "c", ""}, 3)
	topicPool = append(topicPool, "a/b/c/d", "", "a/#", "+/b")
	names := []string{"u1", "u2", "u3", ""}
	idPats := []string{"", "*", "cl1", "cl*", "c*", "*1", "cl2", "x*y"}
	userPats := []string{"", "*", "u1", "u*", "u2", "u"}
	remotePats := []string{"", "*", "127.0.0.1", "127.*", "10.*", "127.0.0.1:*"}
	pwPats := []string{"", "*", "pw", "p*", "secret"}
	ids := []string{"cl1", "cl2", "c", "x1y", ""}
	remotes := []string{"127.0.0.1", "127.0.0.1:1883", "10.0.0.7", ""}
	pws := []string{"pw", "secret", "", "p", "pwx"}

	nLedgers := 2500
	if thorough {
		nLedgers = 60000
	}
	for i := 0; i < nLedgers; i++ {
		g := &lgLedger{}
		// users: distinct names, mostly with overlapping ACL filters
		for _, k := range rng.Perm(len(names))[:rng.Intn(len(names))] {
			u := lgUser{name: names[k], pw: lgPick(rng, pws), disallow: rng.Intn(4) == 0}
			if rng.Intn(5) > 0 {
				u.acl = lgRandFilters(rng, filterPool, 5)
			}
			g.users = append(g.users, u)
		}
		for j := rng.Intn(4); j > 0; j-- {
			g.auth = append(g.auth, lgAuth{lgPick(rng, idPats), lgPick(rng, userPats), lgPick(rng, remotePats), lgPick(rng, pwPats), rng.Intn(2) == 0})
		}
		for j := rng.Intn(4); j > 0; j-- {
			g.acl = append(g.acl, lgACL{lgPick(rng, idPats), lgPick(rng, userPats), lgPick(rng, remotePats), lgRandFilters(rng, filterPool, 4)})
		}
		l := g.build()
		h := lgHook(l)
		for j := 0; j < 12; j++ {
			id, user, remote := lgPick(rng, ids), lgPick(rng, names), lgPick(rng, remotes)
			if rng.Intn(6) == 0 {
				user = "nobody"
			}
			topic := lgPick(rng, topicPool)
			lgACLCase(out, g, l, h, id, user, remote, topic, false)
			lgACLCase(out, g, l, h, id, user, remote, topic, true)
			if j%3 == 0 {
				lgAuthCase(out, g, l, h, id, user, remote, lgPick(rng, pws))
			}
		}
	}

	// hand-written overlap ledgers (the shapes of C18-2): every order of three nested filters with distinct access
	nested := []string{"a/#", "a/+", "a/b"}
	for a0 := 0; a0 < 4; a0++ {
		for a1 := 0; a1 < 4; a1++ {
			for a2 := 0; a2 < 4; a2++ {
				g := &lgLedger{users: []lgUser{{name: "u1", pw: "pw", acl: []lgFilter{{nested[0], byte(a0)}, {nested[1], byte(a1)}, {nested[2], byte(a2)}}}},
					acl: []lgACL{{"", "", "", []lgFilter{{"#", 0}}}}}
				l := g.build()
				h := lgHook(l)
				for _, topic := range []string{"a/b", "a/c", "a/b/c", "b"} {
					lgACLCase(out, g, l, h, "cl1", "u1", "127.0.0.1", topic, false)
					lgACLCase(out, g, l, h, "cl1", "u1", "127.0.0.1", topic, true)
				}
			}
		}
	}
}
