package main

import (
	"math/rand"
	"sort"
	"time"

	mqtt "github.com/mochi-mqtt/server/v2"
	"github.com/mochi-mqtt/server/v2/packets"

	"verifharness/broker"
	"verifharness/sx"
)

func init() {
	engines["auth"] = engAuth
	engines["subinvalid"] = engSubInvalid
}

// C17: authorisation on every route.  A random permission relation (client id x topic-or-filter x
// read/write, an explicit table) is installed through Opts.ACL; 4 clients run histories of connects
// (v3/v4/v5, clean or persistent, wills on allowed / denied / $SYS / wildcard topics, delayed wills),
// DISCONNECTs, network drops, publishes (QoS 0-2, retain), subscribes (allowed / denied / invalid
// filters, wildcards covering denied topics), inline publishes and will ticks.  The first payload byte
// names the sender, so the Coq monitors can judge every delivery and every retained message against
// the table.  Per step: operation, what each connection received, retained store, topic index,
// client subscription maps.

type auACLKey struct {
	cl, topic string
	write     bool
}

type auRun struct {
	b       *broker.B
	clients []string
	conns   map[string]*broker.Conn
	ids     map[int]string
	closed  map[int]bool
	pid     map[string]uint16
	seq     byte
	steps   sx.L
}

func (r *auRun) idx(id string) byte {
	for i, c := range r.clients {
		if c == id {
			return byte(i)
		}
	}
	return 254
}

func (r *auRun) payload(id string) []byte {
	r.seq++
	return []byte{r.idx(id), r.seq}
}

// observe records the step and then (outside the step) acknowledges what needs acknowledging.
func (r *auRun) observe(op sx.V) {
	evs := sx.L{}
	type ackJob struct {
		c  *broker.Conn
		pk packets.Packet
	}
	var acks []ackJob
	for _, o := range r.b.Drain() {
		id := r.ids[o.Conn]
		for _, p := range o.Packets {
			switch p.FixedHeader.Type {
			case packets.Connack:
				evs = append(evs, sx.L{sx.S(id), sx.L{sx.N(0), sx.Bool(p.ReasonCode == 0), sx.Bool(p.SessionPresent)}})
			case packets.Publish:
				evs = append(evs, sx.L{sx.S(id), sx.L{sx.N(1), sx.S(p.TopicName), sx.B(p.Payload)}})
				if p.FixedHeader.Qos == 1 {
					acks = append(acks, ackJob{r.b.Conns[o.Conn], broker.AckPk(packets.Puback, p.PacketID, 0)})
				} else if p.FixedHeader.Qos == 2 {
					acks = append(acks, ackJob{r.b.Conns[o.Conn], broker.AckPk(packets.Pubrec, p.PacketID, 0)})
				}
			case packets.Puback:
				evs = append(evs, sx.L{sx.S(id), sx.L{sx.N(2), sx.N(4), sx.N(uint64(p.PacketID)), sx.N(uint64(p.ReasonCode))}})
			case packets.Pubrec:
				evs = append(evs, sx.L{sx.S(id), sx.L{sx.N(2), sx.N(5), sx.N(uint64(p.PacketID)), sx.N(uint64(p.ReasonCode))}})
				if p.ReasonCode < 0x80 {
					acks = append(acks, ackJob{r.b.Conns[o.Conn], broker.AckPk(packets.Pubrel, p.PacketID, 0)})
				}
			case packets.Pubrel:
				acks = append(acks, ackJob{r.b.Conns[o.Conn], broker.AckPk(packets.Pubcomp, p.PacketID, 0)})
			case packets.Suback:
				evs = append(evs, sx.L{sx.S(id), sx.L{sx.N(3), sx.N(uint64(p.PacketID)), sx.B(p.ReasonCodes)}})
			}
		}
		if (o.Closed || o.Done) && !r.closed[o.Conn] {
			r.closed[o.Conn] = true
			evs = append(evs, sx.L{sx.S(id), sx.L{sx.N(4)}})
			if r.conns[id] != nil && r.conns[id].Idx == o.Conn {
				delete(r.conns, id)
			}
		}
	}
	snap := r.b.Srv.VerifLifeSnapshot()
	ret := sx.L{}
	rs := snap.Retained
	sort.Slice(rs, func(i, j int) bool { return rs[i].Topic < rs[j].Topic })
	for _, m := range rs {
		ret = append(ret, sx.L{sx.S(m.Topic), sx.B(m.Payload)})
	}
	subs := sx.L{}
	for _, s := range snap.Index {
		subs = append(subs, sx.L{sx.S(s.Client), sx.S(s.Filter)})
	}
	clsubs := sx.L{}
	for _, c := range snap.Clients {
		for _, f := range c.Subs {
			clsubs = append(clsubs, sx.L{sx.S(c.ID), sx.S(f)})
		}
	}
	r.steps = append(r.steps, sx.L{op, evs, ret, subs, clsubs})
	// hidden follow-ups: acknowledge deliveries, complete QoS 2 exchanges
	for len(acks) > 0 {
		var next []ackJob
		for _, a := range acks {
			if a.c.MC.Closed() || a.c.Done() {
				continue
			}
			_ = r.b.SendPacket(a.c, a.pk)
		}
		for _, o := range r.b.Drain() {
			for _, p := range o.Packets {
				if p.FixedHeader.Type == packets.Pubrel {
					next = append(next, ackJob{r.b.Conns[o.Conn], broker.AckPk(packets.Pubcomp, p.PacketID, 0)})
				}
			}
			if (o.Closed || o.Done) && !r.closed[o.Conn] {
				// a connection closed during the follow-up is reported with the next step
				r.closed[o.Conn] = true
				id := r.ids[o.Conn]
				if r.conns[id] != nil && r.conns[id].Idx == o.Conn {
					delete(r.conns, id)
				}
				r.steps = append(r.steps, sx.L{sx.L{sx.N(9)}, sx.L{}, sx.L{}, sx.L{}, sx.L{}}) // unparsable: flags the history
			}
		}
		acks = next
	}
}

type auWill struct {
	topic   string
	payload []byte
	qos     byte
	retain  bool
	delay   uint32
}

func (r *auRun) connect(id string, ver byte, clean bool, w *auWill) {
	cp := broker.ConnectPk(id, ver, clean)
	if ver == 5 && !clean {
		cp.Properties.SessionExpiryInterval = 300
		cp.Properties.SessionExpiryIntervalFlag = true
	}
	wsx := sx.V(sx.L{})
	if w != nil {
		cp.Connect.WillFlag = true
		cp.Connect.WillTopic = w.topic
		cp.Connect.WillPayload = w.payload
		cp.Connect.WillQos = w.qos
		cp.Connect.WillRetain = w.retain
		cp.Connect.WillProperties.WillDelayInterval = w.delay
		wsx = sx.L{sx.S(w.topic), sx.B(w.payload), sx.N(uint64(w.qos)), sx.Bool(w.retain), sx.Bool(w.delay > 0)}
	}
	c := r.b.Connect("10.0.0.1:1", cp)
	r.conns[id] = c
	r.ids[c.Idx] = id
	r.observe(sx.L{sx.N(0), sx.S(id), sx.N(uint64(ver)), sx.Bool(clean), wsx})
}

func (r *auRun) disconnect(id string) {
	c := r.conns[id]
	if r.b.SendPacket(c, broker.DisconnectPk(0)) != nil {
		return
	}
	r.observe(sx.L{sx.N(1), sx.S(id)})
}

// disconnectWill sends an MQTT 5 DISCONNECT with reason 0x04 (disconnect with will message).
func (r *auRun) disconnectWill(id string) {
	c := r.conns[id]
	if r.b.SendPacket(c, broker.DisconnectPk(0x04)) != nil {
		return
	}
	r.observe(sx.L{sx.N(7), sx.S(id)})
}

func (r *auRun) netClose(id string) {
	r.b.NetClose(r.conns[id])
	r.observe(sx.L{sx.N(2), sx.S(id)})
}

func (r *auRun) publish(id, topic string, qos byte, retain bool) {
	c := r.conns[id]
	pid := uint16(0)
	if qos > 0 {
		r.pid[id]++
		pid = r.pid[id]
	}
	payload := r.payload(id)
	if r.b.SendPacket(c, broker.PublishPk(topic, payload, qos, retain, pid)) != nil {
		return
	}
	r.observe(sx.L{sx.N(3), sx.S(id), sx.S(topic), sx.B(payload), sx.N(uint64(qos)), sx.Bool(retain), sx.N(uint64(pid))})
}

func (r *auRun) subscribe(id string, subs ...packets.Subscription) {
	c := r.conns[id]
	r.pid[id]++
	pid := r.pid[id]
	if r.b.SendPacket(c, broker.SubscribePk(pid, subs...)) != nil {
		return
	}
	fs := sx.L{}
	for _, s := range subs {
		fs = append(fs, sx.L{sx.S(s.Filter), sx.N(uint64(s.Qos))})
	}
	r.observe(sx.L{sx.N(4), sx.S(id), sx.N(uint64(pid)), fs})
}

func (r *auRun) inline(topic string, retain bool) {
	r.seq++
	payload := []byte{255, r.seq}
	r.b.Do(func() { _ = r.b.Srv.Publish(topic, payload, retain, 0) })
	r.observe(sx.L{sx.N(5), sx.S(topic), sx.B(payload), sx.Bool(retain)})
}

func (r *auRun) tick() {
	r.b.Tick("will", time.Now().Unix()+100000)
	r.observe(sx.L{sx.N(6)})
}

var (
	auClients    = []string{"p0", "p1", "s0", "s1"}
	auTopics     = []string{"a/x", "a/y", "b/x", "d/x", "a/x", "b/x"}
	auAllTopics  = []string{"a/x", "a/y", "b/x", "d/x", "$SYS/w"}
	auFilters    = []string{"a/#", "a/+", "b/x", "#", "d/#", "+/x", "d/x", "a/x"}
	auBadFilters = []string{"a/b#", "a+", "", "a/#/x", "$share//a", "$share/g/", "+a/x", "a/x+", "#/a"}
)

func auNewRun(rng *rand.Rand, obscure bool, density int) (*auRun, sx.V, func()) {
	tbl := map[auACLKey]bool{}
	aclsx := sx.L{}
	strs := append(append([]string{}, auAllTopics...), auFilters...)
	strs = append(strs, auBadFilters...)
	seen := map[string]bool{}
	for _, c := range auClients {
		for _, t := range strs {
			if seen[c+"\x00"+t] {
				continue
			}
			seen[c+"\x00"+t] = true
			for _, w := range []bool{false, true} {
				if rng.Intn(10) < density {
					tbl[auACLKey{c, t, w}] = true
					aclsx = append(aclsx, sx.L{sx.S(c), sx.S(t), sx.Bool(w)})
				}
			}
		}
	}
	acl := func(cl *mqtt.Client, topic string, write bool) bool { return tbl[auACLKey{cl.ID, topic, write}] }
	caps := mqtt.NewDefaultServerCapabilities()
	caps.Compatibilities.ObscureNotAuthorized = obscure
	b := broker.New(broker.Opts{Caps: caps, InlineClient: true, Auth: broker.AllowAuth, ACL: acl})
	r := &auRun{b: b, clients: auClients, conns: map[string]*broker.Conn{}, ids: map[int]string{}, closed: map[int]bool{},
		pid: map[string]uint16{}}
	csx := sx.L{}
	for _, c := range auClients {
		csx = append(csx, sx.S(c))
	}
	header := sx.L{sx.Bool(obscure), csx, aclsx}
	return r, header, func() { b.Shutdown() }
}

func auRandWill(rng *rand.Rand, r *auRun, id string, ver byte) *auWill {
	topics := []string{"a/x", "a/y", "b/x", "d/x", "$SYS/w", "a/+/#", "d/x", "a/x", "b/#"}
	w := &auWill{topic: topics[rng.Intn(len(topics))], payload: r.payload(id), qos: byte(rng.Intn(2)), retain: rng.Intn(2) == 0}
	if ver == 5 && rng.Intn(3) == 0 {
		w.delay = 5
	}
	return w
}

func engAuth(seed int64, tier string, _ []string, out *sx.Out) {
	rng := rand.New(rand.NewSource(seed))
	histories := 700
	if tier == "thorough" {
		histories = 20000
	}
	vers := []byte{3, 4, 5, 5}
	for hi := 0; hi < histories; hi++ {
		obscure := rng.Intn(4) == 0
		r, header, done := auNewRun(rng, obscure, 4+rng.Intn(5))
		ops := 20 + rng.Intn(20)
		for i := 0; i < ops; i++ {
			id := auClients[rng.Intn(len(auClients))]
			pubr := id[0] == 'p'
			if r.conns[id] == nil {
				ver := vers[rng.Intn(len(vers))]
				var w *auWill
				if pubr && rng.Intn(3) > 0 {
					w = auRandWill(rng, r, id, ver)
				}
				clean := rng.Intn(2) == 0
				if pubr && w != nil && w.delay > 0 {
					clean = rng.Intn(3) == 0
				}
				r.connect(id, ver, clean, w)
				continue
			}
			switch k := rng.Intn(20); {
			case k < 2:
				r.disconnect(id)
			case k < 5:
				if r.conns[id].Version == 5 && rng.Intn(3) == 0 {
					r.disconnectWill(id)
				} else {
					r.netClose(id)
				}
			case k < 7:
				r.tick()
			case k < 8:
				r.inline(auAllTopics[rng.Intn(len(auAllTopics))], rng.Intn(2) == 0)
			case k < 14 && !pubr:
				n := 1 + rng.Intn(2)
				subs := []packets.Subscription{}
				for j := 0; j < n; j++ {
					f := auFilters[rng.Intn(len(auFilters))]
					if rng.Intn(8) == 0 {
						f = auBadFilters[rng.Intn(len(auBadFilters))]
					}
					subs = append(subs, packets.Subscription{Filter: f, Qos: byte(rng.Intn(2))})
				}
				r.subscribe(id, subs...)
			default:
				topic := auTopics[rng.Intn(len(auTopics))]
				if rng.Intn(12) == 0 {
					topic = []string{"$SYS/w", "$SYS/w", "a/+"}[rng.Intn(3)]
				}
				qos := byte(rng.Intn(3))
				if !pubr && qos == 2 {
					qos = 1
				}
				r.publish(id, topic, qos, rng.Intn(2) == 0)
			}
		}
		r.tick()
		// late subscribers: whoever is offline comes back (retained replay / resend against read permission)
		for _, id := range []string{"s0", "s1"} {
			if r.conns[id] == nil {
				r.connect(id, vers[rng.Intn(len(vers))], false, nil)
			}
			if r.conns[id] != nil {
				r.subscribe(id, packets.Subscription{Filter: "#", Qos: 1})
			}
			if r.conns[id] != nil {
				r.subscribe(id, packets.Subscription{Filter: "a/#", Qos: 0}, packets.Subscription{Filter: "d/x", Qos: 1})
			}
		}
		if r.b.Hung {
			out.Comment("hung")
			r.steps = append(r.steps, sx.L{sx.L{sx.N(99)}}) // a hang is an observation: the case becomes unparsable (code 9)
		}
		out.Case(append(header.(sx.L), r.steps))
		done()
	}
}

// C30 (server-level clause): a SUBSCRIBE with an invalid filter is answered 0x8F (0x80 for MQTT 3)
// and creates nothing: no index entry, no client subscription, no delivery.
func engSubInvalid(seed int64, tier string, _ []string, out *sx.Out) {
	rng := rand.New(rand.NewSource(seed))
	histories := 300
	if tier == "thorough" {
		histories = 8000
	}
	bad := append([]string{}, auBadFilters...)
	bad = append(bad, "a/x#", "a/#x", "a/+x/y", "$share/g", "$share/+/a", "$share/g#/a", "a//#/", "##", "+/+#")
	vers := []byte{3, 4, 5}
	for hi := 0; hi < histories; hi++ {
		r, header, done := auNewRun(rng, rng.Intn(4) == 0, 8+rng.Intn(3))
		ver := vers[hi%3]
		r.connect("s0", ver, hi%2 == 0, nil)
		r.connect("p0", 4, true, nil)
		if r.conns["s0"] == nil || r.conns["p0"] == nil {
			done()
			continue
		}
		// a retained message that a filter "like" the invalid one would match
		r.publish("p0", "a/x", 1, true)
		for i := 0; i < 6; i++ {
			if r.conns["s0"] == nil {
				break
			}
			n := 1 + rng.Intn(3)
			subs := []packets.Subscription{}
			for j := 0; j < n; j++ {
				f := bad[rng.Intn(len(bad))]
				if hi < len(bad)*3 && i == 0 && j == 0 {
					f = bad[hi/3] // every invalid filter with every version
				}
				if rng.Intn(4) == 0 {
					f = auFilters[rng.Intn(len(auFilters))]
				}
				subs = append(subs, packets.Subscription{Filter: f, Qos: byte(rng.Intn(2))})
			}
			r.subscribe("s0", subs...)
			if r.conns["p0"] != nil {
				r.publish("p0", auTopics[rng.Intn(len(auTopics))], byte(rng.Intn(2)), rng.Intn(3) == 0)
			}
		}
		out.Case(append(header.(sx.L), r.steps))
		done()
	}
}
