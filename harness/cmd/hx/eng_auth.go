package main

import (
	"math/rand"
	"sort"
	"time"

	mqtt "github.com/mochi-mqtt/server/v2"
	"github.com/mochi-mqtt/server/v2/packets"

	"verifharness/broker"
	"verifharness/sx"
)

func init() {
	engines["auth"] = engAuth
	engines["subinvalid"] = engSubInvalid
}

// C17: authorisation on every route.  A random permission relation (client id x topic-or-filter x
// read/write, an explicit table) is installed through Opts.ACL; 4 clients run histories of connects
// (v3/v4/v5, clean or persistent, wills on allowed / denied / $SYS / wildcard topics, delayed wills),
// DISCONNECTs, network drops, takeovers of a live connection, session expiry, publishes (QoS 0-2 with
// explicit PUBREL and retransmissions, retain, topic aliases incl. re-binding and alias-only packets),
// subscribes (allowed / denied / invalid filters, wildcards covering denied topics, No-Local, shared
// subscriptions whose members have different read permissions), inline publishes and will ticks.  The first payload byte
// names the sender, so the Coq monitors can judge every delivery and every retained message against
// the table.  Per step: operation, what each connection received, retained store, topic index,
// client subscription maps.

type auACLKey struct {
	cl, topic string
	write     bool
}

type auRun struct {
	b       *broker.B
	clients []string
	conns   map[string]*broker.Conn
	ids     map[int]string
	closed  map[int]bool
	pid     map[string]uint16
	pend    map[string][]uint16 // QoS 2 publishes of the client that got a PUBREC and no PUBREL yet (harness view)
	lastQ2  map[string]string   // topic of the last pending QoS 2 publish (for retransmission)
	seq     byte
	steps   sx.L
}

func (r *auRun) idx(id string) byte {
	for i, c := range r.clients {
		if c == id {
			return byte(i)
		}
	}
	return 254
}

func (r *auRun) payload(id string) []byte {
	r.seq++
	return []byte{r.idx(id), r.seq}
}

// observe records the step and then (outside the step) acknowledges what needs acknowledging.
func (r *auRun) observe(op sx.V) {
	evs := sx.L{}
	type ackJob struct {
		c  *broker.Conn
		pk packets.Packet
	}
	var acks []ackJob
	for _, o := range r.b.Drain() {
		id := r.ids[o.Conn]
		for _, p := range o.Packets {
			switch p.FixedHeader.Type {
			case packets.Connack:
				evs = append(evs, sx.L{sx.S(id), sx.L{sx.N(0), sx.Bool(p.ReasonCode == 0), sx.Bool(p.SessionPresent)}})
			case packets.Publish:
				evs = append(evs, sx.L{sx.S(id), sx.L{sx.N(1), sx.S(p.TopicName), sx.B(p.Payload)}})
				if p.FixedHeader.Qos == 1 {
					acks = append(acks, ackJob{r.b.Conns[o.Conn], broker.AckPk(packets.Puback, p.PacketID, 0)})
				} else if p.FixedHeader.Qos == 2 {
					acks = append(acks, ackJob{r.b.Conns[o.Conn], broker.AckPk(packets.Pubrec, p.PacketID, 0)})
				}
			case packets.Puback:
				evs = append(evs, sx.L{sx.S(id), sx.L{sx.N(2), sx.N(4), sx.N(uint64(p.PacketID)), sx.N(uint64(p.ReasonCode))}})
			case packets.Pubrec:
				evs = append(evs, sx.L{sx.S(id), sx.L{sx.N(2), sx.N(5), sx.N(uint64(p.PacketID)), sx.N(uint64(p.ReasonCode))}})
			case packets.Pubcomp:
				evs = append(evs, sx.L{sx.S(id), sx.L{sx.N(2), sx.N(7), sx.N(uint64(p.PacketID)), sx.N(uint64(p.ReasonCode))}})
			case packets.Pubrel:
				acks = append(acks, ackJob{r.b.Conns[o.Conn], broker.AckPk(packets.Pubcomp, p.PacketID, 0)})
			case packets.Suback:
				evs = append(evs, sx.L{sx.S(id), sx.L{sx.N(3), sx.N(uint64(p.PacketID)), sx.B(p.ReasonCodes)}})
			}
		}
		if (o.Closed || o.Done) && !r.closed[o.Conn] {
			r.closed[o.Conn] = true
			evs = append(evs, sx.L{sx.S(id), sx.L{sx.N(4)}})
			if r.conns[id] != nil && r.conns[id].Idx == o.Conn {
				delete(r.conns, id)
			}
		}
	}
	snap := r.b.Srv.VerifLifeSnapshot()
	ret := sx.L{}
	rs := snap.Retained
	sort.Slice(rs, func(i, j int) bool { return rs[i].Topic < rs[j].Topic })
	for _, m := range rs {
		ret = append(ret, sx.L{sx.S(m.Topic), sx.B(m.Payload)})
	}
	subs := sx.L{}
	for _, s := range snap.Index {
		subs = append(subs, sx.L{sx.S(s.Client), sx.S(s.Filter)})
	}
	clsubs := sx.L{}
	for _, c := range snap.Clients {
		for _, f := range c.Subs {
			clsubs = append(clsubs, sx.L{sx.S(c.ID), sx.S(f)})
		}
	}
	r.steps = append(r.steps, sx.L{op, evs, ret, subs, clsubs})
	// hidden follow-ups: acknowledge deliveries, complete QoS 2 exchanges
	for len(acks) > 0 {
		var next []ackJob
		for _, a := range acks {
			if a.c.MC.Closed() || a.c.Done() {
				continue
			}
			_ = r.b.SendPacket(a.c, a.pk)
		}
		for _, o := range r.b.Drain() {
			for _, p := range o.Packets {
				if p.FixedHeader.Type == packets.Pubrel {
					next = append(next, ackJob{r.b.Conns[o.Conn], broker.AckPk(packets.Pubcomp, p.PacketID, 0)})
				}
			}
			if (o.Closed || o.Done) && !r.closed[o.Conn] {
				// a connection closed during the follow-up is reported with the next step
				r.closed[o.Conn] = true
				id := r.ids[o.Conn]
				if r.conns[id] != nil && r.conns[id].Idx == o.Conn {
					delete(r.conns, id)
				}
				r.steps = append(r.steps, sx.L{sx.L{sx.N(9)}, sx.L{}, sx.L{}, sx.L{}, sx.L{}}) // unparsable: flags the history
			}
		}
		acks = next
	}
}

type auWill struct {
	topic   string
	payload []byte
	qos     byte
	retain  bool
	delay   uint32
}

func (r *auRun) connect(id string, ver byte, clean bool, w *auWill) {
	cp := broker.ConnectPk(id, ver, clean)
	if ver == 5 && !clean {
		cp.Properties.SessionExpiryInterval = 300
		cp.Properties.SessionExpiryIntervalFlag = true
	}
	wsx := sx.V(sx.L{})
	if w != nil {
		cp.Connect.WillFlag = true
		cp.Connect.WillTopic = w.topic
		cp.Connect.WillPayload = w.payload
		cp.Connect.WillQos = w.qos
		cp.Connect.WillRetain = w.retain
		cp.Connect.WillProperties.WillDelayInterval = w.delay
		wsx = sx.L{sx.S(w.topic), sx.B(w.payload), sx.N(uint64(w.qos)), sx.Bool(w.retain), sx.Bool(w.delay > 0)}
	}
	c := r.b.Connect("10.0.0.1:1", cp)
	r.conns[id] = c
	r.ids[c.Idx] = id
	r.observe(sx.L{sx.N(0), sx.S(id), sx.N(uint64(ver)), sx.Bool(clean), wsx})
}

func (r *auRun) disconnect(id string) {
	c := r.conns[id]
	if r.b.SendPacket(c, broker.DisconnectPk(0)) != nil {
		return
	}
	r.observe(sx.L{sx.N(1), sx.S(id)})
}

// disconnectWill sends an MQTT 5 DISCONNECT with reason 0x04 (disconnect with will message).
func (r *auRun) disconnectWill(id string) {
	c := r.conns[id]
	if r.b.SendPacket(c, broker.DisconnectPk(0x04)) != nil {
		return
	}
	r.observe(sx.L{sx.N(7), sx.S(id)})
}

func (r *auRun) netClose(id string) {
	r.b.NetClose(r.conns[id])
	r.observe(sx.L{sx.N(2), sx.S(id)})
}

func (r *auRun) nextPid(id string) uint16 {
	if r.pid[id] == 0 {
		r.pid[id] = 1000 // the client's own identifiers stay clear of those the broker allocates towards it
	}
	r.pid[id]++
	return r.pid[id]
}

// publish sends a PUBLISH; alias > 0 adds the Topic Alias property (topic "" = alias-only packet);
// usePid != 0 retransmits with that identifier.
func (r *auRun) publish(id, topic string, qos byte, retain bool, alias uint16, usePid uint16) {
	c := r.conns[id]
	pid := uint16(0)
	if qos > 0 {
		pid = usePid
		if pid == 0 {
			pid = r.nextPid(id)
		}
	}
	payload := r.payload(id)
	pk := broker.PublishPk(topic, payload, qos, retain, pid)
	if alias > 0 {
		pk.Properties.TopicAlias = alias
		pk.Properties.TopicAliasFlag = true
	}
	if usePid != 0 {
		pk.FixedHeader.Dup = true
	}
	if r.b.SendPacket(c, pk) != nil {
		return
	}
	n := len(r.steps)
	r.observe(sx.L{sx.N(3), sx.S(id), sx.S(topic), sx.B(payload), sx.N(uint64(qos)), sx.Bool(retain), sx.N(uint64(pid)), sx.N(uint64(alias))})
	if qos == 2 && usePid == 0 && len(r.steps) > n && r.conns[id] == c {
		r.pend[id] = append(r.pend[id], pid)
		r.lastQ2[id] = topic
	}
}

func (r *auRun) pubrel(id string, pid uint16) {
	c := r.conns[id]
	if r.b.SendPacket(c, broker.AckPk(packets.Pubrel, pid, 0)) != nil {
		return
	}
	r.observe(sx.L{sx.N(8), sx.S(id), sx.N(uint64(pid))})
	keep := r.pend[id][:0]
	for _, p := range r.pend[id] {
		if p != pid {
			keep = append(keep, p)
		}
	}
	r.pend[id] = keep
}

func (r *auRun) expire() {
	r.b.Tick("clients", time.Now().Unix()+(1<<33))
	r.observe(sx.L{sx.N(9)})
}

func (r *auRun) subscribe(id string, subs ...packets.Subscription) {
	c := r.conns[id]
	pid := r.nextPid(id)
	if r.b.SendPacket(c, broker.SubscribePk(pid, subs...)) != nil {
		return
	}
	fs := sx.L{}
	for _, s := range subs {
		fs = append(fs, sx.L{sx.S(s.Filter), sx.N(uint64(s.Qos)), sx.Bool(s.NoLocal)})
	}
	r.observe(sx.L{sx.N(4), sx.S(id), sx.N(uint64(pid)), fs})
}

func (r *auRun) inline(topic string, retain bool) {
	r.seq++
	payload := []byte{255, r.seq}
	r.b.Do(func() { _ = r.b.Srv.Publish(topic, payload, retain, 0) })
	r.observe(sx.L{sx.N(5), sx.S(topic), sx.B(payload), sx.Bool(retain)})
}

func (r *auRun) tick() {
	r.b.Tick("will", time.Now().Unix()+100000)
	r.observe(sx.L{sx.N(6)})
}

var (
	auClients    = []string{"p0", "p1", "s0", "s1", "g0", "g1"}
	auShared     = []string{"$share/g/b/x", "$share/g/b/#", "$share/h/b/x", "$share/g/d/#"}
	auTopics     = []string{"a/x", "a/y", "b/x", "d/x", "a/x", "b/x"}
	auAllTopics  = []string{"a/x", "a/y", "b/x", "d/x", "$SYS/w"}
	auFilters    = []string{"a/#", "a/+", "b/x", "#", "d/#", "+/x", "d/x", "a/x"}
	auBadFilters = []string{"a/b#", "a+", "", "a/#/x", "$share//a", "$share/g/", "+a/x", "a/x+", "#/a"}
)

func auNewRun(rng *rand.Rand, obscure bool, density int) (*auRun, sx.V, func()) {
	tbl := map[auACLKey]bool{}
	aclsx := sx.L{}
	strs := append(append([]string{}, auAllTopics...), auFilters...)
	strs = append(strs, auBadFilters...)
	strs = append(strs, auShared...)
	seen := map[string]bool{}
	for _, c := range auClients {
		for _, t := range strs {
			if seen[c+"\x00"+t] {
				continue
			}
			seen[c+"\x00"+t] = true
			for _, w := range []bool{false, true} {
				d := density
				if t == "" && w && d < 7 {
					d = 7 // alias-only packets are authorised against the empty topic name: let them through often
				}
				if rng.Intn(10) < d {
					tbl[auACLKey{c, t, w}] = true
					aclsx = append(aclsx, sx.L{sx.S(c), sx.S(t), sx.Bool(w)})
				}
			}
		}
	}
	acl := func(cl *mqtt.Client, topic string, write bool) bool { return tbl[auACLKey{cl.ID, topic, write}] }
	caps := mqtt.NewDefaultServerCapabilities()
	caps.Compatibilities.ObscureNotAuthorized = obscure
	b := broker.New(broker.Opts{Caps: caps, InlineClient: true, Auth: broker.AllowAuth, ACL: acl})
	r := &auRun{b: b, clients: auClients, conns: map[string]*broker.Conn{}, ids: map[int]string{}, closed: map[int]bool{},
		pid: map[string]uint16{}, pend: map[string][]uint16{}, lastQ2: map[string]string{}}
	csx := sx.L{}
	for _, c := range auClients {
		csx = append(csx, sx.S(c))
	}
	header := sx.L{sx.Bool(obscure), csx, aclsx}
	return r, header, func() { b.Shutdown() }
}

func auRandWill(rng *rand.Rand, r *auRun, id string, ver byte) *auWill {
	topics := []string{"a/x", "a/y", "d/x", "$SYS/w", "a/+/#", "d/x", "a/x", "a/#"} // not below b/: wills stay clear of the share groups
	w := &auWill{topic: topics[rng.Intn(len(topics))], payload: r.payload(id), qos: byte(rng.Intn(2)), retain: rng.Intn(2) == 0}
	if ver == 5 && rng.Intn(3) == 0 {
		w.delay = 5
	}
	return w
}

func engAuth(seed int64, tier string, _ []string, out *sx.Out) {
	rng := rand.New(rand.NewSource(seed))
	histories := 700
	if tier == "thorough" {
		histories = 20000
	}
	vers := []byte{3, 4, 5, 5}
	for hi := 0; hi < histories; hi++ {
		obscure := rng.Intn(4) == 0
		r, header, done := auNewRun(rng, obscure, 4+rng.Intn(5))
		ops := 20 + rng.Intn(20)
		newConn := func(id string) {
			ver := vers[rng.Intn(len(vers))]
			pubr := id[0] == 'p'
			var w *auWill
			if pubr && rng.Intn(3) > 0 {
				w = auRandWill(rng, r, id, ver)
			}
			clean := rng.Intn(2) == 0
			if pubr && w != nil && w.delay > 0 {
				clean = rng.Intn(3) == 0
			}
			if id[0] == 'g' {
				clean = true // share-group members never keep an offline session (the member choice stays observable)
			}
			r.connect(id, ver, clean, w)
		}
		for i := 0; i < ops; i++ {
			id := auClients[rng.Intn(len(auClients))]
			pubr := id[0] == 'p'
			grp := id[0] == 'g'
			if r.conns[id] == nil {
				newConn(id)
				continue
			}
			v5 := r.conns[id].Version == 5
			switch k := rng.Intn(24); {
			case k < 2:
				r.disconnect(id)
			case k < 4:
				if v5 && rng.Intn(3) == 0 {
					r.disconnectWill(id)
				} else {
					r.netClose(id)
				}
			case k < 6:
				newConn(id) // takeover of the live connection
			case k < 8:
				r.tick()
			case k < 9:
				r.expire()
			case k < 10:
				r.inline(auAllTopics[rng.Intn(len(auAllTopics))], rng.Intn(2) == 0)
			case k < 16 && !pubr:
				n := 1 + rng.Intn(2)
				subs := []packets.Subscription{}
				for j := 0; j < n; j++ {
					f := auFilters[rng.Intn(len(auFilters))]
					if grp && rng.Intn(3) > 0 {
						f = auShared[rng.Intn(len(auShared))]
					}
					if rng.Intn(8) == 0 {
						f = auBadFilters[rng.Intn(len(auBadFilters))]
					}
					subs = append(subs, packets.Subscription{Filter: f, Qos: byte(rng.Intn(3)), NoLocal: v5 && rng.Intn(6) == 0})
				}
				r.subscribe(id, subs...)
			case k < 18 && len(r.pend[id]) > 0:
				switch rng.Intn(4) {
				case 0: // retransmit the unreleased QoS 2 publish
					r.publish(id, r.lastQ2[id], 2, rng.Intn(2) == 0, 0, r.pend[id][len(r.pend[id])-1])
				case 1: // release an identifier the broker does not know
					r.pubrel(id, 999)
				default:
					r.pubrel(id, r.pend[id][0])
				}
			default:
				topic := auTopics[rng.Intn(len(auTopics))]
				if rng.Intn(12) == 0 {
					topic = []string{"$SYS/w", "$SYS/w", "a/+"}[rng.Intn(3)]
				}
				alias := uint16(0)
				if v5 && rng.Intn(3) == 0 {
					alias = uint16(1 + rng.Intn(2))
					if rng.Intn(2) == 0 {
						topic = "" // alias-only packet: bound earlier (to an allowed topic) or never
					} else if rng.Intn(2) == 0 {
						topic = "d/x" // try to (re)bind the alias to a topic that is often denied
					}
				}
				r.publish(id, topic, byte(rng.Intn(3)), rng.Intn(2) == 0, alias, 0)
			}
		}
		r.tick()
		// late subscribers: whoever is offline comes back (retained replay / resend against read permission)
		for _, id := range []string{"s0", "s1"} {
			if r.conns[id] == nil {
				r.connect(id, vers[rng.Intn(len(vers))], false, nil)
			}
			if r.conns[id] != nil {
				r.subscribe(id, packets.Subscription{Filter: "#", Qos: 2})
			}
			if r.conns[id] != nil {
				r.subscribe(id, packets.Subscription{Filter: "a/#", Qos: 0}, packets.Subscription{Filter: "d/x", Qos: 1})
			}
		}
		if r.b.Hung {
			out.Comment("hung")
			r.steps = append(r.steps, sx.L{sx.L{sx.N(99)}}) // a hang is an observation: the case becomes unparsable (code 9)
		}
		out.Case(append(header.(sx.L), r.steps))
		done()
	}
}

// C30 (server-level clause): a SUBSCRIBE with an invalid filter is answered 0x8F (0x80 for MQTT 3)
// and creates nothing: no index entry, no client subscription, no delivery.
func engSubInvalid(seed int64, tier string, _ []string, out *sx.Out) {
	rng := rand.New(rand.NewSource(seed))
	histories := 300
	if tier == "thorough" {
		histories = 8000
	}
	bad := append([]string{}, auBadFilters...)
	bad = append(bad, "a/x#", "a/#x", "a/+x/y", "$share/g", "$share/+/a", "$share/g#/a", "a//#/", "##", "+/+#")
	vers := []byte{3, 4, 5}
	for hi := 0; hi < histories; hi++ {
		r, header, done := auNewRun(rng, rng.Intn(4) == 0, 8+rng.Intn(3))
		ver := vers[hi%3]
		r.connect("s0", ver, hi%2 == 0, nil)
		r.connect("p0", 4, true, nil)
		if r.conns["s0"] == nil || r.conns["p0"] == nil {
			done()
			continue
		}
		// a retained message that a filter "like" the invalid one would match
		r.publish("p0", "a/x", 1, true, 0, 0)
		for i := 0; i < 6; i++ {
			if r.conns["s0"] == nil {
				break
			}
			n := 1 + rng.Intn(3)
			subs := []packets.Subscription{}
			for j := 0; j < n; j++ {
				f := bad[rng.Intn(len(bad))]
				if hi < len(bad)*3 && i == 0 && j == 0 {
					f = bad[hi/3] // every invalid filter with every version
				}
				if rng.Intn(4) == 0 {
					f = auFilters[rng.Intn(len(auFilters))]
				}
				subs = append(subs, packets.Subscription{Filter: f, Qos: byte(rng.Intn(2))})
			}
			r.subscribe("s0", subs...)
			if r.conns["p0"] != nil {
				r.publish("p0", auTopics[rng.Intn(len(auTopics))], byte(rng.Intn(2)), rng.Intn(3) == 0, 0, 0)
			}
		}
		out.Case(append(header.(sx.L), r.steps))
		done()
	}
}
