package main

import (
	"bytes"
	"errors"
	"io"
	"math/rand"
	"net"
	"strconv"
	"time"

	mqtt "github.com/mochi-mqtt/server/v2"
	"github.com/mochi-mqtt/server/v2/packets"

	"verifharness/broker"
	"verifharness/sx"
)

func init() {
	engines["framing"] = engFraming
	engines["bytes"] = engBytes
}

// ---------- framing: ReadFixedHeader / ReadPacket of the real Client on a given stream ----------

type streamConn struct{ r *bytes.Reader }

func (c *streamConn) Read(p []byte) (int, error)         { return c.r.Read(p) }
func (c *streamConn) Write(p []byte) (int, error)        { return len(p), nil }
func (c *streamConn) Close() error                       { return nil }
func (c *streamConn) LocalAddr() net.Addr                { return &net.TCPAddr{} }
func (c *streamConn) RemoteAddr() net.Addr               { return &net.TCPAddr{} }
func (c *streamConn) SetDeadline(t time.Time) error      { return nil }
func (c *streamConn) SetReadDeadline(t time.Time) error  { return nil }
func (c *streamConn) SetWriteDeadline(t time.Time) error { return nil }

func framingCase(maxsize uint32, stream []byte) sx.V {
	caps := mqtt.NewDefaultServerCapabilities()
	caps.MaximumPacketSize = maxsize
	b := broker.New(broker.Opts{Caps: caps, Auth: broker.AllowAuth, ACL: broker.AllowACL})
	cl := b.Srv.NewClient(&streamConn{r: bytes.NewReader(stream)}, "t1", "x", false)
	cl.Properties.ProtocolVersion = 5
	frames := sx.L{}
	final := 0
	for {
		fh := new(packets.FixedHeader)
		err := cl.ReadFixedHeader(fh)
		if err != nil {
			switch {
			case errors.Is(err, io.EOF), errors.Is(err, io.ErrUnexpectedEOF):
				final = 0
			case errors.Is(err, packets.ErrPacketTooLarge):
				final = 3
			case errors.Is(err, packets.ErrMalformedVariableByteInteger):
				final = 2
			default:
				final = 1
			}
			break
		}
		var perr error
		func() {
			defer func() {
				if r := recover(); r != nil {
					perr = nil // a decoder panic is C27's business; the body has been consumed
				}
			}()
			_, perr = cl.ReadPacket(fh)
		}()
		if perr != nil && (errors.Is(perr, io.EOF) || errors.Is(perr, io.ErrUnexpectedEOF)) {
			final = 0
			break
		}
		frames = append(frames, sx.L{sx.N(uint64(fh.Type)), sx.N(uint64(fh.Qos)), sx.Bool(fh.Dup), sx.Bool(fh.Retain),
			sx.N(uint64(fh.Remaining))})
	}
	cl.Stop(nil)
	return sx.L{sx.N(uint64(maxsize)), sx.B(stream), frames, sx.N(uint64(final))}
}

func validPacketBytes(rng *rand.Rand) []byte {
	var pk packets.Packet
	switch rng.Intn(6) {
	case 0:
		pk = broker.PingPk()
	case 1:
		pk = broker.PublishPk("t/"+strconv.Itoa(rng.Intn(3)), bytes.Repeat([]byte{'x'}, rng.Intn(200)), byte(rng.Intn(3)), rng.Intn(2) == 0, uint16(1+rng.Intn(9)))
		if pk.FixedHeader.Qos == 0 {
			pk.PacketID = 0
		}
	case 2:
		pk = broker.SubscribePk(uint16(1+rng.Intn(9)), packets.Subscription{Filter: "a/#", Qos: 1})
	case 3:
		pk = broker.AckPk(packets.Pubrel, uint16(1+rng.Intn(9)), 0)
	case 4:
		pk = broker.UnsubscribePk(uint16(1+rng.Intn(9)), "a/#")
	default:
		pk = broker.AckPk(packets.Puback, uint16(1+rng.Intn(9)), 0)
	}
	pk.ProtocolVersion = 5
	b, _ := broker.Encode(pk)
	return b
}

func engFraming(seed int64, tier string, _ []string, out *sx.Out) {
	rng := rand.New(rand.NewSource(seed))
	// (i) every first byte, followed by a short body
	for hb := 0; hb < 256; hb++ {
		out.Case(framingCase(0, []byte{byte(hb), 2, 0, 1, 0xc0, 0}))
	}
	// (ii) sizes around the limit for every length of the length field
	for _, max := range []uint32{1, 2, 3, 4, 5, 10, 129, 130, 131, 132, 200, 16386, 16387, 16388} {
		for d := -4; d <= 4; d++ {
			n := int(max) + d
			if n < 0 || n > 20000 {
				continue
			}
			body := bytes.Repeat([]byte{0}, n)
			s := []byte{0xc0}
			s = append(s, packets.VerifEncodeLength(int64(n))...)
			s = append(s, body...)
			s = append(s, 0xc0, 0)
			out.Case(framingCase(max, s))
		}
	}
	n := 1500
	if tier == "thorough" {
		n = 60000
	}
	for i := 0; i < n; i++ {
		var s []byte
		k := 1 + rng.Intn(5)
		for j := 0; j < k; j++ {
			switch rng.Intn(8) {
			case 0: // random garbage
				g := make([]byte, 1+rng.Intn(6))
				rng.Read(g)
				s = append(s, g...)
			case 1: // non-minimal / long length encodings
				s = append(s, 0xc0)
				for m := rng.Intn(5); m > 0; m-- {
					s = append(s, 0x80)
				}
				s = append(s, 0)
			default:
				s = append(s, validPacketBytes(rng)...)
			}
		}
		if rng.Intn(3) == 0 && len(s) > 1 {
			s = s[:rng.Intn(len(s))] // truncated stream
		}
		max := uint32(0)
		if rng.Intn(2) == 0 {
			max = uint32(2 + rng.Intn(260))
		}
		out.Case(framingCase(max, s))
	}
}

// ---------- bytes: arbitrary byte streams beside a reference publisher / subscriber ----------

func engBytes(seed int64, tier string, _ []string, out *sx.Out) {
	rng := rand.New(rand.NewSource(seed))
	n := 150
	if tier == "thorough" {
		n = 5000
	}
	catalogue := [][]byte{}
	for _, byType := range packets.TPacketData {
		for _, tc := range byType {
			if len(tc.RawBytes) > 0 {
				catalogue = append(catalogue, tc.RawBytes)
			}
		}
	}
	for i := 0; i < n; i++ {
		caps := mqtt.NewDefaultServerCapabilities()
		if i%3 == 1 {
			caps.MaximumPacketSize = uint32(64 + rng.Intn(200)) // the reference clients' own packets stay below 64 bytes
		}
		b := broker.New(broker.Opts{Caps: caps, Auth: broker.AllowAuth, ACL: broker.AllowACL})
		sub := b.Connect("10.0.0.2:1", broker.ConnectPk("ref-sub", 5, true))
		pub := b.Connect("10.0.0.3:1", broker.ConnectPk("ref-pub", 4, true))
		b.SendPacket(sub, broker.SubscribePk(1, packets.Subscription{Filter: "ref/#", Qos: 0}))
		b.Drain()
		att := b.Open("10.0.0.66:6")
		att.Version = 5
		if rng.Intn(4) != 0 { // mostly: a valid CONNECT first, so that later bytes reach the packet handlers
			v := []byte{3, 4, 5}[rng.Intn(3)]
			att.Version = v
			cp := broker.ConnectPk("attacker", v, rng.Intn(2) == 0)
			if rng.Intn(2) == 0 {
				cp.Connect.WillFlag, cp.Connect.WillTopic, cp.Connect.WillPayload = true, "ref/will", []byte("w")
				cp.Connect.WillRetain = rng.Intn(2) == 0
				if v == 5 && rng.Intn(2) == 0 {
					cp.Connect.WillProperties.WillDelayInterval = uint32(1 + rng.Intn(3))
				}
			}
			if v == 5 && rng.Intn(2) == 0 {
				cp.Properties.SessionExpiryIntervalFlag = true
				cp.Properties.SessionExpiryInterval = uint32(rng.Intn(3) * 30)
			}
			b.SendPacket(att, cp)
		}
		var sent, recv, chunks sx.L
		seq := uint64(0)
		rounds := 3 + rng.Intn(6)
		for r := 0; r < rounds && !b.Hung; r++ {
			// attacker: one chunk of hostile bytes
			var chunk []byte
			kind := rng.Intn(4)
			if rng.Intn(25) == 0 {
				kind = 4 // rarely: a huge declared length (the broker allocates the whole body up front)
			}
			switch kind {
			case 0:
				chunk = make([]byte, 1+rng.Intn(40))
				rng.Read(chunk)
			case 1, 2: // mutated catalogue vector
				c := append([]byte{}, catalogue[rng.Intn(len(catalogue))]...)
				for m := rng.Intn(4); m > 0 && len(c) > 0; m-- {
					switch rng.Intn(3) {
					case 0:
						c[rng.Intn(len(c))] ^= byte(1 << uint(rng.Intn(8)))
					case 1:
						c = c[:rng.Intn(len(c)+1)]
					default:
						p := rng.Intn(len(c) + 1)
						c = append(c[:p], append([]byte{byte(rng.Intn(256))}, c[p:]...)...)
					}
				}
				chunk = c
			case 3: // valid packet (may publish into the reference topic space: counted below)
				chunk = validPacketBytes(rng)
			default: // huge declared length, few bytes
				chunk = []byte{0x30, 0xff, 0xff, 0xff, 0x7f, 0, 1}
			}
			if len(chunk) > 0 && !att.MC.Closed() && !att.Done() {
				b.Send(att, chunk)
				chunks = append(chunks, sx.B(chunk))
			}
			// reference traffic
			seq++
			b.SendPacket(pub, broker.PublishPk("ref/n", []byte(strconv.FormatUint(seq, 10)), 0, false, 0))
			sent = append(sent, sx.N(seq))
			for _, o := range b.Drain() {
				if o.Conn == sub.Idx {
					for _, q := range o.Packets {
						if q.FixedHeader.Type == packets.Publish && q.TopicName == "ref/n" {
							v, _ := strconv.ParseUint(string(q.Payload), 10, 64)
							recv = append(recv, sx.N(v))
						}
					}
				}
			}
		}
		// the session may end abruptly; then the broker's housekeeping runs over whatever the hostile
		// session left behind (delayed wills, expired sessions, in-flight and retained messages) and
		// the reference traffic must still flow afterwards
		if rng.Intn(2) == 0 && !att.MC.Closed() && !att.Done() {
			b.NetClose(att)
		}
		for _, kind := range []string{"will", "clients", "inflight", "retained", "will", "sys"} {
			b.Tick(kind, time.Now().Unix()+int64(5+rng.Intn(200)))
		}
		if !b.Hung {
			seq++
			b.SendPacket(pub, broker.PublishPk("ref/n", []byte(strconv.FormatUint(seq, 10)), 0, false, 0))
			sent = append(sent, sx.N(seq))
			for _, o := range b.Drain() {
				if o.Conn == sub.Idx {
					for _, q := range o.Packets {
						if q.FixedHeader.Type == packets.Publish && q.TopicName == "ref/n" {
							v, _ := strconv.ParseUint(string(q.Payload), 10, 64)
							recv = append(recv, sx.N(v))
						}
					}
				}
			}
		}
		// is the attacker either closed or still served?
		closed := att.MC.Closed() || att.Done()
		served := false
		if !closed && !b.Hung {
			b.Drain()
			// complete any partial packet is impossible; a connection waiting for more bytes of a
			// packet is being served (it will time out by keepalive): probe only when idle
			served = true
		}
		panics := 0
		for _, e := range b.Rec.All() {
			if e.Name == "PANIC" {
				panics++
			}
		}
		refClosed := sub.MC.Closed() || pub.MC.Closed()
		out.Case(sx.L{sx.N(uint64(panics)), sx.Bool(b.Hung), sent, recv, sx.Bool(closed), sx.Bool(served), sx.Bool(refClosed), chunks})
		b.Shutdown()
	}
}
