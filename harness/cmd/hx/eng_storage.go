package main

// hx storage (C22): the same sequence of storage hook events is fed to the real badger, pebble,
// bbolt and redis (miniredis, in-process) hooks; each hook is then read back through
// StoredClients / StoredSubscriptions / StoredInflightMessages / StoredRetainedMessages /
// StoredSysInfo.  One case = (events, canonical read-back per back end).  The Coq engine
// Storage.StoreEngine.storage_engine compares the back ends with each other and with the model.

import (
	"errors"
	"fmt"
	"io"
	"math/rand"
	"strings"

	mqtt "github.com/mochi-mqtt/server/v2"
	"github.com/mochi-mqtt/server/v2/packets"
	"github.com/mochi-mqtt/server/v2/system"

	"verifharness/sx"
)

func init() { engines["storage"] = engStorage }

// runStorageCase applies the events to a fresh store of every selected back end.
// reopenBadger: also badger is closed and opened again for the second read-back (it is by far the most
// expensive back end to open; the other three always are)
var reopenBadger = false

func runStorageCase(env *storeEnv, evs []stEvent, use [beCount]bool, out *sx.Out) {
	el := sx.L{}
	for _, e := range evs {
		el = append(el, e.enc)
	}
	obs, reopened := sx.L{}, sx.L{}
	for be := 0; be < beCount; be++ {
		if !use[be] {
			obs = append(obs, sx.L{})
			reopened = append(reopened, sx.L{})
			continue
		}
		loc := env.fresh(be)
		h, err := env.open(loc)
		if err != nil {
			panic(beNames[be] + ": " + err.Error())
		}
		for _, e := range evs {
			e.apply(h)
		}
		obs = append(obs, readBack(h))
		_ = h.Stop() // pebble reports the iterators its Stored* methods leak; irrelevant here
		// the same store closed and opened again: what has been deleted must stay deleted, what has been
		// written must still be there
		if be == beBadger && !reopenBadger {
			reopened = append(reopened, sx.L{})
			env.discard(loc)
			continue
		}
		h2, err := env.open(loc)
		if err != nil {
			panic(beNames[be] + " reopen: " + err.Error())
		}
		reopened = append(reopened, readBack(h2))
		_ = h2.Stop()
		env.discard(loc)
	}
	out.Case(sx.L{el, obs, reopened})
}

type stGen struct {
	rng  *rand.Rand
	subs [][2]string // (id, filter) written so far
	ifm  []struct {
		id  string
		pid uint16
	}
	topics []string
	ids    []string
}

func pick(rng *rand.Rand, l []string) string { return l[rng.Intn(len(l))] }

func (g *stGen) users() []packets.UserProperty {
	switch g.rng.Intn(4) {
	case 0:
		return []packets.UserProperty{{Key: "k", Val: "v"}}
	case 1:
		return []packets.UserProperty{{Key: "", Val: ""}, {Key: "ü:", Val: "<&> "}}
	}
	return nil
}

func (g *stGen) blob() []byte {
	switch g.rng.Intn(5) {
	case 0:
		return nil
	case 1:
		return []byte{}
	case 2:
		return []byte{0, 255, 128, '"', '\\'}
	case 3:
		b := make([]byte, g.rng.Intn(40))
		g.rng.Read(b)
		return b
	}
	return []byte("payload")
}

func (g *stGen) client(id string) *mqtt.Client {
	r := g.rng
	cl := &mqtt.Client{ID: id}
	cl.Net.Listener = pick(r, []string{"", "tcp1", "ws:1"})
	cl.Net.Remote = pick(r, []string{"", "127.0.0.1:5000", "[::1]:1"})
	cl.Properties.Username = g.blob()
	cl.Properties.Clean = r.Intn(2) == 0
	cl.Properties.ProtocolVersion = []byte{3, 4, 5, 5}[r.Intn(4)]
	p := &cl.Properties.Props
	p.SessionExpiryInterval = []uint32{0, 0, 1, 60, 4294967295}[r.Intn(5)]
	p.SessionExpiryIntervalFlag = r.Intn(2) == 0
	p.RequestProblemInfo = byte(r.Intn(2))
	p.RequestProblemInfoFlag = r.Intn(2) == 0
	if r.Intn(3) == 0 {
		p.AuthenticationMethod = pick(r, []string{"", "SCRAM", "ü"})
		p.AuthenticationData = g.blob()
		p.RequestResponseInfo = byte(r.Intn(2))
		p.ReceiveMaximum = uint16(r.Intn(65536))
		p.TopicAliasMaximum = uint16(r.Intn(65536))
		p.MaximumPacketSize = r.Uint32()
		p.User = g.users()
	}
	if r.Intn(3) == 0 {
		cl.Properties.Will = mqtt.Will{Payload: g.blob(), User: g.users(), TopicName: pick(r, stTopics),
			Flag: uint32(r.Intn(2)), WillDelayInterval: uint32(r.Intn(100)), Qos: byte(r.Intn(3)), Retain: r.Intn(2) == 0}
	}
	return cl
}

func (g *stGen) packet(typ byte, topic string, pid uint16) packets.Packet {
	r := g.rng
	pk := packets.Packet{
		FixedHeader: packets.FixedHeader{Type: typ, Qos: byte(r.Intn(3)), Dup: r.Intn(4) == 0, Retain: r.Intn(2) == 0, Remaining: r.Intn(300)},
		PacketID:    pid,
		TopicName:   topic,
		Payload:     g.blob(),
		Origin:      pick(r, stIDs),
		Created:     int64(r.Intn(2000000000)),
	}
	pk.ProtocolVersion = []byte{4, 5}[r.Intn(2)]
	if r.Intn(2) == 0 {
		pk.Properties.MessageExpiryInterval = uint32(1 + r.Intn(1000))
		pk.Expiry = pk.Created + int64(pk.Properties.MessageExpiryInterval)
	}
	if r.Intn(8) == 0 {
		pk.Expiry = -1
	}
	if r.Intn(2) == 0 { // the publisher used a topic alias
		pk.Properties.TopicAlias = uint16(1 + r.Intn(65535))
		pk.Properties.TopicAliasFlag = true
	}
	if r.Intn(3) == 0 {
		pk.Properties.PayloadFormat = byte(r.Intn(2))
		pk.Properties.PayloadFormatFlag = r.Intn(2) == 0
		pk.Properties.ContentType = pick(r, []string{"", "text/plain", "ü"})
		pk.Properties.ResponseTopic = pick(r, stTopics)
		pk.Properties.CorrelationData = g.blob()
		pk.Properties.User = g.users()
		if r.Intn(2) == 0 {
			pk.Properties.SubscriptionIdentifier = []int{1 + r.Intn(268435455), 7}
		}
	}
	return pk
}

func (g *stGen) pid() uint16 {
	return []uint16{0, 1, 2, 7, 10, 65535, uint16(g.rng.Intn(65536))}[g.rng.Intn(7)]
}

func (g *stGen) subscription(filter string) packets.Subscription {
	r := g.rng
	return packets.Subscription{Filter: filter, Identifier: []int{0, 0, 1, 268435455}[r.Intn(4)], RetainHandling: byte(r.Intn(3)),
		Qos: byte(r.Intn(3)), RetainAsPublished: r.Intn(2) == 0, NoLocal: r.Intn(2) == 0}
}

// event draws one event, biased towards keys that already exist and towards key collisions.
func (g *stGen) event() stEvent {
	r := g.rng
	id := pick(r, stIDs)
	if len(g.ids) > 0 && r.Intn(3) > 0 {
		id = pick(r, g.ids)
	}
	switch r.Intn(16) {
	case 0, 1:
		g.ids = append(g.ids, id)
		return evSessionEstablished(g.client(id), false)
	case 2:
		to := r.Intn(4) == 0
		cl := g.client(id)
		if to {
			cl.Stop(packets.ErrSessionTakenOver)
		}
		return evWillSent(cl, to)
	case 3, 4:
		to := r.Intn(3) == 0
		cl := g.client(id)
		if to {
			cl.Stop(packets.ErrSessionTakenOver)
		}
		return evDisconnect(cl, to, r.Intn(2) == 0)
	case 5, 6, 7:
		n := 1 + r.Intn(3)
		subs := packets.Subscriptions{}
		reasons := []byte{}
		for i := 0; i < n; i++ {
			f := pick(r, stFilters)
			subs = append(subs, g.subscription(f))
			rc := subs[i].Qos
			if r.Intn(5) == 0 {
				rc = []byte{0x80, 0x87, 0x8f, 0x91, 0x97, 0xa2}[r.Intn(6)]
			} else {
				g.subs = append(g.subs, [2]string{id, f})
			}
			reasons = append(reasons, rc)
		}
		return evSubscribed(id, subs, reasons)
	case 8:
		fs := []string{}
		for i := 0; i < 1+r.Intn(2); i++ {
			if len(g.subs) > 0 && r.Intn(4) > 0 {
				s := g.subs[r.Intn(len(g.subs))]
				id = s[0]
				fs = append(fs, s[1])
			} else {
				fs = append(fs, pick(r, stFilters))
			}
		}
		return evUnsubscribed(id, fs)
	case 9, 10:
		t := pick(r, stTopics)
		if r.Intn(4) == 0 {
			return evRetain(id, g.packet(packets.Publish, t, 0), -1)
		}
		g.topics = append(g.topics, t)
		return evRetain(id, g.packet(packets.Publish, t, 0), []int64{0, 1, 1}[r.Intn(3)])
	case 11, 12:
		pid := g.pid()
		g.ifm = append(g.ifm, struct {
			id  string
			pid uint16
		}{id, pid})
		typ := []byte{packets.Publish, packets.Publish, packets.Pubrec, packets.Pubrel}[r.Intn(4)]
		return evQosPublish(id, g.packet(typ, pick(r, stTopics), pid), int64(r.Intn(2000000000)))
	case 13:
		pid := g.pid()
		if len(g.ifm) > 0 && r.Intn(4) > 0 {
			x := g.ifm[r.Intn(len(g.ifm))]
			id, pid = x.id, x.pid
		}
		if r.Intn(2) == 0 {
			return evQosComplete(id, pid)
		}
		return evQosDropped(id, pid)
	case 14:
		if r.Intn(2) == 0 {
			t := pick(r, stTopics)
			if len(g.topics) > 0 {
				t = pick(r, g.topics)
			}
			return evRetainedExpired(t)
		}
		return evClientExpired(id)
	}
	return evSysTick(system.Info{Version: pick(r, []string{"", "2.6.5"}), Started: int64(r.Intn(1000)), Time: int64(r.Intn(1 << 40)),
		Uptime: 5, BytesReceived: r.Int63(), BytesSent: 1, ClientsConnected: 2, ClientsDisconnected: 3, ClientsMaximum: 4,
		ClientsTotal: 5, MessagesReceived: 6, MessagesSent: 7, MessagesDropped: 8, Retained: int64(r.Intn(9)), Inflight: 10,
		InflightDropped: 11, Subscriptions: 12, PacketsReceived: 13, PacketsSent: 14, MemoryAlloc: 15, Threads: 16})
}

// the small alphabet of the exhaustive stream: every pair (thorough: triple) of these is a case
func storageAlphabet() []stEvent {
	g := &stGen{rng: rand.New(rand.NewSource(7))}
	c1 := g.client("a")
	c1.Properties.Props.SessionExpiryInterval, c1.Properties.Props.SessionExpiryIntervalFlag = 60, true
	c1.Properties.ProtocolVersion = 5
	c2 := g.client("a")
	c2.Properties.Props.SessionExpiryInterval = 0
	c2.Properties.Will = mqtt.Will{TopicName: "w", Flag: 1}
	c3 := g.client("a")
	c3.Stop(packets.ErrSessionTakenOver)
	p1 := g.packet(packets.Publish, "t", 2)
	p1.Properties.TopicAlias, p1.Properties.TopicAliasFlag = 7, true
	p1.Properties.PayloadFormat, p1.Properties.PayloadFormatFlag = 1, true
	p1.Properties.MessageExpiryInterval = 30
	p1.Properties.ContentType, p1.Properties.ResponseTopic = "ct", "r/t"
	p1.Properties.CorrelationData = []byte{1, 0, 255}
	p1.Properties.SubscriptionIdentifier = []int{3, 268435455}
	p1.Properties.User = []packets.UserProperty{{Key: "k", Val: "v"}}
	p2 := g.packet(packets.Pubrec, "t", 2)
	return []stEvent{
		evSessionEstablished(c1, false),
		evWillSent(c2, false),
		evDisconnect(c2, false, false),
		evDisconnect(c2, false, true),
		evDisconnect(c3, true, true),
		evClientExpired("a"),
		evSubscribed("a", packets.Subscriptions{g.subscription("b:c")}, []byte{1}),
		evSubscribed("a:b", packets.Subscriptions{g.subscription("c")}, []byte{2}),
		evSubscribed("a", packets.Subscriptions{g.subscription("b:c")}, []byte{0x87}),
		evUnsubscribed("a:b", []string{"c"}),
		evRetain("a", p1, 1),
		evRetain("b", g.packet(packets.Publish, "t", 0), -1),
		evRetainedExpired("t"),
		evQosPublish("a:1", p1, 9),
		evQosPublish("a:1", p2, 10),
		evQosComplete("a:1", 2),
		evQosDropped("a", 12),
		evSysTick(system.Info{Version: "v", Retained: 1, Subscriptions: 2, Inflight: 3}),
	}
}

// storageDirected: hook-level histories every back end has to treat alike and as the model says.
func storageDirected() [][]stEvent {
	var hs [][]stEvent
	mk := func(sei uint32, will bool, cause error) *mqtt.Client {
		cl := &mqtt.Client{ID: "x:1"}
		cl.Net.Listener = "t"
		cl.Properties.ProtocolVersion = 5
		cl.Properties.Props.SessionExpiryInterval, cl.Properties.Props.SessionExpiryIntervalFlag = sei, true
		if will {
			cl.Properties.Will = mqtt.Will{TopicName: "w", Payload: []byte("gone"), Flag: 1}
		}
		if cause != nil {
			cl.Stop(cause)
		}
		return cl
	}
	// the old connection (session expiry 0, a will) is superseded by a new one (session expiry 3600);
	// its OnWillSent / OnDisconnect reach the hooks before or after the new OnSessionEstablished
	causes := []error{packets.ErrSessionTakenOver, fmt.Errorf("stopped: %w", packets.ErrSessionTakenOver),
		packets.ErrServerShuttingDown, io.EOF, nil}
	for _, cause := range causes {
		to := errors.Is(cause, packets.ErrSessionTakenOver)
		for _, expire := range []bool{true, false} {
			for order := 0; order < 3; order++ {
				first := evSessionEstablished(mk(0, true, nil), false)
				nw := evSessionEstablished(mk(3600, false, nil), false)
				oldWill := evWillSent(mk(0, false, cause), to)
				oldDisc := evDisconnect(mk(0, false, cause), to, expire)
				switch order {
				case 0:
					hs = append(hs, []stEvent{first, nw, oldWill, oldDisc})
				case 1:
					hs = append(hs, []stEvent{first, oldWill, oldDisc, nw})
				default:
					hs = append(hs, []stEvent{first, oldWill, nw, oldDisc})
				}
			}
		}
	}
	// OnSubscribed with reason codes around 0x80: granted QoS 0..2 is stored, everything from 0x80 on is not;
	// alone, mixed with granted filters, and over an existing stored subscription of the same filter
	g := &stGen{rng: rand.New(rand.NewSource(11))}
	for _, rc := range []byte{0x00, 0x01, 0x02, 0x7f, 0x80, 0x81, 0x83, 0x87, 0x8f, 0x91, 0x97, 0x9e, 0xa1, 0xa2, 0xff} {
		for _, id := range []string{"v3", "v:5"} {
			one := packets.Subscriptions{g.subscription("a/#/b")}
			mixed := packets.Subscriptions{g.subscription("ok/1"), g.subscription("$share/+/a"), g.subscription("ok:2")}
			hs = append(hs,
				[]stEvent{evSubscribed(id, one, []byte{rc})},
				[]stEvent{evSubscribed(id, mixed, []byte{1, rc, 2})},
				[]stEvent{evSubscribed(id, packets.Subscriptions{g.subscription("a/b")}, []byte{2}),
					evSubscribed(id, packets.Subscriptions{g.subscription("a/b")}, []byte{rc})})
		}
	}
	// one record key written several times, then deleted: nothing may be left, also after the store has
	// been closed and opened again
	{
		gm := &stGen{rng: rand.New(rand.NewSource(13))}
		pub := gm.packet(packets.Publish, "a/b", 7)
		pub.FixedHeader.Dup = false
		dup := pub
		dup.FixedHeader.Dup = true
		rel := gm.packet(packets.Pubrel, "", 7)
		other := gm.packet(packets.Publish, "a/c", 8)
		for _, end := range []stEvent{evQosComplete("q:2", 7), evQosDropped("q:2", 7)} {
			hs = append(hs,
				[]stEvent{evQosPublish("q:2", pub, 1), evQosPublish("q:2", rel, 2), end},
				[]stEvent{evQosPublish("q:2", pub, 1), evQosPublish("q:2", dup, 2), evQosPublish("q:2", rel, 3), evQosPublish("q:2", other, 3), end},
				[]stEvent{evQosPublish("q:2", pub, 1), evQosPublish("q:2", rel, 2), end, evQosPublish("q:2", other, 4)})
		}
		hs = append(hs, []stEvent{evQosPublish("q:2", pub, 1), evQosPublish("q:2", dup, 2), evQosPublish("q:2", rel, 3)})
		s1, s2 := gm.subscription("f/#"), gm.subscription("f/#")
		s2.Qos, s2.NoLocal = 2, true
		hs = append(hs,
			[]stEvent{evSubscribed("s", packets.Subscriptions{s1}, []byte{1}), evSubscribed("s", packets.Subscriptions{s2}, []byte{2}), evUnsubscribed("s", []string{"f/#"})},
			[]stEvent{evSubscribed("s", packets.Subscriptions{s1}, []byte{1}), evSubscribed("s", packets.Subscriptions{s2}, []byte{2})})
		r1, r2 := gm.packet(packets.Publish, "r/t", 0), gm.packet(packets.Publish, "r/t", 0)
		hs = append(hs,
			[]stEvent{evRetain("p", r1, 1), evRetain("p", r2, 0), evRetain("p", r1, -1)},
			[]stEvent{evRetain("p", r1, 1), evRetain("p", r2, 0), evRetainedExpired("r/t")},
			[]stEvent{evRetain("p", r1, 1), evRetain("p", r2, 0)})
		c1, c2 := gm.client("c:9"), gm.client("c:9")
		hs = append(hs,
			[]stEvent{evSessionEstablished(c1, false), evSessionEstablished(c2, false), evClientExpired("c:9")},
			[]stEvent{evSessionEstablished(c1, false), evSessionEstablished(c2, false), evDisconnect(c2, false, true)},
			[]stEvent{evSessionEstablished(c1, false), evWillSent(c2, false), evDisconnect(c1, false, false)})
	}
	// several records per type, keys sorting so that records with many non-default fields and bare
	// records alternate: every Stored* method has to decode each record on its own
	{
		gg := &stGen{rng: rand.New(rand.NewSource(12))}
		fullCl := func(id string) *mqtt.Client {
			cl := &mqtt.Client{ID: id}
			cl.Net.Listener, cl.Net.Remote = "ws:1", "[::1]:1"
			cl.Properties.Username = []byte("u:" + id)
			cl.Properties.Clean, cl.Properties.ProtocolVersion = true, 5
			p := &cl.Properties.Props
			p.SessionExpiryInterval, p.SessionExpiryIntervalFlag = 77, true
			p.RequestProblemInfo, p.RequestProblemInfoFlag, p.RequestResponseInfo = 1, true, 1
			p.AuthenticationMethod, p.AuthenticationData = "SCRAM", []byte{1, 2}
			p.ReceiveMaximum, p.TopicAliasMaximum, p.MaximumPacketSize = 5, 6, 7
			p.User = []packets.UserProperty{{Key: "k", Val: "v"}}
			cl.Properties.Will = mqtt.Will{Payload: []byte("w"), User: p.User, TopicName: "w/t", Flag: 1, WillDelayInterval: 3, Qos: 2, Retain: true}
			return cl
		}
		bareCl := func(id string) *mqtt.Client { return &mqtt.Client{ID: id} }
		fullPk := func(topic string, pid uint16) packets.Packet {
			pk := gg.packet(packets.Publish, topic, pid)
			pk.FixedHeader = packets.FixedHeader{Type: packets.Publish, Qos: 2, Dup: true, Retain: true, Remaining: 44}
			pk.Origin, pk.Created = "o:1", 1000
			pk.Properties = packets.Properties{PayloadFormat: 1, PayloadFormatFlag: true, MessageExpiryInterval: 60, ContentType: "ct",
				ResponseTopic: "r/t", CorrelationData: []byte{9}, SubscriptionIdentifier: []int{4, 5}, User: []packets.UserProperty{{Key: "a", Val: "b"}},
				TopicAlias: 3, TopicAliasFlag: true}
			pk.Payload = []byte("full")
			return pk
		}
		barePk := func(topic string, pid uint16) packets.Packet {
			return packets.Packet{FixedHeader: packets.FixedHeader{Type: packets.Publish}, TopicName: topic, PacketID: pid}
		}
		fullSub := packets.Subscription{Identifier: 9, RetainHandling: 2, Qos: 2, RetainAsPublished: true, NoLocal: true}
		bareSub := packets.Subscription{}
		sub := func(s packets.Subscription, f string) packets.Subscriptions { s.Filter = f; return packets.Subscriptions{s} }
		hs = append(hs, []stEvent{
			evSessionEstablished(bareCl("c0"), false), evSessionEstablished(fullCl("c1"), false),
			evSessionEstablished(bareCl("c2"), false), evSessionEstablished(fullCl("c3"), false),
			evSubscribed("c0", sub(bareSub, "f"), []byte{0}), evSubscribed("c1", sub(fullSub, "f"), []byte{2}),
			evSubscribed("c2", sub(bareSub, "f"), []byte{0}), evSubscribed("c3", sub(fullSub, "f"), []byte{1}),
			evQosPublish("c0", barePk("t", 1), 0), evQosPublish("c1", fullPk("t", 1), 99),
			evQosPublish("c2", barePk("t", 1), 0), evQosPublish("c3", fullPk("t", 2), 98),
			evRetain("c0", barePk("r/0", 0), 1), evRetain("c1", fullPk("r/1", 0), 1),
			evRetain("c0", barePk("r/2", 0), 1), evRetain("c1", fullPk("r/3", 0), 1),
		})
	}
	return hs
}

func engStorage(seed int64, tier string, _ []string, out *sx.Out) {
	env := newStoreEnv()
	defer env.close()
	rng := rand.New(rand.NewSource(seed))
	quick := [beCount]bool{false, false, true, true}
	all := [beCount]bool{true, true, true, true}
	noBadger := [beCount]bool{false, true, true, true}
	thorough := tier == "thorough"
	sel := func(i int) [beCount]bool {
		if !thorough {
			if i%16 == 0 {
				return all
			}
			return quick
		}
		if i%4 == 0 {
			return all
		}
		return noBadger
	}

	// (i) exhaustive: every sequence of length <= 2 (thorough 3) over the small alphabet
	alpha := storageAlphabet()
	n := 0
	runStorageCase(env, nil, all, out)
	for _, a := range alpha {
		runStorageCase(env, []stEvent{a}, all, out)
		for _, b := range alpha {
			runStorageCase(env, []stEvent{a, b}, sel(n), out)
			n++
			if thorough {
				for _, c := range alpha {
					runStorageCase(env, []stEvent{a, b, c}, sel(n), out)
					n++
				}
			}
		}
	}

	// (ii) structured random histories biased to existing keys and to colliding keys
	hist := 150
	if thorough {
		hist = 1500
	}
	for i := 0; i < hist; i++ {
		g := &stGen{rng: rng}
		evs := []stEvent{}
		for j := 0; j < 3+rng.Intn(25); j++ {
			evs = append(evs, g.event())
		}
		runStorageCase(env, evs, sel(i), out)
	}

	// (iv) directed, on all four back ends: a take-over seen by the hooks in both orders, and refused
	// filters at the boundary reason codes
	for _, evs := range storageDirected() {
		// deletions are what a reopened store can get wrong
		reopenBadger = false
		for _, e := range evs {
			if l, ok := e.enc.(sx.L); ok {
				if k, ok := l[0].(sx.N); ok && (k == 2 || k == 4 || k == 7 || k == 8 || k == 10 || k == 11) {
					reopenBadger = true
				}
			}
		}
		runStorageCase(env, evs, all, out)
	}
	reopenBadger = false

	// (iii) extreme operands: keys around the engines' key-size limits (bbolt 32768, badger 65000),
	// the longest MQTT string, identifiers made of the key syntax itself
	g := &stGen{rng: rng}
	for _, l := range []int{32765, 32766, 64997, 64998, 65535} {
		id := strings.Repeat("k", l)
		runStorageCase(env, []stEvent{evSessionEstablished(g.client(id), false), evSessionEstablished(g.client("a"), false)}, all, out)
	}
	for _, l := range []int{32764, 32765, 64996, 64997} {
		t := strings.Repeat("t", l)
		runStorageCase(env, []stEvent{evRetain("a", g.packet(packets.Publish, t, 0), 1), evRetain("a", g.packet(packets.Publish, "t", 0), 1)}, all, out)
		id := strings.Repeat("i", l-1000)
		f := strings.Repeat("f", 1000-1)
		runStorageCase(env, []stEvent{evSubscribed(id, packets.Subscriptions{g.subscription(f)}, []byte{0}),
			evQosPublish(id+"ff", g.packet(packets.Publish, "t", 65535), 1)}, all, out)
	}
	for _, id := range []string{"CL_", "SYS", "mochi-CL", "SUB_a:b", "a:b:c:d", "\u0000", "x y", "\U0001F600"} {
		runStorageCase(env, []stEvent{evSessionEstablished(g.client(id), false),
			evSubscribed(id, packets.Subscriptions{g.subscription(id)}, []byte{1}),
			evQosPublish(id, g.packet(packets.Publish, id, 1), 3),
			evRetain(id, g.packet(packets.Publish, id, 0), 1),
			evSysTick(system.Info{Version: id})}, all, out)
	}
}
