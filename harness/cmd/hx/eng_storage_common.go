package main

// Shared by the storage engines (C20, C21, C22): opening the four real storage hooks in-process,
// canonical s-expression encodings of what the hooks are called with and of what they return, and
// the adversarial operand pools.

import (
	"fmt"
	"io"
	"log/slog"
	"os"
	"path/filepath"
	"sort"

	miniredis "github.com/alicebob/miniredis/v2"
	rv8 "github.com/go-redis/redis/v8"
	mqtt "github.com/mochi-mqtt/server/v2"
	"github.com/mochi-mqtt/server/v2/hooks/storage"
	"github.com/mochi-mqtt/server/v2/hooks/storage/badger"
	"github.com/mochi-mqtt/server/v2/hooks/storage/bolt"
	"github.com/mochi-mqtt/server/v2/hooks/storage/pebble"
	"github.com/mochi-mqtt/server/v2/hooks/storage/redis"
	"github.com/mochi-mqtt/server/v2/packets"
	"github.com/mochi-mqtt/server/v2/system"
	"go.etcd.io/bbolt"

	"verifharness/sx"
)

var stLogger = slog.New(slog.NewTextHandler(io.Discard, nil))

// back ends in the order the Coq engines expect
const (
	beBadger = iota
	bePebble
	beBolt
	beRedis
	beCount
)

var beNames = [beCount]string{"badger", "pebble", "bolt", "redis"}

// storeEnv owns the per-run scratch directory and the in-process redis server.
type storeEnv struct {
	root string
	mr   *miniredis.Miniredis
	seq  int
}

func newStoreEnv() *storeEnv {
	root, err := os.MkdirTemp(".", "hx-store-")
	if err != nil {
		panic(err)
	}
	return &storeEnv{root: root}
}

func (e *storeEnv) close() {
	if e.mr != nil {
		e.mr.Close()
	}
	os.RemoveAll(e.root)
}

// storeLoc identifies one physical store (a directory / file / redis database); a hook can be
// opened on it several times in a row (restart).
type storeLoc struct {
	be   int
	path string
}

func (e *storeEnv) fresh(be int) storeLoc {
	e.seq++
	if be == beRedis {
		if e.mr == nil {
			mr, err := miniredis.Run()
			if err != nil {
				panic(err)
			}
			e.mr = mr
		}
		e.mr.FlushAll()
		return storeLoc{be: be}
	}
	return storeLoc{be: be, path: filepath.Join(e.root, fmt.Sprintf("%s-%d", beNames[be], e.seq))}
}

func (e *storeEnv) discard(l storeLoc) {
	if l.path != "" {
		os.RemoveAll(l.path)
	}
}

// open instantiates the real hook on a store location (not yet attached to a server).
func (e *storeEnv) open(l storeLoc) (mqtt.Hook, error) {
	var h mqtt.Hook
	var cfg any
	switch l.be {
	case beBadger:
		h, cfg = new(badger.Hook), &badger.Options{Path: l.path}
	case bePebble:
		h, cfg = new(pebble.Hook), &pebble.Options{Path: l.path}
	case beBolt:
		h, cfg = new(bolt.Hook), &bolt.Options{Path: l.path, Options: &bbolt.Options{NoSync: true, Timeout: 0}}
	case beRedis:
		h, cfg = new(redis.Hook), &redis.Options{Options: &rv8.Options{Addr: e.mr.Addr()}}
	}
	h.SetOpts(stLogger, nil)
	if err := h.Init(cfg); err != nil {
		return nil, err
	}
	return h, nil
}

// hookConfig returns the hook and its configuration for mqtt.Server.AddHook.
func (e *storeEnv) hookConfig(l storeLoc) (mqtt.Hook, any) {
	switch l.be {
	case beBadger:
		return new(badger.Hook), &badger.Options{Path: l.path}
	case bePebble:
		return new(pebble.Hook), &pebble.Options{Path: l.path}
	case beBolt:
		return new(bolt.Hook), &bolt.Options{Path: l.path, Options: &bbolt.Options{NoSync: true, Timeout: 0}}
	default:
		return new(redis.Hook), &redis.Options{Options: &rv8.Options{Addr: e.mr.Addr()}}
	}
}

// ---------- canonical encodings ----------

func sxUsers(u []packets.UserProperty) sx.V {
	l := sx.L{}
	for _, p := range u {
		l = append(l, sx.L{sx.S(p.Key), sx.S(p.Val)})
	}
	return l
}

func sxInts(v []int) sx.V {
	l := sx.L{}
	for _, x := range v {
		l = append(l, sx.N(uint64(int64(x))))
	}
	return l
}

func sxFixedHeader(fh packets.FixedHeader) sx.V {
	return sx.L{sx.N(fh.Type), sx.N(fh.Qos), sx.Bool(fh.Dup), sx.Bool(fh.Retain), sx.N(uint64(int64(fh.Remaining)))}
}

// a client as the hooks are called with it
func sxClient(cl *mqtt.Client) sx.V {
	p := cl.Properties.Props
	w := cl.Properties.Will
	return sx.L{sx.S(cl.ID), sx.S(cl.Net.Listener), sx.S(cl.Net.Remote), sx.B(cl.Properties.Username),
		sx.Bool(cl.Properties.Clean), sx.N(cl.Properties.ProtocolVersion),
		sx.N(p.SessionExpiryInterval), sx.Bool(p.SessionExpiryIntervalFlag),
		sx.N(p.RequestProblemInfo), sx.Bool(p.RequestProblemInfoFlag),
		sx.L{sx.S(p.AuthenticationMethod), sx.B(p.AuthenticationData), sx.N(p.RequestResponseInfo),
			sx.N(p.ReceiveMaximum), sx.N(p.TopicAliasMaximum), sxUsers(p.User), sx.N(p.MaximumPacketSize)},
		sx.L{sx.B(w.Payload), sxUsers(w.User), sx.S(w.TopicName), sx.N(w.Flag), sx.N(w.WillDelayInterval),
			sx.N(w.Qos), sx.Bool(w.Retain)}}
}

// a stored client record, same shape
func sxStoredClient(c storage.Client) sx.V {
	p := c.Properties
	w := c.Will
	return append(sx.L{sx.S(c.ID), sx.S(c.Listener), sx.S(c.Remote), sx.B(c.Username),
		sx.Bool(c.Clean), sx.N(c.ProtocolVersion),
		sx.N(p.SessionExpiryInterval), sx.Bool(p.SessionExpiryIntervalFlag),
		sx.N(p.RequestProblemInfo), sx.Bool(p.RequestProblemInfoFlag),
		sx.L{sx.S(p.AuthenticationMethod), sx.B(p.AuthenticationData), sx.N(p.RequestResponseInfo),
			sx.N(p.ReceiveMaximum), sx.N(p.TopicAliasMaximum), sxUsers(p.User), sx.N(p.MaximumPacketSize)},
		sx.L{sx.B(w.Payload), sxUsers(w.User), sx.S(w.TopicName), sx.N(w.Flag), sx.N(w.WillDelayInterval),
			sx.N(w.Qos), sx.Bool(w.Retain)}}, sx.S(c.T))
}

func sxSubscription(s packets.Subscription, reason byte) sx.V {
	return sx.L{sx.S(s.Filter), sx.N(uint64(int64(s.Identifier))), sx.N(s.RetainHandling), sx.N(s.Qos),
		sx.Bool(s.RetainAsPublished), sx.Bool(s.NoLocal), sx.N(reason)}
}

func sxStoredSub(s storage.Subscription) sx.V {
	return sx.L{sx.S(s.ID), sx.S(s.Client), sx.S(s.Filter), sx.N(uint64(int64(s.Identifier))), sx.N(s.RetainHandling),
		sx.N(s.Qos), sx.Bool(s.RetainAsPublished), sx.Bool(s.NoLocal), sx.S(s.T)}
}

func sxPubProps(ct, rt string, cd []byte, si []int, u []packets.UserProperty, alias uint16) sx.V {
	return sx.L{sx.S(ct), sx.S(rt), sx.B(cd), sxInts(si), sxUsers(u), sx.N(alias)}
}

// a packet as the hooks are called with it
func sxPacket(pk packets.Packet) sx.V {
	p := pk.Properties
	return sx.L{sxFixedHeader(pk.FixedHeader), sx.N(pk.PacketID), sx.S(pk.TopicName), sx.B(pk.Payload), sx.S(pk.Origin),
		sx.N(uint64(pk.Created)), sx.N(uint64(pk.Expiry)), sx.N(pk.ProtocolVersion),
		sx.N(p.PayloadFormat), sx.Bool(p.PayloadFormatFlag), sx.N(p.MessageExpiryInterval),
		sxPubProps(p.ContentType, p.ResponseTopic, p.CorrelationData, p.SubscriptionIdentifier, p.User, p.TopicAlias)}
}

func sxStoredMsg(m storage.Message) sx.V {
	p := m.Properties
	return sx.L{sx.S(m.ID), sx.S(m.Client), sx.S(m.Origin), sx.N(m.PacketID), sxFixedHeader(m.FixedHeader), sx.S(m.TopicName),
		sx.B(m.Payload), sx.N(uint64(m.Sent)), sx.N(uint64(m.Created)),
		sx.N(p.PayloadFormat), sx.Bool(p.PayloadFormatFlag), sx.N(p.MessageExpiryInterval),
		sxPubProps(p.ContentType, p.ResponseTopic, p.CorrelationData, p.SubscriptionIdentifier, p.User, p.TopicAlias), sx.S(m.T)}
}

func sxInfo(i system.Info) sx.V {
	u := func(v int64) sx.V { return sx.N(uint64(v)) }
	return sx.L{sx.S(i.Version), u(i.Started), u(i.Time), u(i.Uptime), u(i.BytesReceived), u(i.BytesSent),
		u(i.ClientsConnected), u(i.ClientsDisconnected), u(i.ClientsMaximum), u(i.ClientsTotal),
		u(i.MessagesReceived), u(i.MessagesSent), u(i.MessagesDropped), u(i.Retained), u(i.Inflight),
		u(i.InflightDropped), u(i.Subscriptions), u(i.PacketsReceived), u(i.PacketsSent), u(i.MemoryAlloc),
		u(i.Threads)}
}

func sortedL(l sx.L) sx.L {
	sort.Slice(l, func(i, j int) bool { return sx.String(l[i]) < sx.String(l[j]) })
	return l
}

// readBack calls the five Stored* methods of a hook and returns the canonical (sorted) answer:
// (clients subscriptions inflight retained (sysid info)).  An error from the hook is reported as an
// extra trailing element, which the Coq engines do not accept (it would be a finding).
func readBack(h mqtt.Hook) sx.V {
	var errs sx.L
	note := func(what string, err error) {
		if err != nil {
			errs = append(errs, sx.S(what+": "+err.Error()))
		}
	}
	cls, err := h.StoredClients()
	note("clients", err)
	subs, err := h.StoredSubscriptions()
	note("subscriptions", err)
	ifm, err := h.StoredInflightMessages()
	note("inflight", err)
	ret, err := h.StoredRetainedMessages()
	note("retained", err)
	sys, err := h.StoredSysInfo()
	note("sysinfo", err)
	a, b, c, d := sx.L{}, sx.L{}, sx.L{}, sx.L{}
	for _, x := range cls {
		a = append(a, sxStoredClient(x))
	}
	for _, x := range subs {
		b = append(b, sxStoredSub(x))
	}
	for _, x := range ifm {
		c = append(c, sxStoredMsg(x))
	}
	for _, x := range ret {
		d = append(d, sxStoredMsg(x))
	}
	out := sx.L{sortedL(a), sortedL(b), sortedL(c), sortedL(d), sx.L{sx.S(sys.ID), sxInfo(sys.Info), sx.S(sys.T)}}
	if len(errs) > 0 {
		out = append(out, errs)
	}
	return out
}

// ---------- storage hook events ----------

// stEvent is one call of a storage hook method; apply performs it on a real hook, enc is the
// encoding read by Storage.StoreEngine.parse_event.
type stEvent struct {
	enc   sx.V
	apply func(h mqtt.Hook)
}

func boolN(b bool) sx.N { return sx.Bool(b) }

func mkClient(id string, takenOver bool) *mqtt.Client {
	cl := &mqtt.Client{ID: id}
	if takenOver {
		cl.Stop(packets.ErrSessionTakenOver)
	}
	return cl
}

func evSessionEstablished(cl *mqtt.Client, takenOver bool) stEvent {
	return stEvent{sx.L{sx.N(0), sxClient(cl), boolN(takenOver)},
		func(h mqtt.Hook) { h.OnSessionEstablished(cl, packets.Packet{}) }}
}
func evWillSent(cl *mqtt.Client, takenOver bool) stEvent {
	return stEvent{sx.L{sx.N(1), sxClient(cl), boolN(takenOver)},
		func(h mqtt.Hook) { h.OnWillSent(cl, packets.Packet{}) }}
}
func evDisconnect(cl *mqtt.Client, takenOver, expire bool) stEvent {
	return stEvent{sx.L{sx.N(2), sxClient(cl), boolN(takenOver), boolN(expire)},
		func(h mqtt.Hook) { h.OnDisconnect(cl, nil, expire) }}
}
func evSubscribed(id string, subs []packets.Subscription, reasons []byte) stEvent {
	l := sx.L{}
	for i, s := range subs {
		l = append(l, sxSubscription(s, reasons[i]))
	}
	cl := &mqtt.Client{ID: id}
	return stEvent{sx.L{sx.N(3), sx.S(id), l},
		func(h mqtt.Hook) { h.OnSubscribed(cl, packets.Packet{Filters: subs}, reasons) }}
}
func evUnsubscribed(id string, filters []string) stEvent {
	l := sx.L{}
	subs := packets.Subscriptions{}
	for _, f := range filters {
		l = append(l, sx.S(f))
		subs = append(subs, packets.Subscription{Filter: f})
	}
	cl := &mqtt.Client{ID: id}
	return stEvent{sx.L{sx.N(4), sx.S(id), l},
		func(h mqtt.Hook) { h.OnUnsubscribed(cl, packets.Packet{Filters: subs}) }}
}
func evRetain(id string, pk packets.Packet, r int64) stEvent {
	cl := &mqtt.Client{ID: id}
	return stEvent{sx.L{sx.N(5), sx.S(id), sxPacket(pk), boolN(r == -1)},
		func(h mqtt.Hook) { h.OnRetainMessage(cl, pk, r) }}
}
func evQosPublish(id string, pk packets.Packet, sent int64) stEvent {
	cl := &mqtt.Client{ID: id}
	return stEvent{sx.L{sx.N(6), sx.S(id), sxPacket(pk), sx.N(uint64(sent))},
		func(h mqtt.Hook) { h.OnQosPublish(cl, pk, sent, 0) }}
}
func evQosComplete(id string, pid uint16) stEvent {
	cl := &mqtt.Client{ID: id}
	return stEvent{sx.L{sx.N(7), sx.S(id), sx.N(pid)},
		func(h mqtt.Hook) { h.OnQosComplete(cl, packets.Packet{PacketID: pid}) }}
}
func evQosDropped(id string, pid uint16) stEvent {
	cl := &mqtt.Client{ID: id}
	return stEvent{sx.L{sx.N(8), sx.S(id), sx.N(pid)},
		func(h mqtt.Hook) { h.OnQosDropped(cl, packets.Packet{PacketID: pid}) }}
}
func evSysTick(info system.Info) stEvent {
	return stEvent{sx.L{sx.N(9), sxInfo(info)},
		func(h mqtt.Hook) { i := info; h.OnSysInfoTick(&i) }}
}
func evRetainedExpired(topic string) stEvent {
	return stEvent{sx.L{sx.N(10), sx.S(topic)}, func(h mqtt.Hook) { h.OnRetainedExpired(topic) }}
}
func evClientExpired(id string) stEvent {
	cl := &mqtt.Client{ID: id}
	return stEvent{sx.L{sx.N(11), sx.S(id)}, func(h mqtt.Hook) { h.OnClientExpired(cl) }}
}

// ---------- adversarial operand pools ----------

// client ids, filters and topics over the separators used in the storage keys (':' '_' '/'),
// the type tags themselves, unicode and the empty string.  ("a","b:c") and ("a:b","c") share the
// subscription key "a:b:c".
var stIDs = []string{"a", "a:b", "", "a:", ":", "b", "a_b", "CL_a", "ü:é", "日本/x:1", "a/b", "_", "a:1", "SUB"}
var stFilters = []string{"c", "b:c", "", ":c", "a/+/#", "x:y:z", "日/本", "#", "$share/g:1/t", "_", "1", "+/:"}
var stTopics = []string{"t", "", "t/u", "a:b", "RET_t", "_", "ü/é", "t:1", "/", "IFM_a:1", "日本"}
