package main

import (
	"math/rand"

	mqtt "github.com/mochi-mqtt/server/v2"

	"verifharness/sx"
)

// valid: filter / publish-topic validation (C30).  One string gives three cases:
//   (0 s r) r = IsValidFilter(s, false)   (1 s r) r = IsValidFilter(s, true)   (2 s r) r = IsSharedFilter(s)
func init() { engines["valid"] = engValid }

func validCases(out *sx.Out, s string) {
	b := sx.S(s)
	out.Case(sx.L{sx.N(0), b, sx.Bool(mqtt.IsValidFilter(s, false))})
	out.Case(sx.L{sx.N(1), b, sx.Bool(mqtt.IsValidFilter(s, true))})
	out.Case(sx.L{sx.N(2), b, sx.Bool(mqtt.IsSharedFilter(s))})
}

// every concatenation of at most maxSyms symbols
func validEnum(out *sx.Out, syms []string, maxSyms int) {
	var rec func(prefix string, n int)
	rec = func(prefix string, n int) {
		validCases(out, prefix)
		if n == maxSyms {
			return
		}
		for _, a := range syms {
			rec(prefix+a, n+1)
		}
	}
	rec("", 0)
}

func engValid(seed int64, tier string, _ []string, out *sx.Out) {
	rng := rand.New(rand.NewSource(seed))
	thorough := tier == "thorough"
	// (i) exhaustive: every string of length <= 6 (thorough 8) over {/, +, #, $, a}
	n1 := 6
	if thorough {
		n1 = 8
	}
	validEnum(out, []string{"/", "+", "#", "$", "a"}, n1)
	// (ii) exhaustive over tokens: the share / system prefixes in several cases, a share name, separators
	// and wildcards; <= 5 symbols (thorough 6)
	n2 := 5
	if thorough {
		n2 = 6
	}
	validEnum(out, []string{"$share", "$SHARE", "$SYS", "$sys", "g", "/", "+", "#"}, n2)
	// the case-folding corner of strings.EqualFold: U+017F (long s), U+212A (Kelvin), mixed case,
	// near misses, invalid UTF-8 in the prefix
	words := []string{"$share", "$SHARE", "$Share", "$sHaRe", "$ſhare", "$ſHARE", "$\xc5\xbfhare", "$\xc5hare",
		"$\xbfhare", "$shar", "$sharee", "$share\xc5", "$sharē", "$Khare", "$sKare", "share", "$$share",
		"$SYS", "$sys", "$Sys", "$SyS", "$ſYS", "$SYſ", "$SY", "$SYSx", "$", "\xff", "$\xc5\xbf", "$\xc5"}
	tails := []string{"", "/", "/g", "/g/", "/g/t", "//t", "//", "/g//", "/+/t", "/#/t", "/g+/t", "/g#/t", "/g/+", "/g/#",
		"/g/t+", "/g/t#", "/g/+/#", "/ſ/t", "/x", "/info", "x", "+", "#", "/#", "/+"}
	for _, w := range words {
		for _, tl := range tails {
			validCases(out, w+tl)
			validCases(out, "a/"+w+tl)
		}
	}
	// (iii) structured, mostly valid filters of random depth with hazards injected; random byte strings
	nrand := 30000
	if thorough {
		nrand = 600000
	}
	levels := []string{"a", "b", "", "+", "#", "ab", "a+", "+a", "a#", "#a", "+#", "$x", "$SYS", "$sys", "$share", "$SHARE",
		"$ſhare", "g", "é", "a b", "++", "##"}
	for i := 0; i < nrand; i++ {
		d := 1 + rng.Intn(5)
		s := ""
		for j := 0; j < d; j++ {
			if j > 0 {
				s += "/"
			}
			k := rng.Intn(len(levels))
			if rng.Intn(3) > 0 {
				k = rng.Intn(5) // mostly plain levels
			}
			s += levels[k]
		}
		if rng.Intn(4) == 0 {
			s = words[rng.Intn(len(words))] + "/" + s
		}
		validCases(out, s)
		// malformed: random bytes from a small set including multi-byte fragments
		rb := make([]byte, rng.Intn(9))
		pool := []byte{'/', '+', '#', '$', 's', 'S', 'h', 'H', 'a', 'A', 'r', 'R', 'e', 'E', 'Y', 'y', 0xc5, 0xbf, 0xe2, 0x84, 0xaa, 0x00, 0xff, 'g'}
		for j := range rb {
			rb[j] = pool[rng.Intn(len(pool))]
		}
		validCases(out, string(rb))
	}
}
