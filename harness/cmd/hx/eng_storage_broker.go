package main

// A small in-process broker driver for the persistence engines (C20, C21): a real *mqtt.Server with
// one real storage hook (wrapped by a recording / write-limiting hook), driven over in-memory
// connections with real MQTT packets; shutdown; a second server on the same store; VerifReadStore;
// snapshots of the broker's in-memory state.

import (
	"bytes"
	"errors"
	"io"
	"net"
	"runtime"
	"sort"
	"strings"
	"sync"
	"time"

	mqtt "github.com/mochi-mqtt/server/v2"
	"github.com/mochi-mqtt/server/v2/listeners"
	"github.com/mochi-mqtt/server/v2/packets"
	"github.com/mochi-mqtt/server/v2/system"

	"verifharness/sx"
)

// ---------- in-memory connection ----------

type memAddr struct{}

func (memAddr) Network() string { return "mem" }
func (memAddr) String() string  { return "mem:1" }

type memConn struct {
	mu      sync.Mutex
	cond    *sync.Cond
	in      []byte
	out     []byte
	closed  bool
	waiting bool
	// writeErr, when set, makes every Write fail: the broker cannot answer this client any more
	writeErr error
}

func newMemConn() *memConn {
	c := &memConn{}
	c.cond = sync.NewCond(&c.mu)
	return c
}

func (c *memConn) Read(p []byte) (int, error) {
	c.mu.Lock()
	defer c.mu.Unlock()
	for len(c.in) == 0 && !c.closed {
		c.waiting = true
		c.cond.Wait()
	}
	c.waiting = false
	if c.closed || len(c.in) == 0 {
		return 0, io.EOF
	}
	n := copy(p, c.in)
	c.in = c.in[n:]
	return n, nil
}

func (c *memConn) Write(p []byte) (int, error) {
	c.mu.Lock()
	defer c.mu.Unlock()
	if c.closed {
		return 0, io.ErrClosedPipe
	}
	if c.writeErr != nil {
		return 0, c.writeErr
	}
	c.out = append(c.out, p...)
	return len(p), nil
}

func (c *memConn) Close() error {
	c.mu.Lock()
	c.closed = true
	c.waiting = false // a reader parked in Read is about to wake up: the connection is not quiescent
	c.cond.Broadcast()
	c.mu.Unlock()
	return nil
}

func (c *memConn) feed(b []byte) {
	c.mu.Lock()
	if c.closed {
		c.mu.Unlock()
		return
	}
	c.in = append(c.in, b...)
	c.waiting = false
	c.cond.Broadcast()
	c.mu.Unlock()
}

func (c *memConn) failWrites() {
	c.mu.Lock()
	c.writeErr = io.ErrShortWrite
	c.mu.Unlock()
}

func (c *memConn) parked() bool {
	c.mu.Lock()
	defer c.mu.Unlock()
	return c.waiting && len(c.in) == 0
}

func (c *memConn) LocalAddr() net.Addr                { return memAddr{} }
func (c *memConn) RemoteAddr() net.Addr               { return memAddr{} }
func (c *memConn) SetDeadline(t time.Time) error      { return nil }
func (c *memConn) SetReadDeadline(t time.Time) error  { return nil }
func (c *memConn) SetWriteDeadline(t time.Time) error { return nil }

// ---------- recording / write-limiting hook ----------

// recHook forwards to the real storage hook and records every storage event in the encoding of
// Storage.StoreEngine.parse_event.  With limit >= 0 it forwards only the first `limit` logical
// writes (one Set or Delete each, in the order the hook performs them) and drops the rest: the
// state of the store is then the one a process death after that many writes leaves behind.  A
// hook call that makes several writes is cut inside by forwarding an equivalent call for the
// writes still allowed (a shorter filter list; an OnDisconnect without expiry for the update
// without the delete).
type recHook struct {
	mqtt.Hook
	mu     sync.Mutex
	events sx.L
	limit  int
	writes int
	// index into events of the event during which the limit was reached, and how many of its
	// writes were forwarded
	cutEvent  int
	cutWrites int
	// dead: the broker process has been killed; nothing more is recorded or forwarded (what the
	// abandoned in-memory broker still does is of no consequence)
	dead bool
}

func (h *recHook) kill() {
	h.mu.Lock()
	h.dead = true
	h.mu.Unlock()
}

func newRecHook(inner mqtt.Hook, limit int) *recHook {
	return &recHook{Hook: inner, limit: limit, cutEvent: -1}
}

// allow returns how many of the n writes of the current event may be forwarded.
func (h *recHook) allow(n int) int {
	if h.limit < 0 {
		h.writes += n
		return n
	}
	left := h.limit - h.writes
	if left < 0 {
		left = 0
	}
	k := n
	if left < n {
		k = left
		if h.cutEvent < 0 {
			h.cutEvent = len(h.events) - 1
			h.cutWrites = k
		}
	}
	h.writes += n
	return k
}

// Provides: the storage events of the wrapped hook plus the two markers.
func (h *recHook) Provides(b byte) bool {
	return h.Hook.Provides(b) || b == mqtt.OnPacketSent || b == mqtt.OnPacketProcessed
}

// OnPacketSent records the acknowledgements written to clients (marker 12).
func (h *recHook) OnPacketSent(cl *mqtt.Client, pk packets.Packet, b []byte) {
	switch pk.FixedHeader.Type {
	case packets.Puback, packets.Pubrec, packets.Suback, packets.Unsuback:
		h.mu.Lock()
		if h.dead {
			h.mu.Unlock()
			return
		}
		h.events = append(h.events, sx.L{sx.N(12), sx.S(cl.ID), sx.N(pk.FixedHeader.Type), sx.N(pk.PacketID), sx.N(pk.ReasonCode)})
		h.mu.Unlock()
	}
}

// OnPacketProcessed records the end of the handling of one inbound packet (marker 13).
func (h *recHook) OnPacketProcessed(cl *mqtt.Client, pk packets.Packet, err error) {
	h.mu.Lock()
	if h.dead {
		h.mu.Unlock()
		return
	}
	h.events = append(h.events, sx.L{sx.N(13), sx.S(cl.ID)})
	h.mu.Unlock()
}

// superseded records marker 14 when the coming storage event is issued for a client object that
// has already been marked as taken over.  Call with h.mu held.
func (h *recHook) superseded(cl *mqtt.Client) {
	if cl.IsTakenOver() {
		h.events = append(h.events, sx.L{sx.N(14), sx.S(cl.ID)})
	}
}

func takenOver(cl *mqtt.Client) bool {
	return errors.Is(cl.StopCause(), packets.ErrSessionTakenOver)
}

func (h *recHook) OnSessionEstablished(cl *mqtt.Client, pk packets.Packet) {
	h.mu.Lock()
	defer h.mu.Unlock()
	if h.dead {
		return
	}
	h.superseded(cl)
	to := takenOver(cl)
	if pk.Connect.Clean { // marker 15: the session was requested with Clean Start / Clean Session 1
		h.events = append(h.events, sx.L{sx.N(15), sx.S(cl.ID)})
	}
	h.events = append(h.events, sx.L{sx.N(0), sxClient(cl), sx.Bool(to)})
	n := 1
	if to {
		n = 0
	}
	if h.allow(n) == n {
		h.Hook.OnSessionEstablished(cl, pk)
	}
}

func (h *recHook) OnWillSent(cl *mqtt.Client, pk packets.Packet) {
	h.mu.Lock()
	defer h.mu.Unlock()
	if h.dead {
		return
	}
	h.superseded(cl)
	to := takenOver(cl)
	h.events = append(h.events, sx.L{sx.N(1), sxClient(cl), sx.Bool(to)})
	n := 1
	if to {
		n = 0
	}
	if h.allow(n) == n {
		h.Hook.OnWillSent(cl, pk)
	}
}

func (h *recHook) OnDisconnect(cl *mqtt.Client, err error, expire bool) {
	h.mu.Lock()
	defer h.mu.Unlock()
	if h.dead {
		return
	}
	h.superseded(cl)
	to := takenOver(cl)
	h.events = append(h.events, sx.L{sx.N(2), sxClient(cl), sx.Bool(to), sx.Bool(expire)})
	n := 0
	if !to {
		n = 1
		if expire {
			n = 2
		}
	}
	switch k := h.allow(n); {
	case k == n:
		h.Hook.OnDisconnect(cl, err, expire)
	case k == 1: // the update, not the delete
		h.Hook.OnDisconnect(cl, err, false)
	}
}

func (h *recHook) OnSubscribed(cl *mqtt.Client, pk packets.Packet, reasonCodes []byte) {
	h.mu.Lock()
	defer h.mu.Unlock()
	if h.dead {
		return
	}
	h.superseded(cl)
	l := sx.L{}
	n := 0
	for i, s := range pk.Filters {
		l = append(l, sxSubscription(s, reasonCodes[i]))
		if reasonCodes[i] < 0x80 {
			n++
		}
	}
	h.events = append(h.events, sx.L{sx.N(3), sx.S(cl.ID), l})
	k := h.allow(n)
	if k == n {
		h.Hook.OnSubscribed(cl, pk, reasonCodes)
		return
	}
	// forward the longest prefix of the filter list that makes k writes
	cut := 0
	for i := range pk.Filters {
		if k == 0 {
			break
		}
		cut = i + 1
		if reasonCodes[i] < 0x80 {
			k--
		}
	}
	pk.Filters = pk.Filters[:cut]
	h.Hook.OnSubscribed(cl, pk, reasonCodes[:cut])
}

func (h *recHook) OnUnsubscribed(cl *mqtt.Client, pk packets.Packet) {
	h.mu.Lock()
	defer h.mu.Unlock()
	if h.dead {
		return
	}
	h.superseded(cl)
	l := sx.L{}
	for _, s := range pk.Filters {
		l = append(l, sx.S(s.Filter))
	}
	h.events = append(h.events, sx.L{sx.N(4), sx.S(cl.ID), l})
	k := h.allow(len(pk.Filters))
	pk.Filters = pk.Filters[:k]
	h.Hook.OnUnsubscribed(cl, pk)
}

func (h *recHook) OnRetainMessage(cl *mqtt.Client, pk packets.Packet, r int64) {
	h.mu.Lock()
	defer h.mu.Unlock()
	if h.dead {
		return
	}
	h.events = append(h.events, sx.L{sx.N(5), sx.S(cl.ID), sxPacket(pk), sx.Bool(r == -1)})
	if h.allow(1) == 1 {
		h.Hook.OnRetainMessage(cl, pk, r)
	}
}

func (h *recHook) OnQosPublish(cl *mqtt.Client, pk packets.Packet, sent int64, resends int) {
	h.mu.Lock()
	defer h.mu.Unlock()
	if h.dead {
		return
	}
	h.superseded(cl)
	h.events = append(h.events, sx.L{sx.N(6), sx.S(cl.ID), sxPacket(pk), sx.N(uint64(sent))})
	if h.allow(1) == 1 {
		h.Hook.OnQosPublish(cl, pk, sent, resends)
	}
}

func (h *recHook) OnQosComplete(cl *mqtt.Client, pk packets.Packet) {
	h.mu.Lock()
	defer h.mu.Unlock()
	if h.dead {
		return
	}
	h.superseded(cl)
	h.events = append(h.events, sx.L{sx.N(7), sx.S(cl.ID), sx.N(pk.PacketID)})
	if h.allow(1) == 1 {
		h.Hook.OnQosComplete(cl, pk)
	}
}

func (h *recHook) OnQosDropped(cl *mqtt.Client, pk packets.Packet) {
	h.mu.Lock()
	defer h.mu.Unlock()
	if h.dead {
		return
	}
	h.superseded(cl)
	h.events = append(h.events, sx.L{sx.N(8), sx.S(cl.ID), sx.N(pk.PacketID)})
	if h.allow(1) == 1 {
		h.Hook.OnQosDropped(cl, pk)
	}
}

func (h *recHook) OnSysInfoTick(info *system.Info) {
	h.mu.Lock()
	defer h.mu.Unlock()
	if h.dead {
		return
	}
	h.events = append(h.events, sx.L{sx.N(9), sxInfo(*info.Clone())})
	if h.allow(1) == 1 {
		h.Hook.OnSysInfoTick(info)
	}
}

func (h *recHook) OnRetainedExpired(filter string) {
	h.mu.Lock()
	defer h.mu.Unlock()
	if h.dead {
		return
	}
	h.events = append(h.events, sx.L{sx.N(10), sx.S(filter)})
	if h.allow(1) == 1 {
		h.Hook.OnRetainedExpired(filter)
	}
}

func (h *recHook) OnClientExpired(cl *mqtt.Client) {
	h.mu.Lock()
	defer h.mu.Unlock()
	if h.dead {
		return
	}
	h.superseded(cl)
	h.events = append(h.events, sx.L{sx.N(11), sx.S(cl.ID)})
	if h.allow(1) == 1 {
		h.Hook.OnClientExpired(cl)
	}
}

func (h *recHook) snapshotEvents() (sx.L, int) {
	h.mu.Lock()
	defer h.mu.Unlock()
	return append(sx.L{}, h.events...), h.writes
}

// ---------- broker + scripted clients ----------

type rsClient struct {
	conn    *memConn
	id      string
	ver     byte
	done    chan struct{}
	pos     int      // parse position in conn.out
	pubs    []rsPub  // QoS>0 PUBLISH received and not yet answered
	rels    []uint16 // PUBREL received, PUBCOMP owed
	recs    []uint16 // PUBREC received for own QoS 2 publishes, PUBREL owed
	nextPid uint16
	gone    bool // the script closed or disconnected it
}

type rsPub struct {
	pid uint16
	qos byte
}

type rsBroker struct {
	srv     *mqtt.Server
	rec     *recHook
	clients []*rsClient
	// raceHit: the teardown of a taken-over client removed the entry of the client that took over
	// from the Clients map (finding C14-1, a race between two connection goroutines); the broker then
	// no longer knows a live connection, the history is not a history of the persistence path and
	// the engines skip it
	raceHit bool
	stuck   bool // settle gave up
}

// skipped histories: a few are tolerated (the C14-1 race), many would hide a hang of the broker
var rsSkipped, rsPlayed int

func skipHistory(out *sx.Out, what string) {
	rsSkipped++
	out.Comment(what)
	if rsSkipped > 5 && rsSkipped*10 > rsPlayed {
		panic("storage broker harness: too many abandoned histories: " + what)
	}
}

const rsListener = "t"

// rsAuthHook lets every client connect and refuses reading or writing topics / filters under "deny/".
type rsAuthHook struct{ mqtt.HookBase }

func (h *rsAuthHook) ID() string { return "rs-auth" }
func (h *rsAuthHook) Provides(b byte) bool {
	return b == mqtt.OnConnectAuthenticate || b == mqtt.OnACLCheck
}
func (h *rsAuthHook) OnConnectAuthenticate(cl *mqtt.Client, pk packets.Packet) bool { return true }
func (h *rsAuthHook) OnACLCheck(cl *mqtt.Client, topic string, write bool) bool {
	return !strings.HasPrefix(topic, "deny/")
}

// rsMaxCap: the server's maximum message expiry interval for the brokers created from now on
// (-1 = the default, 86400 s); every broker process of one history uses the same value.
var rsMaxCap int64 = -1

func newRsBroker(hook mqtt.Hook, cfg any, limit int) (*rsBroker, error) {
	opts := &mqtt.Options{Logger: stLogger}
	if rsMaxCap >= 0 {
		opts.Capabilities = mqtt.NewDefaultServerCapabilities()
		opts.Capabilities.MaximumMessageExpiryInterval = rsMaxCap
	}
	s := mqtt.New(opts)
	if err := s.AddHook(new(rsAuthHook), nil); err != nil {
		return nil, err
	}
	b := &rsBroker{srv: s}
	if limit != -2 {
		b.rec = newRecHook(hook, limit)
		hook = b.rec
	}
	if err := s.AddHook(hook, cfg); err != nil {
		return nil, err
	}
	if err := s.AddListener(listeners.NewMockListener(rsListener, ":0")); err != nil {
		return nil, err
	}
	return b, nil
}

func (c *rsClient) finished() bool {
	select {
	case <-c.done:
		return true
	default:
		return false
	}
}

// settle waits until every connection handler is parked in Read with nothing left to read (or has
// returned) and no packet is queued or being written.
func (b *rsBroker) settle() {
	if b.stuck {
		return
	}
	ok := 0
	for i := 0; i < 200000; i++ {
		// nothing queued or being written for any open client (a stopped client's queue is never
		// drained: its write loop has ended)
		q := true
		for _, cl := range b.srv.Clients.GetAll() {
			if !cl.Closed() && !cl.VerifClientQuiescent() {
				q = false
			}
		}
		for _, c := range b.clients {
			if !(c.finished() || c.conn.parked()) {
				q = false
			}
			if c.finished() && !c.gone {
				c.gone = true
			}
		}
		if q {
			ok++
			if ok >= 3 {
				return
			}
		} else {
			ok = 0
		}
		runtime.Gosched()
		if i > 50 {
			time.Sleep(20 * time.Microsecond)
		}
	}
	// the broker did not come to rest: the history is abandoned (and counted, see skipHistory)
	b.raceHit = true
	b.stuck = true
}

func encode(pk packets.Packet) []byte {
	buf := new(bytes.Buffer)
	var err error
	switch pk.FixedHeader.Type {
	case packets.Connect:
		err = pk.ConnectEncode(buf)
	case packets.Subscribe:
		err = pk.SubscribeEncode(buf)
	case packets.Unsubscribe:
		err = pk.UnsubscribeEncode(buf)
	case packets.Publish:
		err = pk.PublishEncode(buf)
	case packets.Puback:
		err = pk.PubackEncode(buf)
	case packets.Pubrec:
		err = pk.PubrecEncode(buf)
	case packets.Pubrel:
		err = pk.PubrelEncode(buf)
	case packets.Pubcomp:
		err = pk.PubcompEncode(buf)
	case packets.Disconnect:
		err = pk.DisconnectEncode(buf)
	}
	if err != nil {
		panic(err)
	}
	return buf.Bytes()
}

type rsConnect struct {
	id       string
	ver      byte
	clean    bool
	sei      uint32
	seiFlag  bool
	will     bool
	willDly  uint32
	willRet  bool
	username string
	recvMax  uint16 // Receive Maximum of the client (MQTT 5), 0 = not given
}

func (b *rsBroker) connect(o rsConnect) *rsClient {
	c := &rsClient{conn: newMemConn(), id: o.id, ver: o.ver, done: make(chan struct{}), nextPid: 100}
	pk := packets.Packet{FixedHeader: packets.FixedHeader{Type: packets.Connect}, ProtocolVersion: o.ver,
		Connect: packets.ConnectParams{ProtocolName: []byte("MQTT"), Clean: o.clean, Keepalive: 0, ClientIdentifier: o.id}}
	if o.ver == 3 {
		pk.Connect.ProtocolName = []byte("MQIsdp")
	}
	if o.ver == 5 {
		pk.Properties.SessionExpiryInterval = o.sei
		pk.Properties.SessionExpiryIntervalFlag = o.seiFlag
		pk.Properties.ReceiveMaximum = o.recvMax
	}
	if o.will {
		pk.Connect.WillFlag = true
		pk.Connect.WillTopic = "will/" + o.id
		pk.Connect.WillPayload = []byte("gone")
		pk.Connect.WillQos = 1
		pk.Connect.WillRetain = o.willRet
		if o.ver == 5 {
			pk.Connect.WillProperties.WillDelayInterval = o.willDly
		}
	}
	if o.username != "" {
		pk.Connect.UsernameFlag = true
		pk.Connect.Username = []byte(o.username)
	}
	b.clients = append(b.clients, c)
	c.conn.feed(encode(pk))
	go func() {
		_ = b.srv.EstablishConnection(rsListener, c.conn)
		close(c.done)
	}()
	b.settle()
	if !c.finished() {
		if _, ok := b.srv.Clients.Get(o.id); !ok {
			b.raceHit = true
		}
	}
	return c
}

func (b *rsBroker) send(c *rsClient, pk packets.Packet) {
	pk.ProtocolVersion = c.ver
	c.conn.feed(encode(pk))
	b.settle()
}

func (c *rsClient) pid() uint16 {
	c.nextPid++
	return c.nextPid
}

// scan parses what the broker has written to the client since the last call.
func (c *rsClient) scan() {
	c.conn.mu.Lock()
	out := c.conn.out
	c.conn.mu.Unlock()
	for {
		rest := out[c.pos:]
		if len(rest) < 2 {
			return
		}
		rl, n, err := packets.DecodeLength(bytes.NewReader(rest[1:]))
		if err != nil || len(rest) < 1+n+rl {
			return
		}
		body := rest[1+n : 1+n+rl]
		switch rest[0] >> 4 {
		case packets.Publish:
			qos := (rest[0] >> 1) & 3
			if qos > 0 && len(body) >= 2 {
				tl := int(body[0])<<8 | int(body[1])
				if len(body) >= 2+tl+2 {
					c.pubs = append(c.pubs, rsPub{uint16(body[2+tl])<<8 | uint16(body[3+tl]), qos})
				}
			}
		case packets.Pubrec:
			if len(body) >= 2 && (len(body) < 3 || body[2] < 0x80) {
				c.recs = append(c.recs, uint16(body[0])<<8|uint16(body[1]))
			}
		case packets.Pubrel:
			if len(body) >= 2 {
				c.rels = append(c.rels, uint16(body[0])<<8|uint16(body[1]))
			}
		}
		c.pos += 1 + n + rl
	}
}

// shutdown closes the server (disconnects every client, waits for the handlers, stops the hooks).
func (b *rsBroker) shutdown() {
	done := make(chan struct{})
	go func() {
		_ = b.srv.Close()
		close(done)
	}()
	select {
	case <-done:
	case <-time.After(3 * time.Second):
		// Close only disconnects the clients it finds in the Clients map (see raceHit)
		b.raceHit = true
		for _, c := range b.clients {
			c.conn.Close()
		}
		<-done
	}
	for _, c := range b.clients {
		<-c.done
	}
}

// ---------- snapshot of the in-memory state ----------

// (clients indexsubs clientsubs inflight retained)
func snapshot(s *mqtt.Server) sx.V {
	cls, isubs, csubs, ifm, ret := sx.L{}, sx.L{}, sx.L{}, sx.L{}, sx.L{}
	all := s.Clients.GetAll()
	ids := []string{}
	for id := range all {
		ids = append(ids, id)
	}
	sort.Strings(ids)
	for _, id := range ids {
		cl := all[id]
		if cl.Net.Inline {
			continue
		}
		cls = append(cls, sxClient(cl))
		for _, sub := range cl.State.Subscriptions.GetAll() {
			csubs = append(csubs, sx.L{sx.S(id), sxSubscription(sub, sub.Qos)})
		}
		for _, pk := range cl.State.Inflight.GetAll(false) {
			ifm = append(ifm, sx.L{sx.S(id), sxPacket(pk)})
		}
	}
	for _, x := range s.VerifIndexSubscriptions() {
		isubs = append(isubs, sx.L{sx.S(x.Client), sxSubscription(x.Sub, x.Sub.Qos)})
	}
	for _, pk := range s.Topics.Retained.GetAll() {
		ret = append(ret, sxPacket(pk))
	}
	return sx.L{cls, sortedL(isubs), sortedL(csubs), sortedL(ifm), sortedL(ret)}
}
