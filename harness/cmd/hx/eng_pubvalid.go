package main

import (
	"math/rand"
	"sort"
	"strconv"

	"github.com/mochi-mqtt/server/v2/packets"

	"verifharness/broker"
	"verifharness/sx"
)

// pubvalid: C30, broker level — a client publish topic is accepted exactly when it has no wildcard
// and does not start with $SYS, on every way a topic name reaches processPublish: plain, with a
// fresh topic alias, with an already bound alias + non-empty name (re-bind), alias-only (also after a
// refused re-bind), over QoS 0/1/2 and retain, MQTT 3.1 / 3.1.1 / 5.  One case per publisher connection:
//
//	(ver smax (event ...) (finalRetainedTopic ...))
//	event = (topic alias qos retain (published ...) (retained ...) (spy ...) ackType ackReason closed)
//	  published / retained = topic names of the OnPublished / OnRetainMessage hook calls for this message,
//	  spy = topic names under which a subscriber to #, $SYS/#, $sys/# received it.
func init() { engines["pubvalid"] = engPubValid }

type pvStep struct {
	topic  string
	alias  uint16
	qos    byte
	retain bool
}

type pvRun struct {
	b    *broker.B
	spy  *broker.Conn
	cc   *broker.Conn
	ver  byte
	seq  int
	evl  sx.L
	out  *sx.Out
	dead bool
}

func pvNew(out *sx.Out, ver byte) *pvRun {
	r := &pvRun{out: out, ver: ver}
	r.b = broker.New(broker.Opts{Auth: broker.AllowAuth, ACL: broker.AllowACL})
	r.spy = r.b.Connect("10.0.0.9:1", broker.ConnectPk("spy", 4, true))
	_ = r.b.SendPacket(r.spy, broker.SubscribePk(1,
		packets.Subscription{Filter: "#", Qos: 0}, packets.Subscription{Filter: "$SYS/#", Qos: 0},
		packets.Subscription{Filter: "$sys/#", Qos: 0}))
	r.cc = r.b.Connect("10.0.0.1:1", broker.ConnectPk("pub", ver, true))
	r.b.Drain()
	r.b.Rec.Drain()
	return r
}

func pvNames(l []string) sx.V {
	v := sx.L{}
	for _, s := range l {
		v = append(v, sx.S(s))
	}
	return v
}

func (r *pvRun) step(s pvStep) {
	if r.dead || r.b.Hung {
		return
	}
	r.seq++
	payload := "m" + strconv.Itoa(r.seq)
	pid := uint16(0)
	if s.qos > 0 {
		pid = uint16(r.seq)
	}
	pk := broker.PublishPk(s.topic, []byte(payload), s.qos, s.retain, pid)
	if s.alias > 0 {
		pk.Properties.TopicAlias = s.alias
		pk.Properties.TopicAliasFlag = true
	}
	if err := r.b.SendPacket(r.cc, pk); err != nil {
		return // not encodable: not sent, not an event
	}
	var spy []string
	ackType, ackReason, closed := 0, 0, false
	for _, o := range r.b.Drain() {
		if o.Conn == r.spy.Idx {
			for _, q := range o.Packets {
				if q.FixedHeader.Type == packets.Publish && string(q.Payload) == payload {
					spy = append(spy, q.TopicName)
				}
			}
		}
		if o.Conn == r.cc.Idx {
			closed = o.Closed || o.Done
			for _, q := range o.Packets {
				if (q.FixedHeader.Type == packets.Puback || q.FixedHeader.Type == packets.Pubrec) && q.PacketID == pid {
					ackType, ackReason = int(q.FixedHeader.Type), int(q.ReasonCode)
				}
			}
		}
	}
	var published, retained []string
	for _, e := range r.b.Rec.Drain() {
		if string(e.Pk.Payload) != payload {
			continue
		}
		switch e.Name {
		case "Published":
			published = append(published, e.Pk.TopicName)
		case "RetainMessage":
			retained = append(retained, e.Pk.TopicName)
		}
	}
	r.evl = append(r.evl, sx.L{sx.S(s.topic), sx.N(uint64(s.alias)), sx.N(uint64(s.qos)), sx.Bool(s.retain),
		pvNames(published), pvNames(retained), pvNames(spy), sx.N(uint64(ackType)), sx.N(uint64(ackReason)), sx.Bool(closed)})
	if closed {
		r.dead = true
		return
	}
	// complete an accepted QoS 2 exchange so that the packet id and the receive quota are released
	if ackType == int(packets.Pubrec) && ackReason < 0x80 {
		_ = r.b.SendPacket(r.cc, broker.AckPk(packets.Pubrel, pid, 0))
		r.b.Drain()
		r.b.Rec.Drain()
	}
}

func (r *pvRun) finish() {
	names := []string{}
	for k := range r.b.Srv.Topics.Retained.GetAll() {
		names = append(names, k)
	}
	sort.Strings(names)
	r.out.Case(sx.L{sx.N(uint64(r.ver)), sx.N(65535), r.evl, pvNames(names)})
	r.b.Shutdown()
}

func engPubValid(seed int64, tier string, _ []string, out *sx.Out) {
	rng := rand.New(rand.NewSource(seed))
	thorough := tier == "thorough"

	valid := []string{"a", "a/b", "b//c", "/", "$sys/x", "$share/g", "$SY", "$", "a/$SYS", "aa/a"}
	invalid := []string{"$SYS", "$SYS/broker/version", "$SYSx", "$SYS/", "$SYS/a", "$SYS$", "a/#", "#", "+", "a/+/b", "a/b#", "a+", "+/a", "$SYS/#", "$sys/+"}
	// every string of length 1..3 over the C30 alphabet
	alpha := []string{"/", "+", "#", "$", "a"}
	small := []string{}
	for _, x := range alpha {
		small = append(small, x)
		for _, y := range alpha {
			small = append(small, x+y)
			for _, z := range alpha {
				small = append(small, x+y+z)
			}
		}
	}

	// (i) scripted: every invalid name x route x qos x retain, after alias 1 was bound to a valid name;
	// then alias-only on the alias, then the name on a fresh alias, then alias-only on that one
	names := append(append([]string{}, invalid...), small...)
	if !thorough { // quick: the hand-picked names and every third small string
		names = append([]string{}, invalid...)
		for i := int(seed % 3); i < len(small); i += 3 {
			names = append(names, small[i])
		}
	}
	for ni, name := range names {
		for route := 0; route < 3; route++ {
			qos := byte((ni + route) % 3)
			retain := (ni+route)%2 == 0
			if thorough || ni < len(invalid) {
				// full product for the hand-picked names (and for everything in the thorough tier)
				for q := byte(0); q < 3; q++ {
					for _, rt := range []bool{false, true} {
						pvScript(out, name, route, q, rt)
					}
				}
				continue
			}
			pvScript(out, name, route, qos, retain)
		}
	}
	// MQTT 3.1 / 3.1.1: plain publishes only (no properties)
	for _, ver := range []byte{3, 4} {
		r := pvNew(out, ver)
		for i, name := range append(append([]string{"$SYS", "$SYS/broker/version", "$SYSx", "$SYS/", "$SYS/a", "$SYS$"}, valid...), "a/#") {
			r.step(pvStep{name, 0, byte(i % 3), i%2 == 0})
		}
		r.finish()
	}

	// (ii) random histories on one MQTT 5 connection, biased to re-binding bound aliases
	histories, steps := 500, 16
	if thorough {
		histories, steps = 3000, 24
	}
	// names with a wildcard end the connection (packets.PublishValidate), so they are rare here; the
	// refusals that leave the connection open are the $SYS names
	sysNames := []string{"$SYS", "$SYS/broker/version", "$SYSx", "$SYS/", "$SYS/a", "$SYS$", "$SYSa/a", "$SYS//"}
	pick := func() string {
		switch rng.Intn(12) {
		case 0:
			return small[rng.Intn(len(small))]
		case 1:
			return invalid[rng.Intn(len(invalid))]
		case 2, 3:
			s := ""
			for k := 1 + rng.Intn(4); k > 0; k-- {
				s += []string{"$SYS", "$sys", "$share", "g", "/", "a", "$"}[rng.Intn(7)]
			}
			return s
		case 4, 5, 6, 7:
			return sysNames[rng.Intn(len(sysNames))]
		default:
			return valid[rng.Intn(len(valid))]
		}
	}
	for h := 0; h < histories; h++ {
		r := pvNew(out, 5)
		used := []uint16{}
		for i := 0; i < steps && !r.dead; i++ {
			s := pvStep{qos: byte(rng.Intn(3)), retain: rng.Intn(2) == 0}
			switch k := rng.Intn(10); {
			case k < 2: // plain
				s.topic = pick()
			case k < 4 || len(used) == 0: // fresh alias + name
				s.alias = uint16(1 + len(used))
				if rng.Intn(8) == 0 {
					s.alias = 65535 - uint16(len(used))
				}
				s.topic = pick()
				used = append(used, s.alias)
			case k < 7: // an alias used before + a name (re-bind if it was bound)
				s.alias = used[rng.Intn(len(used))]
				s.topic = pick()
			default: // alias-only (resolves, or protocol error if the alias was never bound by an accepted publish)
				s.alias = used[rng.Intn(len(used))]
			}
			r.step(s)
		}
		r.finish()
	}
}

// pvScript: bind alias 1 to a valid name, send [name] by the given route, then probe what the aliases
// resolve to.  route 0 = plain, 1 = fresh alias 2, 2 = re-bind of the bound alias 1.
func pvScript(out *sx.Out, name string, route int, qos byte, retain bool) {
	r := pvNew(out, 5)
	r.step(pvStep{"ok/1", 1, 0, false})
	switch route {
	case 0:
		r.step(pvStep{name, 0, qos, retain})
	case 1:
		r.step(pvStep{name, 2, qos, retain})
	case 2:
		r.step(pvStep{name, 1, qos, retain})
	}
	r.step(pvStep{"", 1, qos, retain})      // alias 1: still the valid name, or the new name if that was accepted
	r.step(pvStep{"ok/2", 0, qos, false})   // a plain valid publish still goes through
	if route == 1 {
		r.step(pvStep{"", 2, qos, retain}) // alias 2: bound only if the name was accepted (else: protocol error)
	}
	r.finish()
}
