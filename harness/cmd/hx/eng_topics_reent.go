package main

// topics_inlinereent (C40): an inline Subscribe whose handler, while it is being handed the retained backlog,
// causes another publish through the embedding API — variant 0: re-entrantly, Server.Publish called from inside
// the first retained callback; variant 1: from a second goroutine while the first retained callback is parked
// until that publish has returned (the handler is the gate).  The published topic matches the same subscription
// or not, with the retain flag or without.  Afterwards a probe publish.  The handler's log is judged by the
// Coq engine Topics.InlineReent.reent_engine.
//
// case = (9 ops filter (variant ptopic ppayload retain) (probetopic probepayload) log hung)

import (
	"io"
	"log/slog"
	"math/rand"
	"sync"
	"sync/atomic"
	"time"

	mqtt "github.com/mochi-mqtt/server/v2"
	"github.com/mochi-mqtt/server/v2/packets"

	"verifharness/sx"
)

func init() { engines["topics_inlinereent"] = engTopicsInlineReent }

func engTopicsInlineReent(seed int64, tier string, _ []string, out *sx.Out) {
	rng := rand.New(rand.NewSource(seed))
	n := 600
	if tier == "thorough" {
		n = 20000
	}
	filters := []string{"a/#", "a/+", "+/b", "#", "a/b", "+/+"}
	topics := []string{"a/b", "a/c", "a", "b", "c/b", "a/b/c"}
	for i := 0; i < n; i++ {
		s := mqtt.New(&mqtt.Options{InlineClient: true, Logger: slog.New(slog.NewTextHandler(io.Discard, nil))})
		f := filters[rng.Intn(len(filters))]
		ops := sx.L{}
		k := 1 + rng.Intn(3)
		for j := 0; j < k; j++ {
			t := topics[rng.Intn(len(topics))]
			pl := "r" + string(rune('0'+j))
			_ = s.Publish(t, []byte(pl), true, 0)
			ops = append(ops, sx.L{sx.N(4), sx.S(t), sx.S(pl)})
		}
		if len(s.Topics.Messages(f)) == 0 { // no backlog: the handler is never called during Subscribe, nothing to trigger
			_ = s.Close()
			continue
		}
		variant := rng.Intn(2)
		pt := topics[rng.Intn(len(topics))]
		retain := rng.Intn(3) != 0
		var mu sync.Mutex
		var log [][2]string
		var fired int32
		hung := int32(0)
		handler := func(_ *mqtt.Client, _ packets.Subscription, pk packets.Packet) {
			mu.Lock()
			log = append(log, [2]string{pk.TopicName, string(pk.Payload)})
			mu.Unlock()
			if !atomic.CompareAndSwapInt32(&fired, 0, 1) {
				return
			}
			if variant == 0 {
				_ = s.Publish(pt, []byte("v"), retain, 0) // re-entrant publish from inside the retained callback
				return
			}
			done := make(chan struct{})
			go func() { _ = s.Publish(pt, []byte("v"), retain, 0); close(done) }()
			select { // the callback is parked until the other goroutine's publish has returned
			case <-done:
			case <-time.After(5 * time.Second):
				atomic.StoreInt32(&hung, 1)
			}
		}
		subDone := make(chan struct{})
		go func() { _ = s.Subscribe(f, 1, handler); close(subDone) }()
		select {
		case <-subDone:
		case <-time.After(10 * time.Second):
			atomic.StoreInt32(&hung, 1)
		}
		qt := topics[rng.Intn(len(topics))]
		if atomic.LoadInt32(&hung) == 0 {
			_ = s.Publish(qt, []byte("q"), false, 0)
		}
		mu.Lock()
		l := sx.L{}
		for _, e := range log {
			l = append(l, sx.L{sx.S(e[0]), sx.S(e[1])})
		}
		mu.Unlock()
		r := 0
		if retain {
			r = 1
		}
		out.Case(sx.L{sx.N(9), ops, sx.S(f), sx.L{sx.N(variant), sx.S(pt), sx.S("v"), sx.N(r)},
			sx.L{sx.S(qt), sx.S("q")}, l, sx.N(int(atomic.LoadInt32(&hung)))})
		if atomic.LoadInt32(&hung) == 0 {
			_ = s.Close()
		}
	}
}
