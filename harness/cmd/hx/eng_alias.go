package main

import (
	"fmt"
	"math/rand"
	"os"
	"sort"
	"strconv"
	"strings"

	mqtt "github.com/mochi-mqtt/server/v2"
	"github.com/mochi-mqtt/server/v2/packets"

	"verifharness/broker"
	"verifharness/sx"
)

func init() { engines["alias"] = engAlias }

// C24: topic aliases are always resolvable by the receiver.  One case per CONNECTION:
//
//	(0 tam (event ...))    outbound: everything publishToClient / resend did for one subscriber connection
//	   event = (kind topic wireTopic wireAlias)
//	     kind 0 = queued and written, 1 = dropped because the pending-writes queue was full (after the
//	     alias decision), 2 = written from the in-flight store (resend after CONNACK, deferred send);
//	     topic = the topic the message was published to (recovered from the payload "<topic>|<seq>")
//	(1 smax (event ...))   inbound: the PUBLISH packets one client connection sent
//	   event = (topic alias closed (routedTopic ...))   routed = what a spy subscribed to # received
type aliasEv struct {
	kind  int
	topic string
	seq   int
	wt    string
	wa    uint16
}

func splitPayload(p []byte) (string, int) {
	s := string(p)
	i := strings.LastIndex(s, "|")
	if i < 0 {
		return s, -1
	}
	n, _ := strconv.Atoi(s[i+1:])
	return s[:i], n
}

func aliasOutCase(tam uint16, evs []aliasEv) sx.V {
	l := sx.L{}
	for _, e := range evs {
		l = append(l, sx.L{sx.N(uint64(e.kind)), sx.S(e.topic), sx.S(e.wt), sx.N(uint64(e.wa))})
	}
	return sx.L{sx.N(0), sx.N(uint64(tam)), l}
}

// goMonitor is the receiver's view, used only for the HX_DEBUG trace.
func goMonitor(tam uint16, evs []aliasEv) string {
	tab := map[uint16]string{}
	for i, e := range evs {
		if e.kind == 1 {
			continue
		}
		if e.wa == 0 {
			if e.wt == "" || e.wt != e.topic {
				return fmt.Sprintf("event %d: no alias and topic %q for %q", i, e.wt, e.topic)
			}
			continue
		}
		if e.wa > tam {
			return fmt.Sprintf("event %d: alias %d > maximum %d", i, e.wa, tam)
		}
		if e.wt != "" {
			if e.wt != e.topic {
				return fmt.Sprintf("event %d: topic %q for %q", i, e.wt, e.topic)
			}
			tab[e.wa] = e.wt
		} else if t, ok := tab[e.wa]; !ok {
			return fmt.Sprintf("event %d: alias %d never bound on this connection (message for %q, kind %d)", i, e.wa, e.topic, e.kind)
		} else if t != e.topic {
			return fmt.Sprintf("event %d: alias %d bound to %q, message is for %q", i, e.wa, t, e.topic)
		}
	}
	return ""
}

func engAlias(seed int64, tier string, _ []string, out *sx.Out) {
	rng := rand.New(rand.NewSource(seed))
	histories, steps := 150, 30
	if tier == "thorough" {
		histories, steps = 4000, 50
	}
	debug := os.Getenv("HX_DEBUG") != ""
	topics := []string{"q0/a", "q0/b", "q0/c", "q1/a", "q1/b", "q1/c", "q1/d"}

	// ---------- outbound ----------
	for h := 0; h < histories; h++ {
		caps := mqtt.NewDefaultServerCapabilities()
		if h%3 == 1 {
			caps.MaximumClientWritesPending = 2
		}
		b := broker.New(broker.Opts{Caps: caps, Auth: broker.AllowAuth, ACL: broker.AllowACL})
		tam := []uint16{0, 1, 2, 3, 10}[h%5]
		rm := []uint16{0, 1, 2}[(h/5)%3]
		var sc *broker.Conn
		var evs []aliasEv
		flush := func() {
			if sc != nil {
				if debug {
					if m := goMonitor(tam, evs); m != "" {
						fmt.Fprintf(os.Stderr, "history %d tam %d rm %d: %s\n   %v\n", h, tam, rm, m, evs)
					}
				}
				out.Case(aliasOutCase(tam, evs))
			}
			evs = nil
		}
		connectS := func() {
			flush()
			pk := broker.ConnectPk("s", 5, false)
			pk.Properties.TopicAliasMaximum = tam
			pk.Properties.ReceiveMaximum = rm
			pk.Properties.SessionExpiryInterval = 1000
			pk.Properties.SessionExpiryIntervalFlag = true
			sc = b.Connect("10.0.0.2:1", pk)
		}
		// collect what the subscriber connection received in the last step
		collect := func(resend bool, deferredBefore map[uint16]bool) {
			var step []aliasEv
			for _, o := range b.Drain() {
				if sc == nil || o.Conn != sc.Idx {
					continue
				}
				for _, q := range o.Packets {
					if q.FixedHeader.Type != packets.Publish {
						continue
					}
					t, n := splitPayload(q.Payload)
					k := 0
					if resend || deferredBefore[q.PacketID] {
						k = 2
					}
					a := uint16(0)
					if q.Properties.TopicAliasFlag {
						a = q.Properties.TopicAlias
					}
					step = append(step, aliasEv{k, t, n, q.TopicName, a})
				}
			}
			for _, e := range b.Rec.Drain() {
				if e.Name == "PublishDropped" && e.Client == "s" {
					t, n := splitPayload(e.Pk.Payload)
					step = append(step, aliasEv{1, t, n, "", 0})
				}
			}
			has2 := false
			for _, e := range step {
				has2 = has2 || e.kind == 2
			}
			if !has2 {
				sort.SliceStable(step, func(i, j int) bool { return step[i].seq < step[j].seq })
			}
			evs = append(evs, step...)
		}
		deferred := func() map[uint16]bool {
			m := map[uint16]bool{}
			if c := snapClient(b.Srv.VerifSnapshot(), "s"); c != nil {
				for _, r := range c.Inflight {
					if r.Expiry < 0 {
						m[r.PacketID] = true
					}
				}
			}
			return m
		}
		connectS()
		_ = b.SendPacket(sc, broker.SubscribePk(1, packets.Subscription{Filter: "q0/#", Qos: 0}, packets.Subscription{Filter: "q1/#", Qos: 1}))
		collect(false, nil)
		pc := b.Connect("10.0.0.1:1", broker.ConnectPk("p", []byte{4, 5}[h%2], true))
		b.Drain()
		b.Rec.Drain()
		seq := 0
		mkpub := func() packets.Packet {
			seq++
			t := topics[rng.Intn(len(topics))]
			qos := byte(0)
			pid := uint16(0)
			if rng.Intn(2) == 0 {
				qos, pid = 1, uint16(1+seq%60000)
			}
			return broker.PublishPk(t, []byte(fmt.Sprintf("%s|%d", t, seq)), qos, false, pid)
		}
		for i := 0; i < steps && !b.Hung; i++ {
			online := sc != nil && !sc.MC.Closed() && !sc.Done()
			switch k := rng.Intn(100); {
			case k < 35: // one publish
				_ = b.SendPacket(pc, mkpub())
				collect(false, nil)
			case k < 55: // a burst of publishes in one step
				var data []byte
				for j, n := 0, 3+rng.Intn(5); j < n; j++ {
					pk := mkpub()
					pk.ProtocolVersion = pc.Version
					enc, _ := broker.Encode(pk)
					data = append(data, enc...)
				}
				b.Send(pc, data)
				collect(false, nil)
			case k < 80: // the subscriber acknowledges the oldest message it holds
				if !online {
					continue
				}
				c := snapClient(b.Srv.VerifSnapshot(), "s")
				if c == nil || len(c.Inflight) == 0 {
					continue
				}
				df := deferred()
				best := -1
				for j, r := range c.Inflight {
					if r.Type == packets.Publish && r.Expiry >= 0 && (best < 0 || r.Created < c.Inflight[best].Created) {
						best = j
					}
				}
				if best < 0 {
					best = 0
				}
				_ = b.SendPacket(sc, broker.AckPk(packets.Puback, c.Inflight[best].PacketID, 0))
				collect(false, df)
			case k < 90: // the subscriber's connection drops
				if online {
					b.NetClose(sc)
					collect(false, nil)
				}
			default: // ... and it comes back (or a second connection takes the session over)
				connectS()
				collect(true, nil)
			}
		}
		flush()
		b.Shutdown()
	}

	// ---------- inbound ----------
	intopics := []string{"", "", "x/a", "x/b", "x/c"}
	for h := 0; h < histories; h++ {
		caps := mqtt.NewDefaultServerCapabilities()
		smax := []uint16{0, 1, 2, 5, 65535}[h%5]
		caps.TopicAliasMaximum = smax
		b := broker.New(broker.Opts{Caps: caps, Auth: broker.AllowAuth, ACL: broker.AllowACL})
		spy := b.Connect("10.0.0.9:1", broker.ConnectPk("spy", 4, true))
		_ = b.SendPacket(spy, broker.SubscribePk(1, packets.Subscription{Filter: "#", Qos: 0}))
		b.Drain()
		var cc *broker.Conn
		evl := sx.L{}
		flush := func() {
			if cc != nil {
				out.Case(sx.L{sx.N(1), sx.N(uint64(smax)), evl})
			}
			evl = sx.L{}
		}
		seq := 0
		for i := 0; i < steps && !b.Hung; i++ {
			if cc == nil || cc.MC.Closed() || cc.Done() || rng.Intn(12) == 0 {
				flush()
				cc = b.Connect("10.0.0.1:1", broker.ConnectPk("c", 5, false))
				b.Drain()
			}
			seq++
			topic := intopics[rng.Intn(len(intopics))]
			hi := int(smax) + 2
			if hi > 7 {
				hi = 7
			}
			alias := uint16(rng.Intn(hi))
			if smax == 65535 && rng.Intn(8) == 0 {
				alias = 65535
			}
			qos := byte(rng.Intn(2))
			pid := uint16(0)
			if qos > 0 {
				pid = uint16(seq)
			}
			pk := broker.PublishPk(topic, []byte(strconv.Itoa(seq)), qos, false, pid)
			if alias > 0 {
				pk.Properties.TopicAlias = alias
				pk.Properties.TopicAliasFlag = true
			}
			_ = b.SendPacket(cc, pk)
			routed := sx.L{}
			closed := false
			for _, o := range b.Drain() {
				if o.Conn == spy.Idx {
					for _, q := range o.Packets {
						if q.FixedHeader.Type == packets.Publish && string(q.Payload) == strconv.Itoa(seq) {
							routed = append(routed, sx.S(q.TopicName))
						}
					}
				}
				if o.Conn == cc.Idx {
					closed = o.Closed
				}
			}
			b.Rec.Drain()
			evl = append(evl, sx.L{sx.S(topic), sx.N(uint64(alias)), sx.Bool(closed), routed})
			if debug && topic == "" && len(routed) > 0 {
				fmt.Fprintf(os.Stderr, "inbound history %d smax %d: %s\n", h, smax, sx.String(evl))
			}
		}
		flush()
		b.Shutdown()
	}
	aliasUnitStreams(rng, tier, out)
}

// aliasUnitStreams drives the exported alias tables directly with long sequences (pure computation):
//
//	(2 max goBad (seg ...))   OutboundTopicAliases.Set over 70 000 distinct topics (number i = topic "u/i")
//	                          interleaved with re-uses of the earliest topics; seg = (0 from to): the fresh
//	                          topics from..to were each answered (0, false); (1 i alias exists): one call.
//	                          Calls near the boundaries 1..max+2 and 65530..65545, every re-use and every
//	                          call not answered (0, false) are listed one by one; goBad = what the running
//	                          receiver check below counted (an observation; the verdict is the Coq engine's)
//	(3 smax ((id topic result) ...))   InboundTopicAliases.Set(id, topic) = result, topic 0 = ""
func aliasUnitStreams(rng *rand.Rand, tier string, out *sx.Out) {
	total := 70000
	if tier == "thorough" {
		total = 140000
	}
	for _, max := range []uint16{1, 2, 4} {
		a := mqtt.NewOutboundTopicAliases(max)
		segs := sx.L{}
		runFrom, runTo := 0, -1
		closeRun := func() {
			if runTo >= runFrom && runFrom > 0 {
				segs = append(segs, sx.L{sx.N(0), sx.N(uint64(runFrom)), sx.N(uint64(runTo))})
			}
			runFrom, runTo = 0, -1
		}
		recv := map[uint16]int{} // the receiver's table: alias -> topic number
		goBad, singles := 0, 0
		call := func(i int, fresh bool) {
			alias, exists := a.Set(fmt.Sprintf("u/%d", i))
			if alias > 0 { // the receiver's running check
				if exists {
					if t, ok := recv[alias]; !ok || t != i {
						goBad++
					}
				} else {
					recv[alias] = i
				}
				if alias > max {
					goBad++
				}
			}
			window := i <= int(max)+2 || (i >= 65530 && i <= 65545) || (i >= 131066 && i <= 131081)
			if fresh && !window && alias == 0 && !exists {
				if runFrom == 0 {
					runFrom = i
				}
				runTo = i
				return
			}
			closeRun()
			if singles < 600 { // a broken table could answer thousands of calls with an alias: the first ones decide
				segs = append(segs, sx.L{sx.N(1), sx.N(uint64(i)), sx.N(uint64(alias)), sx.Bool(exists)})
			}
			singles++
		}
		for i := 1; i <= total && singles < 600; i++ {
			call(i, true)
			if i%997 == 0 || (i >= 65536 && i <= 65545) || (i >= 131072 && i <= 131081) || i == total { // re-use the earliest topics
				for j := 1; j <= int(max)+1; j++ {
					call(j, false)
				}
			}
		}
		closeRun()
		out.Case(sx.L{sx.N(2), sx.N(uint64(max)), sx.N(uint64(goBad)), segs})
	}
	for _, smax := range []uint16{1, 2, 5} {
		a := mqtt.NewInboundTopicAliases(smax)
		calls := sx.L{}
		n := 1200
		for k := 0; k < n; k++ {
			id := uint16(1 + rng.Intn(int(smax)+1))
			if rng.Intn(20) == 0 {
				id = 65535
			}
			ti := 0
			if rng.Intn(2) == 0 {
				ti = 1 + rng.Intn(5)
			}
			topic := ""
			if ti > 0 {
				topic = fmt.Sprintf("u/%d", ti)
			}
			res := a.Set(id, topic)
			ri := 0
			if res != "" {
				_, _ = fmt.Sscanf(res, "u/%d", &ri)
				if ri == 0 {
					ri = 999 // not a topic this stream ever used
				}
			}
			calls = append(calls, sx.L{sx.N(uint64(id)), sx.N(uint64(ti)), sx.N(uint64(ri))})
		}
		out.Case(sx.L{sx.N(3), sx.N(uint64(smax)), calls})
	}
}
