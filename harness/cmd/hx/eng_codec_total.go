package main

// codec_total (C27): the real per-type Decode methods are called under recover() on
//   (a) the vectors of packets.TPacketData and systematic mutations of them (truncation at every
//       length, every byte replaced by boundary values, insertions, deletions), whole streams and
//       bodies, under protocol versions 3, 4 and 5;
//   (b) every body up to a small length over a small alphabet for every packet type x version;
//   (c) random bodies and mutated outputs of the real encoder;
//   (d) property blocks with exactly one broken field in layouts that expose mishandled errors.
// All decode calls run in a watched child process; a decoder that does not terminate is outcome 3.
// Each case carries the outcome class (ok / error / panic) and, for ok, the decoded fields.

import (
	"math/rand"

	"github.com/mochi-mqtt/server/v2/packets"

	"verifharness/sx"
)

func init() { engines["codec_total"] = engCodecTotal }

func fhFor(ty byte, qos byte, remaining int) packets.FixedHeader {
	fh := packets.FixedHeader{Type: ty, Qos: qos, Remaining: remaining}
	if ty == packets.Pubrel || ty == packets.Subscribe || ty == packets.Unsubscribe {
		fh.Qos = 1
	}
	return fh
}

func engCodecTotal(seed int64, tier string, _ []string, out *sx.Out) {
	rng := rand.New(rand.NewSource(seed))
	thorough := tier == "thorough"
	versions := []byte{3, 4, 5}
	q := newDecQueue(out) // every decode call runs in a watched child process (eng_codec_sandbox.go)
	defer q.flush()

	// (a) catalogue and its mutations -------------------------------------------------------
	cat := catalogue()
	repl := []byte{0x00, 0x01, 0x7f, 0x80, 0xff}
	for _, cv := range cat {
		for _, v := range versions {
			q.stream(v, cv.raw)
		}
		hb, body, ok := splitHeader(cv.raw)
		if !ok {
			continue
		}
		vs := []byte{cv.v}
		if thorough {
			vs = versions
		} else if cv.v != 5 {
			vs = []byte{cv.v, 5}
		}
		for _, v := range vs {
			mk := func(b []byte) { q.body(v, headerOf(hb, len(b)), b) }
			mk(body)
			if len(body) > 600 { // the few very long vectors: only truncations at a stride
				for i := 0; i < len(body); i += 97 {
					mk(body[:i])
				}
				continue
			}
			for i := 0; i < len(body); i++ {
				mk(body[:i]) // truncation
				for _, r := range repl {
					if body[i] != r {
						m := append([]byte{}, body...)
						m[i] = r
						mk(m)
					}
				}
				m := append([]byte{}, body...)
				m[i]++
				mk(m)
				m = append([]byte{}, body...)
				m[i]--
				mk(m)
				// deletion and insertion at i
				mk(append(append([]byte{}, body[:i]...), body[i+1:]...))
				if thorough || i%3 == 0 {
					ins := append(append(append([]byte{}, body[:i]...), repl[rng.Intn(len(repl))]), body[i:]...)
					mk(ins)
				}
			}
			// Remaining that disagrees with the body length (the decoders of DISCONNECT, AUTH and
			// the acknowledgements consult FixedHeader.Remaining)
			for _, rem := range []int{0, 1, 2, 3, 4, len(body) + 1} {
				q.body(v, headerOf(hb, rem), body)
			}
		}
	}

	// (b) exhaustive short bodies ---------------------------------------------------------------
	type exh struct {
		v      byte
		alpha  []byte
		maxLen int
	}
	plans := []exh{
		{5, []byte{0x00, 0x01, 0x02, 0x26, 0x80}, 5},
		{4, []byte{0x00, 0x01, 0x02, 0x80}, 4},
		{3, []byte{0x00, 0x01, 0x02, 0x80}, 3},
	}
	if thorough {
		plans = []exh{
			{5, []byte{0x00, 0x01, 0x02, 0x03, 0x0b, 0x1f, 0x26, 0x80, 0xff}, 5},
			{5, []byte{0x00, 0x01, 0x02, 0x26, 0x80}, 7},
			{4, []byte{0x00, 0x01, 0x02, 0x03, 0x61, 0x80}, 5},
			{3, []byte{0x00, 0x01, 0x02, 0x80}, 5},
		}
	}
	for _, pl := range plans {
		for _, ty := range allTypes {
			qoss := []byte{0}
			if ty == packets.Publish {
				qoss = []byte{0, 1}
			}
			for _, qos := range qoss {
				var rec func(prefix []byte)
				rec = func(prefix []byte) {
					q.body(pl.v, fhFor(ty, qos, len(prefix)), prefix)
					if len(prefix) == pl.maxLen {
						return
					}
					for _, a := range pl.alpha {
						rec(append(append([]byte{}, prefix...), a))
					}
				}
				rec(nil)
			}
		}
	}
	// CONNECT reads its protocol version from the body: exhaustive tails after a valid v5 prefix
	for _, prefix := range [][]byte{{0, 4, 'M', 'Q', 'T', 'T', 5}, {0, 4, 'M', 'Q', 'T', 'T', 4}, {0, 6, 'M', 'Q', 'I', 's', 'd', 'p', 3}} {
		alpha := []byte{0x00, 0x01, 0x02, 0x04, 0x26, 0xc6, 0x80}
		maxLen := 5
		if thorough {
			maxLen = 6
		}
		var rec func(tail []byte)
		rec = func(tail []byte) {
			b := append(append([]byte{}, prefix...), tail...)
			q.body(5, fhFor(packets.Connect, 0, len(b)), b)
			if len(tail) == maxLen {
				return
			}
			for _, a := range alpha {
				rec(append(append([]byte{}, tail...), a))
			}
		}
		rec(nil)
	}
	// reserved types and every header byte through the stream path
	for hb := 0; hb < 256; hb++ {
		for _, tail := range [][]byte{{}, {0}, {1, 0}, {2, 0, 1}, {3, 0, 1, 0}, {0x80}, {0xff, 0xff, 0xff, 0x7f}, {5, 0, 1, 0x61, 0, 0}} {
			for _, v := range []byte{4, 5} {
				q.stream(v, append([]byte{byte(hb)}, tail...))
			}
		}
	}

	// (d) structured property blocks with one broken field (eng_codec_propblocks.go)
	propBlockCases(q, thorough)

	// (e) every special code point / ill-formed UTF-8 sequence in every string-typed field: the real
	// encoder writes the packet (it does not validate strings), the decoder must accept or reject it
	// exactly as the model does
	for _, v := range []byte{4, 5} {
		for _, pk := range specialStringPackets(v, true) {
			if enc, oc := encodeReal(pk); oc == outOK {
				q.stream(pk.ProtocolVersion, enc)
			}
		}
	}

	// (c) random bodies and mutated encoder outputs ---------------------------------------------
	nrand := 15000
	if thorough {
		nrand = 600000
	}
	hot := []byte{0, 1, 2, 3, 4, 5, 8, 9, 11, 17, 18, 19, 21, 22, 23, 24, 25, 26, 28, 31, 33, 34, 35, 36, 37, 38, 39, 40, 41, 42, 0x7f, 0x80, 0xff}
	for i := 0; i < nrand; i++ {
		ty := allTypes[rng.Intn(len(allTypes))]
		v := versions[rng.Intn(3)]
		if rng.Intn(2) == 0 {
			v = 5
		}
		if i%2 == 0 {
			n := rng.Intn(24)
			b := make([]byte, n)
			for j := range b {
				if rng.Intn(3) == 0 {
					b[j] = byte(rng.Intn(256))
				} else {
					b[j] = hot[rng.Intn(len(hot))]
				}
			}
			rem := len(b)
			if rng.Intn(10) == 0 {
				rem = rng.Intn(6)
			}
			q.body(v, fhFor(ty, byte(rng.Intn(3)), rem), b)
			continue
		}
		pk := genPacket(rng, ty, v, true)
		enc, oc := encodeReal(pk)
		if oc != outOK {
			continue
		}
		// 1..3 random mutations of the encoder output, fed through the stream path
		m := append([]byte{}, enc...)
		for k := 1 + rng.Intn(3); k > 0 && len(m) > 0; k-- {
			j := rng.Intn(len(m))
			switch rng.Intn(4) {
			case 0:
				m[j] = hot[rng.Intn(len(hot))]
			case 1:
				m = append(m[:j], m[j+1:]...)
			case 2:
				m = append(m[:j], append([]byte{hot[rng.Intn(len(hot))]}, m[j:]...)...)
			default:
				m = m[:j]
			}
		}
		q.stream(v, m)
		if hb, body, ok := splitHeader(m); ok {
			q.body(v, headerOf(hb, len(body)), body)
		}
	}
}
