package main

// hx race — dynamic validation for C33.  The binary is built with -race.  The engine re-executes
// itself as a child (so that GORACE can direct the detector's reports to files and a report does not
// abort the run), the child drives a real broker through a concurrent scenario (connects with and
// without wills, takeovers of the same client id, subscriptions with wildcards and shares, QoS 0/1/2
// publishes with acknowledgement exchanges, retained messages, DISCONNECT with session-expiry
// updates, abrupt closes, the housekeeping tasks of the event loop, the inline API, shutdown), and
// the parent turns every distinct race report into one case:
//     (1 fn1 write1 fn2 write2 detail)   fn = innermost broker function of each conflicting access
// preceded by one summary case per scenario: (0 name races operations).

import (
	"bufio"
	"bytes"
	"fmt"
	"io"
	"math/rand"
	"net"
	"os"
	"os/exec"
	"path/filepath"
	"regexp"
	"sort"
	"strings"
	"sync"
	"sync/atomic"
	"time"

	mqtt "github.com/mochi-mqtt/server/v2"
	"github.com/mochi-mqtt/server/v2/hooks/auth"
	"github.com/mochi-mqtt/server/v2/listeners"
	"github.com/mochi-mqtt/server/v2/packets"

	"verifharness/sx"
)

func init() { engines["race"] = engRace }

// ---------------------------------------------------------------------------------------------
// in-memory connection: writes never block, reads block until data or close

type pipeHalf struct {
	mu     sync.Mutex
	cond   *sync.Cond
	buf    []byte
	closed bool
}

func newPipeHalf() *pipeHalf { h := &pipeHalf{}; h.cond = sync.NewCond(&h.mu); return h }

func (h *pipeHalf) write(p []byte) (int, error) {
	h.mu.Lock()
	defer h.mu.Unlock()
	if h.closed {
		return 0, io.ErrClosedPipe
	}
	h.buf = append(h.buf, p...)
	h.cond.Broadcast()
	return len(p), nil
}

func (h *pipeHalf) read(p []byte) (int, error) {
	h.mu.Lock()
	defer h.mu.Unlock()
	for len(h.buf) == 0 && !h.closed {
		h.cond.Wait()
	}
	if len(h.buf) == 0 {
		return 0, io.EOF
	}
	n := copy(p, h.buf)
	h.buf = h.buf[n:]
	return n, nil
}

func (h *pipeHalf) close() {
	h.mu.Lock()
	h.closed = true
	h.cond.Broadcast()
	h.mu.Unlock()
}

type memEnd struct {
	in, out *pipeHalf
	name    string
}

func memPipe() (*memEnd, *memEnd) {
	a, b := newPipeHalf(), newPipeHalf()
	return &memEnd{in: a, out: b, name: "broker"}, &memEnd{in: b, out: a, name: "client"}
}

func (c *memEnd) Read(p []byte) (int, error)       { return c.in.read(p) }
func (c *memEnd) Write(p []byte) (int, error)      { return c.out.write(p) }
func (c *memEnd) Close() error                     { c.in.close(); c.out.close(); return nil }
func (c *memEnd) LocalAddr() net.Addr              { return &net.TCPAddr{IP: net.IPv4(127, 0, 0, 1), Port: 1883} }
func (c *memEnd) RemoteAddr() net.Addr             { return &net.TCPAddr{IP: net.IPv4(127, 0, 0, 1), Port: 40000} }
func (c *memEnd) SetDeadline(time.Time) error      { return nil }
func (c *memEnd) SetReadDeadline(time.Time) error  { return nil }
func (c *memEnd) SetWriteDeadline(time.Time) error { return nil }

// ---------------------------------------------------------------------------------------------
// a scripted client

type rcClient struct {
	conn    *memEnd
	version byte
	nextID  uint16
	ops     *uint64
	recv    *uint64 // optional: number of packets received from the broker
}

func (c *rcClient) send(pk packets.Packet) {
	pk.ProtocolVersion = c.version
	var buf bytes.Buffer
	var err error
	switch pk.FixedHeader.Type {
	case packets.Connect:
		err = pk.ConnectEncode(&buf)
	case packets.Subscribe:
		err = pk.SubscribeEncode(&buf)
	case packets.Unsubscribe:
		err = pk.UnsubscribeEncode(&buf)
	case packets.Publish:
		err = pk.PublishEncode(&buf)
	case packets.Puback:
		err = pk.PubackEncode(&buf)
	case packets.Pubrec:
		err = pk.PubrecEncode(&buf)
	case packets.Pubrel:
		err = pk.PubrelEncode(&buf)
	case packets.Pubcomp:
		err = pk.PubcompEncode(&buf)
	case packets.Pingreq:
		err = pk.PingreqEncode(&buf)
	case packets.Disconnect:
		err = pk.DisconnectEncode(&buf)
	}
	if err == nil {
		c.conn.Write(buf.Bytes())
		atomic.AddUint64(c.ops, 1)
	}
}

// reader answers the broker: PUBACK / PUBREC / PUBCOMP for publishes, PUBREL for PUBREC.
func (c *rcClient) reader(done chan struct{}) {
	defer close(done)
	br := bufio.NewReader(c.conn)
	for {
		b, err := br.ReadByte()
		if err != nil {
			return
		}
		fh := packets.FixedHeader{}
		if fh.Decode(b) != nil {
			return
		}
		rem, _, err := packets.DecodeLength(br)
		if err != nil {
			return
		}
		body := make([]byte, rem)
		if _, err := io.ReadFull(br, body); err != nil {
			return
		}
		fh.Remaining = rem
		if c.recv != nil {
			atomic.AddUint64(c.recv, 1)
		}
		pk := packets.Packet{FixedHeader: fh, ProtocolVersion: c.version}
		switch fh.Type {
		case packets.Publish:
			if pk.PublishDecode(body) == nil && fh.Qos > 0 {
				t := packets.Puback
				if fh.Qos == 2 {
					t = packets.Pubrec
				}
				c.send(packets.Packet{FixedHeader: packets.FixedHeader{Type: t}, PacketID: pk.PacketID})
			}
		case packets.Pubrec:
			if pk.PubrecDecode(body) == nil {
				c.send(packets.Packet{FixedHeader: packets.FixedHeader{Type: packets.Pubrel, Qos: 1}, PacketID: pk.PacketID})
			}
		case packets.Pubrel:
			if pk.PubrelDecode(body) == nil {
				c.send(packets.Packet{FixedHeader: packets.FixedHeader{Type: packets.Pubcomp}, PacketID: pk.PacketID})
			}
		}
	}
}

var rcFilters = []string{"a/b", "a/+", "a/#", "#", "+/b", "$share/g/a/b", "$share/g/a/#", "x/y/z", "a/b/c"}
var rcTopics = []string{"a/b", "a/c", "a/b/c", "x/y/z", "a"}

// session: one connection of a client id; returns when it has disconnected.
func rcSession(s *mqtt.Server, rng *rand.Rand, id string, ops *uint64, wg *sync.WaitGroup) {
	rcSessionP(s, rng, id, ops, wg, false)
}

// willy = every session is MQTT 5 with a delayed will and a persistent session (the profile of the
// "will-window" scenario: overlapping sessions of one client id while delayed wills fire)
func rcSessionP(s *mqtt.Server, rng *rand.Rand, id string, ops *uint64, wg *sync.WaitGroup, willy bool) {
	bEnd, cEnd := memPipe()
	wg.Add(1)
	go func() { // the connection-handler goroutine, as a listener would start it
		defer wg.Done()
		_ = s.EstablishConnection("t1", bEnd)
		bEnd.Close()
	}()
	c := &rcClient{conn: cEnd, version: 5, nextID: 1, ops: ops}
	if rng.Intn(4) == 0 {
		c.version = 4
	}
	cp := packets.ConnectParams{ProtocolName: []byte("MQTT"), ClientIdentifier: id, Keepalive: 30, Clean: rng.Intn(3) == 0}
	props := packets.Properties{}
	if c.version == 5 && rng.Intn(2) == 0 {
		props.SessionExpiryInterval, props.SessionExpiryIntervalFlag = uint32(rng.Intn(3)), true
	}
	if c.version == 5 {
		props.ReceiveMaximum = uint16(2 + rng.Intn(4))
		props.TopicAliasMaximum = 3
	}
	if rng.Intn(2) == 0 {
		cp.WillFlag, cp.WillTopic, cp.WillPayload, cp.WillQos = true, "w/"+id, []byte("gone"), byte(rng.Intn(2))
		cp.WillRetain = rng.Intn(3) == 0
		if c.version == 5 && rng.Intn(2) == 0 {
			cp.WillProperties.WillDelayInterval = uint32(rng.Intn(2))
		}
	}
	if willy {
		c.version = 5
		cp.Clean = false
		props.SessionExpiryInterval, props.SessionExpiryIntervalFlag = 30, true
		cp.WillFlag, cp.WillTopic, cp.WillPayload, cp.WillQos = true, "w/"+id, []byte("gone"), 0
		cp.WillProperties.WillDelayInterval = 1
	}
	c.send(packets.Packet{FixedHeader: packets.FixedHeader{Type: packets.Connect}, Connect: cp, Properties: props})
	done := make(chan struct{})
	go c.reader(done)
	n := 3 + rng.Intn(10)
	for i := 0; i < n; i++ {
		switch rng.Intn(10) {
		case 0, 1, 2:
			c.nextID++
			f := rcFilters[rng.Intn(len(rcFilters))]
			c.send(packets.Packet{FixedHeader: packets.FixedHeader{Type: packets.Subscribe, Qos: 1}, PacketID: c.nextID,
				Filters: packets.Subscriptions{{Filter: f, Qos: byte(rng.Intn(3))}}})
		case 3:
			c.nextID++
			c.send(packets.Packet{FixedHeader: packets.FixedHeader{Type: packets.Unsubscribe, Qos: 1}, PacketID: c.nextID,
				Filters: packets.Subscriptions{{Filter: rcFilters[rng.Intn(len(rcFilters))]}}})
		case 4:
			c.send(packets.Packet{FixedHeader: packets.FixedHeader{Type: packets.Pingreq}})
		default:
			q := byte(rng.Intn(3))
			pk := packets.Packet{FixedHeader: packets.FixedHeader{Type: packets.Publish, Qos: q, Retain: rng.Intn(3) == 0},
				TopicName: rcTopics[rng.Intn(len(rcTopics))], Payload: []byte("p")}
			if pk.FixedHeader.Retain && rng.Intn(3) == 0 {
				pk.Payload = nil
			}
			if q > 0 {
				c.nextID++
				pk.PacketID = c.nextID
			}
			c.send(pk)
		}
		if rng.Intn(3) == 0 {
			time.Sleep(time.Duration(rng.Intn(300)) * time.Microsecond)
		}
	}
	time.Sleep(time.Duration(rng.Intn(2000)) * time.Microsecond)
	switch rng.Intn(3) {
	case 0: // abrupt close: the will fires
		cEnd.Close()
	case 1:
		d := packets.Packet{FixedHeader: packets.FixedHeader{Type: packets.Disconnect}}
		if c.version == 5 && props.SessionExpiryInterval > 0 && rng.Intn(2) == 0 {
			d.Properties.SessionExpiryInterval, d.Properties.SessionExpiryIntervalFlag = uint32(1+rng.Intn(3)), true
		}
		c.send(d)
		time.Sleep(200 * time.Microsecond)
		cEnd.Close()
	default: // leave the connection open for a moment: a later session with the same id takes it over
		d := time.Duration(1+rng.Intn(5)) * time.Millisecond
		go func() {
			time.Sleep(d)
			cEnd.Close()
		}()
		return
	}
	<-done
}

// rcWillWindow: sessions of two client ids overlap (every new session takes the previous one over,
// whose handler then registers its delayed will) while the housekeeping task that fires delayed wills
// runs continuously with a clock a few seconds ahead.
func rcWillWindow(seed int64, tier string) (string, uint64) {
	s := mqtt.New(&mqtt.Options{InlineClient: true, Logger: quietLogger()})
	_ = s.AddHook(new(auth.AllowHook), nil)
	var ops uint64
	var wg, hk, cw sync.WaitGroup
	stop := make(chan struct{})
	hk.Add(1)
	go func() {
		defer hk.Done()
		for {
			select {
			case <-stop:
				return
			default:
			}
			s.VerifTick("will", time.Now().Unix()+5)
			atomic.AddUint64(&ops, 1)
		}
	}()
	workers, rounds := 4, 60
	if tier == "thorough" {
		workers, rounds = 6, 600
	}
	for w := 0; w < workers; w++ {
		cw.Add(1)
		sub := rand.New(rand.NewSource(seed*313 + int64(w)))
		go func() {
			defer cw.Done()
			for r := 0; r < rounds; r++ {
				rcSessionP(s, sub, fmt.Sprintf("w%d", sub.Intn(2)), &ops, &wg, true)
			}
		}()
	}
	cw.Wait()
	close(stop)
	hk.Wait()
	waitTimeout(&wg, 5*time.Second)
	return "will-window", atomic.LoadUint64(&ops)
}

// rcSeiWindow: the session-expiry housekeeping runs continuously with a far-future clock while
// MQTT 5 clients connect with a Session Expiry Interval above the (lowered) server maximum (the
// handler caps it in SendConnack, after Clients.Add) and disconnect with a Session Expiry Interval
// property (the handler rewrites it in processDisconnect).  The event loop may read those fields
// only after it has seen the client stopped.
func rcSeiWindow(seed int64, tier string) (string, uint64) {
	caps := mqtt.NewDefaultServerCapabilities()
	caps.MaximumSessionExpiryInterval = 5
	s := mqtt.New(&mqtt.Options{InlineClient: true, Logger: quietLogger(), Capabilities: caps})
	_ = s.AddHook(new(auth.AllowHook), nil)
	var ops uint64
	var wg, hk, cw sync.WaitGroup
	stop := make(chan struct{})
	hk.Add(1)
	go func() {
		defer hk.Done()
		for {
			select {
			case <-stop:
				return
			default:
			}
			s.VerifTick("clients", time.Now().Unix()+1000000)
			atomic.AddUint64(&ops, 1)
		}
	}()
	workers, rounds := 4, 80
	if tier == "thorough" {
		workers, rounds = 6, 800
	}
	for w := 0; w < workers; w++ {
		cw.Add(1)
		sub := rand.New(rand.NewSource(seed*613 + int64(w)))
		go func(w int) {
			defer cw.Done()
			for r := 0; r < rounds; r++ {
				bEnd, cEnd := memPipe()
				wg.Add(1)
				go func() {
					defer wg.Done()
					_ = s.EstablishConnection("t1", bEnd)
					bEnd.Close()
				}()
				c := &rcClient{conn: cEnd, version: 5, nextID: 1, ops: &ops}
				c.send(packets.Packet{FixedHeader: packets.FixedHeader{Type: packets.Connect},
					Connect:    packets.ConnectParams{ProtocolName: []byte("MQTT"), ClientIdentifier: fmt.Sprintf("s%d-%d", w, sub.Intn(3)), Keepalive: 30},
					Properties: packets.Properties{SessionExpiryInterval: 100, SessionExpiryIntervalFlag: true}})
				done := make(chan struct{})
				go c.reader(done)
				c.send(packets.Packet{FixedHeader: packets.FixedHeader{Type: packets.Pingreq}})
				time.Sleep(time.Duration(sub.Intn(200)) * time.Microsecond)
				c.send(packets.Packet{FixedHeader: packets.FixedHeader{Type: packets.Disconnect},
					Properties: packets.Properties{SessionExpiryInterval: uint32(1 + sub.Intn(4)), SessionExpiryIntervalFlag: true}})
				time.Sleep(time.Duration(sub.Intn(200)) * time.Microsecond)
				cEnd.Close()
				<-done
			}
		}(w)
	}
	cw.Wait()
	close(stop)
	hk.Wait()
	waitTimeout(&wg, 5*time.Second)
	return "sei-window", atomic.LoadUint64(&ops)
}

func rcScenario(seed int64, tier string) (string, uint64) {
	opts := &mqtt.Options{InlineClient: true, Logger: quietLogger()}
	s := mqtt.New(opts)
	_ = s.AddHook(new(auth.AllowHook), nil)
	_ = s.AddListener(listeners.NewMockListener("t1", ":0"))
	var ops uint64
	var wg sync.WaitGroup
	workers, rounds := 8, 40
	if tier == "thorough" {
		workers, rounds = 12, 400
	}
	stop := make(chan struct{})
	// the event loop's housekeeping, driven as fast as possible with times around "now"
	var hk sync.WaitGroup
	hk.Add(1)
	go func() {
		defer hk.Done()
		r := rand.New(rand.NewSource(seed + 7))
		kinds := []string{"clients", "retained", "will", "inflight", "sys", "will", "clients"}
		for i := 0; ; i++ {
			select {
			case <-stop:
				return
			default:
			}
			s.VerifTick(kinds[i%len(kinds)], time.Now().Unix()+int64(r.Intn(4)))
			atomic.AddUint64(&ops, 1)
			time.Sleep(time.Duration(r.Intn(150)) * time.Microsecond)
		}
	}()
	// the inline API, from an application goroutine
	hk.Add(1)
	go func() {
		defer hk.Done()
		r := rand.New(rand.NewSource(seed + 11))
		for i := 0; ; i++ {
			select {
			case <-stop:
				return
			default:
			}
			switch r.Intn(4) {
			case 0:
				_ = s.Subscribe(rcFilters[r.Intn(5)], 1+r.Intn(2), func(cl *mqtt.Client, sub packets.Subscription, pk packets.Packet) {})
			case 1:
				_ = s.Unsubscribe(rcFilters[r.Intn(5)], 1+r.Intn(2))
			default:
				_ = s.Publish(rcTopics[r.Intn(len(rcTopics))], []byte("i"), r.Intn(3) == 0, byte(r.Intn(2)))
			}
			atomic.AddUint64(&ops, 1)
			time.Sleep(time.Duration(r.Intn(200)) * time.Microsecond)
		}
	}()
	var cw sync.WaitGroup
	for w := 0; w < workers; w++ {
		cw.Add(1)
		sub := rand.New(rand.NewSource(seed*131 + int64(w)))
		go func(w int) {
			defer cw.Done()
			for r := 0; r < rounds; r++ {
				id := fmt.Sprintf("c%d", sub.Intn(5)) // few ids: concurrent sessions of one id = takeovers
				rcSession(s, sub, id, &ops, &wg)
			}
		}(w)
	}
	cw.Wait()
	// shutdown while a few late connections are still being established
	for i := 0; i < 3; i++ {
		cw.Add(1)
		sub := rand.New(rand.NewSource(seed*977 + int64(i)))
		go func() { defer cw.Done(); rcSession(s, sub, fmt.Sprintf("late%d", sub.Intn(2)), &ops, &wg) }()
	}
	time.Sleep(300 * time.Microsecond)
	close(stop)
	hk.Wait()
	_ = s.Close()
	cw.Wait()
	waitTimeout(&wg, 5*time.Second)
	return "broker-mix", atomic.LoadUint64(&ops)
}

func waitTimeout(wg *sync.WaitGroup, d time.Duration) {
	ch := make(chan struct{})
	go func() { wg.Wait(); close(ch) }()
	select {
	case <-ch:
	case <-time.After(d):
	}
}

// ---------------------------------------------------------------------------------------------
// race report parsing

var reAccess = regexp.MustCompile(`^(Previous )?(?i)(atomic )?(read|write) at 0x[0-9a-f]+ by `)

type raceAccess struct {
	fn    string
	write bool
	pos   string
}

const modPrefix = "github.com/mochi-mqtt/server/v2"

// brokerFn turns "github.com/mochi-mqtt/server/v2/packets.(*Packets).Add()" into "packets.Packets.Add"
// (the naming of the translator); closures are attributed to their enclosing function.
func brokerFn(frame string) string {
	f := strings.TrimSpace(frame)
	if !strings.HasPrefix(f, modPrefix) {
		return ""
	}
	f = strings.TrimPrefix(f, modPrefix)
	if i := strings.LastIndex(f, "("); i > 0 && strings.HasSuffix(f, ")") {
		f = f[:i]
	}
	pkg := ""
	if strings.HasPrefix(f, "/") {
		j := strings.Index(f, ".")
		pkg = f[1:j]
		if k := strings.LastIndex(pkg, "/"); k >= 0 {
			pkg = pkg[k+1:]
		}
		pkg += "."
		f = f[j:]
	}
	f = strings.TrimPrefix(f, ".")
	f = strings.ReplaceAll(strings.ReplaceAll(f, "(*", ""), ")", "")
	parts := strings.Split(f, ".")
	var keep []string
	for _, p := range parts {
		if strings.HasPrefix(p, "func") || strings.HasPrefix(p, "gowrap") || p == "" {
			break
		}
		if len(p) > 0 && p[0] >= '0' && p[0] <= '9' {
			break
		}
		keep = append(keep, p)
	}
	return pkg + strings.Join(keep, ".")
}

func parseRaceReports(dir string) [][2]raceAccess {
	var out [][2]raceAccess
	files, _ := filepath.Glob(filepath.Join(dir, "race.*"))
	sort.Strings(files)
	for _, fn := range files {
		data, err := os.ReadFile(fn)
		if err != nil {
			continue
		}
		for _, block := range strings.Split(string(data), "==================") {
			if !strings.Contains(block, "WARNING: DATA RACE") {
				continue
			}
			var accs []raceAccess
			lines := strings.Split(block, "\n")
			for i := 0; i < len(lines); i++ {
				if !reAccess.MatchString(lines[i]) {
					continue
				}
				a := raceAccess{write: strings.Contains(strings.ToLower(lines[i]), "write at")}
				for j := i + 1; j+1 < len(lines) && strings.TrimSpace(lines[j]) != ""; j += 2 {
					if f := brokerFn(lines[j]); f != "" {
						a.fn = f
						p := strings.TrimSpace(lines[j+1])
						if k := strings.Index(p, " +0x"); k > 0 {
							p = p[:k]
						}
						a.pos = filepath.Base(p)
						break
					}
				}
				accs = append(accs, a)
			}
			if len(accs) >= 2 {
				out = append(out, [2]raceAccess{accs[0], accs[1]})
			}
		}
	}
	return out
}

// ---------------------------------------------------------------------------------------------

func engRace(seed int64, tier string, args []string, out *sx.Out) {
	if len(args) > 0 && args[0] == "child" {
		name, n := "", uint64(0)
		if len(args) > 1 && args[1] == "will" {
			name, n = rcWillWindow(seed, tier)
		} else if len(args) > 1 && args[1] == "sei" {
			name, n = rcSeiWindow(seed, tier)
		} else {
			name, n = rcScenario(seed, tier)
		}
		fmt.Printf("%s %d\n", name, n)
		return
	}
	dir, err := os.MkdirTemp("", "hxrace")
	if err != nil {
		fmt.Fprintln(os.Stderr, err)
		os.Exit(3)
	}
	defer os.RemoveAll(dir)
	runs := 4
	if tier == "thorough" {
		runs = 12
	}
	seen := map[string]bool{}
	for r := 0; r < runs; r++ {
		sub := filepath.Join(dir, fmt.Sprintf("r%d", r))
		os.MkdirAll(sub, 0o755)
		kind := []string{"mix", "will", "sei", "mix"}[r%4]
		cmd := exec.Command(os.Args[0], "race", "-seed", fmt.Sprint(seed+int64(r)*7919), "-tier", tier, "child", kind)
		cmd.Env = append(os.Environ(), "GORACE=log_path="+filepath.Join(sub, "race")+" halt_on_error=0 history_size=3")
		var so, se bytes.Buffer
		cmd.Stdout, cmd.Stderr = &so, &se
		done := make(chan error, 1)
		go func() { done <- cmd.Run() }()
		var runErr error
		select {
		case runErr = <-done:
		case <-time.After(10 * time.Minute):
			cmd.Process.Kill()
			runErr = fmt.Errorf("timeout")
		}
		fields := strings.Fields(so.String())
		name, nops := "broker-mix", uint64(0)
		if len(fields) >= 2 {
			name = fields[0]
			fmt.Sscan(fields[1], &nops)
		} else if runErr != nil {
			// exit status 66 is the race detector's; anything else without output is a crash / hang
			fmt.Fprintf(os.Stderr, "race child failed: %v\n%s\n", runErr, tail(se.String(), 3000))
			os.Exit(3)
		}
		reports := parseRaceReports(sub)
		distinct := 0
		var cases []sx.V
		for _, rp := range reports {
			a, b := rp[0], rp[1]
			if a.fn == "" && b.fn == "" {
				fmt.Fprintln(os.Stderr, "race report without broker frames (harness?) ignored")
				continue
			}
			if a.fn > b.fn || (a.fn == b.fn && a.pos > b.pos) {
				a, b = b, a
			}
			key := fmt.Sprintf("%s|%v|%s|%s|%v|%s", a.fn, a.write, a.pos, b.fn, b.write, b.pos)
			if seen[key] {
				continue
			}
			seen[key] = true
			distinct++
			cases = append(cases, sx.L{sx.N(1), sx.S(a.fn), sx.Bool(a.write), sx.S(b.fn), sx.Bool(b.write),
				sx.S(fmt.Sprintf("%s %s vs %s %s", rw(a.write), a.pos, rw(b.write), b.pos))})
		}
		out.Case(sx.L{sx.N(0), sx.S(fmt.Sprintf("%s/%d", name, r)), sx.N(distinct), sx.N(nops)})
		for _, c := range cases {
			out.Case(c)
		}
	}
}

func rw(w bool) string {
	if w {
		return "write"
	}
	return "read"
}

func tail(s string, n int) string {
	if len(s) > n {
		return s[len(s)-n:]
	}
	return s
}
