package main

import (
	"math/rand"
	"strings"

	mqtt "github.com/mochi-mqtt/server/v2"
	"github.com/mochi-mqtt/server/v2/packets"

	"verifharness/broker"
	"verifharness/sx"
)

func init() { engines["respond"] = engRespond }

// C07: every request that requires a response gets one.  Drives the real broker through
// sessions of requests (PUBLISH QoS 0-2 with colliding ids, PUBREL, SUBSCRIBE, UNSUBSCRIBE,
// PINGREQ) on valid / $SYS / denied topics and emits, per request, the decision context the
// Coq model needs together with what the requesting connection received.
func engRespond(seed int64, tier string, _ []string, out *sx.Out) {
	rng := rand.New(rand.NewSource(seed))
	sessions := 60
	reqs := 40
	if tier == "thorough" {
		sessions, reqs = 1500, 60
	}
	acl := func(cl *mqtt.Client, topic string, write bool) bool { return !strings.HasPrefix(topic, "deny") }
	topics := []string{"a/b", "a/c", "$SYS/x", "deny/w", "x", "$share/g/a", "a/b"}
	filters := []string{"a/b", "a/#", "+/c", "deny/x", "$share/g/a/+", "bad#filter", "a/+x", "$SYS/#", "x", "$share//a"}
	for s := 0; s < sessions; s++ {
		ver := []byte{3, 4, 5, 5}[s%4]
		maxqos := byte(2)
		if s%5 == 3 {
			maxqos = 1
		} else if s%5 == 4 {
			maxqos = 0
		}
		obscure := s%7 == 2
		caps := mqtt.NewDefaultServerCapabilities()
		caps.MaximumQos = maxqos
		caps.Compatibilities.ObscureNotAuthorized = obscure
		if s%6 == 1 {
			caps.ReceiveMaximum = 1
		}
		b := broker.New(broker.Opts{Caps: caps, Auth: broker.AllowAuth, ACL: acl})
		var c *broker.Conn
		// every eighth session (MQTT 5): the client announces Maximum Packet Size 64 and half of its
		// SUBSCRIBE / UNSUBSCRIBE requests carry so many filters that the SUBACK / UNSUBACK (n + 5
		// bytes) cannot be sent: the broker has to end the connection instead of staying silent
		mps := uint32(0)
		if ver == 5 && s%8 == 6 {
			mps = 64
		}
		connect := func() {
			cp := broker.ConnectPk("c", ver, false)
			if mps > 0 {
				cp.Properties.MaximumPacketSize = mps
			}
			c = b.Connect("10.0.0.1:1", cp)
			b.Drain()
		}
		connect()
		for i := 0; i < reqs; i++ {
			if c.MC.Closed() || c.Done() {
				connect()
			}
			var pk packets.Packet
			switch k := rng.Intn(10); {
			case k < 4:
				qos := byte(rng.Intn(3))
				pid := uint16(0)
				if qos > 0 {
					pid = uint16(1 + rng.Intn(3))
				}
				pk = broker.PublishPk(topics[rng.Intn(len(topics))], []byte("m"), qos, rng.Intn(4) == 0, pid)
			case k < 6:
				rc := byte(0)
				if rng.Intn(3) == 0 && ver == 5 {
					rc = 0x92
				}
				pk = broker.AckPk(packets.Pubrel, uint16(1+rng.Intn(3)), rc)
			case k < 8:
				n := 1 + rng.Intn(3)
				if mps > 0 && rng.Intn(2) == 0 {
					n = int(mps) - 2 + rng.Intn(20) // n + 5 >= mps + 3
				}
				subs := []packets.Subscription{}
				for j := 0; j < n; j++ {
					f := filters[rng.Intn(len(filters))]
					subs = append(subs, packets.Subscription{Filter: f, Qos: byte(rng.Intn(3)),
						NoLocal: ver == 5 && rng.Intn(5) == 0})
				}
				pk = broker.SubscribePk(uint16(1+rng.Intn(4)), subs...)
			case k < 9:
				n := 1 + rng.Intn(3)
				if mps > 0 && rng.Intn(2) == 0 {
					n = int(mps) - 2 + rng.Intn(20)
				}
				fs := []string{}
				for j := 0; j < n; j++ {
					fs = append(fs, filters[rng.Intn(len(filters))])
				}
				pk = broker.UnsubscribePk(uint16(1+rng.Intn(4)), fs...)
			default:
				pk = broker.PingPk()
			}
			pk.ProtocolVersion = ver
			// decision context, read from the real broker state before the request
			snap := b.Srv.VerifSnapshot()
			var me *mqtt.VerifClient
			for j := range snap.Clients {
				if snap.Clients[j].ID == "c" {
					me = &snap.Clients[j]
				}
			}
			infl := sx.L{}
			recvq := int64(0)
			subsNow := map[string]bool{}
			if me != nil {
				recvq = int64(me.RecvQuota)
				for _, r := range me.Inflight {
					if r.PacketID == pk.PacketID {
						infl = sx.L{sx.N(uint64(r.Type))}
					}
				}
				for _, sb := range me.Subscriptions {
					subsNow[sb.Filter] = true
				}
			}
			fl := sx.L{}
			for _, f := range pk.Filters {
				fl = append(fl, sx.L{sx.Bool(mqtt.IsValidFilter(f.Filter, false)), sx.Bool(mqtt.IsSharedFilter(f.Filter)),
					sx.Bool(acl(nil, f.Filter, false)), sx.Bool(subsNow[f.Filter])})
				if pk.FixedHeader.Type == packets.Unsubscribe {
					delete(subsNow, f.Filter) // a filter repeated within one UNSUBSCRIBE exists only the first time
				}
			}
			topicValid := mqtt.IsValidFilter(pk.TopicName, true)
			aclw := acl(nil, pk.TopicName, true)
			if err := b.SendPacket(c, pk); err != nil {
				continue
			}
			outs := sx.L{}
			closed := false
			for _, o := range b.Drain() {
				if o.Conn == c.Idx {
					for _, q := range o.Packets {
						outs = append(outs, broker.PkSx(q))
					}
					closed = o.Closed
				}
			}
			neg := sx.L{sx.N(0), sx.N(uint64(recvq))}
			if recvq < 0 {
				neg = sx.L{sx.N(1), sx.N(uint64(-recvq))}
			}
			isSub := pk.FixedHeader.Type == packets.Subscribe || pk.FixedHeader.Type == packets.Unsubscribe
			tooLarge := mps > 0 && isSub && len(pk.Filters)+5 > int(mps)
			out.Case(sx.L{sx.N(uint64(ver)), sx.N(uint64(maxqos)), sx.Bool(obscure), sx.Bool(topicValid), neg,
				sx.Bool(aclw), infl, fl, broker.PkSx(pk), outs, sx.Bool(closed), sx.Bool(tooLarge)})
		}
		b.Shutdown()
	}
}
