package main

// hx restart (C20) and hx crash (C21): generated client histories against a real broker with a real
// storage hook, shutdown (C20) or a simulated process death after the k-th storage write (C21),
// restart on the same store through VerifReadStore, and snapshots of the in-memory state.
//
//   restart case: (backend events snapshot-at-shutdown snapshot-after-restart)
//   crash case:   (backend events k cut-event cut-writes snapshot-after-restart)

import (
	"fmt"
	"math/rand"
	"strings"
	"time"

	"github.com/mochi-mqtt/server/v2/packets"

	"verifharness/sx"
)

func init() {
	engines["restart"] = engRestart
	engines["crash"] = engCrash
	engines["subinvalid_restart"] = engSubInvalidRestart
	engines["restart_life"] = engRestartLife
	engines["restart_expiry"] = engRestartExpiry
}

// hx restart_life (C14, restart clause): the two-life histories (a broker process ended by shutdown or
// killed, the store-loading step, a second process in which client ids come back with Clean Start 1 or
// a new persistent session, a final restart), as restart cases.
func engRestartLife(seed int64, tier string, _ []string, out *sx.Out) {
	env := newStoreEnv()
	defer env.close()
	twoLifeCases(env, rand.New(rand.NewSource(seed)), tier, false, out)
}

// hx restart_expiry (C25, restart clause): server maximum {0, 4, 86400} s x MQTT 5 publishes with message
// expiry interval {0, 2, 10, 100000} and an MQTT 3.1.1 publish, retained and queued for an offline
// persistent session, on every back end; shutdown; restart on the same store; housekeeping with times
// around every deadline.
//   case: (backend maximum events ((now (retained topics) ((client packet-id) ...)) ...))
func engRestartExpiry(seed int64, tier string, _ []string, out *sx.Out) {
	env := newStoreEnv()
	defer env.close()
	defer func() { rsMaxCap = -1 }()
	for _, maxcap := range []int64{0, 4, 86400} {
		for be := 0; be < beCount; be++ {
			rsMaxCap = maxcap
			loc := env.fresh(be)
			hook, cfg := env.hookConfig(loc)
			b, err := newRsBroker(hook, cfg, -1)
			if err != nil {
				panic(err)
			}
			s := &rsScript{rng: rand.New(rand.NewSource(seed)), b: b}
			sub := s.conn(rsConnect{id: "late:1", ver: 5, sei: 3600, seiFlag: true})
			s.sub(sub, "t/#", 1)
			s.drop(sub)
			p5 := s.conn(rsConnect{id: "p5", ver: 5, clean: true})
			p4 := s.conn(rsConnect{id: "p4", ver: 4, clean: true})
			base := time.Now().Unix()
			for _, mei := range []uint32{0, 2, 10, 100000} {
				s.pub(p5, fmt.Sprintf("t/%d", mei), "m", 1, true, mei)
			}
			s.pub(p4, "t/v4", "m", 1, true, 0)
			b.shutdown()
			rsPlayed++
			if b.raceHit {
				skipHistory(out, "restart_expiry history abandoned")
				env.discard(loc)
				continue
			}
			evs, _ := b.rec.snapshotEvents()
			hook2, cfg2 := env.hookConfig(loc)
			b2, err := newRsBroker(hook2, cfg2, -2)
			if err != nil {
				panic(err)
			}
			if err := b2.srv.VerifReadStore(); err != nil {
				panic(err)
			}
			ticks := sx.L{}
			offs := []int64{}
			for k := int64(0); k <= 14; k++ {
				offs = append(offs, k)
			}
			for _, c := range []int64{86400, 100000} {
				for k := int64(-2); k <= 4; k++ {
					offs = append(offs, c+k)
				}
			}
			for _, off := range offs {
				now := base + off
				b2.srv.VerifTick("retained", now)
				b2.srv.VerifTick("inflight", now)
				topics, ifm := sx.L{}, sx.L{}
				for t := range b2.srv.Topics.Retained.GetAll() {
					if !strings.HasPrefix(t, "$SYS") {
						topics = append(topics, sx.S(t))
					}
				}
				for id, cl := range b2.srv.Clients.GetAll() {
					for _, pk := range cl.State.Inflight.GetAll(false) {
						ifm = append(ifm, sx.L{sx.S(id), sx.N(pk.PacketID)})
					}
				}
				ticks = append(ticks, sx.L{sx.N(uint64(now)), sortedL(topics), sortedL(ifm)})
			}
			_ = b2.srv.Close()
			out.Comment(fmt.Sprintf("server maximum %d backend %s: %s", maxcap, beNames[be], strings.Join(s.log, "; ")))
			out.Case(sx.L{sx.N(be), sx.N(uint64(maxcap)), evs, ticks})
			env.discard(loc)
		}
	}
}

// hx subinvalid_restart (C30, restart clause): a persistent session of an MQTT 3.1 / 3.1.1 / 5 client
// sends SUBSCRIBE packets mixing accepted filters with refused ones (invalid, not authorised), on every
// storage back end; shutdown; what the store holds; restart on the same store.
//   case: (backend events snapshot-at-shutdown stored-subscriptions snapshot-after-restart)
func engSubInvalidRestart(seed int64, tier string, _ []string, out *sx.Out) {
	env := newStoreEnv()
	defer env.close()
	rng := rand.New(rand.NewSource(seed))
	bad := []string{"a/#/b", "a+", "a/b#", "#/a", "+a/b", "$share/+/a", "$share/g", "$share/g#/a", "$share//t", "", "deny/x", "deny/+/y", "$share/g/deny/x"}
	good := []string{"ok/a", "ok:b/#", "+/c", "$share/g:1/ok/a", "ü/+"}
	n := 2
	if tier == "thorough" {
		n = 12
	}
	for round := 0; round < n; round++ {
		for _, ver := range []byte{3, 4, 5} {
			for be := 0; be < beCount; be++ {
				loc := env.fresh(be)
				hook, cfg := env.hookConfig(loc)
				b, err := newRsBroker(hook, cfg, -1)
				if err != nil {
					panic(err)
				}
				s := &rsScript{rng: rng, b: b}
				c := s.conn(rsConnect{id: fmt.Sprintf("c:%d", ver), ver: ver, sei: 3600, seiFlag: true})
				for i := 0; i < 4; i++ {
					subs := packets.Subscriptions{}
					for j := 0; j < 1+rng.Intn(4); j++ {
						f := bad[(round*7+i*3+j+int(ver))%len(bad)]
						if rng.Intn(3) == 0 {
							f = good[rng.Intn(len(good))]
						}
						subs = append(subs, packets.Subscription{Filter: f, Qos: byte(rng.Intn(3))})
					}
					if c.finished() {
						break
					}
					s.note("subscribe %v", subs)
					s.b.send(c, packets.Packet{FixedHeader: packets.FixedHeader{Type: packets.Subscribe, Qos: 1}, PacketID: c.pid(), Filters: subs})
				}
				b.shutdown()
				rsPlayed++
				if b.raceHit {
					skipHistory(out, "subinvalid_restart history abandoned")
					env.discard(loc)
					continue
				}
				snap1 := snapshot(b.srv)
				evs, _ := b.rec.snapshotEvents()
				h, err := env.open(loc)
				if err != nil {
					panic(err)
				}
				stored := sx.L{}
				ss, _ := h.StoredSubscriptions()
				for _, x := range ss {
					stored = append(stored, sx.L{sx.S(x.Client), sx.S(x.Filter), sx.N(x.Qos)})
				}
				_ = h.Stop()
				snap2 := restartOn(env, loc)
				out.Comment(fmt.Sprintf("v%d backend %s: %s", ver, beNames[be], strings.Join(s.log, "; ")))
				out.Case(sx.L{sx.N(be), evs, snap1, sortedL(stored), snap2})
				env.discard(loc)
			}
		}
	}
}

// client ids, filters and topics of the generated histories: separators of the storage keys
// (':' '_' '/'), unicode, and the pairs ("a","b:c") / ("a:b","c") whose subscription keys collide
var rsIDs = []string{"a", "a:b", "b", "a_b", "ü:é", "c/d:1", "SUB_a", "a:", "日本"}
var rsFilters = []string{"c", "b:c", "a/+", "x:y/#", "a_b/c", "ü/+", "#", "$share/g:1/a/b", "a/b"}
// filters the broker refuses: invalid (0x8F, 0x80 for MQTT 3) or not authorised (0x87 / 0x80)
var rsRefused = []string{"a/#/b", "a+", "$share/+/a", "$share/g", "deny/x", "deny/#", "a/b#", "$share//t"}
var rsTopics = []string{"c", "b:c", "a/b", "x:y/z", "a_b/c", "ü/é", "a/c"}

type rsScript struct {
	rng   *rand.Rand
	b     *rsBroker
	log   []string
	now   int64
	nconn int
}

func (s *rsScript) note(f string, a ...any) { s.log = append(s.log, fmt.Sprintf(f, a...)) }

func (s *rsScript) live() []*rsClient {
	out := []*rsClient{}
	for _, c := range s.b.clients {
		if !c.gone && !c.finished() {
			out = append(out, c)
		}
	}
	return out
}

func (s *rsScript) opConnect(id string) {
	r := s.rng
	o := rsConnect{id: id, ver: []byte{4, 5, 5, 3}[r.Intn(4)], clean: r.Intn(3) == 0}
	for _, c := range s.b.clients { // an id seen before: half of the time a Clean Start over the old session
		if c.id == id && r.Intn(2) == 0 {
			o.clean = true
		}
	}
	if o.ver == 5 {
		o.seiFlag = r.Intn(4) > 0
		if o.seiFlag {
			o.sei = []uint32{0, 30, 3600, 4294967295}[r.Intn(4)]
		}
	}
	if o.ver == 5 && r.Intn(3) == 0 {
		o.recvMax = uint16(1 + r.Intn(2))
	}
	if r.Intn(4) == 0 {
		o.will = true
		o.willRet = r.Intn(2) == 0
		if r.Intn(2) == 0 {
			o.willDly = 5
		}
	}
	if r.Intn(4) == 0 {
		o.username = "u:" + id
	}
	s.note("connect id=%q v%d clean=%v sei=%d/%v will=%v/%d recvmax=%d", o.id, o.ver, o.clean, o.sei, o.seiFlag, o.will, o.willDly, o.recvMax)
	s.b.connect(o)
	s.nconn++
}

func (s *rsScript) opSubscribe(c *rsClient) {
	r := s.rng
	n := 1 + r.Intn(2)
	pk := packets.Packet{FixedHeader: packets.FixedHeader{Type: packets.Subscribe, Qos: 1}, PacketID: c.pid()}
	for i := 0; i < n; i++ {
		f := rsFilters[r.Intn(len(rsFilters))]
		if r.Intn(5) == 0 {
			f = rsRefused[r.Intn(len(rsRefused))]
		}
		sub := packets.Subscription{Filter: f, Qos: byte(r.Intn(3))}
		if c.ver == 5 {
			sub.NoLocal = r.Intn(4) == 0 && !strings.HasPrefix(f, "$share")
			sub.RetainAsPublished = r.Intn(3) == 0
			sub.RetainHandling = byte(r.Intn(3))
		}
		pk.Filters = append(pk.Filters, sub)
	}
	if c.ver == 5 && r.Intn(3) == 0 {
		pk.Properties.SubscriptionIdentifier = []int{1 + r.Intn(200)}
	}
	s.note("subscribe id=%q %v", c.id, pk.Filters)
	s.b.send(c, pk)
}

func (s *rsScript) opUnsubscribe(c *rsClient) {
	r := s.rng
	pk := packets.Packet{FixedHeader: packets.FixedHeader{Type: packets.Unsubscribe, Qos: 1}, PacketID: c.pid()}
	if r.Intn(6) == 0 {
		pk.PacketID = 1 // may collide with a packet identifier the broker uses towards this client
	}
	pk.Filters = packets.Subscriptions{{Filter: rsFilters[r.Intn(len(rsFilters))]}}
	s.note("unsubscribe id=%q pid=%d %q", c.id, pk.PacketID, pk.Filters[0].Filter)
	s.b.send(c, pk)
}

func (s *rsScript) opPublish(c *rsClient) {
	r := s.rng
	pk := packets.Packet{FixedHeader: packets.FixedHeader{Type: packets.Publish, Qos: byte(r.Intn(3)), Retain: r.Intn(2) == 0},
		TopicName: rsTopics[r.Intn(len(rsTopics))], Payload: []byte(fmt.Sprintf("m%d", r.Intn(1000)))}
	if pk.FixedHeader.Retain && r.Intn(5) == 0 {
		pk.Payload = nil
	}
	if pk.FixedHeader.Qos > 0 {
		pk.PacketID = c.pid()
	}
	if c.ver == 5 && r.Intn(2) == 0 {
		pk.Properties.MessageExpiryInterval = []uint32{5, 60, 100000}[r.Intn(3)]
		if r.Intn(2) == 0 {
			pk.Properties.PayloadFormat, pk.Properties.PayloadFormatFlag = byte(r.Intn(2)), true
			pk.Properties.ContentType = "text/ü"
			pk.Properties.ResponseTopic = "r:1/t"
			pk.Properties.CorrelationData = []byte{0, 1, 255}
			pk.Properties.User = []packets.UserProperty{{Key: "k:", Val: "v_"}}
		}
	}
	if c.ver == 5 && r.Intn(3) == 0 { // sent with a topic alias (the topic name is given as well: first use)
		pk.Properties.TopicAlias, pk.Properties.TopicAliasFlag = uint16(1+r.Intn(9)), true
	}
	s.note("publish id=%q topic=%q qos=%d retain=%v len=%d mei=%d alias=%d", c.id, pk.TopicName, pk.FixedHeader.Qos, pk.FixedHeader.Retain,
		len(pk.Payload), pk.Properties.MessageExpiryInterval, pk.Properties.TopicAlias)
	s.b.send(c, pk)
}

// opAnswer lets a client answer one outstanding packet of the QoS flows.
func (s *rsScript) opAnswer(c *rsClient) bool {
	c.scan()
	if s.rng.Intn(8) == 0 && (len(c.recs)+len(c.rels)+len(c.pubs) > 0) {
		// fault: the broker's answer to what the client sends next cannot be written
		s.note("writes to id=%q fail from now on", c.id)
		c.conn.failWrites()
	}
	switch {
	case len(c.recs) > 0:
		id := c.recs[0]
		c.recs = c.recs[1:]
		s.note("pubrel id=%q pid=%d", c.id, id)
		s.b.send(c, packets.Packet{FixedHeader: packets.FixedHeader{Type: packets.Pubrel, Qos: 1}, PacketID: id})
	case len(c.rels) > 0:
		id := c.rels[0]
		c.rels = c.rels[1:]
		s.note("pubcomp id=%q pid=%d", c.id, id)
		s.b.send(c, packets.Packet{FixedHeader: packets.FixedHeader{Type: packets.Pubcomp}, PacketID: id})
	case len(c.pubs) > 0:
		p := c.pubs[0]
		c.pubs = c.pubs[1:]
		t := byte(packets.Puback)
		if p.qos == 2 {
			t = packets.Pubrec
		}
		s.note("ack id=%q pid=%d qos=%d", c.id, p.pid, p.qos)
		s.b.send(c, packets.Packet{FixedHeader: packets.FixedHeader{Type: t}, PacketID: p.pid})
	default:
		return false
	}
	return true
}

func (s *rsScript) opDisconnect(c *rsClient) {
	r := s.rng
	c.gone = true
	if r.Intn(2) == 0 {
		s.note("drop id=%q", c.id)
		c.conn.Close()
		<-c.done
		s.b.settle()
		return
	}
	pk := packets.Packet{FixedHeader: packets.FixedHeader{Type: packets.Disconnect}}
	if c.ver == 5 && r.Intn(3) == 0 {
		pk.Properties.SessionExpiryInterval = []uint32{0, 50}[r.Intn(2)]
		pk.Properties.SessionExpiryIntervalFlag = true
	}
	s.note("disconnect id=%q sei=%d/%v", c.id, pk.Properties.SessionExpiryInterval, pk.Properties.SessionExpiryIntervalFlag)
	s.b.send(c, pk)
	c.conn.Close()
	<-c.done
	s.b.settle()
}

func (s *rsScript) opTick() {
	r := s.rng
	kind := []string{"clients", "retained", "inflight", "will", "sys"}[r.Intn(5)]
	dt := []int64{0, 10, 40, 4000, 200000}[r.Intn(5)]
	s.note("tick %s +%d", kind, dt)
	s.b.srv.VerifTick(kind, time.Now().Unix()+dt)
	s.b.settle()
}

// step performs one random operation.
func (s *rsScript) step() {
	r := s.rng
	live := s.live()
	k := r.Intn(20)
	switch {
	case len(live) == 0 || k < 3:
		id := rsIDs[r.Intn(len(rsIDs))]
		if len(s.b.clients) > 0 && r.Intn(2) == 0 { // reconnect or take over
			id = s.b.clients[r.Intn(len(s.b.clients))].id
		}
		s.opConnect(id)
	case k < 7:
		s.opSubscribe(live[r.Intn(len(live))])
	case k < 8:
		s.opUnsubscribe(live[r.Intn(len(live))])
	case k < 13:
		s.opPublish(live[r.Intn(len(live))])
	case k < 16:
		for _, c := range live {
			if s.opAnswer(c) {
				return
			}
		}
		s.opPublish(live[r.Intn(len(live))])
	case k < 18:
		s.opDisconnect(live[r.Intn(len(live))])
	default:
		s.opTick()
	}
}

// ---------- directed histories: one per hazard of the persistence path ----------

func (s *rsScript) sub(c *rsClient, filter string, qos byte) {
	s.note("subscribe id=%.40q %q qos=%d", c.id, filter, qos)
	s.b.send(c, packets.Packet{FixedHeader: packets.FixedHeader{Type: packets.Subscribe, Qos: 1}, PacketID: c.pid(),
		Filters: packets.Subscriptions{{Filter: filter, Qos: qos}}})
}

func (s *rsScript) unsub(c *rsClient, filter string, pid uint16) {
	s.note("unsubscribe id=%q %q pid=%d", c.id, filter, pid)
	s.b.send(c, packets.Packet{FixedHeader: packets.FixedHeader{Type: packets.Unsubscribe, Qos: 1}, PacketID: pid,
		Filters: packets.Subscriptions{{Filter: filter}}})
}

func (s *rsScript) pub(c *rsClient, topic, payload string, qos byte, retain bool, mei uint32) {
	pk := packets.Packet{FixedHeader: packets.FixedHeader{Type: packets.Publish, Qos: qos, Retain: retain}, TopicName: topic, Payload: []byte(payload)}
	if qos > 0 {
		pk.PacketID = c.pid()
	}
	pk.Properties.MessageExpiryInterval = mei
	s.note("publish id=%q topic=%q qos=%d retain=%v mei=%d", c.id, topic, qos, retain, mei)
	s.b.send(c, pk)
}

func (s *rsScript) drop(c *rsClient) {
	s.note("drop id=%q", c.id)
	c.gone = true
	c.conn.Close()
	<-c.done
	s.b.settle()
}

func (s *rsScript) tick(kind string, dt int64) {
	s.note("tick %s +%d", kind, dt)
	s.b.srv.VerifTick(kind, time.Now().Unix()+dt)
	s.b.settle()
}

func (s *rsScript) conn(o rsConnect) *rsClient {
	s.note("connect id=%.40q v%d clean=%v sei=%d/%v will=%v/%d", o.id, o.ver, o.clean, o.sei, o.seiFlag, o.will, o.willDly)
	return s.b.connect(o)
}

var directed = []func(s *rsScript){
	// subscription keys "<id>:<filter>" of ("a","b:c") and ("a:b","c") coincide; unsubscribing one deletes the other
	func(s *rsScript) {
		a := s.conn(rsConnect{id: "a", ver: 4})
		ab := s.conn(rsConnect{id: "a:b", ver: 4})
		s.sub(a, "b:c", 1)
		s.sub(ab, "c", 2)
	},
	func(s *rsScript) {
		a := s.conn(rsConnect{id: "a", ver: 4})
		ab := s.conn(rsConnect{id: "a:b", ver: 4})
		s.sub(ab, "c", 2)
		s.sub(a, "b:c", 1)
		s.unsub(a, "b:c", a.pid())
	},
	// a take-over: the old connection had session expiry 0 and a will, the new one keeps the session
	func(s *rsScript) {
		old := s.conn(rsConnect{id: "t:1", ver: 5, sei: 0, seiFlag: true, will: true})
		s.sub(old, "x:y/#", 1)
		nw := s.conn(rsConnect{id: "t:1", ver: 5, sei: 3600, seiFlag: true})
		s.sub(nw, "a/+", 2)
		p := s.conn(rsConnect{id: "p", ver: 5, clean: true})
		s.pub(p, "a/b", "m1", 1, false, 60)
	},
	// UNSUBSCRIBE whose packet identifier is in use by an outbound QoS 1 publish: nothing is unsubscribed
	func(s *rsScript) {
		c := s.conn(rsConnect{id: "u_1", ver: 5, sei: 100, seiFlag: true})
		s.sub(c, "a/+", 1)
		p := s.conn(rsConnect{id: "p", ver: 4, clean: true})
		s.pub(p, "a/b", "m1", 1, false, 0) // reaches u_1 with packet identifier 1, not acknowledged
		s.unsub(c, "a/+", 1)
	},
	// outbound QoS 2: the receiver has sent PUBREC, the broker holds a PUBREL
	func(s *rsScript) {
		c := s.conn(rsConnect{id: "q/2", ver: 4})
		s.sub(c, "a/b", 2)
		p := s.conn(rsConnect{id: "p", ver: 5, clean: true})
		s.pub(p, "a/b", "m2", 2, true, 30)
		s.opAnswer(p) // PUBREL of the publisher
		s.opAnswer(c) // PUBREC of the receiver
	},
	// a session that expired by time, then a new session with the same client id
	func(s *rsScript) {
		c := s.conn(rsConnect{id: "e", ver: 5, sei: 30, seiFlag: true})
		s.sub(c, "old/#", 1)
		p := s.conn(rsConnect{id: "p", ver: 4, clean: true})
		s.pub(p, "old/x", "m3", 1, false, 0)
		s.drop(c)
		s.tick("clients", 40)
		c2 := s.conn(rsConnect{id: "e", ver: 5, sei: 600, seiFlag: true})
		s.sub(c2, "new/#", 1)
	},
	// session expiry changed by DISCONNECT, a will cleared by a clean disconnect, a delayed will
	func(s *rsScript) {
		c := s.conn(rsConnect{id: "d", ver: 5, sei: 500, seiFlag: true, will: true, willRet: true})
		s.sub(c, "c", 0)
		c.gone = true
		pk := packets.Packet{FixedHeader: packets.FixedHeader{Type: packets.Disconnect}}
		pk.Properties.SessionExpiryInterval, pk.Properties.SessionExpiryIntervalFlag = 50, true
		s.note("disconnect id=d sei=50")
		s.b.send(c, pk)
		c.conn.Close()
		<-c.done
		w := s.conn(rsConnect{id: "w", ver: 5, sei: 500, seiFlag: true, will: true, willDly: 5, willRet: true})
		s.drop(w)
	},
	// a client id longer than bbolt's largest key (32768 bytes with the "CL_" prefix)
	func(s *rsScript) {
		c := s.conn(rsConnect{id: strings.Repeat("k", 32766), ver: 4})
		s.sub(c, "a/b", 1)
	},
	// several records per type whose keys sort so that records with many non-default fields and records
	// with none alternate (a decoder reusing one struct for all records would carry fields over): three
	// sessions with mixed connect settings, six subscriptions with mixed options, in-flight and retained
	// messages with and without properties
	func(s *rsScript) {
		full := func(pk *packets.Packet) {
			pk.Properties.PayloadFormat, pk.Properties.PayloadFormatFlag = 1, true
			pk.Properties.MessageExpiryInterval = 600
			pk.Properties.ContentType, pk.Properties.ResponseTopic = "text/ü", "r:1/t"
			pk.Properties.CorrelationData = []byte{0, 1, 255}
			pk.Properties.User = []packets.UserProperty{{Key: "k:", Val: "v_"}}
		}
		subOpt := func(c *rsClient, f string, sub packets.Subscription, ident int) {
			sub.Filter = f
			pk := packets.Packet{FixedHeader: packets.FixedHeader{Type: packets.Subscribe, Qos: 1}, PacketID: c.pid(), Filters: packets.Subscriptions{sub}}
			if ident > 0 {
				pk.Properties.SubscriptionIdentifier = []int{ident}
			}
			s.note("subscribe id=%q %v ident=%d", c.id, sub, ident)
			s.b.send(c, pk)
		}
		m0 := s.conn(rsConnect{id: "m0", ver: 4})
		m1 := s.conn(rsConnect{id: "m1", ver: 5, sei: 3600, seiFlag: true, will: true, willDly: 7, willRet: true, username: "u:1", recvMax: 9})
		m2 := s.conn(rsConnect{id: "m2", ver: 3})
		m3 := s.conn(rsConnect{id: "m3", ver: 5, sei: 50, seiFlag: true, username: "u3"})
		subOpt(m0, "p/0", packets.Subscription{Qos: 0}, 0)
		subOpt(m1, "p/1", packets.Subscription{Qos: 2, RetainAsPublished: true, RetainHandling: 2}, 7)
		subOpt(m1, "q", packets.Subscription{Qos: 0}, 0)
		subOpt(m2, "p/2", packets.Subscription{Qos: 1}, 0)
		subOpt(m3, "a", packets.Subscription{Qos: 2, NoLocal: true, RetainAsPublished: true, RetainHandling: 1}, 9)
		subOpt(m3, "p/1", packets.Subscription{Qos: 1}, 0)
		subOpt(m3, "z", packets.Subscription{Qos: 0, NoLocal: true}, 3)
		pf := s.conn(rsConnect{id: "pf", ver: 5, clean: true})
		pb := s.conn(rsConnect{id: "pb", ver: 4, clean: true})
		send := func(c *rsClient, topic string, retain, props bool) {
			pk := packets.Packet{FixedHeader: packets.FixedHeader{Type: packets.Publish, Qos: 1, Retain: retain}, TopicName: topic,
				Payload: []byte("x" + topic), PacketID: c.pid()}
			if props {
				full(&pk)
			}
			s.note("publish id=%q topic=%q retain=%v props=%v", c.id, topic, retain, props)
			s.b.send(c, pk)
		}
		send(pf, "p/1", false, true)  // m1 and m3: packet id 1, all properties
		send(pb, "p/1", false, false) // m1 and m3: packet id 2, none
		send(pb, "p/2", false, false) // m2: packet id 1, none
		send(pf, "p/2", false, true)  // m2: packet id 2, all properties
		send(pb, "p/0", false, false)
		send(pf, "r/1", true, true)
		send(pb, "r/2", true, false)
		send(pf, "r/3", true, true)
		send(pb, "r/0", true, false)
	},
	// refused filters (invalid, not authorised) mixed with accepted ones, for MQTT 3.1, 3.1.1 and 5 sessions
	func(s *rsScript) {
		for i, ver := range []byte{3, 4, 5} {
			c := s.conn(rsConnect{id: fmt.Sprintf("iv:%d", ver), ver: ver, sei: 3600, seiFlag: true})
			subs := packets.Subscriptions{{Filter: "ok/a", Qos: 1}, {Filter: rsRefused[i], Qos: 1}, {Filter: "deny/x", Qos: 2},
				{Filter: "$share/+/a", Qos: 0}, {Filter: "ok:b/#", Qos: 2}}
			s.note("subscribe id=%q v%d %v", c.id, ver, subs)
			s.b.send(c, packets.Packet{FixedHeader: packets.FixedHeader{Type: packets.Subscribe, Qos: 1}, PacketID: c.pid(), Filters: subs})
			s.sub(c, "a/#/b", 1)
		}
	},
	// faults: the broker's answer cannot be written (peer gone) when it answers a PUBREC with PUBREL ...
	func(s *rsScript) {
		c := s.conn(rsConnect{id: "f:1", ver: 5, sei: 3600, seiFlag: true})
		s.sub(c, "a/b", 2)
		p := s.conn(rsConnect{id: "p", ver: 4, clean: true})
		s.pub(p, "a/b", "m2", 2, false, 0)
		s.opAnswer(p) // PUBREL of the publisher
		c.scan()
		s.note("writes to f:1 fail; PUBREC")
		c.conn.failWrites()
		s.b.send(c, packets.Packet{FixedHeader: packets.FixedHeader{Type: packets.Pubrec}, PacketID: c.pubs[0].pid})
	},
	// ... a PUBREL with PUBCOMP ...
	func(s *rsScript) {
		p := s.conn(rsConnect{id: "f_2", ver: 5, sei: 3600, seiFlag: true})
		s.pub(p, "a/b", "m2", 2, false, 0)
		p.scan()
		s.note("writes to f_2 fail; PUBREL")
		p.conn.failWrites()
		s.b.send(p, packets.Packet{FixedHeader: packets.FixedHeader{Type: packets.Pubrel, Qos: 1}, PacketID: p.recs[0]})
	},
	// ... a QoS 2 PUBLISH with PUBREC
	func(s *rsScript) {
		c := s.conn(rsConnect{id: "sub", ver: 4})
		s.sub(c, "a/b", 1)
		p := s.conn(rsConnect{id: "f/3", ver: 4})
		s.note("writes to f/3 fail; PUBLISH qos 2")
		p.conn.failWrites()
		s.pub(p, "a/b", "m3", 2, true, 0)
	},
	// flow control: Receive Maximum 1 / 2, bursts of QoS 1 and 2 messages, nothing acknowledged;
	// subscriber connected ...
	func(s *rsScript) {
		c := s.conn(rsConnect{id: "rm:1", ver: 5, sei: 3600, seiFlag: true, recvMax: 1})
		s.sub(c, "a/+", 2)
		p := s.conn(rsConnect{id: "p", ver: 5, clean: true})
		for i, q := range []byte{1, 2, 1, 2, 1} {
			s.pub(p, "a/b", fmt.Sprintf("b%d", i), q, false, 60)
		}
	},
	// ... and offline
	func(s *rsScript) {
		c := s.conn(rsConnect{id: "rm_2", ver: 5, sei: 3600, seiFlag: true, recvMax: 2})
		s.sub(c, "a/+", 1)
		p := s.conn(rsConnect{id: "p", ver: 4, clean: true})
		s.pub(p, "a/b", "b0", 1, false, 0)
		s.drop(c)
		for i, q := range []byte{1, 2, 1, 1} {
			s.pub(p, "a/c", fmt.Sprintf("c%d", i), q, false, 0)
		}
	},
	// Clean Start 1 over a live connection whose session has subscriptions and unacknowledged QoS 1 / 2
	// outbound messages; the new session is persistent itself
	func(s *rsScript) {
		a := s.conn(rsConnect{id: "cs:1", ver: 5, sei: 3600, seiFlag: true})
		s.sub(a, "a/+", 1)
		s.sub(a, "x:y/#", 2)
		p := s.conn(rsConnect{id: "p", ver: 5, clean: true})
		s.pub(p, "a/b", "q1", 1, false, 0)
		s.pub(p, "x:y/z", "q2", 2, false, 60)
		s.opAnswer(p) // the publisher completes its QoS 2 flow; "cs:1" acknowledges nothing
		n := s.conn(rsConnect{id: "cs:1", ver: 5, clean: true, sei: 600, seiFlag: true})
		s.sub(n, "new/#", 1)
		s.pub(p, "new/x", "q3", 1, false, 0)
	},
	// the same after the first connection has gone (session kept, subscriber offline while messages arrive)
	func(s *rsScript) {
		a := s.conn(rsConnect{id: "cs_2", ver: 5, sei: 3600, seiFlag: true})
		s.sub(a, "a/+", 2)
		p := s.conn(rsConnect{id: "p", ver: 4, clean: true})
		s.pub(p, "a/b", "q1", 1, false, 0)
		s.drop(a)
		s.pub(p, "a/c", "q2", 2, false, 0)
		s.opAnswer(p)
		n := s.conn(rsConnect{id: "cs_2", ver: 5, clean: true, sei: 600, seiFlag: true})
		s.pub(p, "a/b", "q3", 1, false, 0)
		s.drop(n)
	},
	// retained: set, replace, clear with an empty payload, expire
	func(s *rsScript) {
		p := s.conn(rsConnect{id: "r:p", ver: 5, clean: true})
		s.pub(p, "t:1/a", "v1", 1, true, 0)
		s.pub(p, "t:1/a", "v2", 0, true, 100000)
		// retained publishes sent with a topic alias: first binding it, then by the alias alone
		al := packets.Packet{FixedHeader: packets.FixedHeader{Type: packets.Publish, Retain: true}, TopicName: "al/1", Payload: []byte("a1")}
		al.Properties.TopicAlias, al.Properties.TopicAliasFlag = 5, true
		s.note("publish retained al/1 with alias 5")
		s.b.send(p, al)
		al.TopicName, al.Payload = "", []byte("a2")
		s.note("publish retained by alias 5 alone")
		s.b.send(p, al)
		s.pub(p, "t_2", "x", 0, true, 5)
		s.pub(p, "ü/é", "y", 2, true, 0)
		s.opAnswer(p)
		s.pub(p, "ü/é", "", 0, true, 0)
		s.pub(p, "never", "", 0, true, 0)
		s.tick("retained", 10)
	},
}

// ---------- histories over several lives of the broker on one store ----------

// rsWorld is one store and the storage events that reached it over the successive broker processes.
type rsWorld struct {
	env    *storeEnv
	loc    storeLoc
	events sx.L
	lives  int
	log    []string
	rng    *rand.Rand
	race   bool
}

// life starts the next broker process on the store: for every process after the first the
// store-loading step runs first (its own hook calls are recorded like all others).
func (w *rsWorld) life() (*rsBroker, *rsScript) {
	hook, cfg := w.env.hookConfig(w.loc)
	b, err := newRsBroker(hook, cfg, -1)
	if err != nil {
		panic(err)
	}
	b.rec.events = w.events
	if w.lives > 0 {
		if err := b.srv.VerifReadStore(); err != nil {
			panic(err)
		}
	}
	w.lives++
	s := &rsScript{rng: w.rng, b: b}
	s.note("--- broker process %d", w.lives)
	return b, s
}

// end ends a broker process: gracefully (Close) or killed (nothing after this instant reaches the store).
func (w *rsWorld) end(b *rsBroker, s *rsScript, kill bool) {
	if kill {
		s.note("kill")
		b.rec.kill()
	} else {
		s.note("shutdown")
	}
	b.shutdown()
	w.race = w.race || b.raceHit
	w.events, _ = b.rec.snapshotEvents()
	w.log = append(w.log, s.log...)
}

// two-life histories: what the first process leaves in the store, a second process and a final restart
var twoLives = []func(w *rsWorld) *rsBroker{
	// an ending session (MQTT 3 clean session) with a subscription and an unacknowledged message; kill;
	// the same client id comes back with a persistent session that subscribes to something else
	func(w *rsWorld) *rsBroker {
		b, s := w.life()
		c := s.conn(rsConnect{id: "z:1", ver: 4, clean: true})
		s.sub(c, "st/#", 1)
		p := s.conn(rsConnect{id: "p", ver: 4, clean: true})
		s.pub(p, "st/x", "old", 1, false, 0)
		w.end(b, s, true)
		b, s = w.life()
		c = s.conn(rsConnect{id: "z:1", ver: 4})
		s.sub(c, "new/1", 1)
		w.end(b, s, false)
		return b
	},
	// the same with MQTT 5: session expiry 0, then Clean Start 1 with a session expiry interval
	func(w *rsWorld) *rsBroker {
		b, s := w.life()
		c := s.conn(rsConnect{id: "z_2", ver: 5, sei: 0, seiFlag: true})
		s.sub(c, "st/+", 2)
		p := s.conn(rsConnect{id: "p", ver: 5, clean: true})
		s.pub(p, "st/x", "old", 2, false, 0)
		w.end(b, s, true)
		b, s = w.life()
		c = s.conn(rsConnect{id: "z_2", ver: 5, clean: true, sei: 600, seiFlag: true})
		s.sub(c, "new/2", 0)
		w.end(b, s, false)
		return b
	},
	// a persistent session survives a kill and a graceful restart, expires in the next process, and the
	// client id starts a new persistent session
	func(w *rsWorld) *rsBroker {
		b, s := w.life()
		c := s.conn(rsConnect{id: "z/3", ver: 5, sei: 30, seiFlag: true})
		s.sub(c, "st/3", 1)
		w.end(b, s, true)
		b, s = w.life()
		s.tick("clients", 4000)
		c = s.conn(rsConnect{id: "z/3", ver: 5, sei: 600, seiFlag: true})
		s.sub(c, "new/3", 1)
		w.end(b, s, false)
		return b
	},
	// a persistent session with subscriptions and an unacknowledged message is killed and resumed
	func(w *rsWorld) *rsBroker {
		b, s := w.life()
		c := s.conn(rsConnect{id: "z:4", ver: 4})
		s.sub(c, "keep/#", 1)
		p := s.conn(rsConnect{id: "p", ver: 4, clean: true})
		s.pub(p, "keep/x", "k", 1, true, 0)
		w.end(b, s, true)
		b, s = w.life()
		c = s.conn(rsConnect{id: "z:4", ver: 4})
		s.sub(c, "more", 0)
		w.end(b, s, false)
		return b
	},
}

// runTwoLives plays two-life history i (i >= len(twoLives): random operations in both lives) and
// returns the last broker (shut down) and the world.
func runTwoLives(env *storeEnv, loc storeLoc, i int, seed int64) (*rsBroker, *rsWorld) {
	w := &rsWorld{env: env, loc: loc, rng: rand.New(rand.NewSource(seed))}
	if i < len(twoLives) {
		return twoLives[i](w), w
	}
	b, s := w.life()
	for j := 0; j < 4+w.rng.Intn(12); j++ {
		s.step()
	}
	w.end(b, s, w.rng.Intn(2) == 0)
	b, s = w.life()
	for j := 0; j < 3+w.rng.Intn(10); j++ {
		s.step()
	}
	w.end(b, s, false)
	return b, w
}

// runDirected plays directed history i.
func runDirected(env *storeEnv, loc storeLoc, i int, limit int) (*rsBroker, *rsScript) {
	hook, cfg := env.hookConfig(loc)
	b, err := newRsBroker(hook, cfg, limit)
	if err != nil {
		panic(err)
	}
	s := &rsScript{rng: rand.New(rand.NewSource(int64(i))), b: b}
	directed[i](s)
	return b, s
}

// runHistory plays one generated history against a fresh broker on the given store location and
// shuts the broker down.  limit < 0: every storage write is forwarded.
func runHistory(env *storeEnv, loc storeLoc, seed int64, steps int, limit int) (*rsBroker, *rsScript) {
	hook, cfg := env.hookConfig(loc)
	b, err := newRsBroker(hook, cfg, limit)
	if err != nil {
		panic(err)
	}
	s := &rsScript{rng: rand.New(rand.NewSource(seed)), b: b}
	for i := 0; i < steps; i++ {
		s.step()
	}
	return b, s
}

// restartOn opens a second broker on the same store and runs the store-loading step.
func restartOn(env *storeEnv, loc storeLoc) sx.V {
	hook, cfg := env.hookConfig(loc)
	b2, err := newRsBroker(hook, cfg, -2)
	if err != nil {
		panic(err)
	}
	if err := b2.srv.VerifReadStore(); err != nil {
		panic(err)
	}
	snap := snapshot(b2.srv)
	_ = b2.srv.Close()
	return snap
}

func backendsFor(tier string, i int) []int {
	if tier == "thorough" {
		return []int{beBadger, bePebble, beBolt, beRedis}
	}
	if i%8 == 0 || i < 0 {
		return []int{beBadger, bePebble, beBolt, beRedis}
	}
	return []int{beBolt, beRedis}
}

func engRestart(seed int64, tier string, _ []string, out *sx.Out) {
	env := newStoreEnv()
	defer env.close()
	rng := rand.New(rand.NewSource(seed))
	n := 40
	if tier == "thorough" {
		n = 400
	}
	defer func() { rsMaxCap = -1 }()
	for i := -len(directed); i < n; i++ {
		hseed := rng.Int63()
		steps := 6 + rng.Intn(30)
		rsMaxCap = []int64{-1, -1, 0, 4}[(i+len(directed))%4] // the server's maximum message expiry interval varies
		for _, be := range backendsFor(tier, i) {
			loc := env.fresh(be)
			var b *rsBroker
			var s *rsScript
			if i < 0 {
				b, s = runDirected(env, loc, i+len(directed), -1)
			} else {
				b, s = runHistory(env, loc, hseed, steps, -1)
			}
			b.shutdown()
			rsPlayed++
			if b.raceHit {
				skipHistory(out, fmt.Sprintf("history %d backend %s skipped (stuck=%v): take-over race C14-1 removed a live client from the Clients map, or the broker did not come to rest", i, beNames[be], b.stuck))
				env.discard(loc)
				continue
			}
			snap1 := snapshot(b.srv)
			evs, _ := b.rec.snapshotEvents()
			snap2 := restartOn(env, loc)
			out.Comment(fmt.Sprintf("history %d seed %d backend %s: %s", i, hseed, beNames[be], strings.Join(s.log, "; ")))
			out.Case(sx.L{sx.N(be), sx.N(uint64(b.srv.Options.Capabilities.MaximumMessageExpiryInterval)), evs, snap1, snap2})
			env.discard(loc)
		}
	}
	twoLifeCases(env, rng, tier, false, out)
}

// twoLifeCases emits the two-life histories as restart cases (asCrash: as complete crash cases).
func twoLifeCases(env *storeEnv, rng *rand.Rand, tier string, asCrash bool, out *sx.Out) {
	n := len(twoLives) + 6
	if tier == "thorough" {
		n = len(twoLives) + 60
	}
	defer func() { rsMaxCap = -1 }()
	for i := 0; i < n; i++ {
		hseed := rng.Int63()
		rsMaxCap = []int64{-1, 0, -1, 4}[i%4]
		bes := []int{beBadger, bePebble, beBolt, beRedis}
		if i >= len(twoLives) && tier != "thorough" {
			bes = []int{[]int{beBolt, beRedis, bePebble}[i%3]}
		}
		for _, be := range bes {
			loc := env.fresh(be)
			b, w := runTwoLives(env, loc, i, hseed)
			rsPlayed++
			if w.race {
				skipHistory(out, fmt.Sprintf("two-life history %d backend %s abandoned", i, beNames[be]))
				env.discard(loc)
				continue
			}
			snap1 := snapshot(b.srv)
			snap2 := restartOn(env, loc)
			out.Comment(fmt.Sprintf("two-life history %d seed %d backend %s: %s", i, hseed, beNames[be], strings.Join(w.log, "; ")))
			mc := sx.N(uint64(b.srv.Options.Capabilities.MaximumMessageExpiryInterval))
			if asCrash {
				out.Case(sx.L{sx.N(be), mc, w.events, sx.N(100000), sx.N(len(w.events)), sx.N(0), snap1, snap2})
			} else {
				out.Case(sx.L{sx.N(be), mc, w.events, snap1, snap2})
			}
			env.discard(loc)
		}
	}
}

func engCrash(seed int64, tier string, _ []string, out *sx.Out) {
	env := newStoreEnv()
	defer env.close()
	rng := rand.New(rand.NewSource(seed))
	n := 10
	if tier == "thorough" {
		n = 100
	}
	defer func() { rsMaxCap = -1 }()
	for i := -len(directed); i < n; i++ {
		hseed := rng.Int63()
		steps := 5 + rng.Intn(16)
		rsMaxCap = []int64{-1, -1, 0, 4}[(i+len(directed))%4]
		var bes []int
		switch {
		case tier == "thorough" && (i%10 == 0 || i < 0):
			bes = []int{beBadger, bePebble, beBolt, beRedis}
		case tier == "thorough":
			bes = []int{bePebble, beBolt, beRedis}
		case i+len(directed) == 2: // the take-over history: the hooks of every back end see a superseded client
			bes = []int{beBadger, bePebble, beBolt, beRedis}
		case i < 0:
			bes = []int{beBolt, beRedis}
		default:
			bes = []int{[]int{beBolt, beRedis}[i%2]}
		}
		play := func(loc storeLoc, limit int) (*rsBroker, *rsScript) {
			if i < 0 {
				return runDirected(env, loc, i+len(directed), limit)
			}
			return runHistory(env, loc, hseed, steps, limit)
		}
		for _, be := range bes {
			// a first complete run tells how many storage writes the history makes
			loc := env.fresh(be)
			b, _ := play(loc, -1)
			b.shutdown()
			_, total := b.rec.snapshotEvents()
			env.discard(loc)
			for k := 0; k <= total; k++ {
				loc := env.fresh(be)
				b, s := play(loc, k)
				b.shutdown()
				rsPlayed++
				if b.raceHit {
					skipHistory(out, fmt.Sprintf("history %d backend %s k=%d skipped (stuck=%v): take-over race C14-1 or no quiescence", i, beNames[be], k, b.stuck))
					env.discard(loc)
					continue
				}
				evs, _ := b.rec.snapshotEvents()
				snap1 := snapshot(b.srv)
				snap2 := restartOn(env, loc)
				if k == 0 {
					out.Comment(fmt.Sprintf("history %d seed %d backend %s writes %d: %s", i, hseed, beNames[be], total, strings.Join(s.log, "; ")))
				}
				ce := b.rec.cutEvent
				if ce < 0 {
					ce = len(evs)
				}
				out.Case(sx.L{sx.N(be), sx.N(uint64(b.srv.Options.Capabilities.MaximumMessageExpiryInterval)), evs, sx.N(k), sx.N(ce), sx.N(b.rec.cutWrites), snap1, snap2})
				env.discard(loc)
			}
		}
	}
	twoLifeCases(env, rng, tier, true, out)
}
