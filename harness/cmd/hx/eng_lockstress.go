package main

// hx lockstress — dynamic validation and hang search for C32.
//
//  kind 0: a concurrent stress of each lock-owning type of the real code (readers and writers
//          hammering the same object).  A run that stops making progress is a hang: with a
//          re-entrant RLock the reader spends nearly all its time between its two RLocks, so the
//          first writer that arrives closes the deadlock (Inflight.NextImmediate -> GetAll and
//          Clients.GetByListener -> Len hung within milliseconds before the fix).
//  kind 1: forced schedules on real sync.RWMutex values, compared step by step with the machine
//          of coq/Conc/Locks.v (ties the writer-preference semantics of the model to the runtime).

import (
	"fmt"
	"io"
	"log/slog"
	"math/rand"
	"net"
	"os"
	"runtime"
	"sort"
	"strings"
	"sync"
	"sync/atomic"
	"time"

	mqtt "github.com/mochi-mqtt/server/v2"
	"github.com/mochi-mqtt/server/v2/hooks/auth"
	"github.com/mochi-mqtt/server/v2/listeners"
	"github.com/mochi-mqtt/server/v2/packets"

	"verifharness/sx"
)

func init() { engines["lockstress"] = engLockstress }

// ---------------------------------------------------------------------------------------------

type lsOp struct {
	name string
	fn   func(i int)
}

type lsScenario struct {
	name string
	ops  []lsOp // one goroutine per op (two for the first, so that readers overlap)
}

// nullConn is a net.Conn that swallows writes and never yields input.
type nullConn struct {
	closed chan struct{}
	once   sync.Once
}

func newNullConn() *nullConn                         { return &nullConn{closed: make(chan struct{})} }
func (c *nullConn) Read(p []byte) (int, error)       { <-c.closed; return 0, net.ErrClosed }
func (c *nullConn) Write(p []byte) (int, error)      { return len(p), nil }
func (c *nullConn) Close() error                     { c.once.Do(func() { close(c.closed) }); return nil }
func (c *nullConn) LocalAddr() net.Addr              { return &net.TCPAddr{IP: net.IPv4(127, 0, 0, 1), Port: 1} }
func (c *nullConn) RemoteAddr() net.Addr             { return &net.TCPAddr{IP: net.IPv4(127, 0, 0, 1), Port: 2} }
func (c *nullConn) SetDeadline(time.Time) error      { return nil }
func (c *nullConn) SetReadDeadline(time.Time) error  { return nil }
func (c *nullConn) SetWriteDeadline(time.Time) error { return nil }

// quietServer is a server (never started) whose log output is discarded.
func quietLogger() *slog.Logger { return slog.New(slog.NewTextHandler(io.Discard, nil)) }

func quietServer() *mqtt.Server { return mqtt.New(&mqtt.Options{Logger: quietLogger()}) }

func lsScenarios(rng *rand.Rand) []lsScenario {
	var out []lsScenario

	{ // Inflight
		inf := mqtt.NewInflights()
		for i := 1; i <= 40; i++ {
			inf.Set(packets.Packet{PacketID: uint16(i), Expiry: int64(-(i % 2)), Created: int64(i)})
		}
		out = append(out, lsScenario{"Inflight", []lsOp{
			{"NextImmediate", func(i int) { inf.NextImmediate() }},
			{"GetAll", func(i int) { inf.GetAll(i%2 == 0) }},
			{"Len+Get+Clone", func(i int) { inf.Len(); inf.Get(uint16(i % 64)); inf.Clone() }},
			{"Set", func(i int) { inf.Set(packets.Packet{PacketID: uint16(40 + i%8), Expiry: -1}) }},
			{"Delete", func(i int) { inf.Delete(uint16(40 + i%8)) }},
			{"quota", func(i int) { inf.DecreaseSendQuota(); inf.IncreaseSendQuota(); inf.ResetReceiveQuota(5) }},
		}})
	}
	{ // Clients
		cls := mqtt.NewClients()
		srv := quietServer()
		for i := 0; i < 8; i++ {
			c := srv.NewClient(newNullConn(), "t1", fmt.Sprintf("c%d", i), false)
			cls.Add(c)
		}
		extra := srv.NewClient(newNullConn(), "t1", "extra", false)
		out = append(out, lsScenario{"Clients", []lsOp{
			{"GetByListener", func(i int) { cls.GetByListener("t1") }},
			{"GetAll+Len+Get", func(i int) { cls.GetAll(); cls.Len(); cls.Get("c3") }},
			{"Add", func(i int) { cls.Add(extra) }},
			{"Delete", func(i int) { cls.Delete("extra") }},
		}})
	}
	{ // the three subscription maps and the retained-packet map
		subs := mqtt.NewSubscriptions()
		sh := mqtt.NewSharedSubscriptions()
		in := mqtt.NewInlineSubscriptions()
		pks := packets.NewPackets()
		out = append(out, lsScenario{"Subscriptions", []lsOp{
			{"GetAll+Get+Len", func(i int) { subs.GetAll(); subs.Get("a"); subs.Len() }},
			{"Add", func(i int) { subs.Add(fmt.Sprintf("f%d", i%5), packets.Subscription{Filter: "a"}) }},
			{"Delete", func(i int) { subs.Delete(fmt.Sprintf("f%d", i%5)) }},
		}})
		out = append(out, lsScenario{"SharedSubscriptions", []lsOp{
			{"GetAll+Get+Len+GroupLen", func(i int) { sh.GetAll(); sh.Get("g", "c"); sh.Len(); sh.GroupLen() }},
			{"Add", func(i int) { sh.Add(fmt.Sprintf("g%d", i%3), "c", packets.Subscription{Filter: "a"}) }},
			{"Delete", func(i int) { sh.Delete(fmt.Sprintf("g%d", i%3), "c") }},
		}})
		out = append(out, lsScenario{"InlineSubscriptions", []lsOp{
			{"GetAll+Get+Len", func(i int) { in.GetAll(); in.Get(1); in.Len() }},
			{"Add", func(i int) { in.Add(mqtt.InlineSubscription{Subscription: packets.Subscription{Identifier: i % 4}}) }},
			{"Delete", func(i int) { in.Delete(i % 4) }},
		}})
		out = append(out, lsScenario{"packets.Packets", []lsOp{
			{"GetAll+Get+Len", func(i int) { pks.GetAll(); pks.Get("a"); pks.Len() }},
			{"Add", func(i int) { pks.Add(fmt.Sprintf("t%d", i%5), packets.Packet{TopicName: "t"}) }},
			{"Delete", func(i int) { pks.Delete(fmt.Sprintf("t%d", i%5)) }},
		}})
	}
	{ // topic aliases
		ta := mqtt.NewTopicAliases(10)
		out = append(out, lsScenario{"TopicAliases", []lsOp{
			{"Inbound.Set", func(i int) { ta.Inbound.Set(uint16(1+i%5), fmt.Sprintf("t%d", i%7)) }},
			{"Inbound.Set(empty)", func(i int) { ta.Inbound.Set(uint16(1+i%5), "") }},
			{"Outbound.Set", func(i int) { ta.Outbound.Set(fmt.Sprintf("t%d", i%12)) }},
		}})
	}
	{ // the topic index: root lock, particle lock, particles / subscription maps nested below
		x := mqtt.NewTopicsIndex()
		topics := []string{"a/b", "a/+", "a/#", "#", "a/b/c", "$share/g/a/b", "d"}
		out = append(out, lsScenario{"TopicsIndex", []lsOp{
			{"Subscribers", func(i int) { x.Subscribers("a/b") }},
			{"Messages", func(i int) { x.Messages("a/#") }},
			{"Subscribe", func(i int) {
				x.Subscribe(fmt.Sprintf("c%d", i%4), packets.Subscription{Filter: topics[i%len(topics)]})
			}},
			{"Unsubscribe", func(i int) { x.Unsubscribe(topics[i%len(topics)], fmt.Sprintf("c%d", i%4)) }},
			{"InlineSubscribe", func(i int) {
				x.InlineSubscribe(mqtt.InlineSubscription{Subscription: packets.Subscription{Filter: topics[i%5], Identifier: i % 3}})
			}},
			{"InlineUnsubscribe", func(i int) { x.InlineUnsubscribe(i%3, topics[i%5]) }},
			{"RetainMessage", func(i int) {
				pl := []byte("x")
				if i%3 == 0 {
					pl = nil
				}
				x.RetainMessage(packets.Packet{FixedHeader: packets.FixedHeader{Type: packets.Publish, Retain: true}, TopicName: topics[4*(i%2)], Payload: pl})
			}},
		}})
	}
	{ // one client: packet ids (client lock, then the in-flight lock) against writes and in-flight churn
		srv := quietServer()
		cl := srv.NewClient(newNullConn(), "t1", "cx", false)
		out = append(out, lsScenario{"Client", []lsOp{
			{"NextPacketID", func(i int) { cl.NextPacketID() }},
			{"WritePacket", func(i int) {
				cl.WritePacket(packets.Packet{FixedHeader: packets.FixedHeader{Type: packets.Pingresp}})
			}},
			{"Inflight.Set", func(i int) {
				cl.State.Inflight.Set(packets.Packet{FixedHeader: packets.FixedHeader{Type: packets.Publish, Qos: 1}, PacketID: uint16(1 + i%30), TopicName: "a", Created: int64(i)})
			}},
			{"ClearInflights", func(i int) {
				if i%50 == 0 {
					cl.ClearInflights()
				} else {
					cl.ClearExpiredInflights(int64(i), 10)
				}
			}},
			{"ResendInflightMessages", func(i int) { cl.ResendInflightMessages(true) }},
		}})
	}
	{ // listeners registry
		ls := listeners.New()
		for i := 0; i < 3; i++ {
			ls.Add(listeners.NewMockListener(fmt.Sprintf("m%d", i), ":0"))
		}
		out = append(out, lsScenario{"listeners.Listeners", []lsOp{
			{"Get+Len", func(i int) { ls.Get("m1"); ls.Len() }},
			{"Add", func(i int) { ls.Add(listeners.NewMockListener("mx", ":0")) }},
			{"Delete", func(i int) { ls.Delete("mx") }},
			{"Close", func(i int) { ls.Close("m2", func(string) {}) }},
		}})
	}
	{ // hooks registry and the auth ledger
		srv := quietServer()
		led := &auth.Ledger{}
		out = append(out, lsScenario{"Hooks+Ledger", []lsOp{
			{"Hooks.GetAll+Len+Provides", func(i int) {
				// server hooks are reached through the exported AddHook only; reading goes through the server
				_ = srv.Info.Clone()
			}},
			{"AddHook", func(i int) {
				if i%200 == 0 {
					_ = srv.AddHook(new(auth.AllowHook), nil)
				}
			}},
			{"Ledger.Update", func(i int) { led.Update(&auth.Ledger{Auth: auth.AuthRules{{Allow: true}}}) }},
			{"Ledger.Unmarshal", func(i int) { _ = led.Unmarshal([]byte(`{"auth":[{"allow":true}]}`)) }},
		}})
	}
	{ // a real connection whose queued writes fail while more are queued (Client.WriteLoop ->
		// flushIdle): a subscriber with a small Maximum Packet Size receives bursts in which
		// oversized messages are followed by small ones.  Every burst must end with at least one
		// more packet arriving at the subscriber: a lock leaked on the failure path stops the write
		// loop for ever and the burst never completes.
		srv := mqtt.New(&mqtt.Options{InlineClient: true, Logger: quietLogger()})
		_ = srv.AddHook(new(auth.AllowHook), nil)
		bEnd, cEnd := memPipe()
		go func() { _ = srv.EstablishConnection("t1", bEnd) }()
		var nops, recv uint64
		c := &rcClient{conn: cEnd, version: 5, nextID: 1, ops: &nops, recv: &recv}
		c.send(packets.Packet{FixedHeader: packets.FixedHeader{Type: packets.Connect},
			Connect:    packets.ConnectParams{ProtocolName: []byte("MQTT"), ClientIdentifier: "small", Keepalive: 60, Clean: true},
			Properties: packets.Properties{MaximumPacketSize: 48}})
		c.send(packets.Packet{FixedHeader: packets.FixedHeader{Type: packets.Subscribe, Qos: 1}, PacketID: 1,
			Filters: packets.Subscriptions{{Filter: "big/#", Qos: 0}}})
		done := make(chan struct{})
		go c.reader(done)
		for i := 0; i < 500; i++ { // wait for the subscription
			if _, ok := srv.Topics.Subscribers("big/x").Subscriptions["small"]; ok {
				break
			}
			time.Sleep(time.Millisecond)
		}
		big := make([]byte, 200)
		var mu sync.Mutex // one burst at a time, so that "one more packet" is this burst's
		out = append(out, lsScenario{"WriteLoop-failed-write", []lsOp{
			{"burst(small, oversized, small, ...) then wait for a delivery", func(i int) {
				mu.Lock()
				defer mu.Unlock()
				before := atomic.LoadUint64(&recv)
				for k := 0; k < 6; k++ {
					pl := []byte("s")
					if k%3 == 1 {
						pl = big
					}
					_ = srv.Publish("big/x", pl, false, 0)
				}
				for atomic.LoadUint64(&recv) == before {
					time.Sleep(20 * time.Microsecond)
				}
			}},
		}})
	}
	_ = rng
	return out
}

// runScenario hammers the operations concurrently; returns (completed, operations done, detail).
func runScenario(sc lsScenario, iters int, stall time.Duration) (bool, uint64, string) {
	type worker struct {
		op      lsOp
		running int32
	}
	var ws []*worker
	for k, op := range sc.ops {
		ws = append(ws, &worker{op: op})
		if k == 0 {
			ws = append(ws, &worker{op: op}) // two overlapping instances of the first (reader) op
		}
	}
	var progress uint64
	var wg sync.WaitGroup
	for _, w := range ws {
		wg.Add(1)
		go func(w *worker) {
			defer wg.Done()
			defer func() { recover() }()
			for i := 0; i < iters; i++ {
				atomic.StoreInt32(&w.running, 1)
				w.op.fn(i)
				atomic.StoreInt32(&w.running, 0)
				atomic.AddUint64(&progress, 1)
				if i%64 == 0 {
					runtime.Gosched()
				}
			}
		}(w)
	}
	done := make(chan struct{})
	go func() { wg.Wait(); close(done) }()
	last := uint64(0)
	tick := time.NewTicker(stall)
	defer tick.Stop()
	for {
		select {
		case <-done:
			return true, atomic.LoadUint64(&progress), ""
		case <-tick.C:
			now := atomic.LoadUint64(&progress)
			if now == last {
				var stuck []string
				for _, w := range ws {
					if atomic.LoadInt32(&w.running) == 1 {
						stuck = append(stuck, w.op.name)
					}
				}
				sort.Strings(stuck)
				return false, now, "no progress for " + stall.String() + "; goroutines blocked inside: " +
					strings.Join(stuck, ", ") + "; " + lockFrames()
			}
			last = now
		}
	}
}

// lockFrames summarises the goroutines parked in sync.(*RWMutex)/(*Mutex) operations.
func lockFrames() string {
	buf := make([]byte, 1<<20)
	n := runtime.Stack(buf, true)
	if os.Getenv("HX_DUMP") != "" {
		os.Stderr.Write(buf[:n])
	}
	var out []string
	seen := map[string]int{}
	for _, g := range strings.Split(string(buf[:n]), "\n\n") {
		if !strings.Contains(g, "sync.(*RWMutex)") && !strings.Contains(g, "sync.(*Mutex)") {
			continue
		}
		lines := strings.Split(g, "\n")
		var fr []string
		for _, l := range lines {
			if strings.HasPrefix(l, "sync.(*Mutex).lockSlow") || (strings.HasPrefix(l, "sync.(*Mutex).Lock") && strings.Contains(g, "sync.(*RWMutex).Lock")) {
				continue
			}
			if strings.HasPrefix(l, "sync.(") || strings.HasPrefix(l, "github.com/mochi-mqtt/server/v2") {
				if i := strings.Index(l, "("); i > 0 && strings.HasPrefix(l, "github.com") {
					l = strings.TrimPrefix(l, "github.com/mochi-mqtt/server/v2")
				}
				if k := strings.LastIndex(l, "("); k > 0 {
					l = l[:k]
				}
				fr = append(fr, l)
				if len(fr) == 4 {
					break
				}
			}
		}
		seen[strings.Join(fr, " < ")]++
	}
	for k, v := range seen {
		out = append(out, fmt.Sprintf("%dx %s", v, k))
	}
	sort.Strings(out)
	s := strings.Join(out, " | ")
	if len(s) > 900 {
		s = s[:900]
	}
	return "parked: " + s
}

// ---------------------------------------------------------------------------------------------
// forced schedules on real sync.RWMutex values

const (
	kRLock = iota
	kLock
	kRUnlock
	kUnlock
)

type rwCmd struct{ t, kind, lock int }

type rwThread struct {
	cmds    chan func()
	acks    chan struct{}
	blocked bool
	pending rwCmd
	heldR   [2]int
	heldW   [2]int
}

func runRWScript(rng *rand.Rand, nCmds int, settle time.Duration, script []rwCmd) ([]rwCmd, []uint64) {
	var mus [2]sync.RWMutex
	ths := make([]*rwThread, 4)
	for i := range ths {
		th := &rwThread{cmds: make(chan func(), 1), acks: make(chan struct{}, 1)}
		ths[i] = th
		go func() {
			for f := range th.cmds {
				f()
				th.acks <- struct{}{}
			}
		}()
	}
	apply := func(th *rwThread, c rwCmd) { // bookkeeping once an operation has completed
		switch c.kind {
		case kRLock:
			th.heldR[c.lock]++
		case kLock:
			th.heldW[c.lock]++
		case kRUnlock:
			th.heldR[c.lock]--
		case kUnlock:
			th.heldW[c.lock]--
		}
	}
	poll := func() {
		for _, th := range ths {
			if th.blocked {
				select {
				case <-th.acks:
					th.blocked = false
					apply(th, th.pending)
				default:
				}
			}
		}
	}
	var done []rwCmd
	var obs []uint64
	for k := 0; k < nCmds; k++ {
		var c rwCmd
		if script != nil {
			if k >= len(script) {
				break
			}
			c = script[k]
		} else {
			// candidates allowed by the rules (see Conc/Locks.v, engine comment): a thread gets a
			// command only when idle; unlocks only of what it holds; Lock(l) only when nobody
			// holds l for writing and nobody is already waiting in Lock(l)
			var cand []rwCmd
			for t, th := range ths {
				if th.blocked {
					continue
				}
				for l := 0; l < 2; l++ {
					cand = append(cand, rwCmd{t, kRLock, l}, rwCmd{t, kRLock, l})
					wfree := true
					for _, o := range ths {
						if o.heldW[l] > 0 || (o.blocked && o.pending.kind == kLock && o.pending.lock == l) {
							wfree = false
						}
					}
					if wfree {
						cand = append(cand, rwCmd{t, kLock, l}, rwCmd{t, kLock, l})
					}
					if th.heldR[l] > 0 {
						cand = append(cand, rwCmd{t, kRUnlock, l}, rwCmd{t, kRUnlock, l}, rwCmd{t, kRUnlock, l})
					}
					if th.heldW[l] > 0 {
						cand = append(cand, rwCmd{t, kUnlock, l}, rwCmd{t, kUnlock, l}, rwCmd{t, kUnlock, l})
					}
				}
			}
			if len(cand) == 0 {
				break
			}
			c = cand[rng.Intn(len(cand))]
		}
		th := ths[c.t]
		mu := &mus[c.lock]
		th.pending = c
		th.blocked = true
		switch c.kind {
		case kRLock:
			th.cmds <- mu.RLock
		case kLock:
			th.cmds <- mu.Lock
		case kRUnlock:
			th.cmds <- mu.RUnlock
		case kUnlock:
			th.cmds <- mu.Unlock
		}
		time.Sleep(settle)
		poll()
		var bits uint64
		for i, th := range ths {
			if th.blocked {
				bits |= 1 << uint(i)
			}
		}
		done = append(done, c)
		obs = append(obs, bits)
	}
	return done, obs
}

func rwCase(cmds []rwCmd, obs []uint64) sx.V {
	var cl, ol sx.L
	for _, c := range cmds {
		cl = append(cl, sx.L{sx.N(c.t), sx.N(c.kind), sx.N(c.lock)})
	}
	for _, o := range obs {
		ol = append(ol, sx.N(o))
	}
	return sx.L{sx.N(1), cl, ol}
}

func sameObs(a, b []uint64) bool {
	if len(a) != len(b) {
		return false
	}
	for i := range a {
		if a[i] != b[i] {
			return false
		}
	}
	return true
}

// ---------------------------------------------------------------------------------------------

func engLockstress(seed int64, tier string, _ []string, out *sx.Out) {
	rng := rand.New(rand.NewSource(seed))
	iters, stall, nScripts, nCmds := 6000, 1500*time.Millisecond, 48, 12
	if tier == "thorough" {
		iters, stall, nScripts, nCmds = 60000, 4*time.Second, 400, 16
	}
	for _, sc := range lsScenarios(rng) {
		ok, n, detail := runScenario(sc, iters, stall)
		out.Case(sx.L{sx.N(0), sx.S(sc.name), sx.Bool(ok), sx.N(n), sx.S(detail)})
	}
	// forced schedules: the fixed ones first (writer preference; re-entrant read lock)
	fixed := [][]rwCmd{
		{{0, kRLock, 0}, {1, kLock, 0}, {2, kRLock, 0}, {0, kRUnlock, 0}, {1, kUnlock, 0}, {2, kRUnlock, 0}},
		{{0, kRLock, 0}, {1, kLock, 0}, {0, kRLock, 0}, {2, kRLock, 0}, {3, kRLock, 1}},
		{{0, kRLock, 0}, {0, kRLock, 0}, {1, kLock, 0}, {0, kRUnlock, 0}, {0, kRUnlock, 0}, {1, kUnlock, 0}},
		{{0, kLock, 0}, {1, kRLock, 0}, {2, kRLock, 0}, {0, kUnlock, 0}, {1, kRUnlock, 0}, {2, kRUnlock, 0}},
		{{0, kRLock, 0}, {0, kLock, 0}, {1, kRLock, 0}},
		{{0, kLock, 0}, {0, kRLock, 0}, {1, kRLock, 1}, {1, kLock, 0}},
	}
	settle := 6 * time.Millisecond
	type res struct {
		cmds []rwCmd
		obs  []uint64
	}
	results := make([]res, len(fixed)+nScripts)
	var wg sync.WaitGroup
	sem := make(chan struct{}, 8)
	for i := range results {
		var script []rwCmd
		if i < len(fixed) {
			script = fixed[i]
		}
		sub := rand.New(rand.NewSource(seed*1000003 + int64(i)))
		wg.Add(1)
		sem <- struct{}{}
		go func(i int, script []rwCmd, sub *rand.Rand) {
			defer wg.Done()
			defer func() { <-sem }()
			cmds, obs := runRWScript(sub, nCmds, settle, script)
			// timing guard: replay the same commands; if the two observations differ (a slow
			// wake-up mistaken for a blocked thread), replay once more with a long settle time
			_, obs2 := runRWScript(nil, len(cmds), settle, cmds)
			if !sameObs(obs, obs2) {
				_, obs = runRWScript(nil, len(cmds), 8*settle, cmds)
			}
			results[i] = res{cmds, obs}
		}(i, script, sub)
	}
	wg.Wait()
	for _, r := range results {
		out.Case(rwCase(r.cmds, r.obs))
	}
}
