package main

// C36 — shutdown under forced schedules (coq/Conc/Shutdown.v).  The real broker with a real TCP
// listener on 127.0.0.1:0 (listeners/tcp.go accept loop), real client sockets, Server.Close on its
// own goroutine.  Handlers and the closer are parked at verifPoints; the accept loop is not
// controlled (it runs eagerly).  One case per schedule:
//   (((ver wfail wexc)...) (action...) (final...))
//     wfail: writing the shutdown DISCONNECT to this connection fails — the MQTT 5 client announced a
//            Maximum Packet Size below the packet's 27 bytes, or a write fault is injected (wexc)
//     action = ((tid...) kobs (hobs...))   model schedule entries of one harness action + what was seen
//     final  = (dial connack disc closed left) per connection, seen by the client at the end
// tids of the model: 0 closer, 1 accept loop, 2+i client i (dial, send CONNECT), 2+n+i handler i,
// 2+2n+i client i going away.

import (
	"errors"
	"fmt"
	"io"
	"log/slog"
	"math/rand"
	"net"
	"os"
	"runtime/debug"
	"sync"
	"sync/atomic"
	"time"

	mqtt "github.com/mochi-mqtt/server/v2"
	"github.com/mochi-mqtt/server/v2/hooks/auth"
	"github.com/mochi-mqtt/server/v2/listeners"

	"verifharness/broker"
	"verifharness/fsched"
	"verifharness/sx"
)

func init() { engines["shutdown"] = engShutdown }

const shTimeout = 5 * time.Second

type shConn struct {
	ver    byte
	spec   shSpec
	sock   net.Conn
	dial   int // 0 not dialed, 1 connected, 2 refused
	key    string
	left   bool
	rest   []byte // part of the CONNECT packet not yet sent
	sent   bool   // the CONNECT packet has been sent completely
	connack, disc, closed bool
}

// shSpec: protocol version, Maximum Packet Size announced in CONNECT (MQTT 5, 0 = none), and
// whether writes of a DISCONNECT packet to the connection fail (injected I/O error).
type shSpec struct {
	ver   byte
	mps   uint32
	fault bool
}

func (sp shSpec) wfail() bool { return sp.fault || (sp.ver == 5 && sp.mps > 0 && sp.mps < 27) }

// faultConn is the broker's side of a connection; it fails writes of DISCONNECT packets when told to.
type faultConn struct {
	net.Conn
	faults *sync.Map
	key    string
}

func (f *faultConn) Write(p []byte) (int, error) {
	if len(p) > 0 && p[0]>>4 == 14 {
		if _, ok := f.faults.Load(f.key); ok {
			return 0, errors.New("injected write error")
		}
	}
	return f.Conn.Write(p)
}

type shAction struct {
	tids []int
	kobs int
	hobs []int
}

type shRun struct {
	n       int
	ctl     *fsched.Ctl
	srv     *mqtt.Server
	lis     *listeners.TCP
	conns   []*shConn
	acts    []shAction
	started bool // Close has been called
	hung    string
	faults  sync.Map
}

var shCurrent atomic.Pointer[fsched.Ctl]

func newShRun(vers []shSpec) *shRun {
	r := &shRun{n: len(vers)}
	r.ctl = fsched.New("attach.start", "attach.afterInherit", "attach.afterClientsAdd", "attach.readReturned",
		"close.beforeSnapshot", "close.afterSnapshot", "close.afterCloseAll")
	r.ctl.WaitSites = []string{"listeners.(*Listeners).CloseAll"} // ClientsWg.Wait
	shCurrent.Store(r.ctl)
	r.srv = mqtt.New(&mqtt.Options{Logger: slog.New(slog.NewTextHandler(io.Discard, nil))})
	if err := r.srv.AddHook(new(auth.AllowHook), nil); err != nil {
		panic(err)
	}
	r.lis = listeners.NewTCP(listeners.Config{ID: "t1", Address: "127.0.0.1:0"})
	if err := r.srv.AddListener(r.lis); err != nil {
		panic(err)
	}
	ctl, srv := r.ctl, r.srv
	// what Server.Serve does with the listeners, with the establish callback wrapped so that the
	// handler goroutine (created by the listener's own accept loop) is a controlled thread
	r.srv.Listeners.ServeAll(func(id string, c net.Conn) error {
		key := "h@" + c.RemoteAddr().String()
		ctl.Register(key)
		defer ctl.Finish(key)
		return srv.EstablishConnection(id, &faultConn{Conn: c, faults: &r.faults, key: key})
	})
	for _, v := range vers {
		r.conns = append(r.conns, &shConn{ver: v.ver, spec: v})
	}
	time.Sleep(200 * time.Microsecond) // let the accept loop reach Accept
	r.record([]int{1})
	return r
}

func (r *shRun) kobs() int {
	known, at, fin := r.ctl.State("closer")
	switch {
	case !known:
		return 0
	case fin:
		return 5
	case at == "close.beforeSnapshot":
		return 1
	case at == "close.afterSnapshot":
		return 2
	case at == "close.afterCloseAll":
		return 4
	}
	return 3
}

func (r *shRun) hobs(i int) int {
	c := r.conns[i]
	if c.key == "" {
		return 0
	}
	known, at, fin := r.ctl.State(c.key)
	switch {
	case !known:
		return 0
	case fin:
		return 6
	case at == "attach.start":
		return 1
	case at == "attach.afterInherit":
		return 2
	case at == "attach.afterClientsAdd":
		return 3
	case at == "attach.readReturned":
		return 5
	}
	for _, p := range r.ctl.Passed(c.key) {
		if p == "attach.afterInherit" {
			return 4 // in the read loop
		}
	}
	return 7 // in readConnectionPacket, waiting for the CONNECT
}

func (r *shRun) record(tids []int) {
	if !r.ctl.Settle(shTimeout, nil) && r.hung == "" {
		r.hung = "broker did not settle"
	}
	a := shAction{tids: tids, kobs: r.kobs()}
	for i := range r.conns {
		a.hobs = append(a.hobs, r.hobs(i))
	}
	r.acts = append(r.acts, a)
}

// endSet: the closer has passed CAS(end, 0, 1)
func (r *shRun) endSet() bool { return r.kobs() != 0 }

// dial: mode 0 sends the CONNECT at once, 1 sends nothing, 2 sends the first half of it.
func (r *shRun) dial(i int, mode int) {
	c := r.conns[i]
	if c.dial != 0 {
		return
	}
	sock, err := net.DialTimeout("tcp", r.lis.Address(), time.Second)
	if err != nil {
		c.dial = 2
		r.record([]int{2 + i})
		return
	}
	c.dial = 1
	c.sock = sock
	c.key = "h@" + sock.LocalAddr().String()
	if c.spec.fault {
		r.faults.Store(c.key, true)
	}
	cpk := broker.ConnectPk(fmt.Sprintf("c%d", i), c.ver, true)
	if c.ver == 5 && c.spec.mps > 0 {
		cpk.Properties.MaximumPacketSize = c.spec.mps
	}
	data, err := broker.Encode(cpk)
	if err != nil {
		panic(err)
	}
	entries := []int{2 + i}
	switch mode {
	case 0:
		_, _ = sock.Write(data)
		c.sent = true
		entries = append(entries, 2+i)
	case 1:
		c.rest = data
	default:
		_, _ = sock.Write(data[:len(data)/2])
		c.rest = data[len(data)/2:]
	}
	wait := shTimeout
	expect := !r.endSet()
	if !expect {
		wait = 40 * time.Millisecond
	}
	got := r.ctl.WaitParked(c.key, wait)
	if expect && !got && r.hung == "" {
		r.hung = "no handler for an accepted connection"
	}
	r.record(append(entries, 1, 1, 1))
}

// send: the client sends (the rest of) its CONNECT.
func (r *shRun) send(i int) {
	c := r.conns[i]
	if c.dial != 1 || c.left || c.sent {
		return
	}
	waiting := r.hobs(i) == 7
	_, _ = c.sock.Write(c.rest)
	c.sent = true
	entries := []int{2 + i}
	if waiting {
		if !r.ctl.WaitParked(c.key, shTimeout) && r.hung == "" {
			r.hung = "handler did not go on after the CONNECT arrived"
		}
		entries = append(entries, 2+r.n+i)
	} else {
		time.Sleep(time.Millisecond)
	}
	r.record(entries)
}

func (r *shRun) handlerStep(i int) {
	c := r.conns[i]
	entries := []int{2 + r.n + i}
	if c.key != "" {
		_, at, _ := r.ctl.State(c.key)
		if at == "attach.start" {
			entries = append(entries, 2+r.n+i) // ClientsWg.Add, then readConnectionPacket (may block)
		}
		if at != "" {
			r.ctl.Release(c.key)
		}
	}
	r.record(entries)
}

func (r *shRun) leave(i int) {
	c := r.conns[i]
	if c.dial != 1 || c.left {
		return
	}
	c.left = true
	h := r.hobs(i)
	_ = c.sock.Close()
	entries := []int{2 + 2*r.n + i}
	if h == 4 || h == 7 {
		if !r.ctl.WaitParked(c.key, shTimeout) && r.hung == "" {
			r.hung = "handler did not return from Read after the client left"
		}
		if h == 7 {
			entries = append(entries, 2+r.n+i) // readConnectionPacket fails, the handler returns
		}
	} else {
		time.Sleep(time.Millisecond)
	}
	r.record(entries)
}

func (r *shRun) closerStep() {
	switch r.kobs() {
	case 0:
		r.started = true
		ctl, srv := r.ctl, r.srv
		go func() {
			ctl.Register("closer")
			defer ctl.Finish("closer")
			_ = srv.Close()
		}()
		if !r.ctl.WaitParked("closer", shTimeout) && r.hung == "" {
			r.hung = "Close did not reach close.beforeSnapshot"
		}
		r.record([]int{0})
	case 1:
		r.ctl.Release("closer")
		r.record([]int{0})
	case 2:
		r.ctl.Release("closer")
		r.record([]int{0, 0, 1, 0})
	case 4:
		r.ctl.Release("closer")
		r.record([]int{0})
	default:
		r.record([]int{0})
	}
}

// drain: let everything that can move in the broker move, Close included.
func (r *shRun) drain() {
	for guard := 0; guard < 200; guard++ {
		moved := false
		k := r.kobs()
		if k == 0 || k == 1 || k == 2 || k == 4 {
			r.closerStep()
			moved = true
		}
		for i := range r.conns {
			h := r.hobs(i)
			if h == 1 || h == 2 || h == 3 || h == 5 {
				r.handlerStep(i)
				moved = true
			}
		}
		if !moved || r.hung != "" {
			return
		}
	}
}

// finalObs: what each client has received.
func (r *shRun) finalObs() {
	var wg sync.WaitGroup
	for _, c := range r.conns {
		if c.dial != 1 || c.left {
			continue
		}
		wg.Add(1)
		go func(c *shConn) {
			defer wg.Done()
			var out []byte
			buf := make([]byte, 4096)
			// Everything the broker wrote is in the socket already (all broker threads are settled).
			// A read whose deadline has passed fails without looking at the socket, so under load
			// (this goroutine scheduled late) a timeout is only believed after a fresh attempt.
			_ = c.sock.SetReadDeadline(time.Now().Add(60 * time.Millisecond))
			retries := 0
			for {
				n, err := c.sock.Read(buf)
				out = append(out, buf[:n]...)
				if err != nil {
					if ne, ok := err.(net.Error); ok && ne.Timeout() {
						if retries < 2 {
							retries++
							_ = c.sock.SetReadDeadline(time.Now().Add(20 * time.Millisecond))
							continue
						}
						c.closed = false
					} else {
						c.closed = true
					}
					break
				}
			}
			c.connack = fsched.Connack(out) == 0
			d := fsched.DisconnectCode(out)
			if c.ver == 5 {
				c.disc = d == 0x8B
			} else {
				c.disc = d >= 0
			}
		}(c)
	}
	wg.Wait()
}

func (r *shRun) cleanup() {
	for _, c := range r.conns {
		if c.sock != nil {
			_ = c.sock.Close()
		}
	}
	deadline := time.Now().Add(shTimeout)
	for {
		all := true
		for _, k := range r.ctl.Keys() {
			_, at, fin := r.ctl.State(k)
			if at != "" {
				r.ctl.Release(k)
			}
			if !fin {
				all = false
			}
		}
		if !r.started {
			r.started = true
			ctl, srv := r.ctl, r.srv
			go func() {
				ctl.Register("closer")
				defer ctl.Finish("closer")
				_ = srv.Close()
			}()
			all = false
		}
		if all {
			return
		}
		if time.Now().After(deadline) {
			if r.hung == "" {
				r.hung = "threads did not finish at the end of the case"
			}
			return
		}
		time.Sleep(100 * time.Microsecond)
	}
}

func (r *shRun) emit(out *sx.Out) {
	vs := sx.L{}
	for _, c := range r.conns {
		vs = append(vs, sx.L{sx.N(c.ver), sx.Bool(c.spec.wfail()), sx.Bool(c.spec.fault)})
	}
	as := sx.L{}
	for _, a := range r.acts {
		ts, hs := sx.L{}, sx.L{}
		for _, t := range a.tids {
			ts = append(ts, sx.N(t))
		}
		for _, h := range a.hobs {
			hs = append(hs, sx.N(h))
		}
		as = append(as, sx.L{ts, sx.N(a.kobs), hs})
	}
	fs := sx.L{}
	for _, c := range r.conns {
		fs = append(fs, sx.L{sx.N(c.dial), sx.Bool(c.connack), sx.Bool(c.disc), sx.Bool(c.closed), sx.Bool(c.left)})
	}
	out.Case(sx.L{vs, as, fs})
}

// shOp: one harness action. kind 0 dial (CONNECT sent at once), 1 handler step, 2 closer step,
// 3 leave, 4 dial sending nothing, 5 dial sending half of the CONNECT, 6 send (the rest of) the CONNECT.
type shOp struct{ kind, i int }

func runShutdownCase(out *sx.Out, vers []shSpec, ops []shOp) {
	r := newShRun(vers)
	for _, op := range ops {
		switch op.kind {
		case 0:
			r.dial(op.i, 0)
		case 4:
			r.dial(op.i, 1)
		case 5:
			r.dial(op.i, 2)
		case 6:
			r.send(op.i)
		case 1:
			r.handlerStep(op.i)
		case 2:
			r.closerStep()
		case 3:
			r.leave(op.i)
		}
		if r.hung != "" {
			break
		}
	}
	if r.hung == "" {
		r.drain()
	}
	if r.hung == "" {
		r.finalObs()
	}
	r.cleanup()
	if r.hung != "" {
		fmt.Fprintf(os.Stderr, "shutdown: %s (vers=%v ops=%v)\n", r.hung, vers, ops)
		os.Exit(3)
	}
	r.emit(out)
}

func engShutdown(seed int64, tier string, args []string, out *sx.Out) {
	debug.SetGCPercent(-1) // a connection dropped by the accept loop is only ever closed by a finalizer
	mqtt.VerifPointHook = func(name string) {
		if c := shCurrent.Load(); c != nil {
			c.Hook(name)
		}
	}
	rng := rand.New(rand.NewSource(seed))
	// flavours of a connection: Maximum Packet Size around the 27 bytes of the shutdown DISCONNECT
	// (MQTT 5), an injected write fault, or nothing special
	flavour := func(ver byte, k int) shSpec {
		sp := shSpec{ver: ver}
		switch k {
		case 0:
			sp.mps = 25
		case 1:
			sp.mps = 26
		case 2:
			sp.mps = 27
		case 3:
			sp.mps = 1000
		case 4:
			sp.fault = true
		}
		if ver != 5 {
			sp.mps = 0
		}
		return sp
	}
	versOf := func(n int) []shSpec {
		v := make([]shSpec, n)
		for i := range v {
			ver := []byte{5, 5, 4, 3}[rng.Intn(4)]
			if i == 0 {
				ver = 5
			}
			v[i] = flavour(ver, rng.Intn(9))
		}
		return v
	}
	// position of a connection at the moment Close starts:
	//   0 dialed only after Close has started      1 spawned (attach.start), CONNECT on the wire
	//   2 CONNECT read, before Clients.Add         3 in Clients, before CONNACK        4 serving
	//   5 nothing sent, handler waiting for the CONNECT      6 half of the CONNECT sent, handler waiting
	//   7 nothing sent, handler spawned but not started
	const npos = 8
	prefixOps := func(i, pos int) []shOp {
		switch {
		case pos == 0:
			return nil
		case pos <= 4:
			ops := []shOp{{0, i}}
			for s := 1; s < pos; s++ {
				ops = append(ops, shOp{1, i})
			}
			return ops
		case pos == 5:
			return []shOp{{4, i}, {1, i}}
		case pos == 6:
			return []shOp{{5, i}, {1, i}}
		}
		return []shOp{{4, i}}
	}
	lateDial := func(i int) shOp {
		switch rng.Intn(4) {
		case 0:
			return shOp{4, i}
		case 1:
			return shOp{5, i}
		}
		return shOp{0, i}
	}
	// family 1: every combination of positions of two connections, then the closer's steps
	// interleaved at random with the handlers' steps, late dials, the silent clients sending their
	// CONNECT late, going away, or staying silent
	family := func(n int, pos []int, extraRandom bool) {
		var ops []shOp
		for i := 0; i < n; i++ {
			ops = append(ops, prefixOps(i, pos[i])...)
		}
		var rest []shOp
		for k := 0; k < 5; k++ {
			rest = append(rest, shOp{2, 0})
		}
		for i := 0; i < n; i++ {
			if pos[i] == 0 {
				rest = append(rest, lateDial(i))
			}
			for s := 0; s < 5; s++ {
				if extraRandom || rng.Intn(2) == 0 {
					rest = append(rest, shOp{1, i})
				}
			}
			switch rng.Intn(4) {
			case 0, 1:
				rest = append(rest, shOp{6, i}) // (no effect if the CONNECT has been sent)
			case 2:
				if pos[i] >= 5 || rng.Intn(3) == 0 {
					rest = append(rest, shOp{3, i})
				}
			}
		}
		// random interleaving that keeps the closer's first step first with probability 1/2
		rng.Shuffle(len(rest), func(a, b int) { rest[a], rest[b] = rest[b], rest[a] })
		if rng.Intn(2) == 0 {
			for j, o := range rest {
				if o.kind == 2 {
					rest[0], rest[j] = rest[j], rest[0]
					break
				}
			}
		}
		ops = append(ops, rest...)
		runShutdownCase(out, versOf(n), ops)
	}
	reps := 1
	if tier == "thorough" {
		reps = 8
	}
	for rep := 0; rep < reps; rep++ {
		for a := 0; a < npos; a++ {
			for b := 0; b < npos; b++ {
				family(2, []int{a, b}, rep%2 == 1)
			}
		}
	}
	fam2 := 0
	// family 2: the closer runs to completion (or into Wait) while the handlers stay where they are;
	// afterwards the silent clients send their CONNECT (first connection) or go away (second)
	for a := 0; a < npos; a++ {
		for b := a; b < npos; b++ {
			var ops []shOp
			pos := []int{a, b}
			for i := 0; i < 2; i++ {
				ops = append(ops, prefixOps(i, pos[i])...)
			}
			for k := 0; k < 5; k++ {
				ops = append(ops, shOp{2, 0})
			}
			for i := 0; i < 2; i++ {
				if pos[i] == 0 {
					ops = append(ops, shOp{0, i})
				}
			}
			if (a+b)%2 == 1 {
				ops = append(ops, shOp{6, 0}, shOp{3, 1})
			}
			runShutdownCase(out, []shSpec{flavour(5, fam2%6), flavour(4, 4+fam2%2)}, ops)
			fam2++
		}
	}
	// family 3: three connections, random positions and interleavings
	n3 := 20
	if tier == "thorough" {
		n3 = 1200
	}
	for k := 0; k < n3; k++ {
		family(3, []int{rng.Intn(npos), rng.Intn(npos), rng.Intn(npos)}, rng.Intn(2) == 0)
	}
	// dialing after Close has returned is refused
	runShutdownCase(out, []shSpec{{ver: 5}, {ver: 5}}, []shOp{{0, 0}, {1, 0}, {1, 0}, {1, 0}, {2, 0}, {2, 0}, {2, 0}, {1, 0}, {2, 0}, {0, 1}})
	mqtt.VerifPointHook = nil
}
