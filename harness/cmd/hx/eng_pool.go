package main

// C41 — packet buffer pool (mempool/bufpool.go).  One case per run:
//   (max events)   max = 0: uncapped constructor / the package-level pool
//   events, ordered by a global sequence counter:
//     (0 tid id len cap)     Get returned buffer id (pointer identity) with this length / capacity
//     (1 tid id n len cap)   n bytes written; length / capacity afterwards
//     (2 tid id)             Put
// The sequence number of a Get is drawn after it returned, that of a Put before it is called, so
// for a correct pool the merged order is a legal sequential history (see coq/Conc/Pool.v).

import (
	"bytes"
	"math/rand"
	"runtime"
	"sort"
	"sync"
	"sync/atomic"

	"github.com/mochi-mqtt/server/v2/mempool"

	"verifharness/sx"
)

func init() { engines["pool"] = engPool }

type poolEv struct {
	seq  uint64
	kind int
	tid  int
	id   int
	n    int
	len  int
	cap  int
}

type poolRun struct {
	seq uint64
	mu  sync.Mutex
	ids map[*bytes.Buffer]int // keeps every buffer alive: pointer identities are never reused
}

func (r *poolRun) next() uint64 { return atomic.AddUint64(&r.seq, 1) }
func (r *poolRun) idOf(b *bytes.Buffer) int {
	r.mu.Lock()
	defer r.mu.Unlock()
	id, ok := r.ids[b]
	if !ok {
		id = len(r.ids) + 1
		r.ids[b] = id
	}
	return id
}

type poolAPI struct {
	get func() *bytes.Buffer
	put func(*bytes.Buffer)
}

func poolSize(rng *rand.Rand, max int) int {
	m := max
	if m <= 0 {
		m = 512
	}
	switch rng.Intn(8) {
	case 0:
		return 0
	case 1, 2, 3:
		return 1 + rng.Intn(48)
	case 4:
		return m - 2 + rng.Intn(5) // around the cap
	case 5:
		return m + 1 + rng.Intn(m+1)
	case 6:
		return rng.Intn(4*m + 1)
	default:
		return 1 + rng.Intn(m)
	}
}

// poolWorker: cycles of get -> writes -> put, holding up to `slots` buffers at once.
func poolWorker(r *poolRun, api poolAPI, tid int, seed int64, max, steps, slots int, gc bool) []poolEv {
	rng := rand.New(rand.NewSource(seed))
	var evs []poolEv
	held := []*bytes.Buffer{}
	junk := make([]byte, 0)
	put := func(i int) {
		b := held[i]
		held = append(held[:i], held[i+1:]...)
		id := r.idOf(b)
		evs = append(evs, poolEv{seq: r.next(), kind: 2, tid: tid, id: id})
		api.put(b)
	}
	for s := 0; s < steps; s++ {
		op := rng.Intn(10)
		switch {
		case len(held) == 0 || (op < 3 && len(held) < slots):
			b := api.get()
			l, c := b.Len(), b.Cap()
			sq := r.next()
			held = append(held, b)
			evs = append(evs, poolEv{seq: sq, kind: 0, tid: tid, id: r.idOf(b), len: l, cap: c})
		case op < 7:
			b := held[rng.Intn(len(held))]
			n := poolSize(rng, max)
			if n < 0 {
				n = 0
			}
			if len(junk) < n {
				junk = make([]byte, n)
				for i := range junk {
					junk[i] = byte(tid + 1)
				}
			}
			b.Write(junk[:n])
			l, c := b.Len(), b.Cap()
			evs = append(evs, poolEv{seq: r.next(), kind: 1, tid: tid, id: r.idOf(b), n: n, len: l, cap: c})
		default:
			put(rng.Intn(len(held)))
		}
		if gc && rng.Intn(40) == 0 {
			runtime.GC()
		}
		if rng.Intn(8) == 0 {
			runtime.Gosched()
		}
	}
	for len(held) > 0 {
		put(len(held) - 1)
	}
	return evs
}

func poolCase(rng *rand.Rand, api poolAPI, max, workers, steps, slots int, gc bool) sx.V {
	r := &poolRun{ids: map[*bytes.Buffer]int{}}
	res := make([][]poolEv, workers)
	seeds := make([]int64, workers)
	for i := range seeds {
		seeds[i] = rng.Int63()
	}
	var wg sync.WaitGroup
	start := make(chan struct{})
	for w := 0; w < workers; w++ {
		wg.Add(1)
		go func(w int) {
			defer wg.Done()
			<-start
			res[w] = poolWorker(r, api, w+1, seeds[w], max, steps, slots, gc)
		}(w)
	}
	close(start)
	wg.Wait()
	var all []poolEv
	for _, e := range res {
		all = append(all, e...)
	}
	sort.Slice(all, func(i, j int) bool { return all[i].seq < all[j].seq })
	l := make(sx.L, 0, len(all))
	for _, e := range all {
		switch e.kind {
		case 0:
			l = append(l, sx.L{sx.N(0), sx.N(e.tid), sx.N(e.id), sx.N(e.len), sx.N(e.cap)})
		case 1:
			l = append(l, sx.L{sx.N(1), sx.N(e.tid), sx.N(e.id), sx.N(e.n), sx.N(e.len), sx.N(e.cap)})
		default:
			l = append(l, sx.L{sx.N(2), sx.N(e.tid), sx.N(e.id)})
		}
	}
	m := max
	if m < 0 {
		m = 0
	}
	return sx.L{sx.N(m), l}
}

func poolOf(max int) poolAPI {
	p := mempool.NewBuffer(max)
	return poolAPI{get: p.Get, put: p.Put}
}

func engPool(seed int64, tier string, _ []string, out *sx.Out) {
	rng := rand.New(rand.NewSource(seed))
	// the package-level pool first (nothing else has touched it in this process)
	out.Case(poolCase(rng, poolAPI{get: mempool.GetBuffer, put: mempool.PutBuffer}, 0, 8, 120, 2, false))

	caps := []int{0, -1, 1, 2, 63, 64, 65, 100, 512, 1024, 4096}
	// (i) small exhaustive-ish: every constructor argument, one goroutine, short sequences
	for _, c := range caps {
		for k := 0; k < 6; k++ {
			out.Case(poolCase(rng, poolOf(c), c, 1, 12+4*k, 1+k%3, k%2 == 0))
		}
	}
	// (ii) sequential random op sequences with several buffers in hand, GC now and then
	nseq, nconc := 150, 200
	if tier == "thorough" {
		nseq, nconc = 3000, 4000
	}
	for i := 0; i < nseq; i++ {
		c := caps[rng.Intn(len(caps))]
		out.Case(poolCase(rng, poolOf(c), c, 1, 40+rng.Intn(160), 1+rng.Intn(4), rng.Intn(3) == 0))
	}
	// (iii) concurrent get/write/put on many goroutines
	for i := 0; i < nconc; i++ {
		c := caps[rng.Intn(len(caps))]
		workers := 2 + rng.Intn(7)
		steps := 20 + rng.Intn(60)
		if tier == "thorough" && i%20 == 0 {
			workers, steps = 16+rng.Intn(17), 150
		}
		out.Case(poolCase(rng, poolOf(c), c, workers, steps, 1+rng.Intn(2), rng.Intn(10) == 0))
	}
}
