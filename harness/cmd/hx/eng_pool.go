package main

// C41 — packet buffer pool (mempool/bufpool.go).  One case per run:
//   (max events)   max = 0: uncapped constructor / the package-level pool
//   events, ordered by a global sequence counter:
//     (0 tid id len cap)     Get returned buffer id (pointer identity) with this length / capacity
//     (1 tid id n len cap)   n bytes written; length / capacity afterwards
//     (2 tid id)             Put
// The sequence number of a Get is drawn after it returned, that of a Put before it is called, so
// for a correct pool the merged order is a legal sequential history (see coq/Conc/Pool.v).

import (
	"bytes"
	"go/ast"
	"go/parser"
	"go/token"
	"math/rand"
	"reflect"
	"runtime"
	"sort"
	"sync"
	"sync/atomic"
	"time"

	"github.com/mochi-mqtt/server/v2/mempool"

	"verifharness/sx"
)

func init() { engines["pool"] = engPool }

type poolEv struct {
	seq  uint64
	kind int
	tid  int
	id   int
	n    int
	len  int
	cap  int
}

type poolRun struct {
	seq uint64
	mu  sync.Mutex
	ids map[*bytes.Buffer]int // keeps every buffer alive: pointer identities are never reused
}

func (r *poolRun) next() uint64 { return atomic.AddUint64(&r.seq, 1) }
func (r *poolRun) idOf(b *bytes.Buffer) int {
	r.mu.Lock()
	defer r.mu.Unlock()
	id, ok := r.ids[b]
	if !ok {
		id = len(r.ids) + 1
		r.ids[b] = id
	}
	return id
}

type poolAPI struct {
	get func() *bytes.Buffer
	put func(*bytes.Buffer)
}

func poolSize(rng *rand.Rand, max int) int {
	m := max
	if m <= 0 {
		m = 512
	}
	switch rng.Intn(8) {
	case 0:
		return 0
	case 1, 2, 3:
		return 1 + rng.Intn(48)
	case 4:
		return m - 2 + rng.Intn(5) // around the cap
	case 5:
		return m + 1 + rng.Intn(m+1)
	case 6:
		return rng.Intn(4*m + 1)
	default:
		return 1 + rng.Intn(m)
	}
}

// poolWorker: cycles of get -> writes -> put, holding up to `slots` buffers at once.
func poolWorker(r *poolRun, api poolAPI, tid int, seed int64, max, steps, slots int, gc bool) []poolEv {
	rng := rand.New(rand.NewSource(seed))
	var evs []poolEv
	held := []*bytes.Buffer{}
	junk := make([]byte, 0)
	put := func(i int) {
		b := held[i]
		held = append(held[:i], held[i+1:]...)
		id := r.idOf(b)
		evs = append(evs, poolEv{seq: r.next(), kind: 2, tid: tid, id: id})
		api.put(b)
	}
	for s := 0; s < steps; s++ {
		op := rng.Intn(10)
		switch {
		case len(held) == 0 || (op < 3 && len(held) < slots):
			b := api.get()
			l, c := b.Len(), b.Cap()
			sq := r.next()
			held = append(held, b)
			evs = append(evs, poolEv{seq: sq, kind: 0, tid: tid, id: r.idOf(b), len: l, cap: c})
		case op < 7:
			b := held[rng.Intn(len(held))]
			n := poolSize(rng, max)
			if n < 0 {
				n = 0
			}
			if len(junk) < n {
				junk = make([]byte, n)
				for i := range junk {
					junk[i] = byte(tid + 1)
				}
			}
			b.Write(junk[:n])
			l, c := b.Len(), b.Cap()
			evs = append(evs, poolEv{seq: r.next(), kind: 1, tid: tid, id: r.idOf(b), n: n, len: l, cap: c})
		default:
			put(rng.Intn(len(held)))
		}
		if gc && rng.Intn(40) == 0 {
			runtime.GC()
		}
		if rng.Intn(8) == 0 {
			runtime.Gosched()
		}
	}
	for len(held) > 0 {
		put(len(held) - 1)
	}
	return evs
}

func poolCase(rng *rand.Rand, api poolAPI, max, workers, steps, slots int, gc bool) sx.V {
	r := &poolRun{ids: map[*bytes.Buffer]int{}}
	res := make([][]poolEv, workers)
	seeds := make([]int64, workers)
	for i := range seeds {
		seeds[i] = rng.Int63()
	}
	var wg sync.WaitGroup
	start := make(chan struct{})
	for w := 0; w < workers; w++ {
		wg.Add(1)
		go func(w int) {
			defer wg.Done()
			<-start
			res[w] = poolWorker(r, api, w+1, seeds[w], max, steps, slots, gc)
		}(w)
	}
	close(start)
	wg.Wait()
	var all []poolEv
	for _, e := range res {
		all = append(all, e...)
	}
	sort.Slice(all, func(i, j int) bool { return all[i].seq < all[j].seq })
	l := make(sx.L, 0, len(all))
	for _, e := range all {
		switch e.kind {
		case 0:
			l = append(l, sx.L{sx.N(0), sx.N(e.tid), sx.N(e.id), sx.N(e.len), sx.N(e.cap)})
		case 1:
			l = append(l, sx.L{sx.N(1), sx.N(e.tid), sx.N(e.id), sx.N(e.n), sx.N(e.len), sx.N(e.cap)})
		default:
			l = append(l, sx.L{sx.N(2), sx.N(e.tid), sx.N(e.id)})
		}
	}
	m := max
	if m < 0 {
		m = 0
	}
	return sx.L{sx.N(m), l}
}

func poolOf(max int) poolAPI {
	p := mempool.NewBuffer(max)
	return poolAPI{get: p.Get, put: p.Put}
}

// ---- structural: the order of effects in the Put methods, read from the source this binary was
// built from (the file recorded in the binary's line tables) ----
//
//	1 = x.Reset()   2 = <recv>.pool.Put(x)   3 = if x.Cap() > ... { return }
//	4 = another Put(x)   5 = any other use of x   9 = a construct the reader cannot place
//
// deferred calls come last, in reverse order; x = the method's parameter.
func poolMentions(n ast.Node, name string) bool {
	found := false
	ast.Inspect(n, func(m ast.Node) bool {
		if id, ok := m.(*ast.Ident); ok && id.Name == name {
			found = true
		}
		return !found
	})
	return found
}

func poolClassifyCall(c *ast.CallExpr, x string) int {
	sel, ok := c.Fun.(*ast.SelectorExpr)
	if !ok {
		if poolMentions(c, x) {
			return 5
		}
		return 0
	}
	if id, ok := sel.X.(*ast.Ident); ok && id.Name == x {
		if sel.Sel.Name == "Reset" && len(c.Args) == 0 {
			return 1
		}
		return 5
	}
	argIsX := len(c.Args) == 1
	if argIsX {
		id, ok := c.Args[0].(*ast.Ident)
		argIsX = ok && id.Name == x
	}
	if sel.Sel.Name == "Put" && argIsX {
		if inner, ok := sel.X.(*ast.SelectorExpr); ok && inner.Sel.Name == "pool" {
			return 2
		}
		return 4
	}
	if poolMentions(c, x) {
		return 5
	}
	return 0
}

func poolPutBody(fd *ast.FuncDecl) []int {
	if fd.Type.Params == nil || len(fd.Type.Params.List) != 1 || len(fd.Type.Params.List[0].Names) != 1 {
		return []int{9}
	}
	x := fd.Type.Params.List[0].Names[0].Name
	var seq, deferred []int
	for _, st := range fd.Body.List {
		switch s := st.(type) {
		case *ast.ExprStmt:
			if c, ok := s.X.(*ast.CallExpr); ok {
				if k := poolClassifyCall(c, x); k != 0 {
					seq = append(seq, k)
				}
			} else if poolMentions(s, x) {
				seq = append(seq, 9)
			}
		case *ast.DeferStmt:
			if k := poolClassifyCall(s.Call, x); k != 0 {
				deferred = append(deferred, k)
			} else if poolMentions(s, x) {
				deferred = append(deferred, 9) // e.g. defer func() { ... x ... }()
			}
		case *ast.IfStmt:
			guard := s.Init == nil && s.Else == nil && len(s.Body.List) == 1
			if guard {
				r, ok := s.Body.List[0].(*ast.ReturnStmt)
				guard = ok && len(r.Results) == 0
			}
			if guard {
				if be, ok := s.Cond.(*ast.BinaryExpr); ok && be.Op == token.GTR {
					if c, ok := be.X.(*ast.CallExpr); ok {
						if sel, ok := c.Fun.(*ast.SelectorExpr); ok && sel.Sel.Name == "Cap" {
							if id, ok := sel.X.(*ast.Ident); ok && id.Name == x {
								seq = append(seq, 3)
								continue
							}
						}
					}
				}
			}
			if poolMentions(s, x) {
				seq = append(seq, 9)
			}
		case *ast.ReturnStmt:
			if poolMentions(s, x) {
				seq = append(seq, 9)
			}
		default:
			if poolMentions(st, x) {
				seq = append(seq, 9) // go statements, assignments, loops ... touching x
			}
		}
	}
	for i := len(deferred) - 1; i >= 0; i-- {
		seq = append(seq, deferred[i])
	}
	return seq
}

func poolStructural(out *sx.Out) {
	pc := reflect.ValueOf(mempool.NewBuffer).Pointer()
	file, _ := runtime.FuncForPC(pc).FileLine(pc)
	fset := token.NewFileSet()
	f, err := parser.ParseFile(fset, file, nil, 0)
	found := map[string][]int{}
	if err == nil {
		for _, d := range f.Decls {
			fd, ok := d.(*ast.FuncDecl)
			if !ok || fd.Recv == nil || fd.Name.Name != "Put" || fd.Body == nil || len(fd.Recv.List) != 1 {
				continue
			}
			if st, ok := fd.Recv.List[0].Type.(*ast.StarExpr); ok {
				if id, ok := st.X.(*ast.Ident); ok {
					found[id.Name] = poolPutBody(fd)
				}
			}
		}
	}
	for kind, name := range []string{"Buffer", "BufferWithCap"} {
		seq, ok := found[name]
		if !ok {
			seq = []int{9} // method not found (or file unreadable): not the structure the model describes
		}
		l := sx.L{}
		for _, k := range seq {
			l = append(l, sx.N(k))
		}
		out.Case(sx.L{sx.N(8), sx.N(kind), l})
	}
}

// ---- parallel canary stress: n goroutines, each holding 2..4 buffers at a time.  Every goroutine
// fills its buffers with its own id byte and checks on every step that what it owns still has the
// length it wrote and contains only its own bytes, and that Get returned an empty buffer.
// case = (7 max gets viols), viol = (kind tid id want seen) ----
type poolViol struct{ kind, tid, id, want, seen int }

func poolStress(api poolAPI, max, workers int, dur time.Duration, seed int64) sx.V {
	var gets uint64
	var mu sync.Mutex
	var viols []poolViol
	ids := map[*bytes.Buffer]int{}
	report := func(v poolViol, b *bytes.Buffer) {
		mu.Lock()
		id, ok := ids[b]
		if !ok {
			id = len(ids) + 1
			ids[b] = id
		}
		v.id = id
		if len(viols) < 16 {
			viols = append(viols, v)
		}
		mu.Unlock()
	}
	stop := make(chan struct{})
	var wg sync.WaitGroup
	for w := 0; w < workers; w++ {
		wg.Add(1)
		go func(tid int) {
			defer wg.Done()
			rng := rand.New(rand.NewSource(seed + int64(tid)))
			me := byte(tid)
			chunk := bytes.Repeat([]byte{me}, 96)
			type own struct {
				b *bytes.Buffer
				n int
			}
			var held []own
			check := func(o own) bool {
				if o.b.Len() != o.n {
					report(poolViol{kind: 1, tid: tid, want: o.n, seen: o.b.Len()}, o.b)
					return false
				}
				for _, c := range o.b.Bytes() {
					if c != me {
						report(poolViol{kind: 2, tid: tid, want: tid, seen: int(c)}, o.b)
						return false
					}
				}
				return true
			}
			for round := 0; ; round++ {
				if round%64 == 0 {
					select {
					case <-stop:
						for _, o := range held {
							api.put(o.b)
						}
						return
					default:
					}
				}
				want := 2 + rng.Intn(3)
				for len(held) < want {
					b := api.get()
					if l := b.Len(); l != 0 {
						report(poolViol{kind: 0, tid: tid, seen: l}, b)
						b.Reset() // carry on with a usable buffer: later reports stay meaningful
					}
					atomic.AddUint64(&gets, 1)
					n := 1 + rng.Intn(len(chunk))
					if max > 0 && rng.Intn(16) == 0 {
						n = len(chunk) // stays below every cap the stress uses
					}
					b.Write(chunk[:n])
					held = append(held, own{b, n})
				}
				ok := true
				for i := range held {
					if !check(held[i]) {
						ok = false
					}
					if rng.Intn(4) == 0 && held[i].n < 4096 {
						k := 1 + rng.Intn(len(chunk))
						held[i].b.Write(chunk[:k])
						held[i].n += k
					}
				}
				if !ok { // forget what went wrong, do not put possibly shared buffers back twice
					held = held[:0]
					continue
				}
				k := 1 + rng.Intn(len(held))
				for i := 0; i < k; i++ {
					j := rng.Intn(len(held))
					if check(held[j]) {
						api.put(held[j].b)
					}
					held = append(held[:j], held[j+1:]...)
				}
			}
		}(w + 1)
	}
	time.Sleep(dur)
	close(stop)
	wg.Wait()
	vl := sx.L{}
	for _, v := range viols {
		vl = append(vl, sx.L{sx.N(v.kind), sx.N(v.tid), sx.N(v.id), sx.N(v.want), sx.N(v.seen)})
	}
	m := max
	if m < 0 {
		m = 0
	}
	return sx.L{sx.N(7), sx.N(m), sx.N(atomic.LoadUint64(&gets)), vl}
}

func engPool(seed int64, tier string, _ []string, out *sx.Out) {
	rng := rand.New(rand.NewSource(seed))
	poolStructural(out)
	// the package-level pool first (nothing else has touched it in this process)
	out.Case(poolCase(rng, poolAPI{get: mempool.GetBuffer, put: mempool.PutBuffer}, 0, 8, 120, 2, false))

	caps := []int{0, -1, 1, 2, 63, 64, 65, 100, 512, 1024, 4096}
	// (i) small exhaustive-ish: every constructor argument, one goroutine, short sequences
	for _, c := range caps {
		for k := 0; k < 6; k++ {
			out.Case(poolCase(rng, poolOf(c), c, 1, 12+4*k, 1+k%3, k%2 == 0))
		}
	}
	// (ii) sequential random op sequences with several buffers in hand, GC now and then
	nseq, nconc := 150, 200
	if tier == "thorough" {
		nseq, nconc = 3000, 4000
	}
	for i := 0; i < nseq; i++ {
		c := caps[rng.Intn(len(caps))]
		out.Case(poolCase(rng, poolOf(c), c, 1, 40+rng.Intn(160), 1+rng.Intn(4), rng.Intn(3) == 0))
	}
	// (iv) parallel canary stress on every kind of pool (time-bounded)
	dur, reps := 400*time.Millisecond, 1
	if tier == "thorough" {
		dur, reps = 2*time.Second, 3
	}
	for r := 0; r < reps; r++ {
		out.Case(poolStress(poolAPI{get: mempool.GetBuffer, put: mempool.PutBuffer}, 0, 32, dur, rng.Int63()))
		out.Case(poolStress(poolOf(0), 0, 16+rng.Intn(17), dur, rng.Int63()))
		out.Case(poolStress(poolOf(8192), 8192, 16+rng.Intn(17), dur, rng.Int63()))
		out.Case(poolStress(poolOf(1024), 1024, 24, dur, rng.Int63()))
	}
	// (iii) concurrent get/write/put on many goroutines
	for i := 0; i < nconc; i++ {
		c := caps[rng.Intn(len(caps))]
		workers := 2 + rng.Intn(7)
		steps := 20 + rng.Intn(60)
		if tier == "thorough" && i%20 == 0 {
			workers, steps = 16+rng.Intn(17), 150
		}
		out.Case(poolCase(rng, poolOf(c), c, workers, steps, 1+rng.Intn(2), rng.Intn(10) == 0))
	}
}
