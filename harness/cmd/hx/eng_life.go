package main

import (
	"fmt"
	"math"
	"math/rand"
	"os"
	"time"

	mqtt "github.com/mochi-mqtt/server/v2"
	"github.com/mochi-mqtt/server/v2/packets"

	"verifharness/broker"
	"verifharness/sx"
)

func init() { engines["life"] = engLife }

// Session life-cycle engine (C13-C16).  Drives the real broker through histories of connects,
// takeovers, disconnects, network closes, held teardowns, virtual-time housekeeping ticks,
// subscriptions and publishes, and emits per step: the operation, what every connection
// received, closes, the life-cycle hook events and the life-cycle snapshot.
//
// case  = (family (maxsei minver maxqos retainavail) authmode (step...) hung)
// step  = (op outs hooks snap)
// op    = (1 conn now connect authok effid)  connect = see cvSx      CONNECT as first packet
//       | (2 conn now kind)                                           first packet is not a decodable CONNECT
//       | (3 conn now rc seiflag sei)                                 DISCONNECT
//       | (4 conn now)                                                client drops the network connection
//       | (5 conn now)                                                teardown of a connection the broker closed from another goroutine
//       | (6 now) | (7 now)                                           tick clients / tick delayed wills
//       | (8 conn now filter qos)                                     SUBSCRIBE
//       | (9 conn now topic payload qos retain)                       PUBLISH
//       | (10 conn now)                                               a second CONNECT (protocol error)
// outs  = ((conn (pkt...) closedNow doneNow)...)   pkt = (type rc sp topic payload qos retain dup)
// hooks = ((name client extra)...)   incl. (QosDropped id payload) and (Unsubscribed id filter) for the C14 clean-start clause
// snap  = (clients index wills retained)
//   client = (id conn open takenover disc ver clean sei seiflag willflag (sub...) (inflightpayload...))
//   index  = (id filter qos)   will = (id due topic payload qos retain)   retained = (topic payload)
// Times are relative to base = (wall clock at the start of the history) - 1000, so that 0 keeps
// meaning "never" for the disconnect stamp.

type cvar struct {
	pname       string
	ver         byte
	reserved    bool
	clean       bool
	willFlag    bool
	willQos     byte
	willRetain  bool
	willTopic   string
	willPayload []byte
	willDelay   uint32
	userFlag    bool
	user        []byte
	passFlag    bool
	pass        []byte
	keepalive   uint16
	id          string
	seiFlag     bool
	sei         uint32
	trunc       bool // the last credential field announced by the flags is missing
}

func u16b(n int) []byte    { return []byte{byte(n >> 8), byte(n)} }
func u32b(n uint32) []byte { return []byte{byte(n >> 24), byte(n >> 16), byte(n >> 8), byte(n)} }
func vbi(n int) []byte {
	var b []byte
	for {
		d := byte(n % 128)
		n /= 128
		if n > 0 {
			d |= 0x80
		}
		b = append(b, d)
		if n == 0 {
			return b
		}
	}
}
func lp(b []byte) []byte { return append(u16b(len(b)), b...) }

// encode writes the CONNECT packet by hand (no dependence on mochi's encoder; allows reserved bit,
// unknown protocol names / versions, will QoS 3, missing credential fields).
func (v cvar) encode() []byte {
	body := lp([]byte(v.pname))
	body = append(body, v.ver)
	var flags byte
	if v.reserved {
		flags |= 1
	}
	if v.clean {
		flags |= 2
	}
	if v.willFlag {
		flags |= 4
	}
	flags |= (v.willQos & 3) << 3
	if v.willRetain {
		flags |= 32
	}
	if v.passFlag {
		flags |= 64
	}
	if v.userFlag {
		flags |= 128
	}
	body = append(body, flags)
	body = append(body, u16b(int(v.keepalive))...)
	if v.ver == 5 {
		var p []byte
		if v.seiFlag {
			p = append([]byte{0x11}, u32b(v.sei)...)
		}
		body = append(body, vbi(len(p))...)
		body = append(body, p...)
	}
	body = append(body, lp([]byte(v.id))...)
	if v.willFlag {
		if v.ver == 5 {
			var p []byte
			if v.willDelay > 0 {
				p = append([]byte{0x18}, u32b(v.willDelay)...)
			}
			body = append(body, vbi(len(p))...)
			body = append(body, p...)
		}
		body = append(body, lp([]byte(v.willTopic))...)
		body = append(body, lp(v.willPayload)...)
	}
	if v.userFlag && !(v.trunc && !v.passFlag) {
		body = append(body, lp(v.user)...)
	}
	if v.passFlag && !v.trunc {
		body = append(body, lp(v.pass)...)
	}
	out := append([]byte{0x10}, vbi(len(body))...)
	return append(out, body...)
}

// cvSx: (pname ver reserved clean willflag willqos willretain willtopic willpayload willdelay
//        userflag user passflag pass keepalive id seiflag sei trunc)
func cvSx(v cvar) sx.V {
	return sx.L{sx.S(v.pname), sx.N(uint64(v.ver)), sx.Bool(v.reserved), sx.Bool(v.clean), sx.Bool(v.willFlag),
		sx.N(uint64(v.willQos)), sx.Bool(v.willRetain), sx.S(v.willTopic), sx.B(v.willPayload), sx.N(uint64(v.willDelay)),
		sx.Bool(v.userFlag), sx.B(v.user), sx.Bool(v.passFlag), sx.B(v.pass), sx.N(uint64(v.keepalive)), sx.S(v.id),
		sx.Bool(v.seiFlag), sx.N(uint64(v.sei)), sx.Bool(v.trunc && (v.userFlag || v.passFlag)),
		sx.Bool(!v.willFlag || mqtt.IsValidFilter(v.willTopic, true))}
}

type lifeCaps struct {
	maxSEI      uint32
	minVer      byte
	maxQos      byte
	retainAvail byte
}

type lconn struct {
	c        *broker.Conn
	v        cvar
	accepted bool // a success CONNACK was received
	closed   bool // the broker closed the connection (event already reported)
	done     bool
	sentEnd  bool // the client already sent DISCONNECT / dropped the connection
}

type lifeH struct {
	b        *broker.B
	base     int64
	caps     lifeCaps
	authMode int
	conns    []*lconn
	steps    sx.L
	straddle bool
	last     mqtt.VerifLifeSnap
}

func authDecision(mode int) func(cl *mqtt.Client, pk packets.Packet) bool {
	switch mode {
	case 1:
		return broker.AllowAuth
	case 2:
		return func(*mqtt.Client, packets.Packet) bool { return false }
	case 3:
		return func(cl *mqtt.Client, pk packets.Packet) bool {
			return string(pk.Connect.Username) == "u" && string(pk.Connect.Password) == "p"
		}
	}
	return nil
}

func authOK(mode int, v cvar) bool {
	switch mode {
	case 1:
		return true
	case 3:
		return v.userFlag && v.passFlag && string(v.user) == "u" && string(v.pass) == "p"
	}
	return false
}

func newLifeH(caps lifeCaps, authMode int) *lifeH { return newLifeHOpts(caps, authMode, 0) }

// brokerDecodeAll decodes everything the broker has written to the connection so far.
func brokerDecodeAll(lc *lconn) ([]packets.Packet, []byte, error) {
	return broker.DecodeStream(lc.c.Version, lc.c.MC.AllOutput())
}

func newLifeHOpts(caps lifeCaps, authMode int, quiesce time.Duration) *lifeH {
	c := mqtt.NewDefaultServerCapabilities()
	c.MaximumSessionExpiryInterval = caps.maxSEI
	c.MinimumProtocolVersion = caps.minVer
	c.MaximumQos = caps.maxQos
	c.RetainAvailable = caps.retainAvail
	h := &lifeH{caps: caps, authMode: authMode}
	h.b = broker.New(broker.Opts{Caps: c, Auth: authDecision(authMode), ACL: broker.AllowACL, ManualTeardown: true, QuiesceTimeout: quiesce})
	h.base = time.Now().Unix() - 1000
	return h
}

func zrel(t, base int64) sx.V {
	if t == 0 {
		return sx.L{sx.N(0), sx.N(0)}
	}
	r := t - base
	if r < 0 {
		return sx.L{sx.N(1), sx.N(uint64(-r))}
	}
	return sx.L{sx.N(0), sx.N(uint64(r))}
}

func lifePkSx(p packets.Packet) sx.V {
	return sx.L{sx.N(uint64(p.FixedHeader.Type)), sx.N(uint64(p.ReasonCode)), sx.Bool(p.SessionPresent), sx.S(p.TopicName),
		sx.B(p.Payload), sx.N(uint64(p.FixedHeader.Qos)), sx.Bool(p.FixedHeader.Retain), sx.Bool(p.FixedHeader.Dup)}
}

func (h *lifeH) connIdx(remote string) uint64 {
	var n uint64
	if _, err := fmt.Sscanf(remote, "c%d", &n); err != nil {
		return 999
	}
	return n
}

func (h *lifeH) snapSx(s mqtt.VerifLifeSnap) sx.V {
	cls := sx.L{}
	for _, c := range s.Clients {
		subs := sx.L{}
		for _, f := range c.Subs {
			subs = append(subs, sx.S(f))
		}
		infl := sx.L{}
		for _, p := range c.Inflight {
			infl = append(infl, sx.B(p))
		}
		cls = append(cls, sx.L{sx.S(c.ID), sx.N(h.connIdx(c.Remote)), sx.Bool(c.Open), sx.Bool(c.TakenOver), zrel(c.StopTime, h.base),
			sx.N(uint64(c.Version)), sx.Bool(c.Clean), sx.N(uint64(c.SEI)), sx.Bool(c.SEIFlag), sx.Bool(c.WillFlag != 0), subs, infl})
	}
	idx := sx.L{}
	for _, e := range s.Index {
		idx = append(idx, sx.L{sx.S(e.Client), sx.S(e.Filter), sx.N(uint64(e.Qos))})
	}
	wl := sx.L{}
	for _, w := range s.Wills {
		wl = append(wl, sx.L{sx.S(w.Client), zrel(w.Due, h.base), sx.S(w.Topic), sx.B(w.Payload), sx.N(uint64(w.Qos)), sx.Bool(w.Retain)})
	}
	rt := sx.L{}
	for _, r := range s.Retained {
		rt = append(rt, sx.L{sx.S(r.Topic), sx.B(r.Payload)})
	}
	return sx.L{cls, idx, wl, rt}
}

// now returns the wall clock relative to base.
func (h *lifeH) now() int64 { return time.Now().Unix() - h.base }

// emit records one step after the broker has quiesced.
func (h *lifeH) emit(op sx.L, t0 int64) {
	if h.now() != t0 {
		h.straddle = true
	}
	outs := sx.L{}
	for _, o := range h.b.Drain() {
		lc := h.conns[o.Conn]
		closedNow := o.Closed && !lc.closed
		doneNow := o.Done && !lc.done
		lc.closed = lc.closed || o.Closed
		lc.done = lc.done || o.Done
		if len(o.Packets) == 0 && !closedNow && !doneNow && o.DecErr == "" {
			continue
		}
		pks := sx.L{}
		for _, p := range o.Packets {
			pks = append(pks, lifePkSx(p))
			if p.FixedHeader.Type == packets.Connack && p.ReasonCode == 0 {
				lc.accepted = true
			}
		}
		if o.DecErr != "" {
			pks = append(pks, sx.L{sx.N(99), sx.N(0), sx.N(0), sx.S(o.DecErr), sx.B(o.Raw), sx.N(0), sx.N(0), sx.N(0)})
		}
		outs = append(outs, sx.L{sx.N(uint64(o.Conn)), pks, sx.Bool(closedNow), sx.Bool(doneNow)})
	}
	hooks := sx.L{}
	for _, e := range h.b.Rec.Drain() {
		switch e.Name {
		case "WillSent", "ClientExpired", "Disconnect", "PANIC":
			hooks = append(hooks, sx.L{sx.S(e.Name), sx.S(e.Client), sx.S(e.Extra)})
		case "QosDropped": // an in-flight record released with a report (ClearInflights, expiry): client id + payload
			if e.Pk.FixedHeader.Type == packets.Publish {
				hooks = append(hooks, sx.L{sx.S(e.Name), sx.S(e.Client), sx.B(e.Pk.Payload)})
			}
		case "Unsubscribed": // one tuple per filter
			for _, f := range e.Pk.Filters {
				hooks = append(hooks, sx.L{sx.S(e.Name), sx.S(e.Client), sx.S(f.Filter)})
			}
		}
	}
	h.last = h.b.Srv.VerifLifeSnapshot()
	h.steps = append(h.steps, sx.L{op, outs, hooks, h.snapSx(h.last)})
}

// ---- operations ----

func (h *lifeH) open(v cvar) *lconn {
	idx := len(h.conns)
	c := h.b.Open(fmt.Sprintf("c%d", idx))
	c.Version = v.ver
	c.ClientID = v.id
	lc := &lconn{c: c, v: v}
	h.conns = append(h.conns, lc)
	return lc
}

func (h *lifeH) opConnect(v cvar) *lconn {
	t0 := h.now()
	lc := h.open(v)
	h.b.Send(lc.c, v.encode())
	// the identifier the broker uses for the session (assigned when the client sent none): oracle for the model
	eff := v.id
	if eff == "" {
		for _, c := range h.b.Srv.VerifLifeSnapshot().Clients {
			if c.Remote == fmt.Sprintf("c%d", lc.c.Idx) {
				eff = c.ID
			}
		}
		if eff == "" {
			eff = fmt.Sprintf("\x00c%d", lc.c.Idx)
		}
	}
	h.emit(sx.L{sx.N(1), sx.N(uint64(lc.c.Idx)), sx.N(uint64(t0)), cvSx(v), sx.Bool(authOK(h.authMode, v)), sx.S(eff)}, t0)
	return lc
}

func (h *lifeH) opBadFirst(kind int) *lconn {
	t0 := h.now()
	lc := h.open(cvar{ver: 4})
	var data []byte
	switch kind {
	case 0:
		data = []byte{0xC0, 0x00} // PINGREQ
	case 1:
		data = []byte{0x30, 0x03, 0x00, 0x01, 'x'} // PUBLISH
	case 2:
		data = []byte{0x10, 0x02, 0x00, 0x04} // CONNECT cut short
	case 3:
		data = []byte{0xE0, 0x00} // DISCONNECT
	default:
		data = []byte{0x00, 0x00} // reserved type 0
	}
	h.b.Send(lc.c, data)
	h.emit(sx.L{sx.N(2), sx.N(uint64(lc.c.Idx)), sx.N(uint64(t0)), sx.N(uint64(kind))}, t0)
	return lc
}

func (h *lifeH) opDisconnect(lc *lconn, rc byte, seiFlag bool, sei uint32) {
	t0 := h.now()
	pk := broker.DisconnectPk(rc)
	if seiFlag && lc.v.ver == 5 {
		pk.Properties.SessionExpiryInterval = sei
		pk.Properties.SessionExpiryIntervalFlag = true
	} else {
		seiFlag, sei = false, 0
	}
	if lc.v.ver < 5 {
		rc = 0
	}
	lc.sentEnd = true
	_ = h.b.SendPacket(lc.c, pk)
	h.emit(sx.L{sx.N(3), sx.N(uint64(lc.c.Idx)), sx.N(uint64(t0)), sx.N(uint64(rc)), sx.Bool(seiFlag), sx.N(uint64(sei))}, t0)
}

func (h *lifeH) opNetClose(lc *lconn) {
	t0 := h.now()
	lc.sentEnd = true
	h.b.NetClose(lc.c)
	h.emit(sx.L{sx.N(4), sx.N(uint64(lc.c.Idx)), sx.N(uint64(t0))}, t0)
}

func (h *lifeH) opTeardown(lc *lconn) {
	t0 := h.now()
	h.b.Teardown(lc.c)
	h.emit(sx.L{sx.N(5), sx.N(uint64(lc.c.Idx)), sx.N(uint64(t0))}, t0)
}

func (h *lifeH) opTick(kind string, now int64) {
	t0 := h.now()
	code := uint64(6)
	if kind == "will" {
		code = 7
	}
	h.b.Tick(kind, now+h.base)
	z := zrel(now+h.base, h.base)
	h.emit(sx.L{sx.N(code), z}, t0)
}

func (h *lifeH) opSubscribe(lc *lconn, filter string, qos byte) {
	t0 := h.now()
	sub := packets.Subscription{Filter: filter, Qos: qos}
	if lc.v.ver == 5 {
		sub.RetainAsPublished = true
	}
	_ = h.b.SendPacket(lc.c, broker.SubscribePk(uint16(10+len(h.steps)), sub))
	h.emit(sx.L{sx.N(8), sx.N(uint64(lc.c.Idx)), sx.N(uint64(t0)), sx.S(filter), sx.N(uint64(qos))}, t0)
}

func (h *lifeH) opPublish(lc *lconn, topic string, payload []byte, qos byte, retain bool) {
	t0 := h.now()
	pid := uint16(0)
	if qos > 0 {
		pid = uint16(100 + len(h.steps))
	}
	_ = h.b.SendPacket(lc.c, broker.PublishPk(topic, payload, qos, retain, pid))
	h.emit(sx.L{sx.N(9), sx.N(uint64(lc.c.Idx)), sx.N(uint64(t0)), sx.S(topic), sx.B(payload), sx.N(uint64(qos)), sx.Bool(retain)}, t0)
}

func (h *lifeH) opSecondConnect(lc *lconn) {
	t0 := h.now()
	lc.sentEnd = true
	h.b.Send(lc.c, lc.v.encode())
	h.emit(sx.L{sx.N(10), sx.N(uint64(lc.c.Idx)), sx.N(uint64(t0))}, t0)
}

func (h *lifeH) reading(lc *lconn) bool { return lc.accepted && !lc.closed && !lc.done && !lc.sentEnd }
func (h *lifeH) held(lc *lconn) bool    { return lc.closed && !lc.done }

func (h *lifeH) finish(family string, out *sx.Out) {
	h.b.Shutdown()
	out.Case(sx.L{sx.S(family), sx.L{sx.N(uint64(h.caps.maxSEI)), sx.N(uint64(h.caps.minVer)), sx.N(uint64(h.caps.maxQos)),
		sx.N(uint64(h.caps.retainAvail))}, sx.N(uint64(h.authMode)), h.steps, sx.Bool(h.b.Hung)})
}

func defaultLifeCaps() lifeCaps {
	return lifeCaps{maxSEI: math.MaxUint32, minVer: 3, maxQos: 2, retainAvail: 1}
}

func stdConnect(id string, ver byte, clean bool) cvar {
	pn := "MQTT"
	if ver == 3 {
		pn = "MQIsdp"
	}
	return cvar{pname: pn, ver: ver, clean: clean, id: id, keepalive: 60}
}

// runLife runs one history; gen drives it.  A history that straddled a second boundary of the wall
// clock is run again (the broker stamps disconnects and delayed wills with the wall clock).
func runLife(family string, caps lifeCaps, authMode int, out *sx.Out, gen func(h *lifeH)) {
	for attempt := 0; attempt < 6; attempt++ {
		h := newLifeH(caps, authMode)
		gen(h)
		if h.straddle && attempt < 5 {
			h.b.Shutdown()
			continue
		}
		h.finish(family, out)
		return
	}
}

// deadlines of the sessions and delayed wills currently in the broker, as tick-time candidates
func (h *lifeH) tickCandidates() []int64 {
	var c []int64
	for _, cl := range h.last.Clients {
		if cl.StopTime == 0 {
			continue
		}
		exp := int64(h.caps.maxSEI)
		if cl.Version == 5 && cl.SEIFlag {
			exp = int64(cl.SEI)
		}
		d := cl.StopTime - h.base + exp
		if d < 1<<40 {
			c = append(c, d-1, d, d+1)
		}
		// what the deadline should be (client's interval capped by the server maximum)
		if exp > int64(h.caps.maxSEI) {
			d = cl.StopTime - h.base + int64(h.caps.maxSEI)
			c = append(c, d, d+1)
		}
	}
	for _, w := range h.last.Wills {
		d := w.Due - h.base
		c = append(c, d-1, d, d+1)
	}
	if len(c) == 0 {
		c = append(c, h.now(), h.now()+1)
	}
	return c
}

func engLife(seed int64, tier string, args []string, out *sx.Out) {
	focus := "all"
	if len(args) > 0 {
		focus = args[0]
	}
	t0 := time.Now()
	switch focus {
	case "C13":
		lifeConnectProduct(seed, tier, out)
	default:
		lifeScenarios(focus, seed, tier, out)
		lifeRandom(focus, seed, tier, out)
	}
	fmt.Fprintf(os.Stderr, "life %s: %d cases in %v\n", focus, out.Count(), time.Since(t0))
}

// ---------------------------------------------------------------------------------------------
// scenario families (small exhaustive products around the hazards)

func lifeScenarios(focus string, seed int64, tier string, out *sx.Out) {
	thorough := tier == "thorough"
	obsConnect := func(h *lifeH) *lconn {
		o := h.opConnect(stdConnect("obs", 5, true))
		h.opSubscribe(o, "w/1", 2)
		return o
	}
	// --- C15: expiry boundaries, DISCONNECT with a Session Expiry property, reconnect with the same id
	if focus == "all" || focus == "C15" {
		type sess struct {
			ver     byte
			clean   bool
			seiFlag bool
			sei     uint32
		}
		sessions := []sess{{5, false, true, 5}, {5, false, true, 0}, {5, false, false, 0}, {5, false, true, 50}, {4, false, false, 0},
			{4, true, false, 0}, {3, false, false, 0}, {5, true, true, 5}}
		type end struct {
			kind    int // 0 normal disconnect, 1 net close, 2 disconnect with SEI
			seiProp uint32
		}
		ends := []end{{0, 0}, {1, 0}, {2, 0}, {2, 3}, {2, 40}}
		maxes := []uint32{math.MaxUint32, 10}
		for _, mx := range maxes {
			for _, s := range sessions {
				for _, e := range ends {
					if e.kind == 2 && s.ver < 5 {
						continue
					}
					for _, recClean := range []bool{false, true} {
						for off := -1; off <= 1; off++ {
							if !thorough && off == -1 && recClean {
								continue
							}
							caps := defaultLifeCaps()
							caps.maxSEI = mx
							s, e, recClean, off := s, e, recClean, off
							runLife("C15", caps, 1, out, func(h *lifeH) {
								o := obsConnect(h)
								v := stdConnect("a", s.ver, s.clean)
								v.seiFlag, v.sei = s.seiFlag, s.sei
								a := h.opConnect(v)
								if !h.reading(a) {
									return
								}
								h.opSubscribe(a, "t/1", 1)
								h.opPublish(o, "t/1", []byte("m1"), 1, false)
								switch e.kind {
								case 0:
									h.opDisconnect(a, 0, false, 0)
								case 1:
									h.opNetClose(a)
								case 2:
									h.opDisconnect(a, 0, true, e.seiProp)
								}
								h.opPublish(o, "t/1", []byte("m2"), 1, false)
								// tick at the deadline the property prescribes, -1 / 0 / +1
								eff := int64(0)
								if s.ver == 5 {
									eff = int64(s.sei)
									if !s.seiFlag {
										eff = 0
									}
									if e.kind == 2 && !(eff == 0 && e.seiProp > 0) {
										eff = int64(e.seiProp)
									}
									if eff > int64(mx) {
										eff = int64(mx)
									}
								} else if !s.clean {
									eff = int64(mx)
								}
								if eff < 1<<33 {
									h.opTick("clients", h.now()+eff+int64(off))
									h.opTick("clients", h.now()+eff+int64(off)+1)
								} else {
									h.opTick("clients", h.now()+100000)
								}
								h.opPublish(o, "t/1", []byte("m3"), 1, false)
								a2 := h.opConnect(stdConnect("a", 5, recClean))
								h.opPublish(o, "t/1", []byte("m4"), 1, false)
								if h.reading(a2) {
									h.opDisconnect(a2, 0, false, 0)
								}
							})
						}
					}
				}
			}
		}
	}
	// --- C14: takeover, resume keeps / clean drops, old connection silent
	if focus == "all" || focus == "C14" {
		for _, oldVer := range []byte{3, 4, 5} {
			for _, oldClean := range []bool{false, true} {
				for _, oldSEI := range []uint32{0, 30} {
					if oldVer < 5 && oldSEI != 0 {
						continue
					}
					for _, newVer := range []byte{4, 5} {
						for _, newClean := range []bool{false, true} {
							for _, mode := range []int{0, 1, 2} { // 0 takeover of a live connection, 1 reconnect after net close, 2 takeover + late teardown
								oldVer, oldClean, oldSEI, newVer, newClean, mode := oldVer, oldClean, oldSEI, newVer, newClean, mode
								runLife("C14", defaultLifeCaps(), 1, out, func(h *lifeH) {
									o := obsConnect(h)
									v := stdConnect("a", oldVer, oldClean)
									if oldVer == 5 {
										v.seiFlag, v.sei = true, oldSEI
									}
									a := h.opConnect(v)
									if !h.reading(a) {
										return
									}
									h.opSubscribe(a, "t/1", 1)
									h.opSubscribe(a, "t/2", 1)
									h.opPublish(o, "t/1", []byte("m1"), 1, false)
									if mode == 1 {
										h.opNetClose(a)
										h.opPublish(o, "t/2", []byte("m2"), 1, false)
									}
									v2 := stdConnect("a", newVer, newClean)
									if newVer == 5 {
										v2.seiFlag, v2.sei = true, 30
									}
									a2 := h.opConnect(v2)
									if mode == 2 {
										h.opPublish(o, "t/1", []byte("m3"), 1, false)
									}
									if h.held(a) {
										h.opTeardown(a)
									}
									h.opPublish(o, "t/2", []byte("m4"), 1, false)
									if h.reading(a2) {
										h.opSubscribe(a2, "t/2", 1)
										h.opPublish(o, "t/2", []byte("m5"), 0, false)
										h.opNetClose(a2)
									}
									a3 := h.opConnect(stdConnect("a", 5, false))
									_ = a3
									h.opPublish(o, "t/1", []byte("m6"), 0, false)
								})
							}
						}
					}
				}
			}
		}
	}
	// --- C16: wills
	if focus == "all" || focus == "C16" {
		type wcfg struct {
			delay   uint32
			retain  bool
			qos     byte
			seiFlag bool
			sei     uint32
			ver     byte
		}
		wcs := []wcfg{{0, false, 1, true, 20, 5}, {0, true, 0, false, 0, 5}, {3, false, 1, true, 20, 5}, {3, true, 2, true, 20, 5},
			{3, true, 1, false, 0, 5}, {8, false, 0, true, 4, 5}, {3, false, 1, true, 0, 5}, {0, true, 1, false, 0, 4}, {0, false, 2, false, 0, 3},
			{6, true, 1, true, 6, 5}}
		// end kinds: 0 normal, 1 0x04, 2 net close, 3 second CONNECT, 4 takeover clean 0, 5 takeover clean 1,
		// 6 DISCONNECT with another reason (0x80), 7 DISCONNECT raising a zero expiry (protocol error),
		// 8 DISCONNECT 0x04 raising a non-zero expiry above the will delay
		for _, w := range wcs {
			for end := 0; end <= 8; end++ {
				for _, after := range []int{0, 1, 2, 3, 4} { // 0 ticks only, 1 resume before due, 2 clean reconnect before due, 3 resume after due, 4 session expires before the will tick
					if w.ver < 5 && (end == 1 || end == 6 || end == 7 || end == 8) {
						continue
					}
					if !thorough && w.delay == 0 && after > 1 {
						continue
					}
					w, end, after := w, end, after
					runLife("C16", defaultLifeCaps(), 1, out, func(h *lifeH) {
						o := obsConnect(h)
						_ = o
						v := stdConnect("a", w.ver, false)
						v.seiFlag, v.sei = w.seiFlag, w.sei
						v.willFlag, v.willQos, v.willRetain, v.willTopic, v.willPayload, v.willDelay = true, w.qos, w.retain, "w/1", []byte("will-a"), w.delay
						a := h.opConnect(v)
						if !h.reading(a) {
							return
						}
						var nw *lconn
						switch end {
						case 0:
							h.opDisconnect(a, 0, false, 0)
						case 1:
							h.opDisconnect(a, 4, false, 0)
						case 2:
							h.opNetClose(a)
						case 3:
							h.opSecondConnect(a)
						case 4, 5:
							v2 := stdConnect("a", 5, end == 5)
							v2.seiFlag, v2.sei = true, 20
							nw = h.opConnect(v2)
							if h.held(a) {
								h.opTeardown(a)
							}
						case 6:
							h.opDisconnect(a, 0x80, false, 0)
						case 7:
							h.opDisconnect(a, 0, true, 9)
						case 8:
							h.opDisconnect(a, 4, true, 30)
						}
						tEnd := h.now()
						due := tEnd + int64(w.delay)
						if end == 8 {
							h.opTick("will", tEnd+int64(w.sei)+2)
						}
						if after == 1 || after == 2 {
							h.opTick("will", due-1)
							v2 := stdConnect("a", 5, after == 2)
							v2.seiFlag, v2.sei = true, 20
							h.opConnect(v2)
						}
						if after == 4 {
							h.opTick("clients", tEnd+int64(w.sei)+1)
						}
						h.opTick("will", due)
						h.opTick("clients", due)
						h.opTick("will", due+1)
						h.opTick("will", tEnd+int64(w.sei)+1)
						h.opTick("clients", tEnd+int64(w.sei)+1)
						h.opTick("will", tEnd+int64(w.sei)+2)
						if after == 3 {
							h.opConnect(stdConnect("a", 5, false))
						}
						h.opTick("will", due+100)
						if nw != nil && h.reading(nw) {
							h.opDisconnect(nw, 0, false, 0)
						}
					})
				}
			}
		}
	}
}

// ---------------------------------------------------------------------------------------------
// random histories

func lifeRandom(focus string, seed int64, tier string, out *sx.Out) {
	n := 250
	steps := 22
	if tier == "thorough" {
		n, steps = 6000, 32
	}
	for i := 0; i < n; i++ {
		hseed := seed*1000003 + int64(i)
		caps := defaultLifeCaps()
		pre := rand.New(rand.NewSource(hseed))
		if pre.Intn(3) == 0 {
			caps.maxSEI = uint32(4 + pre.Intn(8))
		}
		if pre.Intn(8) == 0 {
			caps.retainAvail = 0
		}
		runLife(focus, caps, 1, out, func(h *lifeH) {
			rng := rand.New(rand.NewSource(hseed))
			rng.Intn(3)
			rng.Intn(8)
			ids := []string{"a", "b"}
			o := h.opConnect(stdConnect("obs", 5, true))
			h.opSubscribe(o, "w/1", 2)
			h.opSubscribe(o, "w/2", 2)
			msg := 0
			pick := func(f func(*lconn) bool) *lconn {
				var c []*lconn
				for _, lc := range h.conns[1:] {
					if f(lc) {
						c = append(c, lc)
					}
				}
				if len(c) == 0 {
					return nil
				}
				return c[rng.Intn(len(c))]
			}
			for s := 0; s < steps; s++ {
				switch k := rng.Intn(100); {
				case k < 22: // connect
					ver := []byte{3, 4, 5, 5, 5}[rng.Intn(5)]
					v := stdConnect(ids[rng.Intn(2)], ver, rng.Intn(3) == 0)
					if ver == 5 && rng.Intn(4) != 0 {
						v.seiFlag = true
						v.sei = []uint32{0, 2, 5, 30}[rng.Intn(4)]
					}
					if (focus == "C16" || focus == "all") && rng.Intn(3) != 0 || rng.Intn(4) == 0 {
						v.willFlag = true
						v.willQos = byte(rng.Intn(3))
						v.willRetain = rng.Intn(3) == 0
						v.willTopic = []string{"w/1", "w/2"}[rng.Intn(2)]
						v.willPayload = []byte(fmt.Sprintf("will-%d", len(h.conns)))
						if ver == 5 {
							v.willDelay = []uint32{0, 0, 3, 7}[rng.Intn(4)]
						}
					}
					h.opConnect(v)
				case k < 34: // disconnect
					if lc := pick(h.reading); lc != nil {
						switch r := rng.Intn(6); {
						case r < 3:
							h.opDisconnect(lc, 0, false, 0)
						case r == 3:
							h.opDisconnect(lc, 4, false, 0)
						case r == 4:
							h.opDisconnect(lc, 0, true, []uint32{0, 3, 40}[rng.Intn(3)])
						default:
							h.opDisconnect(lc, 0x80, false, 0)
						}
					}
				case k < 42:
					if lc := pick(h.reading); lc != nil {
						h.opNetClose(lc)
					}
				case k < 56:
					if lc := pick(h.held); lc != nil {
						h.opTeardown(lc)
					}
				case k < 66:
					if lc := pick(h.reading); lc != nil {
						h.opSubscribe(lc, []string{"t/1", "t/2"}[rng.Intn(2)], byte(rng.Intn(2)))
					}
				case k < 80:
					msg++
					h.opPublish(o, []string{"t/1", "t/2"}[rng.Intn(2)], []byte(fmt.Sprintf("m%d", msg)), byte(rng.Intn(2)), false)
				case k < 90:
					c := h.tickCandidates()
					h.opTick("clients", c[rng.Intn(len(c))])
				case k < 98:
					c := h.tickCandidates()
					h.opTick("will", c[rng.Intn(len(c))])
				case k < 99:
					if lc := pick(h.reading); lc != nil {
						h.opSecondConnect(lc)
					}
				default:
					h.opBadFirst(rng.Intn(5))
				}
			}
			// run pending teardowns so that nothing is left parked
			for _, lc := range h.conns {
				if h.held(lc) {
					h.opTeardown(lc)
				}
			}
		})
	}
}

// ---------------------------------------------------------------------------------------------
// C13: exhaustive CONNECT variant product x hook configurations

func lifeConnectProduct(seed int64, tier string, out *sx.Out) {
	type pv struct {
		name string
		ver  byte
	}
	pvs := []pv{{"MQTT", 4}, {"MQTT", 5}, {"MQIsdp", 3}, {"MQTT", 3}, {"MQIsdp", 4}, {"MQTT", 6}, {"MQXX", 4}, {"", 4}, {"mqtt", 5}}
	type will struct {
		flag   bool
		qos    byte
		retain bool
		topic  string
		pl     string
	}
	wills := []will{{false, 0, false, "", ""}, {true, 0, false, "w/1", "x"}, {true, 2, true, "w/1", "x"}, {true, 3, false, "w/1", "x"},
		{false, 1, false, "", ""}, {false, 0, true, "", ""}, {true, 1, false, "", "x"}, {true, 1, false, "w/1", ""}}
	type cred struct {
		uf, pf bool
		u, p   string
		trunc  bool
	}
	creds := []cred{{false, false, "", "", false}, {true, true, "u", "p", false}, {true, false, "u", "", false}, {false, true, "", "p", false},
		{true, true, "u", "bad", false}, {true, true, "u", "", false}, {true, false, "", "", true}, {true, true, "u", "", true}}
	n := 0
	for _, p := range pvs {
		for _, reserved := range []bool{false, true} {
			for _, clean := range []bool{false, true} {
				for _, id := range []string{"a", ""} {
					for _, w := range wills {
						for _, c := range creds {
							for auth := 0; auth <= 3; auth++ {
								for _, pre := range []bool{false, true} { // an earlier session with the same id exists
									if pre && (id == "" || auth == 0 || auth == 2) {
										continue
									}
									n++
									if tier != "thorough" && (p.ver == 6 || p.name == "" || p.name == "mqtt") && (n%4 != 0) {
										continue
									}
									// quick tier: the standard name/version pairs without reserved bit in full, the rest sampled
									core := !reserved && ((p.name == "MQTT" && (p.ver == 4 || p.ver == 5)) || (p.name == "MQIsdp" && p.ver == 3))
									if tier != "thorough" && !core && n%3 != 0 {
										continue
									}
									caps := defaultLifeCaps()
									if n%11 == 0 {
										caps.minVer = 4
									}
									if n%13 == 0 {
										caps.maxQos = 1
									}
									if n%17 == 0 {
										caps.retainAvail = 0
									}
									v := cvar{pname: p.name, ver: p.ver, reserved: reserved, clean: clean, id: id, keepalive: 30,
										willFlag: w.flag, willQos: w.qos, willRetain: w.retain, willTopic: w.topic, willPayload: []byte(w.pl),
										userFlag: c.uf, passFlag: c.pf, user: []byte(c.u), pass: []byte(c.p), trunc: c.trunc}
									pre, auth := pre, auth
									runLife("C13", caps, auth, out, func(h *lifeH) {
										if pre {
											pv := stdConnect("a", 4, false)
											pv.userFlag, pv.passFlag, pv.user, pv.pass = true, true, []byte("u"), []byte("p")
											a := h.opConnect(pv)
											if h.reading(a) {
												h.opSubscribe(a, "t/1", 1)
											}
										}
										lc := h.opConnect(v)
										if h.reading(lc) {
											h.opSubscribe(lc, "t/2", 0)
											h.opDisconnect(lc, 0, false, 0)
										}
									})
								}
							}
						}
					}
				}
			}
		}
	}
	for k := 0; k < 5; k++ {
		for auth := 0; auth <= 1; auth++ {
			k := k
			runLife("C13", defaultLifeCaps(), auth, out, func(h *lifeH) { h.opBadFirst(k) })
		}
	}
}
