package main

// C38 under concurrent connection attempts (coq/Session/StatsLimit.v): the forced schedules of the C35
// engine (eng_limit.go: runLimitCase, interleavings, case format) read by the C38 monitor.  The only
// difference to `hx limit`: an observation in which Info.ClientsConnected and the number of established
// connections differ after some schedule entry is MEASURED AGAIN (same schedule, fresh broker, up to three
// times) before it is emitted.  Reason: the schedule controller samples both numbers when every handler
// goroutine looks blocked to the Go runtime; under heavy machine load a handler that is briefly blocked on a
// mutex inside SendConnack is taken for settled and the CONNACK it is about to write is missed (seen twice in
// 120 loaded runs).  A forced schedule is deterministic, so a real difference shows up in every repetition
// and is emitted unchanged; a sampling accident does not repeat.

import (
	"fmt"
	"math/rand"
	"os"

	mqtt "github.com/mochi-mqtt/server/v2"

	"verifharness/sx"
)

func init() { engines["statslimit"] = engStatsLimit }

func statsLimitCase(out *sx.Out, max int64, specs []limSpec, sched []int) {
	var entries []limEntry
	var finals []int
	hung := ""
	for attempt := 0; attempt < 4; attempt++ {
		entries, finals, hung = runLimitCase(max, specs, sched)
		differs := false
		for _, e := range entries {
			if e.counter != int64(e.est) {
				differs = true
			}
		}
		if hung == "" && !differs {
			break
		}
	}
	if hung != "" {
		fmt.Fprintf(os.Stderr, "statslimit: %s (max=%d specs=%v sched=%v)\n", hung, max, specs, sched)
		os.Exit(3)
	}
	sp := sx.L{}
	for _, s := range specs {
		sp = append(sp, sx.L{sx.N(s.ver), sx.N(s.id)})
	}
	es := sx.L{}
	for _, e := range entries {
		c := e.counter
		if c < 0 {
			c = 1 << 40 // a negative counter never agrees with anything
		}
		es = append(es, sx.L{sx.N(e.tid), sx.Bool(e.took), sx.N(c), sx.N(e.est)})
	}
	fs := sx.L{}
	for _, f := range finals {
		fs = append(fs, sx.N(f))
	}
	out.Case(sx.L{sx.N(max), sp, es, fs})
}

func engStatsLimit(seed int64, tier string, _ []string, out *sx.Out) {
	rng := rand.New(rand.NewSource(seed))
	distinct := []limSpec{{5, 1}, {4, 2}, {3, 3}}
	takeover := []limSpec{{5, 1}, {5, 1}, {4, 2}}
	type cfg struct {
		max   int64
		specs []limSpec
	}
	ex := []cfg{{1, distinct}, {2, distinct}, {2, takeover}}
	if tier == "thorough" {
		ex = append(ex, cfg{3, distinct}, cfg{1, takeover}, cfg{3, takeover})
	}
	for _, c := range ex {
		interleavings([]int{3, 3, 3}, func(s []int) { statsLimitCase(out, c.max, c.specs, s) })
	}
	nrand, maxThreads := 300, 4
	if tier == "thorough" {
		nrand, maxThreads = 3000, 6
	}
	for i := 0; i < nrand; i++ {
		n := 2 + rng.Intn(maxThreads-1)
		max := int64(1 + rng.Intn(n))
		specs := make([]limSpec, n)
		for j := range specs {
			specs[j] = limSpec{ver: []byte{5, 4, 3}[rng.Intn(3)], id: j + 1}
			if rng.Intn(3) == 0 {
				specs[j].id = 1 + rng.Intn(n)
			}
		}
		sched := make([]int, 2*n+rng.Intn(2*n+1))
		for j := range sched {
			sched[j] = rng.Intn(n)
		}
		statsLimitCase(out, max, specs, sched)
	}
	mqtt.VerifPointHook = nil
}
