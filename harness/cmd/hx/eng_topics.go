package main

// Engines for the topic index (topics.go): C01 (topics_sub), C02 (topics_ret), C31 (topics_seq,
// topics_lin).  Every case is  (kind history subq msgq)  — see coq/Topics/TopicsEngine.v.

import (
	"fmt"
	"math/rand"
	"runtime"
	"sort"
	"strings"
	"sync"
	"sync/atomic"

	mqtt "github.com/mochi-mqtt/server/v2"
	"github.com/mochi-mqtt/server/v2/packets"

	"verifharness/sx"
)

func init() {
	engines["topics_sub"] = engTopicsSub
	engines["topics_ret"] = engTopicsRet
	engines["topics_seq"] = engTopicsSeq
	engines["topics_lin"] = engTopicsLin
}

// tOp is one call of the index API.
type tOp struct {
	kind    int // 0 Subscribe 1 Unsubscribe 2 InlineSubscribe 3 InlineUnsubscribe 4 RetainMessage 5 Retained.Delete
	client  string
	id      int
	filter  string // filter or topic
	pay     int    // stored datum (>= 1): Identifier for client subscriptions, RetainHandling for inline ones
	payload string
}

func (o tOp) apply(x *mqtt.TopicsIndex) int {
	b := func(v bool) int {
		if v {
			return 1
		}
		return 0
	}
	switch o.kind {
	case 0:
		return b(x.Subscribe(o.client, packets.Subscription{Filter: o.filter, Identifier: o.pay, Qos: 1}))
	case 1:
		return b(x.Unsubscribe(o.filter, o.client))
	case 2:
		return b(x.InlineSubscribe(mqtt.InlineSubscription{
			Subscription: packets.Subscription{Filter: o.filter, Identifier: o.id, RetainHandling: byte(o.pay)}}))
	case 3:
		return b(x.InlineUnsubscribe(o.id, o.filter))
	case 4:
		r := x.RetainMessage(packets.Packet{
			FixedHeader: packets.FixedHeader{Type: packets.Publish, Retain: true},
			TopicName:   o.filter, Payload: []byte(o.payload)})
		switch r {
		case 1:
			return 1
		case -1:
			return 2
		case 0:
			return 0
		}
		return 7
	default:
		x.Retained.Delete(o.filter)
		return 0
	}
}

func (o tOp) sx() sx.V {
	switch o.kind {
	case 0:
		return sx.L{sx.N(0), sx.S(o.client), sx.S(o.filter), sx.N(o.pay)}
	case 1:
		return sx.L{sx.N(1), sx.S(o.client), sx.S(o.filter)}
	case 2:
		return sx.L{sx.N(2), sx.N(o.id), sx.S(o.filter), sx.N(o.pay)}
	case 3:
		return sx.L{sx.N(3), sx.N(o.id), sx.S(o.filter)}
	case 4:
		return sx.L{sx.N(4), sx.S(o.filter), sx.S(o.payload)}
	default:
		return sx.L{sx.N(5), sx.S(o.filter)}
	}
}

type triple struct {
	a string
	n int
	b string
	p int
}

func sortTriples(t []triple) {
	sort.Slice(t, func(i, j int) bool {
		if t[i].a != t[j].a {
			return t[i].a < t[j].a
		}
		if t[i].n != t[j].n {
			return t[i].n < t[j].n
		}
		if t[i].b != t[j].b {
			return t[i].b < t[j].b
		}
		return t[i].p < t[j].p
	})
}

// subQuery observes Subscribers(topic): the three result sets, sorted.
func subQuery(x *mqtt.TopicsIndex, topic string) sx.V {
	var s *mqtt.Subscribers
	panicked := false
	func() {
		defer func() {
			if recover() != nil {
				panicked = true
			}
		}()
		s = x.Subscribers(topic)
	}()
	if panicked {
		return sx.L{sx.S(topic), sx.L{sx.L{sx.S("PANIC"), sx.S("PANIC"), sx.N(0)}}, sx.L{}, sx.L{}}
	}
	var cl, sh, in []triple
	for c, sub := range s.Subscriptions {
		for f, id := range sub.Identifiers {
			cl = append(cl, triple{a: c, b: f, p: id})
		}
	}
	for f, m := range s.Shared {
		for c, sub := range m {
			_ = f
			sh = append(sh, triple{a: c, b: sub.Filter, p: sub.Identifier})
			if f != sub.Filter { // the map key is the filter of the subscription; report a disagreement as an extra entry
				sh = append(sh, triple{a: c, b: f, p: 0})
			}
		}
	}
	for id, i := range s.InlineSubscriptions {
		in = append(in, triple{n: id, b: i.Filter, p: int(i.RetainHandling)})
		if id != i.Identifier {
			in = append(in, triple{n: i.Identifier, b: i.Filter, p: 0})
		}
	}
	sortTriples(cl)
	sortTriples(sh)
	sortTriples(in)
	lc, ls, li := sx.L{}, sx.L{}, sx.L{}
	for _, t := range cl {
		lc = append(lc, sx.L{sx.S(t.a), sx.S(t.b), sx.N(t.p)})
	}
	for _, t := range sh {
		ls = append(ls, sx.L{sx.S(t.a), sx.S(t.b), sx.N(t.p)})
	}
	for _, t := range in {
		li = append(li, sx.L{sx.N(t.n), sx.S(t.b), sx.N(t.p)})
	}
	return sx.L{sx.S(topic), lc, ls, li}
}

// msgQuery observes Messages(filter): (topic, payload) of every packet returned, sorted, with multiplicity.
func msgQuery(x *mqtt.TopicsIndex, filter string) sx.V {
	pks := x.Messages(filter)
	var r []triple
	for _, p := range pks {
		r = append(r, triple{a: p.TopicName, b: string(p.Payload)})
	}
	sortTriples(r)
	l := sx.L{}
	for _, t := range r {
		l = append(l, sx.L{sx.S(t.a), sx.S(t.b)})
	}
	return sx.L{sx.S(filter), l}
}

// strs enumerates the strings of 1..depth levels over the tokens.
func levelStrings(tokens []string, depth int) []string {
	var out []string
	cur := []string{}
	var rec func(d int)
	rec = func(d int) {
		if d > 0 {
			out = append(out, strings.Join(cur, "/"))
		}
		if d == depth {
			return
		}
		for _, t := range tokens {
			cur = append(cur, t)
			rec(d + 1)
			cur = cur[:len(cur)-1]
		}
	}
	rec(0)
	return out
}

var filterTokens = []string{"a", "b", "", "+", "#", "$x", "$SYS"}
var topicTokens = []string{"a", "b", "", "$x", "$SYS"}

func runSeq(ops []tOp) (*mqtt.TopicsIndex, sx.L) {
	x := mqtt.NewTopicsIndex()
	h := sx.L{}
	for _, o := range ops {
		r := o.apply(x)
		h = append(h, sx.L{o.sx(), sx.N(r)})
	}
	return x, h
}

func emitSeq(out *sx.Out, kind int, ops []tOp, topics, filters []string) {
	x, h := runSeq(ops)
	sq, mq := sx.L{}, sx.L{}
	for _, t := range topics {
		sq = append(sq, subQuery(x, t))
	}
	for _, f := range filters {
		mq = append(mq, msgQuery(x, f))
	}
	out.Case(sx.L{sx.N(kind), h, sq, mq})
}

// subOp builds a subscribe op of the given flavour (0 client, 1 shared, 2 inline, 3 shared with an
// upper-case prefix and another group) for a filter.
func subOp(flavour int, who int, f string, pay int) tOp {
	cl := []string{"c1", "c2", "c3"}[who%3]
	switch flavour {
	case 0:
		return tOp{kind: 0, client: cl, filter: f, pay: pay}
	case 1:
		return tOp{kind: 0, client: cl, filter: "$share/g/" + f, pay: pay}
	case 2:
		return tOp{kind: 2, id: 1 + who%3, filter: f, pay: pay}
	default:
		return tOp{kind: 0, client: cl, filter: "$SHARE/h/" + f, pay: pay}
	}
}

func unsubOf(o tOp) tOp {
	if o.kind == 2 {
		return tOp{kind: 3, id: o.id, filter: o.filter}
	}
	return tOp{kind: 1, client: o.client, filter: o.filter}
}

// instantiate turns a filter into a topic it should match (wildcards replaced), possibly perturbed.
func instantiate(rng *rand.Rand, f string) string {
	ls := strings.Split(f, "/")
	var out []string
	for i, l := range ls {
		switch l {
		case "+":
			out = append(out, topicTokens[rng.Intn(len(topicTokens))])
		case "#":
			n := rng.Intn(3)
			for j := 0; j < n; j++ {
				out = append(out, topicTokens[rng.Intn(len(topicTokens))])
			}
			_ = i
		default:
			out = append(out, l)
		}
	}
	switch rng.Intn(6) {
	case 0:
		if len(out) > 0 {
			out = out[:len(out)-1]
		}
	case 1:
		out = append(out, topicTokens[rng.Intn(len(topicTokens))])
	case 2:
		if len(out) > 0 {
			out[rng.Intn(len(out))] = topicTokens[rng.Intn(len(topicTokens))]
		}
	}
	return strings.Join(out, "/")
}

func randFilter(rng *rand.Rand, maxDepth int) string {
	n := 1 + rng.Intn(maxDepth)
	ls := make([]string, n)
	for i := range ls {
		ls[i] = filterTokens[rng.Intn(len(filterTokens))]
		if ls[i] == "#" && i != n-1 && rng.Intn(4) != 0 {
			ls[i] = "+"
		}
	}
	return strings.Join(ls, "/")
}

func randTopic(rng *rand.Rand, maxDepth int) string {
	n := 1 + rng.Intn(maxDepth)
	ls := make([]string, n)
	for i := range ls {
		ls[i] = topicTokens[rng.Intn(len(topicTokens))]
	}
	return strings.Join(ls, "/")
}

// ---------------------------------------------------------------------------------------------
// C01: subscription matching
func engTopicsSub(seed int64, tier string, _ []string, out *sx.Out) {
	rng := rand.New(rand.NewSource(seed))
	fd, td, pd, ptd, nrand := 3, 3, 2, 2, 1500
	if tier == "thorough" {
		fd, td, pd, ptd, nrand = 4, 4, 2, 3, 60000
	}
	filters := levelStrings(filterTokens, fd)
	topics := levelStrings(topicTokens, td)
	// (i) exhaustive: every single subscription of every flavour x every topic
	for _, f := range filters {
		for fl := 0; fl < 4; fl++ {
			emitSeq(out, 1, []tOp{subOp(fl, 0, f, 1)}, topics, nil)
		}
	}
	// every pair of subscriptions (three flavours, same / different subscriber) over the shallower filters
	pf := levelStrings(filterTokens, pd)
	pt := levelStrings(topicTokens, ptd)
	k := 0
	for _, f1 := range pf {
		for fl1 := 0; fl1 < 3; fl1++ {
			for _, f2 := range pf {
				for fl2 := fl1; fl2 < 3; fl2++ {
					k++
					emitSeq(out, 1, []tOp{subOp(fl1, 0, f1, 1), subOp(fl2, k%2, f2, 2)}, pt, nil)
				}
			}
		}
	}
	// (ii) random multi-client histories with unsubscribe, deeper filters, topics derived from the filters
	for i := 0; i < nrand; i++ {
		n := 2 + rng.Intn(10)
		var ops []tOp
		var ts []string
		for j := 0; j < n; j++ {
			if len(ops) > 0 && rng.Intn(4) == 0 {
				o := ops[rng.Intn(len(ops))]
				if o.kind == 0 || o.kind == 2 {
					u := unsubOf(o)
					if rng.Intn(4) == 0 {
						u.client = "c3"
						u.id = 3
					}
					ops = append(ops, u)
					continue
				}
			}
			f := randFilter(rng, 6)
			ops = append(ops, subOp(rng.Intn(4), rng.Intn(3), f, 1+rng.Intn(5)))
			ts = append(ts, instantiate(rng, f), instantiate(rng, f))
		}
		ts = append(ts, randTopic(rng, 4), randTopic(rng, 2))
		emitSeq(out, 1, ops, ts, nil)
	}
	// (iii) outside the domain: share filters without a filter part, empty topic, wildcard topics (correspondence only)
	for _, f := range []string{"$share/g", "$share", "$share/", "$SHARE/g", "$share//a", "$ſhare/g/a", "$share/g/"} {
		emitSeq(out, 1, []tOp{{kind: 0, client: "c1", filter: f, pay: 1}, {kind: 0, client: "c2", filter: "g", pay: 2},
			{kind: 1, client: "c2", filter: f}}, []string{"g", "a", "$share", "", "$share/g", "/a", "g/"}, nil)
	}
	emitSeq(out, 1, []tOp{subOp(0, 0, "+", 1), subOp(0, 0, "#", 1), subOp(0, 0, "+/#", 1)}, []string{"+", "#", "+/a", "a/+"}, nil)
}

// ---------------------------------------------------------------------------------------------
// C02: retained messages for a filter
func engTopicsRet(seed int64, tier string, _ []string, out *sx.Out) {
	rng := rand.New(rand.NewSource(seed))
	fd, sd, pd, nrand := 3, 3, 2, 1500
	if tier == "thorough" {
		fd, sd, pd, nrand = 4, 4, 3, 40000
	}
	filters := levelStrings(filterTokens, fd)
	filters = append(filters, "a+", "a/b#", "#/a", "+a/b", "a/#/b") // ill-formed filters: correspondence only
	ret := func(t string, i int) tOp { return tOp{kind: 4, filter: t, payload: "m" + string(rune('0'+i))} }
	// (i) exhaustive: 1 retained topic (deeper), and all sets of 2 and 3 retained topics (shallower) x all filters
	for _, t := range levelStrings(topicTokens, sd) {
		emitSeq(out, 2, []tOp{ret(t, 1)}, nil, filters)
	}
	ts := levelStrings(topicTokens, pd)
	for i := range ts {
		for j := i + 1; j < len(ts); j++ {
			emitSeq(out, 2, []tOp{ret(ts[i], 1), ret(ts[j], 2)}, nil, filters)
		}
	}
	t3 := levelStrings(topicTokens, 2)
	for i := range t3 {
		for j := i + 1; j < len(t3); j++ {
			for k := j + 1; k < len(t3); k++ {
				emitSeq(out, 2, []tOp{ret(t3[i], 1), ret(t3[j], 2), ret(t3[k], 3)}, nil, filters)
			}
		}
	}
	// (ii) random retain / clear / expire histories; topics that are prefixes of each other
	for i := 0; i < nrand; i++ {
		n := 1 + rng.Intn(10)
		var ops []tOp
		var used []string
		var fs []string
		for j := 0; j < n; j++ {
			var t string
			switch {
			case len(used) > 0 && rng.Intn(3) == 0:
				t = used[rng.Intn(len(used))]
				if rng.Intn(2) == 0 {
					t = t + "/" + topicTokens[rng.Intn(len(topicTokens))]
				} else if k := strings.LastIndex(t, "/"); k > 0 {
					t = t[:k]
				}
			default:
				t = randTopic(rng, 5)
			}
			if t == "" {
				t = "a"
			}
			used = append(used, t)
			switch rng.Intn(6) {
			case 0:
				ops = append(ops, tOp{kind: 4, filter: t, payload: ""})
			case 1:
				ops = append(ops, tOp{kind: 5, filter: t})
			default:
				ops = append(ops, ret(t, 1+rng.Intn(8)))
			}
			// filters derived from the topic: generalise levels
			ls := strings.Split(t, "/")
			for r := 0; r < 2; r++ {
				g := append([]string{}, ls...)
				for x := range g {
					if rng.Intn(3) == 0 {
						g[x] = "+"
					}
				}
				if rng.Intn(2) == 0 {
					c := rng.Intn(len(g) + 1)
					g = append(g[:c], "#")
				}
				fs = append(fs, strings.Join(g, "/"))
			}
		}
		fs = append(fs, randFilter(rng, 4), "#", "+/#")
		emitSeq(out, 2, ops, nil, fs)
	}
}

// ---------------------------------------------------------------------------------------------
// C31 (a): sequential histories of every operation with return values, then queries
func randOp(rng *rand.Rand, small bool) tOp {
	fs := []string{"a", "a/b", "+", "a/#", "+/b", "#", "a/+", "b", "$x/a", "/"}
	ts := []string{"a", "a/b", "b", "a/b/c", "$x/a", "/"}
	if small {
		fs = fs[:4]
		ts = ts[:3]
	}
	f := fs[rng.Intn(len(fs))]
	who := rng.Intn(2)
	switch rng.Intn(9) {
	case 0, 1:
		return subOp(rng.Intn(3), who, f, 1+rng.Intn(3))
	case 2, 3:
		return unsubOf(subOp(rng.Intn(3), who, f, 0))
	case 4:
		return subOp(2, who, f, 1+rng.Intn(3))
	case 5:
		return tOp{kind: 4, filter: ts[rng.Intn(len(ts))], payload: ""}
	case 6, 7:
		return tOp{kind: 4, filter: ts[rng.Intn(len(ts))], payload: "m" + string(rune('0'+rng.Intn(4)))}
	default:
		if small {
			return tOp{kind: 4, filter: ts[rng.Intn(len(ts))], payload: ""}
		}
		return tOp{kind: 5, filter: ts[rng.Intn(len(ts))]}
	}
}

var seqTopics = []string{"a", "a/b", "b", "a/b/c", "$x/a", "/", "a/"}
var seqFilters = []string{"a", "a/b", "#", "+", "a/#", "+/b", "+/#", "$x/#", "a/+", "/", "b"}

func engTopicsSeq(seed int64, tier string, _ []string, out *sx.Out) {
	rng := rand.New(rand.NewSource(seed))
	n := 4000
	if tier == "thorough" {
		n = 100000
	}
	for i := 0; i < n; i++ {
		k := 1 + rng.Intn(24)
		ops := make([]tOp, k)
		for j := range ops {
			ops[j] = randOp(rng, i%3 == 0)
		}
		emitSeq(out, 3, ops, seqTopics, seqFilters)
	}
}

// ---------------------------------------------------------------------------------------------
// C31 (b): the same operations from several goroutines at once; return values and final queries must be
// explained by some serialisation (checked by the extracted lin_check)
func engTopicsLin(seed int64, tier string, _ []string, out *sx.Out) {
	rng := rand.New(rand.NewSource(seed))
	n := 3000
	if tier == "thorough" {
		n = 60000
	}
	reordered := 0
	for i := 0; i < n; i++ {
		g := 4 + rng.Intn(5) // 4..8 goroutines
		total := g
		if total < 8 && rng.Intn(2) == 0 {
			total = g + rng.Intn(8-g+1)
		}
		th := make([][]tOp, g)
		for j := 0; j < total; j++ {
			t := j
			if j >= g {
				t = rng.Intn(g)
			}
			th[t] = append(th[t], randOp(rng, true))
		}
		x := mqtt.NewTopicsIndex()
		if rng.Intn(2) == 0 { // a non-empty starting index (prefix history on one goroutine is part of thread 0)
			pre := randOp(rng, true)
			th[0] = append([]tOp{pre}, th[0]...)
		}
		rets := make([][]int, g)
		var wg sync.WaitGroup
		var ready, start int32
		for t := 0; t < g; t++ {
			rets[t] = make([]int, len(th[t]))
			wg.Add(1)
			go func(t int) {
				defer wg.Done()
				atomic.AddInt32(&ready, 1)
				for atomic.LoadInt32(&start) == 0 { // spin: all goroutines leave the barrier together
				}
				for k, o := range th[t] {
					rets[t][k] = o.apply(x)
				}
			}(t)
		}
		for atomic.LoadInt32(&ready) < int32(g) {
			runtime.Gosched()
		}
		atomic.StoreInt32(&start, 1)
		wg.Wait()
		// statistic only: was the outcome different from running the goroutines one after the other?
		y := mqtt.NewTopicsIndex()
		same := true
		for t := 0; t < g && same; t++ {
			for k, o := range th[t] {
				if o.apply(y) != rets[t][k] {
					same = false
				}
			}
		}
		if !same {
			reordered++
		}
		h := sx.L{}
		for t := 0; t < g; t++ {
			l := sx.L{}
			for k, o := range th[t] {
				l = append(l, sx.L{o.sx(), sx.N(rets[t][k])})
			}
			h = append(h, l)
		}
		sq, mq := sx.L{}, sx.L{}
		for _, t := range seqTopics[:4] {
			sq = append(sq, subQuery(x, t))
		}
		for _, f := range seqFilters[:6] {
			mq = append(mq, msgQuery(x, f))
		}
		out.Case(sx.L{sx.N(4), h, sq, mq})
	}
	out.Comment(fmt.Sprintf("topics_lin: %d of %d batches returned values that differ from running the goroutines one after the other", reordered, n))
}
