package main

import (
	"math/rand"
	"sort"
	"sync"

	mqtt "github.com/mochi-mqtt/server/v2"
	"github.com/mochi-mqtt/server/v2/packets"

	"verifharness/broker"
	"verifharness/sx"
)

func init() { engines["route"] = engRoute }

// C03 / C04 / C05 / C06 / C40: message routing.  Drives the real broker through histories of
// connect / disconnect / subscribe / unsubscribe / publish / inline API calls and emits one case
// per step: (config, operations before the step, the operation, what every connection and every
// inline handler received during the step + drop hook events + SUBACK codes).  The Coq engine
// replays the operations on the component model (coq/Session/Deliver.v), compares the deliveries
// and runs the specification monitors.
//
// args[0] selects the stream: c04 = exhaustive small products (publish QoS x subscription sets x
// server maximum QoS x version x live/retained); c03 / c05 / c06 / c40 = random histories biased to
// the hazards of that property.

type rtSub struct {
	filter string
	qos    byte
	nl     bool
	rap    bool
	rh     byte
	id     int
}

type rtMsg struct {
	topic   string
	payload string
	qos     byte
	retain  bool
	ct, rt  string
	cd      string
	user    [][2]string
}

type rtClient struct {
	id      string
	ver     byte
	conn    *broker.Conn
	nextPid uint16
	hold    bool     // acknowledgements of received PUBLISH packets are withheld until ackOldest
	unacked []uint16 // packet ids of received, not yet acknowledged PUBLISH packets (oldest first)
	qosOf   map[uint16]byte
}

type rtInlineEv struct {
	id      int
	filter  string
	topic   string
	payload []byte
	qos     byte
	retain  bool
}

type rtWorld struct {
	b       *broker.B
	cfg     sx.V
	prefix  sx.L
	clients map[string]*rtClient
	holds   map[string]bool   // client ids whose acknowledgements are withheld
	recvMax map[string]uint16 // Receive Maximum sent in CONNECT (MQTT 5)
	maxPkt  map[string]uint32 // Maximum Packet Size sent in CONNECT (MQTT 5)
	mkBroker func(wbuf int) *broker.B
	dropped [][2]string // (client, payload) of every PublishDropped event of the last step
	mu      sync.Mutex
	inline  []rtInlineEv
	out     *sx.Out
	hung    bool
}

func rtSubSx(s rtSub) sx.V {
	return sx.L{sx.S(s.filter), sx.N(uint64(s.qos)), sx.Bool(s.nl), sx.Bool(s.rap), sx.N(uint64(s.rh)), sx.N(uint64(s.id))}
}

func rtUserSx(u [][2]string) sx.V {
	l := sx.L{}
	for _, kv := range u {
		l = append(l, sx.L{sx.S(kv[0]), sx.S(kv[1])})
	}
	return l
}

func rtMsgSx(m rtMsg) sx.L {
	return sx.L{sx.S(m.topic), sx.S(m.payload), sx.N(uint64(m.qos)), sx.Bool(m.retain), sx.S(m.ct), sx.S(m.rt), sx.S(m.cd), rtUserSx(m.user)}
}

func newWorld(out *sx.Out, maxqos byte, ravail bool, deny [][2]string) *rtWorld {
	caps := mqtt.NewDefaultServerCapabilities()
	caps.MaximumQos = maxqos
	if !ravail {
		caps.RetainAvailable = 0
	}
	denySet := map[[2]string]bool{}
	denySx := sx.L{}
	for _, d := range deny {
		denySet[d] = true
		denySx = append(denySx, sx.L{sx.S(d[0]), sx.S(d[1])})
	}
	acl := func(cl *mqtt.Client, topic string, write bool) bool {
		return write || !denySet[[2]string{cl.ID, topic}]
	}
	w := &rtWorld{clients: map[string]*rtClient{}, holds: map[string]bool{}, recvMax: map[string]uint16{}, maxPkt: map[string]uint32{}, out: out}
	w.mkBroker = func(wbuf int) *broker.B {
		return broker.New(broker.Opts{Caps: caps, InlineClient: true, Auth: broker.AllowAuth, ACL: acl, WriteBufferSize: wbuf})
	}
	w.b = w.mkBroker(0)
	w.cfg = sx.L{sx.N(uint64(maxqos)), sx.Bool(ravail), denySx}
	return w
}

// rebuild replaces the broker by a fresh one with the same capabilities (before any client connects: another
// write buffer size; later: a restart, see eng_route_restart.go).
func (w *rtWorld) rebuild(wbuf int) {
	w.b.Shutdown()
	w.b = w.mkBroker(wbuf)
	for _, c := range w.clients {
		c.conn = nil
	}
}

// settle acknowledges every QoS > 0 exchange until nothing is left to answer and returns, per client
// id, the PUBLISH packets received, the SUBACK codes seen, and the clients with a PublishDropped event.
func (w *rtWorld) settle() (map[string][]packets.Packet, []byte, []string) {
	got := map[string][]packets.Packet{}
	var codes []byte
	for round := 0; round < 50; round++ {
		outs := w.b.Drain()
		progress := false
		for _, o := range outs {
			var cl *rtClient
			for _, c := range w.clients {
				if c.conn != nil && c.conn.Idx == o.Conn {
					cl = c
				}
			}
			if cl == nil {
				continue
			}
			for _, p := range o.Packets {
				switch p.FixedHeader.Type {
				case packets.Publish:
					got[cl.id] = append(got[cl.id], p)
					if cl.hold && p.FixedHeader.Qos > 0 {
						if _, seen := cl.qosOf[p.PacketID]; !seen {
							cl.unacked = append(cl.unacked, p.PacketID)
						}
						cl.qosOf[p.PacketID] = p.FixedHeader.Qos
						continue
					}
					if p.FixedHeader.Qos == 1 {
						w.b.SendPacket(cl.conn, broker.AckPk(packets.Puback, p.PacketID, 0))
						progress = true
					} else if p.FixedHeader.Qos == 2 {
						w.b.SendPacket(cl.conn, broker.AckPk(packets.Pubrec, p.PacketID, 0))
						progress = true
					}
				case packets.Pubrel:
					w.b.SendPacket(cl.conn, broker.AckPk(packets.Pubcomp, p.PacketID, 0))
					progress = true
				case packets.Pubrec:
					w.b.SendPacket(cl.conn, broker.AckPk(packets.Pubrel, p.PacketID, 0))
					progress = true
				case packets.Suback:
					codes = append(codes, p.ReasonCodes...)
				}
			}
		}
		if !progress {
			break
		}
	}
	var drops []string
	w.dropped = nil
	for _, e := range w.b.Rec.Drain() {
		if e.Name == "PublishDropped" || e.Name == "PacketIDExhausted" {
			drops = append(drops, e.Client)
			w.dropped = append(w.dropped, [2]string{e.Client, string(e.Pk.Payload)})
		}
	}
	if w.b.Hung {
		w.hung = true
	}
	return got, codes, drops
}

func rtPubSx(p packets.Packet) sx.V {
	ids := sx.L{}
	for _, i := range p.Properties.SubscriptionIdentifier {
		ids = append(ids, sx.N(uint64(i)))
	}
	user := sx.L{}
	for _, u := range p.Properties.User {
		user = append(user, sx.L{sx.S(u.Key), sx.S(u.Val)})
	}
	return sx.L{sx.S(p.TopicName), sx.B(p.Payload), sx.N(uint64(p.FixedHeader.Qos)), sx.Bool(p.FixedHeader.Retain), ids,
		sx.S(p.Properties.ContentType), sx.S(p.Properties.ResponseTopic), sx.B(p.Properties.CorrelationData), user}
}

// emit prints the case of one step and appends the operation to the prefix.
func (w *rtWorld) emit(op sx.V) {
	got, codes, drops := w.settle()
	ids := []string{}
	for id := range got {
		ids = append(ids, id)
	}
	sort.Strings(ids)
	recv := sx.L{}
	for _, id := range ids {
		pl := sx.L{}
		for _, p := range got[id] {
			pl = append(pl, rtPubSx(p))
		}
		recv = append(recv, sx.L{sx.S(id), pl})
	}
	w.mu.Lock()
	il := sx.L{}
	for _, e := range w.inline {
		il = append(il, sx.L{sx.N(uint64(e.id)), sx.S(e.filter), sx.S(e.topic), sx.B(e.payload), sx.N(uint64(e.qos)), sx.Bool(e.retain)})
	}
	w.inline = nil
	w.mu.Unlock()
	dl := sx.L{}
	for _, d := range drops {
		dl = append(dl, sx.S(d))
	}
	cl := sx.L{}
	for _, c := range codes {
		cl = append(cl, sx.N(uint64(c)))
	}
	w.out.Case(sx.L{w.cfg, append(sx.L{}, w.prefix...), op, sx.L{recv, il, dl, cl, sx.Bool(w.hung)}})
	w.prefix = append(w.prefix, op)
}

func (w *rtWorld) connect(id string, ver byte, clean, persist, rpi0 bool) {
	pk := broker.ConnectPk(id, ver, clean)
	if ver == 5 {
		if persist {
			pk.Properties.SessionExpiryInterval = 600
			pk.Properties.SessionExpiryIntervalFlag = true
		}
		if rpi0 {
			pk.Properties.RequestProblemInfo = 0
			pk.Properties.RequestProblemInfoFlag = true
		}
	} else {
		persist = !clean
		rpi0 = false
	}
	if rm := w.recvMax[id]; rm > 0 && ver == 5 {
		pk.Properties.ReceiveMaximum = rm
	}
	if mp := w.maxPkt[id]; mp > 0 && ver == 5 {
		pk.Properties.MaximumPacketSize = mp
	}
	c := w.b.Connect("10.0.0.1:1", pk)
	w.clients[id] = &rtClient{id: id, ver: ver, conn: c, nextPid: 1, hold: w.holds[id], qosOf: map[uint16]byte{}}
	if w.holds[id] {
		w.clients[id].nextPid = 30000 // keep the client's own packet ids away from the broker's unacknowledged ones (one id map, C10)
	}
	w.emit(sx.L{sx.N(1), sx.S(id), sx.N(uint64(ver)), sx.Bool(clean), sx.Bool(persist), sx.Bool(rpi0)})
}

func (w *rtWorld) disconnect(id string) {
	c := w.clients[id]
	w.b.SendPacket(c.conn, broker.DisconnectPk(0))
	w.emit(sx.L{sx.N(2), sx.S(id)})
	c.conn = nil
}

// ackOldest acknowledges the oldest unacknowledged PUBLISH of a client whose acks are withheld
// (PUBACK, or PUBREC; the PUBREL that follows is completed by settle) — op (9 c), no effect on routing.
func (w *rtWorld) ackOldest(id string) {
	c := w.clients[id]
	if c == nil || c.conn == nil || len(c.unacked) == 0 {
		return
	}
	pid := c.unacked[0]
	c.unacked = c.unacked[1:]
	ty := byte(packets.Puback)
	if c.qosOf[pid] == 2 {
		ty = packets.Pubrec
	}
	delete(c.qosOf, pid)
	w.b.SendPacket(c.conn, broker.AckPk(ty, pid, 0))
	w.emit(sx.L{sx.N(9), sx.S(id)})
}

func (c *rtClient) pid() uint16 {
	p := c.nextPid
	c.nextPid++
	if c.nextPid > 60000 {
		c.nextPid = 1
	}
	return p
}

func (w *rtWorld) subscribe(id string, subs []rtSub) {
	c := w.clients[id]
	ps := []packets.Subscription{}
	sl := sx.L{}
	for _, s := range subs {
		if c.ver < 5 {
			s.nl, s.rap, s.rh, s.id = false, false, 0, 0
		}
		ps = append(ps, packets.Subscription{Filter: s.filter, Qos: s.qos, NoLocal: s.nl, RetainAsPublished: s.rap, RetainHandling: s.rh})
		sl = append(sl, rtSubSx(s))
	}
	pk := broker.SubscribePk(c.pid(), ps...)
	if c.ver == 5 && len(subs) > 0 && subs[0].id > 0 {
		pk.Properties.SubscriptionIdentifier = []int{subs[0].id}
	}
	w.b.SendPacket(c.conn, pk)
	w.emit(sx.L{sx.N(3), sx.S(id), sl})
}

func (w *rtWorld) unsubscribe(id string, filters []string) {
	c := w.clients[id]
	fl := sx.L{}
	for _, f := range filters {
		fl = append(fl, sx.S(f))
	}
	w.b.SendPacket(c.conn, broker.UnsubscribePk(c.pid(), filters...))
	w.emit(sx.L{sx.N(4), sx.S(id), fl})
}

func (w *rtWorld) publish(id string, m rtMsg) {
	c := w.clients[id]
	pid := uint16(0)
	if m.qos > 0 {
		pid = c.pid()
	}
	if c.ver < 5 {
		m.ct, m.rt, m.cd, m.user = "", "", "", nil
	}
	pk := broker.PublishPk(m.topic, []byte(m.payload), m.qos, m.retain, pid)
	if c.ver == 5 {
		pk.Mods.AllowResponseInfo = true // client side encoder: response topic / correlation data are written only with this
		pk.Properties.ContentType = m.ct
		pk.Properties.ResponseTopic = m.rt
		pk.Properties.CorrelationData = []byte(m.cd)
		for _, kv := range m.user {
			pk.Properties.User = append(pk.Properties.User, packets.UserProperty{Key: kv[0], Val: kv[1]})
		}
	}
	w.b.SendPacket(c.conn, pk)
	w.emit(append(sx.L{sx.N(5), sx.S(id)}, rtMsgSx(m)...))
}

// do runs a synchronous server API call as one step.  broker.Do starts the action in a goroutine and may
// observe quiescence before the action has queued its packets; once Do has returned the action is
// complete, so a second Quiesce is exact.
func (w *rtWorld) do(f func()) {
	w.b.Do(f)
	w.b.Quiesce()
}

func (w *rtWorld) inlinePublish(m rtMsg) {
	m.ct, m.rt, m.cd, m.user = "", "", "", nil
	w.do(func() { _ = w.b.Srv.Publish(m.topic, []byte(m.payload), m.retain, m.qos) })
	w.emit(append(sx.L{sx.N(6)}, rtMsgSx(m)...))
}

func (w *rtWorld) inlineSubscribe(id int, filter string) {
	h := func(cl *mqtt.Client, sub packets.Subscription, pk packets.Packet) {
		w.mu.Lock()
		w.inline = append(w.inline, rtInlineEv{id: id, filter: sub.Filter, topic: pk.TopicName,
			payload: append([]byte{}, pk.Payload...), qos: pk.FixedHeader.Qos, retain: pk.FixedHeader.Retain})
		w.mu.Unlock()
	}
	w.do(func() { _ = w.b.Srv.Subscribe(filter, id, h) })
	w.emit(sx.L{sx.N(7), sx.N(uint64(id)), sx.S(filter)})
}

func (w *rtWorld) inlineUnsubscribe(id int, filter string) {
	w.do(func() { _ = w.b.Srv.Unsubscribe(filter, id) })
	w.emit(sx.L{sx.N(8), sx.N(uint64(id)), sx.S(filter)})
}

func (w *rtWorld) close() { w.b.Shutdown() }

var rtTopics = []string{"a/b", "a/c", "a", "b"}
var rtPlain = []string{"a/b", "a/+", "a/#", "#", "+/b", "a/c", "+", "b", "$d/#"}
var rtShared = []string{"$share/g/a/+", "$share/h/a/#", "$share/g/a/#", "$share/h/a/b", "$share/g/+/b"}
var rtOdd = []string{"a/b#", "x/#", "$share/g/#"}

func engRoute(seed int64, tier string, args []string, out *sx.Out) {
	mode := "c03"
	if len(args) > 0 {
		mode = args[0]
	}
	rng := rand.New(rand.NewSource(seed))
	if mode == "c04" {
		rtProducts(rng, tier, out)
		return
	}
	if mode == "c03w" {
		n := 150
		if tier == "thorough" {
			n = 5000
		}
		for h := 0; h < n; h++ {
			rtBurstHistory(rng, h, out)
		}
		return
	}
	if mode == "c04r" {
		rtRestartStream(rng, tier, out)
		return
	}
	if mode == "c06t" {
		n := 200
		if tier == "thorough" {
			n = 8000
		}
		for h := 0; h < n; h++ {
			rtTrim(rng, h, out)
		}
		return
	}
	if mode == "c04f" {
		n := 160
		if tier == "thorough" {
			n = 6000
		}
		for h := 0; h < n; h++ {
			rtStored(rng, h, out)
		}
		return
	}
	hist, steps := 1200, 25
	if tier == "thorough" {
		hist, steps = 20000, 40
	}
	for h := 0; h < hist; h++ {
		rtHistory(rng, mode, h, steps, out)
	}
}

func rtRandMsg(rng *rand.Rand, mode string, v5 bool) rtMsg {
	m := rtMsg{topic: rtTopics[rng.Intn(len(rtTopics))], payload: "m" + string(rune('0'+rng.Intn(10))), qos: byte(rng.Intn(3))}
	if k := rng.Intn(40); k == 0 {
		m.topic = "$SYS/x" // refused from clients, allowed from the inline client
	} else if k < 4 {
		m.topic = "$d/b" // a '$' topic: not matched by filters starting with a wildcard
	}
	retainOdds := 4
	if mode == "c05" {
		retainOdds = 2
	}
	if rng.Intn(retainOdds) == 0 {
		m.retain = true
		if rng.Intn(4) == 0 {
			m.payload = ""
		}
	}
	if v5 && rng.Intn(2) == 0 {
		m.ct = "text/x"
		m.rt = "reply/to"
		m.cd = "cd1"
		m.user = [][2]string{{"k", "v"}, {"k", "w"}}
		if rng.Intn(3) == 0 {
			m.user = [][2]string{{"only", "one"}}
			m.cd = ""
		}
	}
	return m
}

func rtRandSub(rng *rand.Rand, mode string) rtSub {
	var f string
	sharedOdds := 4
	if mode == "c06" {
		sharedOdds = 2
	}
	switch {
	case rng.Intn(25) == 0:
		f = rtOdd[rng.Intn(len(rtOdd))]
	case rng.Intn(sharedOdds) == 0:
		f = rtShared[rng.Intn(len(rtShared))]
	default:
		f = rtPlain[rng.Intn(len(rtPlain))]
	}
	s := rtSub{filter: f, qos: byte(rng.Intn(3)), rap: rng.Intn(3) == 0, rh: byte(rng.Intn(3)), id: 0}
	if rng.Intn(2) == 0 {
		s.id = 1 + rng.Intn(3)
	}
	if rng.Intn(4) == 0 {
		s.nl = true
	}
	return s
}

func rtHistory(rng *rand.Rand, mode string, h, steps int, out *sx.Out) {
	maxqos := byte(2)
	if h%7 == 3 {
		maxqos = 1
	} else if h%7 == 5 {
		maxqos = 0
	}
	ravail := !(h%6 == 4)
	deny := [][2]string{{"c3", "a/c"}, {"c3", "x/#"}, {"c2", "b"}}
	w := newWorld(out, maxqos, ravail, deny)
	defer w.close()
	ids := []string{"c1", "c2", "c3", "c4"}
	nclients := 2 + rng.Intn(3)
	connected := func() []string {
		var r []string
		for _, id := range ids[:nclients] {
			if c, ok := w.clients[id]; ok && c.conn != nil {
				r = append(r, id)
			}
		}
		return r
	}
	inlineSubs := [][2]interface{}{}
	for i := 0; i < steps && !w.hung; i++ {
		conn := connected()
		k := rng.Intn(100)
		inlineW := 10
		if mode == "c40" {
			inlineW = 35
		}
		switch {
		case len(conn) == 0 || (len(conn) < nclients && k < 12):
			// connect somebody who is not connected
			var cand []string
			for _, id := range ids[:nclients] {
				if c, ok := w.clients[id]; !ok || c.conn == nil {
					cand = append(cand, id)
				}
			}
			id := cand[rng.Intn(len(cand))]
			ver := byte(5)
			if rng.Intn(3) == 0 {
				ver = 4
			}
			w.connect(id, ver, rng.Intn(3) == 0, rng.Intn(2) == 0, rng.Intn(4) == 0)
		case k < 18 && len(conn) > 1:
			w.disconnect(conn[rng.Intn(len(conn))])
		case k < 45:
			id := conn[rng.Intn(len(conn))]
			n := 1
			if rng.Intn(4) == 0 {
				n = 2
			}
			subs := []rtSub{}
			first := rtRandSub(rng, mode)
			for j := 0; j < n; j++ {
				s := rtRandSub(rng, mode)
				s.id = first.id // one identifier per SUBSCRIBE packet
				subs = append(subs, s)
			}
			w.subscribe(id, subs)
		case k < 52:
			id := conn[rng.Intn(len(conn))]
			all := append(append([]string{}, rtPlain...), rtShared...)
			w.unsubscribe(id, []string{all[rng.Intn(len(all))]})
		case k < 52+inlineW:
			switch rng.Intn(4) {
			case 0:
				m := rtRandMsg(rng, mode, false)
				w.inlinePublish(m)
			case 1, 2:
				id := 1 + rng.Intn(3)
				f := rtPlain[rng.Intn(len(rtPlain))]
				inlineSubs = append(inlineSubs, [2]interface{}{id, f})
				w.inlineSubscribe(id, f)
			default:
				if len(inlineSubs) > 0 && rng.Intn(4) != 0 {
					e := inlineSubs[rng.Intn(len(inlineSubs))]
					w.inlineUnsubscribe(e[0].(int), e[1].(string))
				} else {
					w.inlineUnsubscribe(1+rng.Intn(3), rtPlain[rng.Intn(len(rtPlain))])
				}
			}
		default:
			id := conn[rng.Intn(len(conn))]
			w.publish(id, rtRandMsg(rng, mode, w.clients[id].ver == 5))
		}
	}
}

// rtScripted: fixed scenarios for the merge of shared and non-shared subscriptions of one client.
func rtScripted(out *sx.Out) {
	for maxqos := byte(0); maxqos < 3; maxqos++ {
		for _, withPlain := range []bool{true, false} {
			w := newWorld(out, maxqos, true, nil)
			w.connect("p", 5, true, false, false)
			w.connect("s", 5, true, false, false)
			if withPlain {
				w.subscribe("s", []rtSub{{filter: "a/b", qos: 0, id: 1}})
			}
			w.subscribe("s", []rtSub{{filter: "$share/g/a/+", qos: 1, id: 2}})
			w.subscribe("s", []rtSub{{filter: "$share/h/a/#", qos: 2, id: 3, rap: true}})
			w.subscribe("s", []rtSub{{filter: "$share/k/#", qos: 0, id: 0}})
			for q := byte(0); q < 3; q++ {
				w.publish("p", rtMsg{topic: "a/b", payload: "l", qos: q, retain: q == 1})
			}
			w.inlinePublish(rtMsg{topic: "a/b", payload: "i", qos: 2})
			w.close()
		}
	}
}

// rtProducts: the exhaustive small products for C04.
func rtProducts(rng *rand.Rand, tier string, out *sx.Out) {
	rtScripted(out)
	filters := []string{"a/b", "a/+", "a/#", "#"}
	type opt struct {
		qos byte
		id  int
		rap bool
	}
	var opts5, opts4 []opt
	for q := byte(0); q < 3; q++ {
		opts4 = append(opts4, opt{q, 0, false})
		for id := 0; id < 3; id++ {
			for _, rap := range []bool{false, true} {
				opts5 = append(opts5, opt{q, id, rap})
			}
		}
	}
	perCfg := 150
	if tier == "thorough" {
		perCfg = 3000
	}
	for maxqos := byte(0); maxqos < 3; maxqos++ {
		for _, ver := range []byte{4, 5} {
			opts := opts5
			if ver == 4 {
				opts = opts4
			}
			sets := [][]rtSub{}
			// every single subscription (exhaustive), then sampled sets of two and three overlapping ones
			for _, o := range opts {
				sets = append(sets, []rtSub{{filter: filters[rng.Intn(len(filters))], qos: o.qos, id: o.id, rap: o.rap}})
			}
			for len(sets) < len(opts)+perCfg {
				n := 2 + rng.Intn(2)
				perm := rng.Perm(len(filters))
				set := []rtSub{}
				for j := 0; j < n; j++ {
					o := opts[rng.Intn(len(opts))]
					set = append(set, rtSub{filter: filters[perm[j]], qos: o.qos, id: o.id, rap: o.rap, rh: 0})
				}
				sets = append(sets, set)
			}
			for _, set := range sets {
				w := newWorld(out, maxqos, true, nil)
				w.connect("p", 5, true, false, false)
				for q := byte(0); q < 3; q++ { // retained messages published at QoS 0, 1, 2
					w.publish("p", rtMsg{topic: []string{"a/b", "a/c", "a/d"}[q], payload: "r", qos: q, retain: true})
				}
				w.connect("s", ver, true, false, false)
				for _, s := range set {
					w.subscribe("s", []rtSub{s})
				}
				for q := byte(0); q < 3; q++ {
					for _, ret := range []bool{false, true} {
						w.publish("p", rtMsg{topic: "a/b", payload: "l", qos: q, retain: ret})
					}
				}
				w.close()
			}
		}
	}
}

// rtStored: deliveries made from a STORED copy of the message — held back by the subscriber's Receive
// Maximum and released by a later acknowledgement, kept for an offline persistent session and sent on
// reconnection, resent with DUP on session resume because it was never acknowledged.  Every PUBLISH copy
// a client receives is judged by the C04 specification (QoS, identifiers, retain flag) of the publish
// with that payload; payloads are unique within a history.  Retain is unavailable, so that no retained
// delivery mixes with the live ones while the retain flag / Retain As Published stays in play.
func rtStored(rng *rand.Rand, h int, out *sx.Out) {
	maxqos := byte(2)
	if h%5 == 4 {
		maxqos = 1
	}
	w := newWorld(out, maxqos, false, nil)
	defer w.close()
	w.holds["s"], w.holds["t"] = true, true
	w.recvMax["s"] = uint16(1 + rng.Intn(2))
	filters := []string{"a/b", "a/+", "a/#", "#"}
	seq := 0
	pub := func() {
		seq++
		w.publish("p", rtMsg{topic: "a/b", payload: "u" + string(rune('a'+seq/26)) + string(rune('a'+seq%26)),
			qos: byte(1 + rng.Intn(2)), retain: rng.Intn(3) == 0})
	}
	subscribe := func(id string) {
		perm := rng.Perm(len(filters))
		n := 1 + rng.Intn(3)
		for j := 0; j < n; j++ {
			sid := 0
			if rng.Intn(3) != 0 {
				sid = 1 + rng.Intn(3)
			}
			w.subscribe(id, []rtSub{{filter: filters[perm[j]], qos: byte(1 + rng.Intn(2)), id: sid, rap: rng.Intn(3) == 0}})
		}
	}
	w.connect("p", 5, true, false, false)
	w.connect("s", 5, false, true, false) // MQTT 5, clean start 0, session expiry > 0, Receive Maximum 1-2
	w.connect("t", 4, false, false, false) // MQTT 3.1.1 persistent session
	subscribe("s")
	subscribe("t")
	live := func(id string) bool { c := w.clients[id]; return c != nil && c.conn != nil }
	for i := 0; i < 26 && !w.hung; i++ {
		switch k := rng.Intn(100); {
		case k < 40:
			pub()
		case k < 70:
			id := []string{"s", "t"}[rng.Intn(2)]
			if live(id) {
				w.ackOldest(id)
			}
		case k < 80:
			id := []string{"s", "t"}[rng.Intn(2)]
			if live(id) {
				w.disconnect(id) // unacknowledged messages stay in flight; further publishes are stored
			}
		case k < 95:
			for _, id := range []string{"s", "t"} {
				if !live(id) {
					ver := byte(5)
					if id == "t" {
						ver = 4
					}
					w.connect(id, ver, false, true, false) // resume: stored and unacknowledged messages are (re)sent
					break
				}
			}
		default:
			id := []string{"s", "t"}[rng.Intn(2)]
			if live(id) {
				subscribe(id) // later publishes are judged by the subscriptions held when they are published
			}
		}
	}
	for _, id := range []string{"s", "t"} { // drain: reconnect and acknowledge everything that is left
		if !live(id) && !w.hung {
			ver := byte(5)
			if id == "t" {
				ver = 4
			}
			w.connect(id, ver, false, true, false)
		}
		for n := 0; n < 40 && !w.hung && len(w.clients[id].unacked) > 0; n++ {
			w.ackOldest(id)
		}
	}
}

// rtTrim: share groups whose filter particle holds nothing but the shared subscriptions (no other
// subscription, no retained message, no other child), while non-shared filters strictly below and above
// them are subscribed and unsubscribed and retained messages are set and cleared below them between the
// publishes — every such change runs TopicsIndex.trim from a deeper or shallower particle, and each
// group with a matching member must still get exactly one copy afterwards.
func rtTrim(rng *rand.Rand, h int, out *sx.Out) {
	w := newWorld(out, 2, true, nil)
	defer w.close()
	shared := []string{"$share/g/a/b", "$share/h/x/+", "$share/k/y", "$share/g/a/b/c/+"}
	deep := []string{"a/b/c", "a/b/c/d", "a/b/+/d", "x/+/z", "x/+/z/w", "y/q", "y/q/r", "a/b/c/d/e"} // strictly below a share particle
	above := []string{"a", "x", "a/+/c/d"}                                                              // above / beside
	deepTopics := []string{"a/b/c", "a/b/c/d", "y/q", "y/q/r", "a/b/zz"}                               // retained set and cleared here
	pubTopics := []string{"a/b", "x/1", "y", "a/b/c/d", "a/b/c"}
	ids := []string{"c1", "c2", "c3"}
	for i, id := range ids {
		ver := byte(5)
		if i == 2 && h%2 == 0 {
			ver = 4
		}
		w.connect(id, ver, true, false, false)
	}
	// memberships: every group gets one or two members; nobody subscribes the group's own particle otherwise
	for _, f := range shared {
		n := 1 + rng.Intn(2)
		perm := rng.Perm(len(ids))
		for j := 0; j < n; j++ {
			w.subscribe(ids[perm[j]], []rtSub{{filter: f, qos: byte(rng.Intn(3))}})
		}
	}
	held := map[[2]string]bool{}
	seq := 0
	for i := 0; i < 30 && !w.hung; i++ {
		id := ids[rng.Intn(len(ids))]
		switch k := rng.Intn(100); {
		case k < 22: // subscribe below / above
			f := deep[rng.Intn(len(deep))]
			if rng.Intn(4) == 0 {
				f = above[rng.Intn(len(above))]
			}
			held[[2]string{id, f}] = true
			w.subscribe(id, []rtSub{{filter: f, qos: byte(rng.Intn(3))}})
		case k < 44: // unsubscribe one of them again (trim from a deeper or shallower particle)
			var cand [][2]string
			for e := range held {
				cand = append(cand, e)
			}
			sort.Slice(cand, func(a, b int) bool { return cand[a][0]+cand[a][1] < cand[b][0]+cand[b][1] })
			if len(cand) == 0 {
				w.unsubscribe(id, []string{deep[rng.Intn(len(deep))]}) // nothing there: Unsubscribe still trims
				break
			}
			e := cand[rng.Intn(len(cand))]
			delete(held, e)
			w.unsubscribe(e[0], []string{e[1]})
		case k < 56: // retained message set below a share particle
			seq++
			w.publish(id, rtMsg{topic: deepTopics[rng.Intn(len(deepTopics))], payload: "r" + string(rune('a'+seq%26)), qos: byte(rng.Intn(2)), retain: true})
		case k < 70: // ... and cleared (empty payload: RetainMessage trims)
			w.publish(id, rtMsg{topic: deepTopics[rng.Intn(len(deepTopics))], payload: "", qos: 0, retain: true})
		case k < 74: // a member leaves / joins a group
			f := shared[rng.Intn(len(shared))]
			if rng.Intn(2) == 0 {
				w.unsubscribe(id, []string{f})
			} else {
				w.subscribe(id, []rtSub{{filter: f, qos: byte(rng.Intn(3))}})
			}
		default: // publish: each group with a matching member gets exactly one copy
			seq++
			w.publish(id, rtMsg{topic: pubTopics[rng.Intn(len(pubTopics))], payload: "m" + string(rune('a'+seq%26)), qos: byte(rng.Intn(3))})
		}
	}
}
