package main

// C35 — the connected-client limit under forced schedules (coq/Conc/Limit.v).
// One case per schedule:
//   (max (spec...) (entry...) (final...))
//     spec  = (ver id)                protocol version and client identifier of attempt i
//     entry = (tid took counter est)  schedule entry: thread, whether it could take its next step,
//                                     Info.ClientsConnected and the number of connections holding a
//                                     success CONNACK and not closed, both after the entry
//     final = CONNACK reason code received by attempt i (255 = none)
// The handler goroutines of the real broker are parked at the verifPoints attach.start,
// attach.beforeIncr and attach.readReturned; one schedule entry releases one handler for one
// atomic step of the model: Check (attach.start -> attach.beforeIncr or refusal), Reserve
// (attach.beforeIncr -> serving or refusal), Decr (client closes, or the teardown of a connection
// closed by a takeover: attach.readReturned -> return).

import (
	"fmt"
	"io"
	"log/slog"
	"math/rand"
	"os"
	"sync/atomic"
	"time"

	mqtt "github.com/mochi-mqtt/server/v2"
	"github.com/mochi-mqtt/server/v2/hooks/auth"

	"verifharness/broker"
	"verifharness/fsched"
	"verifharness/sx"
)

func init() { engines["limit"] = engLimit }

type limSpec struct {
	ver byte
	id  int
}

type limEntry struct {
	tid     int
	took    bool
	counter int64
	est     int
}

const limitTimeout = 5 * time.Second

// runLimitCase forces one schedule on a fresh broker. hung is set when the broker did not settle.
func runLimitCase(max int64, specs []limSpec, sched []int) (entries []limEntry, finals []int, hung string) {
	ctl := fsched.New("attach.start", "attach.beforeIncr", "attach.readReturned")
	mqtt.VerifPointHook = ctl.Hook
	caps := mqtt.NewDefaultServerCapabilities()
	caps.MaximumClients = max
	srv := mqtt.New(&mqtt.Options{Capabilities: caps, Logger: slog.New(slog.NewTextHandler(io.Discard, nil))})
	if err := srv.AddHook(new(auth.AllowHook), nil); err != nil {
		panic(err)
	}
	n := len(specs)
	conns := make([]*fsched.Conn, n)
	keys := make([]string, n)
	blocked := func(key string) bool {
		for i, k := range keys {
			if k == key {
				return conns[i].Blocked()
			}
		}
		return false
	}
	for i, sp := range specs {
		keys[i] = fmt.Sprintf("h%d", i)
		conns[i] = fsched.NewConn(fmt.Sprintf("10.0.0.%d:1000", i+1))
		data, err := broker.Encode(broker.ConnectPk(fmt.Sprintf("c%d", sp.id), sp.ver, true))
		if err != nil {
			panic(err)
		}
		conns[i].Feed(data)
		key, conn := keys[i], conns[i]
		go func() {
			ctl.Register(key)
			defer ctl.Finish(key)
			_ = srv.EstablishConnection("t1", conn)
		}()
		if !ctl.WaitParked(key, limitTimeout) {
			return nil, nil, "handler did not reach attach.start"
		}
	}
	established := func() int {
		k := 0
		for _, c := range conns {
			if fsched.Connack(c.Output()) == 0 && !c.ServerClosed() && !c.PeerClosed() {
				k++
			}
		}
		return k
	}
	for _, t := range sched {
		took := false
		if t >= 0 && t < n {
			_, at, fin := ctl.State(keys[t])
			switch {
			case fin:
			case at != "":
				took = ctl.Release(keys[t])
			case conns[t].Blocked(): // serving: the client leaves
				conns[t].PeerClose()
				if !ctl.WaitParked(keys[t], limitTimeout) {
					hung = "handler did not return from Read after the client closed"
				}
				ctl.Release(keys[t])
				took = true
			}
		}
		if !ctl.Settle(limitTimeout, blocked) {
			hung = "broker did not settle"
		}
		entries = append(entries, limEntry{tid: t, took: took, counter: atomic.LoadInt64(&srv.Info.ClientsConnected), est: established()})
		if hung != "" {
			break
		}
	}
	for _, c := range conns {
		finals = append(finals, fsched.Connack(c.Output()))
	}
	// let every handler finish
	for _, c := range conns {
		c.PeerClose()
	}
	deadline := time.Now().Add(limitTimeout)
	for {
		all := true
		for _, k := range keys {
			_, at, fin := ctl.State(k)
			if at != "" {
				ctl.Release(k)
			}
			if !fin {
				all = false
			}
		}
		if all || time.Now().After(deadline) {
			if !all && hung == "" {
				hung = "handlers did not finish at the end of the case"
			}
			break
		}
		time.Sleep(20 * time.Microsecond)
	}
	return
}

// interleavings enumerates every interleaving of k threads with steps[i] entries each.
func interleavings(steps []int, emit func([]int)) {
	total := 0
	for _, s := range steps {
		total += s
	}
	left := append([]int{}, steps...)
	cur := make([]int, 0, total)
	var rec func()
	rec = func() {
		if len(cur) == total {
			emit(append([]int{}, cur...))
			return
		}
		for t := range left {
			if left[t] > 0 {
				left[t]--
				cur = append(cur, t)
				rec()
				cur = cur[:len(cur)-1]
				left[t]++
			}
		}
	}
	rec()
}

func emitLimitCase(out *sx.Out, max int64, specs []limSpec, sched []int) {
	entries, finals, hung := runLimitCase(max, specs, sched)
	if hung != "" {
		fmt.Fprintf(os.Stderr, "limit: %s (max=%d specs=%v sched=%v)\n", hung, max, specs, sched)
		os.Exit(3)
	}
	sp := sx.L{}
	for _, s := range specs {
		sp = append(sp, sx.L{sx.N(s.ver), sx.N(s.id)})
	}
	es := sx.L{}
	for _, e := range entries {
		c := e.counter
		if c < 0 {
			c = 1 << 40 // a negative counter never agrees with the model
		}
		es = append(es, sx.L{sx.N(e.tid), sx.Bool(e.took), sx.N(c), sx.N(e.est)})
	}
	fs := sx.L{}
	for _, f := range finals {
		fs = append(fs, sx.N(f))
	}
	out.Case(sx.L{sx.N(max), sp, es, fs})
}

func engLimit(seed int64, tier string, args []string, out *sx.Out) {
	rng := rand.New(rand.NewSource(seed))
	distinct := []limSpec{{5, 1}, {4, 2}, {3, 3}}
	takeover := []limSpec{{5, 1}, {5, 1}, {4, 2}}
	takeover2 := []limSpec{{4, 1}, {5, 2}, {5, 1}}
	type cfg struct {
		max   int64
		specs []limSpec
	}
	// exhaustive: every interleaving of the 3 atomic steps of 3 attach threads
	ex := []cfg{{1, distinct}, {2, distinct}, {2, takeover}}
	if tier == "thorough" {
		ex = append(ex, cfg{3, distinct}, cfg{1, takeover}, cfg{2, takeover2}, cfg{1, []limSpec{{5, 1}, {5, 2}, {5, 3}}},
			cfg{2, []limSpec{{4, 1}, {4, 2}, {4, 3}}}, cfg{3, takeover})
	}
	for _, c := range ex {
		interleavings([]int{3, 3, 3}, func(s []int) { emitLimitCase(out, c.max, c.specs, s) })
	}
	// the witness of the repaired defect C35-1 (Findings/FixedC35.v)
	emitLimitCase(out, 1, []limSpec{{5, 1}, {4, 2}}, []int{0, 1, 0, 1})
	// random schedules: 2..4 (thorough 2..6) threads, limits 1..4, entries for finished threads included
	nrand, maxThreads := 300, 4
	if tier == "thorough" {
		nrand, maxThreads = 5000, 6
	}
	for i := 0; i < nrand; i++ {
		n := 2 + rng.Intn(maxThreads-1)
		max := int64(1 + rng.Intn(4))
		if rng.Intn(3) > 0 && int(max) >= n {
			max = int64(1 + rng.Intn(n))
		}
		specs := make([]limSpec, n)
		for j := range specs {
			specs[j] = limSpec{ver: []byte{5, 4, 3}[rng.Intn(3)], id: 1 + rng.Intn(n)}
			if rng.Intn(3) > 0 {
				specs[j].id = j + 1
			}
		}
		l := 2*n + rng.Intn(2*n+1)
		sched := make([]int, l)
		for j := range sched {
			sched[j] = rng.Intn(n)
		}
		emitLimitCase(out, max, specs, sched)
	}
	mqtt.VerifPointHook = nil
}
