package main

// codec_enc (C42): an independent reference encoder (written here from the MQTT 3.1.1 / 5.0 texts,
// it shares no code with mochi's encoder) produces, for generated client-to-server packets, every
// encoding the standard permits: each permitted omission (reason code / property length left out)
// and the properties in every order that keeps repeated ones in sequence.  Every encoding goes
// through the real decoder (header + body exactly as ReadFixedHeader/ReadPacket) and the decoded
// fields are emitted.  Whether an emitted stream really is a permitted encoding, and of which
// packet, is decided on the Coq side by the reference decoder of SpecCodec.v.

import (
	"math/rand"

	"verifharness/sx"
)

func init() { engines["codec_enc"] = engCodecEnc }

func refVbi(n int) []byte {
	var out []byte
	for {
		b := byte(n % 128)
		n /= 128
		if n > 0 {
			b |= 0x80
		}
		out = append(out, b)
		if n == 0 {
			return out
		}
	}
}

func refU16(n int) []byte { return []byte{byte(n >> 8), byte(n)} }
func refU32(n uint32) []byte {
	return []byte{byte(n >> 24), byte(n >> 16), byte(n >> 8), byte(n)}
}
func refBin(b []byte) []byte { return append(refU16(len(b)), b...) }
func refStr(s string) []byte { return refBin([]byte(s)) }
func cat(parts ...[]byte) []byte {
	var out []byte
	for _, p := range parts {
		out = append(out, p...)
	}
	return out
}

// a property on the wire: identifier + encoded value
type refProp []byte

func (p refProp) repeatable() bool { return p[0] == 38 || p[0] == 11 }

// contexts
const (
	xConnect = iota
	xPublish
	xAck
	xSubscribe
	xUnsubscribe
	xDisconnect
	xAuth
	xWill
	xConnack
	xSuback
)

var validStr = []string{"a", "b/c", "世界", "", "x y z", "\U0001F600k", "tenletters"}

// vstrOverride, when set, is used for every generated string (sweep over the special code points)
var vstrOverride string

func vstr(rng *rand.Rand) string {
	if vstrOverride != "" {
		return vstrOverride
	}
	if rng.Intn(4) == 0 {
		return specialValid[rng.Intn(len(specialValid))]
	}
	return validStr[rng.Intn(len(validStr))]
}

// genRefProp returns property id with a valid value.
func genRefProp(rng *rand.Rand, id byte) refProp {
	b01 := func() []byte { return []byte{byte(rng.Intn(2))} }
	switch id {
	case 1, 23, 25, 36, 37, 40, 41, 42:
		return cat([]byte{id}, b01())
	case 2, 17, 24:
		return cat([]byte{id}, refU32(pick32(rng)))
	case 39:
		return cat([]byte{id}, refU32(1+pick32(rng)%4294967295))
	case 3, 18, 21, 26, 28, 31:
		return cat([]byte{id}, refStr(vstr(rng)))
	case 8:
		return cat([]byte{id}, refStr([]string{"r/t", "a", "resp/世"}[rng.Intn(3)]))
	case 9, 22:
		return cat([]byte{id}, refBin(genBytes(rng)))
	case 11:
		return cat([]byte{id}, refVbi(1+pickSubID(rng)%268435455))
	case 19, 34:
		return cat([]byte{id}, refU16(int(pick16(rng))))
	case 33, 35:
		return cat([]byte{id}, refU16(1+int(pick16(rng))%65535))
	case 38:
		return cat([]byte{id}, refStr(vstr(rng)), refStr(vstr(rng)))
	}
	return refProp{id}
}

var allowedIDs = map[int][]byte{
	xConnect:     {17, 33, 39, 34, 25, 23, 38, 21, 22},
	xPublish:     {1, 2, 35, 8, 9, 38, 11, 3},
	xAck:         {31, 38},
	xSubscribe:   {11, 38},
	xUnsubscribe: {38},
	xDisconnect:  {17, 31, 38, 28},
	xAuth:        {21, 22, 31, 38},
	xWill:        {24, 1, 2, 3, 8, 9, 38},
	xConnack:     {17, 33, 36, 37, 39, 18, 34, 31, 38, 40, 41, 42, 19, 26, 28, 21, 22},
	xSuback:      {31, 38},
}

// genRefProps: a random valid property list for the context (single-valued ids at most once,
// authentication data only together with a method), occasionally an invalid one.
func genRefProps(rng *rand.Rand, ctx int, v byte) []refProp {
	if v != 5 {
		return nil
	}
	ids := allowedIDs[ctx]
	var out []refProp
	pr := []float64{0, 0.15, 0.4, 0.8}[rng.Intn(4)]
	hasMethod := false
	for _, id := range ids {
		if rng.Float64() >= pr {
			continue
		}
		if id == 22 && !hasMethod {
			continue
		}
		if id == 21 {
			hasMethod = true
		}
		n := 1
		if id == 38 || (id == 11 && ctx == xPublish) {
			n = 1 + rng.Intn(3)
		}
		for i := 0; i < n; i++ {
			out = append(out, genRefProp(rng, id))
		}
	}
	if rng.Intn(40) == 0 { // not permitted: a property that does not belong here, or a duplicate
		if len(out) > 0 && rng.Intn(2) == 0 {
			out = append(out, out[0])
		} else {
			out = append(out, genRefProp(rng, []byte{1, 17, 18, 24, 35, 36}[rng.Intn(6)]))
		}
	}
	return out
}

// permutations of ps that keep the repeatable properties in their original relative order
func orderPreservingPerms(ps []refProp, limit int, rng *rand.Rand) [][]refProp {
	n := len(ps)
	if n <= 1 {
		return [][]refProp{ps}
	}
	var out [][]refProp
	fix := func(perm []int) []refProp {
		// put the repeatable properties back into their original order within the slots they occupy
		res := make([]refProp, n)
		var rep []int
		for _, i := range perm {
			if ps[i].repeatable() {
				rep = append(rep, i)
			}
		}
		// original order = ascending index, but only among properties with the same identifier class
		sorted := append([]int{}, rep...)
		for a := 0; a < len(sorted); a++ {
			for b := a + 1; b < len(sorted); b++ {
				if sorted[b] < sorted[a] {
					sorted[a], sorted[b] = sorted[b], sorted[a]
				}
			}
		}
		k := 0
		for pos, i := range perm {
			if ps[i].repeatable() {
				res[pos] = ps[sorted[k]]
				k++
			} else {
				res[pos] = ps[i]
			}
		}
		return res
	}
	if n <= 4 {
		idx := make([]int, n)
		for i := range idx {
			idx[i] = i
		}
		seen := map[string]bool{}
		var rec func(k int)
		rec = func(k int) {
			if k == n {
				r := fix(idx)
				key := string(cat(func() [][]byte {
					var x [][]byte
					for _, p := range r {
						x = append(x, p, []byte{0xfe})
					}
					return x
				}()...))
				if !seen[key] {
					seen[key] = true
					out = append(out, r)
				}
				return
			}
			for i := k; i < n; i++ {
				idx[k], idx[i] = idx[i], idx[k]
				rec(k + 1)
				idx[k], idx[i] = idx[i], idx[k]
			}
		}
		rec(0)
		return out
	}
	out = append(out, ps)
	for i := 1; i < limit; i++ {
		out = append(out, fix(rng.Perm(n)))
	}
	return out
}

func propBlock(ps []refProp) []byte {
	var body []byte
	for _, p := range ps {
		body = append(body, p...)
	}
	return cat(refVbi(len(body)), body)
}

func refFrame(ty, flags byte, body []byte) []byte {
	return cat([]byte{ty<<4 | flags}, refVbi(len(body)), body)
}

// refPacket is a generated client packet in "reference" form: everything needed to write it out.
type refPacket struct {
	v         byte
	ty, flags byte
	pre       []byte    // variable header before the property block
	props     []refProp // nil for v3/v4
	post      []byte    // after the property block (payload; for CONNECT: client id .. password)
	will      []refProp // CONNECT with will: will properties
	willPost  []byte    // will topic, will payload, user name, password
	hasWill   bool
	reason    int // acks / DISCONNECT / AUTH: reason code (pre excludes it), -1 otherwise
}

func genRefPacket(rng *rand.Rand, ty byte, v byte) *refPacket {
	p := &refPacket{v: v, ty: ty, reason: -1}
	pid := func() []byte { return refU16(1 + int(pick16(rng))%65535) }
	switch ty {
	case 1: // CONNECT
		lvl := v
		name := "MQTT"
		if lvl == 3 {
			name = "MQIsdp"
		}
		var fl byte
		if rng.Intn(2) == 0 {
			fl |= 2
		}
		p.hasWill = rng.Intn(2) == 0
		user := rng.Intn(2) == 0
		pass := rng.Intn(2) == 0
		if lvl != 5 && !user {
			pass = false
		}
		var tail []byte
		if p.hasWill {
			q := byte(rng.Intn(3))
			fl |= 4 | q<<3
			if rng.Intn(2) == 0 {
				fl |= 32
			}
			p.will = genRefProps(rng, xWill, lvl)
			tail = cat(refStr(vstr(rng)), refBin(genBytes(rng)))
		}
		if user {
			fl |= 128
			tail = cat(tail, refStr(vstr(rng)))
		}
		if pass {
			fl |= 64
			tail = cat(tail, refBin(genBytes(rng)))
		}
		p.pre = cat(refStr(name), []byte{lvl, fl}, refU16(int(pick16(rng))))
		p.props = genRefProps(rng, xConnect, lvl)
		p.post = refStr(vstr(rng))
		p.willPost = tail
		p.v = lvl
	case 3: // PUBLISH
		q := byte(rng.Intn(3))
		p.flags = q << 1
		if rng.Intn(2) == 0 {
			p.flags |= 1
		}
		if q > 0 && rng.Intn(2) == 0 {
			p.flags |= 8
		}
		topic := []string{"a", "a/b", "世界/x", "t", "$SYS/y"}[rng.Intn(5)]
		if vstrOverride != "" {
			topic = vstrOverride
		}
		p.props = genRefProps(rng, xPublish, v)
		if v == 5 && rng.Intn(6) == 0 {
			hasAlias := false
			for _, pr := range p.props {
				if pr[0] == 35 {
					hasAlias = true
				}
			}
			if hasAlias {
				topic = ""
			}
		}
		p.pre = refStr(topic)
		if q > 0 {
			p.pre = cat(p.pre, pid())
		}
		p.post = genBytes(rng)
	case 4, 5, 6, 7:
		if ty == 6 {
			p.flags = 2
		}
		p.pre = pid()
		if v == 5 {
			codes := []int{0, 0, 16, 128, 131, 135, 144, 145, 151, 153}
			if ty == 6 || ty == 7 {
				codes = []int{0, 0, 146}
			}
			p.reason = codes[rng.Intn(len(codes))]
			if rng.Intn(3) == 0 {
				p.props = genRefProps(rng, xAck, v)
			}
		}
	case 8:
		p.flags = 2
		p.pre = pid()
		p.props = genRefProps(rng, xSubscribe, v)
		n := 1 + rng.Intn(3)
		for i := 0; i < n; i++ {
			o := byte(rng.Intn(3))
			if v == 5 {
				o |= byte(rng.Intn(2))<<2 | byte(rng.Intn(2))<<3 | byte(rng.Intn(3))<<4
			}
			flt := []string{"a/#", "+/b", "t", "$share/g/x", "世/+"}[rng.Intn(5)]
			if vstrOverride != "" {
				flt = vstrOverride
			}
			p.post = cat(p.post, refStr(flt), []byte{o})
		}
	case 10:
		p.flags = 2
		p.pre = pid()
		p.props = genRefProps(rng, xUnsubscribe, v)
		n := 1 + rng.Intn(3)
		for i := 0; i < n; i++ {
			flt := []string{"a/#", "+/b", "t", "世/+"}[rng.Intn(4)]
			if vstrOverride != "" {
				flt = vstrOverride
			}
			p.post = cat(p.post, refStr(flt))
		}
	case 12:
	case 14:
		if v == 5 {
			codes := []int{0, 0, 4, 128, 129, 130, 131, 144, 147, 148, 149, 150, 151, 152, 153}
			p.reason = codes[rng.Intn(len(codes))]
			if rng.Intn(3) == 0 {
				p.props = genRefProps(rng, xDisconnect, v)
			}
		}
	case 15:
		p.reason = []int{0, 0, 24, 25}[rng.Intn(4)]
		if rng.Intn(2) == 0 {
			p.props = genRefProps(rng, xAuth, 5)
		}
	// server-to-client packets (correspondence only)
	case 2:
		code := byte(0)
		sp := byte(rng.Intn(2))
		if rng.Intn(3) == 0 {
			code = []byte{1, 2, 3, 4, 5}[rng.Intn(5)]
			if v == 5 {
				code = []byte{128, 132, 134, 135}[rng.Intn(4)]
			}
			sp = 0
		}
		p.pre = []byte{sp, code}
		p.props = genRefProps(rng, xConnack, v)
	case 9, 11:
		p.pre = pid()
		p.props = genRefProps(rng, xSuback, v)
		if ty == 9 || v == 5 {
			n := 1 + rng.Intn(3)
			for i := 0; i < n; i++ {
				p.post = append(p.post, []byte{0, 1, 2, 128}[rng.Intn(4)])
			}
			if ty == 11 {
				p.post = []byte{0, 17}[:1+rng.Intn(2)]
			}
		}
	case 13:
	}
	return p
}

// bodies: the complete form and the shortened forms the standard permits, for one property order
func (p *refPacket) bodies(props, will []refProp) [][]byte {
	v5 := p.v == 5
	pb := func(ps []refProp) []byte {
		if !v5 {
			return nil
		}
		return propBlock(ps)
	}
	if p.reason >= 0 { // acks, DISCONNECT, AUTH in MQTT 5
		full := cat(p.pre, []byte{byte(p.reason)}, propBlock(props))
		out := [][]byte{full}
		if len(props) == 0 {
			out = append(out, cat(p.pre, []byte{byte(p.reason)}))
			if p.reason == 0 {
				out = append(out, cat(p.pre))
			}
		}
		return out
	}
	switch p.ty {
	case 1:
		body := cat(p.pre, pb(props), p.post)
		if p.hasWill {
			body = cat(body, pb(will))
		}
		return [][]byte{cat(body, p.willPost)}
	case 4, 5, 6, 7, 12, 13, 14: // v3/v4 forms without reason
		return [][]byte{cat(p.pre)}
	default:
		return [][]byte{cat(p.pre, pb(props), p.post)}
	}
}

func (p *refPacket) emitAll(out *sx.Out, rng *rand.Rand, connV byte, permLimit int) {
	perms := orderPreservingPerms(p.props, permLimit, rng)
	wperms := [][]refProp{p.will}
	if p.hasWill {
		wperms = orderPreservingPerms(p.will, 3, rng)
	}
	for _, ps := range perms {
		for _, ws := range wperms {
			for _, b := range p.bodies(ps, ws) {
				out.Case(streamCase(connV, refFrame(p.ty, p.flags, b)))
			}
		}
	}
}

var clientTypes = []byte{1, 3, 4, 5, 6, 7, 8, 10, 12, 14, 15}

func engCodecEnc(seed int64, tier string, _ []string, out *sx.Out) {
	rng := rand.New(rand.NewSource(seed))
	thorough := tier == "thorough"

	// (i) fixed vectors: the shortened forms named in the property text
	for _, bs := range [][]byte{
		{0xe0, 0x00}, {0xe0, 0x01, 0x00}, {0xe0, 0x01, 0x04}, {0xe0, 0x02, 0x04, 0x00}, {0xe0, 0x01, 0x81},
		{0xf0, 0x00}, {0xf0, 0x01, 0x00}, {0xf0, 0x01, 0x18}, {0xf0, 0x01, 0x19}, {0xf0, 0x02, 0x18, 0x00},
		{0x40, 0x02, 0x00, 0x07}, {0x40, 0x03, 0x00, 0x07, 0x10}, {0x40, 0x03, 0x00, 0x07, 0x00}, {0x40, 0x04, 0x00, 0x07, 0x10, 0x00},
		{0x50, 0x02, 0x00, 0x07}, {0x50, 0x03, 0x00, 0x07, 0x91}, {0x62, 0x02, 0x00, 0x07}, {0x62, 0x03, 0x00, 0x07, 0x92},
		{0x70, 0x02, 0x00, 0x07}, {0x70, 0x03, 0x00, 0x07, 0x92}, {0xc0, 0x00},
	} {
		for _, v := range []byte{3, 4, 5} {
			out.Case(streamCase(v, bs))
			out.Case(streamCase(v, append(append([]byte{}, bs...), 0xc0, 0x00))) // followed by a PINGREQ
		}
	}

	// (ii) exhaustive: for every client packet type under MQTT 5, every sub-list of up to 3 of the
	// properties allowed there (one representative value each, user property twice), in every
	// permitted order, in every permitted form
	exhMax := 4
	if thorough {
		exhMax = 5
	}
	ctxOf := map[byte]int{1: xConnect, 3: xPublish, 4: xAck, 5: xAck, 6: xAck, 7: xAck, 8: xSubscribe, 10: xUnsubscribe, 14: xDisconnect, 15: xAuth}
	for _, ty := range clientTypes {
		ctx, ok := ctxOf[ty]
		if !ok {
			continue
		}
		ids := append([]byte{}, allowedIDs[ctx]...)
		ids = append(ids, 38) // a second user property
		var rec func(start int, chosen []refProp)
		rec = func(start int, chosen []refProp) {
			base := genRefPacket(rng, ty, 5)
			base.props = chosen
			if base.reason >= 0 && len(chosen) == 0 && rng.Intn(2) == 0 {
				base.reason = 0
			}
			base.emitAll(out, rng, 5, 24)
			if len(chosen) == exhMax {
				return
			}
			for i := start; i < len(ids); i++ {
				if ids[i] == 22 { // needs a method before it in the chosen set
					has := false
					for _, c := range chosen {
						if c[0] == 21 {
							has = true
						}
					}
					if !has {
						continue
					}
				}
				rec(i+1, append(append([]refProp{}, chosen...), genRefProp(rng, ids[i])))
			}
		}
		rec(0, nil)
	}

	// (ii') every special (valid) code point in every string field of every client packet type
	for _, sp := range specialValid {
		vstrOverride = sp
		for _, ty := range clientTypes {
			for k := 0; k < 6; k++ {
				v := []byte{4, 5, 5}[k%3]
				if ty == 15 {
					v = 5
				}
				genRefPacket(rng, ty, v).emitAll(out, rng, v, 2)
			}
		}
	}
	vstrOverride = ""

	// (iii) random packets, all versions, random property sets, permutations, all forms;
	// a share of server-to-client packets for the correspondence
	n := 30000
	if thorough {
		n = 600000
	}
	for i := 0; i < n; i++ {
		v := []byte{3, 4, 5, 5, 5}[rng.Intn(5)]
		ty := clientTypes[rng.Intn(len(clientTypes))]
		if rng.Intn(12) == 0 {
			ty = []byte{2, 9, 11, 13}[rng.Intn(4)]
		}
		if ty == 15 && v != 5 {
			v = 5
		}
		p := genRefPacket(rng, ty, v)
		connV := v
		if ty == 1 && rng.Intn(3) == 0 {
			connV = []byte{0, 3, 4, 5}[rng.Intn(4)] // the connection's version before CONNECT is irrelevant
		}
		p.emitAll(out, rng, connV, 6)
	}
}
