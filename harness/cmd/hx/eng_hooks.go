package main

import (
	"errors"
	"fmt"
	"math/rand"
	"sort"
	"sync"

	mqtt "github.com/mochi-mqtt/server/v2"
	"github.com/mochi-mqtt/server/v2/packets"

	"verifharness/broker"
	"verifharness/sx"
)

func init() { engines["hooks"] = engHooks }

// C19: hook chain.  Stacks of 1-3 scripted hooks (plus one "infra" hook that admits the probe and the
// late subscriber) are installed in the real broker; histories of connects, publishes (v3/v4/v5 x
// QoS 0-2 x retain) and subscribes are run against them.  Every hook logs what it was given; per step
// the case carries the operation, the hook log, what every connection received, the retained store
// and the topic index.  The Coq engine rebuilds the hooks from the scripts, replays the model and
// evaluates the monitors.

type hkAction struct {
	topic  string // "" = keep
	suffix []byte
	ret    int // 0 keep, 1 clear, 2 set
	res    int // 0 nil, 1 ErrRejectPacket, 2 CodeSuccessIgnore, 3 packets.Code, 4 plain error
	code   byte
	wrap   int // the error is returned bare (0) or wrapped once / twice with %w
}

type hkSubRule struct {
	filter string
	qos    byte
}

type hkACLKey struct {
	cl, topic string
	write     bool
}

type hkCall struct {
	kind  int
	hook  int
	cl    string
	topic string
	write bool
	pk    sx.V
}

type hkLog struct {
	mu    sync.Mutex
	calls []hkCall
}

func (l *hkLog) add(c hkCall) {
	l.mu.Lock()
	l.calls = append(l.calls, c)
	l.mu.Unlock()
}

func (l *hkLog) drain() []hkCall {
	l.mu.Lock()
	defer l.mu.Unlock()
	c := l.calls
	l.calls = nil
	return c
}

type scriptHook struct {
	mqtt.HookBase
	id      int
	hasAuth bool
	auth    []string
	hasACL  bool
	acl     []hkACLKey
	hasRead bool
	read    map[string]hkAction
	readK   []string
	hasPub  bool
	pub     map[string]hkAction
	pubK    []string
	hasSub  bool
	sub     map[string]hkSubRule
	subK    []string
	log     *hkLog
}

func (h *scriptHook) ID() string { return "script" }

func (h *scriptHook) Provides(b byte) bool {
	switch b {
	case mqtt.OnConnectAuthenticate:
		return h.hasAuth
	case mqtt.OnACLCheck:
		return h.hasACL
	case mqtt.OnPacketRead:
		return h.hasRead
	case mqtt.OnPublish:
		return h.hasPub
	case mqtt.OnSubscribe:
		return h.hasSub
	}
	return false
}

func hkPpkt(pk packets.Packet) sx.V {
	return sx.L{sx.S(pk.TopicName), sx.B(pk.Payload), sx.N(uint64(pk.FixedHeader.Qos)), sx.Bool(pk.FixedHeader.Retain),
		sx.N(uint64(pk.PacketID))}
}

func hkSpkt(pk packets.Packet) sx.V {
	fs := sx.L{}
	for _, f := range pk.Filters {
		fs = append(fs, sx.L{sx.S(f.Filter), sx.N(uint64(f.Qos))})
	}
	return sx.L{sx.N(uint64(pk.PacketID)), fs}
}

func (a hkAction) apply(pk packets.Packet) (packets.Packet, error) {
	if a.topic != "" {
		pk.TopicName = a.topic
	}
	pk.Payload = append(append([]byte{}, pk.Payload...), a.suffix...)
	switch a.ret {
	case 1:
		pk.FixedHeader.Retain = false
	case 2:
		pk.FixedHeader.Retain = true
	}
	var err error
	switch a.res {
	case 1:
		err = packets.ErrRejectPacket
	case 2:
		err = packets.CodeSuccessIgnore
	case 3:
		err = packets.Code{Code: a.code, Reason: "scripted"}
	case 4:
		err = errors.New("scripted plain error")
	default:
		return pk, nil
	}
	for i := 0; i < a.wrap; i++ { // a hook may wrap the sentinel: the broker must look through with errors.Is / errors.As
		err = fmt.Errorf("blocked by policy %d: %w", i, err)
	}
	return pk, err
}

func (h *scriptHook) OnConnectAuthenticate(cl *mqtt.Client, pk packets.Packet) bool {
	h.log.add(hkCall{kind: 0, hook: h.id, cl: cl.ID})
	for _, a := range h.auth {
		if a == cl.ID {
			return true
		}
	}
	return false
}

func (h *scriptHook) OnACLCheck(cl *mqtt.Client, topic string, write bool) bool {
	h.log.add(hkCall{kind: 1, hook: h.id, cl: cl.ID, topic: topic, write: write})
	for _, k := range h.acl {
		if k.cl == cl.ID && k.topic == topic && k.write == write {
			return true
		}
	}
	return false
}

func (h *scriptHook) OnPacketRead(cl *mqtt.Client, pk packets.Packet) (packets.Packet, error) {
	if pk.FixedHeader.Type != packets.Publish {
		return pk, nil
	}
	h.log.add(hkCall{kind: 2, hook: h.id, cl: cl.ID, pk: hkPpkt(pk)})
	if a, ok := h.read[pk.TopicName]; ok {
		return a.apply(pk)
	}
	return pk, nil
}

func (h *scriptHook) OnPublish(cl *mqtt.Client, pk packets.Packet) (packets.Packet, error) {
	h.log.add(hkCall{kind: 3, hook: h.id, cl: cl.ID, pk: hkPpkt(pk)})
	if a, ok := h.pub[pk.TopicName]; ok {
		return a.apply(pk)
	}
	return pk, nil
}

func (h *scriptHook) OnSubscribe(cl *mqtt.Client, pk packets.Packet) packets.Packet {
	h.log.add(hkCall{kind: 4, hook: h.id, cl: cl.ID, pk: hkSpkt(pk)})
	fs := make(packets.Subscriptions, len(pk.Filters))
	copy(fs, pk.Filters)
	for i := range fs {
		if r, ok := h.sub[fs[i].Filter]; ok {
			fs[i].Filter = r.filter
			fs[i].Qos = r.qos
		}
	}
	pk.Filters = fs
	return pk
}

func hkActionsSx(m map[string]hkAction, keys []string) sx.V {
	l := sx.L{}
	for _, k := range keys {
		a := m[k]
		l = append(l, sx.L{sx.S(k), sx.S(a.topic), sx.B(a.suffix), sx.N(uint64(a.ret)), sx.N(uint64(a.res)), sx.N(uint64(a.code)), sx.N(uint64(a.wrap))})
	}
	return l
}

func hkOpt(provided bool, v sx.V) sx.V {
	if !provided {
		return sx.L{}
	}
	return sx.L{v}
}

func (h *scriptHook) sx() sx.V {
	au := sx.L{}
	for _, a := range h.auth {
		au = append(au, sx.S(a))
	}
	ac := sx.L{}
	for _, k := range h.acl {
		ac = append(ac, sx.L{sx.S(k.cl), sx.S(k.topic), sx.Bool(k.write)})
	}
	sb := sx.L{}
	for _, k := range h.subK {
		sb = append(sb, sx.L{sx.S(k), sx.S(h.sub[k].filter), sx.N(uint64(h.sub[k].qos))})
	}
	return sx.L{sx.N(uint64(h.id)), hkOpt(h.hasAuth, au), hkOpt(h.hasACL, ac), hkOpt(h.hasRead, hkActionsSx(h.read, h.readK)),
		hkOpt(h.hasPub, hkActionsSx(h.pub, h.pubK)), hkOpt(h.hasSub, sb)}
}

var (
	hkTopics   = []string{"t/a", "t/b", "t/c", "t/a", "t/b", "$SYS/t"}
	hkAllTopic = []string{"t/a", "t/b", "t/c", "t/z"}
	hkQFilters = []string{"q/a", "q/b", "q/+/c", "q/bad#", "q/deny", "q/#"}
	hkCodes    = []byte{0x99, 0x87, 0x97, 0x80, 0x10, 0x83}
)

func hkRandAction(rng *rand.Rand, read bool) hkAction {
	a := hkAction{}
	if rng.Intn(3) == 0 {
		a.topic = hkAllTopic[rng.Intn(len(hkAllTopic))]
	}
	if rng.Intn(2) == 0 {
		a.suffix = []byte{byte(0xa0 + rng.Intn(16))}
	}
	a.ret = []int{0, 0, 0, 1, 2}[rng.Intn(5)]
	switch k := rng.Intn(10); {
	case k < 4:
		a.res = 0
	case k < 5:
		a.res = 1
	case k < 6:
		a.res = 2
	case k < 9:
		a.res = 3
		a.code = hkCodes[rng.Intn(len(hkCodes))]
	default:
		a.res = 4
	}
	if read && a.res == 2 && rng.Intn(2) == 0 {
		a.res = 0
	}
	if a.res != 0 {
		a.wrap = rng.Intn(3)
	}
	return a
}

func hkRandHook(rng *rand.Rand, id int, lg *hkLog) *scriptHook {
	h := &scriptHook{id: id, log: lg, read: map[string]hkAction{}, pub: map[string]hkAction{}, sub: map[string]hkSubRule{}}
	clients := []string{"p0", "p1", "q"}
	if rng.Intn(3) > 0 {
		h.hasAuth = true
		for _, c := range clients {
			if rng.Intn(2) == 0 {
				h.auth = append(h.auth, c)
			}
		}
	}
	if rng.Intn(4) > 0 {
		h.hasACL = true
		dense := 1 + rng.Intn(3)
		for _, c := range []string{"p0", "p1"} {
			for _, t := range hkAllTopic {
				if rng.Intn(4) < dense {
					h.acl = append(h.acl, hkACLKey{c, t, true})
				}
			}
		}
		for _, f := range hkQFilters {
			if rng.Intn(4) < dense {
				h.acl = append(h.acl, hkACLKey{"q", f, false})
			}
		}
		// sometimes this hook also lets the probe read (the infra hook does anyway)
		if rng.Intn(3) == 0 {
			for _, t := range hkAllTopic {
				if rng.Intn(2) == 0 {
					h.acl = append(h.acl, hkACLKey{"s", t, false})
				}
			}
		}
	}
	if rng.Intn(3) == 0 {
		h.hasRead = true
		for _, t := range hkAllTopic[:3] {
			if rng.Intn(3) == 0 {
				h.read[t] = hkRandAction(rng, true)
				h.readK = append(h.readK, t)
			}
		}
	}
	if rng.Intn(5) > 0 {
		h.hasPub = true
		for _, t := range hkAllTopic {
			if rng.Intn(2) == 0 {
				h.pub[t] = hkRandAction(rng, false)
				h.pubK = append(h.pubK, t)
			}
		}
	}
	if rng.Intn(2) == 0 {
		h.hasSub = true
		for _, f := range hkQFilters {
			if rng.Intn(3) == 0 {
				h.sub[f] = hkSubRule{hkQFilters[rng.Intn(len(hkQFilters))], byte(rng.Intn(3))}
				h.subK = append(h.subK, f)
			}
		}
	}
	return h
}

func hkInfraHook(id int, lg *hkLog) *scriptHook {
	h := &scriptHook{id: id, log: lg, hasAuth: true, auth: []string{"s", "l"}, hasACL: true}
	h.acl = append(h.acl, hkACLKey{"s", "#", false})
	for _, t := range hkAllTopic {
		h.acl = append(h.acl, hkACLKey{"s", t, false}, hkACLKey{"l", t, false})
	}
	return h
}

type hkRun struct {
	b      *broker.B
	lg     *hkLog
	conns  map[string]*broker.Conn
	closed map[int]bool
	ids    map[int]string
	steps  sx.L
	lastEv map[string][]packets.Packet
	pid    map[string]uint16
}

func (r *hkRun) observe(op sx.V) {
	calls := sx.L{}
	for _, c := range r.lg.drain() {
		switch c.kind {
		case 0:
			calls = append(calls, sx.L{sx.N(0), sx.N(uint64(c.hook)), sx.S(c.cl)})
		case 1:
			calls = append(calls, sx.L{sx.N(1), sx.N(uint64(c.hook)), sx.S(c.cl), sx.S(c.topic), sx.Bool(c.write)})
		default:
			calls = append(calls, sx.L{sx.N(uint64(c.kind)), sx.N(uint64(c.hook)), sx.S(c.cl), c.pk})
		}
	}
	evs := sx.L{}
	r.lastEv = map[string][]packets.Packet{}
	for _, o := range r.b.Drain() {
		id := r.ids[o.Conn]
		for _, p := range o.Packets {
			r.lastEv[id] = append(r.lastEv[id], p)
			switch p.FixedHeader.Type {
			case packets.Connack:
				evs = append(evs, sx.L{sx.S(id), sx.L{sx.N(0), sx.Bool(p.ReasonCode == 0)}})
			case packets.Publish:
				evs = append(evs, sx.L{sx.S(id), sx.L{sx.N(1), sx.S(p.TopicName), sx.B(p.Payload), sx.Bool(p.FixedHeader.Retain)}})
			case packets.Puback, packets.Pubrec:
				evs = append(evs, sx.L{sx.S(id), sx.L{sx.N(2), sx.N(uint64(p.FixedHeader.Type)), sx.N(uint64(p.PacketID)), sx.N(uint64(p.ReasonCode))}})
			case packets.Suback:
				evs = append(evs, sx.L{sx.S(id), sx.L{sx.N(3), sx.N(uint64(p.PacketID)), sx.B(p.ReasonCodes)}})
			}
		}
		if (o.Closed || o.Done) && !r.closed[o.Conn] {
			r.closed[o.Conn] = true
			evs = append(evs, sx.L{sx.S(id), sx.L{sx.N(4)}})
			if r.conns[id] != nil && r.conns[id].Idx == o.Conn {
				delete(r.conns, id)
			}
		}
	}
	ret := sx.L{}
	msgs := append(r.b.Srv.Topics.Messages("#"), r.b.Srv.Topics.Messages("$SYS/#")...)
	sort.Slice(msgs, func(i, j int) bool { return msgs[i].TopicName < msgs[j].TopicName })
	for _, m := range msgs {
		ret = append(ret, sx.L{sx.S(m.TopicName), sx.B(m.Payload)})
	}
	subs := sx.L{}
	snap := r.b.Srv.VerifSnapshot()
	for _, c := range snap.Clients {
		for _, s := range c.Subscriptions {
			subs = append(subs, sx.L{sx.S(c.ID), sx.S(s.Filter)})
		}
	}
	r.steps = append(r.steps, sx.L{op, calls, evs, ret, subs})
}

func (r *hkRun) connect(id string, ver byte) {
	c := r.b.Connect("10.0.0.1:1", broker.ConnectPk(id, ver, true))
	r.conns[id] = c
	r.ids[c.Idx] = id
	r.observe(sx.L{sx.N(0), sx.S(id), sx.N(uint64(ver))})
}

func (r *hkRun) publish(id, topic string, payload []byte, qos byte, retain bool) {
	c := r.conns[id]
	pid := uint16(0)
	if qos > 0 {
		r.pid[id]++
		pid = r.pid[id]
	}
	pk := broker.PublishPk(topic, payload, qos, retain, pid)
	if r.b.SendPacket(c, pk) != nil {
		return
	}
	op := sx.L{sx.N(1), sx.S(id), sx.L{sx.S(topic), sx.B(payload), sx.N(uint64(qos)), sx.Bool(retain), sx.N(uint64(pid))}}
	r.observe(op)
	// complete a QoS 2 exchange the broker accepted (not part of the observed step)
	for _, p := range r.lastEv[id] {
		if p.FixedHeader.Type == packets.Pubrec && p.ReasonCode < 0x80 && r.conns[id] == c {
			_ = r.b.SendPacket(c, broker.AckPk(packets.Pubrel, p.PacketID, 0))
			r.b.Drain()
			r.lg.drain()
		}
	}
}

func (r *hkRun) subscribe(id string, subs ...packets.Subscription) {
	c := r.conns[id]
	r.pid[id]++
	pk := broker.SubscribePk(r.pid[id], subs...)
	if r.b.SendPacket(c, pk) != nil {
		return
	}
	pk.ProtocolVersion = c.Version
	r.observe(sx.L{sx.N(2), sx.S(id), hkSpkt(pk)})
}

func engHooks(seed int64, tier string, _ []string, out *sx.Out) {
	rng := rand.New(rand.NewSource(seed))
	histories := 1200
	if tier == "thorough" {
		histories = 30000
	}
	for hi := 0; hi < histories; hi++ {
		lg := &hkLog{}
		n := 1 + rng.Intn(3)
		infraAt := rng.Intn(n + 1)
		var hooks []*scriptHook
		for i := 0; i <= n; i++ {
			if i == infraAt {
				hooks = append(hooks, hkInfraHook(i+1, lg))
			} else {
				hooks = append(hooks, hkRandHook(rng, i+1, lg))
			}
		}
		// exhaustive part: one OnPublish hook with every result x versions x qos (first histories)
		if hi < 18 {
			hooks = []*scriptHook{hkInfraHook(1, lg)}
			h := &scriptHook{id: 2, log: lg, hasAuth: true, auth: []string{"p0", "p1"}, hasACL: true, hasPub: true,
				pub: map[string]hkAction{}, read: map[string]hkAction{}, sub: map[string]hkSubRule{}}
			for _, t := range hkAllTopic {
				h.acl = append(h.acl, hkACLKey{"p0", t, true}, hkACLKey{"p1", t, true})
			}
			res := []hkAction{{res: 1}, {res: 2}, {res: 3, code: 0x99}, {res: 4}, {res: 3, code: 0x10}, {res: 0, suffix: []byte{0xaa}}}
			act := res[hi%6]
			if act.res != 0 {
				act.wrap = hi / 6 // bare, wrapped once, wrapped twice
			}
			h.pub["t/a"] = act
			h.pubK = []string{"t/a"}
			if hi%6 == 0 { // the same rejection also on read (another topic)
				h.hasRead = true
				h.read["t/c"] = hkAction{res: 1, wrap: hi / 6}
				h.readK = []string{"t/c"}
			}
			if hi%2 == 0 {
				hooks = append(hooks, h)
			} else {
				hooks = append([]*scriptHook{h}, hooks...)
			}
		}
		obscure := rng.Intn(4) == 0
		caps := mqtt.NewDefaultServerCapabilities()
		caps.Compatibilities.ObscureNotAuthorized = obscure
		mh := []mqtt.Hook{}
		hsx := sx.L{}
		for _, h := range hooks {
			mh = append(mh, h)
			hsx = append(hsx, h.sx())
		}
		b := broker.New(broker.Opts{Caps: caps, HooksFirst: mh})
		r := &hkRun{b: b, lg: lg, conns: map[string]*broker.Conn{}, closed: map[int]bool{}, ids: map[int]string{},
			pid: map[string]uint16{}}
		seq := byte(0)
		r.connect("s", 4)
		if r.conns["s"] != nil {
			r.subscribe("s", packets.Subscription{Filter: "#", Qos: 0})
		}
		vers := []byte{3, 4, 5, 5}
		if hi < 18 {
			// every version x qos x retain on the scripted topic and on an unscripted one
			for _, ver := range []byte{3, 4, 5} {
				for qos := byte(0); qos < 3; qos++ {
					for _, topic := range []string{"t/a", "t/b", "t/c"} {
						if r.conns["p0"] == nil {
							r.connect("p0", ver)
						}
						if r.conns["p0"] == nil {
							continue
						}
						seq++
						r.publish("p0", topic, []byte{seq}, qos, true)
					}
				}
				if c := r.conns["p0"]; c != nil {
					b.NetClose(c)
					r.observeClose()
				}
			}
		} else {
			ops := 12 + rng.Intn(14)
			for i := 0; i < ops; i++ {
				switch k := rng.Intn(10); {
				case k < 7:
					id := []string{"p0", "p1"}[rng.Intn(2)]
					if r.conns[id] == nil {
						r.connect(id, vers[rng.Intn(len(vers))])
						continue
					}
					seq++
					r.publish(id, hkTopics[rng.Intn(len(hkTopics))], []byte{seq}, byte(rng.Intn(3)), rng.Intn(2) == 0)
				default:
					if r.conns["q"] == nil {
						r.connect("q", vers[rng.Intn(len(vers))])
						continue
					}
					nf := 1 + rng.Intn(2)
					subs := []packets.Subscription{}
					for j := 0; j < nf; j++ {
						subs = append(subs, packets.Subscription{Filter: hkQFilters[rng.Intn(len(hkQFilters))], Qos: byte(rng.Intn(3))})
					}
					r.subscribe("q", subs...)
				}
			}
		}
		// the late subscriber observes what was retained
		r.connect("l", []byte{4, 5}[rng.Intn(2)])
		if r.conns["l"] != nil {
			for _, t := range hkAllTopic {
				r.subscribe("l", packets.Subscription{Filter: t, Qos: 0})
			}
		}
		if b.Hung {
			out.Comment("hung")
			r.steps = append(r.steps, sx.L{sx.L{sx.N(99)}}) // a hang is an observation: the case becomes unparsable (code 9)
		}
		out.Case(sx.L{sx.Bool(obscure), hsx, r.steps})
		b.Shutdown()
	}
}

// observeClose drops what a client-side network close produced (not an operation of the model:
// the publisher has a clean session and no will); the model is told through a connect of the same id.
func (r *hkRun) observeClose() {
	r.lg.drain()
	for _, o := range r.b.Drain() {
		if o.Closed || o.Done {
			r.closed[o.Conn] = true
			id := r.ids[o.Conn]
			if r.conns[id] != nil && r.conns[id].Idx == o.Conn {
				delete(r.conns, id)
			}
		}
	}
}
