package main

// C39 — WebSocket transport byte-transparency (listeners/websocket.go).  A real *mqtt.Server with
// a TCP and a WebSocket listener on loopback; the same MQTT session is sent over TCP and, cut
// into WebSocket messages, over the WebSocket listener (gorilla/websocket as client).  One case:
//   (msgs tcp_in out_ws out_tcp obs_ws obs_tcp ended_ws)
//     msgs    = ((type payload) ...)   type 2 binary, 1 text, 9 ping (control, never surfaced)
//     tcp_in  = the bytes sent over TCP for reference (the binary payloads before the first text)
//     out_ws  = ((type payload) ...)   messages received by the WebSocket client
//     out_tcp = bytes received by the TCP client
//     obs_*   = bytes forwarded to an observing subscriber (TCP) during the ws / tcp run
//     ended_ws = 1 if the broker ended the WebSocket connection before the client closed it

import (
	"fmt"
	"io"
	"log/slog"
	"math/rand"
	"net"
	"os"
	"runtime"
	"sync"
	"time"

	"github.com/gorilla/websocket"
	mqtt "github.com/mochi-mqtt/server/v2"
	"github.com/mochi-mqtt/server/v2/hooks/auth"
	"github.com/mochi-mqtt/server/v2/listeners"

	"verifharness/sx"
)

func init() { engines["ws"] = engWs }

type wsEnv struct {
	srv     *mqtt.Server
	tcpAddr string
	wsURL   string
}

func wsSetup() (*wsEnv, error) {
	var lastErr error
	for attempt := 0; attempt < 8; attempt++ {
		probe, err := net.Listen("tcp", "127.0.0.1:0")
		if err != nil {
			return nil, err
		}
		port := probe.Addr().(*net.TCPAddr).Port
		_ = probe.Close()
		srv := mqtt.New(&mqtt.Options{Logger: slog.New(slog.NewTextHandler(io.Discard, nil))})
		_ = srv.AddHook(new(auth.AllowHook), nil)
		tcp := listeners.NewTCP(listeners.Config{ID: "t1", Address: "127.0.0.1:0"})
		if err := srv.AddListener(tcp); err != nil {
			return nil, err
		}
		wsl := listeners.NewWebsocket(listeners.Config{ID: "ws1", Address: fmt.Sprintf("127.0.0.1:%d", port)})
		if err := srv.AddListener(wsl); err != nil {
			return nil, err
		}
		if err := srv.Serve(); err != nil {
			return nil, err
		}
		env := &wsEnv{srv: srv, tcpAddr: tcp.Address(), wsURL: fmt.Sprintf("ws://127.0.0.1:%d/", port)}
		ok := false
		for i := 0; i < 100 && !ok; i++ {
			d := websocket.Dialer{Subprotocols: []string{"mqtt"}, HandshakeTimeout: time.Second}
			c, _, err := d.Dial(env.wsURL, nil)
			if err == nil {
				_ = c.Close()
				ok = true
			} else {
				lastErr = err
				time.Sleep(20 * time.Millisecond)
			}
		}
		if ok {
			return env, nil
		}
		_ = srv.Close()
	}
	return nil, fmt.Errorf("websocket listener did not come up: %v", lastErr)
}

// ---- MQTT packets (hand-encoded; the harness does not depend on mochi's encoder) ----

type wsPkt struct {
	b       []byte
	replies int
	publish bool
}

func wsVarint(n int) []byte {
	var out []byte
	for {
		d := byte(n % 128)
		n /= 128
		if n > 0 {
			d |= 0x80
		}
		out = append(out, d)
		if n == 0 {
			return out
		}
	}
}

func wsMk(first byte, body []byte) []byte {
	return append(append([]byte{first}, wsVarint(len(body))...), body...)
}

func wsStr(s string) []byte { return append([]byte{byte(len(s) >> 8), byte(len(s))}, s...) }

func wsConnect(v byte, id string) []byte {
	b := append(wsStr("MQTT"), v, 2, 0, 0)
	if v == 5 {
		b = append(b, 0)
	}
	return wsMk(0x10, append(b, wsStr(id)...))
}

func wsSession(rng *rand.Rand, v byte, prefix string, n int, small bool) []wsPkt {
	props := []byte{}
	if v == 5 {
		props = []byte{0}
	}
	pks := []wsPkt{{b: wsConnect(v, "snd"+prefix), replies: 1}}
	pid := 0
	var pendingRel []int
	for i := 0; i < n; i++ {
		switch k := rng.Intn(10); {
		case k == 0: // SUBSCRIBE (filters that never match the publishes below)
			pid++
			b := append([]byte{byte(pid >> 8), byte(pid)}, props...)
			for j := 0; j <= rng.Intn(3); j++ {
				b = append(b, wsStr(fmt.Sprintf("s39/%s/%d/#", prefix, rng.Intn(4)))...)
				b = append(b, byte(rng.Intn(3)))
			}
			pks = append(pks, wsPkt{b: wsMk(0x82, b), replies: 1})
		case k == 1: // UNSUBSCRIBE
			pid++
			b := append([]byte{byte(pid >> 8), byte(pid)}, props...)
			b = append(b, wsStr(fmt.Sprintf("s39/%s/%d/#", prefix, rng.Intn(4)))...)
			pks = append(pks, wsPkt{b: wsMk(0xa2, b), replies: 1})
		case k == 2: // PINGREQ
			pks = append(pks, wsPkt{b: []byte{0xc0, 0}, replies: 1})
		case k == 3 && len(pendingRel) > 0: // PUBREL
			p := pendingRel[0]
			pendingRel = pendingRel[1:]
			b := []byte{byte(p >> 8), byte(p)}
			pks = append(pks, wsPkt{b: wsMk(0x62, b), replies: 1})
		default: // PUBLISH qos 0..2, payload sizes from tiny to beyond the broker's 2 KiB read buffer
			q := rng.Intn(3)
			var size int
			switch rng.Intn(6) {
			case 0:
				size = 0
			case 1:
				size = 100 + rng.Intn(200) // remaining length needs two bytes
			case 2:
				size = 2000 + rng.Intn(3000)
			default:
				size = rng.Intn(40)
			}
			if small && size > 300 { // one byte per message: keep the number of messages moderate
				size = 100 + rng.Intn(200)
			}
			b := wsStr(fmt.Sprintf("c39/%s/%c", prefix, 'a'+rune(rng.Intn(3))))
			replies := 0
			if q > 0 {
				pid++
				b = append(b, byte(pid>>8), byte(pid))
				replies = 1
				if q == 2 {
					pendingRel = append(pendingRel, pid)
				}
			}
			b = append(b, props...)
			pl := make([]byte, size)
			rng.Read(pl)
			b = append(b, pl...)
			pks = append(pks, wsPkt{b: wsMk(0x30|byte(q<<1), b), replies: replies, publish: true})
		}
	}
	return pks
}

// wsFramer counts complete MQTT packets in a byte stream.
type wsFramer struct {
	buf      []byte
	packets  int
	publishs int
}

func (f *wsFramer) feed(b []byte) {
	f.buf = append(f.buf, b...)
	for {
		if len(f.buf) < 2 {
			return
		}
		rl, mult, i := 0, 1, 1
		for {
			if i >= len(f.buf) {
				return
			}
			d := f.buf[i]
			rl += int(d&0x7f) * mult
			mult *= 128
			i++
			if d&0x80 == 0 {
				break
			}
			if i > 5 {
				return
			}
		}
		if len(f.buf) < i+rl {
			return
		}
		if f.buf[0]>>4 == 3 {
			f.publishs++
		}
		f.packets++
		f.buf = f.buf[i+rl:]
	}
}

// expected replies / publishes for the complete packets contained in a prefix of the stream
func wsExpect(pks []wsPkt, nbytes int) (replies, pubs int) {
	off := 0
	for _, p := range pks {
		off += len(p.b)
		if off > nbytes {
			break
		}
		replies += p.replies
		if p.publish {
			pubs++
		}
	}
	return
}

// ---- observer: a TCP subscriber to c39/<prefix>/# at QoS 0 ----
type wsObserver struct {
	c    net.Conn
	mu   sync.Mutex
	fr   wsFramer
	data []byte
	done chan struct{}
}

func wsObserve(env *wsEnv, prefix, tagc string) (*wsObserver, error) {
	c, err := net.Dial("tcp", env.tcpAddr)
	if err != nil {
		return nil, err
	}
	sub := append([]byte{0, 1}, wsStr("c39/"+prefix+"/#")...)
	sub = append(sub, 0)
	if _, err := c.Write(append(wsConnect(4, "obs"+tagc+prefix), wsMk(0x82, sub)...)); err != nil {
		return nil, err
	}
	// CONNACK (4 bytes) + SUBACK (5 bytes)
	hdr := make([]byte, 9)
	_ = c.SetReadDeadline(time.Now().Add(3 * time.Second))
	if _, err := io.ReadFull(c, hdr); err != nil {
		_ = c.Close()
		return nil, err
	}
	_ = c.SetReadDeadline(time.Time{})
	o := &wsObserver{c: c, done: make(chan struct{})}
	go func() {
		defer close(o.done)
		buf := make([]byte, 8192)
		for {
			n, err := c.Read(buf)
			o.mu.Lock()
			o.data = append(o.data, buf[:n]...)
			o.fr.feed(buf[:n])
			o.mu.Unlock()
			if err != nil {
				return
			}
		}
	}()
	return o, nil
}

func (o *wsObserver) finish(pubs int, timeout time.Duration) []byte {
	dl := time.Now().Add(timeout)
	for time.Now().Before(dl) {
		o.mu.Lock()
		got := o.fr.publishs
		o.mu.Unlock()
		if got >= pubs {
			break
		}
		time.Sleep(time.Millisecond)
	}
	if pubs == 0 {
		time.Sleep(5 * time.Millisecond)
	}
	_ = o.c.Close()
	<-o.done
	return o.data
}

// ---- the two transports ----
func wsSlack(nbytes int) time.Duration {
	return 3*time.Second + time.Duration(nbytes/50000)*time.Second
}

func wsRunTCP(env *wsEnv, rng *rand.Rand, in []byte, replies int, beforeClose func()) ([]byte, error) {
	c, err := net.Dial("tcp", env.tcpAddr)
	if err != nil {
		return nil, err
	}
	defer c.Close()
	go func() {
		rest := in
		for len(rest) > 0 {
			n := len(rest)
			if rng.Intn(3) == 0 {
				n = 1 + rng.Intn(len(rest))
			}
			if _, err := c.Write(rest[:n]); err != nil {
				return
			}
			rest = rest[n:]
		}
	}()
	var out []byte
	fr := wsFramer{}
	buf := make([]byte, 8192)
	_ = c.SetReadDeadline(time.Now().Add(wsSlack(len(in))))
	for fr.packets < replies {
		n, err := c.Read(buf)
		out = append(out, buf[:n]...)
		fr.feed(buf[:n])
		if err != nil {
			break
		}
	}
	beforeClose() // the observer collects what was forwarded while the sender is still connected
	return out, nil
}

type wsMsg struct {
	typ int
	pl  []byte
}

// wbuf = the client's write buffer: a message longer than it leaves as continuation frames of that size
// (0 = gorilla's default, 4096).
func wsRunWS(env *wsEnv, msgs []wsMsg, wbuf int, replies int, expectEnd bool, beforeClose func()) (out []wsMsg, ended bool, err error) {
	d := websocket.Dialer{Subprotocols: []string{"mqtt"}, HandshakeTimeout: 2 * time.Second, WriteBufferSize: wbuf}
	total := 0
	for _, m := range msgs {
		total += len(m.pl)
	}
	c, _, err := d.Dial(env.wsURL, nil)
	if err != nil {
		return nil, false, err
	}
	defer c.Close()
	var mu sync.Mutex
	fr := wsFramer{}
	endedCh := make(chan struct{})
	go func() {
		defer close(endedCh)
		for {
			t, p, err := c.ReadMessage()
			if err != nil {
				return
			}
			mu.Lock()
			out = append(out, wsMsg{t, p})
			fr.feed(p)
			mu.Unlock()
		}
	}()
	for _, m := range msgs {
		var werr error
		switch m.typ {
		case 9:
			werr = c.WriteControl(websocket.PingMessage, m.pl, time.Now().Add(2*time.Second))
		default:
			_ = c.SetWriteDeadline(time.Now().Add(wsSlack(len(m.pl))))
			werr = c.WriteMessage(m.typ, m.pl)
		}
		if werr != nil {
			break // the broker has gone away; the reader goroutine reports it
		}
	}
	dl := time.Now().Add(wsSlack(total))
	for time.Now().Before(dl) {
		mu.Lock()
		got := fr.packets
		mu.Unlock()
		isEnded := false
		select {
		case <-endedCh:
			isEnded = true
		default:
		}
		if isEnded || (got >= replies && !expectEnd) {
			break
		}
		time.Sleep(time.Millisecond)
	}
	beforeClose()
	select {
	case <-endedCh:
		ended = true
	default:
	}
	_ = c.Close()
	<-endedCh
	mu.Lock()
	defer mu.Unlock()
	return out, ended, nil
}

// ---- segmentation ----
func wsSegment(rng *rand.Rand, pks []wsPkt, mode int) []wsMsg {
	var stream []byte
	for _, p := range pks {
		stream = append(stream, p.b...)
	}
	var msgs []wsMsg
	empties := func(k int) {
		for i := 0; i < k; i++ {
			msgs = append(msgs, wsMsg{2, []byte{}})
		}
	}
	switch mode {
	case 0: // one packet per message
		for _, p := range pks {
			msgs = append(msgs, wsMsg{2, p.b})
		}
	case 1: // everything in one message
		msgs = append(msgs, wsMsg{2, stream})
	case 2: // one byte per message
		for _, b := range stream {
			msgs = append(msgs, wsMsg{2, []byte{b}})
		}
	default: // random cut points, sizes 1..N; empty messages and pings sprinkled in
		maxSeg := []int{2, 3, 8, 64, 700, 5000}[rng.Intn(6)]
		rest := stream
		for len(rest) > 0 {
			n := 1 + rng.Intn(maxSeg)
			if n > len(rest) {
				n = len(rest)
			}
			msgs = append(msgs, wsMsg{2, rest[:n]})
			rest = rest[n:]
			if mode >= 4 {
				switch rng.Intn(12) {
				case 0:
					empties(1 + rng.Intn(3))
				case 1:
					msgs = append(msgs, wsMsg{9, []byte("hb")})
				}
			}
		}
		if mode == 5 { // a long run of empty messages at a random message boundary
			at := rng.Intn(len(msgs) + 1)
			run := make([]wsMsg, 0, 130)
			for i := 0; i < 99+rng.Intn(60); i++ {
				run = append(run, wsMsg{2, []byte{}})
			}
			msgs = append(msgs[:at], append(run, msgs[at:]...)...)
		}
	}
	return msgs
}

func wsMsgList(ms []wsMsg) sx.L {
	l := make(sx.L, 0, len(ms))
	for _, m := range ms {
		l = append(l, sx.L{sx.N(m.typ), sx.B(m.pl)})
	}
	return l
}

func wsCase(env *wsEnv, rng *rand.Rand, idx int, mode int, withText bool) (sx.V, error) {
	prefix := fmt.Sprintf("%05x", idx)
	v := byte(4 + rng.Intn(2))
	pks := wsSession(rng, v, prefix, 2+rng.Intn(14), mode == 2)
	msgs := wsSegment(rng, pks, mode)
	if withText {
		at := 1 + rng.Intn(len(msgs))
		txt := wsMsg{1, []byte("not mqtt")}
		if rng.Intn(2) == 0 {
			txt = wsMsg{1, []byte{0xc0, 0}} // a text message whose content is a valid PINGREQ must end the connection too
		}
		if rng.Intn(2) == 0 {
			msgs = append(msgs[:at:at], txt) // nothing is sent after the text message
		} else {
			msgs = append(msgs[:at:at], append([]wsMsg{txt}, msgs[at:]...)...)
		}
	}
	wbuf := 0
	if rng.Intn(3) == 0 {
		wbuf = 64
	}
	return wsRunCase(env, rng, prefix, pks, msgs, withText, wbuf)
}

// wsBigSession: a session of at least `total` bytes — one PUBLISH with a payload of that size, or
// many 1.5..2.5 KiB PUBLISH packets (and the odd PINGREQ) — so that a single websocket message can
// carry more than 64 KiB of the MQTT stream.
func wsBigSession(rng *rand.Rand, v byte, prefix string, total int, batched bool) []wsPkt {
	props := []byte{}
	if v == 5 {
		props = []byte{0}
	}
	pks := []wsPkt{{b: wsConnect(v, "snd"+prefix), replies: 1}}
	pid, size := 0, len(pks[0].b)
	publish := func(q, n int) {
		b := wsStr(fmt.Sprintf("c39/%s/%c", prefix, 'a'+rune(rng.Intn(3))))
		replies := 0
		if q > 0 {
			pid++
			b = append(b, byte(pid>>8), byte(pid))
			replies = 1
		}
		b = append(b, props...)
		pl := make([]byte, n)
		rng.Read(pl)
		p := wsPkt{b: wsMk(0x30|byte(q<<1), append(b, pl...)), replies: replies, publish: true}
		pks = append(pks, p)
		size += len(p.b)
	}
	if batched {
		for size < total+64 {
			if rng.Intn(10) == 0 {
				pks = append(pks, wsPkt{b: []byte{0xc0, 0}, replies: 1})
				size += 2
			} else {
				publish(rng.Intn(2), 1500+rng.Intn(1000))
			}
		}
	} else {
		publish(1, total)
		publish(0, 40+rng.Intn(60))
	}
	pks = append(pks, wsPkt{b: []byte{0xc0, 0}, replies: 1})
	return pks
}

// wsBigSegment: a few bytes first (or nothing), then ONE message of exactly `size` bytes, the rest
// in pieces of up to 5000 bytes; whole = the entire stream as one message.
func wsBigSegment(rng *rand.Rand, pks []wsPkt, size int, whole bool) []wsMsg {
	var stream []byte
	for _, p := range pks {
		stream = append(stream, p.b...)
	}
	if whole || len(stream) < size {
		return []wsMsg{{2, stream}}
	}
	var msgs []wsMsg
	if k := rng.Intn(3) * (1 + rng.Intn(40)); k > 0 && len(stream) >= k+size {
		msgs = append(msgs, wsMsg{2, stream[:k]})
		stream = stream[k:]
	}
	msgs = append(msgs, wsMsg{2, stream[:size]})
	rest := stream[size:]
	for len(rest) > 0 {
		n := 1 + rng.Intn(5000)
		if n > len(rest) {
			n = len(rest)
		}
		msgs = append(msgs, wsMsg{2, rest[:n]})
		rest = rest[n:]
	}
	return msgs
}

// wsAlignedTextCase: a text message that directly follows a binary message whose last byte the
// broker consumed exactly at the end of a read (the cached message reader then answers io.EOF with 0
// bytes and wsConn.read moves on to the next message itself): variant 0 an empty binary message,
// 1 a first message of exactly 2048 bytes (= the read buffer, filled from empty), 2 one whole packet
// of more than 2 x 2048 bytes as one message (bufio reads its tail into an exactly sized slice),
// 3 messages of 2048 bytes throughout.  The text message carries a valid MQTT packet (PINGREQ, or a
// PUBLISH to the observed topic), so a broker that lets it through answers / forwards it.
func wsAlignedTextCase(env *wsEnv, rng *rand.Rand, idx int, variant int) (sx.V, error) {
	prefix := fmt.Sprintf("%05x", idx)
	v := byte(4 + rng.Intn(2))
	props := []byte{}
	if v == 5 {
		props = []byte{0}
	}
	topic := wsStr(fmt.Sprintf("c39/%s/a", prefix))
	publishLen := func(total int) wsPkt { // a QoS 0 PUBLISH of exactly `total` bytes (129 <= total-3 < 16384)
		n := total - 3 - len(topic) - len(props)
		pl := make([]byte, n)
		rng.Read(pl)
		return wsPkt{b: wsMk(0x30, append(append(append([]byte{}, topic...), props...), pl...)), publish: true}
	}
	conn := wsPkt{b: wsConnect(v, "snd"+prefix), replies: 1}
	ping := wsPkt{b: []byte{0xc0, 0}, replies: 1}
	var pks []wsPkt
	var msgs []wsMsg
	switch variant {
	case 0:
		pks = []wsPkt{conn, publishLen(200 + rng.Intn(300)), ping}
		msgs = []wsMsg{{2, pks[0].b}, {2, append(append([]byte{}, pks[1].b...), pks[2].b...)}, {2, []byte{}}}
	case 1:
		pks = []wsPkt{conn, publishLen(2048 - len(conn.b))}
		msgs = []wsMsg{{2, append(append([]byte{}, pks[0].b...), pks[1].b...)}}
	case 2:
		pks = []wsPkt{conn, publishLen(4200 + rng.Intn(3000))}
		msgs = []wsMsg{{2, pks[0].b}, {2, pks[1].b}}
	default:
		pks = []wsPkt{conn, publishLen(2048 - len(conn.b)), publishLen(2048), publishLen(2048)}
		msgs = []wsMsg{{2, append(append([]byte{}, pks[0].b...), pks[1].b...)}, {2, pks[2].b}, {2, pks[3].b}}
	}
	txt := []byte{0xc0, 0}
	if rng.Intn(2) == 0 {
		txt = wsMk(0x30, append(append(append([]byte{}, topic...), props...), 'X'))
	}
	msgs = append(msgs, wsMsg{1, txt})
	return wsRunCase(env, rng, prefix, pks, msgs, true, 0)
}

func wsBigCase(env *wsEnv, rng *rand.Rand, idx int, size int, batched, whole bool, wbuf int) (sx.V, error) {
	prefix := fmt.Sprintf("%05x", idx)
	pks := wsBigSession(rng, byte(4+rng.Intn(2)), prefix, size, batched)
	msgs := wsBigSegment(rng, pks, size, whole)
	return wsRunCase(env, rng, prefix, pks, msgs, false, wbuf)
}

func wsRunCase(env *wsEnv, rng *rand.Rand, prefix string, pks []wsPkt, msgs []wsMsg, withText bool, wbuf int) (sx.V, error) {
	var tcpIn []byte
	for _, m := range msgs {
		if m.typ == 1 {
			break
		}
		if m.typ == 2 {
			tcpIn = append(tcpIn, m.pl...)
		}
	}
	replies, pubs := wsExpect(pks, len(tcpIn))
	obsWait := wsSlack(len(tcpIn)) - time.Second

	// reference run over TCP
	obsT, err := wsObserve(env, prefix, "t")
	if err != nil {
		return nil, err
	}
	var obsTCP, obsWS []byte
	outTCP, err := wsRunTCP(env, rng, tcpIn, replies, func() { obsTCP = obsT.finish(pubs, obsWait) })
	if err != nil {
		return nil, err
	}

	// the same bytes over the websocket listener
	obsW, err := wsObserve(env, prefix, "w")
	if err != nil {
		return nil, err
	}
	outWS, ended, err := wsRunWS(env, msgs, wbuf, replies, withText, func() { obsWS = obsW.finish(pubs, obsWait) })
	if err != nil {
		return nil, err
	}

	return sx.L{wsMsgList(msgs), sx.B(tcpIn), wsMsgList(outWS), sx.B(outTCP), sx.B(obsWS), sx.B(obsTCP), sx.Bool(ended)}, nil
}

// wsPoison: a websocket connection that ENDS while the broker is partway through a binary message.
// One message: CONNECT, DISCONNECT, a filler PUBLISH up to byte `cut` (2048 = the broker's read
// buffer: the first wsConn.Read stops exactly there), then a tail the broker never gets to because
// it closes the connection on the DISCONNECT.  tail variants: 0 garbage, 1 whole PUBLISH packets to
// the next case's observed topic, 2 a foreign CONNECT followed by such PUBLISHes.
func wsPoison(env *wsEnv, rng *rand.Rand, name, victimPrefix string, variant int) ([]wsMsg, error) {
	blob := append(wsConnect(4, name), 0xe0, 0)
	cut := 2048
	if variant == 0 && rng.Intn(2) == 0 {
		cut = 2048 + rng.Intn(40) - 20
	}
	rl := cut - len(blob) - 3
	fill := append(wsStr("c39/fill"), make([]byte, rl-10)...)
	blob = append(blob, wsMk(0x30, fill)...)
	pub := func() []byte {
		b := wsStr(fmt.Sprintf("c39/%s/%c", victimPrefix, 'a'+rune(rng.Intn(3))))
		return wsMk(0x30, append(b, []byte("foreign")...))
	}
	switch variant {
	case 0:
		g := make([]byte, 200+rng.Intn(1200))
		rng.Read(g)
		blob = append(blob, g...)
	case 1:
		for i := 0; i < 4+rng.Intn(40); i++ {
			blob = append(blob, pub()...)
		}
	default:
		blob = append(blob, wsConnect(4, "foreign"+name)...)
		for i := 0; i < 4+rng.Intn(40); i++ {
			blob = append(blob, pub()...)
		}
	}
	d := websocket.Dialer{Subprotocols: []string{"mqtt"}, HandshakeTimeout: 2 * time.Second, WriteBufferSize: len(blob) + 64}
	c, _, err := d.Dial(env.wsURL, nil)
	if err != nil {
		return nil, err
	}
	msgs := []wsMsg{{2, blob}}
	if err := c.WriteMessage(websocket.BinaryMessage, blob); err == nil {
		_ = c.SetReadDeadline(time.Now().Add(2 * time.Second))
		for { // CONNACK, then the broker ends the connection
			if _, _, err := c.ReadMessage(); err != nil {
				break
			}
		}
	}
	_ = c.Close()
	time.Sleep(3 * time.Millisecond) // let the listener's handler return
	return msgs, nil
}

// wsAfterPoison: k connections ending mid-message, then an ordinary session compared with TCP as
// always.  case = (6 history msgs tcp_in out_ws out_tcp obs_ws obs_tcp ended); history = the
// messages of the earlier connections.  oneP: the whole history runs with GOMAXPROCS(1), so that a
// per-P cache between connections (sync.Pool) would hand the next connection what the last left.
func wsAfterPoison(env *wsEnv, rng *rand.Rand, idx, k, variant, mode int, oneP bool) (sx.V, error) {
	if oneP {
		defer runtime.GOMAXPROCS(runtime.GOMAXPROCS(1))
	}
	victim := fmt.Sprintf("%05x", idx)
	hist := sx.L{}
	for i := 0; i < k; i++ {
		m, err := wsPoison(env, rng, fmt.Sprintf("psn%s%d", victim, i), victim, variant)
		if err != nil {
			return nil, err
		}
		hist = append(hist, wsMsgList(m))
	}
	c, err := wsCase(env, rng, idx, mode, false)
	if err != nil {
		return nil, err
	}
	return append(sx.L{sx.N(6), hist}, c.(sx.L)...), nil
}

func engWs(seed int64, tier string, _ []string, out *sx.Out) {
	rng := rand.New(rand.NewSource(seed))
	env, err := wsSetup()
	if err != nil {
		fmt.Fprintln(os.Stderr, "ws setup:", err)
		os.Exit(3)
	}
	defer env.srv.Close()
	n := 120
	if tier == "thorough" {
		n = 3000
	}
	idx := 0
	emit := func(mode int, text bool) {
		idx++
		c, err := wsCase(env, rng, idx, mode, text)
		if err != nil {
			fmt.Fprintln(os.Stderr, "ws case:", err)
			os.Exit(3)
		}
		out.Case(c)
	}
	for mode := 0; mode <= 5; mode++ { // every segmentation mode at least twice, with and without text
		emit(mode, false)
		emit(mode, false)
		if mode != 5 {
			emit(mode, true)
		}
	}
	// large websocket messages: sizes around 64 KiB and beyond, one big PUBLISH or many batched
	// packets, unfragmented (write buffer larger than the message) or as continuation frames
	big := func(size int, batched, whole bool, wbuf int) {
		idx++
		c, err := wsBigCase(env, rng, idx, size, batched, whole, wbuf)
		if err != nil {
			fmt.Fprintln(os.Stderr, "ws big case:", err)
			os.Exit(3)
		}
		out.Case(c)
	}
	// histories of several connections: earlier ones end mid-message, the next one must be unaffected
	poisoned := func(k, variant, mode int, oneP bool) {
		idx++
		c, err := wsAfterPoison(env, rng, idx, k, variant, mode, oneP)
		if err != nil {
			fmt.Fprintln(os.Stderr, "ws history case:", err)
			os.Exit(3)
		}
		out.Case(c)
	}
	for variant := 0; variant < 3; variant++ {
		poisoned(3, variant, []int{0, 3, 4}[variant], true)
		poisoned(4+variant, variant, 1, false)
	}
	if tier == "thorough" {
		for i := 0; i < 60; i++ {
			poisoned(1+rng.Intn(6), rng.Intn(3), []int{0, 1, 3, 4}[rng.Intn(4)], i%2 == 0)
		}
	}
	for variant := 0; variant < 4; variant++ { // text message right after a read that ended on a message boundary
		for rep := 0; rep < 2; rep++ {
			idx++
			c, err := wsAlignedTextCase(env, rng, idx, variant)
			if err != nil {
				fmt.Fprintln(os.Stderr, "ws aligned-text case:", err)
				os.Exit(3)
			}
			out.Case(c)
		}
	}
	big(65535, false, false, 65535+1024)
	big(65536, true, false, 0)
	big(65537, false, false, 1000)
	big(65537, true, false, 65537+1024)
	big(131072, true, false, 70000)
	big(200000, false, true, 0)
	for i := 0; i < n; i++ {
		mode := []int{0, 1, 2, 3, 3, 3, 4, 4, 4, 4, 5}[rng.Intn(11)]
		emit(mode, mode != 5 && rng.Intn(5) == 0)
	}
	if tier == "thorough" {
		sizes := []int{65535, 65536, 65537, 65536 + 4096, 131071, 131072, 131073, 1 << 20, 1<<20 + 1}
		for i := 0; i < 45; i++ {
			size := 60000 + rng.Intn(260000)
			if i < 2*len(sizes) {
				size = sizes[i%len(sizes)]
			}
			wbufs := []int{0, 1000, 4096, 70000, size + 1024, size + 1024}
			if size <= 131073 {
				wbufs = append(wbufs, 64)
			}
			big(size, rng.Intn(2) == 0, rng.Intn(4) == 0, wbufs[rng.Intn(len(wbufs))])
		}
	}
}
