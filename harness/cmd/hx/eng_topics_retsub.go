package main

// topics_retsub (C02, broker level): which retained messages a new subscription actually receives when some
// of them cannot be delivered to this subscriber — read access denied for single topics (ACL hook), or a
// QoS 1/2 retained message while the subscriber's in-flight window (Capabilities.MaximumInflight, or the packet
// id space) is full.  The real broker is driven over in-memory connections; the verdict is computed by the Coq
// engine Topics.RetSub.retsub_engine: exactly the matching retained messages the subscriber is entitled to and
// able to take, each once, whatever the scan order.
//
// case = (6 ops denied (window maxpid prefill subqos version) filter qos-table obs)
//   ops       = ((4 topic payload) ...)            retained publishes, in order
//   qos-table = ((topic qos) ...)                  QoS of the retained publish per topic
//   obs       = ((topic payload qos retainflag) ...)  PUBLISH packets written to the subscriber after SUBSCRIBE

import (
	"math/rand"
	"sort"
	"strings"

	mqtt "github.com/mochi-mqtt/server/v2"
	"github.com/mochi-mqtt/server/v2/packets"

	"verifharness/broker"
	"verifharness/sx"
)

func init() { engines["topics_retsub"] = engTopicsRetSub }

type retsubCase struct {
	topics  []string
	qos     []byte
	denied  map[string]bool
	window  int // Capabilities.MaximumInflight
	maxPid  int // 0 = default 65535
	prefill int
	subQos  byte
	version byte
	filter  string
}

func runRetSub(c retsubCase, out *sx.Out) {
	caps := mqtt.NewDefaultServerCapabilities()
	caps.MaximumInflight = uint16(c.window)
	b := broker.New(broker.Opts{Caps: caps, Auth: broker.AllowAuth, MaxPacketID: uint32(c.maxPid),
		ACL: func(_ *mqtt.Client, topic string, write bool) bool { return write || !c.denied[topic] }})
	defer b.Shutdown()
	pub := b.Connect("10.0.0.1:1", broker.ConnectPk("pub", 4, true))
	ops := sx.L{}
	qt := sx.L{}
	pid := uint16(1)
	for i, t := range c.topics {
		pl := "m" + string(rune('a'+i%26))
		b.SendPacket(pub, broker.PublishPk(t, []byte(pl), c.qos[i], true, pid))
		if c.qos[i] == 2 {
			b.SendPacket(pub, broker.AckPk(packets.Pubrel, pid, 0))
		}
		pid++
		ops = append(ops, sx.L{sx.N(4), sx.S(t), sx.S(pl)})
		qt = append(qt, sx.L{sx.S(t), sx.N(c.qos[i])})
	}
	sub := b.Connect("10.0.0.2:1", broker.ConnectPk("sub", c.version, true))
	if c.prefill > 0 { // unacknowledged QoS 1 publishes to the subscriber fill its in-flight window
		b.SendPacket(sub, broker.SubscribePk(50, packets.Subscription{Filter: "fill", Qos: 1}))
		for i := 0; i < c.prefill; i++ {
			b.SendPacket(pub, broker.PublishPk("fill", []byte("f"), 1, false, pid))
			pid++
		}
	}
	b.Drain()
	b.SendPacket(sub, broker.SubscribePk(100, packets.Subscription{Filter: c.filter, Qos: c.subQos}))
	type ob struct {
		t, p string
		q, r int
	}
	var got []ob
	for _, o := range b.Drain() {
		if o.Conn != sub.Idx {
			continue
		}
		for _, pk := range o.Packets {
			if pk.FixedHeader.Type == packets.Publish {
				r := 0
				if pk.FixedHeader.Retain {
					r = 1
				}
				got = append(got, ob{pk.TopicName, string(pk.Payload), int(pk.FixedHeader.Qos), r})
			}
		}
	}
	sort.Slice(got, func(i, j int) bool {
		if got[i].t != got[j].t {
			return got[i].t < got[j].t
		}
		return got[i].p < got[j].p
	})
	obs := sx.L{}
	for _, g := range got {
		obs = append(obs, sx.L{sx.S(g.t), sx.S(g.p), sx.N(g.q), sx.N(g.r)})
	}
	var dl []string
	for d := range c.denied {
		dl = append(dl, d)
	}
	sort.Strings(dl)
	den := sx.L{}
	for _, d := range dl {
		den = append(den, sx.S(d))
	}
	hung := 0
	if b.Hung {
		hung = 1
	}
	out.Case(sx.L{sx.N(6), ops, den,
		sx.L{sx.N(c.window), sx.N(c.maxPid), sx.N(c.prefill), sx.N(c.subQos), sx.N(c.version), sx.N(hung)},
		sx.S(c.filter), qt, obs})
}

func engTopicsRetSub(seed int64, tier string, _ []string, out *sx.Out) {
	rng := rand.New(rand.NewSource(seed))
	n := 700
	if tier == "thorough" {
		n = 12000
	}
	all := levelStrings([]string{"a", "b", "c"}, 2)
	all = append(all, "$x/a", "a/b/c", "b/")
	filters := []string{"#", "+", "a/#", "+/a", "a/+", "+/+", "+/#", "b/#", "$x/#", "a", "c/+"}
	for i := 0; i < n; i++ {
		c := retsubCase{denied: map[string]bool{}, window: 1024, version: 4}
		if rng.Intn(2) == 0 {
			c.version = 5
		}
		perm := rng.Perm(len(all))
		k := 3 + rng.Intn(9)
		for _, j := range perm[:k] {
			c.topics = append(c.topics, all[j])
			q := byte(0)
			if i%3 != 0 { // one third of the cases: all QoS 0 (pure ACL dimension)
				q = byte(rng.Intn(3))
			}
			c.qos = append(c.qos, q)
		}
		c.filter = filters[rng.Intn(len(filters))]
		c.subQos = byte(rng.Intn(3))
		// per-topic read denial: mostly topics that the filter is likely to select
		nd := rng.Intn(3)
		if i%2 == 0 && nd == 0 {
			nd = 1
		}
		for d := 0; d < nd; d++ {
			t := c.topics[rng.Intn(len(c.topics))]
			if rng.Intn(8) == 0 {
				t = all[rng.Intn(len(all))]
			}
			if t != c.filter && !strings.HasPrefix(t, "fill") {
				c.denied[t] = true
			}
		}
		switch rng.Intn(4) {
		case 0:
			c.window = 1 + rng.Intn(3)
		case 1:
			c.maxPid = 2 + rng.Intn(3)
		}
		lim := c.window
		if c.maxPid > 0 && c.maxPid < lim {
			lim = c.maxPid
		}
		if lim < 100 {
			c.prefill = rng.Intn(lim + 1)
		} else if rng.Intn(4) == 0 {
			c.prefill = rng.Intn(3)
		}
		runRetSub(c, out)
	}
}
