package main

// codec_par (C29, also exercising the whole encoders): the broker encodes on each client's own
// goroutine, so the codec must not share mutable state between calls.
//  (a) 12 goroutines encode concurrently, each its own deterministic sequence of values
//      (packets.VerifEncodeLength) and of whole packets (the normal encoders), each into its own
//      buffers.  Every output that differs from a sequential recomputation, and a sample of the
//      others, is emitted as an ordinary observation — (value, bytes) in the format of the vbi engine,
//      (packet, bytes, decoded fields) in the format of codec_rt — and judged by the Coq engines.
//  (b) a structural scan (go/ast) of the non-test files of package packets: package-level variables
//      that some function assigns, index-assigns, increments, appends to or takes the address of.
//      The list is emitted as one case; anything outside the allow-list is code 1
//      "codec-shared-mutable-state".

import (
	"bytes"
	"go/ast"
	"go/parser"
	"go/token"
	"math/rand"
	"os"
	"path/filepath"
	"sort"
	"strings"
	"sync"
	"time"

	"github.com/mochi-mqtt/server/v2/packets"

	"verifharness/sx"
)

func init() { engines["codec_par"] = engCodecPar }

type parObs struct {
	v   int64
	enc []byte
}

type parPk struct {
	pk  *packets.Packet
	enc []byte
	oc  int
}

func engCodecPar(seed int64, tier string, _ []string, out *sx.Out) {
	workers := 12
	budget := 1200 * time.Millisecond
	if tier == "thorough" {
		workers = 16
		budget = 8 * time.Second
	}

	// (a1) variable byte integers --------------------------------------------------------------
	vals := make([][]parObs, workers)
	var wg sync.WaitGroup
	start := make(chan struct{})
	deadline := time.Now().Add(budget / 2)
	for g := 0; g < workers; g++ {
		wg.Add(1)
		go func(g int) {
			defer wg.Done()
			rng := rand.New(rand.NewSource(seed*1000 + int64(g)))
			<-start
			var keep []parObs
			for i := 0; ; i++ {
				if i%4096 == 0 && time.Now().After(deadline) {
					break
				}
				var v int64
				switch g % 4 {
				case 0:
					v = int64(i % 128) // one byte: 0 must be 00, 127 must be 7f
				case 1:
					v = []int64{0, 127, 128, 16383, 16384, 2097151, 2097152, 268435455}[rng.Intn(8)]
				default:
					v = rng.Int63n(int64(1)<<uint(rng.Intn(29)) + 1)
				}
				enc := packets.VerifEncodeLength(v)
				if !bytes.Equal(enc, refVbi(int(v))) || i%20011 == 0 {
					if len(keep) < 400 {
						keep = append(keep, parObs{v, enc})
					}
				}
			}
			vals[g] = keep
		}(g)
	}
	close(start)
	wg.Wait()
	for g := 0; g < workers; g++ {
		for _, o := range vals[g] {
			out.Case(sx.L{sx.N(0), sx.N(uint64(o.v)), sx.B(o.enc)})
		}
	}

	// (a2) whole packets through the normal encoders --------------------------------------------
	pks := make([][]parPk, workers)
	start2 := make(chan struct{})
	deadline2 := time.Now().Add(budget / 2)
	for g := 0; g < workers; g++ {
		wg.Add(1)
		go func(g int) {
			defer wg.Done()
			rng := rand.New(rand.NewSource(seed*1000 + 500 + int64(g)))
			<-start2
			var keep []parPk
			for i := 0; ; i++ {
				if i%256 == 0 && time.Now().After(deadline2) {
					break
				}
				ty := allTypes[rng.Intn(len(allTypes))]
				v := []byte{4, 5, 5}[rng.Intn(3)]
				pk := genPacket(rng, ty, v, false)
				enc, oc := encodeReal(pk)
				if len(keep) < 100000 {
					keep = append(keep, parPk{pk, enc, oc})
				}
			}
			pks[g] = keep
		}(g)
	}
	close(start2)
	wg.Wait()
	// afterwards, sequentially: the same packets once more; differing outputs and a sample are emitted
	emitted := 0
	for g := 0; g < workers; g++ {
		for i, o := range pks[g] {
			seq, soc := encodeReal(o.pk)
			differs := soc != o.oc || !bytes.Equal(seq, o.enc)
			if differs || i%97 == 0 {
				if emitted > 6000 && !differs {
					continue
				}
				emitted++
				in := projPacket(o.pk)
				if o.oc != outOK {
					out.Case(sx.L{sx.N(2), projMods(o.pk.Mods), in, sx.N(uint64(o.oc)), sx.B(nil), sx.N(1), sx.L{}, sx.B(nil)})
					continue
				}
				do, proj, unread := runStream(o.pk.ProtocolVersion, o.enc)
				out.Case(sx.L{sx.N(2), projMods(o.pk.Mods), in, sx.N(0), sx.B(o.enc), sx.N(uint64(do)), proj, sx.B(unread)})
			}
		}
	}

	// (b) package-level mutable state of package packets ----------------------------------------
	names := sharedMutableState(filepath.Join(repoDir(), "packets"))
	l := sx.L{}
	for _, n := range names {
		l = append(l, sx.S(n))
	}
	out.Case(sx.L{sx.N(9), l})
}

func repoDir() string {
	if d := os.Getenv("VERIF_REPO"); d != "" {
		return d
	}
	return "/repo"
}

// sharedMutableState lists "file.go:name" for every package-level variable of the package in dir
// (test files excluded) that a function of the package writes: assignment to the variable, to an
// element, field or slice of it, ++/--, append(v, ...) assigned back, or &v.  Reading (including
// indexing a table and calling methods) is not listed.
func sharedMutableState(dir string) []string {
	fset := token.NewFileSet()
	pkgs, err := parser.ParseDir(fset, dir, func(fi os.FileInfo) bool { return !strings.HasSuffix(fi.Name(), "_test.go") }, 0)
	if err != nil {
		return []string{"PARSE-ERROR:" + err.Error()}
	}
	vars := map[string]string{} // name -> file
	var files []*ast.File
	for _, p := range pkgs {
		for fn, f := range p.Files {
			files = append(files, f)
			for _, d := range f.Decls {
				gd, ok := d.(*ast.GenDecl)
				if !ok || gd.Tok != token.VAR {
					continue
				}
				for _, sp := range gd.Specs {
					for _, n := range sp.(*ast.ValueSpec).Names {
						if n.Name != "_" {
							vars[n.Name] = filepath.Base(fn)
						}
					}
				}
			}
		}
	}
	// root identifier of an assignable expression: x, x[i], x.f, x[i:j], *x, (x)
	var root func(e ast.Expr) *ast.Ident
	root = func(e ast.Expr) *ast.Ident {
		switch t := e.(type) {
		case *ast.Ident:
			return t
		case *ast.IndexExpr:
			return root(t.X)
		case *ast.SelectorExpr:
			return root(t.X)
		case *ast.SliceExpr:
			return root(t.X)
		case *ast.StarExpr:
			return root(t.X)
		case *ast.ParenExpr:
			return root(t.X)
		}
		return nil
	}
	written := map[string]bool{}
	for _, f := range files {
		for _, d := range f.Decls {
			fd, ok := d.(*ast.FuncDecl)
			if !ok || fd.Body == nil {
				continue
			}
			// identifiers declared locally (parameters, receivers, :=, var) shadow package variables
			local := map[string]bool{}
			addFields := func(fl *ast.FieldList) {
				if fl == nil {
					return
				}
				for _, fld := range fl.List {
					for _, n := range fld.Names {
						local[n.Name] = true
					}
				}
			}
			addFields(fd.Recv)
			addFields(fd.Type.Params)
			addFields(fd.Type.Results)
			ast.Inspect(fd.Body, func(n ast.Node) bool {
				switch t := n.(type) {
				case *ast.AssignStmt:
					if t.Tok == token.DEFINE {
						for _, l := range t.Lhs {
							if id, ok := l.(*ast.Ident); ok {
								local[id.Name] = true
							}
						}
					}
				case *ast.ValueSpec:
					for _, id := range t.Names {
						local[id.Name] = true
					}
				case *ast.RangeStmt:
					if t.Tok == token.DEFINE {
						for _, e := range []ast.Expr{t.Key, t.Value} {
							if id, ok := e.(*ast.Ident); ok {
								local[id.Name] = true
							}
						}
					}
				}
				return true
			})
			mark := func(e ast.Expr) {
				if id := root(e); id != nil && !local[id.Name] {
					if _, ok := vars[id.Name]; ok {
						written[id.Name] = true
					}
				}
			}
			ast.Inspect(fd.Body, func(n ast.Node) bool {
				switch t := n.(type) {
				case *ast.AssignStmt:
					if t.Tok != token.DEFINE {
						for _, l := range t.Lhs {
							mark(l)
						}
					}
				case *ast.IncDecStmt:
					mark(t.X)
				case *ast.UnaryExpr:
					if t.Op == token.AND {
						mark(t.X)
					}
				case *ast.RangeStmt:
					if t.Tok == token.ASSIGN {
						mark(t.Key)
						if t.Value != nil {
							mark(t.Value)
						}
					}
				case *ast.CallExpr:
					// copy(v[...], ...) writes into v
					if id, ok := t.Fun.(*ast.Ident); ok && id.Name == "copy" && len(t.Args) > 0 {
						mark(t.Args[0])
					}
				}
				return true
			})
		}
	}
	var out []string
	for n := range written {
		out = append(out, vars[n]+":"+n)
	}
	sort.Strings(out)
	return out
}
