package main

import (
	"fmt"
	"os"
	"time"

	"github.com/mochi-mqtt/server/v2/packets"

	"verifharness/broker"
	"verifharness/sx"
)

func init() { engines["brokersmoke"] = engBrokerSmoke }

// brokersmoke: a fixed scenario used to validate the broker harness itself; prints a readable trace.
func engBrokerSmoke(seed int64, tier string, _ []string, out *sx.Out) {
	t0 := time.Now()
	b := broker.New(broker.Opts{Auth: broker.AllowAuth, ACL: broker.AllowACL})
	dump := func(what string) {
		for _, o := range b.Drain() {
			out.Case(sx.L{sx.S(what), broker.OutSx(o)})
		}
	}
	a := b.Connect("1.1.1.1:1", broker.ConnectPk("a", 5, false))
	dump("connect a")
	p := b.Connect("1.1.1.1:2", broker.ConnectPk("p", 4, true))
	dump("connect p")
	b.SendPacket(a, broker.SubscribePk(10, packets.Subscription{Filter: "t/+", Qos: 2}))
	dump("sub a")
	b.SendPacket(p, broker.PublishPk("t/x", []byte("m1"), 1, false, 7))
	dump("pub p qos1")
	b.SendPacket(p, broker.PublishPk("t/y", []byte("m2"), 2, false, 8))
	dump("pub p qos2")
	b.SendPacket(p, broker.AckPk(packets.Pubrel, 8, 0))
	dump("pubrel p")
	a2 := b.Connect("1.1.1.1:3", broker.ConnectPk("a", 5, false))
	dump("takeover a")
	b.SendPacket(a2, broker.AckPk(packets.Puback, 1, 0))
	dump("puback a2")
	b.NetClose(p)
	dump("netclose p")
	b.Tick("clients", time.Now().Unix()+10)
	dump("tick")
	out.Case(sx.L{sx.S("snap"), broker.SnapSx(b.Srv.VerifSnapshot())})
	out.Case(sx.L{sx.S("hooks"), broker.HooksSx(b.Rec.All(), map[string]bool{"Disconnect": true, "QosPublish": true, "QosComplete": true})})
	b.Shutdown()
	fmt.Fprintf(os.Stderr, "hung=%v steps=%d elapsed=%v\n", b.Hung, b.Step, time.Since(t0))
}
