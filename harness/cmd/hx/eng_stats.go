package main

import (
	"fmt"
	"io"
	"math/rand"
	"os"
	"sort"
	"sync/atomic"
	"strings"
	"time"

	mqtt "github.com/mochi-mqtt/server/v2"
	"github.com/mochi-mqtt/server/v2/packets"

	"verifharness/broker"
	"verifharness/sx"
)

func init() { engines["stats"] = engStats }

// C38: the $SYS counters (clients connected, subscriptions, retained, in-flight) equal the actual
// counts after every step of a mixed history.  One case per history:
//
//	(steps)   step = ((op ...) (infoConn infoSubs infoRet infoInfl actSubs actRet actInfl actConn))
//
// An op is what the broker was asked to do together with the routing outcome read back from the
// hook events / snapshots (which client got which in-flight record, what expired), so that the Coq
// model (coq/Session/Stats.v) can replay the counter bookkeeping of server.go without re-deriving
// topic matching or flow control (those are other properties' business):
//
//	(1 id clean ver ok)                       CONNECT (ok = the broker accepted it)
//	(2 id expire)                             connection of id ended (DISCONNECT, net close, error)
//	(3 id pid ((filter key accepted) ...) dels imm)  SUBSCRIBE (key = identity of the subscription in the index)
//	(4 id pid ((filter key) ...) imm)         UNSUBSCRIBE
//	(5 id qos pid retainop topic rejected dels imm)   PUBLISH; retainop 0 none 1 set 2 clear
//	(6 id type pid bad imm)                   PUBACK/PUBREC/PUBREL/PUBCOMP from the client; also PINGREQ, DISCONNECT
//	(7 (id ...))                              housekeeping: these sessions expired
//	(8 (topic ...))                           housekeeping: these retained messages expired
//	(9 ((id pid) ...))                        housekeeping: these in-flight records expired
//	(10 (topic ...))                          $SYS tick: these topics were retained
//	(11 id qos pid retainop topic rejected)   PUBLISH QoS 1/2 while every write to the client fails (broken connection)
//	(12 id pid)                               PUBREL (reason 0) while every write to the client fails
//	counters: the four reported/actual values, then pairs (reported actual) of the traffic counters recounted by
//	the harness: packets received, messages received, packets sent, messages sent; after a $SYS tick also clients
//	total and clients disconnected
//	dels = ((id pid outcome) ...)  outcome 0 stored, 1 stored then rolled back (pending-writes queue full)
//	imm  = () or (pid): the deferred record sent by processPacket's NextImmediate block
type statsRun struct {
	b     *broker.B
	cur   map[string]*broker.Conn // connection currently attached to a client id
	prev  mqtt.VerifSnap
	steps sx.L
	debug bool
	log   []string
	bad   bool
	// recounts for the traffic counters: what the harness fed to the broker and what reached the connections
	recvPk, recvMsg, sentPk, sentMsg int64
	sysTick                          bool // the step was a $SYS tick: ClientsTotal / ClientsDisconnected have just been refreshed
}

// send / connect / drain wrap the broker calls and keep the recounts.
func (r *statsRun) send(c *broker.Conn, pk packets.Packet) error {
	r.recvPk++
	if pk.FixedHeader.Type == packets.Publish {
		r.recvMsg++
	}
	return r.b.SendPacket(c, pk)
}

func (r *statsRun) connect(pk packets.Packet) *broker.Conn {
	r.recvPk++
	return r.b.Connect("10.0.0.1:1", pk)
}

func (r *statsRun) drain() []broker.Out {
	outs := r.b.Drain()
	for _, o := range outs {
		for _, q := range o.Packets {
			r.sentPk++
			if q.FixedHeader.Type == packets.Publish {
				r.sentMsg++
			}
		}
	}
	return outs
}

func zs(n int64) sx.V {
	if n < 0 {
		return sx.L{sx.N(1), sx.N(uint64(-n))}
	}
	return sx.L{sx.N(0), sx.N(uint64(n))}
}

func subKey(filter string) string {
	parts := strings.Split(filter, "/")
	if len(parts) >= 3 && strings.EqualFold(parts[0], "$SHARE") {
		return "S|" + parts[1] + "|" + strings.Join(parts[2:], "/")
	}
	return "N|" + filter
}

func snapClient(s mqtt.VerifSnap, id string) *mqtt.VerifClient {
	for i := range s.Clients {
		if s.Clients[i].ID == id {
			return &s.Clients[i]
		}
	}
	return nil
}

func hasPid(c *mqtt.VerifClient, pid uint16) bool {
	if c == nil {
		return false
	}
	for _, r := range c.Inflight {
		if r.PacketID == pid {
			return true
		}
	}
	return false
}

// deliveries reconstructs which in-flight records publishToClient stored during the step.
func deliveries(evs []broker.HookEvent, after mqtt.VerifSnap) sx.L {
	type del struct {
		id  string
		pid uint16
		out int
	}
	var ds []del
	lastWasStore := false
	for _, e := range evs {
		switch e.Name {
		case "QosPublish":
			if e.Pk.FixedHeader.Type == packets.Publish {
				ds = append(ds, del{e.Client, e.Pk.PacketID, 0})
				lastWasStore = true
			} else {
				lastWasStore = false
			}
		case "PublishDropped":
			if lastWasStore && len(ds) > 0 && ds[len(ds)-1].id == e.Client &&
				!hasPid(snapClient(after, e.Client), ds[len(ds)-1].pid) {
				ds[len(ds)-1].out = 1
			}
			lastWasStore = false
		}
	}
	l := sx.L{}
	for _, d := range ds {
		l = append(l, sx.L{sx.S(d.id), sx.N(uint64(d.pid)), sx.N(uint64(d.out))})
	}
	return l
}

// immediate finds the deferred record (Expiry < 0 before the step) of client id that is gone
// after the step and was not removed by the packet's own identifier.
func immediate(before, after mqtt.VerifSnap, id string, opPid uint16, excl bool) sx.L {
	bc := snapClient(before, id)
	ac := snapClient(after, id)
	if bc == nil {
		return sx.L{}
	}
	for _, r := range bc.Inflight {
		if r.Expiry < 0 && !(excl && r.PacketID == opPid) && !hasPid(ac, r.PacketID) {
			return sx.L{sx.N(uint64(r.PacketID))}
		}
	}
	return sx.L{}
}

// end closes one harness step: ops for connections that ended during it, counters, bookkeeping.
func (r *statsRun) end(ops sx.L, evs []broker.HookEvent, connectID string) {
	for _, e := range evs {
		if e.Name == "Disconnect" && e.Client != connectID {
			if c, ok := r.cur[e.Client]; ok && (c.Done() || c.MC.Closed()) {
				ops = append(ops, sx.L{sx.N(2), sx.S(e.Client), sx.Bool(e.Extra == "expire")})
				delete(r.cur, e.Client)
			}
		}
		if e.Name == "PANIC" {
			r.bad = true
		}
	}
	r.drain() // whatever the step wrote and nobody looked at yet
	s := r.b.Srv.VerifSnapshot()
	r.prev = s
	info := r.b.Srv.Info
	pair := func(reported, actual int64) sx.V { return sx.L{zs(reported), zs(actual)} }
	extra := sx.L{
		pair(atomic.LoadInt64(&info.PacketsReceived), r.recvPk), pair(atomic.LoadInt64(&info.MessagesReceived), r.recvMsg),
		pair(atomic.LoadInt64(&info.PacketsSent), r.sentPk), pair(atomic.LoadInt64(&info.MessagesSent), r.sentMsg),
	}
	if r.sysTick {
		total := int64(len(s.Clients))
		extra = append(extra, pair(atomic.LoadInt64(&info.ClientsTotal), total),
			pair(atomic.LoadInt64(&info.ClientsDisconnected), total-int64(s.ActualConnected)))
		r.sysTick = false
	}
	r.steps = append(r.steps, sx.L{ops, sx.L{zs(s.InfoConnected), zs(s.InfoSubs), zs(s.InfoRetained), zs(s.InfoInflight),
		sx.N(uint64(s.ActualSubs)), sx.N(uint64(s.ActualRetained)), sx.N(uint64(s.ActualInflight)), sx.N(uint64(s.ActualConnected)), extra}})
	if r.debug {
		for i, e := range extra {
			if sx.String(e.(sx.L)[0]) != sx.String(e.(sx.L)[1]) {
				r.log = append(r.log, fmt.Sprintf("   extra counter %d: %s", i, sx.String(e)))
				r.bad = true
			}
		}
	}
	if r.debug {
		mark := ""
		if s.InfoConnected != int64(s.ActualConnected) || s.InfoSubs != int64(s.ActualSubs) ||
			s.InfoRetained != int64(s.ActualRetained) || s.InfoInflight != int64(s.ActualInflight) {
			mark = "  <<< MISMATCH"
		}
		r.log = append(r.log, fmt.Sprintf("%s -> conn %d/%d subs %d/%d ret %d/%d infl %d/%d%s", sx.String(ops),
			s.InfoConnected, s.ActualConnected, s.InfoSubs, s.ActualSubs, s.InfoRetained, s.ActualRetained,
			s.InfoInflight, s.ActualInflight, mark))
		if mark != "" {
			r.bad = true
		}
	}
}

func engStats(seed int64, tier string, _ []string, out *sx.Out) {
	rng := rand.New(rand.NewSource(seed))
	histories, steps := 150, 36
	if tier == "thorough" {
		histories, steps = 6000, 60
	}
	debug := os.Getenv("HX_DEBUG") != ""
	ids := []string{"a", "b", "c"}
	topics := []string{"t/1", "t/2", "u", "t/1", "t/3", "v"}
	filters := []string{"t/1", "t/+", "#", "u", "$share/g/t/1", "$SHARE/g/t/1", "$share/h/t/+", "bad#f", "$SYS/#"}
	for h := 0; h < histories; h++ {
		caps := mqtt.NewDefaultServerCapabilities()
		caps.MaximumSessionExpiryInterval = 5
		if h%3 == 1 {
			caps.MaximumClientWritesPending = 1
		}
		if h%4 == 2 {
			caps.MaximumMessageExpiryInterval = 10
		}
		if h%5 == 3 {
			caps.ReceiveMaximum = 2
		}
		b := broker.New(broker.Opts{Caps: caps, Auth: broker.AllowAuth, ACL: broker.AllowACL})
		r := &statsRun{b: b, cur: map[string]*broker.Conn{}, debug: debug}
		now := time.Now().Unix()
		for i := 0; i < steps && !b.Hung; i++ {
			id := ids[rng.Intn(len(ids))]
			c := r.cur[id]
			if c != nil && (c.MC.Closed() || c.Done()) {
				delete(r.cur, id)
				c = nil
			}
			k := rng.Intn(100)
			if c == nil && k >= 12 && k < 88 {
				k = 0 // most client operations need a connection: connect instead
			}
			before := r.prev
			switch {
			case k < 12: // CONNECT (fresh, reconnect or takeover)
				ver := []byte{4, 5, 5, 3}[rng.Intn(4)]
				clean := rng.Intn(3) == 0
				pk := broker.ConnectPk(id, ver, clean)
				if ver == 5 {
					pk.Properties.ReceiveMaximum = uint16(1 + rng.Intn(2))
					if rng.Intn(3) > 0 {
						pk.Properties.SessionExpiryInterval = uint32(3 + rng.Intn(100))
						pk.Properties.SessionExpiryIntervalFlag = true
					}
				}
				ok := true
				if rng.Intn(12) == 0 {
					pk.Connect.Keepalive = 0
					pk.Connect.ClientIdentifier = id
					pk.ProtocolVersion = ver
					pk.Connect.ProtocolName = []byte("XQTT") // refused before authentication
					ok = false
				}
				nc := r.connect(pk)
				r.drain()
				evs := b.Rec.Drain()
				if ok {
					r.cur[id] = nc
				}
				r.end(sx.L{sx.L{sx.N(1), sx.S(id), sx.Bool(clean), sx.N(uint64(ver)), sx.Bool(ok)}}, evs, id)
			case k < 30: // SUBSCRIBE
				n := 1 + rng.Intn(2)
				subs := []packets.Subscription{}
				for j := 0; j < n; j++ {
					sb := packets.Subscription{Filter: filters[rng.Intn(len(filters))], Qos: byte(rng.Intn(3))}
					if h%3 == 1 && rng.Intn(2) == 0 { // small pending-writes queue: a burst of retained QoS 1 messages overflows it
						sb = packets.Subscription{Filter: "#", Qos: 1}
					}
					subs = append(subs, sb)
				}
				pid := uint16(1 + rng.Intn(4))
				pk := broker.SubscribePk(pid, subs...)
				_ = r.send(c, pk)
				evs := b.Rec.Drain()
				codes := []byte{}
				for _, o := range r.drain() {
					if o.Conn == c.Idx {
						for _, q := range o.Packets {
							if q.FixedHeader.Type == packets.Suback {
								codes = q.ReasonCodes
							}
						}
					}
				}
				fl := sx.L{}
				for j, s := range subs {
					acc := j < len(codes) && codes[j] < 0x80
					fl = append(fl, sx.L{sx.S(s.Filter), sx.S(subKey(s.Filter)), sx.Bool(acc)})
				}
				after := b.Srv.VerifSnapshot()
				r.end(sx.L{sx.L{sx.N(3), sx.S(id), sx.N(uint64(pid)), fl, deliveries(evs, after),
					immediate(before, after, id, pid, false)}}, evs, "")
			case k < 40: // UNSUBSCRIBE (also of filters never subscribed)
				n := 1 + rng.Intn(2)
				fs := []string{}
				fl := sx.L{}
				for j := 0; j < n; j++ {
					f := filters[rng.Intn(len(filters))]
					fs = append(fs, f)
					fl = append(fl, sx.L{sx.S(f), sx.S(subKey(f))})
				}
				pid := uint16(1 + rng.Intn(4))
				_ = r.send(c, broker.UnsubscribePk(pid, fs...))
				evs := b.Rec.Drain()
				r.drain()
				after := b.Srv.VerifSnapshot()
				r.end(sx.L{sx.L{sx.N(4), sx.S(id), sx.N(uint64(pid)), fl, immediate(before, after, id, pid, false)}}, evs, "")
			case k < 66: // PUBLISH
				qos := byte(rng.Intn(3))
				pid := uint16(0)
				if qos > 0 {
					pid = uint16(1 + rng.Intn(4))
				}
				topic := topics[rng.Intn(len(topics))]
				if rng.Intn(15) == 0 {
					topic = "$SYS/x"
				}
				retain := rng.Intn(4) == 0 || (h%3 == 1 && rng.Intn(2) == 0)
				payload := []byte("m")
				if retain && rng.Intn(3) == 0 {
					payload = nil
				}
				pk := broker.PublishPk(topic, payload, qos, retain, pid)
				if c.Version == 5 && rng.Intn(3) == 0 {
					pk.Properties.MessageExpiryInterval = uint32(2 + rng.Intn(5))
				}
				rejected := !mqtt.IsValidFilter(topic, true)
				if bc := snapClient(before, id); bc != nil && bc.RecvQuota == 0 {
					rejected = true
				}
				_ = r.send(c, pk)
				evs := b.Rec.Drain()
				r.drain()
				after := b.Srv.VerifSnapshot()
				rop := 0
				if retain {
					rop = 1
					if len(payload) == 0 {
						rop = 2
					}
				}
				r.end(sx.L{sx.L{sx.N(5), sx.S(id), sx.N(uint64(qos)), sx.N(uint64(pid)), sx.N(uint64(rop)), sx.S(topic),
					sx.Bool(rejected), deliveries(evs, after), immediate(before, after, id, pid, !rejected)}}, evs, "")
			case k < 82: // acknowledgement: mostly for a record the broker really holds
				ty := []byte{packets.Puback, packets.Pubrec, packets.Pubrel, packets.Pubcomp}[rng.Intn(4)]
				pid := uint16(1 + rng.Intn(4))
				if bc := snapClient(before, id); bc != nil && len(bc.Inflight) > 0 && rng.Intn(4) > 0 {
					rec := bc.Inflight[rng.Intn(len(bc.Inflight))]
					pid = rec.PacketID
					switch rec.Type {
					case packets.Publish:
						ty = packets.Puback
						if rec.Qos == 2 {
							ty = packets.Pubrec
						}
					case packets.Pubrec:
						ty = packets.Pubrel
					case packets.Pubrel:
						ty = packets.Pubcomp
					}
				}
				rc := byte(0)
				if c.Version == 5 && rng.Intn(6) == 0 {
					rc = []byte{0x80, 0x92, 0x10}[rng.Intn(3)]
				}
				pk := broker.AckPk(ty, pid, rc)
				pk.ProtocolVersion = c.Version
				bad := rc >= 0x80 || !pk.ReasonCodeValid()
				if c.Version < 5 {
					bad = false // no reason code travels in MQTT 3 acknowledgements
				}
				_ = r.send(c, pk)
				evs := b.Rec.Drain()
				r.drain()
				after := b.Srv.VerifSnapshot()
				r.end(sx.L{sx.L{sx.N(6), sx.S(id), sx.N(uint64(ty)), sx.N(uint64(pid)), sx.Bool(bad),
					immediate(before, after, id, pid, true)}}, evs, "")
			case k < 85 && h%2 == 0: // the write of the broker's answer fails (broken connection): the answer stays in flight
				c.MC.WriteErr = io.ErrClosedPipe
				var op sx.L
				bc := snapClient(before, id)
				var pubrec *mqtt.VerifInflight
				if bc != nil {
					for j := range bc.Inflight {
						if bc.Inflight[j].Type == packets.Pubrec {
							pubrec = &bc.Inflight[j]
						}
					}
				}
				if pubrec != nil && rng.Intn(2) == 0 { // PUBREL of an open inbound QoS 2 flow
					_ = r.send(c, broker.AckPk(packets.Pubrel, pubrec.PacketID, 0))
					op = sx.L{sx.N(12), sx.S(id), sx.N(uint64(pubrec.PacketID))}
				} else {
					qos := byte(1 + rng.Intn(2))
					pid := uint16(1 + rng.Intn(4))
					topic := topics[rng.Intn(len(topics))]
					retain := rng.Intn(4) == 0
					rejected := bc != nil && bc.RecvQuota == 0
					_ = r.send(c, broker.PublishPk(topic, []byte("m"), qos, retain, pid))
					rop := 0
					if retain {
						rop = 1
					}
					op = sx.L{sx.N(11), sx.S(id), sx.N(uint64(qos)), sx.N(uint64(pid)), sx.N(uint64(rop)), sx.S(topic), sx.Bool(rejected)}
				}
				c.MC.WriteErr = nil
				evs := b.Rec.Drain()
				r.end(sx.L{op}, evs, "")
			case k < 88: // the client goes away
				ops := sx.L{}
				switch rng.Intn(3) {
				case 0: // DISCONNECT and PINGREQ run through processPacket like every packet (deferred-send tail included)
					_ = r.send(c, broker.DisconnectPk(0))
					ops = sx.L{sx.L{sx.N(6), sx.S(id), sx.N(packets.Disconnect), sx.N(0), sx.N(0),
						immediate(before, b.Srv.VerifSnapshot(), id, 0, false)}}
				case 1:
					_ = r.send(c, broker.PingPk())
					ops = sx.L{sx.L{sx.N(6), sx.S(id), sx.N(packets.Pingreq), sx.N(0), sx.N(0),
						immediate(before, b.Srv.VerifSnapshot(), id, 0, false)}}
				default:
					b.NetClose(c)
				}
				evs := b.Rec.Drain()
				r.drain()
				r.end(ops, evs, "")
			default: // housekeeping
				at := now + []int64{0, 3, 7, 12, 200}[rng.Intn(5)]
				kind := []string{"clients", "retained", "inflight", "sys", "inflight", "retained"}[rng.Intn(6)]
				b.Tick(kind, at)
				r.sysTick = kind == "sys"
				evs := b.Rec.Drain()
				r.drain()
				var op sx.L
				switch kind {
				case "clients":
					l := sx.L{}
					for _, e := range evs {
						if e.Name == "ClientExpired" {
							l = append(l, sx.S(e.Client))
							delete(r.cur, e.Client)
						}
					}
					op = sx.L{sx.N(7), l}
				case "retained":
					l := sx.L{}
					for _, e := range evs {
						if e.Name == "RetainedExpired" {
							l = append(l, sx.S(e.Extra))
						}
					}
					op = sx.L{sx.N(8), l}
				case "inflight":
					l := sx.L{}
					seen := map[string]bool{}
					for _, e := range evs {
						key := fmt.Sprintf("%s/%d", e.Client, e.Pk.PacketID)
						if e.Name == "QosDropped" && !seen[key] {
							seen[key] = true
							l = append(l, sx.L{sx.S(e.Client), sx.N(uint64(e.Pk.PacketID))})
						}
					}
					op = sx.L{sx.N(9), l}
				default:
					l := sx.L{}
					for t := range b.Srv.Topics.Retained.GetAll() {
						if strings.HasPrefix(t, "$SYS") {
							l = append(l, sx.S(t))
						}
					}
					sort.Slice(l, func(i, j int) bool { return string(l[i].(sx.B)) < string(l[j].(sx.B)) })
					op = sx.L{sx.N(10), l}
				}
				r.end(sx.L{op}, evs, "")
			}
		}
		if b.Hung {
			out.Comment("hung")
		}
		if debug {
			if r.bad {
				fmt.Fprintf(os.Stderr, "== history %d\n%s\n", h, strings.Join(r.log, "\n"))
			}
		}
		out.Case(sx.L{r.steps})
		b.Shutdown()
	}
}
