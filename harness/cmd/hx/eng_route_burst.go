package main

import (
	"math/rand"
	"sort"
	"strings"

	"verifharness/broker"
	"verifharness/sx"
)

// Stream "c03w" of the route engine (C03): the write path between "handed to the connection" and "on the
// wire".  MQTT 5 subscribers with a small Maximum Packet Size, write buffers of 16 / 64 / 200 bytes
// (Options.ClientNetWriteBufferSize), bursts of PUBLISH packets fed to the broker in ONE read, in which small
// messages are followed by an oversized one (refused by the subscriber's write loop and reported through
// OnPublishDropped) and then silence.  One case per burst, judged at quiescence:
//
//	(cfg prefix (10 c (topic payload qos retain ct rt cd user) ...) (recv inline ((client payload) ...) codes hung))
//
// every entitled copy that was not reported dropped must be on the wire exactly once (payloads are unique).
func (w *rtWorld) burst(id string, msgs []rtMsg) {
	c := w.clients[id]
	var data []byte
	ml := sx.L{}
	for _, m := range msgs {
		if c.ver < 5 {
			m.ct, m.rt, m.cd, m.user = "", "", "", nil
		}
		pid := uint16(0)
		if m.qos > 0 {
			pid = c.pid()
		}
		pk := broker.PublishPk(m.topic, []byte(m.payload), m.qos, m.retain, pid)
		pk.ProtocolVersion = c.ver
		enc, err := broker.Encode(pk)
		if err != nil {
			panic(err)
		}
		data = append(data, enc...)
		ml = append(ml, rtMsgSx(m))
	}
	w.b.Send(c.conn, data)
	w.emitBurst(append(sx.L{sx.N(10), sx.S(id)}, ml...))
}

func (w *rtWorld) emitBurst(op sx.V) {
	got, codes, _ := w.settle()
	ids := []string{}
	for id := range got {
		ids = append(ids, id)
	}
	sort.Strings(ids)
	recv := sx.L{}
	for _, id := range ids {
		pl := sx.L{}
		for _, p := range got[id] {
			pl = append(pl, rtPubSx(p))
		}
		recv = append(recv, sx.L{sx.S(id), pl})
	}
	dl := sx.L{}
	for _, d := range w.dropped {
		dl = append(dl, sx.L{sx.S(d[0]), sx.S(d[1])})
	}
	cl := sx.L{}
	for _, c := range codes {
		cl = append(cl, sx.N(uint64(c)))
	}
	w.out.Case(sx.L{w.cfg, append(sx.L{}, w.prefix...), op, sx.L{recv, sx.L{}, dl, cl, sx.Bool(w.hung)}})
	w.prefix = append(w.prefix, op)
}

func rtBurstHistory(rng *rand.Rand, h int, out *sx.Out) {
	w := newWorld(out, 2, h%4 != 3, nil)
	defer w.close()
	w.rebuild([]int{64, 16, 200}[h%3])
	limit := uint32(60 + 10*rng.Intn(3))
	w.maxPkt["s1"] = limit
	w.maxPkt["s3"] = limit + 40
	w.connect("p", []byte{4, 5}[h%2], true, false, false)
	w.connect("s1", 5, true, false, false) // small Maximum Packet Size
	w.connect("s2", 4, true, false, false) // no limit
	if h%2 == 0 {
		w.connect("s3", 5, true, false, false)
	}
	for _, c := range w.clients {
		c.nextPid = 30000 // a refused oversized QoS > 0 message keeps its in-flight record and packet id (one id map, C10)
	}
	filters := []string{"w/#", "w/a", "w/+", "#"}
	for _, id := range []string{"s1", "s2", "s3"} {
		if w.clients[id] == nil {
			continue
		}
		n := 1 + rng.Intn(2)
		perm := rng.Perm(len(filters))
		for j := 0; j < n; j++ {
			w.subscribe(id, []rtSub{{filter: filters[perm[j]], qos: byte(rng.Intn(3))}})
		}
	}
	seq := 0
	mk := func(big bool) rtMsg {
		seq++
		pay := "m" + string(rune('a'+seq/26)) + string(rune('a'+seq%26))
		if big {
			pay += strings.Repeat("X", 90+rng.Intn(60)) // larger than s1's (sometimes s3's) Maximum Packet Size
		} else {
			pay += strings.Repeat("y", rng.Intn(8))
		}
		return rtMsg{topic: []string{"w/a", "w/b"}[rng.Intn(2)], payload: pay, qos: byte(rng.Intn(3))}
	}
	for i := 0; i < 7 && !w.hung; i++ {
		n := 2 + rng.Intn(4)
		msgs := []rtMsg{}
		for j := 0; j < n; j++ {
			big := rng.Intn(6) == 0
			if j == n-1 {
				big = rng.Intn(2) == 0 // the LAST queued packet cannot be written; then silence
			}
			msgs = append(msgs, mk(big))
		}
		w.burst("p", msgs)
		if rng.Intn(4) == 0 {
			id := []string{"s1", "s2"}[rng.Intn(2)]
			f := filters[rng.Intn(len(filters))]
			if rng.Intn(2) == 0 {
				w.unsubscribe(id, []string{f})
			} else {
				w.subscribe(id, []rtSub{{filter: f, qos: byte(rng.Intn(3))}})
			}
		}
	}
}
