package main

// topics_retainsched (C05, concurrency dimension): a retained publish (TopicsIndex.RetainMessage with a payload)
// is parked at the schedule point "retain.store" (between set(...), which creates the topic's path, and the
// store); 1-2 other goroutines get a chance to run in that gap — the client Unsubscribe of a filter equal to the
// topic, a retained clear on the topic / on a sibling, a Subscribe or Unsubscribe below it, a Messages query —
// then it is released.  After quiescence Messages(f) is asked for exact and wildcard filters, the topic is
// cleared, and the filters are asked again.  The Coq engine Topics.RetainConc.retain_engine decides whether
// SOME serial order of the concurrent operations (consistent with each goroutine's order) explains every return
// value and every Messages result as "the latest retained publish per matching topic".
//
// case = (8 pre threads post), element (rop ret); rop = index op as in eng_topics.go | (7 filter ((topic payload)...)).

import (
	"fmt"
	"math/rand"
	"sort"
	"sync"
	"sync/atomic"
	"time"

	mqtt "github.com/mochi-mqtt/server/v2"

	"verifharness/sx"
)

func init() { engines["topics_retainsched"] = engTopicsRetainSched }

// rOp: tOp kinds 0..5, kind 7 = Messages(filter)
func applyROp(x *mqtt.TopicsIndex, o tOp) sx.V {
	if o.kind == 7 {
		pks := x.Messages(o.filter)
		var r []triple
		for _, p := range pks {
			r = append(r, triple{a: p.TopicName, b: string(p.Payload)})
		}
		sortTriples(r)
		l := sx.L{}
		for _, t := range r {
			l = append(l, sx.L{sx.S(t.a), sx.S(t.b)})
		}
		return sx.L{sx.L{sx.N(7), sx.S(o.filter), l}, sx.N(1)}
	}
	return sx.L{o.sx(), sx.N(o.apply(x))}
}

var retainPark struct {
	armed   int32
	parked  chan struct{}
	release chan struct{}
}

func engTopicsRetainSched(seed int64, tier string, _ []string, out *sx.Out) {
	rng := rand.New(rand.NewSource(seed))
	n := 900
	gap := 2 * time.Millisecond
	if tier == "thorough" {
		n = 15000
	}
	mqtt.VerifPointHook = func(name string) {
		if name == "retain.store" && atomic.CompareAndSwapInt32(&retainPark.armed, 1, 0) {
			retainPark.parked <- struct{}{}
			<-retainPark.release
		}
	}
	defer func() { mqtt.VerifPointHook = nil }()
	// topic of the parked retained publish, a sibling topic, and filters that select it
	branches := []struct {
		t, sib  string
		filters []string
	}{{"a/b", "a/c", []string{"a/b", "a/#", "a/+", "+/b", "#"}}, {"a", "b", []string{"a", "a/#", "+", "#"}},
		{"x/y/z", "x/y/w", []string{"x/y/z", "x/#", "x/+/z", "x/y/+"}}, {"q/", "q/r", []string{"q/", "q/+", "q/#", "+/"}}}
	gapRuns := 0
	for i := 0; i < n; i++ {
		br := branches[rng.Intn(len(branches))]
		x := mqtt.NewTopicsIndex()
		seq := func(ops []tOp) sx.L {
			l := sx.L{}
			for _, o := range ops {
				l = append(l, applyROp(x, o))
			}
			return l
		}
		var pre []tOp
		switch rng.Intn(6) {
		case 0, 1, 2:
			pre = append(pre, tOp{kind: 0, client: "c1", filter: br.t, pay: 1}) // the branch exists because of a subscription
		case 3:
			pre = append(pre, tOp{kind: 4, filter: br.t, payload: "old"}) // ... because of an older retained message
		case 4:
			pre = append(pre, tOp{kind: 0, client: "c1", filter: br.t, pay: 1}, tOp{kind: 4, filter: br.sib, payload: "sib"})
		}
		preL := seq(pre)
		pl := fmt.Sprintf("m%d", i%7)
		th := [][]tOp{{{kind: 4, filter: br.t, payload: pl}}}
		if rng.Intn(4) == 0 {
			th[0] = append(th[0], tOp{kind: 7, filter: br.filters[rng.Intn(len(br.filters))]})
		}
		racer := func() tOp {
			switch rng.Intn(9) {
			case 0, 1, 2:
				return tOp{kind: 1, client: "c1", filter: br.t}
			case 3:
				return tOp{kind: 4, filter: br.t, payload: ""}
			case 4:
				return tOp{kind: 4, filter: br.sib, payload: ""}
			case 5:
				return tOp{kind: 0, client: "c2", filter: br.t + "/d", pay: 2}
			case 6:
				return tOp{kind: 1, client: "c2", filter: br.t + "/d"}
			case 7:
				return tOp{kind: 7, filter: br.filters[rng.Intn(len(br.filters))]}
			default:
				return tOp{kind: 4, filter: br.t, payload: "r" + pl}
			}
		}
		nr := 1 + rng.Intn(2)
		for r := 0; r < nr; r++ {
			ops := []tOp{racer()}
			if rng.Intn(3) == 0 {
				ops = append(ops, racer())
			}
			th = append(th, ops)
		}
		res := make([]sx.L, len(th))
		retainPark.parked = make(chan struct{}, 1)
		retainPark.release = make(chan struct{})
		atomic.StoreInt32(&retainPark.armed, 1)
		var wg sync.WaitGroup
		var racersDone int32
		run := func(t int) {
			defer wg.Done()
			for _, o := range th[t] {
				res[t] = append(res[t], applyROp(x, o))
			}
			if t > 0 {
				atomic.AddInt32(&racersDone, 1)
			}
		}
		wg.Add(1)
		go run(0)
		hung := false
		select {
		case <-retainPark.parked:
		case <-time.After(5 * time.Second):
			hung = true
		}
		for t := 1; t < len(th); t++ {
			wg.Add(1)
			go run(t)
		}
		deadline := time.Now().Add(gap)
		for time.Now().Before(deadline) && atomic.LoadInt32(&racersDone) < int32(len(th)-1) {
			time.Sleep(50 * time.Microsecond)
		}
		if atomic.LoadInt32(&racersDone) == int32(len(th)-1) {
			gapRuns++
		}
		atomic.StoreInt32(&retainPark.armed, 0)
		close(retainPark.release)
		done := make(chan struct{})
		go func() { wg.Wait(); close(done) }()
		select {
		case <-done:
		case <-time.After(10 * time.Second):
			hung = true
		}
		if hung { // report as an unexplained observation: the parked operation "returned" 777
			out.Case(sx.L{sx.N(8), preL, sx.L{sx.L{sx.L{th[0][0].sx(), sx.N(777)}}}, sx.L{}})
			continue
		}
		thL := sx.L{}
		for t := range th {
			thL = append(thL, res[t])
		}
		var post []tOp
		fs := append([]string{}, br.filters...)
		sort.Strings(fs)
		for _, f := range fs {
			post = append(post, tOp{kind: 7, filter: f})
		}
		if rng.Intn(2) == 0 {
			post = append(post, tOp{kind: 4, filter: br.t, payload: ""})
			for _, f := range fs[:2] {
				post = append(post, tOp{kind: 7, filter: f})
			}
		}
		postL := seq(post)
		out.Case(sx.L{sx.N(8), preL, thL, postL})
	}
	out.Comment(fmt.Sprintf("topics_retainsched: in %d of %d schedules every racer completed while the retained publish was parked at retain.store", gapRuns, n))
}
