package main

// topics_rootlock: reads topics.go (the file the harness was compiled against) and reports, for the C31
// atomicity assumption, (a) whether every exported mutator of TopicsIndex takes x.root.Lock() as its first
// statement and defers x.root.Unlock() as its second, with no other Unlock, and (b) every write to the
// particle tree that happens in a function other than those mutators and set / trim.  The verdict is
// computed by the Coq engine (TopicsEngine.rootlock_check).

import (
	"go/ast"
	"go/parser"
	"go/token"
	"os"
	"path/filepath"
	"reflect"
	"runtime"
	"sort"
	"strings"

	mqtt "github.com/mochi-mqtt/server/v2"

	"verifharness/sx"
)

func init() { engines["topics_rootlock"] = engTopicsRootLock }

func selChain(e ast.Expr) string {
	switch v := e.(type) {
	case *ast.Ident:
		return v.Name
	case *ast.SelectorExpr:
		return selChain(v.X) + "." + v.Sel.Name
	case *ast.CallExpr:
		return selChain(v.Fun) + "()"
	case *ast.ParenExpr:
		return selChain(v.X)
	case *ast.StarExpr:
		return selChain(v.X)
	}
	return "?"
}

func isCallTo(s ast.Stmt, deferred bool, suffix string) bool {
	var call *ast.CallExpr
	if deferred {
		d, ok := s.(*ast.DeferStmt)
		if !ok {
			return false
		}
		call = d.Call
	} else {
		e, ok := s.(*ast.ExprStmt)
		if !ok {
			return false
		}
		c, ok := e.X.(*ast.CallExpr)
		if !ok {
			return false
		}
		call = c
	}
	return strings.HasSuffix(selChain(call.Fun), suffix) && len(call.Args) == 0
}

func engTopicsRootLock(_ int64, _ string, _ []string, out *sx.Out) {
	file, _ := runtime.FuncForPC(reflect.ValueOf(mqtt.NewTopicsIndex).Pointer()).FileLine(0)
	dir := filepath.Dir(file)
	fset := token.NewFileSet()
	entries, err := os.ReadDir(dir)
	if err != nil {
		out.Case(sx.L{sx.N(5), sx.L{}, sx.L{sx.S("cannot read " + dir)}, sx.L{}})
		return
	}
	mutators := map[string]bool{"InlineSubscribe": true, "InlineUnsubscribe": true, "Subscribe": true, "Unsubscribe": true, "RetainMessage": true}
	allowed := map[string]bool{"set": true, "trim": true}
	rows := sx.L{}
	var offenders []string
	for _, e := range entries {
		n := e.Name()
		if !strings.HasSuffix(n, ".go") || strings.HasSuffix(n, "_test.go") || strings.HasPrefix(n, "verif_") {
			continue
		}
		f, err := parser.ParseFile(fset, filepath.Join(dir, n), nil, 0)
		if err != nil {
			offenders = append(offenders, "parse error "+n)
			continue
		}
		for _, d := range f.Decls {
			fd, ok := d.(*ast.FuncDecl)
			if !ok || fd.Body == nil {
				continue
			}
			recv := ""
			if fd.Recv != nil && len(fd.Recv.List) == 1 {
				recv = selChain(fd.Recv.List[0].Type)
			}
			onIndex := recv == "TopicsIndex"
			if onIndex && mutators[fd.Name.Name] {
				first, second, extra := 0, 0, 0
				if len(fd.Body.List) >= 2 {
					if isCallTo(fd.Body.List[0], false, ".root.Lock") {
						first = 1
					}
					if isCallTo(fd.Body.List[1], true, ".root.Unlock") {
						second = 1
					}
				}
				ast.Inspect(fd.Body, func(nd ast.Node) bool {
					if c, ok := nd.(*ast.CallExpr); ok && strings.HasSuffix(selChain(c.Fun), ".root.Unlock") {
						extra++
					}
					return true
				})
				rows = append(rows, sx.L{sx.S(fd.Name.Name), sx.N(first), sx.N(second), sx.N(extra - second)})
				continue
			}
			if onIndex && allowed[fd.Name.Name] {
				continue
			}
			// any other function: must not write to the particle tree
			where := fd.Name.Name
			if recv != "" {
				where = recv + "." + where
			}
			ast.Inspect(fd.Body, func(nd ast.Node) bool {
				switch v := nd.(type) {
				case *ast.CallExpr:
					c := selChain(v.Fun)
					for _, w := range []string{".particles.add", ".particles.delete", ".subscriptions.Add", ".subscriptions.Delete",
						".shared.Add", ".shared.Delete", ".inlineSubscriptions.Add", ".inlineSubscriptions.Delete"} {
						if strings.HasSuffix(c, w) {
							offenders = append(offenders, where+": "+c)
						}
					}
					if onIndex || recv == "Server" || recv == "" {
						if strings.HasSuffix(c, ".Topics.set") || strings.HasSuffix(c, ".Topics.trim") || c == "x.set" || c == "x.trim" {
							offenders = append(offenders, where+": "+c)
						}
					}
				case *ast.AssignStmt:
					for _, l := range v.Lhs {
						if strings.HasSuffix(selChain(l), ".retainPath") {
							offenders = append(offenders, where+": assigns retainPath")
						}
					}
				}
				return true
			})
		}
	}
	sort.Strings(offenders)
	off := sx.L{}
	for _, o := range offenders {
		off = append(off, sx.S(o))
	}
	out.Case(sx.L{sx.N(5), rows, off, sx.L{}})
}
