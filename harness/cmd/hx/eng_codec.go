package main

// Shared helpers of the packet-codec engines (codec_total, codec_enc, codec_rt): running the real
// Decode/Encode methods of github.com/mochi-mqtt/server/v2/packets under recover(), the canonical
// projection of a decoded Packet (mirrors val_of_packet in coq/Codec/CodecEngine.v), and the
// generators of packets and byte strings.

import (
	"bytes"
	"fmt"
	"io"
	"math/rand"
	"sort"

	"github.com/mochi-mqtt/server/v2/packets"

	"verifharness/sx"
)

// exact returns a copy of b whose capacity equals its length, so that any slice expression beyond
// len(b) panics instead of silently reading spare capacity.
func exact(b []byte) []byte {
	c := make([]byte, len(b))
	copy(c, b)
	return c[:len(b):len(b)]
}

func projProps(p *packets.Properties) sx.V {
	ids := sx.L{}
	for _, v := range p.SubscriptionIdentifier {
		ids = append(ids, sx.N(uint64(v)))
	}
	user := sx.L{}
	for _, u := range p.User {
		user = append(user, sx.L{sx.S(u.Key), sx.S(u.Val)})
	}
	return sx.L{
		sx.N(p.PayloadFormat), sx.Bool(p.PayloadFormatFlag), sx.N(p.MessageExpiryInterval),
		sx.S(p.ContentType), sx.S(p.ResponseTopic), sx.B(p.CorrelationData),
		ids,
		sx.N(p.SessionExpiryInterval), sx.Bool(p.SessionExpiryIntervalFlag), sx.S(p.AssignedClientID),
		sx.N(p.ServerKeepAlive), sx.Bool(p.ServerKeepAliveFlag),
		sx.S(p.AuthenticationMethod), sx.B(p.AuthenticationData),
		sx.N(p.RequestProblemInfo), sx.Bool(p.RequestProblemInfoFlag),
		sx.N(p.WillDelayInterval), sx.N(p.RequestResponseInfo), sx.S(p.ResponseInfo),
		sx.S(p.ServerReference), sx.S(p.ReasonString),
		sx.N(p.ReceiveMaximum), sx.N(p.TopicAliasMaximum),
		sx.N(p.TopicAlias), sx.Bool(p.TopicAliasFlag),
		sx.N(p.MaximumQos), sx.Bool(p.MaximumQosFlag),
		sx.N(p.RetainAvailable), sx.Bool(p.RetainAvailableFlag),
		user,
		sx.N(p.MaximumPacketSize),
		sx.N(p.WildcardSubAvailable), sx.Bool(p.WildcardSubAvailableFlag),
		sx.N(p.SubIDAvailable), sx.Bool(p.SubIDAvailableFlag),
		sx.N(p.SharedSubAvailable), sx.Bool(p.SharedSubAvailableFlag),
	}
}

func projPacket(pk *packets.Packet) sx.V {
	filters := sx.L{}
	for _, s := range pk.Filters {
		filters = append(filters, sx.L{sx.S(s.Filter), sx.N(s.Qos), sx.Bool(s.NoLocal), sx.Bool(s.RetainAsPublished),
			sx.N(s.RetainHandling), sx.N(uint64(s.Identifier))})
	}
	c := &pk.Connect
	return sx.L{
		sx.N(pk.ProtocolVersion),
		sx.L{sx.N(pk.FixedHeader.Type), sx.N(pk.FixedHeader.Qos), sx.Bool(pk.FixedHeader.Dup),
			sx.Bool(pk.FixedHeader.Retain), sx.N(uint64(pk.FixedHeader.Remaining))},
		sx.N(pk.PacketID), sx.S(pk.TopicName), sx.B(pk.Payload),
		sx.N(pk.ReasonCode), sx.B(pk.ReasonCodes), sx.Bool(pk.SessionPresent),
		sx.N(pk.ReservedBit),
		filters,
		projProps(&pk.Properties),
		sx.L{sx.B(c.ProtocolName), sx.Bool(c.Clean), sx.N(c.Keepalive), sx.S(c.ClientIdentifier),
			sx.Bool(c.WillFlag), sx.N(c.WillQos), sx.Bool(c.WillRetain),
			sx.S(c.WillTopic), sx.B(c.WillPayload),
			sx.Bool(c.UsernameFlag), sx.B(c.Username), sx.Bool(c.PasswordFlag), sx.B(c.Password),
			projProps(&c.WillProperties)},
	}
}

// decodeSwitch is the switch of Client.ReadPacket (clients.go:481-515).
func decodeSwitch(pk *packets.Packet, px []byte) error {
	switch pk.FixedHeader.Type {
	case packets.Connect:
		return pk.ConnectDecode(px)
	case packets.Disconnect:
		return pk.DisconnectDecode(px)
	case packets.Connack:
		return pk.ConnackDecode(px)
	case packets.Publish:
		return pk.PublishDecode(px)
	case packets.Puback:
		return pk.PubackDecode(px)
	case packets.Pubrec:
		return pk.PubrecDecode(px)
	case packets.Pubrel:
		return pk.PubrelDecode(px)
	case packets.Pubcomp:
		return pk.PubcompDecode(px)
	case packets.Subscribe:
		return pk.SubscribeDecode(px)
	case packets.Suback:
		return pk.SubackDecode(px)
	case packets.Unsubscribe:
		return pk.UnsubscribeDecode(px)
	case packets.Unsuback:
		return pk.UnsubackDecode(px)
	case packets.Pingreq:
		return nil
	case packets.Pingresp:
		return nil
	case packets.Auth:
		return pk.AuthDecode(px)
	default:
		return fmt.Errorf("invalid packet type; %v", pk.FixedHeader.Type)
	}
}

// encodeSwitch is the switch of Client.WritePacket (clients.go:560-592).
func encodeSwitch(pk *packets.Packet, buf *bytes.Buffer) error {
	switch pk.FixedHeader.Type {
	case packets.Connect:
		return pk.ConnectEncode(buf)
	case packets.Connack:
		return pk.ConnackEncode(buf)
	case packets.Publish:
		return pk.PublishEncode(buf)
	case packets.Puback:
		return pk.PubackEncode(buf)
	case packets.Pubrec:
		return pk.PubrecEncode(buf)
	case packets.Pubrel:
		return pk.PubrelEncode(buf)
	case packets.Pubcomp:
		return pk.PubcompEncode(buf)
	case packets.Subscribe:
		return pk.SubscribeEncode(buf)
	case packets.Suback:
		return pk.SubackEncode(buf)
	case packets.Unsubscribe:
		return pk.UnsubscribeEncode(buf)
	case packets.Unsuback:
		return pk.UnsubackEncode(buf)
	case packets.Pingreq:
		return pk.PingreqEncode(buf)
	case packets.Pingresp:
		return pk.PingrespEncode(buf)
	case packets.Disconnect:
		return pk.DisconnectEncode(buf)
	case packets.Auth:
		return pk.AuthEncode(buf)
	default:
		return fmt.Errorf("%w: %v", packets.ErrNoValidPacketAvailable, pk.FixedHeader.Type)
	}
}

const (
	outOK    = 0
	outErr   = 1
	outPanic = 2
)

// runBody calls the body decoder of the type in fh on a fresh packet, as ReadPacket does.
func runBody(v byte, fh packets.FixedHeader, body []byte) (outcome int, proj sx.V) {
	pk := &packets.Packet{ProtocolVersion: v, FixedHeader: fh}
	outcome, proj = outOK, sx.L{}
	defer func() {
		if r := recover(); r != nil {
			outcome, proj = outPanic, sx.L{}
		}
	}()
	if err := decodeSwitch(pk, exact(body)); err != nil {
		return outErr, sx.L{}
	}
	return outOK, projPacket(pk)
}

// runStream does what ReadFixedHeader + ReadPacket do on a byte stream.
func runStream(v byte, bs []byte) (outcome int, proj sx.V, unread []byte) {
	outcome, proj, unread = outErr, sx.L{}, nil
	r := bytes.NewReader(bs)
	b, err := r.ReadByte()
	if err != nil {
		return
	}
	fh := packets.FixedHeader{}
	if err = fh.Decode(b); err != nil {
		return
	}
	if fh.Remaining, _, err = packets.DecodeLength(r); err != nil {
		return
	}
	if r.Len() < fh.Remaining { // io.ReadFull would fail; avoid allocating the declared size
		return
	}
	p := make([]byte, fh.Remaining)
	if _, err = io.ReadFull(r, p); err != nil {
		return
	}
	unread = bs[len(bs)-r.Len():]
	pk := &packets.Packet{ProtocolVersion: v, FixedHeader: fh}
	defer func() {
		if rc := recover(); rc != nil {
			outcome, proj, unread = outPanic, sx.L{}, nil
		}
	}()
	if err = decodeSwitch(pk, exact(p)); err != nil {
		return outErr, sx.L{}, nil
	}
	return outOK, projPacket(pk), unread
}

func bodyCase(v byte, fh packets.FixedHeader, body []byte) sx.V {
	o, proj := runBody(v, fh, body)
	return sx.L{sx.N(0), sx.N(v), sx.N(fh.Type), sx.N(fh.Qos), sx.Bool(fh.Dup), sx.Bool(fh.Retain),
		sx.N(uint64(fh.Remaining)), sx.B(body), sx.N(uint64(o)), proj}
}

func streamCase(v byte, bs []byte) sx.V {
	o, proj, unread := runStream(v, bs)
	return sx.L{sx.N(1), sx.N(v), sx.B(bs), sx.N(uint64(o)), proj, sx.B(unread)}
}

// catalogue returns the raw byte vectors of packets.TPacketData in a deterministic order together
// with the protocol version recorded in the case.
type catVec struct {
	ty   byte
	v    byte
	raw  []byte
	desc string
}

func catalogue() []catVec {
	var out []catVec
	var tys []int
	for ty := range packets.TPacketData {
		tys = append(tys, int(ty))
	}
	sort.Ints(tys)
	for _, ty := range tys {
		for _, c := range packets.TPacketData[byte(ty)] {
			if len(c.RawBytes) == 0 {
				continue
			}
			v := byte(4)
			if c.Packet != nil && c.Packet.ProtocolVersion != 0 {
				v = c.Packet.ProtocolVersion
			}
			out = append(out, catVec{byte(ty), v, c.RawBytes, c.Desc})
			if len(c.ActualBytes) > 0 {
				out = append(out, catVec{byte(ty), v, c.ActualBytes, c.Desc + " (actual)"})
			}
		}
	}
	return out
}

// splitHeader parses header byte and remaining length without validating the flags.
func splitHeader(raw []byte) (hb byte, body []byte, ok bool) {
	if len(raw) < 2 {
		return 0, nil, false
	}
	r := bytes.NewReader(raw[1:])
	_, _, err := packets.DecodeLength(r)
	if err != nil {
		return 0, nil, false
	}
	return raw[0], raw[len(raw)-r.Len():], true
}

// headerOf gives the FixedHeader fields ReadFixedHeader would produce for hb, ignoring flag errors.
func headerOf(hb byte, remaining int) packets.FixedHeader {
	fh := packets.FixedHeader{}
	_ = fh.Decode(hb)
	fh.Type = hb >> 4
	fh.Remaining = remaining
	return fh
}

// ---------------------------------------------------------------------------------------------
// generators of field values and packets

var strPool = []string{"", "a", "b", "a/b", "t/+/x", "#", "$SYS/x", "世界", "héllo", "x y", " ", "\U0001F600",
	"topic/with/many/levels/0123456789", "zz"}

// special code points (boundaries of the UTF-8 encoding lengths, U+FFFD whose encoding EF BF BD is
// what lenient decoders substitute for errors, the byte order mark, noncharacters, the last code
// point before and the first after the surrogates, the extremes of the supplementary planes) ...
var specialValid = []string{"\uFFFD", "\uFEFF", "\u0001", "\u007f", "\u0080", "\u07ff", "\u0800", "\uffff", "\ufffe",
	"\ud7ff", "\ue000", "\U00010000", "\U0010ffff", "a\uFFFDb", "\uFFFD\uFFFD", "\u00e9\u20ac\U0001F600"}

// ... and the ill-formed sequences a decoder must reject: surrogates, overlong forms, truncated
// sequences, lone continuation bytes, code points above U+10FFFF, NUL
var specialInvalid = []string{"\xed\xa0\x80", "\xed\xbf\xbf", "\xc0\x80", "\xc1\xbf", "\xe0\x80\x80", "\xe0\x9f\xbf",
	"\xf0\x80\x80\x80", "\xf0\x8f\xbf\xbf", "\xc2", "\xe2\x82", "\xf0\x9f\x98", "a\xef\xbf", "\x80", "\xbf", "\xf4\x90\x80\x80",
	"\xf5\x80\x80\x80", "\xff", "\xfe", "\x00", "a\x00b", "\xef\xbf\xbd\x00"}

func genString(rng *rand.Rand, allowBad bool) string {
	switch k := rng.Intn(40); {
	case k < 24:
		return strPool[rng.Intn(len(strPool))]
	case k < 30:
		return specialValid[rng.Intn(len(specialValid))]
	case k < 34:
		n := rng.Intn(300)
		b := make([]byte, n)
		for i := range b {
			b[i] = byte('a' + rng.Intn(26))
		}
		return string(b)
	case k < 37 && allowBad:
		return specialInvalid[rng.Intn(len(specialInvalid))]
	case k < 38 && allowBad:
		return []string{"a+", "#"}[rng.Intn(2)]
	default:
		return strPool[rng.Intn(len(strPool))]
	}
}

// specialStringPackets: every special string in every string-typed field of the codec, one packet
// per (string, field); v = protocol version of the non-CONNECT packets.
func specialStringPackets(v byte, withInvalid bool) []*packets.Packet {
	strs := append([]string{}, specialValid...)
	if withInvalid {
		strs = append(strs, specialInvalid...)
	}
	var out []*packets.Packet
	mk := func(ty byte, f func(pk *packets.Packet)) {
		pk := &packets.Packet{ProtocolVersion: v, FixedHeader: packets.FixedHeader{Type: ty}}
		pk.Mods.AllowResponseInfo = true
		switch ty {
		case packets.Publish:
			pk.TopicName, pk.Payload = "t", []byte("p")
		case packets.Subscribe, packets.Unsubscribe:
			pk.FixedHeader.Qos, pk.PacketID = 1, 3
			pk.Filters = packets.Subscriptions{{Filter: "f", Qos: 1}}
		case packets.Connect:
			pk.Connect.ProtocolName = []byte("MQTT")
			if v == 3 {
				pk.Connect.ProtocolName = []byte("MQIsdp")
			}
			pk.Connect.ClientIdentifier = "c"
		}
		f(pk)
		out = append(out, pk)
	}
	for _, s := range strs {
		s := s
		mk(packets.Publish, func(pk *packets.Packet) { pk.TopicName = s })
		mk(packets.Publish, func(pk *packets.Packet) { pk.Properties.ContentType = s })
		mk(packets.Publish, func(pk *packets.Packet) { pk.Properties.ResponseTopic = s })
		mk(packets.Publish, func(pk *packets.Packet) { pk.Properties.User = []packets.UserProperty{{Key: s, Val: "v"}} })
		mk(packets.Publish, func(pk *packets.Packet) { pk.Properties.User = []packets.UserProperty{{Key: "k", Val: s}} })
		mk(packets.Subscribe, func(pk *packets.Packet) { pk.Filters[0].Filter = s })
		mk(packets.Unsubscribe, func(pk *packets.Packet) { pk.Filters[0].Filter = s })
		mk(packets.Connect, func(pk *packets.Packet) { pk.Connect.ClientIdentifier = s })
		mk(packets.Connect, func(pk *packets.Packet) {
			pk.Connect.WillFlag, pk.Connect.WillTopic, pk.Connect.WillPayload = true, s, []byte("w")
		})
		mk(packets.Connect, func(pk *packets.Packet) {
			pk.Connect.WillFlag, pk.Connect.WillTopic, pk.Connect.WillPayload = true, "w", []byte("w")
			pk.Connect.WillProperties.ContentType = s
		})
		mk(packets.Connect, func(pk *packets.Packet) { pk.Connect.UsernameFlag, pk.Connect.Username = true, []byte(s) })
		mk(packets.Connect, func(pk *packets.Packet) { pk.Properties.AuthenticationMethod = s })
		mk(packets.Connack, func(pk *packets.Packet) { pk.Properties.ReasonString = s })
		mk(packets.Connack, func(pk *packets.Packet) { pk.Properties.AssignedClientID = s })
		mk(packets.Connack, func(pk *packets.Packet) { pk.Properties.ResponseInfo = s })
		mk(packets.Connack, func(pk *packets.Packet) { pk.Properties.ServerReference = s })
		mk(packets.Puback, func(pk *packets.Packet) { pk.PacketID, pk.Properties.ReasonString = 5, s })
		mk(packets.Disconnect, func(pk *packets.Packet) { pk.Properties.ReasonString = s })
		mk(packets.Auth, func(pk *packets.Packet) { pk.ReasonCode, pk.Properties.AuthenticationMethod = 0x18, s })
	}
	return out
}

func genBytes(rng *rand.Rand) []byte {
	switch rng.Intn(6) {
	case 0:
		return nil
	case 1:
		return []byte{}
	case 2:
		return []byte{0}
	default:
		b := make([]byte, rng.Intn(12))
		rng.Read(b)
		return b
	}
}

func pick16(rng *rand.Rand) uint16 {
	return []uint16{0, 1, 2, 255, 256, 257, 65534, 65535, uint16(rng.Intn(65536))}[rng.Intn(9)]
}

func pick32(rng *rand.Rand) uint32 {
	return []uint32{0, 1, 255, 256, 65535, 65536, 16777215, 16777216, 4294967295, rng.Uint32()}[rng.Intn(10)]
}

func pickByte(rng *rand.Rand) byte {
	return []byte{0, 1, 2, 3, 127, 128, 255, byte(rng.Intn(256))}[rng.Intn(8)]
}

func pickSubID(rng *rand.Rand) int {
	return []int{0, 1, 127, 128, 16383, 16384, 2097151, 2097152, 268435455, rng.Intn(268435456)}[rng.Intn(10)]
}

// genProps fills every property with probability pr (whether or not it is valid for the packet
// type: the encoder is expected to filter).
func genProps(rng *rand.Rand, pr float64, allowBad bool) packets.Properties {
	p := packets.Properties{}
	on := func() bool { return rng.Float64() < pr }
	if on() {
		p.PayloadFormat, p.PayloadFormatFlag = pickByte(rng)%2, true
	}
	if on() {
		p.MessageExpiryInterval = pick32(rng)
	}
	if on() {
		p.ContentType = genString(rng, allowBad)
	}
	if on() {
		p.ResponseTopic = genString(rng, allowBad)
	}
	if on() {
		p.CorrelationData = genBytes(rng)
	}
	if on() {
		n := 1 + rng.Intn(3)
		for i := 0; i < n; i++ {
			p.SubscriptionIdentifier = append(p.SubscriptionIdentifier, pickSubID(rng))
		}
	}
	if on() {
		p.SessionExpiryInterval, p.SessionExpiryIntervalFlag = pick32(rng), true
	}
	if on() {
		p.AssignedClientID = genString(rng, allowBad)
	}
	if on() {
		p.ServerKeepAlive, p.ServerKeepAliveFlag = pick16(rng), true
	}
	if on() {
		p.AuthenticationMethod = genString(rng, allowBad)
	}
	if on() {
		p.AuthenticationData = genBytes(rng)
	}
	if on() {
		p.RequestProblemInfo, p.RequestProblemInfoFlag = pickByte(rng)%2, true
	}
	if on() {
		p.WillDelayInterval = pick32(rng)
	}
	if on() {
		p.RequestResponseInfo = pickByte(rng) % 2
	}
	if on() {
		p.ResponseInfo = genString(rng, allowBad)
	}
	if on() {
		p.ServerReference = genString(rng, allowBad)
	}
	if on() {
		p.ReasonString = genString(rng, allowBad)
	}
	if on() {
		p.ReceiveMaximum = pick16(rng)
	}
	if on() {
		p.TopicAliasMaximum = pick16(rng)
	}
	if on() {
		p.TopicAlias, p.TopicAliasFlag = pick16(rng), true
	}
	if on() {
		p.MaximumQos, p.MaximumQosFlag = pickByte(rng)%3, true
	}
	if on() {
		p.RetainAvailable, p.RetainAvailableFlag = pickByte(rng)%2, true
	}
	if on() {
		n := 1 + rng.Intn(3)
		for i := 0; i < n; i++ {
			p.User = append(p.User, packets.UserProperty{Key: genString(rng, allowBad), Val: genString(rng, allowBad)})
		}
	}
	if on() {
		p.MaximumPacketSize = pick32(rng)
	}
	if on() {
		p.WildcardSubAvailable, p.WildcardSubAvailableFlag = pickByte(rng)%2, true
	}
	if on() {
		p.SubIDAvailable, p.SubIDAvailableFlag = pickByte(rng)%2, true
	}
	if on() {
		p.SharedSubAvailable, p.SharedSubAvailableFlag = pickByte(rng)%2, true
	}
	return p
}

var ackCodes = []byte{0, 0x10, 0x11, 0x80, 0x83, 0x87, 0x90, 0x91, 0x92, 0x97, 0x99}

// genPacket builds a packet of type ty for protocol version v with varied field values.
func genPacket(rng *rand.Rand, ty byte, v byte, allowBad bool) *packets.Packet {
	pk := &packets.Packet{ProtocolVersion: v, FixedHeader: packets.FixedHeader{Type: ty}}
	pr := []float64{0, 0.1, 0.3, 0.7}[rng.Intn(4)]
	pk.Properties = genProps(rng, pr, allowBad)
	switch rng.Intn(6) {
	case 0:
		pk.Mods.AllowResponseInfo = false
	default:
		pk.Mods.AllowResponseInfo = true
	}
	if rng.Intn(8) == 0 {
		pk.Mods.DisallowProblemInfo = true
	}
	if rng.Intn(6) == 0 {
		pk.Mods.MaxSize = []uint32{1, 5, 20, 60, 200, 4294967295}[rng.Intn(6)]
	}
	switch ty {
	case packets.Connect:
		c := &pk.Connect
		switch v {
		case 3:
			c.ProtocolName = []byte("MQIsdp")
		default:
			c.ProtocolName = []byte("MQTT")
		}
		if allowBad && rng.Intn(10) == 0 {
			c.ProtocolName = genBytes(rng)
		}
		c.Clean = rng.Intn(2) == 0
		c.Keepalive = pick16(rng)
		c.ClientIdentifier = genString(rng, allowBad)
		if rng.Intn(2) == 0 {
			c.WillFlag = true
			c.WillQos = byte(rng.Intn(3))
			c.WillRetain = rng.Intn(2) == 0
			c.WillTopic = genString(rng, allowBad)
			c.WillPayload = genBytes(rng)
			c.WillProperties = genProps(rng, pr, allowBad)
		}
		if rng.Intn(2) == 0 {
			c.UsernameFlag = true
			c.Username = genBytes(rng)
		}
		if rng.Intn(2) == 0 {
			c.PasswordFlag = true
			c.Password = genBytes(rng)
		}
	case packets.Connack:
		pk.SessionPresent = rng.Intn(2) == 0
		pk.ReasonCode = []byte{0, 1, 2, 3, 4, 5, 0x80, 0x84, 0x86, 0x87, 0x9f}[rng.Intn(11)]
	case packets.Publish:
		pk.FixedHeader.Qos = byte(rng.Intn(3))
		pk.FixedHeader.Retain = rng.Intn(2) == 0
		if pk.FixedHeader.Qos > 0 {
			pk.FixedHeader.Dup = rng.Intn(2) == 0
			pk.PacketID = pick16(rng)
			if pk.PacketID == 0 && rng.Intn(4) != 0 {
				pk.PacketID = 7
			}
		}
		pk.TopicName = genString(rng, allowBad)
		pk.Payload = genBytes(rng)
		if rng.Intn(20) == 0 {
			pk.Payload = make([]byte, 100+rng.Intn(400))
			rng.Read(pk.Payload)
		}
	case packets.Puback, packets.Pubrec, packets.Pubrel, packets.Pubcomp:
		if ty == packets.Pubrel {
			pk.FixedHeader.Qos = 1
		}
		pk.PacketID = pick16(rng)
		pk.ReasonCode = ackCodes[rng.Intn(len(ackCodes))]
	case packets.Subscribe, packets.Unsubscribe:
		pk.FixedHeader.Qos = 1
		pk.PacketID = pick16(rng)
		if pk.PacketID == 0 && rng.Intn(4) != 0 {
			pk.PacketID = 9
		}
		n := rng.Intn(4)
		if n == 0 && rng.Intn(3) != 0 {
			n = 1
		}
		for i := 0; i < n; i++ {
			s := packets.Subscription{Filter: genString(rng, allowBad)}
			if ty == packets.Subscribe {
				s.Qos = byte(rng.Intn(3))
				if v == 5 {
					s.NoLocal = rng.Intn(2) == 0
					s.RetainAsPublished = rng.Intn(2) == 0
					s.RetainHandling = byte(rng.Intn(3))
				}
			}
			pk.Filters = append(pk.Filters, s)
		}
	case packets.Suback, packets.Unsuback:
		pk.PacketID = pick16(rng)
		n := rng.Intn(4)
		for i := 0; i < n; i++ {
			pk.ReasonCodes = append(pk.ReasonCodes, []byte{0, 1, 2, 0x11, 0x80, 0x87, 0x8f}[rng.Intn(7)])
		}
	case packets.Disconnect:
		pk.ReasonCode = []byte{0, 4, 0x80, 0x81, 0x8d, 0x8e, 0x93, 0x95}[rng.Intn(8)]
	case packets.Auth:
		pk.ReasonCode = []byte{0, 0x18, 0x19}[rng.Intn(3)]
	}
	return pk
}

// encodeReal runs the real encoder under recover(); ok=false on a returned error.
func encodeReal(pk *packets.Packet) (out []byte, outcome int) {
	defer func() {
		if r := recover(); r != nil {
			out, outcome = nil, outPanic
		}
	}()
	cp := *pk // the encoders write FixedHeader.Remaining into the receiver
	buf := new(bytes.Buffer)
	if err := encodeSwitch(&cp, buf); err != nil {
		return nil, outErr
	}
	return append([]byte{}, buf.Bytes()...), outOK
}

var allTypes = []byte{packets.Connect, packets.Connack, packets.Publish, packets.Puback, packets.Pubrec, packets.Pubrel,
	packets.Pubcomp, packets.Subscribe, packets.Suback, packets.Unsubscribe, packets.Unsuback, packets.Pingreq,
	packets.Pingresp, packets.Disconnect, packets.Auth}
