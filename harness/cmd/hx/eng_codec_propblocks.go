package main

// Structured stream of property blocks for codec_total (C27): well-formed blocks of one to three
// properties in which exactly one field is broken — a string / binary length, the key or the value
// length of a user property, an invalid UTF-8 key, a truncated fixed-size value or variable byte
// integer — placed in layouts that make a decoder which mishandles the error (continues after a
// failed field, restarts from offset 0 of the block, ...) either accept the block or never
// terminate: the block is arranged so that offset 0 of the block is itself a decodable
// length-prefixed UTF-8 string (the first two bytes of the block, read as a length L, are followed
// by at least L bytes of NUL-free ASCII), the broken property sits inside or after that region, is
// optionally repeated, and the declared block length either covers everything or ends right after
// the region.  Every packet type with a property block is used as carrier, with the properties
// valid for it.

import (
	"bytes"

	"github.com/mochi-mqtt/server/v2/packets"
)

type propCarrier struct {
	ty     byte
	qos    byte
	pre    []byte // body bytes before the property block
	post   []byte // body bytes after it
	ids    []byte // properties valid for this packet type (validPacketProperties)
	remAll bool
}

var propCarriers = []propCarrier{
	{ty: packets.Publish, pre: []byte{0, 1, 'a'}, post: []byte("pay"), ids: []byte{1, 2, 3, 8, 9, 11, 35, 38}},
	{ty: packets.Connack, pre: []byte{0, 0}, ids: []byte{17, 18, 19, 21, 22, 26, 28, 31, 33, 34, 36, 37, 38, 39, 40, 41, 42}},
	{ty: packets.Connect, pre: []byte{0, 4, 'M', 'Q', 'T', 'T', 5, 2, 0, 30}, post: []byte{0, 1, 'c'}, ids: []byte{17, 21, 22, 23, 25, 33, 34, 38, 39}},
	{ty: packets.Connect, pre: []byte{0, 4, 'M', 'Q', 'T', 'T', 5, 6, 0, 30, 0, 0, 1, 'c'}, post: []byte{0, 1, 't', 0, 1, 'p'}, ids: []byte{1, 2, 3, 8, 9, 24, 38}}, // will properties
	{ty: packets.Puback, pre: []byte{0, 1, 0}, ids: []byte{31, 38}},
	{ty: packets.Pubrel, qos: 1, pre: []byte{0, 1, 0}, ids: []byte{31, 38}},
	{ty: packets.Subscribe, qos: 1, pre: []byte{0, 1}, post: []byte{0, 1, 'a', 1}, ids: []byte{11, 38}},
	{ty: packets.Suback, pre: []byte{0, 1}, post: []byte{0}, ids: []byte{31, 38}},
	{ty: packets.Unsubscribe, qos: 1, pre: []byte{0, 1}, post: []byte{0, 1, 'a'}, ids: []byte{38}},
	{ty: packets.Unsuback, pre: []byte{0, 1}, post: []byte{0}, ids: []byte{31, 38}},
	{ty: packets.Disconnect, pre: []byte{0}, ids: []byte{17, 28, 31, 38}},
	{ty: packets.Auth, pre: []byte{0}, ids: []byte{21, 22, 31, 38}},
}

// wire kind of a property identifier
func propKind(id byte) byte {
	switch id {
	case 1, 23, 25, 36, 37, 40, 41, 42:
		return 'b'
	case 19, 33, 34, 35:
		return 'h'
	case 2, 17, 24, 39:
		return 'w'
	case 3, 8, 18, 21, 26, 28, 31:
		return 's'
	case 9, 22:
		return 'd'
	case 11:
		return 'v'
	case 38:
		return 'u'
	}
	return 0
}

func asciiFill(n int) []byte { return bytes.Repeat([]byte{'a'}, n) }

// a well-formed property with a value of about size bytes
func goodProp(id byte, size int) []byte {
	switch propKind(id) {
	case 'b':
		return []byte{id, 1}
	case 'h':
		return []byte{id, 1, 1}
	case 'w':
		return []byte{id, 1, 1, 1, 1}
	case 's', 'd':
		return cat([]byte{id}, refU16(size), asciiFill(size))
	case 'v':
		return []byte{id, 1}
	case 'u':
		return cat([]byte{id}, refU16(1), []byte{'k'}, refU16(size), asciiFill(size))
	}
	return []byte{id}
}

// broken variants of property id, given that `avail` bytes would remain after it
func brokenProps(id byte) [][]byte {
	over := func(n int) []byte { return refU16(n) }
	switch propKind(id) {
	case 'b':
		return [][]byte{{id}}
	case 'h':
		return [][]byte{{id}, {id, 1}}
	case 'w':
		return [][]byte{{id}, {id, 1, 1, 1}}
	case 's', 'd':
		return [][]byte{
			cat([]byte{id}, over(50111), []byte("abc")),
			cat([]byte{id}, over(4), []byte("abc")),
			cat([]byte{id}, over(65535)),
			{id, 0},
			cat([]byte{id}, over(2), []byte{0xff, 0xfe}), // invalid UTF-8 (strings only)
		}
	case 'v':
		return [][]byte{{id}, {id, 0x80}, {id, 0xff, 0xff, 0xff, 0xff, 0x01}}
	case 'u':
		val := cat(refU16(3), []byte("val"))
		return [][]byte{
			cat([]byte{id}, over(50111), []byte("ke"), val),                 // key length exceeds, a well-formed value follows
			cat([]byte{id}, []byte{0xc3, 0xbf}, asciiFill(40)),              // key length 50111 with few bytes available
			cat([]byte{id}, over(9), []byte("ke"), val),                     // key runs into the value
			cat([]byte{id}, over(2), []byte{0xff, 0xfe}, val),               // invalid UTF-8 key, good value
			cat([]byte{id}, over(2), []byte{'k', 0}, val),                   // NUL in key
			cat([]byte{id}, over(1), []byte("k"), over(50111), []byte("v")), // value length exceeds
			cat([]byte{id}, over(1), []byte("k"), over(2), []byte{0xff, 0xfe}),
			cat([]byte{id}, over(1), []byte("k")), // no value at all
			{id, 0},
		}
	}
	return nil
}

// niceLen: a 16-bit length whose two bytes are NUL-free ASCII, so that the length field itself can
// be part of a UTF-8 string
func niceLen(n int) bool {
	return n >= 257 && n <= 0x7f7f && n&0xff >= 1 && n&0xff <= 0x7f
}

// nulFreeProp: a well-formed property of the given string-like identifier whose encoding contains
// no NUL byte and only ASCII: all lengths are "nice"; total is the exact encoded size wanted
// (0 = smallest).  ok=false when the size cannot be met.
func nulFreeProp(id byte, total int) ([]byte, bool) {
	switch propKind(id) {
	case 's', 'd':
		if total == 0 {
			total = 3 + 257
		}
		if !niceLen(total - 3) {
			return nil, false
		}
		return cat([]byte{id}, refU16(total-3), asciiFill(total-3)), true
	case 'u':
		if total == 0 {
			total = 5 + 257 + 257
		}
		v := total - 5 - 257
		if !niceLen(v) {
			return nil, false
		}
		return cat([]byte{id}, refU16(257), asciiFill(257), refU16(v), asciiFill(v)), true
	}
	return nil, false
}

// fillExact: exactly total bytes of well-formed NUL-free ASCII properties valid for the carrier
func fillExact(c *propCarrier, total int) ([]byte, bool) {
	var sid byte
	for _, id := range c.ids {
		if k := propKind(id); k == 's' || k == 'd' {
			sid = id
			break
		}
	}
	if sid == 0 {
		sid = 38
	}
	unit, _ := nulFreeProp(sid, 0)
	for j := 0; j < 80; j++ {
		rest := total - j*len(unit)
		if rest <= 0 {
			break
		}
		if last, ok := nulFreeProp(sid, rest); ok {
			return cat(bytes.Repeat(unit, j), last), true
		}
	}
	// a second string of adjustable size brings the last length into the "nice" range quickly
	for j := 0; j < 40; j++ {
		for extra := 0x0101; extra <= 0x017f; extra++ {
			rest := total - j*len(unit) - (3 + extra)
			if rest <= 0 {
				break
			}
			if last, ok := nulFreeProp(sid, rest); ok && propKind(sid) != 'u' {
				mid, _ := nulFreeProp(sid, 3+extra)
				return cat(bytes.Repeat(unit, j), mid, last), true
			}
		}
	}
	if total > 1200 {
		return nil, false // thousands of tiny properties would only slow the model down
	}
	// small totals: fixed-size properties (identifier followed by 01 bytes), two sizes combined
	var fixed [][]byte
	for _, id := range c.ids {
		switch propKind(id) {
		case 'b', 'h', 'w', 'v':
			fixed = append(fixed, goodProp(id, 0))
		}
	}
	for _, a := range fixed {
		for _, b := range fixed {
			for na := 0; na*len(a) <= total; na++ {
				if r := total - na*len(a); r%len(b) == 0 {
					return cat(bytes.Repeat(a, na), bytes.Repeat(b, r/len(b))), true
				}
			}
		}
	}
	return nil, false
}

func propBlockCases(q *decQueue, thorough bool) {
	for _, c := range propCarriers {
		emit := func(block []byte, declared int) {
			body := cat(c.pre, refVbi(declared), block, c.post)
			fh := fhFor(c.ty, c.qos, len(body))
			q.body(5, fh, body)
		}
		first := c.ids[0]
		for _, id := range c.ids {
			for bi, bad := range brokenProps(id) {
				// (1) the broken property alone, after one good property, before one good property
				for _, other := range []byte{c.ids[0], c.ids[len(c.ids)-1]} {
					emit(bad, len(bad))
					emit(cat(goodProp(other, 3), bad), len(goodProp(other, 3))+len(bad))
					emit(cat(bad, goodProp(other, 3)), len(bad)+len(goodProp(other, 3)))
					emit(cat(goodProp(other, 3), bad, goodProp(first, 2)), len(goodProp(other, 3))+len(bad)+len(goodProp(first, 2)))
				}
				// (2) offset 0 of the block decodable as a string: head = first good property, whose
				// first two bytes read as the length L; fill up with a long ASCII property
				var heads [][]byte
				if h, ok := nulFreeProp(first, 0); ok {
					heads = append(heads, h)
				} else {
					heads = append(heads, goodProp(first, 1)) // fixed-size kinds: id 01 [01 [01 01]]
				}
				for _, head := range heads {
					L := int(head[0])<<8 | int(head[1])
					if L > 60000 {
						continue
					}
					if L > 1000 && !thorough && !(propKind(id) == 'u' && bi < 4) {
						continue // the model needs ~3 ms per 10 kB body: in the quick tier the large regions only for broken user-property keys
					}
					// (a) broken property directly after the region: head + filler are exactly the 2+L
					// bytes of the offset-0 string (NUL-free ASCII), so a decoder that restarts at offset
					// 0 comes back to the broken property
					filler, ok := fillExact(&c, 2+L-len(head))
					if !ok {
						continue
					}
					region := cat(head, filler)
					fillID := byte(38)
					for _, rep := range []int{1, 2} {
						tail := bytes.Repeat(bad, rep)
						blk := cat(region, tail)
						emit(blk, len(blk))
						emit(blk, 2+L)         // declared length ends with the offset-0 string
						emit(blk, len(region)) // declared length excludes the broken property
						emit(cat(blk, goodProp(first, 2)), len(blk)+len(goodProp(first, 2)))
					}
					// (b) broken property inside the region (directly after the head)
					inner := cat(head, bad)
					pad := 2 + L - len(inner)
					if pad < 8 {
						pad = 8
					}
					blk := cat(inner, asciiFill(pad))
					emit(blk, len(blk))
					emit(blk, 2+L)
					blk2 := cat(inner, goodProp(fillID, pad))
					emit(blk2, len(blk2))
					emit(cat(blk2, bad), len(blk2)+len(bad))
				}
				if !thorough && propKind(id) != 'u' && propKind(id) != 's' {
					break // one broken variant of the fixed-size kinds in the quick tier
				}
			}
		}
	}
}
