package main

import (
	"bytes"
	"fmt"
	"math/rand"
	"os"
	"sort"
	"strconv"
	"strings"

	mqtt "github.com/mochi-mqtt/server/v2"
	"github.com/mochi-mqtt/server/v2/packets"

	"verifharness/broker"
	"verifharness/sx"
)

func init() { engines["writebuf"] = engWritebuf; engines["flushfault"] = engFlushfault }

// C34: accepted output is flushed, every dropped message is reported.  One case per history of one
// subscriber connection "c" with a small write buffer:
//
//	(thr (step ...))
//	step = ((ev ...) (chunkLen ...) (writtenKey ...) (reportedKey ...) (expectedSeq ...) (writtenSeq ...) (droppedSeq ...))
//	  ev = (src size): a packet written in this step, in wire order; src 0 = PUBLISH taken from the
//	       pending-writes queue by the write loop, 1 = written directly by the handler (CONNACK, SUBACK,
//	       PUBACK, PINGRESP); size = encoded length
//	  chunkLen = packets per Write call on the connection, in order
//	  writtenKey / reportedKey = (type, id, sequence number) of the packets written to the connection / reported by
//	       OnPacketSent in this step (each packed into one number), compared as multisets at quiescence
//	  expectedSeq = messages routed to "c" in this step; writtenSeq / droppedSeq = those written /
//	       reported by OnPublishDropped
type wbFrame struct {
	ty   byte
	size int
	pid  uint16
	seq  int
}

func splitFrames(version byte, data []byte) []wbFrame {
	var fs []wbFrame
	for len(data) > 0 {
		n, bu, err := packets.DecodeLength(bytes.NewReader(data[1:]))
		if err != nil || len(data) < 1+bu+n {
			break
		}
		total := 1 + bu + n
		f := wbFrame{ty: data[0] >> 4, size: total, seq: -1}
		pks, _, _ := broker.DecodeStream(version, data[:total])
		if len(pks) == 1 {
			f.pid = pks[0].PacketID
			if f.ty == packets.Publish {
				f.seq = seqOf(pks[0].Payload)
			}
		}
		fs = append(fs, f)
		data = data[total:]
	}
	return fs
}

func seqOf(payload []byte) int {
	s := string(payload)
	if i := strings.Index(s, "|"); i > 0 {
		if n, err := strconv.Atoi(s[:i]); err == nil {
			return n
		}
	}
	return -1
}

// wbKey identifies a packet: type, packet id and (for a PUBLISH) the sequence number in its payload.
func wbKey(ty byte, pid uint16, seq int) uint64 {
	return uint64(ty)<<48 | uint64(pid)<<32 | uint64(seq+1)
}

func nlist(xs []uint64) sx.L {
	l := sx.L{}
	for _, x := range xs {
		l = append(l, sx.N(x))
	}
	return l
}

func engWritebuf(seed int64, tier string, _ []string, out *sx.Out) {
	rng := rand.New(rand.NewSource(seed))
	histories, steps := 240, 14
	if tier == "thorough" {
		histories, steps = 6000, 24
	}
	debug := os.Getenv("HX_DEBUG") != ""
	for h := 0; h < histories; h++ {
		flavour := h % 3 // 0 = oversized packets, 1 = small pending-writes queue, 2 = small in-flight store
		caps := mqtt.NewDefaultServerCapabilities()
		cmax := uint32(0)
		switch flavour {
		case 0:
			cmax = 50
		case 1:
			caps.MaximumClientWritesPending = int32(1 + rng.Intn(3))
		case 2:
			caps.MaximumInflight = 3
		}
		thr := []int{64, 16, 200, 64}[(h/3)%4]
		b := broker.New(broker.Opts{Caps: caps, Auth: broker.AllowAuth, ACL: broker.AllowACL, WriteBufferSize: thr})
		cpk := broker.ConnectPk("c", 5, true)
		cpk.Properties.MaximumPacketSize = cmax
		c := b.Connect("10.0.0.2:1", cpk)
		p := b.Connect("10.0.0.1:1", broker.ConnectPk("p", 4, true))
		chunkPos := 0
		seq := 0
		stepsL := sx.L{}
		bad := ""
		large := map[int]bool{}
		var log []string
		mk := func(self bool) packets.Packet {
			seq++
			topic, qos, pid := "w/a", byte(0), uint16(0)
			if rng.Intn(2) == 0 {
				topic, qos, pid = "x/a", 1, uint16(1+seq%60000)
			}
			pad := rng.Intn(6)
			if flavour == 0 && rng.Intn(3) == 0 {
				pad = 60 // larger than the subscriber's Maximum Packet Size
				large[seq] = true
			}
			return broker.PublishPk(topic, []byte(fmt.Sprintf("%d|%s", seq, strings.Repeat("z", pad))), qos, false, pid)
		}
		finish := func(expected []int) {
			var frames [][]wbFrame
			for _, ch := range c.MC.ChunksFrom(chunkPos) {
				frames = append(frames, splitFrames(5, ch.Data))
				chunkPos++
			}
			evs := b.Rec.Drain()
			b.Drain()
			var wkeys, rkeys []uint64
			var wseq, dseq []int
			evl, chunks := sx.L{}, sx.L{}
			for _, fr := range frames {
				chunks = append(chunks, sx.N(uint64(len(fr))))
				for _, f := range fr {
					wkeys = append(wkeys, wbKey(f.ty, f.pid, f.seq))
					src := 1
					if f.ty == packets.Publish {
						src = 0
						wseq = append(wseq, f.seq)
					}
					evl = append(evl, sx.L{sx.N(uint64(src)), sx.N(uint64(f.size))})
				}
			}
			for _, e := range evs {
				if e.Client != "c" {
					continue
				}
				switch e.Name {
				case "PacketSent":
					rs := -1
					if e.Pk.FixedHeader.Type == packets.Publish {
						rs = seqOf(e.Pk.Payload)
					}
					rkeys = append(rkeys, wbKey(e.Pk.FixedHeader.Type, e.Pk.PacketID, rs))
				case "PublishDropped":
					dseq = append(dseq, seqOf(e.Pk.Payload))
				}
			}
			il := func(xs []int) sx.L {
				l := sx.L{}
				for _, x := range xs {
					l = append(l, sx.N(uint64(x)))
				}
				return l
			}
			stepsL = append(stepsL, sx.L{evl, chunks, nlist(wkeys), nlist(rkeys), il(expected), il(wseq), il(dseq)})
			if debug {
				a := append([]uint64{}, wkeys...)
				r := append([]uint64{}, rkeys...)
				sort.Slice(a, func(i, j int) bool { return a[i] < a[j] })
				sort.Slice(r, func(i, j int) bool { return r[i] < r[j] })
				msg := ""
				if fmt.Sprint(a) != fmt.Sprint(r) {
					msg += fmt.Sprintf(" STRANDED/UNREPORTED written=%d reported=%d", len(a), len(r))
				}
				got := map[int]bool{}
				for _, x := range wseq {
					got[x] = true
				}
				for _, x := range dseq {
					got[x] = true
				}
				for _, e := range expected {
					if !got[e] {
						msg += fmt.Sprintf(" LOST seq %d (large=%v)", e, large[e])
					}
				}
				log = append(log, fmt.Sprintf("step exp=%v wseq=%v dseq=%v chunks=%s%s", expected, wseq, dseq, sx.String(chunks), msg))
				if msg != "" {
					bad = msg
				}
			}
		}
		finish(nil)
		_ = b.SendPacket(c, broker.SubscribePk(1, packets.Subscription{Filter: "w/#", Qos: 0}, packets.Subscription{Filter: "x/#", Qos: 1}))
		finish(nil)
		for i := 0; i < steps && !b.Hung && !c.MC.Closed(); i++ {
			switch k := rng.Intn(100); {
			case k < 55: // a burst from the publisher, in one read
				var data []byte
				var exp []int
				for j, n := 0, 1+rng.Intn(8); j < n; j++ {
					pk := mk(false)
					pk.ProtocolVersion = p.Version
					enc, _ := broker.Encode(pk)
					data = append(data, enc...)
					exp = append(exp, seq)
				}
				b.Send(p, data)
				finish(exp)
			case k < 75: // the subscriber publishes to itself: direct acknowledgements between queued publishes
				var data []byte
				var exp []int
				for j, n := 0, 2+rng.Intn(5); j < n; j++ {
					pk := mk(true)
					pk.ProtocolVersion = c.Version
					enc, _ := broker.Encode(pk)
					data = append(data, enc...)
					exp = append(exp, seq)
				}
				b.Send(c, data)
				finish(exp)
			case k < 90: // acknowledge what is outstanding (frees the in-flight store)
				if cs := snapClient(b.Srv.VerifSnapshot(), "c"); cs != nil {
					var data []byte
					for _, r := range cs.Inflight {
						if r.Type == packets.Publish {
							pk := broker.AckPk(packets.Puback, r.PacketID, 0)
							pk.ProtocolVersion = 5
							enc, _ := broker.Encode(pk)
							data = append(data, enc...)
						}
					}
					if len(data) > 0 {
						b.Send(c, data)
						finish(nil)
					}
				}
			default:
				_ = b.SendPacket(c, broker.PingPk())
				finish(nil)
			}
		}
		if b.Hung {
			out.Comment("hung")
		}
		if debug && bad != "" {
			fmt.Fprintf(os.Stderr, "== history %d flavour %d thr %d cmax %d:%s\n%s\n", h, flavour, thr, cmax, bad, strings.Join(log, "\n"))
		}
		out.Case(sx.L{sx.N(uint64(thr)), stepsL})
		b.Shutdown()
	}
}

// engFlushfault (C34, clause "nothing is stranded in an internal buffer because a later write
// failed"): a subscriber with a small write buffer publishes a burst to itself, so direct
// acknowledgements are parked in the buffer between queued publishes, and ONE Write call on its
// connection fails (a transient fault) during the burst; afterwards a PINGREQ.  At quiescence every
// packet reported by OnPacketSent must be on the wire unless the connection was closed.
//
//	case = (thr (reportedKey ...) (writtenKey ...) closed fault_consumed)
func engFlushfault(seed int64, tier string, _ []string, out *sx.Out) {
	rng := rand.New(rand.NewSource(seed))
	histories := 300
	if tier == "thorough" {
		histories = 6000
	}
	for h := 0; h < histories; h++ {
		thr := []int{64, 16, 200, 1024}[h%4]
		b := broker.New(broker.Opts{Auth: broker.AllowAuth, ACL: broker.AllowACL, WriteBufferSize: thr})
		c := b.Connect("10.0.0.2:1", broker.ConnectPk("c", 5, true))
		_ = b.SendPacket(c, broker.SubscribePk(1, packets.Subscription{Filter: "w/#", Qos: 0}, packets.Subscription{Filter: "x/#", Qos: 1}))
		b.Drain()
		b.Rec.Drain()
		chunkPos := len(c.MC.ChunksFrom(0))
		var wkeys, rkeys []uint64
		collect := func() {
			for _, ch := range c.MC.ChunksFrom(chunkPos) {
				for _, f := range splitFrames(5, ch.Data) {
					wkeys = append(wkeys, wbKey(f.ty, f.pid, f.seq))
				}
				chunkPos++
			}
			for _, e := range b.Rec.Drain() {
				if e.Client == "c" && e.Name == "PacketSent" {
					rs := -1
					if e.Pk.FixedHeader.Type == packets.Publish {
						rs = seqOf(e.Pk.Payload)
					}
					rkeys = append(rkeys, wbKey(e.Pk.FixedHeader.Type, e.Pk.PacketID, rs))
				}
			}
			b.Drain()
		}
		seq := 0
		burst := func(n int) []byte {
			var data []byte
			for j := 0; j < n; j++ {
				seq++
				topic, qos, pid := "x/a", byte(1), uint16(seq)
				if rng.Intn(4) == 0 {
					topic, qos, pid = "w/a", 0, 0
				}
				pk := broker.PublishPk(topic, []byte(fmt.Sprintf("%d|%s", seq, strings.Repeat("z", rng.Intn(6)))), qos, false, pid)
				pk.ProtocolVersion = 5
				enc, _ := broker.Encode(pk)
				data = append(data, enc...)
			}
			return data
		}
		if rng.Intn(2) == 0 {
			b.Send(c, burst(1+rng.Intn(3))) // some traffic before the fault
			collect()
		}
		c.MC.FailNext(1)
		b.Send(c, burst(1+rng.Intn(6)))
		collect()
		consumed := c.MC.FailPending() == 0
		c.MC.FailNext(0)
		if !c.MC.Closed() && !b.Hung {
			_ = b.SendPacket(c, broker.PingPk())
			collect()
		}
		out.Case(sx.L{sx.N(uint64(thr)), nlist(rkeys), nlist(wkeys), sx.Bool(c.MC.Closed() || b.Hung), sx.Bool(consumed)})
		b.Shutdown()
	}
}
