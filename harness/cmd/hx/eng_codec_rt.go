package main

// codec_rt (C26): (kind 2) generated Packet values of all 15 types x protocol versions 3/4/5 with
// varied field values (empty / long / maximum-length strings and binary data, multi-byte UTF-8,
// boundary integers, repeated user properties and subscription identifiers, properties that are
// not valid for the packet type, all Mods combinations) go through the real encoder, and the
// encoder's output through the real fixed-header + body decoders; (kind 3) byte strings the real
// decoder accepts (catalogue vectors, mutated encoder outputs, reference encodings in all forms)
// are decoded, re-encoded and decoded again.  Input values, encoder output bytes and all decoded
// fields are emitted; the comparison with the model (byte-exact) and with the round-trip
// specification is made on the Coq side.

import (
	"bytes"
	"io"
	"math/rand"
	"strings"

	"github.com/mochi-mqtt/server/v2/packets"

	"verifharness/sx"
)

func init() { engines["codec_rt"] = engCodecRT }

func projMods(m packets.Mods) sx.V {
	return sx.L{sx.N(m.MaxSize), sx.Bool(m.DisallowProblemInfo), sx.Bool(m.AllowResponseInfo)}
}

// runStreamPk is runStream returning the decoded packet itself.
func runStreamPk(v byte, bs []byte) (outcome int, pk *packets.Packet, unread []byte) {
	outcome = outErr
	r := bytes.NewReader(bs)
	b, err := r.ReadByte()
	if err != nil {
		return
	}
	fh := packets.FixedHeader{}
	if err = fh.Decode(b); err != nil {
		return
	}
	if fh.Remaining, _, err = packets.DecodeLength(r); err != nil {
		return
	}
	if r.Len() < fh.Remaining {
		return
	}
	p := make([]byte, fh.Remaining)
	if _, err = io.ReadFull(r, p); err != nil {
		return
	}
	unread = bs[len(bs)-r.Len():]
	pk = &packets.Packet{ProtocolVersion: v, FixedHeader: fh}
	defer func() {
		if rc := recover(); rc != nil {
			outcome, pk, unread = outPanic, nil, nil
		}
	}()
	if err = decodeSwitch(pk, exact(p)); err != nil {
		return outErr, nil, nil
	}
	return outOK, pk, unread
}

func rtCase(pk *packets.Packet) sx.V {
	in := projPacket(pk)
	enc, eo := encodeReal(pk)
	if eo != outOK {
		return sx.L{sx.N(2), projMods(pk.Mods), in, sx.N(uint64(eo)), sx.B(nil), sx.N(1), sx.L{}, sx.B(nil)}
	}
	do, proj, unread := runStream(pk.ProtocolVersion, enc)
	return sx.L{sx.N(2), projMods(pk.Mods), in, sx.N(uint64(eo)), sx.B(enc), sx.N(uint64(do)), proj, sx.B(unread)}
}

func reCase(v byte, bs []byte) sx.V {
	d1, pk, _ := runStreamPk(v, bs)
	if d1 != outOK {
		return sx.L{sx.N(3), sx.N(v), sx.B(bs), sx.N(uint64(d1)), sx.L{}, projMods(packets.Mods{}), sx.N(1), sx.B(nil), sx.N(1), sx.L{}, sx.B(nil)}
	}
	proj1 := projPacket(pk)
	pk.Mods = packets.Mods{AllowResponseInfo: true}
	enc, eo := encodeReal(pk)
	if eo != outOK {
		return sx.L{sx.N(3), sx.N(v), sx.B(bs), sx.N(0), proj1, projMods(pk.Mods), sx.N(uint64(eo)), sx.B(nil), sx.N(1), sx.L{}, sx.B(nil)}
	}
	d2, proj2, unread2 := runStream(pk.ProtocolVersion, enc)
	return sx.L{sx.N(3), sx.N(v), sx.B(bs), sx.N(0), proj1, projMods(pk.Mods), sx.N(uint64(eo)), sx.B(enc), sx.N(uint64(d2)), proj2, sx.B(unread2)}
}

func engCodecRT(seed int64, tier string, _ []string, out *sx.Out) {
	rng := rand.New(rand.NewSource(seed))
	thorough := tier == "thorough"

	// (i) the catalogue packets themselves (the values the existing tests encode)
	for _, ty := range allTypes {
		for _, c := range packets.TPacketData[ty] {
			if c.Packet == nil || c.Packet.FixedHeader.Type != ty {
				continue
			}
			cp := *c.Packet
			out.Case(rtCase(&cp))
			cp2 := *c.Packet
			cp2.Mods.AllowResponseInfo = true
			out.Case(rtCase(&cp2))
		}
	}

	// (ii) boundary field values: every type x version with extreme strings / integers
	long := strings.Repeat("x", 65535)
	tooLong := strings.Repeat("y", 65536)
	multi := strings.Repeat("世", 21845) // 65535 bytes of three-byte characters
	for _, v := range []byte{3, 4, 5} {
		strs := []string{"", "a", strings.Repeat("x", 300), strings.Repeat("世", 100), "\U0001F600", "a\x00b", "\xff"}
		if thorough {
			strs = append(strs, long, multi, tooLong)
		} else if v == 5 {
			strs = append(strs, long) // the maximum length once per run; every version in the thorough tier
		} else if v == 4 {
			strs = append(strs, tooLong)
		}
		for _, s := range strs {
			pk := &packets.Packet{ProtocolVersion: v, FixedHeader: packets.FixedHeader{Type: packets.Publish, Qos: 1}, PacketID: 65535, TopicName: s, Payload: []byte("p")}
			pk.Mods.AllowResponseInfo = true
			pk.Properties.ContentType = s
			pk.Properties.User = []packets.UserProperty{{Key: s, Val: "v"}, {Key: "k", Val: s}}
			pk.Properties.CorrelationData = []byte(s)
			out.Case(rtCase(pk))
			if len(s) > 1000 && !thorough && v != 5 {
				continue // the model evaluates ~0.5 s per maximum-length packet: one of each kind in the quick tier
			}
			sub := &packets.Packet{ProtocolVersion: v, FixedHeader: packets.FixedHeader{Type: packets.Subscribe, Qos: 1}, PacketID: 1,
				Filters: packets.Subscriptions{{Filter: s, Qos: 2}, {Filter: "b", Qos: 1, NoLocal: true, RetainHandling: 2}}}
			sub.Properties.SubscriptionIdentifier = []int{268435455}
			out.Case(rtCase(sub))
			cn := &packets.Packet{ProtocolVersion: v, FixedHeader: packets.FixedHeader{Type: packets.Connect}}
			cn.Connect.ProtocolName = []byte("MQTT")
			if v == 3 {
				cn.Connect.ProtocolName = []byte("MQIsdp")
			}
			cn.Connect.ClientIdentifier = s
			cn.Connect.WillFlag, cn.Connect.WillTopic, cn.Connect.WillPayload, cn.Connect.WillQos = true, s, []byte(s), 2
			cn.Connect.UsernameFlag, cn.Connect.Username = true, []byte(s)
			cn.Connect.PasswordFlag, cn.Connect.Password = true, []byte(s)
			cn.Connect.Keepalive = 65535
			out.Case(rtCase(cn))
		}
	}

	// (ii') every special code point / ill-formed sequence in every string-typed field
	for _, v := range []byte{4, 5} {
		for _, pk := range specialStringPackets(v, true) {
			out.Case(rtCase(pk))
		}
	}

	// (iii) generated packets
	n := 20000
	if thorough {
		n = 500000
	}
	for i := 0; i < n; i++ {
		ty := allTypes[rng.Intn(len(allTypes))]
		v := []byte{3, 4, 5, 5, 5}[rng.Intn(5)]
		pk := genPacket(rng, ty, v, rng.Intn(5) == 0)
		out.Case(rtCase(pk))
	}

	// (iv) accepted byte strings re-encoded: catalogue, reference encodings in all forms, mutated
	// encoder outputs
	for _, cv := range catalogue() {
		for _, v := range []byte{3, 4, 5} {
			out.Case(reCase(v, cv.raw))
		}
	}
	m := 4000
	if thorough {
		m = 100000
	}
	for i := 0; i < m; i++ {
		v := []byte{3, 4, 5, 5, 5}[rng.Intn(5)]
		ty := allTypes[rng.Intn(len(allTypes))]
		if ty == 15 {
			v = 5
		}
		p := genRefPacket(rng, ty, v)
		perms := orderPreservingPerms(p.props, 2, rng)
		for _, ps := range perms[:1+rng.Intn(len(perms))] {
			for _, b := range p.bodies(ps, p.will) {
				out.Case(reCase(p.v, refFrame(p.ty, p.flags, b)))
			}
		}
		// a mutated real encoding
		pk := genPacket(rng, ty, v, true)
		if enc, oc := encodeReal(pk); oc == outOK && len(enc) > 0 {
			mm := append([]byte{}, enc...)
			for k := 1 + rng.Intn(2); k > 0; k-- {
				j := rng.Intn(len(mm))
				mm[j] = byte(rng.Intn(256))
			}
			out.Case(reCase(v, mm))
		}
	}
}
