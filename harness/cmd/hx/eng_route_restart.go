package main

import (
	"math/rand"

	"verifharness/sx"
)

// Stream "c04r" of the route engine (C04): the restart dimension.  A real storage hook is attached; a
// persistent MQTT 5 subscriber (clean start 0, session expiry > 0) with overlapping subscriptions carrying
// identifiers / Retain As Published, and a persistent MQTT 3.1.1 subscriber, are offline or withhold their
// acknowledgements while QoS 1/2 messages with unique payloads are published; the broker is shut down, a
// second broker is started on the same store (VerifReadStore), the subscribers resume.  The cases have the
// layout of the stream "c04f" and are judged by the same Coq engine (route_c04f): every PUBLISH copy a
// client receives — before or after the restart — must carry the QoS, subscription identifiers and retain
// flag that the C04 specification gives the publish with that payload in the state in which it was
// published.  The restart itself is no operation of the routing model: a persistent session survives it.
func rtRestartStream(rng *rand.Rand, tier string, out *sx.Out) {
	env := newStoreEnv()
	defer env.close()
	n := 24
	backends := []int{beBolt, beRedis}
	if tier == "thorough" {
		n = 300
		backends = []int{beBadger, bePebble, beBolt, beRedis}
	}
	for h := 0; h < n; h++ {
		for _, be := range backends {
			rtRestartHistory(rng, env, be, h, out)
		}
	}
}

func rtRestartHistory(rng *rand.Rand, env *storeEnv, be int, h int, out *sx.Out) {
	loc := env.fresh(be)
	defer env.discard(loc)
	maxqos := byte(2)
	if h%5 == 4 {
		maxqos = 1
	}
	w := newWorld(out, maxqos, false, nil)
	attach := func() {
		hook, cfg := env.hookConfig(loc)
		if err := w.b.Srv.AddHook(hook, cfg); err != nil {
			panic(err)
		}
	}
	attach()
	w.holds["s"], w.holds["t"] = true, true
	filters := []string{"a/b", "a/+", "a/#", "#"}
	seq := 0
	pub := func() {
		seq++
		w.publish("p", rtMsg{topic: "a/b", payload: "v" + string(rune('a'+seq/26)) + string(rune('a'+seq%26)),
			qos: byte(1 + rng.Intn(2)), retain: rng.Intn(3) == 0})
	}
	subscribe := func(id string) {
		perm := rng.Perm(len(filters))
		k := 1 + rng.Intn(3)
		for j := 0; j < k; j++ {
			sid := 1 + rng.Intn(3)
			if rng.Intn(4) == 0 {
				sid = 0
			}
			w.subscribe(id, []rtSub{{filter: filters[perm[j]], qos: byte(1 + rng.Intn(2)), id: sid, rap: rng.Intn(3) == 0}})
		}
	}
	live := func(id string) bool { c := w.clients[id]; return c != nil && c.conn != nil }
	w.connect("p", 5, true, false, false)
	w.connect("s", 5, false, true, false)
	w.connect("t", 4, false, false, false)
	subscribe("s")
	subscribe("t")
	// first life: some messages are delivered and stay unacknowledged, some are published while offline
	for i := 0; i < 6 && !w.hung; i++ {
		switch k := rng.Intn(10); {
		case k < 5:
			pub()
		case k < 7:
			id := []string{"s", "t"}[rng.Intn(2)]
			if live(id) {
				w.disconnect(id)
			}
		default:
			id := []string{"s", "t"}[rng.Intn(2)]
			if live(id) {
				w.ackOldest(id)
			}
		}
	}
	pub()
	// shutdown (every connection ended first: Close only waits for handlers of its own listeners) and restart
	// on the same store
	for _, id := range []string{"p", "s", "t"} {
		if live(id) {
			w.disconnect(id)
		}
	}
	w.do(func() { _ = w.b.Srv.Close() })
	w.rebuild(0)
	attach()
	if err := w.b.Srv.VerifReadStore(); err != nil {
		panic(err)
	}
	// second life: the sessions resume, everything stored is (re)sent
	w.connect("p", 5, true, false, false)
	for _, id := range []string{"s", "t"} {
		ver := byte(5)
		if id == "t" {
			ver = 4
		}
		w.connect(id, ver, false, true, false)
	}
	pub()
	for _, id := range []string{"s", "t"} {
		for k := 0; k < 30 && !w.hung && len(w.clients[id].unacked) > 0; k++ {
			w.ackOldest(id)
		}
	}
	for _, id := range []string{"p", "s", "t"} {
		if live(id) {
			w.disconnect(id)
		}
	}
	w.do(func() { _ = w.b.Srv.Close() })
	w.close()
}
