#!/bin/bash
# Runs every quick check on the UNCHANGED tree for several seeds, P checks in parallel (machine under
# load), and lists every run that exits non-zero or prints VIOLATION.  A check that alarms here is
# broken (false alarm or an unlisted genuine defect) and has to be root-caused.
# usage: tools/flakehunt.sh "<seeds>" [parallel] [props...]
cd /verif
seeds=${1:-"21 22 23"}; par=${2:-4}; shift; shift
props=${@:-$(./check --list)}
mkdir -p /verif/.build/flake
for s in $seeds; do for p in $props; do echo "$p $s"; done; done | \
  xargs -P $par -L 1 bash -c 'p=$0; s=$1; out=$(./check $p --seed $s 2>&1); rc=$?; v=$(echo "$out" | grep -c "^VIOLATION"); if [ $rc -ne 0 ] || [ $v -ne 0 ]; then echo "ALARM $p seed=$s rc=$rc"; echo "$out" > /verif/.build/flake/$p-$s.txt; else echo "ok $p seed=$s $(echo "$out" | grep -o "wall=[0-9.]*s")"; fi'
