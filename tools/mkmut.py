import json,sys,subprocess,os
props={json.loads(l)['id']:json.loads(l) for l in open('/verif/properties.jsonl')}
pid=sys.argv[1]; tag=sys.argv[2] if len(sys.argv)>2 else 'a'
p=props[pid]
wt='/tmp/mut-%s%s'%(pid,tag)
subprocess.run(['git','-C','/repo','worktree','add','-q','--detach',wt,'HEAD'],check=True)
os.makedirs(wt+'-out',exist_ok=True)
prompt=f"""You are helping to test a verification framework by seeding a realistic defect into a Go code base. You have your own scratch git worktree of the MQTT broker mochi-mqtt/server at {wt} (Go module github.com/mochi-mqtt/server/v2; run go with: export GOFLAGS=-mod=mod GOPROXY=off GOSUMDB=off GOTOOLCHAIN=local; there is no network). Work ONLY inside {wt} and {wt}-out. Do not read or use anything under /verif or /root/.vp, and do not touch /repo itself.

The property (this text is all you are given):
  id: {pid}
  title: {p['title']}
  statement: {p['statement']}
  quantifier: {p['quantifier']['text']}
  code anchors: {', '.join(p['anchors']['files'])}

TASK: make ONE small, realistic change to the non-test Go source in the worktree (the kind of mistake a maintainer could make in a refactoring, an optimisation or a 'simplification': an off-by-one, a dropped or inverted condition, a wrong variable, a missing unlock/rollback, a check moved after a use, a stale cache ...) that BREAKS this property while (a) the code still compiles, and (b) the existing test suite still passes unedited: `cd {wt} && go test -mod=mod -vet=off -count=1 ./...` (about 70-100 s; a few sleep-based tests in the root package and listeners are flaky under machine load — re-run a failing test alone to tell flakiness from a real failure; a real failure disqualifies the change). Prefer a change that needs something SPECIFIC to manifest — a particular multi-step sequence of operations, an unusual input, a boundary value, a particular interleaving, a fault at a particular point, or two cooperating sites that each look fine alone — not one that ordinary use would expose at once. Do not change test files, build tags, go.mod, or any file whose name starts with verif_ (those are instrumentation); do not add new exported API.

Then write a DEMONSTRATION: a Go test file (package of your choice inside the worktree, e.g. {wt}/mut_demo_test.go in package mqtt, or in the relevant sub-package) that FAILS with your change and PASSES without it. Verify both yourself, but do NOT use `git stash` (the stash is shared by all worktrees of this repository and other people use them concurrently): save your change with `git diff > /tmp/yourpatch.diff`, undo it with `git apply -R`, re-apply with `git apply`, and check at the end that `git diff` in your worktree is exactly your intended change.

Deliver, in {wt}-out/: patch.diff (output of `git diff` for the source change ONLY, without the demo test), demo_test.go (the demonstration test, with a first-line comment saying which directory/package of the repository it must be placed in and the go test -run pattern), and meta.json with keys: property (the id), summary (one sentence: what the change does), needs (what is needed for it to manifest), files (list of changed files), ran (the commands you ran and their outcomes: suite with change, demo with change, demo without change). Leave the worktree with the change applied and the demo test file present. Finish with a short report (the summary, and anything surprising)."""
prev=[]
import glob
for d in sorted(glob.glob('/verif/seeded/%s*/meta.json'%pid)):
    try: prev.append(json.load(open(d)).get('summary',''))
    except Exception: pass
if prev:
    prompt+="\n\nNOTE: earlier testers already seeded the following change(s) for this property; choose a DIFFERENT mechanism and code site (ideally one that depends on an interleaving, a fault or crash at a particular point, a restart, or a longer multi-step history):\n- "+"\n- ".join(prev)
open(wt+'-out/PROMPT.txt','w').write(prompt)
print(wt)
