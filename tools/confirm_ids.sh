#!/bin/bash
# usage: tools/confirm_ids.sh sid:prop ...   (out dirs are /tmp/mut-<sid>-out)
for pair in "$@"; do
  m=${pair%%:*}; p=${pair##*:}
  echo "=== $m (check $p)"
  /verif/tools/confirm_mut.sh /tmp/mut-$m-out $m $p suite
done
