#!/bin/bash
# usage: tools/confirm_mut.sh <out-dir with patch.diff demo_test.go meta.json> <seeded-id> <property> [suite]
# Confirms a seeded change in a fresh scratch worktree of /repo HEAD: demo passes without the change,
# change applies and builds, demo fails with it, (optionally) the unedited suite passes with it;
# then stores it under /verif/seeded/<seeded-id>/ and runs the property's check against it.
out=$1; sid=$2; pid=$3; suite=${4:-suite}
export GOFLAGS=-mod=mod GOPROXY=off GOSUMDB=off GOTOOLCHAIN=local
wt=/tmp/conf-$sid-$$
git -C /repo worktree add -q --detach $wt HEAD || exit 9
line=$(head -1 $out/demo_test.go)
dir=$(echo "$line" | grep -o "\./[a-z/]*/\? *$\|\./[a-z/]*/" | tail -1 | tr -d ' ')
[ -z "$dir" ] && dir=.
pat=$(echo "$line" | grep -o "\-run '[^']*'" | sed "s/-run '//; s/'//")
cp $out/demo_test.go $wt/$dir/mut_demo_test.go
res_without=$(cd $wt && go test -mod=mod -vet=off -count=1 -run "$pat" $dir 2>&1 | tail -1)
git -C $wt apply $out/patch.diff || { echo "PATCH DOES NOT APPLY"; git -C /repo worktree remove --force $wt; exit 8; }
build=$(cd $wt && go build ./... 2>&1 | tail -1)
res_with=$(cd $wt && go test -mod=mod -vet=off -count=1 -run "$pat" $dir 2>&1 | tail -1)
rm $wt/$dir/mut_demo_test.go
suite_res="not run"
if [ "$suite" = suite ]; then
  suite_res=$(cd $wt && go test -mod=mod -vet=off -count=1 ./... 2>&1 | grep -E "^(FAIL|--- FAIL)" | tr '\n' ';')
  [ -z "$suite_res" ] && suite_res="all packages ok"
fi
chk=$(cd /verif && VERIF_REPO=$wt ./check $pid 2>&1 | grep -E "^VIOLATION|tier=" | cut -c1-200 | tr '\n' ';')
rm -rf /verif/.build/alt-$(python3 -c "import hashlib;print(hashlib.sha1('$wt'.encode()).hexdigest()[:10])")
git -C /repo worktree remove --force $wt
echo "demo without change: $res_without"
echo "build with change  : ${build:-ok}"
echo "demo with change   : $res_with"
echo "suite with change  : $suite_res"
echo "check $pid         : $chk"
mkdir -p /verif/seeded/$sid
cp $out/patch.diff /verif/seeded/$sid/patch.diff
cp $out/demo_test.go /verif/seeded/$sid/demo_test.go
python3 - "$out/meta.json" "/verif/seeded/$sid/meta.json" "$pid" "$res_without" "${build:-ok}" "$res_with" "$suite_res" "$chk" "$(git -C /repo rev-parse --short HEAD)" <<'PY'
import json,sys
src,dst,pid,rw,b,rwi,su,chk,head=sys.argv[1:10]
try: m=json.load(open(src))
except Exception: m={}
m2={"property":pid,"summary":m.get("summary",""),"needs":m.get("needs",""),"files":m.get("files",[]),
    "author_ran":m.get("ran",""),
    "confirmed_by_coordinator":{"repo_head":head,"demo_without_change":rw,"build_with_change":b,
        "demo_with_change":rwi,"suite_with_change":su,"check_result":chk,
        "how":"tools/confirm_mut.sh: fresh scratch worktree of /repo HEAD, demo test copied in, go test -run; patch applied; go build; demo again; unedited suite; VERIF_REPO=<worktree> ./check "+pid},
    "detected": "VIOLATION" in chk}
json.dump(m2,open(dst,"w"),indent=1)
PY
