#!/bin/bash
# usage: tools/trymut.sh <patch.diff> <pid> [tier]
# Fresh scratch worktree of /repo HEAD + the seeded change, run ./check <pid> against it (VERIF_REPO),
# remove the worktree and its build output.  Never touches /repo's working tree.
patch=$1; pid=$2; tier=${3:-quick}
wt=/tmp/try-$pid-$$
git -C /repo worktree add -q --detach $wt HEAD || exit 9
if ! git -C $wt apply $patch; then echo "PATCH DOES NOT APPLY"; git -C /repo worktree remove --force $wt; exit 8; fi
(cd $wt && GOFLAGS=-mod=mod GOPROXY=off GOSUMDB=off GOTOOLCHAIN=local go build ./... ) || echo "BUILD FAILS"
cd /verif && VERIF_REPO=$wt ./check $pid --tier $tier 2>&1 | grep -E "VIOLATION|tier=|ERROR|KNOWN" | cut -c1-160
rm -rf /verif/.build/alt-$(python3 -c "import hashlib;print(hashlib.sha1('$wt'.encode()).hexdigest()[:10])")
git -C /repo worktree remove --force $wt
