#!/bin/bash
# Re-runs every stored seeded change against the CURRENT checks (fresh scratch worktree of /repo HEAD
# per change, VERIF_REPO) and updates seeded/<id>/meta.json: detected, and "strengthened" when a
# change that was missed at confirmation time is caught now.  Usage: tools/reseed_all.sh [ids...]
cd /verif
ids=${@:-$(ls seeded)}
for sid in $ids; do
  pid=$(python3 -c "import json;m=json.load(open('seeded/$sid/meta.json'));print(m.get('check_property',m['property']))")
  out=$(tools/trymut.sh /verif/seeded/$sid/patch.diff $pid 2>&1)
  det=$(echo "$out" | grep -c "^VIOLATION")
  nf=$(echo "$out" | grep "^VIOLATION" | grep -c "no-failing-input-found")
  python3 - "$sid" "$det" "$nf" "$(echo "$out" | grep -E 'tier=|PATCH|BUILD' | head -1)" <<'PY'
import json,sys
sid,det,nf,line=sys.argv[1:5]
p='/verif/seeded/%s/meta.json'%sid
m=json.load(open(p))
was=m.get('detected')
now=int(det)>0
m['detected_final']=now
m['final_run']=line
m['final_kind']=('no-failing-input-found (correspondence/proof broken)' if int(nf)==int(det) and now else 'failing input replayed') if now else 'not detected'
if now and not was and not m.get('strengthened') and not m.get('check_property'):
    m['strengthened']='check strengthened after this change was first missed'
if m.get('check_property') and m['check_property']!=m['property']:
    m['detected_by_other_check']=now
else:
    m['detected']=now or was
json.dump(m,open(p,'w'),indent=1)
print(sid, 'detected' if now else 'MISSED', line[:90])
PY
done
