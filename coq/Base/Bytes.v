(* Arithmetic helper lemmas on N used by the codec proofs: finite sweeps over bytes, disjoint
   lor as addition, shifts as multiplication. *)
From MV Require Import Base.Val.
From Coq Require Import Lia ZifyBool ZifyN ZifyNat.
Ltac Zify.zify_post_hook ::= Z.div_mod_to_equations.
Open Scope N_scope.

(* [0; 1; ...; n-1] as N, built from nat so that it is structurally recursive *)
Definition rangeN (n : nat) : list N := map N.of_nat (seq 0 n).

Lemma rangeN_in (n : nat) (x : N) : x < N.of_nat n -> In x (rangeN n).
Proof.
  intro H. unfold rangeN. apply in_map_iff. exists (N.to_nat x). split.
  - apply N2Nat.id.
  - apply in_seq. lia.
Qed.

Lemma forall_below (P : N -> bool) (n : nat) :
  forallb P (rangeN n) = true -> forall x, x < N.of_nat n -> P x = true.
Proof.
  intros H x Hx. rewrite forallb_forall in H. apply H. apply rangeN_in. exact Hx.
Qed.

(* byte facts by exhaustive sweep over the 256 byte values, lifted with forall_below *)
Lemma byte_land127 (b : N) : b < 256 -> N.land b 127 = b mod 128.
Proof.
  intro H.
  assert (S : forallb (fun b => N.land b 127 =? b mod 128) (rangeN 256) = true)
    by (vm_compute; reflexivity).
  pose proof (forall_below _ 256 S b H) as E. cbv beta in E. apply N.eqb_eq in E. exact E.
Qed.

Lemma byte_land128 (b : N) : b < 256 -> (N.land b 128 =? 0) = (b <? 128).
Proof.
  intro H.
  assert (S : forallb (fun b => Bool.eqb (N.land b 128 =? 0) (b <? 128)) (rangeN 256) = true)
    by (vm_compute; reflexivity).
  pose proof (forall_below _ 256 S b H) as E. cbv beta in E. apply Bool.eqb_prop in E. exact E.
Qed.

Lemma small_lor128 (b : N) : b < 128 -> N.lor b 128 = b + 128.
Proof.
  intro H.
  assert (S : forallb (fun b => N.lor b 128 =? b + 128) (rangeN 128) = true)
    by (vm_compute; reflexivity).
  pose proof (forall_below _ 128 S b H) as E. cbv beta in E. apply N.eqb_eq in E. exact E.
Qed.

(* disjoint lor is addition *)
Lemma land_low_high (a c k : N) : a < 2 ^ k -> N.land a (c * 2 ^ k) = 0.
Proof.
  intro H. apply N.bits_inj. intro i. rewrite N.land_spec, N.bits_0.
  destruct (N.lt_ge_cases i k) as [Hi | Hi].
  - rewrite N.mul_pow2_bits_low by exact Hi. apply andb_false_r.
  - assert (Ha : N.testbit a i = false).
    { destruct (N.eq_dec a 0) as [-> | Hnz]; [apply N.bits_0|].
      apply N.bits_above_log2. apply N.log2_lt_pow2; [lia|].
      eapply N.lt_le_trans; [exact H|]. apply N.pow_le_mono_r; lia. }
    rewrite Ha. reflexivity.
Qed.

Lemma lor_add_disjoint (a c k : N) : a < 2 ^ k -> N.lor a (c * 2 ^ k) = a + c * 2 ^ k.
Proof.
  intro H. pose proof (land_low_high a c k H) as L.
  rewrite <- N.lxor_lor by exact L. symmetry. apply N.add_nocarry_lxor. exact L.
Qed.
