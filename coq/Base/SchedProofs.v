(* Generic lemmas about Base/Sched.v: invariants proved for one schedule entry hold after every
   schedule; list-update facts. *)
From Coq Require Import List Arith Bool Lia.
From MV Require Import Base.Sched.
Import ListNotations.

Lemma set_nth_length {A} n (x : A) l : length (set_nth n x l) = length l.
Proof. revert n; induction l as [|y r IH]; intros [|n]; cbn; auto. Qed.

Lemma nth_error_set_nth_eq {A} n (x : A) l : n < length l -> nth_error (set_nth n x l) n = Some x.
Proof.
  revert n; induction l as [|y r IH]; intros [|n] H; cbn in *; try lia; auto.
  apply IH; lia.
Qed.

Lemma nth_error_set_nth_neq {A} n m (x : A) l : n <> m -> nth_error (set_nth n x l) m = nth_error l m.
Proof.
  revert n m; induction l as [|y r IH]; intros [|n] [|m] H; cbn; auto; try congruence.
Qed.

Lemma set_nth_none {A} n (x : A) l : nth_error l n = None -> set_nth n x l = l.
Proof.
  revert n; induction l as [|y r IH]; intros [|n] H; cbn in *; auto; try discriminate.
  now rewrite IH.
Qed.

Lemma Forall2_set_nth {A B} (R : A -> B -> Prop) n x y l l' :
  Forall2 R l l' -> R x y -> Forall2 R (set_nth n x l) (set_nth n y l').
Proof.
  intros H; revert n; induction H as [|a b l l' Hab H IH]; intros [|n] Hxy; cbn; constructor; auto.
Qed.

Lemma Forall2_set_nth_l {A B} (R : A -> B -> Prop) n x y l l' :
  Forall2 R l l' -> nth_error l' n = Some y -> R x y -> Forall2 R (set_nth n x l) l'.
Proof.
  intros H; revert n; induction H as [|a b l l' Hab H IH]; intros n Hn Hxy.
  - destruct n; discriminate.
  - destruct n as [|n]; cbn in *.
    + inversion Hn; subst. constructor; auto.
    + constructor; eauto.
Qed.

Lemma Forall2_nth_error {A B} (R : A -> B -> Prop) l l' n x :
  Forall2 R l l' -> nth_error l n = Some x -> exists y, nth_error l' n = Some y /\ R x y.
Proof.
  intros H; revert n; induction H as [|a b l l' Hab H IH]; intros [|n] Hn; cbn in *; try discriminate.
  - inversion Hn; subst; eauto.
  - eauto.
Qed.

Section SchedFacts.
  Variables St In : Type.
  Variable exec : tid -> In -> St -> outcome St.

  Lemma run_app s1 s2 (c : cfg St In) : run exec (s1 ++ s2) c = run exec s2 (run exec s1 c).
  Proof. revert c; induction s1 as [|t r IH]; intro c; cbn; auto. Qed.

  (* an invariant of single entries is an invariant of schedules *)
  Lemma run_invariant (P : cfg St In -> Prop) :
    (forall t c, P c -> P (step exec t c)) ->
    forall sched c, P c -> P (run exec sched c).
  Proof. intros Hstep sched; induction sched as [|t r IH]; intros c Hc; cbn; auto. Qed.

  (* the shape of one entry *)
  Lemma step_cases t (c : cfg St In) :
    step exec t c = c \/
    exists i rest, nth_error (threads c) t = Some (i :: rest) /\
      ((exists s, exec t i (shared c) = Continue s /\ step exec t c = mkCfg s (set_nth t rest (threads c))) \/
       (exists s, exec t i (shared c) = Halt s /\ step exec t c = mkCfg s (set_nth t [] (threads c)))).
  Proof.
    unfold step, step_thread.
    destruct (nth_error (threads c) t) as [[|i rest]|] eqn:E; auto.
    destruct (exec t i (shared c)) as [|s|s] eqn:X; auto; right; exists i, rest; split; auto; [left|right]; eauto.
  Qed.

  Lemma run_trace_length sched (c : cfg St In) : length (run_trace exec sched c) = length sched.
  Proof.
    revert c; induction sched as [|t r IH]; intro c; cbn; auto.
    destruct (step_thread exec t c); cbn; auto.
  Qed.

  (* every configuration of the trace is the result of running a prefix of the schedule *)
  Lemma run_trace_nth sched (c : cfg St In) n b c' :
    nth_error (run_trace exec sched c) n = Some (b, c') -> c' = run exec (firstn (Datatypes.S n) sched) c.
  Proof.
    revert c n; induction sched as [|t r IH]; intros c n H; cbn in H.
    - destruct n; discriminate.
    - unfold step in *. cbn [firstn run]. unfold step.
      destruct (step_thread exec t c) as [c1 b1] eqn:E. destruct n as [|n]; cbn in H.
      + inversion H; subst. destruct r; reflexivity.
      + cbn [fst]. apply IH in H. exact H.
  Qed.
End SchedFacts.

(* an invariant of the shared state that every executed instruction preserves holds after every
   schedule, whatever the thread programs are *)
Section SharedInvariant.
  Variables St In : Type.
  Variable exec : tid -> In -> St -> outcome St.
  Variable P : St -> Prop.
  Hypothesis Hexec : forall t i s s', P s -> exec t i s = Continue s' \/ exec t i s = Halt s' -> P s'.

  Lemma step_shared_invariant t (c : cfg St In) : P (shared c) -> P (shared (step exec t c)).
  Proof.
    intro H. destruct (step_cases _ _ exec t c) as [Hsame|(i & rest & Hn & [(s & Hx & Hs)|(s & Hx & Hs)])].
    - now rewrite Hsame.
    - rewrite Hs. cbn. eapply Hexec; eauto.
    - rewrite Hs. cbn. eapply Hexec; eauto.
  Qed.

  Lemma run_shared_invariant sched (c : cfg St In) : P (shared c) -> P (shared (run exec sched c)).
  Proof.
    revert c; induction sched as [|t r IH]; intros c H; cbn; auto using step_shared_invariant.
  Qed.
End SharedInvariant.
