(* Generic interleaving semantics for the concurrency models (DESIGN.md section 4, "Sequential
   broker model vs concurrency").  No proofs in this file (see Base/SchedProofs.v).

   A thread is a list of atomic steps (instructions); a configuration is the shared state plus the
   remaining program of every thread; a schedule is a list of thread identifiers.  [run] executes
   a schedule: each entry lets the named thread perform its next atomic step; the entry is skipped
   when the thread has finished, does not exist, or its next step is blocked in the current shared
   state.  Theorems about a model are stated [forall (sched : list tid), ...], i.e. for every
   interleaving of the atomic steps; since every prefix of a schedule is a schedule, a statement
   about [run sched] for all [sched] is a statement about every intermediate configuration.

   The granularity of an atomic step is the granularity of the critical section / atomic
   operation of the Go code it stands for and is tied to the code by forced-schedule replay: the
   harness parks the real goroutines at verifPoints that delimit exactly these steps. *)
From Coq Require Import List Arith Bool.
Import ListNotations.

Definition tid := nat.

Section Sched.
  Variables St In : Type.

  (* the effect of one atomic step on the shared state *)
  Inductive outcome : Type :=
  | Blocked                 (* not enabled in this state (waiting for another thread) *)
  | Continue (s : St)        (* executed; the thread goes on with its next step *)
  | Halt (s : St).          (* executed; the thread abandons the rest of its program (early return) *)

  Variable exec : tid -> In -> St -> outcome.

  Record cfg : Type := mkCfg { shared : St; threads : list (list In) }.

  Fixpoint set_nth {A : Type} (n : nat) (x : A) (l : list A) : list A :=
    match l, n with
    | [], _ => []
    | _ :: r, O => x :: r
    | y :: r, S m => y :: set_nth m x r
    end.

  (* one schedule entry; the boolean says whether a step was taken *)
  Definition step_thread (t : tid) (c : cfg) : cfg * bool :=
    match nth_error (threads c) t with
    | Some (i :: rest) =>
        match exec t i (shared c) with
        | Blocked => (c, false)
        | Continue s => (mkCfg s (set_nth t rest (threads c)), true)
        | Halt s => (mkCfg s (set_nth t [] (threads c)), true)
        end
    | _ => (c, false)
    end.

  Definition step (t : tid) (c : cfg) : cfg := fst (step_thread t c).

  Fixpoint run (sched : list tid) (c : cfg) : cfg :=
    match sched with
    | [] => c
    | t :: r => run r (step t c)
    end.

  (* the same with the configuration after every entry and whether the entry was effective *)
  Fixpoint run_trace (sched : list tid) (c : cfg) : list (bool * cfg) :=
    match sched with
    | [] => []
    | t :: r => let (c', b) := step_thread t c in (b, c') :: run_trace r c'
    end.

  Definition finished (c : cfg) : bool :=
    forallb (fun p => match p with [] => true | _ => false end) (threads c).

  (* is thread t able to take a step? *)
  Definition enabled (t : tid) (c : cfg) : bool := snd (step_thread t c).
End Sched.

Arguments Blocked {St}.
Arguments Continue {St} s.
Arguments Halt {St} s.
Arguments mkCfg {St In} shared threads.
Arguments shared {St In} c.
Arguments threads {St In} c.
Arguments step_thread {St In} exec t c.
Arguments step {St In} exec t c.
Arguments run {St In} exec sched c.
Arguments run_trace {St In} exec sched c.
Arguments finished {St In} c.
Arguments enabled {St In} exec t c.
Arguments set_nth {A} n x l.
