(* Universal value type used on the boundary between the Go harness, the extracted OCaml driver
   and the Coq models.  Every engine is a Coq function [val -> val]; the OCaml driver only parses
   and prints [val].  No proofs in this file. *)
From Coq Require Export List NArith ZArith Bool.
From Coq Require Ascii String.
Export Coq.Strings.String.StringSyntax.
Export ListNotations.
Open Scope N_scope.

Definition bytes := list N.

Inductive val : Type :=
| VN (n : N)
| VB (b : bytes)
| VL (l : list val).

Definition vbool (b : bool) : val := VN (if b then 1 else 0).

Definition as_N (v : val) : option N := match v with VN n => Some n | _ => None end.
Definition as_B (v : val) : option bytes := match v with VB b => Some b | _ => None end.
Definition as_L (v : val) : option (list val) := match v with VL l => Some l | _ => None end.
Definition as_bool (v : val) : option bool :=
  match v with VN 0 => Some false | VN _ => Some true | _ => None end.

Fixpoint map_opt {A B} (f : A -> option B) (l : list A) : option (list B) :=
  match l with
  | [] => Some []
  | x :: r => match f x, map_opt f r with Some y, Some ys => Some (y :: ys) | _, _ => None end
  end.

(* Verdict codes shared by all engines:
   0 = implementation observation satisfies the spec and equals the model;
   1 = implementation observation violates the spec (a concrete failing input);
   2 = implementation differs from the model although the spec is satisfied / not decidable from
       the observation (correspondence broken);
   3 = violates the spec exactly as a listed known finding (name follows);
   9 = the case could not be parsed (harness/driver bug). *)
Definition verdict (code : N) (tag : bytes) (nontrivial : bool) (info : list val) : val :=
  VL (VN code :: VB tag :: vbool nontrivial :: info).

Definition bad_case : val := verdict 9 [] false [].

(* Tags and literal byte strings are written as Coq string literals. *)
Fixpoint bytes_of_string (s : String.string) : bytes :=
  match s with
  | String.EmptyString => []
  | String.String a r => Ascii.N_of_ascii a :: bytes_of_string r
  end.
Definition tag (s : String.string) : bytes := bytes_of_string s.
Arguments tag s%string_scope.
Arguments bytes_of_string s%string_scope.

Fixpoint beq_bytes (a b : bytes) : bool :=
  match a, b with
  | [], [] => true
  | x :: a', y :: b' => (x =? y) && beq_bytes a' b'
  | _, _ => false
  end.
