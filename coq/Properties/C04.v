(* C04 — Delivered QoS, subscription identifiers and retain flag follow the options.
   Statements only; proofs are [exact lemma].  Model: Session/Deliver.v (publishToSubscribers,
   Subscription.Merge, SelectShared / MergeSharedSelected, publishToClient, publishRetainedToClient,
   processSubscribe) after the fixes d481be6 (identifier on retained deliveries), ad56d60 (identifiers of
   merged shared selections), 97e644e (Retain As Published of overlapping subscriptions) in /repo; the
   pre-fix behaviour is kept in Findings/FixedC04.v.  The specification side (ent_subs, spec_qos, spec_ids,
   spec_retain, spec_granted) is computed from the set of matching subscriptions given by topic_matches. *)
From MV Require Import Base.Val Topics.Match Session.Deliver Session.DeliverProofs Session.DeliverTheorems.
From Coq Require Import Permutation.
Open Scope N_scope.

(* delivered QoS = min (published QoS, highest QoS among the matching subscriptions, server maximum),
   for every client, every set of overlapping subscriptions (shared and non-shared), every oracle *)
Theorem C04_qos : forall s orc drops m c cl d,
  NoDup (map fst (cl_subs cl)) -> NoDup (map fst orc) -> cl_ver cl <= 5 ->
  deliver_to s orc drops m c cl = PSend d ->
  d_qos d = spec_qos (st_maxqos s) (m_qos m) (ent_subs c cl (m_topic m) orc).
Proof. intros s orc drops m c cl d N1 N2 V H. exact (proj1 (proj2 (proj2 (proj2 (deliver_fields s orc drops m c cl d N1 N2 V H))))). Qed.

(* QoS granted in SUBACK = requested QoS capped at the server maximum *)
Theorem C04_granted : forall s c ver fo,
  sub_accepted s c fo = true -> so_qos (snd fo) <= 2 ->
  sub_code s c ver fo = spec_granted (st_maxqos s) (so_qos (snd fo)).
Proof. exact granted_qos. Qed.

(* live deliveries carry exactly the identifiers of the matching subscriptions that have one *)
Theorem C04_ids : forall s orc drops m c cl d,
  NoDup (map fst (cl_subs cl)) -> NoDup (map fst orc) -> cl_ver cl = 5 ->
  deliver_to s orc drops m c cl = PSend d ->
  Permutation (d_ids d) (spec_ids (ent_subs c cl (m_topic m) orc)).
Proof.
  intros s orc drops m c cl d N1 N2 V H.
  assert (V' : cl_ver cl <= 5) by (rewrite V; discriminate).
  exact (proj1 (proj1 (proj2 (proj2 (proj2 (proj2 (proj2 (deliver_fields s orc drops m c cl d N1 N2 V' H)))))) V)).
Qed.

(* retained deliveries (answer to a SUBSCRIBE) carry the identifier of the new subscription, the retain
   flag of the stored message, and QoS = min (stored, subscription, server maximum) *)
Theorem C04_ids_retained : forall s c cl f o m d,
  publish_to_client s c cl (retained_sub f o) m false = PSend d ->
  d_ids d = (if (cl_ver cl =? 5) && pos (so_id o) then [so_id o] else [])
  /\ d_retain d = m_retain m
  /\ d_qos d = N.min (m_qos m) (N.min (so_qos o) (st_maxqos s)).
Proof.
  intros s c cl f o m d H. destruct (retained_delivery s c cl f o m d H) as [_ [_ [_ [H4 [H5 [H6 _]]]]]].
  split; [exact H6|]. split; [exact H4|exact H5].
Qed.

(* retain flag on live delivery: cleared unless a matching MQTT 5 subscription asked for Retain As Published *)
Theorem C04_retain : forall s orc drops m c cl d,
  NoDup (map fst (cl_subs cl)) -> NoDup (map fst orc) -> cl_ver cl <= 5 ->
  deliver_to s orc drops m c cl = PSend d ->
  d_retain d = spec_retain (cl_ver cl) (m_retain m) (ent_subs c cl (m_topic m) orc).
Proof. intros s orc drops m c cl d N1 N2 V H. exact (proj1 (proj2 (proj2 (proj2 (proj2 (deliver_fields s orc drops m c cl d N1 N2 V H)))))). Qed.

(* the same on every state reachable by a history of operations, stated on the output of the publish step *)
Theorem C04_history : forall mq ra deny (h : hist) orc drops pub m0 c d,
  forallb op_ok (ops_of h) = true -> NoDup (map fst orc) -> valid_pub_topic (m_topic m0) = true ->
  let s := run (init mq ra deny) h in
  In d (filter (to_client c) (o_deliv (snd (step orc drops s (OPublish pub m0))))) ->
  exists cl, get_client s c = Some cl /\
    let L := ent_subs c cl (m_topic m0) orc in
    d_qos d = spec_qos mq (m_qos m0) L /\
    d_retain d = spec_retain (cl_ver cl) (m_retain m0) L /\
    (cl_ver cl = 5 -> Permutation (d_ids d) (spec_ids L)) /\
    (cl_ver cl <> 5 -> d_ids d = []).
Proof. exact DeliverTheorems.C04_history. Qed.

(* the copy stored for a client that cannot take the message now (offline persistent session; in the Go code
   also the copy held back by Receive Maximum — the same value `out`) is the copy a connected client would
   have been sent: same QoS, identifiers and retain flag, so C04_qos / C04_ids / C04_retain apply to every later
   transmission made from it (release after an acknowledgement, delivery on reconnection, DUP resend) *)
Theorem C04_stored_copy : forall s c cl sub m dr d,
  publish_to_client s c cl sub m dr = PQueue d ->
  publish_to_client s c (online cl) sub m false = PSend (wire (online cl) d) /\ 0 < d_qos d.
Proof. exact stored_copy_same. Qed.

(* a resumed session is sent exactly its stored copies, encoded for the new connection's protocol version *)
Theorem C04_resume : forall orc drops s c ver persist rpi0 old,
  get_client s c = Some old ->
  o_deliv (snd (step orc drops s (OConnect c ver false persist rpi0)))
  = map (wire (mkCl true ver rpi0 (if ver <? 5 then true else persist) (cl_subs old) [])) (cl_pending old).
Proof. exact resume_sends_stored. Qed.

(* non-vacuity: three overlapping subscriptions (one shared) with different QoS / identifiers / RAP *)
Definition so (q : N) (rap : bool) (id : N) : subopt := mkSO q false rap 0 id.
Definition ex_hist : hist :=
  map (fun o => ([], [], o))
    [OConnect (tag "s") 5 true false false;
     OSubscribe (tag "s") [(tag "a/b", so 0 false 1)];
     OSubscribe (tag "s") [(tag "a/+", so 1 true 0)];
     OSubscribe (tag "s") [(tag "$share/g/a/#", so 2 false 3)]].
Definition ex_msg (q : N) (r : bool) : msg := mkMsg (tag "a/b") (tag "x") q r mp_none (tag "p").

Example C04_nonvacuous :
  let s := run (init 2 true []) ex_hist in
  map (fun d => (d_qos d, d_retain d, d_ids d))
      (o_deliv (snd (step [(tag "$share/g/a/#", tag "s")] [] s (OPublish (tag "p") (ex_msg 2 true)))))
  = [(2, true, [1; 3])]
  /\ map (fun d => (d_qos d, d_retain d, d_ids d))
      (o_deliv (snd (step [(tag "$share/g/a/#", tag "s")] [] (run (init 1 true []) ex_hist) (OPublish (tag "p") (ex_msg 2 false)))))
  = [(1, false, [1; 3])].
Proof. vm_compute. split; reflexivity. Qed.

Print Assumptions C04_qos.
Print Assumptions C04_granted.
Print Assumptions C04_ids.
Print Assumptions C04_ids_retained.
Print Assumptions C04_retain.
Print Assumptions C04_history.
Print Assumptions C04_stored_copy.
Print Assumptions C04_resume.
