(* C32 — The broker never deadlocks on its internal locks; no code path re-acquires a read lock
   it already holds.  Statements only; every proof is [exact lemma].

   Shape of the argument.  (1) A machine of goroutines acquiring / releasing Go (RW) mutexes with
   writer preference ([Locks.can_step]).  (2) The translator astx extracts from the Go source a
   table of lock-acquisition and call sites (Gen/LockGraph.v, regenerated on every run).  (3) The
   theorems below: if the lock-order graph of a table has a topological numbering (is acyclic) and
   no function re-acquires a class it holds, then goroutines whose lock behaviour conforms to the
   table never reach a deadlocked configuration, under any schedule, and can always run to
   completion.  (4) Per run the kernel evaluates the proved checker on the regenerated table
   (Gen/LockCheck.v, compiled by the translate step of ./check C32).

   Partial by nature: blocking on channels, sockets, WaitGroups and sync.Once is outside the lock
   model; callees reached only through interfaces / function values implemented outside the
   analysed packages are assumed not to take broker locks (the translator lists every such call
   made under a lock in the evidence); lock instances are abstracted to classes (owner type .
   mutex field), with one declared refinement (the root particle of the topic index). *)
From Coq Require Import List NArith String.
From MV Require Import Base.Val Conc.Locks Conc.LocksProofs Findings.FixedC32.
Import ListNotations.
Open Scope N_scope.

(* Instance level: threads that acquire locks in strictly increasing rank, release only what they
   hold and end holding nothing never deadlock, whatever the schedule. *)
Theorem C32_rank_discipline_sound : forall (rk : lock -> N) (c0 : cfg),
  (forall t, In t c0 -> held t = [] /\ chk rk [] (prog t) = true) ->
  forall sched : list nat, ~ deadlocked (run sched c0).
Proof. exact discipline_sound. Qed.

(* Table level (the statement of the design): acyclic lock order + no re-entrant acquisition =>
   for every set of goroutines conforming to the table and every schedule, no deadlock. *)
(* [conforms cl tbl unb [(f, [])] es]: the goroutine started at f performs the events es, every
   acquisition and call happens at a site the table lists, every activation releases what it
   acquired before it exits, and no function of [unb] (the functions with a path that leaves them
   holding a lock) is entered. *)
Theorem C32_discipline_sound : forall (cl : lock -> cls) (tbl : lock_table) (unb : list fname) (A : fname -> list cls),
  closed tbl A -> acyclic (lock_order tbl A) -> no_reentrant tbl A ->
  forall gs : list (fname * list ev),
    (forall f es, In (f, es) gs -> conforms cl tbl unb [(f, [])] es = true) ->
    forall sched : list nat, ~ deadlocked (run sched (map (fun g => thread_of (snd g)) gs)).
Proof. exact table_discipline_sound. Qed.

(* ... and no goroutine blocks forever: every schedule prefix can be extended to a schedule after
   which every goroutine has finished (so no subset of goroutines is stuck either). *)
Theorem C32_all_goroutines_can_finish : forall (cl : lock -> cls) (tbl : lock_table) (unb : list fname) (A : fname -> list cls),
  closed tbl A -> acyclic (lock_order tbl A) -> no_reentrant tbl A ->
  forall gs : list (fname * list ev),
    (forall f es, In (f, es) gs -> conforms cl tbl unb [(f, [])] es = true) ->
    forall sched, exists sched', all_done (run (sched ++ sched') (map (fun g => thread_of (snd g)) gs)).
Proof. exact table_discipline_completes. Qed.

(* [acyclic] is stated through a numbering; it excludes every cycle, and in particular the
   re-acquisition of a held class (a read lock taken twice). *)
Theorem C32_acyclic_means_no_cycle : forall g, acyclic g -> forall a, ~ path g a a.
Proof. exact numbering_no_cycle. Qed.

(* The boolean checker evaluated on the generated table is sound for the hypotheses above; its first
   conjunct (every function releases on every path what it acquired: no function is unbalanced)
   makes the restriction of [conforms] to balanced functions vacuous for an accepted table. *)
Theorem C32_checker_sound : forall names unb tbl, lock_discipline_ok_full names unb tbl = true ->
  (forall g, existsb (N.eqb g) unb = false) /\
  forall (cl : lock -> cls) (gs : list (fname * list ev)),
    (forall f es, In (f, es) gs -> conforms cl tbl unb [(f, [])] es = true) ->
    forall sched,
      ~ deadlocked (run sched (map (fun g => thread_of (snd g)) gs)) /\
      exists sched', all_done (run (sched ++ sched') (map (fun g => thread_of (snd g)) gs)).
Proof. exact checked_table_sound_full. Qed.

(* non-vacuity: a table with genuine nesting (function 0 holds class 0 in write mode and calls 1,
   which read-locks class 1) is accepted, has conforming executions that really nest, and two such
   goroutines plus a writer on the inner lock run to completion *)
Definition ex_table : lock_table :=
  [ mk_site 0 [] (Acquire 0 W); mk_site 0 [(0, W)] (Call 1);
    mk_site 1 [] (Acquire 1 R);
    mk_site 2 [] (Acquire 1 W) ].
Definition ex_cl (l : lock) : cls := if l <? 10 then 0 else 1.
Definition ex_g0 : list ev := [EAcq 3 W; EEnter 1; EAcq 12 R; ERel 12 R; EExit; ERel 3 W].
Definition ex_g2 : list ev := [EAcq 12 W; ERel 12 W].

Example C32_nonvacuous :
  lock_discipline_ok ex_table = true /\
  conforms ex_cl ex_table [] [(0, [])] ex_g0 = true /\
  conforms ex_cl ex_table [] [(2, [])] ex_g2 = true /\
  ops_of ex_g0 = [Acq 3 W; Acq 12 R; Rel 12 R; Rel 3 W] /\
  (* an execution with real contention: g0 takes 3, the writer announces on 12 and obtains it,
     g0 waits for 12, the writer releases, g0 proceeds *)
  map prog (run [0; 0; 2; 2; 1; 1; 0; 2; 0; 0; 0; 1; 1; 1; 1]%nat
                [thread_of ex_g0; thread_of ex_g0; thread_of ex_g2]) = [[]; []; []].
Proof. vm_compute. repeat split. Qed.

(* the repaired defects: the pre-fix shape is rejected and does deadlock *)
Example C32_prefix_refuted :
  lock_discipline_ok prefix_table = false /\
  conforms (fun _ => 0) prefix_table [] [(0, [])] reader_evs = true /\
  conforms (fun _ => 0) prefix_table [] [(2, [])] writer_evs = true /\
  deadlocked (run [0%nat; 1%nat] [thread_of reader_evs; thread_of writer_evs]).
Proof.
  split; [exact (proj1 prefix_rejected)|]. split; [exact (proj1 prefix_conforms)|].
  split; [exact (proj2 prefix_conforms) | exact prefix_deadlocks].
Qed.

(* a function that returns on some path without releasing: rejected by the complete check although
   its nesting is fine; the leaked lock blocks the next goroutine for ever *)
Example C32_unbalanced_refuted :
  lock_discipline_ok leak_table = true /\
  lock_discipline_ok_full [(0, "Client.flushIdle"%string)] [0] leak_table = false /\
  conforms (fun _ => 0) leak_table [0] [(1, [])] [EEnter 0; EAcq 7 W; EExit] = false /\
  deadlocked (run [0; 0; 1]%nat [mk_thread [] false [Acq 7 W]; mk_thread [] false [Acq 7 W; Rel 7 W]]).
Proof.
  split; [exact (proj1 leak_rejected)|]. split; [exact (proj1 (proj2 leak_rejected))|].
  split; [vm_compute; reflexivity | exact leak_deadlocks].
Qed.

Print Assumptions C32_rank_discipline_sound.
Print Assumptions C32_discipline_sound.
Print Assumptions C32_all_goroutines_can_finish.
Print Assumptions C32_acyclic_means_no_cycle.
Print Assumptions C32_checker_sound.
