(* C40 — The inline client API behaves like a regular subscriber and publisher.
   Statements only.  Model: Session/Deliver.v, operations OInlinePublish / OInlineSubscribe / OInlineUnsubscribe
   (Server.Publish -> InjectPacket -> processPublish with cl.Net.Inline; Server.Subscribe; Server.Unsubscribe;
   Subscribers.InlineSubscriptions keyed by the identifier).  Matching (including a trailing '#' matching the
   parent level) is topic_matches; that the trie agrees is C01 (the inline parent-level defect was fixed there). *)
From MV Require Import Base.Val Topics.Levels Topics.Match Topics.Alist Session.Deliver Session.DeliverProofs Session.DeliverTheorems.
Open Scope N_scope.

(* a message published through the API reaches every connected client with a matching subscription (that it may
   read, and whose queue has room) exactly once ... *)
Theorem C40_reaches_all_clients : forall s orc drops m0 c cl,
  wf_state s -> NoDup (map fst orc) -> get_client s c = Some cl -> c <> inline_origin ->
  let out := o_deliv (snd (step orc drops s (OInlinePublish m0))) in
  length (filter (to_client c) out)
  = (if cl_conn cl && negb (denied s c (m_topic m0)) && negb (nilb (ent_subs c cl (m_topic m0) orc))
        && negb (existsb (beq_bytes c) drops) then 1%nat else 0%nat).
Proof. exact inline_publish_clients. Qed.

(* ... and every inline identifier holding a matching inline subscription exactly once *)
Theorem C40_reaches_all_inline : forall s orc drops m0 id,
  let out := o_deliv (snd (step orc drops s (OInlinePublish m0))) in
  length (filter (to_inline id) out) = if inline_matching s (m_topic m0) id then 1%nat else 0%nat.
Proof. exact inline_publish_inline. Qed.

(* each client copy has QoS = min (requested QoS, highest matching subscription QoS, server maximum) *)
Theorem C40_qos : forall s orc drops m0 c d,
  wf_state s -> NoDup (map fst orc) ->
  In d (filter (to_client c) (o_deliv (snd (publish orc drops s (with_origin inline_origin m0))))) ->
  exists cl, get_client s c = Some cl /\
    d_qos d = spec_qos (st_maxqos s) (m_qos m0) (ent_subs c cl (m_topic m0) orc) /\ d_payload d = m_payload m0.
Proof.
  intros s orc drops m0 c d W NO HI.
  destruct (publish_fields s orc drops (with_origin inline_origin m0) c d W NO HI) as [cl [G H]].
  exists cl. split; [exact G|]. cbv zeta in H. cbn [with_origin m_topic m_payload m_qos] in H.
  destruct H as [_ [H2 [H3 _]]]. split; [exact H3|exact H2].
Qed.

(* an inline subscription first receives the matching retained messages, afterwards live messages *)
Theorem C40_retained_then_live : forall orc drops s id f,
  valid_filter_spec f = true ->
  let r := step orc drops s (OInlineSubscribe id f) in
  o_deliv (snd r) = map (fun m => inline_delivery m id) (retained_matching s f)
  /\ (forall t, topic_matches f t = true -> inline_matching (fst r) t id = true)
  /\ (forall i g, In (i, g) (st_inline s) -> In (i, g) (st_inline (fst r)))
  /\ st_clients (fst r) = st_clients s /\ st_retained (fst r) = st_retained s.
Proof. exact inline_subscribe_step. Qed.

(* unsubscribing one inline subscription removes exactly (id, filter) *)
Theorem C40_unsub_one : forall orc drops s id f,
  valid_filter_spec f = true ->
  let r := step orc drops s (OInlineUnsubscribe id f) in
  o_deliv (snd r) = []
  /\ (forall i g, In (i, g) (st_inline (fst r)) <-> In (i, g) (st_inline s) /\ ~ (i = id /\ g = f))
  /\ st_clients (fst r) = st_clients s /\ st_retained (fst r) = st_retained s.
Proof. exact inline_unsubscribe_step. Qed.

(* ... so delivery to every other identifier is unchanged *)
Theorem C40_unsub_others : forall orc drops s id f t id',
  valid_filter_spec f = true -> id' <> id ->
  inline_matching (fst (step orc drops s (OInlineUnsubscribe id f))) t id' = inline_matching s t id'.
Proof. exact inline_unsubscribe_others. Qed.

(* non-vacuity: parent-level '#', retained first, then live, unsubscribe of one identifier *)
Definition im (t p : bytes) (q : N) (r : bool) : msg := mkMsg t p q r mp_none [].
Example C40_nonvacuous :
  let h := map (fun o => ([], [], o))
             [OInlinePublish (im (tag "a") (tag "kept") 1 true);
              OConnect (tag "c") 5 true false false; OSubscribe (tag "c") [(tag "a/#", mkSO 1 false false 0 0)]] in
  let s := run (init 2 true []) h in
  let r1 := step [] [] s (OInlineSubscribe 7 (tag "a/#")) in
  map (fun d => (d_to d, d_payload d)) (o_deliv (snd r1)) = [(TInline 7, tag "kept")]
  /\ (let r2 := step [] [] (fst r1) (OInlineSubscribe 8 (tag "+")) in
      let r3 := step [] [] (fst r2) (OInlinePublish (im (tag "a") (tag "live") 2 false)) in
      map (fun d => (d_to d, d_qos d)) (o_deliv (snd r3)) = [(TInline 7, 2); (TInline 8, 2); (TClient (tag "c"), 1)]
      /\ (let r4 := step [] [] (fst r3) (OInlineUnsubscribe 7 (tag "a/#")) in
          map (fun d => d_to d) (o_deliv (snd (step [] [] (fst r4) (OInlinePublish (im (tag "a") (tag "again") 0 false)))))
          = [TInline 8; TClient (tag "c")])).
Proof. vm_compute. repeat split. Qed.

Print Assumptions C40_reaches_all_clients.
Print Assumptions C40_reaches_all_inline.
Print Assumptions C40_qos.
Print Assumptions C40_retained_then_live.
Print Assumptions C40_unsub_one.
Print Assumptions C40_unsub_others.

(* ---------- concurrency dimension (topic index level; files Topics/InlineConc*.v) ----------
   Inline Subscribe / Unsubscribe / Publish racing with client unsubscribes and retained clears on the same
   branch of the particle tree.  Model: every index operation, InlineSubscribe's walk + add included, is one
   atomic step under the root lock (Topics.Trie.t_step); an inline publish observes which handlers are called.
   For every program (one list per goroutine) and EVERY schedule: the history keeps every goroutine's order,
   every return value and every set of handlers called is what the plain set of subscriptions gives in that serial
   order, and the final tree is related to the final set — so after quiescence every inline subscription that was
   made and not unsubscribed receives every matching publish, and an unsubscribed one receives nothing. *)
From MV Require Topics.IndexSpec Topics.Trie Topics.TrieRefine Topics.Lin Topics.InlineConc Topics.InlineConcProofs.

Theorem C40_inline_atomic_all_schedules : forall x0 a0 prog (sched : list nat) xf restf h,
  Topics.TrieRefine.R x0 a0 ->
  Forall (fun c => Topics.InlineConc.wf_copb c = true) (concat prog) ->
  Topics.Lin.run_sched Topics.InlineConc.m_step sched x0 prog = (xf, restf, h) ->
  let serial := map (fun e : nat * Topics.InlineConc.cop * N => snd (fst e)) h in
  (forall t, Topics.Lin.proj t h ++ nth t restf [] = nth t prog []) /\
  map snd h = snd (Topics.Lin.seq_run Topics.InlineConc.c_step a0 serial) /\
  Topics.TrieRefine.R xf (fst (Topics.Lin.seq_run Topics.InlineConc.c_step a0 serial)).
Proof. exact Topics.InlineConcProofs.inline_atomic_all_schedules. Qed.

(* The split variant (root lock released after the walk, subscription added afterwards) is refuted by the schedule
   walk / client unsubscribe / add: the subscription lands on a pruned particle and a later publish calls nobody,
   which no serial order of the specification allows; the run-time checker rejects that observation. *)
Example C40_split_refuted :
  (let '(xf, _, _) := Topics.Lin.run_sched Topics.InlineConc.s_step [0; 1; 0]%nat Topics.InlineConcProofs.x_pre
       [[Topics.InlineConc.SWalk Topics.InlineConcProofs.ab; Topics.InlineConc.SAdd 1 Topics.InlineConcProofs.ab 0];
        [Topics.InlineConc.SO (Topics.InlineConc.CO (Topics.IndexSpec.OUnsub (tag "c1") Topics.InlineConcProofs.ab))]] in
   Topics.InlineConc.pub_mask (Topics.Trie.r_in (Topics.Trie.subscribers xf Topics.InlineConcProofs.ab))) = 0 /\
  snd (Topics.InlineConc.c_step
         (fst (Topics.Lin.seq_run Topics.InlineConc.c_step Topics.InlineConcProofs.a_pre
                 [Topics.InlineConc.CO (Topics.IndexSpec.OUnsub (tag "c1") Topics.InlineConcProofs.ab);
                  Topics.InlineConc.CO (Topics.IndexSpec.OInSub 1 Topics.InlineConcProofs.ab 0)]))
         (Topics.InlineConc.CPub Topics.InlineConcProofs.ab)) = 1.
Proof. vm_compute. split; reflexivity. Qed.

Print Assumptions C40_inline_atomic_all_schedules.
