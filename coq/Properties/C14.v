(* C14 — Session present flag and session takeover behave per clean start.  Statements only. *)
From MV Require Import Base.Val Base.Sched Session.Lifecycle Session.LifeSpec Session.LifeBase Session.LifeProofs13
  Session.LifeProofs14 Conc.Connack Conc.ConnackProofs Conc.Takeover Conc.TakeoverProofs.
Open Scope N_scope.

Definition model_obs (k : caps) (ops : list op) : list obs := map obs_of (trace k init ops).

(* [mon14] (Session/LifeSpec.v) is the specification monitor that ./check runs on what the real broker
   did; on the traces of the component model it never reports anything, for every history of
   operations and every server configuration (sequential orders: every operation runs to
   quiescence; the teardown of a taken-over connection is an operation of its own, OTeardown). *)

(* CONNACK session present = a session existed && !clean start *)
Theorem C14_sp : forall (k : caps) (ops : list op), fresh_conns [] ops = true ->
  forall v, In v (mon14 (model_obs k ops)) -> v_tag v <> V14_sp.
Proof. intros k ops F v I. unfold model_obs in I. rewrite (mon14_model_clean k ops F) in I. destruct I. Qed.

(* a resumed session keeps every subscription (in the session and in the topic index) and every unacknowledged message *)
Theorem C14_resume_keeps : forall (k : caps) (ops : list op), fresh_conns [] ops = true ->
  forall v, In v (mon14 (model_obs k ops)) -> v_tag v <> V14_keeps.
Proof. intros k ops F v I. unfold model_obs in I. rewrite (mon14_model_clean k ops F) in I. destruct I. Qed.

(* with clean start nothing of the previous session survives in the broker: no subscription, no
   in-flight message, no entry of the topic index; and the discarded session is reported to the hooks -
   every unacknowledged message through OnQosDropped, every subscription through OnUnsubscribed - so that
   a persistent store forgets it and cannot restore it later (the restore itself is C21) *)
Theorem C14_clean_drops : forall (k : caps) (ops : list op), fresh_conns [] ops = true ->
  forall v, In v (mon14 (model_obs k ops)) -> v_tag v <> V14_clean /\ v_tag v <> V14_clean_hooks.
Proof. intros k ops F v I. unfold model_obs in I. rewrite (mon14_model_clean k ops F) in I. destruct I. Qed.

(* the connection whose identifier is taken over receives DISCONNECT 0x8E (MQTT 5) and nothing else, is
   closed, and no connection ever receives a packet after the broker closed it *)
Theorem C14_old_silent : forall (k : caps) (ops : list op), fresh_conns [] ops = true ->
  forall v, In v (mon14 (model_obs k ops)) -> v_tag v <> V14_old_after /\ v_tag v <> V14_old_takeover.
Proof. intros k ops F v I. unfold model_obs in I. rewrite (mon14_model_clean k ops F) in I. destruct I. Qed.

(* ---- schedules: the old connection's teardown against the new connection's attach (Conc/Takeover.v) ---- *)

(* C14-1: the old handler passes !IsTakenOver() before the flag is stored and then deletes the NEW
   client's registration: a connected session is not in Clients any more *)
Theorem C14_registered_schedules_refuted : exists p sched, new_registered (run_takeover p sched) = false.
Proof. exact new_registered_refuted. Qed.

Theorem C14_registered_modulo_findings : forall p sched,
  KF_C14_stale_takenover_check p sched = false -> new_registered (run_takeover p sched) = true.
Proof. exact new_registered_modulo. Qed.

(* C14-2: a QoS>0 message published between inheritClientSession and Clients.Add enters the old
   object's in-flight map and is lost to the resumed session *)
Theorem C14_keeps_schedules_refuted : exists sched, message_kept (run_connack sched) = false.
Proof. exact message_kept_refuted. Qed.

Theorem C14_keeps_modulo_findings : forall sched,
  KF_C14_publish_in_inherit_window sched = false -> message_kept (run_connack sched) = true.
Proof. exact message_kept_modulo. Qed.

(* non-vacuity: a takeover that resumes (subscription and unacknowledged message kept, old connection
   gets DISCONNECT 0x8E and is closed) followed by a clean start (everything dropped) *)
Definition cp5 (id : bytes) (clean : bool) (sei : N) : cparams :=
  {| cp_pname := name_MQTT; cp_ver := 5; cp_reserved := false; cp_clean := clean; cp_willflag := false; cp_willqos := 0;
     cp_willretain := false; cp_willtopic := []; cp_willpayload := []; cp_willdelay := 0; cp_userflag := false; cp_user := [];
     cp_passflag := false; cp_pass := []; cp_keepalive := 60; cp_id := id; cp_seiflag := true; cp_sei := sei;
     cp_trunc := false; cp_willtopic_ok := true |}.
Definition capsD : caps := {| k_maxsei := 4294967295; k_minver := 3; k_maxqos := 2; k_retain := true |}.
Definition mk (t pl : bytes) (q : N) : msg := {| m_topic := t; m_payload := pl; m_qos := q; m_retain := false |}.
Definition hist14 : list op :=
  [OConnect 0 1000 (cp5 [111] true 0) true [111]; OConnect 1 1000 (cp5 [97] false 30) true [97]; OSubscribe 1 [116] 1;
   OPublish 0 (mk [116] [49] 1); OConnect 2 1000 (cp5 [97] false 30) true [97]; OTeardown 1 1000;
   OConnect 3 1000 (cp5 [97] true 30) true [97]; OTeardown 2 1000; OPublish 0 (mk [116] [50] 1)].
Example C14_nonvacuous :
  mon14 (model_obs capsD hist14) = [] /\
  nth 4 (map t_outs (trace capsD init hist14)) [] =
    [OPkt 1 (PDisconnect 142); OClose 1; OPkt 2 (PConnack 0 true); OPkt 2 (PPublish (mk [116] [49] 1) true)] /\
  nth 6 (map t_outs (trace capsD init hist14)) [] = [OPkt 2 (PDisconnect 142); OClose 2; OPkt 3 (PConnack 0 false)] /\
  nth 8 (map t_outs (trace capsD init hist14)) [] = [].
Proof. vm_compute. repeat split. Qed.

Print Assumptions C14_sp.
Print Assumptions C14_resume_keeps.
Print Assumptions C14_clean_drops.
Print Assumptions C14_old_silent.
Print Assumptions C14_registered_schedules_refuted.
Print Assumptions C14_registered_modulo_findings.
Print Assumptions C14_keeps_schedules_refuted.
Print Assumptions C14_keeps_modulo_findings.
