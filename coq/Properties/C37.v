(* C37 — Idle connections are closed after one and a half keepalive periods.
   Statements only; every proof is [exact lemma].  Times are in milliseconds; [run K (Open t0) l]
   is the packet loop of Client.Read started (deadline armed) at time t0 over the packets arriving
   at the times l; [closed_by K c t] says whether the connection is closed at time t when nothing
   else has arrived.  Partial: the OS / Go runtime timers are trusted to fire at the deadline that
   was set, and packet processing time is taken as zero (it only delays the real deadline). *)
From MV Require Import Base.Val IO.Keepalive IO.KeepaliveProofs Findings.FixedC37.
Open Scope Z_scope.

(* The deadline the code sets is exactly one and a half keepalive periods (the int64 nanosecond
   product cannot wrap for any 16-bit keepalive). *)
Theorem C37_deadline : forall K, 0 < K <= 65535 ->
  deadline_ms K = Some (1500 * K) /\ 0 <= K * second_ns * 3 < 2 ^ 63.
Proof.
  intros K H. split; [apply deadline_ms_pos; apply H | apply deadline_ns_no_overflow; split; [|apply H]].
  destruct H as [H _]. apply Z.lt_le_incl. exact H.
Qed.

(* K > 0: whatever packets arrived (in order, any gaps) — once nothing has arrived for 1.5 K
   seconds after the last of them, the connection is closed. *)
Theorem C37_closes_by : forall K t0 arrivals t, 0 < K <= 65535 ->
  ordered_from t0 arrivals ->
  last arrivals t0 + 1500 * K <= t ->
  closed_by K (run K (Open t0) arrivals) t = true.
Proof. exact closes_by. Qed.

(* While packets keep arriving less than 1.5 K seconds apart every one of them is read, the loop
   is still open and armed at the last arrival, and the connection is not closed at any time
   earlier than 1.5 K seconds after the last packet. *)
Theorem C37_never_early : forall K t0 arrivals t, 0 <= K <= 65535 ->
  gaps_below t0 arrivals (1500 * K) ->
  t < last arrivals t0 + 1500 * K ->
  run K (Open t0) arrivals = Open (last arrivals t0) /\
  closed_by K (run K (Open t0) arrivals) t = false.
Proof. exact never_early. Qed.

(* A packet that comes 1.5 K seconds or more after its predecessor is not read, nor anything after. *)
Theorem C37_late_packet_not_read : forall K t0 arrivals late rest, 0 < K <= 65535 ->
  gaps_below t0 arrivals (1500 * K) ->
  last arrivals t0 + 1500 * K <= late ->
  run K (Open t0) (arrivals ++ late :: rest) = Closed (last arrivals t0 + 1500 * K).
Proof. exact late_packet_not_read. Qed.

(* Keepalive 0: never closed for inactivity, whatever the arrival times. *)
Theorem C37_zero_disables : forall t0 arrivals t,
  run 0 (Open t0) arrivals = Open (last arrivals t0) /\
  closed_by 0 (run 0 (Open t0) arrivals) t = false.
Proof. exact zero_disables. Qed.

(* Histories that mix inbound packets with what the broker itself writes to the connection
   (deliveries, retained messages, wills): the writes are no-ops for the keepalive state, so the
   connection is closed exactly 1.5 K s after the last INBOUND packet whatever the outbound traffic. *)
Theorem C37_outbound_irrelevant : forall K c h, run_ev K c h = run K c (inbounds h).
Proof. exact (fun K c h => run_ev_inbounds K h c). Qed.

Theorem C37_mixed_closes_by : forall K t0 h t, 0 < K <= 65535 ->
  ordered_from t0 (inbounds h) ->
  last (inbounds h) t0 + 1500 * K <= t ->
  closed_by K (run_ev K (Open t0) h) t = true.
Proof. exact mixed_closes_by. Qed.

Theorem C37_mixed_never_early : forall K t0 h t, 0 <= K <= 65535 ->
  gaps_below t0 (inbounds h) (1500 * K) ->
  t < last (inbounds h) t0 + 1500 * K ->
  run_ev K (Open t0) h = Open (last (inbounds h) t0) /\
  closed_by K (run_ev K (Open t0) h) t = false.
Proof. exact mixed_never_early. Qed.

(* a connection that only receives is closed 1.5 K s after it was armed, however often the broker
   writes to it *)
Theorem C37_writes_do_not_extend : forall K t0 outs t, 0 < K <= 65535 -> t0 + 1500 * K <= t ->
  closed_by K (run_ev K (Open t0) (map HOut outs)) t = true.
Proof. exact writes_do_not_extend. Qed.

Example C37_mixed_nonvacuous :
  run_ev 1 (Open 0) [HIn 100; HOut 600; HOut 1100; HOut 1590; HIn 1650] = Closed 1600 /\
  closed_by 1 (run_ev 1 (Open 0) [HIn 100; HOut 600; HOut 1100; HOut 1590]) 1599 = false /\
  closed_by 1 (run_ev 1 (Open 0) [HIn 100; HOut 600; HOut 1100; HOut 1590]) 1600 = true.
Proof. vm_compute. repeat split. Qed.

(* non-vacuity: keepalive 1, packets 1.25 s apart survive, 1.5 s of silence closes; keepalive
   65535 has the full 98302.5 s *)
Example C37_nonvacuous :
  run 1 (Open 0) [1250; 2500; 3749] = Open 3749 /\
  closed_by 1 (run 1 (Open 0) [1250; 2500; 3749]) 5248 = false /\
  closed_by 1 (run 1 (Open 0) [1250; 2500; 3749]) 5249 = true /\
  run 1 (Open 0) [1250; 2750; 2800] = Closed 2750 /\
  deadline_ms 65535 = Some 98302500 /\
  gaps_below 0 [1250; 2500; 3749] (1500 * 1).
Proof. vm_compute. repeat split; intro; discriminate. Qed.

(* the repaired defect (fixed in /repo): whole-second uint16 arithmetic *)
Example C37_prefix_refuted :
  deadline_ms_prefix 1 = Some 1000 /\ deadline_ms_prefix 43691 = Some 0 /\
  step_prefix (Open 0) 1 1250 = Closed 1000.
Proof.
  split; [exact (proj1 prefix_odd_loses_half_second)|].
  split; [exact (proj1 prefix_wraps)|exact prefix_closes_early].
Qed.

Print Assumptions C37_deadline.
Print Assumptions C37_closes_by.
Print Assumptions C37_never_early.
Print Assumptions C37_late_packet_not_read.
Print Assumptions C37_zero_disables.
Print Assumptions C37_outbound_irrelevant.
Print Assumptions C37_mixed_closes_by.
Print Assumptions C37_mixed_never_early.
Print Assumptions C37_writes_do_not_extend.
