(* C16 — Will messages are published exactly when the protocol requires.  Statements only.

   [mon16] (Session/LifeSpec.v) is the specification monitor that ./check runs on what the real broker
   did (will publications are observed at a subscriber of the will topics).  The faithful model of the
   current code VIOLATES it in four ways, each kept as a known finding with a narrow executable
   predicate (Session/LifeKF.v) and a witness history that replays on the real broker; the
   interleaving clause ("for every interleaving of the old connection's shutdown with the new
   connection") is decided on the window model Conc/Takeover.v for all schedules.
   For all histories of the sequential model: C16_modulo_findings_partial (below) proves that every
   violation the monitor reports with a SAFETY tag (published twice, after a normal DISCONNECT,
   although cancelled, before its time, while alive / without a will, wrong content, dropped by a clean
   start) is one of the known findings; the four LIVENESS tags (a due will is NOT published: V16_missing,
   V16_missing_takeover, V16_late; not retained: V16_retain) are not covered by the proof - they are
   decided on every run against the real broker.  The full statement is C16_modulo_findings_statement. *)
From MV Require Import Base.Val Base.Sched Session.Lifecycle Session.LifeSpec Session.LifeKF Session.LifeProofs13 Session.LifeProofs16
  Session.LifeProofs16M Conc.Takeover Conc.TakeoverProofs.
Open Scope N_scope.

Definition model_obs (k : caps) (ops : list op) : list obs := map obs_of (trace k init ops).

Definition capsD : caps := {| k_maxsei := 4294967295; k_minver := 3; k_maxqos := 2; k_retain := true |}.
Definition cpW (id : bytes) (clean : bool) (sei : option N) (will : option (N * bool * N)) : cparams :=
  {| cp_pname := name_MQTT; cp_ver := 5; cp_reserved := false; cp_clean := clean;
     cp_willflag := match will with Some _ => true | None => false end;
     cp_willqos := match will with Some (q, _, _) => q | None => 0 end;
     cp_willretain := match will with Some (_, r, _) => r | None => false end;
     cp_willtopic := match will with Some _ => [119] | None => [] end;
     cp_willpayload := match will with Some _ => [87] | None => [] end;
     cp_willdelay := match will with Some (_, _, d) => d | None => 0 end;
     cp_userflag := false; cp_user := []; cp_passflag := false; cp_pass := []; cp_keepalive := 60; cp_id := id;
     cp_seiflag := match sei with Some _ => true | None => false end; cp_sei := match sei with Some v => v | None => 0 end;
     cp_trunc := false; cp_willtopic_ok := true |}.
Definition obsC : op := OConnect 0 1000 (cpW [111] true None None) true [111].
Definition obsS : op := OSubscribe 0 [119] 2.

Definition explained (k : caps) (ops : list op) : bool :=
  forallb (fun v => match kf_of k (model_obs k ops) v with Some _ => true | None => false end) (mon16 k (model_obs k ops)).

(* C16-1: a live connection with a delayed will is taken over by a resuming connection; its teardown
   registers the delayed will after the new connection's cancellation, and the will fires *)
Definition hist_takeover : list op :=
  [obsC; obsS; OConnect 1 1000 (cpW [97] false (Some 20) (Some (1, false, 3))) true [97];
   OConnect 2 1000 (cpW [97] false (Some 20) None) true [97]; OTeardown 1 1000; OTickWill 1004].
Theorem C16_refuted_takeover_delayed :
  map v_tag (mon16 capsD (model_obs capsD hist_takeover)) = [V16_cancelled] /\
  existsb (KF_C16_takeover_delayed capsD (model_obs capsD hist_takeover)) (mon16 capsD (model_obs capsD hist_takeover)) = true.
Proof. vm_compute. split; reflexivity. Qed.

(* C16-2: will delay 3, no Session Expiry property (the session ends at disconnect): the will is
   published only by the tick after the full delay instead of at the disconnect *)
Definition hist_uncapped : list op :=
  [obsC; obsS; OConnect 1 1000 (cpW [97] false None (Some (1, false, 3))) true [97]; ONetClose 1 1000; OTickWill 1004].
Theorem C16_refuted_delay_uncapped :
  map v_tag (mon16 capsD (model_obs capsD hist_uncapped)) = [V16_missing; V16_once] /\
  forallb (KF_C16_delay_uncapped capsD (model_obs capsD hist_uncapped)) (mon16 capsD (model_obs capsD hist_uncapped)) = true.
Proof. vm_compute. split; reflexivity. Qed.

(* C16-6: the delay was cut down to the CONNECT's session expiry (4); the DISCONNECT with Will Message
   raises the expiry to 30, so the will is due at min(8, 30) = +8 but is published by the tick at +6 *)
Definition hist_early : list op :=
  [obsC; obsS; OConnect 1 1000 (cpW [97] false (Some 4) (Some (1, false, 8))) true [97]; ODisconnect 1 1000 4 (Some 30);
   OTickWill 1006].
Theorem C16_refuted_delay_fixed_at_connect :
  map v_tag (mon16 capsD (model_obs capsD hist_early)) = [V16_early] /\
  forallb (KF_C16_delay_fixed_at_connect capsD (model_obs capsD hist_early)) (mon16 capsD (model_obs capsD hist_early)) = true.
Proof. vm_compute. split; reflexivity. Qed.

(* C16-5: a pending delayed will is dropped by a clean-start connection (the session ended: it is due) *)
Definition hist_clean : list op :=
  [obsC; obsS; OConnect 1 1000 (cpW [97] false (Some 20) (Some (1, false, 3))) true [97]; ONetClose 1 1000;
   OConnect 2 1000 (cpW [97] true (Some 20) None) true [97]; OTickWill 1004].
Theorem C16_refuted_clean_reconnect :
  map v_tag (mon16 capsD (model_obs capsD hist_clean)) = [V16_lost_clean] /\
  forallb (KF_C16_clean_reconnect capsD (model_obs capsD hist_clean)) (mon16 capsD (model_obs capsD hist_clean)) = true.
Proof. vm_compute. split; reflexivity. Qed.

(* C16-3: a delayed retained will fires after the session has expired: forwarded but not retained *)
Definition hist_retain : list op :=
  [obsC; obsS; OConnect 1 1000 (cpW [97] false (Some 6) (Some (1, true, 6))) true [97]; ONetClose 1 1000;
   OTickClients 1007; OTickWill 1007].
Theorem C16_refuted_delayed_retain :
  map v_tag (mon16 capsD (model_obs capsD hist_retain)) = [V16_retain] /\
  forallb (KF_C16_delayed_retain_gone capsD (model_obs capsD hist_retain)) (mon16 capsD (model_obs capsD hist_retain)) = true.
Proof. vm_compute. split; reflexivity. Qed.

(* ---- for every history of operations (sequential model) ---- *)

(* THE FULL STATEMENT (not proved in full): on the trace of every decodable history ([sane_ops]: only
   an MQTT 5 CONNECT carries a will delay, only an MQTT 5 connection sends DISCONNECT properties), every
   violation the monitor reports is a known finding. *)
Definition C16_modulo_findings_statement : Prop :=
  forall (k : caps) (ops : list op), sane_ops k init ops ->
  Forall (fun v => kf_of k (model_obs k ops) v <> None) (mon16 k (model_obs k ops)).

(* PROVED PART.  The same, except for violations with one of the four liveness tags ([uncovered]:
   V16_missing, V16_missing_takeover, V16_late - a will that is due is not published - and V16_retain).
   So, outside the known findings (KF_C16_takeover_delayed, KF_C16_delay_uncapped,
   KF_C16_delay_fixed_at_connect, KF_C16_clean_reconnect; [kf_of] names the predicate that holds), in
   every history: a connection's will is never published twice (V16_once), never after a normal
   DISCONNECT (V16_after_normal), never while the connection is alive or without a registered will
   (V16_unexpected), never before min(delay, session end) (V16_early), never after a resuming connection
   cancelled it (V16_cancelled), always with the registered content (V16_content), and a pending will is
   dropped by a later connection only as KF_C16_clean_reconnect describes (V16_lost_clean).
   What is missing for the full statement: that a will which is due IS published (at the abnormal end,
   by the end of the taken-over connection's teardown, by the tick after its deadline) unless
   KF_C16_takeover_delayed (incl. its knock-on disjuncts) / KF_C16_delay_uncapped hold, and the retain
   clause modulo KF_C16_delayed_retain_gone. *)
Theorem C16_modulo_findings_partial : forall (k : caps) (ops : list op), sane_ops k init ops ->
  Forall (fun v => uncovered (v_tag v) = true \/ kf_of k (model_obs k ops) v <> None) (mon16 k (model_obs k ops)).
Proof. exact mon16_explained. Qed.

(* The order of the delayed-will table.  server.go sendDelayedLWT ranges over a Go map, so the real
   broker handles the entries that are due in one tick in an arbitrary order (observable: order of the
   publications; which of two retained wills on one topic stays retained).  The replay engine therefore
   rearranges the model's table into the observed order before a tick ([reorder_wills]).  That is a
   permutation of the table, the invariant behind the theorem above does not depend on the order of the
   table, and the theorem holds from every state that satisfies the invariant - so it also covers runs
   in which the table is rearranged between operations. *)
Theorem C16_tick_order_is_a_permutation : forall (order : list N) (s : state),
  Permutation.Permutation (st_wills (LifeEngine.reorder_wills order s)) (st_wills s).
Proof. exact reorder_wills_perm. Qed.

Theorem C16_invariant_ignores_table_order : forall k m s h0 l,
  KI k m s h0 -> Permutation.Permutation l (st_wills s) -> KI k m (set_wills s l) h0.
Proof. exact KI_perm. Qed.

Theorem C16_modulo_findings_partial_from : forall k m s h0 ops, KI k m s h0 -> sane_ops k s ops ->
  Forall (fun v => uncovered (v_tag v) = true \/ kf_of k (h0 ++ map obs_of (trace k s ops)) v <> None)
         (run_mon (m16_step k) (length h0) m (map obs_of (trace k s ops))).
Proof. exact mon16_explained_from. Qed.

(* the three clauses for which there is no finding at all *)
Theorem C16_never_unexpected_after_normal_or_altered : forall (k : caps) (ops : list op), sane_ops k init ops ->
  Forall (fun v => v_tag v <> V16_unexpected /\ v_tag v <> V16_after_normal /\ v_tag v <> V16_content) (mon16 k (model_obs k ops)).
Proof. exact mon16_safety_clauses. Qed.


(* content: every will publication, in every history, carries topic, payload, QoS and retain flag of a
   CONNECT of that connection which had the will flag set ([reg_of]: the wills registered by the
   history's CONNECTs; connection numbers are fresh, so it is THE will the connection registered) *)
Theorem C16_content : forall (k : caps) (ops : list op) (t : tstep) (c : N) (m : msg),
  In t (trace k init ops) -> In m (wills_for c (t_outs t)) -> In (c, m) (reg_of ops).
Proof.
  intros k ops t c m. apply wills_content_from_init.
Qed.

(* a will is published only by its own connection's handler when it ends with an error while the
   will is armed, or by the delayed-will tick from the table: nothing else publishes a will *)
Theorem C16_publication_sources : forall (k : caps) (s : state) (o : op) (c : N) (m : msg),
  In m (wills_for c (snd (step k s o))) -> src_ok s c m.
Proof. exact step_src. Qed.

(* ---- every interleaving of the old connection's shutdown with the new connection (Conc/Takeover.v) ---- *)

(* a will without delay is published at most once, and exactly once when the old handler is through *)
Theorem C16_once_schedules : forall p sched, will_once (run_takeover p sched) = true.
Proof. exact will_once_all. Qed.

(* the delayed will is cancelled by the resuming connection only if it was registered before the
   new connection's willDelayed.Delete *)
Theorem C16_cancel_schedules_refuted : exists p sched, will_cancelled (run_takeover p sched) = false.
Proof. exact will_cancelled_refuted. Qed.

Theorem C16_cancel_modulo_findings : forall p sched,
  KF_C16_late_will_registration p sched = false -> will_cancelled (run_takeover p sched) = true.
Proof. exact will_cancelled_modulo. Qed.

(* non-vacuity (sequential model): will published once at an abnormal end and with reason 0x04, never
   after a normal DISCONNECT, delayed will at the delay, cancelled by a resuming connection; content kept *)
Definition hist_ok : list op :=
  [obsC; obsS;
   OConnect 1 1000 (cpW [97] false (Some 20) (Some (1, true, 0))) true [97]; ONetClose 1 1000;
   OConnect 2 1000 (cpW [98] false (Some 20) (Some (2, false, 0))) true [98]; ODisconnect 2 1000 0 None;
   OConnect 3 1000 (cpW [98] false (Some 20) (Some (2, false, 0))) true [98]; ODisconnect 3 1000 4 None;
   OConnect 4 1000 (cpW [99] false (Some 20) (Some (0, false, 3))) true [99]; ONetClose 4 1000; OTickWill 1003; OTickWill 1004;
   OConnect 5 1000 (cpW [100] false (Some 20) (Some (0, false, 3))) true [100]; ONetClose 5 1000;
   OConnect 6 1001 (cpW [100] false (Some 20) None) true [100]; OTickWill 1010].
Example C16_nonvacuous :
  mon16 capsD (model_obs capsD hist_ok) = [] /\
  map (fun t => wills_of (t_outs t)) (trace capsD init hist_ok) =
    [[]; []; []; [(1, {| m_topic := [119]; m_payload := [87]; m_qos := 1; m_retain := true |})]; []; []; [];
     [(3, {| m_topic := [119]; m_payload := [87]; m_qos := 2; m_retain := false |})]; []; []; [];
     [(4, {| m_topic := [119]; m_payload := [87]; m_qos := 0; m_retain := false |})]; []; []; []; []].
Proof. vm_compute. split; reflexivity. Qed.

Print Assumptions C16_refuted_takeover_delayed.
Print Assumptions C16_refuted_delay_uncapped.
Print Assumptions C16_refuted_delay_fixed_at_connect.
Print Assumptions C16_refuted_clean_reconnect.
Print Assumptions C16_refuted_delayed_retain.
Print Assumptions C16_modulo_findings_partial.
Print Assumptions C16_never_unexpected_after_normal_or_altered.
Print Assumptions C16_tick_order_is_a_permutation.
Print Assumptions C16_invariant_ignores_table_order.
Print Assumptions C16_modulo_findings_partial_from.
Print Assumptions C16_content.
Print Assumptions C16_publication_sources.
Print Assumptions C16_once_schedules.
Print Assumptions C16_cancel_schedules_refuted.
Print Assumptions C16_cancel_modulo_findings.
