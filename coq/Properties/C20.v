(* C20 — Persistent state is restored faithfully after a restart.
   Statements only; every proof is [exact lemma]. *)
From MV Require Import Base.Val Storage.Kv Storage.StoreHooks Storage.StoreProofs Storage.Restart
                       Storage.RestartProofs Findings.FixedC20.
Open Scope N_scope.

(* The property at full strength, for a server with maximum message expiry interval [maxcap]: for
   every sequence of storage writes (so: for every history of hook events, [awrites_of evs]) and
   every back end, the broker restarted on the store has, under every client id / (client id,
   filter) / (client id, packet id) / topic, exactly what the writes describe: the sessions that
   outlive their connection with all persisted settings, their subscriptions with options, their
   in-flight messages and the retained messages with content, properties, the time at which they
   expire and the expiry time the interval sent to receivers is computed from. *)
Definition C20_restart_statement : Prop :=
  forall (maxcap : N) (aws : list awr) (b : backend),
    restores maxcap (restart maxcap (read_back (run_awrites b aws))) (arun aws).

(* It does not hold of the code; three known findings, one witness each. *)
Theorem C20_refuted :
  (exists aws, KF_C20_sub_key_collision aws = true /\
     rest_sub (restart 86400 (read_back (run_awrites Redis aws))) (tag "a", tag "b:c") <>
     spec_sub (arun aws) (tag "a", tag "b:c")) /\
  (exists aws, KF_C20_irregular_expiry 86400 aws = true /\
     rest_ret 86400 (restart 86400 (read_back (run_awrites Redis aws))) (tag "w") <>
     spec_ret 86400 (arun aws) (tag "w")) /\
  (exists aws id, key_limit_exceeded aws = true /\
     rest_session (restart 86400 (read_back (run_awrites Bolt aws))) id <> spec_session (arun aws) id).
Proof.
  split; [|split].
  - exists collision_history. destruct collision_witness as [A [B C]]. split; [exact A|]. rewrite B, C. discriminate.
  - exists irregular_history. destruct irregular_witness as [A [B C]]. split; [exact A|].
    intro E. rewrite E in B. rewrite C in B. discriminate B.
  - exists long_key_history, long_id. destruct long_key_witness as [A [B C]]. split; [exact A|]. rewrite B.
    intro E. rewrite <- E in C. discriminate C.
Qed.

(* Outside the findings — no two (client id, filter) pairs of the history sharing the key
   "<id>:<filter>", no message whose expiry time is not the one the broker derives from its creation
   time and expiry interval, no key beyond bbolt's 32768 bytes — and for 16-bit packet identifiers,
   the statement holds for every sequence of writes and all four back ends. *)
Theorem C20_restart_modulo_findings : forall maxcap aws b,
  key_limit_exceeded aws = false ->
  KF_C20_sub_key_collision aws = false ->
  KF_C20_irregular_expiry maxcap aws = false ->
  pids_ok aws = true ->
  restores maxcap (restart maxcap (read_back (run_awrites b aws))) (arun aws).
Proof. exact restart_restores. Qed.

(* in particular for the writes of any history of storage hook events *)
Theorem C20_restart_history_modulo_findings : forall maxcap evs b,
  KF_C22_key_limit evs = false ->
  KF_C20_sub_key_collision (awrites_of evs) = false ->
  KF_C20_irregular_expiry maxcap (awrites_of evs) = false ->
  pids_ok (awrites_of evs) = true ->
  restores maxcap (restart maxcap (read_back (run_hooks b evs))) (arun (awrites_of evs)).
Proof. intros maxcap evs b. exact (restart_restores maxcap (awrites_of evs) b). Qed.

(* non-vacuity: a history over ids / filters / topics with ':' '/' '_' and unicode, free of findings,
   restores a session with its expiry settings, a subscription with options, an in-flight message
   and a retained message with its own expiry time, on every back end *)
Definition nv_client : client_rec :=
  mkClientRec (tag "a:b_c/ü") (tag "t") (tag "r") (tag "u") false 5 60 true 0 true (VL []) (VL []).
Definition nv_pub : pkt :=
  mkPkt (VL [VN 3; VN 1; VN 0; VN 1; VN 9]) 7 (tag "x:y/z_ü") (tag "m") (tag "o:1") 1000 1005%Z 5 1 true 5 (VL []).
Definition nv_history : list awr :=
  [ASetClient nv_client; ASetSub (tag "a:b_c/ü") (mkSub (tag "x:y/#") 3 1 2 true true) 1;
   ASetIfm (tag "a:b_c/ü") nv_pub 1001; ASetRet (tag "o:1") nv_pub; ASetSys (VN 1)].

Example C20_nonvacuous :
  key_limit_exceeded nv_history = false /\ KF_C20_sub_key_collision nv_history = false /\
  KF_C20_irregular_expiry 86400 nv_history = false /\ pids_ok nv_history = true /\
  forall b, In b [Badger; Pebble; Bolt; Redis] ->
    let rs := restart 86400 (read_back (run_awrites b nv_history)) in
    option_map cr_sei_flag (rest_session rs (tag "a:b_c/ü")) = Some true /\
    option_map su_qos (rest_sub rs (tag "a:b_c/ü", tag "x:y/#")) = Some 1 /\
    option_map mo_deadline (rest_ifm 86400 rs (tag "a:b_c/ü", 7)) = Some (Some 1005%Z) /\
    option_map mo_pf_flag (rest_ret 86400 rs (tag "x:y/z_ü")) = Some true.
Proof.
  repeat split; try (vm_compute; reflexivity).
  all: destruct H as [<-|[<-|[<-|[<-|[]]]]]; vm_compute; reflexivity.
Qed.

(* the repaired defects (fixed in /repo), one witness each *)
Example C20_prefix_flags_lost :
  cr_sei_flag (client_rec_prefix c1) = false /\ cr_rpi_flag (client_rec_prefix c1) = false.
Proof. exact prefix_flags_lost. Qed.

Example C20_prefix_expiry_lost :
  deadline 86400 p1 = Some 1005%Z /\
  deadline 86400 (to_packet_prefix (retained_record (tag "o") p1)) = Some 87400%Z /\
  deadline 86400 (to_packet 86400 (retained_record (tag "o") p1)) = Some 1005%Z.
Proof. exact prefix_expiry_lost. Qed.

Print Assumptions C20_refuted.
Print Assumptions C20_restart_modulo_findings.
Print Assumptions C20_restart_history_modulo_findings.
