(* C21 — A crash never loses acknowledged state or resurrects discarded state.
   Statements only; every proof is [exact lemma]. *)
From MV Require Import Base.Val Storage.Kv Storage.StoreHooks Storage.StoreProofs Storage.Restart
                       Storage.RestartProofs Storage.Crash Storage.CrashProofs Findings.FixedC20.
Open Scope N_scope.

(* The property at full strength: for every recorded history (storage hook events interleaved with
   the acknowledgements the broker wrote), every number k of storage writes that reached the store
   before the process died, and every back end, the restarted broker holds exactly the state the
   first k writes describe, and everything acknowledged to a client before the (k+1)-th write is
   among those writes. *)
Definition C21_crash_statement : Prop :=
  forall (maxcap : N) (evs : list event) (k : nat) (b : backend),
    crash_ok maxcap evs k (restart maxcap (read_back (crashed_store b evs k))).

(* It does not hold of the code: processPublish acknowledges a QoS 1/2 PUBLISH to its publisher
   before the message is stored for its subscribers (known finding KF_C21_ack_before_forward; the
   history below is the shape `hx crash` records from the real broker), and the findings of C20
   apply to the state part. *)
Theorem C21_refuted : exists evs k,
  KF_C21_ack_before_forward evs k = true /\
  rest_ifm 86400 (restart 86400 (read_back (crashed_store Bolt evs k))) (tag "s", 1) = None /\
  rest_ifm 86400 (restart 86400 (read_back (crashed_store Bolt evs (S k)))) (tag "s", 1) <> None.
Proof. exists w_history, 4%nat. exact w_history_window. Qed.

(* State part, outside the findings of C20: at every crash point of every history the restarted
   broker holds exactly what the writes made so far describe — nothing written is lost, nothing
   deleted comes back, no subscription or in-flight message exists without its session. *)
Theorem C21_crash_modulo_findings : forall maxcap evs k b,
  key_limit_exceeded (awrites_of evs) = false ->
  KF_C20_sub_key_collision (awrites_of evs) = false ->
  KF_C20_irregular_expiry maxcap (awrites_of evs) = false ->
  pids_ok (awrites_of evs) = true ->
  restores maxcap (restart maxcap (read_back (crashed_store b evs k))) (arun (firstn k (awrites_of evs))).
Proof. exact crash_restores. Qed.

(* A crash inside an operation: whatever the writes still to come ([more]) do not touch is as the
   writes before ([done], all acknowledged or older) left it. *)
Theorem C21_untouched_state_kept : forall maxcap done more,
  (forall cid, ~ In cid (touched_cl more) ->
     spec_session (arun (done ++ more)) cid = spec_session (arun done) cid) /\
  (forall k, ~ In (fst k) (touched_cl more) -> ~ In k (touched_sub more) ->
     spec_sub (arun (done ++ more)) k = spec_sub (arun done) k) /\
  (forall k, ~ In (fst k) (touched_cl more) -> ~ In k (touched_ifm more) ->
     spec_ifm maxcap (arun (done ++ more)) k = spec_ifm maxcap (arun done) k) /\
  (forall t, ~ In t (touched_ret more) ->
     spec_ret maxcap (arun (done ++ more)) t = spec_ret maxcap (arun done) t).
Proof. exact untouched_kept. Qed.

(* Writes issued for a superseded session: the storage hooks write nothing to the client record on
   behalf of a client whose session was taken over (that the broker issues no other storage event
   touching the session for such a client is checked on every recorded history: [superseded_writes]). *)
Theorem C21_superseded_never_deletes_live : forall c expire, rc_takenover c = true ->
  hook_awrites (ESessionEstablished c) = [] /\ hook_awrites (EWillSent c) = [] /\
  hook_awrites (EDisconnect c expire) = [].
Proof. exact superseded_no_client_writes. Qed.

(* Clean Start 1: once the writes have discarded everything recorded for a client id - which the
   broker has to have done when it establishes the clean session; checked on every recorded history
   by [clean_start_leftover] - a restart restores no subscription and no in-flight message for it. *)
Theorem C21_clean_start_nothing_restored : forall maxcap aws b c,
  key_limit_exceeded aws = false -> KF_C20_sub_key_collision aws = false ->
  KF_C20_irregular_expiry maxcap aws = false -> pids_ok aws = true ->
  session_leftover c (arun aws) = false ->
  forall f pid,
    rest_sub (restart maxcap (read_back (run_awrites b aws))) (c, f) = None /\
    rest_ifm maxcap (restart maxcap (read_back (run_awrites b aws))) (c, pid) = None.
Proof. exact clean_start_nothing_restored. Qed.

(* non-vacuity: at the crash point between deleting the client record of an ended session and
   deleting its subscriptions, the restarted broker has neither the session nor the subscription *)
Definition gone : client_rec := mkClientRec (tag "g:1") (tag "t") [] [] true 4 0 false 0 false (VL []) (VL []).
Definition nv_events : list event :=
  [ESessionEstablished (mkRClient gone false);
   ESubscribed (tag "g:1") [(mkSub (tag "a/#") 0 0 1 false false, 1)];
   EDisconnect (mkRClient gone false) true;
   EUnsubscribed (tag "g:1") [tag "a/#"]].

Example C21_nonvacuous :
  length (awrites_of nv_events) = 5%nat /\
  forall b, In b [Badger; Pebble; Bolt; Redis] ->
    let rs := restart 86400 (read_back (crashed_store b nv_events 4)) in
    rest_session rs (tag "g:1") = None /\ rest_sub rs (tag "g:1", tag "a/#") = None /\
    length (rb_subs (read_back (crashed_store b nv_events 4))) = 1%nat.
Proof.
  split; [reflexivity|]. intros b H.
  destruct H as [<-|[<-|[<-|[<-|[]]]]]; vm_compute; repeat split.
Qed.

(* the repaired defects (fixed in /repo) *)
Example C21_prefix_orphan_restored :
  aget sub_key_eqb (tag "gone", tag "a/b") (load_subs_prefix [orphan]) <> None /\
  aget sub_key_eqb (tag "gone", tag "a/b") (load_subs [] [orphan]) = None.
Proof. exact prefix_orphan_restored. Qed.

Example C21_prefix_takeover_clobbers :
  spec_session (arun [ASetClient new_conn; ASetClient old_conn]) (tag "a") = None /\
  spec_session (arun (awrites_of [ESessionEstablished (mkRClient new_conn false);
                                  EDisconnect (mkRClient old_conn true) true])) (tag "a") <> None.
Proof. exact prefix_takeover_clobbers. Qed.

Print Assumptions C21_refuted.
Print Assumptions C21_crash_modulo_findings.
Print Assumptions C21_untouched_state_kept.
Print Assumptions C21_superseded_never_deletes_live.
Print Assumptions C21_clean_start_nothing_restored.
