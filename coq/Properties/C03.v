(* C03 — Every published message reaches exactly the entitled subscribers, once each.
   Statements only.  Model: Session/Deliver.v ([step] on OPublish = processPublish -> publishToSubscribers ->
   publishToClient with Subscription.Merge and the shared-subscription selection), after the fix 0829057
   (user properties of a PUBLISH kept for subscribers with Request Problem Information = 0; pre-fix behaviour
   in Findings/FixedC03.v).  Specification: [spec_entitled] computed from the client's matching
   subscriptions (topic_matches), its connection state, the read permission and No Local.
   The full statement is FALSE of the faithful model: Subscription.Merge sets No Local on the merged
   subscription if ANY matching subscription has it (pinned by TestMergeSubscription), so the publisher's own
   second, ordinary subscription no longer entitles it.  KF_C03_nolocal_merge names exactly that case. *)
From MV Require Import Base.Val Topics.Levels Topics.Match Topics.Alist Session.Deliver Session.DeliverProofs Session.DeliverTheorems.
Open Scope N_scope.

(* number of copies of one accepted publish on client c's connection: 1 if entitled and not a reported drop
   (full outbound queue), else 0 — for every history, every oracle of the shared selection, every drop set *)
Theorem C03_modulo_findings : forall mq ra deny (h : hist) orc drops pub m0 c,
  forallb op_ok (ops_of h) = true -> NoDup (map fst orc) -> valid_pub_topic (m_topic m0) = true ->
  let s := run (init mq ra deny) h in
  let m := accepted mq (with_origin pub m0) in
  let out := o_deliv (snd (step orc drops s (OPublish pub m0))) in
  no_nolocal_finding s orc m c ->
  length (filter (to_client c) out) = expected_copies s orc drops m c.
Proof. exact C03_history_modulo. Qed.

(* the same for every well-formed state (not only reachable ones) *)
Theorem C03_state_modulo_findings : forall s orc drops m0 c,
  wf_state s -> NoDup (map fst orc) ->
  no_nolocal_finding s orc (accepted (st_maxqos s) m0) c ->
  length (filter (to_client c) (o_deliv (snd (publish orc drops s m0))))
  = expected_copies s orc drops (accepted (st_maxqos s) m0) c.
Proof. exact publish_copies. Qed.

(* per client and publish the decision itself, for any oracle: sent iff entitled and room in the queue *)
Theorem C03_decision : forall s orc drops m c cl,
  NoDup (map fst (cl_subs cl)) -> NoDup (map fst orc) ->
  KF_C03_nolocal_merge c m (ent_subs c cl (m_topic m) orc) = false ->
  is_send (deliver_to s orc drops m c cl)
  = spec_entitled s c cl m (ent_subs c cl (m_topic m) orc) && negb (existsb (beq_bytes c) drops).
Proof. exact deliver_send_iff. Qed.

(* every copy has the topic, payload and (MQTT 5 subscriber) content type, response topic, correlation data
   and user properties of the publish *)
Theorem C03_fields : forall mq ra deny (h : hist) orc drops pub m0 c d,
  forallb op_ok (ops_of h) = true -> NoDup (map fst orc) -> valid_pub_topic (m_topic m0) = true ->
  let s := run (init mq ra deny) h in
  In d (filter (to_client c) (o_deliv (snd (step orc drops s (OPublish pub m0))))) ->
  exists cl, get_client s c = Some cl /\
    d_topic d = m_topic m0 /\ d_payload d = m_payload m0 /\
    (cl_ver cl = 5 -> d_props d = m_props m0).
Proof. exact C03_history_fields. Qed.

(* histories keep the state well-formed (unique client ids, unique filters per client) *)
Theorem C03_reachable : forall mq ra deny (h : hist),
  forallb op_ok (ops_of h) = true -> wf_state (run (init mq ra deny) h).
Proof. exact reachable_wf. Qed.

(* refutation: client c subscribed to "a/b" with No Local and to "a/#" without; its own publish to a/b is
   not delivered back although "a/#" entitles it *)
Definition so (nl : bool) : subopt := mkSO 0 nl false 0 0.
Definition ref_hist : hist :=
  map (fun o => ([], [], o))
    [OConnect (tag "c") 5 true false false;
     OSubscribe (tag "c") [(tag "a/b", so true)];
     OSubscribe (tag "c") [(tag "a/#", so false)]].
Definition ref_msg : msg := mkMsg (tag "a/b") (tag "x") 0 false mp_none [].

Theorem C03_refuted : exists (h : hist) pub m0 c,
  forallb op_ok (ops_of h) = true /\
  let s := run (init 2 true []) h in
  let m := accepted 2 (with_origin pub m0) in
  expected_copies s [] [] m c = 1%nat /\
  length (filter (to_client c) (o_deliv (snd (step [] [] s (OPublish pub m0))))) = 0%nat /\
  (exists cl, get_client s c = Some cl /\ KF_C03_nolocal_merge c m (ent_subs c cl (m_topic m) []) = true).
Proof.
  exists ref_hist, (tag "c"), ref_msg, (tag "c"). vm_compute. split; [reflexivity|]. split; [reflexivity|]. split; [reflexivity|].
  eexists. split; reflexivity.
Qed.

(* non-vacuity: another client with overlapping subscriptions gets exactly one copy of the same publish *)
Example C03_nonvacuous :
  let h := ref_hist ++ map (fun o => ([], [], o))
             [OConnect (tag "d") 4 true false false; OSubscribe (tag "d") [(tag "a/+", so false); (tag "#", so false)]] in
  let s := run (init 2 true []) h in
  expected_copies s [] [] (accepted 2 (with_origin (tag "c") ref_msg)) (tag "d") = 1%nat /\
  length (filter (to_client (tag "d")) (o_deliv (snd (step [] [] s (OPublish (tag "c") ref_msg))))) = 1%nat /\
  no_nolocal_finding s [] (accepted 2 (with_origin (tag "c") ref_msg)) (tag "d").
Proof. vm_compute. split; [reflexivity|]. split; [reflexivity|]. intros cl E. inversion E. reflexivity. Qed.

Print Assumptions C03_modulo_findings.
Print Assumptions C03_state_modulo_findings.
Print Assumptions C03_decision.
Print Assumptions C03_fields.
Print Assumptions C03_reachable.
Print Assumptions C03_refuted.
