(* C33 — Concurrent broker operation is free of data races.  Statements only.

   Shape of the argument.  (1) A hand-written declaration (Conc/Discipline.v, [decl]) says for
   every field of the shared broker types how it is protected: guarded by a lock (writes in write
   mode, reads in read or write mode), atomic, immutable after publication, or confined to the
   goroutine that owns the object; plus, per unit, the functions whose accesses are ordered by
   other means (initialisation before publication; hand-off through an atomic flag), each
   justified in a comment.  (2) The translator astx regenerates on every run the table of every
   syntactic access to those fields (Gen/AccessTable.v): function, read/write, atomic?, locks held
   (own object?), goroutine roots.  (3) The theorems below, once and for all: if every site keeps
   the protection of every declared unit it touches, then any two accesses to overlapping memory
   of which one is a write and which may run concurrently touch a common declared unit and are
   synchronised by its protection (common lock with the writer in write mode / both atomic /
   same owning goroutine), unless one of them is in a function declared exempt.  (4) Per run the
   kernel evaluates [sites_respect_modulo decl AccessTable.tbl = true] (Gen/AccessCheck.v, compiled
   by the translate step of ./check C33); units whose protection the current code does not keep
   are the listed findings (the KF_C33 entries).

   Partial by nature: the Go memory model is not formalised ("synchronised" is the lockset /
   atomic discipline, not happens-before); fields outside the declared types (Options /
   Capabilities, listeners, hooks' own state) are not covered; "may be concurrent" is an
   over-approximation from goroutine roots; [Confined] and the exempt functions rest on the
   stated ownership / ordering arguments, which the -race scenarios (hx race) exercise. *)
From Coq Require Import List String Bool.
From MV Require Import Conc.Locks Conc.LocksProofs Conc.Discipline Conc.DisciplineProofs Findings.FixedC33.
Import ListNotations.
Open Scope string_scope.

Theorem C33_discipline_sound : forall (d : declaration) (t : access_table),
  decl_wf d -> sites_respect d t = true ->
  forall s1 s2, In s1 t -> In s2 t ->
    overlap s1 s2 = true -> conflicting s1 s2 = true -> may_be_concurrent s1 s2 = true ->
    exists u, In u d /\ In u (units_of d s1) /\ In u (units_of d s2) /\
              (exempt u s1 = true \/ exempt u s2 = true \/ synchronised u s1 s2).
Proof. exact discipline_sound. Qed.

(* the current code does not keep the full discipline (next theorem); outside the units marked
   with a listed finding it does *)
Theorem C33_modulo_findings : forall (d : declaration) (t : access_table),
  decl_wf d -> sites_respect_modulo d t = true ->
  forall s1 s2, In s1 t -> In s2 t ->
    overlap s1 s2 = true -> conflicting s1 s2 = true -> may_be_concurrent s1 s2 = true ->
    exists u, In u d /\ In u (units_of d s1) /\ In u (units_of d s2) /\
              (u_kf u <> None \/ exempt u s1 = true \/ exempt u s2 = true \/ synchronised u s1 s2).
Proof. exact discipline_sound_modulo. Qed.

(* KF_C33_will: Client.Properties.Will is cleared / read by the connection handler
   (server.go attachClient, sendLWT) and cleared by the event loop (sendDelayedLWT) with nothing
   ordering the two: the pair is rejected by the declaration, is conflicting, possibly concurrent,
   and not synchronised.  (Reproduced under -race by the scenario will-window of hx race.) *)
Theorem C33_refuted :
  sites_respect decl [will_handler; will_eventloop] = false /\
  sites_respect_modulo decl [will_handler; will_eventloop] = true /\
  overlap will_handler will_eventloop = true /\ conflicting will_handler will_eventloop = true /\
  may_be_concurrent will_handler will_eventloop = true /\
  forall u, In u (units_of decl will_handler) -> In u (units_of decl will_eventloop) ->
    exempt u will_handler = false /\ exempt u will_eventloop = false /\
    u_kf u = Some "KF_C33_will" /\ ~ synchronised u will_handler will_eventloop.
Proof. exact will_refuted. Qed.

(* what "synchronised by a common lock" means in the lock machine of Conc/Locks.v (arbitrary
   programs, every schedule): a lock held in write mode by one goroutine is held by no other
   goroutine in any mode, and exactly once by its holder — the critical sections of a writer and of
   any other holder of the same lock instance never overlap in time *)
Theorem C33_mutual_exclusion : forall c0 : cfg, (forall t, In t c0 -> held t = []) ->
  forall (sched : list nat) i j t u l,
    nth_error (run sched c0) i = Some t -> nth_error (run sched c0) j = Some u -> i <> j ->
    holds_w l t = true -> holds l u = false /\ cnt l (held t) = 1.
Proof. exact mutual_exclusion. Qed.

(* the declaration names every unit once (needed by the theorems above) *)
Theorem C33_declaration_wf : decl_wf decl.
Proof. apply decl_wfb_sound. vm_compute. reflexivity. Qed.

(* non-vacuity: a guarded map with a reader and a writer on different goroutines is accepted, the
   pair is conflicting, concurrent, overlapping and the theorem's conclusion is the lock clause;
   the repaired retainPath defect is rejected in its pre-fix shape and accepted after the fix *)
Definition ex_w : asite :=
  mk_asite ["Clients"; "internal"] "Clients.Add" true false false [("Clients.RWMutex", W, true)] [RH].
Definition ex_r : asite :=
  mk_asite ["Clients"; "internal"] "Clients.GetAll" false false false [("Clients.RWMutex", R, true)] [RE].

Example C33_nonvacuous :
  sites_respect decl [ex_w; ex_r] = true /\
  overlap ex_w ex_r = true /\ conflicting ex_w ex_r = true /\ may_be_concurrent ex_w ex_r = true /\
  sites_respect decl [ex_w; mk_asite ["Clients"; "internal"] "Clients.GetAll" false false false [] [RE]] = false /\
  sites_respect decl [rp_write; rp_read_prefix; rp_read_trim] = false /\
  sites_respect decl [rp_write; rp_read_fixed; rp_read_trim] = true /\
  (* the session expiry interval may be read by the event loop only behind the StopTime() guard *)
  sites_respect decl [sei_write; sei_read_guarded] = true /\
  sites_respect_modulo decl [sei_write; sei_read_unguarded] = false.
Proof. vm_compute. repeat split. Qed.

Print Assumptions C33_discipline_sound.
Print Assumptions C33_modulo_findings.
Print Assumptions C33_refuted.
Print Assumptions C33_mutual_exclusion.
Print Assumptions C33_declaration_wf.
