(* C28 — No client byte stream can crash the broker or disturb other clients.
   PARTIAL by nature (DESIGN.md section 8, C28): the theorems cover the inbound framing layer
   (first byte, remaining length, maximum-packet-size refusal, packet boundaries); totality of the
   body decoders is C27; the absence of run-time panics elsewhere in the handlers and the isolation
   of other connections are exercised dynamically by the `bytes` engine, not proved. *)
From MV Require Import Base.Val Codec.Vbi Codec.VbiProofs IO.Framing IO.FramingProofs IO.FramingStream.
From Coq Require Import Lia.
Open Scope N_scope.

(* The first byte of every packet is accepted exactly as the standard's flag table says. *)
Theorem C28_header_is_standard : forall hb, hb < 256 -> fh_decode hb = fh_spec hb.
Proof. exact fh_decode_is_spec. Qed.

(* Clause "a packet larger than the configured maximum packet size is refused before its body is
   processed": (a) refusal is decided from the header alone, whatever follows; (b) every accepted
   packet, length bytes included, is within the limit. *)
Theorem C28_maxsize_refused_before_body : forall maxsize hb n e,
  n <= vbi_max -> vbi_encode n = Some e -> fh_decode hb <> None ->
  0 < maxsize -> maxsize < 1 + N.of_nat (length e) + n ->
  forall y, wf_bytes y -> read_frame maxsize (hb :: e ++ y) = TooLarge.
Proof. exact toolarge_before_body. Qed.

Theorem C28_frame_sound : forall maxsize bs h bu body rest,
  wf_bytes bs -> read_frame maxsize bs = Frame h bu body rest ->
  exists hb lenb,
    bs = hb :: lenb ++ body ++ rest /\
    fh_spec hb = Some h /\
    spec_decode (lenb ++ body ++ rest) = Some (N.of_nat (length body), body ++ rest) /\
    N.of_nat (length lenb) = bu /\ 1 <= bu <= 4 /\
    (0 < maxsize -> 1 + bu + N.of_nat (length body) <= maxsize).
Proof. exact frame_sound. Qed.

(* Packet boundaries: a complete in-limit packet is taken as one frame and the bytes after it are
   left untouched for the next packet (nothing one packet contains leaks into the next). *)
Theorem C28_framing_partial : forall maxsize hb n e body rest h,
  n <= vbi_max -> vbi_encode n = Some e -> fh_decode hb = Some h ->
  N.of_nat (length body) = n -> wf_bytes body -> wf_bytes rest ->
  (maxsize = 0 \/ 1 + N.of_nat (length e) + n <= maxsize) ->
  read_frame maxsize (hb :: e ++ body ++ rest) = Frame h (vbi_min_len n) body rest.
Proof. exact frame_complete. Qed.

(* WHOLE STREAMS, any number of packets (induction over the packet list).  good_stream maxsize fr bs: bs is the
   concatenation of complete packets within the limit whose headers/lengths are fr.  Whatever follows them
   (nothing, a truncated packet, garbage, an over-size packet), the read loop delivers exactly those packets and
   then behaves on the tail as on a stream of its own: no byte of a packet is ever taken for part of another. *)
Theorem C28_stream_complete : forall maxsize fr bs, good_stream maxsize fr bs ->
  forall tail fuel, wf_bytes tail -> (length fr <= fuel)%nat ->
  read_frames fuel maxsize (bs ++ tail) =
  (fr ++ fst (read_frames (fuel - length fr) maxsize tail), snd (read_frames (fuel - length fr) maxsize tail)).
Proof. exact frames_of_good_prefix. Qed.

(* with the fuel the engine uses (one more than the stream length) a stream of good packets is consumed completely *)
Theorem C28_stream_exact : forall maxsize fr bs, good_stream maxsize fr bs ->
  read_frames (S (length bs)) maxsize bs = (fr, 0).
Proof. exact frames_of_good_stream. Qed.

(* the first packet after the good ones that is not a frame decides the end of the connection, after every good
   packet has been delivered *)
Theorem C28_stream_bad_tail : forall maxsize fr bs tail fuel, good_stream maxsize fr bs -> wf_bytes tail ->
  (length fr < fuel)%nat ->
  forall code, match read_frame maxsize tail with
               | Frame _ _ _ _ => False | NeedMore => code = 0 | BadHeader => code = 1
               | BadLength => code = 2 | TooLarge => code = 3 end ->
  read_frames fuel maxsize (bs ++ tail) = (fr, code).
Proof. exact bad_tail_after_good. Qed.

(* conversely, for EVERY byte stream: what the loop delivers is a segmentation of a prefix of the stream into packets
   with a standard first byte and a standard length field, each within the limit, and a non-zero final code is the
   verdict of read_frame on the remaining bytes *)
Theorem C28_stream_sound : forall maxsize fuel bs fr fin,
  wf_bytes bs -> read_frames fuel maxsize bs = (fr, fin) ->
  exists tail, segmented maxsize fr bs tail /\
    (fin = 0 \/ (fin = 1 /\ read_frame maxsize tail = BadHeader) \/ (fin = 2 /\ read_frame maxsize tail = BadLength)
     \/ (fin = 3 /\ read_frame maxsize tail = TooLarge)).
Proof. exact frames_sound_stream. Qed.

(* non-vacuity: PINGREQ, PUBLISH(3 bytes) is a good stream at limit 5; followed by a header announcing 127 bytes it
   ends with "too large" after both packets *)
Example C28_stream_nonvacuous :
  good_stream 5 [({| fh_type := 12; fh_qos := 0; fh_dup := false; fh_retain := false |}, 0);
                 ({| fh_type := 3; fh_qos := 0; fh_dup := false; fh_retain := false |}, 3)] [192; 0; 48; 3; 0; 1; 97]
  /\ fst (read_frames 9 5 ([192; 0; 48; 3; 0; 1; 97] ++ [48; 127; 0])) =
       [({| fh_type := 12; fh_qos := 0; fh_dup := false; fh_retain := false |}, 0);
        ({| fh_type := 3; fh_qos := 0; fh_dup := false; fh_retain := false |}, 3)]
  /\ snd (read_frames 9 5 ([192; 0; 48; 3; 0; 1; 97] ++ [48; 127; 0])) = 3.
Proof.
  split; [|vm_compute; split; reflexivity].
  assert (W : forall l, forallb (fun b => b <? 256) l = true -> wf_bytes l).
  { intros l H. apply Forall_forall. intros x Hx. rewrite forallb_forall in H. apply N.ltb_lt. exact (H x Hx). }
  apply (gs_cons 5 192 0 [0] [] _ _ [48; 3; 0; 1; 97]);
    [lia | vm_compute; discriminate | reflexivity | reflexivity | reflexivity | apply W; reflexivity | right; cbn; lia |].
  apply (gs_cons 5 48 3 [3] [0; 1; 97] _ [] []);
    [lia | vm_compute; discriminate | reflexivity | reflexivity | reflexivity | apply W; reflexivity | right; cbn; lia |].
  constructor.
Qed.

(* non-vacuity: PINGREQ followed by a PUBLISH header; a 3-byte body refused at limit 4 *)
Example C28_nonvacuous :
  read_frame 0 [192; 0; 48; 3; 0; 1; 97] = Frame {| fh_type := 12; fh_qos := 0; fh_dup := false; fh_retain := false |} 1 [] [48; 3; 0; 1; 97]
  /\ read_frame 4 [48; 3; 0; 1; 97] = TooLarge
  /\ read_frame 5 [48; 3; 0; 1; 97] = Frame {| fh_type := 3; fh_qos := 0; fh_dup := false; fh_retain := false |} 1 [0; 1; 97] [].
Proof. vm_compute. repeat split. Qed.

Print Assumptions C28_header_is_standard.
Print Assumptions C28_maxsize_refused_before_body.
Print Assumptions C28_frame_sound.
Print Assumptions C28_framing_partial.
Print Assumptions C28_stream_complete.
Print Assumptions C28_stream_exact.
Print Assumptions C28_stream_bad_tail.
Print Assumptions C28_stream_sound.
