(* C28 — No client byte stream can crash the broker or disturb other clients.
   PARTIAL by nature (DESIGN.md section 8, C28): the theorems cover the inbound framing layer
   (first byte, remaining length, maximum-packet-size refusal, packet boundaries); totality of the
   body decoders is C27; the absence of run-time panics elsewhere in the handlers and the isolation
   of other connections are exercised dynamically by the `bytes` engine, not proved. *)
From MV Require Import Base.Val Codec.Vbi Codec.VbiProofs IO.Framing IO.FramingProofs.
Open Scope N_scope.

(* The first byte of every packet is accepted exactly as the standard's flag table says. *)
Theorem C28_header_is_standard : forall hb, hb < 256 -> fh_decode hb = fh_spec hb.
Proof. exact fh_decode_is_spec. Qed.

(* Clause "a packet larger than the configured maximum packet size is refused before its body is
   processed": (a) refusal is decided from the header alone, whatever follows; (b) every accepted
   packet, length bytes included, is within the limit. *)
Theorem C28_maxsize_refused_before_body : forall maxsize hb n e,
  n <= vbi_max -> vbi_encode n = Some e -> fh_decode hb <> None ->
  0 < maxsize -> maxsize < 1 + N.of_nat (length e) + n ->
  forall y, wf_bytes y -> read_frame maxsize (hb :: e ++ y) = TooLarge.
Proof. exact toolarge_before_body. Qed.

Theorem C28_frame_sound : forall maxsize bs h bu body rest,
  wf_bytes bs -> read_frame maxsize bs = Frame h bu body rest ->
  exists hb lenb,
    bs = hb :: lenb ++ body ++ rest /\
    fh_spec hb = Some h /\
    spec_decode (lenb ++ body ++ rest) = Some (N.of_nat (length body), body ++ rest) /\
    N.of_nat (length lenb) = bu /\ 1 <= bu <= 4 /\
    (0 < maxsize -> 1 + bu + N.of_nat (length body) <= maxsize).
Proof. exact frame_sound. Qed.

(* Packet boundaries: a complete in-limit packet is taken as one frame and the bytes after it are
   left untouched for the next packet (nothing one packet contains leaks into the next). *)
Theorem C28_framing_partial : forall maxsize hb n e body rest h,
  n <= vbi_max -> vbi_encode n = Some e -> fh_decode hb = Some h ->
  N.of_nat (length body) = n -> wf_bytes body -> wf_bytes rest ->
  (maxsize = 0 \/ 1 + N.of_nat (length e) + n <= maxsize) ->
  read_frame maxsize (hb :: e ++ body ++ rest) = Frame h (vbi_min_len n) body rest.
Proof. exact frame_complete. Qed.

(* non-vacuity: PINGREQ followed by a PUBLISH header; a 3-byte body refused at limit 4 *)
Example C28_nonvacuous :
  read_frame 0 [192; 0; 48; 3; 0; 1; 97] = Frame {| fh_type := 12; fh_qos := 0; fh_dup := false; fh_retain := false |} 1 [] [48; 3; 0; 1; 97]
  /\ read_frame 4 [48; 3; 0; 1; 97] = TooLarge
  /\ read_frame 5 [48; 3; 0; 1; 97] = Frame {| fh_type := 3; fh_qos := 0; fh_dup := false; fh_retain := false |} 1 [0; 1; 97] [].
Proof. vm_compute. repeat split. Qed.

Print Assumptions C28_header_is_standard.
Print Assumptions C28_maxsize_refused_before_body.
Print Assumptions C28_frame_sound.
Print Assumptions C28_framing_partial.
