(* C15 — Expired or ended sessions leave nothing behind.  Statements only. *)
From MV Require Import Base.Val Session.Lifecycle Session.LifeSpec Session.LifeKF Session.LifeBase Session.LifeInv
  Session.LifeProofs13 Session.LifeProofs15 Session.LifeProofs15J Findings.FixedC15.
Open Scope N_scope.

Definition model_obs (k : caps) (ops : list op) : list obs := map obs_of (trace k init ops).

(* Nothing of a discarded session survives.  After every history of operations (connects, takeovers,
   disconnects, expiry ticks at arbitrary times, ...) the specification monitor reports
   - no stale index entry: every entry of the topic index belongs to a session that is registered and
     holds that subscription; in particular an identifier without a session has no entry;
   - no unjustified delivery: every PUBLISH the broker forwards to a connection (or re-sends when a
     session is resumed) carries a topic that the CURRENT session of the connection's identifier has
     subscribed to, where the monitor forgets the subscriptions of an identifier whenever its session
     is discarded (the identifier leaves Clients) or replaced by a clean start.  So a connection that
     reuses the identifier of a discarded session receives nothing because of the old session.
   These are the clauses the pre-fix code violated (C15_prefix_expiry_refuted below reports both tags
   on the pre-fix trace). *)
Theorem C15_nothing_left : forall (k : caps) (ops : list op),
  Forall (fun v => v_tag v <> V15_stale_index /\ v_tag v <> V15_unjustified) (mon15 k (model_obs k ops)).
Proof. exact mon15_nothing_left. Qed.

Theorem C15_index_belongs_to_sessions : forall (k : caps) (ops : list op),
  ixinv (fold_left (fun s o => fst (step k s o)) ops init).
Proof. exact index_belongs_to_sessions. Qed.

(* the state after a history of operations *)
Definition after (k : caps) (ops : list op) : state := fold_left (fun s o => fst (step k s o)) ops init.

(* WHEN a session is discarded.  In every state reachable by any history, an operation removes the
   session of an identifier from Clients only
   - if it is the housekeeping tick, the session is disconnected, and more than its expiry interval
     has elapsed since the disconnect stamp ([interval]: the session's own interval for MQTT 5 with
     the property, the server maximum otherwise), or
   - if it is the end of that session's own connection and the session ends with the connection
     ([expire_cond]: MQTT 5 with interval 0, MQTT 3 with clean session);
   a takeover (OConnect), the teardown of a taken-over connection and all other operations never
   remove one.  Together with C15_interval_capped (the stored interval is the client's, capped by the
   server maximum, at CONNECT and at DISCONNECT) this is the first sentence of the property.
   Stated on the model's own state rather than through the monitor [mon15] (whose clauses V15_when /
   V15_late are checked on every run against the real broker). *)
Theorem C15_when : forall (k : caps) (ops : list op) (o : op) (id : bytes),
  removed (after k ops) (fst (step k (after k ops) o)) id ->
  match o with
  | OTickClients now =>
      exists c ob, aget id (st_clients (after k ops)) = Some c /\ get_obj c (st_objs (after k ops)) = Some ob /\
                   o_open ob = false /\ (o_disc ob + Z.of_N (interval k ob) < now)%Z
  | ODisconnect c _ _ _ | ONetClose c _ | OSecondConnect c _ | OTeardown c _ =>
      aget id (st_clients (after k ops)) = Some c /\
      exists ob', get_obj c (st_objs (fst (step k (after k ops) o))) = Some ob' /\ o_id ob' = id /\ expire_cond ob' = true
  | _ => False
  end.
Proof. intros k ops o id. apply discard_only_when_due. apply inv_reachable. Qed.

(* a connected session is never discarded: an open connection's object is always the one registered under its identifier *)
Theorem C15_never_while_connected : forall (k : caps) (ops : list op) (c : N) (ob : cobj),
  get_obj c (st_objs (after k ops)) = Some ob -> o_open ob = true ->
  aget (o_id ob) (st_clients (after k ops)) = Some c.
Proof. intros k ops c ob G O. destruct (inv_reachable k ops) as [W _]. destruct (wf_open _ W c ob G O) as [A _]. exact A. Qed.

(* the interval the broker keeps for a session never exceeds the server maximum *)
Theorem C15_interval_capped : forall (k : caps) (ops : list op) (c : N) (ob : cobj),
  get_obj c (st_objs (after k ops)) = Some ob -> o_sei ob <= k_maxsei k.
Proof. intros k ops. apply interval_capped. Qed.

(* a DISCONNECT cannot raise a zero session expiry interval: protocol error (DISCONNECT 0x82 is sent),
   the interval stays zero and the session is gone after the step *)
Theorem C15_disconnect_cannot_raise : forall (k : caps) (ops : list op) (c : N) (now : Z) (rc v : N) (ob : cobj),
  reading (after k ops) c = Some ob -> o_ver ob = 5 -> o_sei ob = 0 -> 0 < v ->
  aget (o_id ob) (st_clients (fst (do_disconnect k c now rc (Some v) (after k ops)))) = None /\
  (forall ob', get_obj c (st_objs (fst (do_disconnect k c now rc (Some v) (after k ops)))) = Some ob' -> o_sei ob' = 0) /\
  In (OPkt c (PDisconnect 130)) (snd (do_disconnect k c now rc (Some v) (after k ops))).
Proof. intros k ops c now rc v ob R V S P. apply (disconnect_cannot_raise k _ c now rc v ob (inv_reachable k ops) R V S P). Qed.

(* the monitor rejects what the broker did before the two repairs, and accepts the repaired model *)
Theorem C15_prefix_expiry_refuted :
  map v_tag (mon15 caps10 (map obs_of (trace_prefix caps10 init hist_c15_1)))
    = [V15_stale_index; V15_stale_index; V15_stale_index; V15_unjustified] /\
  mon15 caps10 (map obs_of (trace caps10 init hist_c15_1)) = [].
Proof. destruct prefix_expiry_leaves_subscriptions as (A & _ & B & _). split; assumption. Qed.

Theorem C15_prefix_disconnect_cap_refuted :
  map v_tag (mon15 caps10 (map obs_of (trace_prefix caps10 init hist_c15_2))) = [V15_late] /\
  mon15 caps10 (map obs_of (trace caps10 init hist_c15_2)) = [].
Proof. exact prefix_disconnect_expiry_uncapped. Qed.

(* non-vacuity: a session with expiry 5 subscribes, disconnects at 1000, survives the tick at 1005, is
   discarded by the tick at 1006, and the next connection with its identifier receives nothing; a
   DISCONNECT cannot raise a zero expiry (protocol error, the session ends) *)
Definition hist1 : list op :=
  [OConnect 0 1000 (cp5 [111] true None) true [111]; OConnect 1 1000 (cp5 [97] false (Some 5)) true [97];
   OSubscribe 1 [116] 1; OPublish 0 (mk [116] [49] 1); ODisconnect 1 1000 0 None; OPublish 0 (mk [116] [50] 1);
   OTickClients 1005; OTickClients 1006; OConnect 2 1000 (cp5 [97] false (Some 0)) true [97]; OPublish 0 (mk [116] [51] 1);
   ODisconnect 2 1000 0 (Some 7)].

Example C15_nonvacuous :
  mon15 caps10 (model_obs caps10 hist1) = [] /\
  map (fun t => has_client [97] (sn_clients (snap_of (t_post t)))) (trace caps10 init hist1)
  = [false; true; true; true; true; true; true; false; true; true; false] /\
  flat_map (fun t => pkts_to 2 (t_outs t)) (trace caps10 init hist1) = [PConnack 0 false; PDisconnect 130].
Proof. vm_compute. repeat split. Qed.

Print Assumptions C15_nothing_left.
Print Assumptions C15_index_belongs_to_sessions.
Print Assumptions C15_when.
Print Assumptions C15_never_while_connected.
Print Assumptions C15_interval_capped.
Print Assumptions C15_disconnect_cannot_raise.
Print Assumptions C15_prefix_expiry_refuted.
Print Assumptions C15_prefix_disconnect_cap_refuted.
