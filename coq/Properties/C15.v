(* WIP *)
(* C15 — Expired or ended sessions leave nothing behind.  Statements only. *)
From MV Require Import Base.Val Session.Lifecycle Session.LifeSpec Session.LifeKF.
Open Scope N_scope.

Definition caps10 : caps := {| k_maxsei := 10; k_minver := 3; k_maxqos := 2; k_retain := true |}.
Definition cp5 (id : bytes) (clean : bool) (sei : option N) : cparams :=
  {| cp_pname := name_MQTT; cp_ver := 5; cp_reserved := false; cp_clean := clean; cp_willflag := false; cp_willqos := 0;
     cp_willretain := false; cp_willtopic := []; cp_willpayload := []; cp_willdelay := 0; cp_userflag := false; cp_user := [];
     cp_passflag := false; cp_pass := []; cp_keepalive := 60; cp_id := id;
     cp_seiflag := match sei with Some _ => true | None => false end; cp_sei := match sei with Some v => v | None => 0 end;
     cp_trunc := false; cp_willtopic_ok := true |}.
Definition mk (t pl : bytes) (q : N) : msg := {| m_topic := t; m_payload := pl; m_qos := q; m_retain := false |}.

(* non-vacuity: a session with expiry 5 subscribes, disconnects at 1000, survives the tick at 1005, is
   discarded by the tick at 1006, and the next connection with its identifier receives nothing *)
Definition hist1 : list op :=
  [OConnect 0 1000 (cp5 [111] true None) true [111]; OConnect 1 1000 (cp5 [97] false (Some 5)) true [97];
   OSubscribe 1 [116] 1; OPublish 0 (mk [116] [49] 1); ODisconnect 1 1000 0 None; OPublish 0 (mk [116] [50] 1);
   OTickClients 1005; OTickClients 1006; OConnect 2 1000 (cp5 [97] false (Some 5)) true [97]; OPublish 0 (mk [116] [51] 1)].

Example C15_nonvacuous :
  mon15 caps10 (map obs_of (trace caps10 init hist1)) = [] /\
  map (fun t => has_client [97] (sn_clients (snap_of (t_post t)))) (trace caps10 init hist1)
  = [false; true; true; true; true; true; true; false; true; true] /\
  flat_map (fun t => pkts_to 2 (t_outs t)) (trace caps10 init hist1) = [PConnack 0 false].
Proof. vm_compute. repeat split. Qed.
