(* C15 — Expired or ended sessions leave nothing behind.  Statements only. *)
From MV Require Import Base.Val Session.Lifecycle Session.LifeSpec Session.LifeKF Session.LifeBase Session.LifeInv
  Session.LifeProofs13 Session.LifeProofs15 Findings.FixedC15.
Open Scope N_scope.

Definition model_obs (k : caps) (ops : list op) : list obs := map obs_of (trace k init ops).

(* Nothing of a discarded session survives in the topic index: after every history of operations
   (connects, takeovers, disconnects, expiry ticks at arbitrary times, ...) every entry of the topic
   index belongs to a session that is registered and holds that subscription; in particular an
   identifier without a session has no entry, so a later connection with that identifier cannot
   receive anything because of an old subscription.  This is the clause the pre-fix code violated
   (Findings/FixedC15.v).
   PARTIAL: the behavioural clause of the monitor (V15_unjustified: every delivery to a connection is
   justified by a subscription of its current session) is checked on every run against the real
   broker but not yet proved for the model. *)
Theorem C15_nothing_left_partial : forall (k : caps) (ops : list op),
  Forall (fun v => v_tag v <> V15_stale_index) (mon15 k (model_obs k ops)).
Proof. exact mon15_no_stale_index. Qed.

Theorem C15_index_belongs_to_sessions : forall (k : caps) (ops : list op),
  ixinv (fold_left (fun s o => fst (step k s o)) ops init).
Proof. exact index_belongs_to_sessions. Qed.

(* the monitor rejects what the broker did before the two repairs, and accepts the repaired model *)
Theorem C15_prefix_expiry_refuted :
  map v_tag (mon15 caps10 (map obs_of (trace_prefix caps10 init hist_c15_1)))
    = [V15_stale_index; V15_stale_index; V15_stale_index; V15_unjustified] /\
  mon15 caps10 (map obs_of (trace caps10 init hist_c15_1)) = [].
Proof. destruct prefix_expiry_leaves_subscriptions as (A & _ & B & _). split; assumption. Qed.

Theorem C15_prefix_disconnect_cap_refuted :
  map v_tag (mon15 caps10 (map obs_of (trace_prefix caps10 init hist_c15_2))) = [V15_late] /\
  mon15 caps10 (map obs_of (trace caps10 init hist_c15_2)) = [].
Proof. exact prefix_disconnect_expiry_uncapped. Qed.

(* non-vacuity: a session with expiry 5 subscribes, disconnects at 1000, survives the tick at 1005, is
   discarded by the tick at 1006, and the next connection with its identifier receives nothing; a
   DISCONNECT cannot raise a zero expiry (protocol error, the session ends) *)
Definition hist1 : list op :=
  [OConnect 0 1000 (cp5 [111] true None) true [111]; OConnect 1 1000 (cp5 [97] false (Some 5)) true [97];
   OSubscribe 1 [116] 1; OPublish 0 (mk [116] [49] 1); ODisconnect 1 1000 0 None; OPublish 0 (mk [116] [50] 1);
   OTickClients 1005; OTickClients 1006; OConnect 2 1000 (cp5 [97] false (Some 0)) true [97]; OPublish 0 (mk [116] [51] 1);
   ODisconnect 2 1000 0 (Some 7)].

Example C15_nonvacuous :
  mon15 caps10 (model_obs caps10 hist1) = [] /\
  map (fun t => has_client [97] (sn_clients (snap_of (t_post t)))) (trace caps10 init hist1)
  = [false; true; true; true; true; true; true; false; true; true; false] /\
  flat_map (fun t => pkts_to 2 (t_outs t)) (trace caps10 init hist1) = [PConnack 0 false; PDisconnect 130].
Proof. vm_compute. repeat split. Qed.

Print Assumptions C15_nothing_left_partial.
Print Assumptions C15_index_belongs_to_sessions.
Print Assumptions C15_prefix_expiry_refuted.
Print Assumptions C15_prefix_disconnect_cap_refuted.
