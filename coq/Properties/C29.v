(* C29 — Variable byte integers are canonical and bounded.
   Statements only; every proof is [exact lemma]. *)
From MV Require Import Base.Val Codec.Vbi Codec.VbiProofs Findings.FixedC29.
Open Scope N_scope.

(* Every value 0..268,435,455 is written with the minimum number of bytes (1..4) and decodes back
   to the same value, whatever follows it in the stream. *)
Theorem C29_roundtrip : forall n, n <= 268435455 ->
  exists e, vbi_encode n = Some e /\ N.of_nat (length e) = vbi_min_len n /\
            forall rest, wf_bytes rest -> vbi_decode (e ++ rest) = VOk n (vbi_min_len n) rest.
Proof. exact roundtrip. Qed.

(* vbi_min_len is the true minimum: no encoding the standard accepts for n is shorter. *)
Theorem C29_minimal : forall bs n rest, wf_bytes bs -> spec_decode bs = Some (n, rest) ->
  vbi_min_len n <= consumed bs rest /\ 1 <= vbi_min_len n <= 4.
Proof.
  intros bs n rest H S. split; [exact (min_len_minimal bs n rest H S)|].
  unfold vbi_min_len. destruct (n <? 128); [split; discriminate|].
  destruct (n <? 16384); [split; discriminate|]. destruct (n <? 2097152); split; discriminate.
Qed.

(* The decoder accepts exactly what the standard's decoder accepts, with the same value and
   number of bytes; in particular it never yields a value above the maximum. *)
Theorem C29_decode_is_spec : forall bs, wf_bytes bs ->
  match spec_decode bs with
  | Some (v, rest) => vbi_decode bs = VOk v (consumed bs rest) rest /\ v <= 268435455
  | None => forall n b r, vbi_decode bs <> VOk n b r
  end.
Proof. exact decode_refines_spec. Qed.

Theorem C29_reject_big : forall bs n bu r, wf_bytes bs -> vbi_decode bs = VOk n bu r ->
  n <= 268435455 /\ 1 <= bu <= 4 /\ spec_decode bs = Some (n, r).
Proof. exact decoded_bounded. Qed.

(* Encodings longer than four bytes are rejected. *)
Theorem C29_reject_long : forall b1 b2 b3 b4 rest,
  wf_bytes (b1 :: b2 :: b3 :: b4 :: rest) ->
  128 <= b1 -> 128 <= b2 -> 128 <= b3 -> 128 <= b4 ->
  forall n b r, vbi_decode (b1 :: b2 :: b3 :: b4 :: rest) <> VOk n b r.
Proof. exact reject_long. Qed.

(* non-vacuity: a four-byte value at the top of the range, and a rejected five-byte stream *)
Example C29_nonvacuous :
  vbi_encode 268435455 = Some [255; 255; 255; 127] /\
  vbi_decode [255; 255; 255; 127; 9] = VOk 268435455 4 [9] /\
  vbi_decode [128; 128; 128; 128; 0] = VErrMalformed 4.
Proof. vm_compute. repeat split. Qed.

(* the repaired defect (fixed in /repo): the pre-fix loop accepted over-long encodings *)
Example C29_prefix_refuted :
  vbi_decode_loop_prefix [128; 128; 128; 128; 0] 0 0 1 = VOk 0 5 [].
Proof. exact prefix_accepts_five_bytes. Qed.

Print Assumptions C29_roundtrip.
Print Assumptions C29_minimal.
Print Assumptions C29_decode_is_spec.
Print Assumptions C29_reject_big.
Print Assumptions C29_reject_long.
