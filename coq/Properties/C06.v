(* C06 — Each shared-subscription group receives each matching message exactly once.
   Statements only.  Model: Session/Deliver.v (Subscribers.SelectShared with the map iteration as an oracle,
   MergeSharedSelected, publishToSubscribers).  A well-formed oracle [wf_oracle] is any list with exactly one
   entry per key of Subscribers.Shared choosing a member of that key, in any order: the theorems hold for
   every such oracle.
   The code identifies a group by the FULL filter string ($share/<name>/<filter>), the property by the share
   name: one share name subscribed with two different matching filters is served twice
   (KF_C06_group_by_filter; MQTT itself defines a shared subscription by ShareName + filter). *)
From MV Require Import Base.Val Topics.Levels Topics.Match Topics.Alist Session.Deliver Session.DeliverProofs Session.DeliverTheorems.
Open Scope N_scope.

(* one member per group (as the code identifies groups), it is a member, every group is served *)
Theorem C06_one_per_group : forall s t orc,
  wf_oracle s t orc = true ->
  NoDup (map fst orc)
  /\ (forall k c, In (k, c) orc -> shared_matches t k = true /\ is_member s k c = true /\ In k (shared_keys s t))
  /\ (forall k, In k (shared_keys s t) -> exists c, In (k, c) orc)
  /\ (forall k c c', In (k, c) orc -> In (k, c') orc -> c = c').
Proof. exact oracle_choice. Qed.

(* the chosen member is among the subscriptions the message is delivered for *)
Theorem C06_chosen_served : forall c cl t orc k o,
  In (k, c) orc -> shared_matches t k = true -> al_get beq_bytes k (cl_subs cl) = Some o ->
  In (k, o) (ent_subs c cl t orc).
Proof. exact chosen_entitled. Qed.

(* members that were not chosen (and hold no other matching subscription) receive nothing *)
Theorem C06_not_chosen_nothing : forall s orc drops m c cl,
  nonshared_matching cl (m_topic m) = [] -> (forall k, ~ In (k, c) orc) -> deliver_to s orc drops m c cl = PNone.
Proof. exact not_chosen_nothing. Qed.

(* no client receives more than one copy, whatever it holds and whatever the oracle *)
Theorem C06_at_most_one : forall s orc drops m0 c,
  wf_state s -> (length (filter (to_client c) (o_deliv (snd (publish orc drops s m0)))) <= 1)%nat.
Proof. exact at_most_one_copy. Qed.

(* the property as stated (groups = share names): exactly one member chosen per share name, outside the finding *)
Theorem C06_modulo_findings : forall s t orc g,
  wf_oracle s t orc = true -> KF_C06_group_by_filter s t = false ->
  In g (map share_group (shared_keys s t)) ->
  length (picks_for_name g orc) = 1%nat.
Proof. exact one_pick_per_name. Qed.

(* refutation: share name g, c1 on $share/g/a/+ and c2 on $share/g/a/#: both receive a publish to a/b *)
Definition so0 : subopt := mkSO 0 false false 0 0.
Definition ref_hist : hist :=
  map (fun o => ([], [], o))
    [OConnect (tag "c1") 5 true false false; OConnect (tag "c2") 5 true false false;
     OSubscribe (tag "c1") [(tag "$share/g/a/+", so0)]; OSubscribe (tag "c2") [(tag "$share/g/a/#", so0)]].
Definition ref_orc : oracle := [(tag "$share/g/a/+", tag "c1"); (tag "$share/g/a/#", tag "c2")].

Theorem C06_refuted : exists (h : hist) orc t g,
  let s := run (init 2 true []) h in
  wf_oracle s t orc = true /\ KF_C06_group_by_filter s t = true /\
  length (picks_for_name g orc) = 2%nat /\
  length (o_deliv (snd (step orc [] s (OPublish (tag "p") (mkMsg t (tag "x") 0 false mp_none []))))) = 2%nat.
Proof. exists ref_hist, ref_orc, (tag "a/b"), (tag "g"). vm_compute. repeat split. Qed.

(* non-vacuity: two members in one group, one chosen, the other gets nothing *)
Example C06_nonvacuous :
  let h := map (fun o => ([], [], o))
             [OConnect (tag "c1") 5 true false false; OConnect (tag "c2") 4 true false false;
              OSubscribe (tag "c1") [(tag "$share/g/a/+", so0)]; OSubscribe (tag "c2") [(tag "$share/g/a/+", so0)]] in
  let s := run (init 2 true []) h in
  let orc := [(tag "$share/g/a/+", tag "c2")] in
  wf_oracle s (tag "a/b") orc = true /\ KF_C06_group_by_filter s (tag "a/b") = false /\
  map d_to (o_deliv (snd (step orc [] s (OPublish (tag "p") (mkMsg (tag "a/b") (tag "x") 0 false mp_none [])))))
  = [TClient (tag "c2")].
Proof. vm_compute. repeat split. Qed.

Print Assumptions C06_one_per_group.
Print Assumptions C06_chosen_served.
Print Assumptions C06_not_chosen_nothing.
Print Assumptions C06_at_most_one.
Print Assumptions C06_modulo_findings.
Print Assumptions C06_refuted.
