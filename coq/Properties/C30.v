(* C30 — Filter and topic-name validation follows the MQTT rules.
   Statements only; every proof is [exact lemma].

   The server-level clause ("a subscription with an invalid filter is answered with 0x8F (0x80 for
   MQTT 3) and creates nothing") is stated over the broker model (Session/Broker.v, processSubscribe)
   and checked by the broker harness; the functions it must call are [is_valid_filter s false]
   (= [valid_filter_spec s] by C30_filter) and [is_shared_filter]. *)
From Coq Require Import String.
From MV Require Import Base.Val Topics.Valid Topics.ValidProofs Findings.FixedC30.
From MV Require Hooks.Chain Auth.Acl Auth.AclProofs Topics.PubValid Topics.PubValidProofs.
Import VLevels.
Open Scope N_scope.
Open Scope list_scope.

(* A subscription filter is accepted exactly when it is non-empty, '#' occupies only the whole last
   level, '+' occupies only whole levels, and a '$share' filter has a non-empty share name without
   wildcards followed by a non-empty filter — for every byte string. *)
Theorem C30_filter : forall s, is_valid_filter s false = valid_filter_spec s.
Proof. exact filter_model_is_spec. Qed.

(* A client publish topic is accepted exactly when it contains no wildcard and does not start with
   '$SYS' — for every byte string. *)
Theorem C30_topic : forall s, is_valid_filter s true = valid_pub_topic_spec s.
Proof. exact topic_model_is_spec. Qed.

(* IsSharedFilter recognises exactly the filters whose first level is "$share" up to case folding
   (the reading of "a '$share' filter" used by valid_filter_spec; see Topics/Valid.v). *)
Theorem C30_shared : forall s, is_shared_filter s = is_share s.
Proof. exact shared_model_is_spec. Qed.

(* Under the literal reading ("$share" in lower case only) the same holds for every string whose
   first level is not another case variant of "$share" (those the broker also treats as shared). *)
Theorem C30_filter_literal : forall s,
  share_case_variant s = false -> is_valid_filter s false = valid_filter_spec_lit s.
Proof. exact filter_model_is_literal_spec. Qed.

(* levels_ok, the heart of the specification, says what the property text says. *)
Theorem C30_levels_ok_meaning : forall ls,
  levels_ok ls = true <->
  (forall pre l post, ls = pre ++ l :: post ->
     (In 35 l -> l = [35] /\ post = []) /\ (In 43 l -> l = [43])).
Proof. exact levels_ok_iff. Qed.

(* the accumulator formulation of split in DESIGN.md appendix G is the split used here, and join
   is its inverse *)
Theorem C30_split_join : forall s, split_acc s = split s /\ join (split s) = s.
Proof. intro s. split; [exact (split_acc_eq s) | exact (join_split s)]. Qed.

(* non-vacuity: accepted and refused inputs of every clause *)
Example C30_nonvacuous :
  map (fun s => is_valid_filter (bytes_of_string s) false)
      ["a/b/c"; "a/+/c"; "a/#"; "#"; "+"; "a//b"; "$share/g/t"; "$SHARE/g/+/#"; "$share/g//";
       ""; "a/b#"; "a+"; "+a"; "a/#/c"; "#/"; "$share"; "$share/g"; "$share//t"; "$share/g/"; "$share/+/t"; "$share/g#/t"]%string
  = [true; true; true; true; true; true; true; true; true;
     false; false; false; false; false; false; false; false; false; false; false; false] /\
  map (fun s => is_valid_filter (bytes_of_string s) true)
      [""; "a/b"; "$sys/x"; "$share"; "$share/g"; "$SY"; "$SYS"; "$SYS/x"; "$SYSx"; "a/+"; "a/#"; "a+"]%string
  = [true; true; true; true; true; true; false; false; false; false; false; false].
Proof. vm_compute. split; reflexivity. Qed.

(* the repaired defects (fixed in /repo): what the pre-fix function did *)
Example C30_prefix_refuted :
  is_valid_filter_prefix (bytes_of_string "a/b#") false = true /\
  is_valid_filter_prefix (bytes_of_string "a+") false = true /\
  is_valid_filter_prefix (bytes_of_string "$share//t") false = true /\
  is_valid_filter_prefix (bytes_of_string "$share/g/") false = true /\
  is_valid_filter_prefix (bytes_of_string "$sys/x") true = false /\
  is_valid_filter_prefix (bytes_of_string "$share") true = false.
Proof. vm_compute. repeat split. Qed.

(* Server-level clause: a SUBSCRIBE filter the validator rejects (equivalently, by C30_filter, one
   the specification rejects) is answered 0x8F (0x80 for MQTT 3) at its own position in the SUBACK,
   is not granted, and no reachable broker state ever holds a subscription on it — whatever the
   permission relation and the matching relation.  The subscribe path is the routing model of
   Auth/Acl.v (C17), instantiated with the proved validator. *)
Theorem C30_suback :
  forall (perm : Chain.client -> bytes -> bool -> bool) (matches : bytes -> bytes -> bool)
         (is_shared : bytes -> bool) (eff : bytes -> bytes)
         (ob : bool) (ver : N) (cl : Chain.client) (fs : list (bytes * (N * bool))) (i : nat) (f : bytes) (q : N) (nl : bool),
  let valid := fun s => is_valid_filter s false in
  nth_error fs i = Some (f, (q, nl)) -> valid_filter_spec f = false ->
  nth_error (fst (Acl.sub_codes perm valid is_shared ver ob cl fs)) i = Some (if (ver <? 5)%N then 128%N else 143%N) /\
  (forall o, ~ In (f, o) (snd (Acl.sub_codes perm valid is_shared ver ob cl fs))) /\
  (forall st c o, AclProofs.reachable perm matches valid is_shared eff ob st -> ~ In (c, (f, o)) (Acl.a_subs st)).
Proof.
  intros perm matches is_shared eff ob ver cl fs i f q nl valid Hn Hs.
  assert (Hv : valid f = false) by (unfold valid; rewrite C30_filter; exact Hs).
  destruct (AclProofs.subinvalid_code perm valid is_shared ob ver cl fs i f q nl Hn Hv) as [H1 H2].
  split; [exact H1|]. split; [exact H2|].
  intros st c o Hr. exact (AclProofs.subinvalid_creates_nothing perm matches valid is_shared eff ob st c f o Hr Hv).
Qed.

(* Server-level publish clause: on every way a topic name reaches processPublish — plain, with a fresh
   topic alias, with an already bound alias and a non-empty name (re-bind), alias-only — and for every
   history of PUBLISH packets on a connection, every QoS, retain flag, protocol version and alias
   maximum: whatever the model of processPublish (Topics/PubValid.v) routes, retains or delivers is a
   non-empty name the specification accepts (so an invalid name is never routed, never retained and
   never bound to an alias: a later alias-only publish cannot resolve to it). *)
Theorem C30_publish_never_invalid : forall ver smax es,
  Forall (fun eo => forall n,
            In n (PubValid.o_published (snd eo)) \/ In n (PubValid.o_retained (snd eo)) \/ In n (PubValid.o_spy (snd eo)) ->
            valid_pub_topic_spec n = true /\ n <> [])
         (PubValid.model_run ver smax [] es).
Proof. intros ver smax es. apply (PubValidProofs.model_never_invalid ver smax es []). constructor. Qed.

(* ... and the model's behaviour satisfies the specification monitor the run-time checker applies to
   the real broker (accepted names are routed once under their own name, retained iff the retain flag
   is set, acknowledged positively; refused names are not, MQTT 5 acknowledgements carry an error code). *)
Theorem C30_publish_monitor : forall ver smax es, smax <> 0 ->
  fst (PubValid.monitor ver [] (PubValid.model_run ver smax [] es)) = true /\
  PubValid.corr ver smax [] (PubValid.model_run ver smax [] es) = true.
Proof. intros ver smax es H. apply (PubValidProofs.model_satisfies_monitor ver smax es [] H). constructor. Qed.

(* non-vacuity: bind alias 1 to "ok", try to re-bind it to "$SYS" and "a/#" (refused: nothing routed,
   QoS 1 answered 0x90), alias-only still resolves to "ok"; the monitor rejects an observation in which
   the re-bind went through *)
Definition ev (t : string) (a q : N) (r : bool) : PubValid.pev := PubValid.Build_pev (bytes_of_string t) a q r.
Arguments ev t%string_scope a q r.
Example C30_publish_nonvacuous :
  map (fun eo => (PubValid.o_published (snd eo), PubValid.o_reason (snd eo)))
      (PubValid.model_run 5 65535 [] [ev "ok" 1 0 false; ev "$SYS" 1 1 true; ev "a/#" 1 0 false; ev "" 1 1 true])
  = [([bytes_of_string "ok"], 0); ([], 144); ([], 0); ([bytes_of_string "ok"], 0)] /\
  fst (PubValid.monitor 5 []
        [(ev "ok" 1 0 false, PubValid.Build_pobs [bytes_of_string "ok"] [] [] 0 0 false);
         (ev "$SYS" 1 0 true, PubValid.Build_pobs [bytes_of_string "$SYS"] [bytes_of_string "$SYS"] [] 0 0 false)]) = false.
Proof. vm_compute. split; reflexivity. Qed.

Print Assumptions C30_publish_never_invalid.
Print Assumptions C30_publish_monitor.
Print Assumptions C30_filter.
Print Assumptions C30_topic.
Print Assumptions C30_shared.
Print Assumptions C30_filter_literal.
Print Assumptions C30_levels_ok_meaning.
Print Assumptions C30_split_join.
Print Assumptions C30_suback.
