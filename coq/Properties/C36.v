(* C36 — Shutdown closes every connection and waits for all handlers.
   Statements only; proofs are [exact lemma] or vm_compute witnesses.
   Model: Conc/Shutdown.v — accept loop, one handler per connection (ClientsWg.Add inside the
   handler), the closer (Server.Close), clients as environment; [final vers sched] is the shared
   state after running the schedule [sched] (any list of thread ids) from the initial state with
   one connection per entry of [vers]: its protocol version and the write oracle (whether writing
   the shutdown DISCONNECT to it fails, and whether that is an I/O error rather than the packet
   size) — the theorems hold for every assignment of write outcomes. *)
From MV Require Import Base.Val Base.Sched Conc.Shutdown Conc.ShutdownConn Conc.ShutdownProofs Findings.FixedC36.
Open Scope Z_scope.

(* For every number of connections and every schedule: when Close has been called and nothing in the
   broker can move any more (accept loop returned or waiting, every handler returned or waiting on a
   connection nobody closed, closer returned or blocked), then Close HAS returned, the listener is
   closed, every connection that reached the broker is closed, every MQTT 5 client that had been
   told it was connected was sent DISCONNECT 0x8B, and no handler is alive.
   This is FALSE of the faithful model of the current code in one window (KNOWN_FINDINGS.json:
   KF_C36_silent_connection): a connection whose handler has run ClientsWg.Add and waits in
   readConnectionPacket for a CONNECT that the client has not sent is not in Clients, so Close does
   not close it and blocks in ClientsWg.Wait until that client speaks or goes away.  Outside
   exactly that predicate (evaluated on the final state) the statement is proved.
   Second window (KF_C36_disconnect_too_large): the 27-byte shutdown DISCONNECT (reason string
   included) exceeds the Maximum Packet Size of an MQTT 5 client; the write is refused and the client
   is closed without a DISCONNECT.  A write that fails because of an I/O error owes nothing. *)
Theorem C36_all_closed_modulo_findings : forall (vers : list cspec) (sched : list tid),
  KF_C36_silent_connection vers sched = false ->
  KF_C36_disconnect_too_large vers sched = false ->
  close_called (final vers sched) = true -> quiescent (final vers sched) = true ->
  shutdown_complete (final vers sched) = true.
Proof. exact shutdown_all_closed. Qed.

(* refutation: dial without sending CONNECT, accept, spawn, handler runs ClientsWg.Add and waits;
   Close: end, snapshot, disconnect, close listener, Wait blocks.  Nothing can move. *)
Definition silent_client : list tid := [1; 2; 1; 1; 1; 3; 0; 0; 0; 0; 1; 0; 0]%nat.

Theorem C36_all_closed_refuted : exists vers sched,
  close_called (final vers sched) = true /\ quiescent (final vers sched) = true /\
  shutdown_complete (final vers sched) = false /\ KF_C36_silent_connection vers sched = true.
Proof. exists [v5], silent_client. vm_compute. repeat split. Qed.

(* refutation 2: a connected MQTT 5 client with Maximum Packet Size 25 (write oracle: fails, not an
   I/O error): Close completes, the client is closed, but was sent no DISCONNECT *)
Definition small_client : cspec := mkCS 5 true false.
Definition orderly1 : list tid := [1; 2; 2; 1; 1; 1; 3; 3; 3; 3; 0; 0; 0; 0; 1; 0; 3; 0]%nat.

Theorem C36_all_closed_refuted_too_large :
  close_called (final [small_client] orderly1) = true /\ quiescent (final [small_client] orderly1) = true /\
  returned (final [small_client] orderly1) = true /\
  shutdown_complete (final [small_client] orderly1) = false /\
  KF_C36_disconnect_too_large [small_client] orderly1 = true /\ KF_C36_silent_connection [small_client] orderly1 = false.
Proof. vm_compute. repeat split. Qed.

(* the same schedule with an I/O error instead (nothing owed), and with a client that can take the
   packet: complete *)
Example C36_write_error_excused :
  shutdown_complete (final [mkCS 5 true true] orderly1) = true /\
  shutdown_complete (final [v5] orderly1) = true.
Proof. vm_compute. repeat split. Qed.

(* DisconnectClient must stop the client also when the write fails: with the variant that returns
   early instead (EarlyReturn), the same schedule leaves the client connected and Close blocked *)
Example C36_always_stop_matters :
  let s := shared (run (exec_gen EarlyReturn) orderly1 (shutdown_threads [small_client])) in
  close_called s = true /\ quiescent s = true /\ returned s = false /\ shutdown_complete s = false /\
  existsb silent (s_conns s) = false /\ existsb undelivered (s_conns s) = false /\
  map (fun c => (c_phase c, c_closed c)) (s_conns s) = [(PServing, false)].
Proof. vm_compute. repeat split. Qed.

(* ... and as soon as that client sends its CONNECT it is refused, the handler returns, Close returns *)
Example C36_silent_client_speaks :
  let s := final [v5] (silent_client ++ [2; 3; 3; 3; 0]%nat) in
  quiescent s = true /\ shutdown_complete s = true /\
  map (fun c => (c_phase c, c_connack c, c_closed c)) (s_conns s) = [(PDone, false, true)].
Proof. vm_compute. repeat split. Qed.

(* The listener stops accepting: after Close has returned a new connection attempt is refused, and
   from the moment Close has started the accept loop hands no connection to a handler any more. *)
Theorem C36_stops_accepting : forall (vers : list cspec) (sched : list tid) (t : tid) (i : nat) (s' : sstate),
  returned (final vers sched) = true ->
  exec t (Dial i) (final vers sched) = Continue s' ->
  at_phase (s_conns s') i PRefused /\ s_pending s' = s_pending (final vers sched).
Proof. exact shutdown_refuses. Qed.

Theorem C36_no_spawn_after_close : forall (vers : list cspec) (sched : list tid) (t : tid) (s' : sstate),
  close_called (final vers sched) = true ->
  exec t ASpawn (final vers sched) = Continue s' ->
  forall j c, nth_error (s_conns s') j = Some c -> c_phase c = PSpawned ->
  exists c1, nth_error (s_conns (final vers sched)) j = Some c1 /\ c_phase c1 = PSpawned.
Proof. exact shutdown_no_spawn. Qed.

(* "Close returns only after every connection handler has finished" is FALSE of the faithful model
   of the current code: ClientsWg.Add(1) runs inside the handler, so a handler that the accept loop
   has spawned but that has not yet started is invisible to ClientsWg.Wait (KNOWN_FINDINGS.json:
   KF_C36_unstarted_handler; repairing it needs the Add before the `go` in every listener, i.e. a
   change of the listeners' EstablishFn contract).  Outside exactly that window it is proved. *)
Theorem C36_waits_modulo_findings : forall (vers : list cspec) (sched : list tid),
  KF_C36_unstarted_handler vers sched = false ->
  returned (final vers sched) = true -> no_live_handler (final vers sched) = true.
Proof. exact shutdown_waits. Qed.

(* refutation: dial, accept, spawn (handler not started); Close runs to completion; then the handler
   runs ClientsWg.Add — Close has returned while a handler is alive *)
Definition v4 : cspec := mkCS 4 false false.

Definition unstarted : list tid := [1; 2; 2; 1; 1; 1; 0; 0; 0; 0; 1; 0; 0; 3]%nat.

Theorem C36_waits_refuted : exists vers sched,
  returned (final vers sched) = true /\ no_live_handler (final vers sched) = false /\
  KF_C36_unstarted_handler vers sched = true.
Proof. exists [v5], unstarted. vm_compute. repeat split. Qed.

(* the repaired defects C36-1b / C36-2: with the pre-fix code the first theorem is false *)
Theorem C36_refuted_prefix : exists vers sched,
  close_called (final_prefix vers sched) = true /\ quiescent (final_prefix vers sched) = true /\
  shutdown_complete (final_prefix vers sched) = false.
Proof. exact Findings.FixedC36.C36_refuted_prefix. Qed.

(* non-vacuity: two connections (MQTT 5 and 3.1.1) fully attached, then Close: both are in the
   snapshot, get DISCONNECT, their handlers tear down, Wait returns, Close returns.
   tids: 0 closer, 1 accept loop, 2/3 clients, 4/5 handlers, 6/7 clients going away *)
Definition orderly : list tid :=
  [1; 2; 2; 1; 1; 1; 3; 3; 1; 1; 1; 4; 4; 4; 4; 5; 5; 5; 5; 0; 0; 0; 0; 1; 0; 4; 5; 0]%nat.

Example C36_nonvacuous :
  let s := final [v5; v4] orderly in
  close_called s = true /\ quiescent s = true /\ shutdown_complete s = true /\
  KF_C36_unstarted_handler [v5; v4] orderly = false /\ KF_C36_silent_connection [v5; v4] orderly = false /\
  map (fun c => (c_phase c, c_connack c, c_disc c, c_closed c)) (s_conns s) =
    [(PDone, true, true, true); (PDone, true, true, true)].
Proof. vm_compute. repeat split. Qed.

(* ... and a state that is not yet quiescent: before the handlers have torn down Close is blocked *)
Example C36_blocked_until_handlers_finish :
  let s := final [v5; v4] (firstn 26 orderly) in
  returned s = false /\ quiescent s = false /\ s_wg s = 1.
Proof. vm_compute. repeat split. Qed.

Print Assumptions C36_all_closed_modulo_findings.
Print Assumptions C36_all_closed_refuted.
Print Assumptions C36_all_closed_refuted_too_large.
Print Assumptions C36_stops_accepting.
Print Assumptions C36_no_spawn_after_close.
Print Assumptions C36_waits_modulo_findings.
Print Assumptions C36_waits_refuted.
Print Assumptions C36_refuted_prefix.
