(* C11 — Receive Maximum flow control holds in both directions without leaking quota.
   Statements only.  Model: Session/Inflight.v (the four quota counters with inflight.go's saturating inc / dec at
   the places server.go calls them); verdict on the code: QosSpecs.chk11 on the observed history.

   The full property is FALSE of the faithful model of the current code (each replays on the real broker):
     KF_C11_pubrec_takes_receive_quota   processPubrec lowers the RECEIVE quota for an outbound message: a client with
                                         no publish of its own in flight gets DISCONNECT 0x93 (pinned by
                                         TestServerProcessPacketPubrec)
     KF_C11_limit_checked_first          receiveQuota == 0 is tested before QoS / retransmission: a QoS 0 publish or a
                                         retransmission at the limit is refused with 0x93
     KF_C11_receive_quota_lost           an own exchange whose record another direction's acknowledgement removed
                                         never returns its unit
     KF_C11_refused_retransmit_keeps_quota  after PUBREC 0x91 the client gives the exchange up, the broker keeps counting it
     KF_C11_send_quota_raised            processPubrel / processPubcomp / a cross-direction PUBACK raise the SEND quota
                                         (pinned by TestServerProcessPacketPubrel / ...Pubcomp): more in transit than declared
     KF_C11_resume_resets_quota          resuming a session resets the quota with N messages outstanding and resends all
     KF_C11_record_lost                  a message whose record was deleted (deferred send, id collision) is not counted
     KF_C11_send_quota_lost              deferred send, id collision, PUBREC >= 0x80 and expiry never return the unit of
                                         send quota: messages queued behind the limit are never sent
   Proved for all histories WITHOUT those operations (executable predicates clean_send / clean_recv evaluated along the
   model's run), for every oracle: exact send accounting and its bound, the one-sided receive accounting and "no
   refusal inside the maximum"; unconditionally: quotas stay within [0, maximum]; locally: the post-packet block
   releases a held-back message as soon as quota is available. *)
From MV Require Import Base.Val Session.Pkt Session.Inflight Session.InflightProofs Session.QosSpecs
  Session.QosProofs Session.QosOrder Session.QosLive Session.QosSound Session.QosWitness Conc.Quota Conc.QuotaProofs.
Open Scope N_scope.

(* unconditional, all histories, all oracles: the counters never leave [0, maximum] *)
Theorem C11_quota_bounds : forall c, cfg_ok c -> forall h, hist_ok h ->
  let s := fst (run c init_st h) in
  (0 <= s_sendq s <= s_maxsend s)%Z /\ (0 <= s_recvq s <= s_maxrecv s)%Z.
Proof. exact quota_bounds. Qed.

(* send side: quota + (stored outbound messages handed to the connection) = the client's receive maximum; so never
   more of them than the maximum, and quota is free only when nothing is held back *)
Theorem C11_out_modulo_findings : forall c, cfg_ok c -> forall h s,
  hist_ok h -> wf c s -> sbal s -> clean_send c s h = true ->
  let s' := fst (run c s h) in
  sbal s' /\ ((0 < s_maxsend s')%Z -> (n_f sent_out (s_infl s') <= s_maxsend s')%Z).
Proof. exact run_sbal. Qed.

(* the property-level corollary, from the start: along every history that avoids the listed accounting defects the
   stored outbound messages handed to the connection and not yet acknowledged never outnumber the receive maximum *)
Theorem C11_out : forall c, cfg_ok c -> forall h,
  hist_ok h -> clean_send c init_st h = true ->
  let s := fst (run c init_st h) in
  (0 < s_maxsend s)%Z -> (n_f sent_out (s_infl s) <= s_maxsend s)%Z.
Proof. exact in_transit_bounded. Qed.

(* liveness over histories: the client acknowledges promptly - a run of PUBACK / PUBCOMP, each ending an outbound flow
   whose message was handed to the connection, not more of them than messages are waiting behind the limit.  Every
   acknowledgement releases exactly one held-back message in its own step, the released messages leave in non-decreasing
   uint16(Created) order, and that many fewer are waiting afterwards; with as many acknowledgements as waiting messages
   every one of them is transmitted (C11_all_released).  The acknowledgements of the RELEASED messages themselves free
   nothing (their records are gone): that is KF_C11_send_quota_lost / KF_C09_deferred, see C11_refuted_starved. *)
Theorem C11_live_modulo_findings : forall c, cfg_ok c -> forall acks s,
  waiting c s ->
  (forall o orc, In (o, orc) acks -> op_ok o /\ ends_flow s o) ->
  NoDup (map (fun x => ack_pid (fst x)) acks) ->
  (Z.of_nat (length acks) <= n_f marked (s_infl s))%Z ->
  exists rel,
    concat (snd (run c s acks)) = map pkt_of_held rel /\
    length rel = length acks /\
    (forall k r, In (k, r) rel -> get k (s_infl s) = Some r /\ (r_expiry r < 0)%Z) /\
    sorted_keys (map (fun kv => key16 (snd kv)) rel) /\
    waiting c (fst (run c s acks)) /\
    n_f marked (s_infl (fst (run c s acks))) = (n_f marked (s_infl s) - Z.of_nat (length acks))%Z /\
    (forall k r, get k (s_infl s) = Some r -> (r_expiry r < 0)%Z ->
                 In (k, r) rel \/ get k (s_infl (fst (run c s acks))) = Some r).
Proof. exact release_run. Qed.

Theorem C11_all_released : forall c, cfg_ok c -> forall acks s,
  waiting c s ->
  (forall o orc, In (o, orc) acks -> op_ok o /\ ends_flow s o) ->
  NoDup (map (fun x => ack_pid (fst x)) acks) ->
  Z.of_nat (length acks) = n_f marked (s_infl s) ->
  forall k r, get k (s_infl s) = Some r -> (r_expiry r < 0)%Z ->
  In (OPkt T_PUBLISH k false (r_qos r) (r_uid r) 0) (concat (snd (run c s acks))).
Proof. exact all_released. Qed.

(* CONCURRENT deliveries to one client (interleaving model Conc/Quota.v: read the quota, take a unit atomically, then be
   queued or - queue full - return the unit by an atomic saturating increment; acknowledgements return units too): for EVERY
   schedule of n deliveries, whichever of them find the queue full, the messages in transit never outnumber the receive
   maximum.  Tied to the code by forced schedules across publishToClient's rollback (schedule points write.beforeLock and
   publish.afterAlias). *)
Theorem C11_quota_all_schedules : forall rm n full sched,
  (0 <= rm)%Z ->
  let '(q, ths) := qrun false rm full rm (repeat QStart n) sched in
  (in_transit ths <= rm)%Z /\ (0 <= q <= rm)%Z.
Proof. exact quota_all_schedules. Qed.

(* returning the unit by storing back the value read at the start hands back a unit another delivery took in between:
   a schedule of four deliveries ends with three messages in transit under receive maximum 2; the same schedule is
   harmless with the atomic increment *)
Theorem C11_refuted_snapshot_restore : exists rm full sched,
  in_transit (snd (qrun true rm full rm (repeat QStart 4) sched)) = 3%Z /\
  in_transit (snd (qrun false rm full rm (repeat QStart 4) sched)) = 2%Z /\ rm = 2%Z.
Proof.
  exists 2%Z, (fun j => Nat.eqb j 0), [0; 0; 1; 1; 1; 0; 2; 2; 2; 3; 3; 3]%nat. vm_compute. repeat split; reflexivity.
Qed.

(* receive side: quota + (stored own QoS 2 exchanges) >= the advertised maximum; so with fewer exchanges stored
   than the maximum the quota is not 0 ... *)
Theorem C11_in_modulo_findings : forall c, cfg_ok c -> forall h s,
  hist_ok h -> wf c s -> rlow s -> clean_recv c s h = true ->
  let s' := fst (run c s h) in
  rlow s' /\ ((n_f inbound (s_infl s') < s_maxrecv s')%Z -> (s_recvq s' =? 0)%Z = false).
Proof. exact run_rlow. Qed.

(* ... and then the next PUBLISH (any QoS) is acknowledged or forwarded, not answered DISCONNECT 0x93 *)
Theorem C11_accepted_within_quota : forall c s qos p uid now orc,
  (s_recvq s =? 0)%Z = false ->
  match snd (in_publish c s qos p uid now orc) with
  | OPkt t q _ _ _ _ :: _ => q = p /\ (t = T_PUBREC \/ t = T_PUBACK)
  | OFwd u :: _ => u = uid
  | _ => False
  end.
Proof. exact in_publish_accepts. Qed.

(* the one-step form of the release (kept for reference; the history statements are C11_live_modulo_findings above): with quota available, a connected client and a held-back message,
   the post-packet block writes a held-back message, one with the smallest uint16(Created) *)
Theorem C11_progress_partial : forall c s orc k0 r0,
  wf c s -> s_conn s = true -> (0 < s_sendq s)%Z -> get k0 (s_infl s) = Some r0 -> (r_expiry r0 < 0)%Z ->
  exists p r, snd (deferred s orc) = [OPkt T_PUBLISH p false (r_qos r) (r_uid r) 0] /\
              get p (s_infl s) = Some r /\ (r_expiry r < 0)%Z /\
              forall k' r', get k' (s_infl s) = Some r' -> (r_expiry r' < 0)%Z -> (key16 r <= key16 r')%Z.
Proof. exact deferred_progress. Qed.

Theorem C11_refuted_pubrec : exists c h, model_verdict 11 c h = Some (2, Some (tag "KF_C11_pubrec_takes_receive_quota")).
Proof. exists (wcfg 1 8), [w_connect; w_out 2 1; w_ack T_PUBREC 1; w_pub 1 7 false 2]. vm_compute. reflexivity. Qed.
Theorem C11_refuted_limit_first : exists c h, model_verdict 11 c h = Some (2, Some (tag "KF_C11_limit_checked_first")).
Proof. exists (wcfg 1 8), [w_connect; w_pub 2 3 false 1; w_pub 0 0 false 2]. vm_compute. reflexivity. Qed.
Theorem C11_refuted_recv_lost : exists c h, model_verdict 11 c h = Some (2, Some (tag "KF_C11_receive_quota_lost")).
Proof.
  exists (wcfg 1 8), [w_connect; w_out 1 1; w_pub 2 1 false 9; w_ack T_PUBACK 1; w_ack T_PUBREL 1; w_pub 1 7 false 10].
  vm_compute. reflexivity.
Qed.
Theorem C11_refuted_refused : exists c h, model_verdict 11 c h = Some (2, Some (tag "KF_C11_refused_retransmit_keeps_quota")).
Proof.
  exists (wcfg 2 8), [w_connect; w_pub 2 3 false 1; w_pub 2 3 true 1; w_pub 2 4 false 2; w_pub 1 5 false 3].
  vm_compute. reflexivity.
Qed.
Theorem C11_refuted_raised : exists c h, model_verdict 11 c h = Some (1, Some (tag "KF_C11_send_quota_raised")).
Proof. exists (wcfg 2 8), [w_connect; w_out 1 1; w_pub 2 9 false 2; w_ack T_PUBREL 9; w_out 1 3]. vm_compute. reflexivity. Qed.
Theorem C11_refuted_resume : exists c h, model_verdict 11 c h = Some (1, Some (tag "KF_C11_resume_resets_quota")).
Proof. exists (wcfg 2 8), [w_connect; w_out 1 1; w_netclose; w_connect; w_out 1 2]. vm_compute. reflexivity. Qed.
Theorem C11_refuted_record_lost : exists c h, model_verdict 11 c h = Some (1, Some (tag "KF_C11_record_lost")).
Proof.
  exists (wcfg 2 8), [w_connect; w_out 1 1; w_out 1 2; w_ack T_PUBACK 1; w_netclose; w_connect; w_out 1 3].
  vm_compute. reflexivity.
Qed.
Theorem C11_refuted_starved : exists c h, model_verdict 11 c h = Some (3, Some (tag "KF_C11_send_quota_lost")).
Proof.
  exists (wcfg 2 8), [w_connect; w_out 1 1; w_out 1 2; w_ack T_PUBACK 1; w_ack T_PUBACK 2; w_out 1 3; w_ping].
  vm_compute. reflexivity.
Qed.

(* non-vacuity: a history with QoS 1 traffic in both directions up to the limits satisfies clean_send and clean_recv,
   ends balanced, and the monitor accepts it *)
Definition c11_h : list (op * list N) :=
  [(Reconnect true false 300 2, []); w_out 1 1; w_out 1 2; w_pub 2 7 false 5; w_ack T_PUBACK 1; w_out 1 3;
   w_ack T_PUBREL 7; w_pub 1 8 false 6; w_ack T_PUBACK 3; w_ack T_PUBACK 2].
Example C11_nonvacuous :
  clean_recv (wcfg 2 8) init_st c11_h = true /\
  clean_send (wcfg 2 8) init_st (firstn 6 c11_h) = true /\
  model_verdict 11 (wcfg 2 8) c11_h = None /\
  s_sendq (fst (run (wcfg 2 8) init_st (firstn 6 c11_h))) = 0%Z.
Proof. vm_compute. repeat split; reflexivity. Qed.

Print Assumptions C11_quota_bounds.
Print Assumptions C11_out_modulo_findings.
Print Assumptions C11_out.
Print Assumptions C11_live_modulo_findings.
Print Assumptions C11_all_released.
Print Assumptions C11_quota_all_schedules.
Print Assumptions C11_refuted_snapshot_restore.
Print Assumptions C11_in_modulo_findings.
Print Assumptions C11_accepted_within_quota.
Print Assumptions C11_progress_partial.
Print Assumptions C11_refuted_pubrec.
Print Assumptions C11_refuted_limit_first.
Print Assumptions C11_refuted_recv_lost.
Print Assumptions C11_refuted_refused.
Print Assumptions C11_refuted_raised.
Print Assumptions C11_refuted_resume.
Print Assumptions C11_refuted_record_lost.
Print Assumptions C11_refuted_starved.
