(* C19 — Hook chain results are honoured consistently.
   Statements only; proofs are [exact lemma].  Everything is quantified over ALL hook stacks (lists, in
   registration order, of records of arbitrary functions; [None] = the hook does not provide the
   method), all clients, packets, protocol versions and QoS.  The model is that of the repaired code
   (fix fcb436d); the pre-fix behaviour is documented in Findings/FixedC19.v. *)
From MV Require Import Base.Val Topics.Levels Topics.Match Hooks.Chain Hooks.ChainProofs.
Open Scope N_scope.

(* Hooks run in registration order and each packet-modifying hook sees the previous hook's output:
   the invocation logs of the OnPublish, OnPacketRead and OnSubscribe chains are exactly the traces over
   the providing hooks in registration order ([pub_trace], [read_trace], [sub_trace]: the n-th entry is
   the n-th providing hook applied to the output of the one before; a chain stops early only at a hook
   that objects), and a chain nobody objects to returns the composition of all providing hooks. *)
Theorem C19_order : forall (hs : list hook) (cl : client) (pk : ppkt) (s : spkt),
  pub_trace cl (providers hk_publish hs) pk (snd (on_publish hs cl pk)) /\
  (snd (fst (on_publish hs cl pk)) = ENone -> fst (fst (on_publish hs cl pk)) = compose_pub hs cl pk) /\
  read_trace cl (providers hk_read hs) pk (snd (on_read hs cl pk)) /\
  sub_trace cl (providers hk_subscribe hs) s (snd (on_subscribe hs cl s)) /\
  fst (on_subscribe hs cl s) = compose_sub hs cl s.
Proof. exact chain_order. Qed.

(* A packet rejected on read is not processed: in every broker state the publisher only sees its
   connection end; nothing is delivered to anybody, nothing is acknowledged, the retained store is
   unchanged, and no hook beyond the read chain (OnPublish, OnACLCheck) is consulted. *)
Theorem C19_reject_not_processed : forall (hs : list hook) (ob : bool) (st : bst) (cl : client) (pk : ppkt) (ver : N),
  assoc cl (b_conn st) = Some ver ->
  snd (fst (on_read hs cl pk)) = EReject ->
  let '(st', evs, lg) := step hs ob st (OPublish cl pk) in
  evs = [(cl, VClosed)] /\ b_ret st' = b_ret st /\ lg = snd (on_read hs cl pk) /\ assoc cl (b_conn st') = None.
Proof. exact step_reject_not_processed. Qed.

(* A publish that the OnPublish chain rejects, marks as ignored or answers with any error is never
   forwarded and never retained — for every protocol version and every QoS (both are arbitrary here:
   [ver] and [pp_qos pk]), in every broker state. *)
Theorem C19_error_never_forwarded : forall (hs : list hook) (ob : bool) (st : bst) (cl : client) (pk : ppkt) (ver : N),
  assoc cl (b_conn st) = Some ver ->
  snd (fst (on_publish hs cl (fst (fst (on_read hs cl pk))))) <> ENone ->
  let '(st', evs, _) := step hs ob st (OPublish cl pk) in
  no_publish_ev evs /\ b_ret st' = b_ret st.
Proof. exact step_error_never_forwarded. Qed.

(* A client is admitted if (and only if) ANY authentication hook allows it. *)
Theorem C19_any_auth : forall (hs : list hook) (ob : bool) (st : bst) (cl : client) (ver : N),
  (fst (on_auth hs cl) = true <-> some_auth hs cl) /\
  let '(st', evs, _) := step hs ob st (OConnect cl ver) in
  (In (cl, VConnack true) evs <-> some_auth hs cl) /\
  (assoc cl (b_conn st') = Some ver <-> some_auth hs cl \/ assoc cl (b_conn st) = Some ver).
Proof. intros. split; [apply any_auth | apply step_any_auth]. Qed.

(* An access is permitted if (and only if) ANY access-control hook allows it; and the server honours
   it: only a permitted publish is forwarded or retained, a subscription is created exactly for the
   valid filters somebody permits, a valid filter nobody permits is answered 0x87 (0x80 when obscured
   or for MQTT 3). *)
Theorem C19_any_acl : forall (hs : list hook) (ver : N) (ob : bool) (cl : client) (t : bytes) (w : bool) (pk : ppkt)
                             (fs : list (bytes * N)),
  (fst (on_acl hs cl t w) = true <-> some_acl hs cl t w) /\
  (po_forward (process_publish hs ver cl pk) <> None \/ po_retain (process_publish hs ver cl pk) <> None ->
   some_acl hs cl (pp_topic pk) true /\ valid_pub_topic (pp_topic pk) = true) /\
  (let '(codes, gr, _) := sub_filters hs ver ob cl fs in
   length codes = length fs /\
   (forall f q, In (f, q) gr -> In (f, q) fs /\ valid_filter_spec f = true /\ some_acl hs cl f false) /\
   (forall f q, In (f, q) fs -> valid_filter_spec f = true -> some_acl hs cl f false -> In (f, q) gr)) /\
  (forall f q, valid_filter_spec f = true -> ~ some_acl hs cl f false ->
   fst (fst (sub_filters hs ver ob cl [(f, q)])) = [if ver <? 5 then 128 else if ob then 128 else 135]).
Proof.
  intros. split; [apply any_acl|]. split; [apply process_publish_permitted|].
  split; [apply sub_filters_spec|]. intros; apply sub_filters_refusal; assumption.
Qed.

(* ---------- non-vacuity ---------- *)
Definition h_mod (id : N) (sfx : N) : hook :=
  mkHook id None None None (Some (fun _ p => (mkP (pp_topic p) (pp_payload p ++ [sfx]) (pp_qos p) (pp_retain p) (pp_pid p), ENone))) None.
Definition h_err (id : N) (e : herr) : hook := mkHook id None None None (Some (fun _ p => (p, e))) None.
Definition h_allow (id : N) : hook := mkHook id (Some (fun _ => true)) (Some (fun _ _ _ => true)) None None None.
Definition h_deny (id : N) : hook := mkHook id (Some (fun _ => false)) (Some (fun _ _ _ => false)) None None None.
Definition m0 : ppkt := mkP (tag "a/b") [1] 1 true 7.
Definition st0 : bst := mkB [(tag "p", 4); (tag "s", 4)] [(tag "s", tag "#")] [].

(* two modifying hooks run in order, the second sees the first one's output; a third hook's error
   stops the chain and the original packet comes back *)
Example C19_order_example :
  on_publish [h_mod 1 10; h_deny 2; h_mod 3 11] (tag "p") m0 =
    (mkP (tag "a/b") [1; 10; 11] 1 true 7, ENone,
     [CPublish 1 (tag "p") m0; CPublish 3 (tag "p") (mkP (tag "a/b") [1; 10] 1 true 7)]) /\
  on_publish [h_mod 1 10; h_err 2 (ECode 153); h_mod 3 11] (tag "p") m0 =
    (m0, ECode 153, [CPublish 1 (tag "p") m0; CPublish 2 (tag "p") (mkP (tag "a/b") [1; 10] 1 true 7)]).
Proof. vm_compute. split; reflexivity. Qed.

(* the premises of C19_error_never_forwarded / C19_reject_not_processed are met by concrete stacks, and
   without the objecting hook the same publish IS delivered and retained (the conclusion is not trivial) *)
Example C19_error_example :
  snd (fst (on_publish [h_allow 1; h_err 2 EOther] (tag "p") m0)) <> ENone /\
  step [h_allow 1; h_err 2 EOther] false st0 (OPublish (tag "p") m0) = (st0, [], [CAcl 1 (tag "p") (tag "a/b") true; CPublish 2 (tag "p") m0]) /\
  step [h_allow 1; h_mod 2 10] false st0 (OPublish (tag "p") m0) =
    (mkB (b_conn st0) (b_subs st0) [(tag "a/b", [1; 10])],
     [(tag "p", VAck 4 7 0); (tag "s", VPublish (tag "a/b") [1; 10] false)],
     [CAcl 1 (tag "p") (tag "a/b") true; CPublish 2 (tag "p") m0; CAcl 1 (tag "s") (tag "a/b") false]).
Proof. vm_compute. split; [discriminate | split; reflexivity]. Qed.

Example C19_any_example :
  fst (on_auth [h_deny 1; h_allow 2] (tag "c")) = true /\ fst (on_auth [h_deny 1; h_deny 2] (tag "c")) = false /\
  fst (on_acl [h_deny 1; h_mod 2 0; h_allow 3] (tag "c") (tag "t") true) = true /\
  snd (on_acl [h_allow 1; h_allow 2] (tag "c") (tag "t") true) = [CAcl 1 (tag "c") (tag "t") true].
Proof. vm_compute. repeat split. Qed.

Print Assumptions C19_order.
Print Assumptions C19_reject_not_processed.
Print Assumptions C19_error_never_forwarded.
Print Assumptions C19_any_auth.
Print Assumptions C19_any_acl.
