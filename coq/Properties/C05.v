(* C05 — Retained store reflects the latest retained publish per topic.
   Statements only.  Model: Session/Deliver.v (retainMessage / TopicsIndex.RetainMessage as a map topic ->
   message, publishRetainedToClient with its Retain Handling and shared-filter checks, processSubscribe).
   Specification: [latest] — the most recent retained publish to the topic in the history, nothing if it had
   an empty payload, nothing at all while retain is unavailable — written as a fold over the history,
   independent of the store.  Which retained topics a filter selects is topic_matches (the trie side is C02). *)
From MV Require Import Base.Val Topics.Levels Topics.Match Topics.Alist Session.Deliver Session.DeliverProofs Session.DeliverTheorems.
Open Scope N_scope.

(* after ANY history, the messages a new subscription to f is served from the store are exactly: for each
   matching topic the latest retained message, once, retain flag set, never an empty payload *)
Theorem C05_latest : forall mq ra deny (h : hist) f,
  forallb op_ok (ops_of h) = true ->
  let s := run (init mq ra deny) h in
  (forall m, In m (retained_matching s f) <->
             topic_matches f (m_topic m) = true /\ latest ra mq (ops_of h) (m_topic m) None = Some m)
  /\ NoDup (map m_topic (retained_matching s f))
  /\ (forall m, In m (retained_matching s f) -> m_retain m = true /\ m_payload m <> []).
Proof. exact retained_matching_latest. Qed.

(* the store itself, topic by topic *)
Theorem C05_store : forall (h : hist) s t,
  al_get beq_bytes t (st_retained (run s h))
  = latest (st_retain_avail s) (st_maxqos s) (ops_of h) t (al_get beq_bytes t (st_retained s)).
Proof. exact latest_run. Qed.

(* Retain Handling 0 always sends, 1 only if the subscription did not exist, 2 never; shared never *)
Theorem C05_rh : forall s c cl f o existed,
  so_rh o <= 2 ->
  retained_for s c cl f o existed =
  if is_share f || negb (rh_sends (so_rh o) existed) then []
  else map (fun m => publish_to_client s c cl (retained_sub f o) m false) (retained_matching s f).
Proof. exact retained_for_cases. Qed.

Theorem C05_shared_none : forall s c cl f o existed, is_share f = true -> retained_for s c cl f o existed = [].
Proof. intros s c cl f o existed H. unfold retained_for. rewrite H. reflexivity. Qed.

(* nothing is retained while retain is unavailable *)
Theorem C05_unavailable : forall mq deny (h : hist), st_retained (run (init mq false deny) h) = [].
Proof. exact retained_unavailable. Qed.

(* a retained delivery carries the stored message with its retain flag *)
Theorem C05_flag : forall s c cl f o m d,
  publish_to_client s c cl (retained_sub f o) m false = PSend d ->
  d_topic d = m_topic m /\ d_payload d = m_payload m /\ d_retain d = m_retain m.
Proof.
  intros s c cl f o m d H. destruct (retained_delivery s c cl f o m d H) as [_ [H2 [H3 [H4 _]]]].
  split; [exact H2|]. split; [exact H3|exact H4].
Qed.

(* non-vacuity: overwrite, delete by empty payload, retain handling on a repeated subscription *)
Definition pm (t p : bytes) (r : bool) : msg := mkMsg t p 1 r mp_none [].
Definition ex_hist : hist :=
  map (fun o => ([], [], o))
    [OConnect (tag "p") 4 true false false;
     OPublish (tag "p") (pm (tag "a/b") (tag "one") true);
     OPublish (tag "p") (pm (tag "a/c") (tag "x") true);
     OPublish (tag "p") (pm (tag "a/b") (tag "two") true);
     OPublish (tag "p") (pm (tag "a/b") (tag "live") false);
     OPublish (tag "p") (pm (tag "a/c") (tag "") true);
     OConnect (tag "s") 5 true false false].

Example C05_nonvacuous :
  let s := run (init 2 true []) ex_hist in
  map (fun m => (m_topic m, m_payload m)) (retained_matching s (tag "a/+")) = [(tag "a/b", tag "two")]
  /\ map (fun d => d_payload d)
       (o_deliv (snd (step [] [] s (OSubscribe (tag "s") [(tag "a/#", mkSO 1 false false 1 5)])))) = [tag "two"]
  /\ (let s1 := fst (step [] [] s (OSubscribe (tag "s") [(tag "a/#", mkSO 1 false false 1 5)])) in
      o_deliv (snd (step [] [] s1 (OSubscribe (tag "s") [(tag "a/#", mkSO 1 false false 1 5)]))) = [])
  /\ st_retained (run (init 2 false []) ex_hist) = [].
Proof. vm_compute. repeat split. Qed.

Print Assumptions C05_latest.
Print Assumptions C05_store.
Print Assumptions C05_rh.
Print Assumptions C05_shared_none.
Print Assumptions C05_unavailable.
Print Assumptions C05_flag.

(* ---------- concurrency dimension (topic index level; files Topics/RetainConc*.v) ----------
   Retained publishes and clears (TopicsIndex.RetainMessage) interleaved with client subscribes / unsubscribes on
   the same branch of the particle tree and with Messages(filter) queries for exact and wildcard filters.  Model:
   every index operation, RetainMessage's set + store included, is one atomic step under the root lock
   (Topics.Trie.t_step).  For every program (one list per goroutine) and EVERY schedule: the history keeps every
   goroutine's order, every return value and every Messages result is what the map "topic -> latest retained publish"
   gives in that serial order, and the final tree is related to the final map — so after quiescence Messages(f)
   returns the latest retained publish of every matching topic for exact and wildcard filters alike. *)
From MV Require Topics.IndexSpec Topics.Trie Topics.TrieRefine Topics.Lin Topics.InlineConcProofs Topics.RetainConc Topics.RetainConcProofs.

Theorem C05_retain_atomic_all_schedules : forall x0 a0 prog (sched : list nat) xf restf h,
  Topics.TrieRefine.R x0 a0 ->
  Forall (fun c => Topics.RetainConc.wf_ropb c = true) (concat prog) ->
  Topics.Lin.run_sched Topics.RetainConc.r_model_step sched x0 prog = (xf, restf, h) ->
  let serial := map (fun e : nat * Topics.RetainConc.rop * N => snd (fst e)) h in
  (forall t, Topics.Lin.proj t h ++ nth t restf [] = nth t prog []) /\
  map snd h = snd (Topics.Lin.seq_run Topics.RetainConc.r_spec_step a0 serial) /\
  Topics.TrieRefine.R xf (fst (Topics.Lin.seq_run Topics.RetainConc.r_spec_step a0 serial)).
Proof. exact Topics.RetainConcProofs.retain_atomic_all_schedules. Qed.

(* The split variant (root lock released after set(...), message stored afterwards) is refuted by the schedule
   set / client unsubscribe / store: the message lands on a pruned particle; the exact filter still returns it, the
   wildcard filter a/# never does — no serial order of the specification separates the two; the run-time checker
   rejects that observation. *)
Example C05_split_refuted :
  (let '(xf, _, _) := Topics.Lin.run_sched Topics.RetainConc.rs_step [0; 1; 0]%nat Topics.InlineConcProofs.x_pre
       [[Topics.RetainConc.RWalk Topics.InlineConcProofs.ab; Topics.RetainConc.RStore Topics.InlineConcProofs.ab (tag "m")];
        [Topics.RetainConc.RS (Topics.RetainConc.RO (Topics.IndexSpec.OUnsub (tag "c1") Topics.InlineConcProofs.ab))]] in
   (Topics.Trie.messages xf Topics.InlineConcProofs.ab, Topics.Trie.messages xf (tag "a/#")))
  = ([(Topics.InlineConcProofs.ab, tag "m")], []) /\
  Topics.RetainConc.conc_explainedg Topics.RetainConc.r_spec_step Topics.IndexSpec.a_empty
    [(Topics.RetainConc.RO (Topics.IndexSpec.OSub (tag "c1") Topics.InlineConcProofs.ab 1), 1)]
    [[(Topics.RetainConc.RO (Topics.IndexSpec.ORetain Topics.InlineConcProofs.ab (tag "m")), 1)];
     [(Topics.RetainConc.RO (Topics.IndexSpec.OUnsub (tag "c1") Topics.InlineConcProofs.ab), 1)]]
    [(Topics.RetainConc.RMsgs Topics.InlineConcProofs.ab [(Topics.InlineConcProofs.ab, tag "m")], 1);
     (Topics.RetainConc.RMsgs (tag "a/#") [], 1)] = false.
Proof. vm_compute. split; reflexivity. Qed.

Print Assumptions C05_retain_atomic_all_schedules.
