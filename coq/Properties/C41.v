(* C41 — Pooled buffers are never shared or returned dirty.
   Statements only; every proof is [exact lemma].  [run max init acts = Some s]: s is the state
   after the schedule [acts] — any list of atomic actions of any threads, with any behaviour of
   sync.Pool (which pooled item a Get returns, misses, items forgotten by GC) — in which every
   thread writes and puts only buffers it obtained and has not put since (an action of a thread
   that breaks this is not enabled: the caller's side of the contract).  max = 0 is the uncapped
   constructor, max > 0 the capped one.  Partial: sync.Pool itself is modelled (a multiset that
   returns each item at most once), not verified. *)
From MV Require Import Base.Val Conc.Pool Conc.PoolProofs.
Open Scope N_scope.

(* Whatever Get hands out is empty. *)
Theorem C41_empty_on_get : forall max acts s t c s' b v,
  run max init acts = Some s ->
  step max s (AGet t c) = Some (s', OGot b v) ->
  blen v = 0.
Proof. exact sched_empty_on_get. Qed.

(* No buffer is held twice (by two threads or twice by one), no held buffer is in the pool, and a
   Get never returns a buffer that somebody holds. *)
Theorem C41_exclusive : forall max acts s,
  run max init acts = Some s ->
  NoDup (held_ids s) /\
  (forall b, In b (held_ids s) -> ~ In b (pool s)) /\
  (forall h1 h2, In h1 (held s) -> In h2 (held s) -> h_bid h1 = h_bid h2 -> h1 = h2) /\
  (forall t c s' b v, step max s (AGet t c) = Some (s', OGot b v) -> ~ In b (held_ids s)).
Proof. exact sched_exclusive. Qed.

(* A capped pool keeps no buffer above the cap, hands none out, and a Put of an over-sized buffer
   leaves the pool as it was (the buffer is gone from both the pool and its holder). *)
Theorem C41_cap : forall max acts s, 0 < max ->
  run max init acts = Some s ->
  (forall b, In b (pool s) -> exists v, lookup (heap s) b = Some v /\ bcap v <= max) /\
  (forall t c s' b v, step max s (AGet t c) = Some (s', OGot b v) -> bcap v <= max) /\
  (forall t b v s' o, lookup (heap s) b = Some v -> max < bcap v ->
     step max s (APutReset t b) = Some (s', o) -> pool s' = pool s /\ ~ In b (held_ids s')).
Proof. exact sched_cap. Qed.

(* The model is never stuck on a sync.Pool.Get of a pooled item. *)
Theorem C41_get_enabled : forall max acts s t i b,
  run max init acts = Some s -> nth_error (pool s) i = Some b ->
  exists s' v, step max s (AGet t (CPool i)) = Some (s', OGot b v).
Proof. exact (fun max acts s t i b R => get_enabled max s t i b (ex_intro _ acts R)). Qed.

(* The ordering obligation inside Put.  The theorems above are about "x.Reset() ; b.pool.Put(x)"
   (APutReset ; APutPool).  With the two swapped — release first, Reset afterwards, e.g. a deferred
   Reset — the same pool is refuted by a concrete schedule: Get hands thread 2 buffer 7 with 5 bytes
   in it while thread 1 still holds it, thread 2 writes 3 bytes (8 in all), and thread 1's late
   Reset wipes them although thread 2 still owns the buffer. *)
Theorem C41_release_before_reset_refuted :
  exists s4 s5 sf,
    run2 0 init (firstn 4 swapped_sched) = Some (s4, [OGot 7 (mkBuf 0 0); ONone; ONone; OGot 7 (mkBuf 64 5)]) /\
    map h_tid (held s4) = [2; 1] /\ held_ids s4 = [7; 7] /\
    run2 0 init (firstn 5 swapped_sched) = Some (s5, [OGot 7 (mkBuf 0 0); ONone; ONone; OGot 7 (mkBuf 64 5); ONone]) /\
    lookup (heap s5) 7 = Some (mkBuf 64 8) /\
    option_map fst (run2 0 init swapped_sched) = Some sf /\
    lookup (heap sf) 7 = Some (mkBuf 64 0) /\ holds 2 7 Using (held sf) = true.
Proof. exact swapped_order_refuted. Qed.

(* What the structural check accepts as the body of Put (read from the Go source on every run, in
   execution order, deferred calls last): uses by the owner, a Reset, then only Resets / capacity
   guards, the release, and nothing after it. *)
Theorem C41_put_shape : forall l, put_shape_ok l = true ->
  exists pre mid, l = pre ++ 1 :: mid ++ [2] /\ only [1; 3; 5] pre = true /\ only [1; 3] mid = true.
Proof. exact put_shape_ok_sound. Qed.

(* non-vacuity: an interleaved schedule of two threads is enabled; the reused buffer comes back
   empty with its capacity; on a pool capped at 64 the same buffer (capacity 128) is not kept *)
Example C41_nonvacuous :
  (exists s, run 0 init demo_sched = Some s /\ held_ids s = [7; 8] /\ pool s = [] /\
             lookup (heap s) 7 = Some (mkBuf 128 0)) /\
  run 64 init demo_sched = None /\
  (exists s, run 64 init (firstn 5 demo_sched) = Some s /\ pool s = [] /\ held_ids s = [8]).
Proof. vm_compute. repeat split; eexists; repeat split. Qed.

Print Assumptions C41_empty_on_get.
Print Assumptions C41_exclusive.
Print Assumptions C41_cap.
Print Assumptions C41_get_enabled.
Print Assumptions C41_release_before_reset_refuted.
Print Assumptions C41_put_shape.
