(* C13 — Connections start with one CONNACK and only authenticated clients are admitted.
   Statements only; proofs are [exact lemma] or vm_compute witnesses.

   [mon13] (Session/LifeSpec.v) is the specification monitor that ./check runs on what the real
   broker did; the theorems say that on the traces of the component model of attachClient /
   readConnectionPacket / validateConnect / ConnectValidate / SendConnack (Session/Lifecycle.v) it
   never reports anything, for every history of operations and every server configuration.
   [fresh_conns] only says that connection numbers name distinct network connections.
   The clause "for every interleaving with traffic to the connecting client id" is in Conc/Connack.v
   (theorems below: C13_connack_first_schedules_refuted / _modulo_findings). *)
From MV Require Import Base.Val Base.Sched Session.Lifecycle Session.LifeSpec Session.LifeBase Session.LifeProofs13 Conc.Connack
  Conc.ConnackProofs.
From MV Require Conc.Limit Session.LifeLimit.
Open Scope N_scope.

Definition model_obs (k : caps) (ops : list op) : list obs := map obs_of (trace k init ops).

(* first packet sent on a connection is a CONNACK, sent exactly once, nothing before it *)
Theorem C13_first : forall (k : caps) (ops : list op), fresh_conns [] ops = true ->
  forall v, In v (mon13 (model_obs k ops)) -> v_tag v <> V13_first_dup /\ v_tag v <> V13_first_other.
Proof. intros k ops F v I. unfold model_obs in I. rewrite (mon13_model_clean k ops F) in I. destruct I. Qed.

(* a success CONNACK only in answer to a CONNECT that an authentication hook allowed; auth_ok is
   false when no hook is installed, so then every connection is refused *)
Theorem C13_auth : forall (k : caps) (ops : list op), fresh_conns [] ops = true ->
  forall v, In v (mon13 (model_obs k ops)) -> v_tag v <> V13_auth.
Proof. intros k ops F v I. unfold model_obs in I. rewrite (mon13_model_clean k ops F) in I. destruct I. Qed.

(* an undecodable first packet, or a CONNECT that violates the protocol (connect_ok_spec, written from
   MQTT 3.1.1 / 5.0 section 3.1), never yields a session and is closed after at most a failure CONNACK *)
Theorem C13_invalid_connect : forall (k : caps) (ops : list op), fresh_conns [] ops = true ->
  forall v, In v (mon13 (model_obs k ops)) -> v_tag v <> V13_invalid.
Proof. intros k ops F v I. unfold model_obs in I. rewrite (mon13_model_clean k ops F) in I. destruct I. Qed.

(* the decision itself, for every CONNECT variant and configuration: what validateConnect accepts is valid *)
Theorem C13_validate_sound : forall (k : caps) (p : cparams),
  cp_trunc p = false -> validate_connect k p = 0 -> connect_ok_spec p = true.
Proof. exact validate_ok_spec. Qed.

(* concurrent traffic to the connecting client id (Conc/Connack.v) *)
Theorem C13_connack_first_schedules_refuted : exists sched, connack_first (run_connack sched) = false.
Proof. exact connack_first_refuted. Qed.

Theorem C13_connack_first_modulo_findings : forall sched,
  KF_C13_publish_before_connack sched = false -> connack_first (run_connack sched) = true.
Proof. exact connack_first_modulo. Qed.

(* at the connected-client limit (interleaving model Conc/Limit.v of the early check and
   reserveClientSlot): for every schedule of concurrent attempts, an attempt that is refused has
   been answered by a failure CONNACK carrying the reason code of its protocol version (0x89 for
   MQTT 5, 0x03 for MQTT 3.x) - the status [Refused k] of the model stands for "failure CONNACK k
   sent, connection closed"; the monitor engine life13limit (Session/LifeLimit.v) checks on the
   forced schedules of the real broker that a refused attempt's FIRST packet is that CONNACK *)
Theorem C13_limit_refusal_is_connack : forall (max : Z) (specs : list Limit.tspec) (sched : list tid) (t : tid) (k : N),
  Limit.stat t (run Limit.exec sched (Limit.limit_threads max specs)) = Some (Limit.Refused k) ->
  exists sp, nth_error specs t = Some sp /\ k = Limit.refusal_code (Limit.ts_ver sp).
Proof. exact LifeLimit.refusal_is_connack. Qed.

(* non-vacuity: an accepted and a refused connection *)
Definition cpA (ver : N) (res : bool) : cparams :=
  {| cp_pname := name_MQTT; cp_ver := ver; cp_reserved := res; cp_clean := true; cp_willflag := false; cp_willqos := 0;
     cp_willretain := false; cp_willtopic := []; cp_willpayload := []; cp_willdelay := 0; cp_userflag := false; cp_user := [];
     cp_passflag := false; cp_pass := []; cp_keepalive := 30; cp_id := [97]; cp_seiflag := false; cp_sei := 0;
     cp_trunc := false; cp_willtopic_ok := true |}.
Definition capsD : caps := {| k_maxsei := 4294967295; k_minver := 3; k_maxqos := 2; k_retain := true |}.
Example C13_nonvacuous :
  map t_outs (trace capsD init [OConnect 0 1000 (cpA 5 false) true [97]; OConnect 1 1000 (cpA 4 true) true [97];
                                OConnect 2 1000 (cpA 5 false) false [98]; OBadFirst 3 1000])
  = [[OPkt 0 (PConnack 0 false)]; [OPkt 1 (PConnack 130 false); OClose 1]; [OPkt 2 (PConnack 134 false); OClose 2]; [OClose 3]].
Proof. vm_compute. reflexivity. Qed.

Print Assumptions C13_first.
Print Assumptions C13_limit_refusal_is_connack.
Print Assumptions C13_auth.
Print Assumptions C13_invalid_connect.
Print Assumptions C13_validate_sound.
Print Assumptions C13_connack_first_schedules_refuted.
Print Assumptions C13_connack_first_modulo_findings.
