(* C02 — retained messages returned for a subscription filter are exactly those whose topic the filter matches.
   Statements only. *)
From MV Require Import Base.Val Topics.Levels Topics.Match Topics.Alist Topics.IndexSpec Topics.Trie
  Topics.TrieRefine Topics.TrieMsgs Topics.RetSub Topics.RetSubProofs Topics.Lin Topics.RetainConc Topics.RetainConcProofs
  Findings.FixedC02.
From Coq Require Import Permutation.
Open Scope N_scope.

(* For every history of retain / clear (empty payload) / expiry operations, interleaved with any subscription
   operations, and every well-formed filter, Messages(filter) returns — as a multiset, i.e. each message exactly
   once — the currently retained messages (the map abs ops) whose topic the filter matches under the same
   [topic_matches] as live delivery (C01). *)
Theorem C02_refines : forall ops f, wf_ops ops -> msg_filter_ok f = true ->
  Permutation (messages (run ops) f) (spec_retained (abs ops) f).
Proof. intros ops f W OK. exact (messages_perm _ _ f (R_run ops W) OK). Qed.

(* spelled out: membership and multiplicity *)
Theorem C02_exactly : forall ops f t pl, wf_ops ops -> msg_filter_ok f = true ->
  (In (t, pl) (messages (run ops) f) <->
   In (t, pl) (a_ret (abs ops)) /\ topic_matches f t = true).
Proof.
  intros ops f t pl W OK. pose proof (C02_refines ops f W OK) as P. split.
  - intro H. apply (Permutation_in _ P) in H. unfold spec_retained in H. apply filter_In in H. exact H.
  - intro H. apply (Permutation_in _ (Permutation_sym P)). unfold spec_retained. apply filter_In. exact H.
Qed.

Theorem C02_once : forall ops f, wf_ops ops -> msg_filter_ok f = true -> NoDup (map fst (messages (run ops) f)).
Proof.
  intros ops f W OK. pose proof (C02_refines ops f W OK) as P.
  apply (Permutation_NoDup (Permutation_sym (Permutation_map fst P))).
  unfold spec_retained. pose proof (R_nd _ _ (R_run ops W)) as (_ & _ & _ & N4).
  clear P. induction (a_ret (abs ops)) as [|[t pl] l IH]; [constructor|].
  cbn [filter fst]. inversion N4 as [|? ? NI N4']; subst.
  destruct (topic_matches f t); [|apply IH; exact N4'].
  cbn [map fst]. constructor; [|apply IH; exact N4'].
  intro HI. apply NI. apply in_map_iff in HI. destruct HI as ([t' pl'] & E & HI). cbn in E. subst t'.
  apply filter_In in HI. destruct HI as [HI _]. apply (in_map fst) in HI. exact HI.
Qed.

(* What the new subscriber is actually sent (server.go publishRetainedToClient over Messages(filter), with the
   failure paths of publishToClient: read access denied for a topic, QoS 1/2 with no free in-flight slot / packet
   id): for EVERY order in which the index may return the matching messages, the subscriber gets exactly the
   matching retained messages it may read and can take — each at most once, at the QoS min(message, subscription,
   server maximum), every readable QoS 0 one, and as many QoS 1/2 ones as the window has room for; an
   undeliverable message never suppresses another one. *)
Theorem C02_delivered_every_order : forall ops f qt denied subq maxq free scan,
  wf_ops ops -> msg_filter_ok f = true ->
  Permutation scan (map (annot qt) (messages (run ops) f)) ->
  retsub_okb denied subq maxq free (map (annot qt) (spec_retained (abs ops) f))
             (deliver denied subq maxq free scan) = true.
Proof. exact deliver_on_index. Qed.

(* Concurrency: with every index operation (RetainMessage's set + store included) one atomic step under the root
   lock, after ANY schedule of retained publishes / clears / subscribes / unsubscribes on several goroutines,
   Messages(f) returns — for every well-formed filter f, exact or wildcard — exactly the retained messages whose topic
   f matches in the map obtained by running the history of the schedule serially (which keeps every goroutine's
   program order).  The split variant (lock released before the store) is refuted in Properties/C05.v. *)
Theorem C02_after_any_schedule : forall prog (sched : list nat) xf restf h f,
  Forall (fun c => wf_ropb c = true) (concat prog) ->
  run_sched r_model_step sched ix_empty prog = (xf, restf, h) ->
  msg_filter_ok f = true ->
  let serial := map (fun e : nat * rop * N => snd (fst e)) h in
  (forall t, proj t h ++ nth t restf [] = nth t prog []) /\
  Permutation (messages xf f) (spec_retained (fst (seq_run r_spec_step a_empty serial)) f).
Proof.
  intros prog sched xf restf h f W H OK serial.
  destruct (retain_atomic_all_schedules ix_empty a_empty prog sched xf restf h R_empty W H) as (P & _ & HR).
  split; [exact P|]. exact (messages_perm _ _ f HR OK).
Qed.

(* non-vacuity of the delivery statement: one topic denied, window of one slot, three QoS 1 and one QoS 0 message;
   a loop that stops at the first failure (seeded change C02b) is rejected by the same specification *)
Example C02_delivery_nonvacuous :
  let cands := [((tag "a", tag "m1"), 1); ((tag "b", tag "m2"), 1); ((tag "c", tag "m3"), 0); ((tag "d", tag "m4"), 1)] in
  deliver [tag "a"] 1 2 1 cands = [((tag "b", tag "m2"), 1); ((tag "c", tag "m3"), 0)] /\
  retsub_okb [tag "a"] 1 2 1 cands [((tag "b", tag "m2"), 1); ((tag "c", tag "m3"), 0)] = true /\
  retsub_okb [tag "a"] 1 2 1 cands [] = false /\
  retsub_okb [tag "a"] 1 2 1 cands [((tag "b", tag "m2"), 1)] = false /\
  retsub_okb [tag "a"] 1 2 1 cands [((tag "b", tag "m2"), 1); ((tag "c", tag "m3"), 0); ((tag "d", tag "m4"), 1)] = false.
Proof. vm_compute. repeat split. Qed.

(* non-vacuity: parent level of a trailing '#', a $-topic, a cleared and an overwritten message *)
Example C02_nonvacuous :
  let ops := [ORetain (tag "x") (tag "m1"); ORetain (tag "x/y") (tag "m2"); ORetain (tag "$foo/y") (tag "m3");
              ORetain (tag "z") (tag "m4"); ORetain (tag "z") []; ORetain (tag "x/y") (tag "m5")] in
  wf_ops ops /\
  messages (run ops) (tag "x/#") = [(tag "x", tag "m1"); (tag "x/y", tag "m5")] /\
  messages (run ops) (tag "+/y") = [(tag "x/y", tag "m5")] /\
  messages (run ops) (tag "#") = [(tag "x", tag "m1"); (tag "x/y", tag "m5")] /\
  messages (run ops) (tag "$foo/#") = [(tag "$foo/y", tag "m3")] /\
  messages (run ops) (tag "z") = [].
Proof. vm_compute. repeat split; repeat constructor. Qed.

(* the repaired defects (fixed in /repo) *)
Example C02_prefix_refuted :
  messages_prefix (run three) (tag "x/#") = [(tag "x/y", tag "m2")] /\
  messages_prefix (run three) (tag "+/y") = [(tag "x/y", tag "m2"); (tag "$foo/y", tag "m3")].
Proof. vm_compute. repeat split. Qed.

Print Assumptions C02_refines.
Print Assumptions C02_exactly.
Print Assumptions C02_once.
Print Assumptions C02_delivered_every_order.
Print Assumptions C02_after_any_schedule.
