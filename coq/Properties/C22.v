(* C22 — All bundled storage back ends behave identically.
   Statements only; every proof is [exact lemma]. *)
From Coq Require Import Permutation.
From MV Require Import Base.Val Storage.Kv Storage.StoreHooks Storage.StoreProofs Findings.FixedC22.
Open Scope N_scope.

(* The property at full strength: for every sequence of storage hook events and every two back
   ends, reading the stored state back gives the same clients, subscriptions, in-flight messages,
   retained messages and system info, up to ordering. *)
Definition C22_same_statement : Prop :=
  forall (evs : list event) (b1 b2 : backend),
    rb_equiv (read_back (run_hooks b1 evs)) (read_back (run_hooks b2 evs)).

(* It does not hold of the code: bbolt refuses keys longer than 32768 bytes and badger keys longer
   than 65000 bytes (the failed write is only logged), pebble and redis accept them; MQTT allows
   client identifiers and topics of up to 65535 bytes.  Known finding KF_C22_key_limit. *)
Theorem C22_refuted : exists evs,
  KF_C22_key_limit evs = true /\
  ~ rb_equiv (read_back (run_hooks Bolt evs)) (read_back (run_hooks Redis evs)).
Proof. exists long_history. split; [exact long_history_kf | exact long_history_differs]. Qed.

(* Outside that finding the statement holds for all histories and all four back ends. *)
Theorem C22_same_modulo_findings : forall evs, KF_C22_key_limit evs = false ->
  forall b1 b2, rb_equiv (read_back (run_hooks b1 evs)) (read_back (run_hooks b2 evs)).
Proof. exact same_modulo_key_limit. Qed.

(* The two back ends without a key-size limit in the MQTT range agree on every history. *)
Theorem C22_pebble_redis_same : forall evs,
  rb_equiv (read_back (run_hooks Pebble evs)) (read_back (run_hooks Redis evs)).
Proof. exact pebble_redis_same. Qed.

(* non-vacuity: a history with colliding subscription keys ("a","b:c") / ("a:b","c"), an in-flight
   message, a retained message and a system info tick; all four back ends hold one subscription, one
   in-flight message with its packet identifier, one retained message and the system info *)
Definition demo_client : rclient :=
  mkRClient (mkClientRec (tag "a") (tag "l") [] [] false 5 60 true 0 false (VL []) (VL [])) false.
Definition demo_pkt : pkt := mkPkt (VL []) 7 (tag "t/u") (tag "x") (tag "o") 100 160%Z 5 1 true 60 (VL []).
Definition demo_history : list event :=
  [ESessionEstablished demo_client;
   ESubscribed (tag "a") [(mkSub (tag "b:c") 0 0 1 false false, 1)];
   ESubscribed (tag "a:b") [(mkSub (tag "c") 0 0 2 false false, 2)];
   EQosPublish (tag "a") demo_pkt 101;
   ERetain (tag "a") demo_pkt false;
   ESysTick (VN 5)].

Example C22_nonvacuous :
  KF_C22_key_limit demo_history = false /\
  forall b, In b [Badger; Pebble; Bolt; Redis] ->
    let r := read_back (run_hooks b demo_history) in
    map cr_sei_flag (rb_clients r) = [true] /\ map sr_qos (rb_subs r) = [2] /\
    map mr_pid (rb_inflight r) = [7] /\ map mr_pf_flag (rb_retained r) = [true] /\
    rb_sys r = Some (tag "SYS", VN 5).
Proof.
  split; [vm_compute; reflexivity|].
  intros b [<-|[<-|[<-|[<-|[]]]]]; vm_compute; repeat split.
Qed.

(* the repaired defects C22-1 and C22-2 (fixed in /repo): before the repair bolt and redis kept a
   stale client record at disconnect and lost the packet identifier of in-flight messages *)
Example C22_prefix_disconnect :
  let evs := [ESessionEstablished (cl (VN 1)); EDisconnect (cl (VN 0)) false] in
  map cr_will (rb_clients (read_back (run_hooks_prefix Badger evs))) = [VN 0] /\
  map cr_will (rb_clients (read_back (run_hooks_prefix Bolt evs))) = [VN 1] /\
  map cr_will (rb_clients (read_back (run_hooks_prefix Redis evs))) = [VN 1].
Proof. exact prefix_disconnect_differs. Qed.

Example C22_prefix_packet_id :
  let evs := [EQosPublish (tag "a") pk 0] in
  map mr_pid (rb_inflight (read_back (run_hooks_prefix Pebble evs))) = [2] /\
  map mr_pid (rb_inflight (read_back (run_hooks_prefix Bolt evs))) = [0] /\
  map mr_pid (rb_inflight (read_back (run_hooks_prefix Redis evs))) = [0].
Proof. exact prefix_packet_id_lost. Qed.

Print Assumptions C22_refuted.
Print Assumptions C22_same_modulo_findings.
Print Assumptions C22_pebble_redis_same.
