(* C35 — The connected-client limit is never exceeded.
   Statements only; proofs are [exact lemma] or vm_compute witnesses. *)
From MV Require Import Base.Val Base.Sched Conc.Limit Conc.LimitProofs Findings.FixedC35.
Open Scope Z_scope.

(* For every maximum, every number of concurrent attempts (any protocol versions, any client
   identifiers, takeovers included) and every schedule of their atomic steps, the number of
   simultaneously established connections never exceeds the maximum.  (Every prefix of a schedule
   is a schedule, so this is a statement about every instant.) *)
Theorem C35_bound : forall (max : Z) (specs : list tspec) (sched : list tid),
  0 <= max -> connected (run exec sched (limit_threads max specs)) <= max.
Proof. exact limit_bound. Qed.

(* Info.ClientsConnected is exact: it equals the number of handlers between their reservation and
   their release, and stays within [0, max]. *)
Theorem C35_counter : forall (max : Z) (specs : list tspec) (sched : list tid),
  0 <= max ->
  let c := run exec sched (limit_threads max specs) in
  l_counter (shared c) = wsum (l_stats (shared c)) /\ 0 <= l_counter (shared c) <= max.
Proof. exact limit_counter. Qed.

(* An attempt is refused only by its own handler, only when the counter has reached the maximum,
   and with CONNACK 0x89 for MQTT 5 and 0x03 for MQTT 3.x. *)
Theorem C35_refusal_code : forall (max : Z) (specs : list tspec) (sched : list tid) (t' t : tid) (k : N),
  let c := run exec sched (limit_threads max specs) in
  stat t (step exec t' c) = Some (Refused k) -> stat t c <> Some (Refused k) ->
  t' = t /\ max <= l_counter (shared c) /\
  exists sp, nth_error specs t = Some sp /\ k = (if (ts_ver sp <? 5)%N then 3%N else 137%N).
Proof. exact limit_refusal. Qed.

(* ... and below the limit the reservation succeeds (the bound is not met by refusing everybody) *)
Theorem C35_admits : forall (max : Z) (specs : list tspec) (sched : list tid) (t : tid),
  0 <= max ->
  let c := run exec sched (limit_threads max specs) in
  l_counter (shared c) < max ->
  nth_error (threads c) t = Some [Reserve; Decr] -> (t < length specs)%nat ->
  stat t (step exec t c) = Some Established.
Proof. exact limit_admits. Qed.

(* the repaired defect C35-1: with the pre-fix check-then-increment the bound is false *)
Theorem C35_refuted_prefix : exists max specs sched,
  0 <= max /\ connected (run exec sched (prefix_threads max specs)) > max.
Proof. exact Findings.FixedC35.C35_refuted_prefix. Qed.

(* non-vacuity: limit 1, an MQTT 5 and an MQTT 3.1.1 attempt; the first is established, the second
   refused with 0x03; with the roles exchanged the MQTT 5 attempt gets 0x89; after the first has
   left, a third attempt is admitted *)
Example C35_nonvacuous :
  let specs := [mkSpec 5 1; mkSpec 4 2; mkSpec 5 3] in
  let c1 := run exec [0; 1; 0; 1]%nat (limit_threads 1 specs) in
  let c2 := run exec [1; 0; 1; 0]%nat (limit_threads 1 specs) in
  let c3 := run exec [0; 0; 1; 0; 2; 2]%nat (limit_threads 1 specs) in
  stat 0%nat c1 = Some Established /\ stat 1%nat c1 = Some (Refused 3) /\ connected c1 = 1 /\
  stat 1%nat c2 = Some Established /\ stat 0%nat c2 = Some (Refused 137) /\
  stat 0%nat c3 = Some Gone /\ stat 1%nat c3 = Some (Refused 3) /\ stat 2%nat c3 = Some Established.
Proof. vm_compute. repeat split. Qed.

(* takeover: limit 2, the second attempt uses the first's client identifier *)
Example C35_takeover :
  let specs := [mkSpec 5 7; mkSpec 5 7; mkSpec 4 8] in
  let c := run exec [0; 0; 1; 1; 2]%nat (limit_threads 2 specs) in
  stat 0%nat c = Some Kicked /\ stat 1%nat c = Some Established /\ stat 2%nat c = Some (Refused 3) /\
  connected c = 1 /\ l_counter (shared c) = 2.
Proof. vm_compute. repeat split. Qed.

Print Assumptions C35_bound.
Print Assumptions C35_counter.
Print Assumptions C35_refusal_code.
Print Assumptions C35_admits.
Print Assumptions C35_refuted_prefix.
