(* C38 — Reported $SYS statistics match the broker's actual state.
   Statements only; proofs are [exact lemma] or vm_compute witnesses. *)
From MV Require Import Base.Val Session.Pkt Session.Stats Session.StatsProofs.
From MV Require Base.Sched Conc.Limit Session.StatsLimit Session.StatsLimitProofs.
Open Scope Z_scope.

(* [stats_ok s]: Info.ClientsConnected / Subscriptions / Retained / Inflight of the model state equal
   the number of connected clients in Clients, of client subscriptions in the topic index, of
   retained messages in the store and of in-flight records over all sessions, and none is negative.
   [run init ops] is the state after the history [ops]; an operation is one harness step (CONNECT
   incl. takeover with clean start 0/1, end of a connection with or without session expiry,
   SUBSCRIBE incl. re-subscription and shared filters, UNSUBSCRIBE incl. absent filters, PUBLISH
   QoS 0-2 with retain / clear and any fan-out incl. deferred deliveries and rolled-back ones,
   every acknowledgement incl. error reason codes, expiry of sessions / retained / in-flight
   messages, the $SYS tick).  The five defects that made this false on the pinned tree are repaired
   (Findings/FixedC38.v keeps the old behaviour), so the full statement holds for ALL histories. *)

Theorem C38_counters : forall ops : list op, stats_ok (run init ops).
Proof. exact stats_always_ok. Qed.

(* at every quiescent point on the way, i.e. after every prefix of the history *)
Theorem C38_every_quiescent_point : forall (ops : list op) (k : nat), stats_ok (run init (firstn k ops)).
Proof. exact stats_every_prefix. Qed.

(* one step from any consistent state (the inductive core; also covers states restored from a store
   provided they are consistent) *)
Theorem C38_step : forall (s : st) (o : op), inv_off 0 s -> inv_off 0 (step s o).
Proof. exact step_inv. Qed.

(* Concurrent connection attempts (the interleaving model of attachClient's limit check / slot
   reservation / release, Conc/Limit.v): under EVERY schedule of any number of attempts, at every point
   where no connection closed by a takeover still waits for its handler's teardown, the connected-clients
   counter equals the number of established connections, and it is never negative.  A refused attempt
   therefore leaves nothing behind in the counter. *)
Theorem C38_connected_under_schedules :
  forall (max : Z) (specs : list Conc.Limit.tspec) (sched : list Base.Sched.tid),
  0 <= max ->
  let c := Base.Sched.run Conc.Limit.exec sched (Conc.Limit.limit_threads max specs) in
  Session.StatsLimit.quiet c = true ->
  Session.StatsLimit.connected_ok c /\ 0 <= Conc.Limit.l_counter (Base.Sched.shared c).
Proof. exact Session.StatsLimitProofs.connected_exact_when_quiet. Qed.

(* non-vacuity: a history with subscription, QoS 1 fan-out, disconnection, takeover, acknowledgement
   and expiry drives every counter away from zero and back *)
Definition a : bytes := tag "a".
Definition b : bytes := tag "b".
Definition h1 : list op :=
  [ OConnect a false 4 true;
    OSubscribe a 1 [(tag "t/+", tag "N|t/+", true); (tag "$share/g/t/1", tag "S|g|t/1", true)] [] None;
    OConnect b true 5 true;
    OPublish b 1 7 1 (tag "t/1") false [(a, 1%N, 0%N)] None;
    OPublish b 2 8 0 (tag "t/1") false [(a, 2%N, 0%N); (a, 3%N, 1%N)] None;
    OClose a false;
    OConnect a false 4 true;
    OAck a T_PUBACK 1 false None ].

Example C38_nonvacuous :
  let s := run init h1 in
  (n_conn s, n_subs s, n_ret s, n_infl s) = (2, 2, 1, 2) /\
  (act_conn s, act_subs s, act_ret s, act_infl s) = (2, 2, 1, 2) /\
  let s' := run s [OClose a false; OExpireClients [a]; OExpireRetained [tag "t/1"]; OClose b true] in
  (n_conn s', n_subs s', n_ret s', n_infl s') = (0, 0, 0, 0) /\ s_clients s' = [].
Proof. vm_compute. repeat split. Qed.

Print Assumptions C38_counters.
Print Assumptions C38_every_quiescent_point.
Print Assumptions C38_step.
Print Assumptions C38_connected_under_schedules.
