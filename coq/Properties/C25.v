(* C25 — Expired messages are not delivered and expiry intervals only shrink.
   Statements only; proofs are [exact lemma] or vm_compute witnesses. *)
From MV Require Import Base.Val Session.Pkt Session.Expiry Session.ExpiryProofs.
Open Scope Z_scope.

(* A configuration [c] is one unsent copy of a message: server maximum, publisher's interval and
   protocol version, publish time, and where the copy waits (retained store / in-flight map of a parked
   session / in-flight map held back by flow control).  [run c true evs] is what happens to it under an
   arbitrary sequence of housekeeping runs and delivery attempts at arbitrary (virtual) times. *)

(* the effective expiry is the smaller non-zero of the publisher's interval and the server maximum:
   the broker stamps the message with publish time + that, or with 0 (never) when both are 0 *)
Theorem C25_effective : forall c : cfg, wf_cfg c = true ->
  pub_expiry (g_smax c) (g_created c) (g_interval c) = (if expires c then expiry_time c else 0) /\
  minimum (g_smax c) (g_interval c) = eff (g_smax c) (g_interval c).
Proof.
  intros c W. split; [exact (pub_expiry_spec c W)|].
  destruct (wf_parts c W) as (H1 & H2 & _). apply minimum_is_eff; assumption.
Qed.

(* housekeeping removes the copy — wherever it waits — exactly when it runs at a time strictly later
   than publish time + effective interval *)
Theorem C25_housekeeping_exact : forall (c : cfg) (h : Z), wf_cfg c = true ->
  house_removes c (stored_expiry c) h = expires c && (expiry_time c <? h).
Proof. exact house_removes_exact. Qed.

(* ... and therefore, in every history, no unsent copy is delivered after such a run *)
Theorem C25_no_expired_delivery : forall (c : cfg) (evs : list ev), wf_cfg c = true ->
  late_ok c false (run c true evs) = true.
Proof. intros c evs W. apply (no_late_delivery c W); discriminate. Qed.

(* The delivered Message Expiry Interval is positive and no larger than the time remaining.  The full
   statement is FALSE of the faithful model (C25_interval_refuted: with nothing remaining WritePacket
   still sends, with interval 1); outside that finding it holds in every history. *)
Theorem C25_interval_shrinks_modulo_findings : forall (c : cfg) (evs : list ev), wf_cfg c = true ->
  kf_free c evs = true -> interval_ok c (run c true evs) = true.
Proof. intros c evs W. exact (interval_shrinks c W evs true). Qed.

Definition c_ref : cfg := {| g_smax := 0; g_interval := 1; g_ver5 := true; g_place := P_RETAINED; g_created := 1000 |}.

Theorem C25_interval_refuted : exists (c : cfg) (evs : list ev),
  wf_cfg c = true /\ interval_ok c (run c true evs) = false /\ kf_free c evs = false.
Proof. exists c_ref, [EDeliver 1002]. vm_compute. repeat split. Qed.

(* non-vacuity: a held-back copy with interval 5 under a one-day server maximum *)
Example C25_nonvacuous :
  let c := {| g_smax := 86400; g_interval := 5; g_ver5 := true; g_place := P_HELD; g_created := 1000 |} in
  wf_cfg c = true /\ expiry_time c = 1005 /\ stored_expiry c = -1006 /\
  run c true [EHouse 1005; EDeliver 1003] = [OHouse 1005 true; ODeliver 1003 1003 true 2] /\
  run c true [EHouse 1006; EDeliver 1003] = [OHouse 1006 false; ODeliver 1003 1003 false 0] /\
  kf_free c [EHouse 1005; EDeliver 1003] = true.
Proof. vm_compute. repeat split. Qed.

Print Assumptions C25_effective.
Print Assumptions C25_housekeeping_exact.
Print Assumptions C25_no_expired_delivery.
Print Assumptions C25_interval_shrinks_modulo_findings.
Print Assumptions C25_interval_refuted.
