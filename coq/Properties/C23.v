(* C23 — Everything the broker writes is well-formed for the client's protocol version.
   What is proved: (1) the stream monitor that judges the real broker's output is sound with
   respect to the Prop-level statement [wf_stream] (complete packets of the client's version as
   the independent reference decoder Codec/SpecCodec.v reads them, server-sendable types only,
   codes and properties valid for the version, within Maximum Packet Size, problem/response
   information only when allowed, nothing after DISCONNECT); (2) for EVERY schedule of concurrent
   writers the wire carries whole packets only, none lost or duplicated (model of WritePacket's
   critical section).  The verdict on the code is the monitor applied to every byte the broker
   wrote in the generated histories; (3) the encoder side: whatever well-formed packet the broker
   hands to mochi's encoder, if its abstraction is a packet the standard allows for that version,
   the bytes written are accepted by the reference decoder as exactly that packet, and nothing
   beyond them is consumed (C23_encoder_output, from the codec worker's bridge Codec/CodecC23.v).
   Not proved (partial): that every packet the BROKER builds has a valid abstraction — that is what
   the monitor checks on every run, and where the known findings live. *)
From MV Require Import Base.Val Codec.SpecCodec Session.Wellformed Session.WellformedProofs
  Conc.WriteMux Conc.WriteMuxProofs.
From MV Require Codec.Wire Codec.MochiCodec Codec.CodecNorm Codec.CodecC23.
From Coq Require Import Permutation.
Open Scope N_scope.

Theorem C23_monitor_sound : forall (c : cctx) (bs : bytes),
  stream_ok c bs = true -> exists ps, wf_stream c bs ps.
Proof. exact stream_ok_sound. Qed.

Theorem C23_no_interleaving : forall (progs : list (list (kind * bytes))) (sched : list tid),
  let s := run sched (init progs) in
  exists ps qs, conn s = concat ps /\ buf s = concat qs /\
    (forall p, In p ps -> In p (all_packets progs)) /\
    (finished s -> Permutation (ps ++ qs) (all_packets progs)).
Proof. exact no_interleaving. Qed.

Theorem C23_encoder_output : forall pk rest,
  CodecNorm.wf_packet pk = true ->
  valid_packet (MochiCodec.pk_version pk) (CodecNorm.abs pk) = true ->
  exists bs, MochiCodec.mochi_encode pk = Wire.Ok bs /\
             spec_decode_packet (MochiCodec.pk_version pk) (bs ++ rest) = Some (CodecNorm.abs pk, rest).
Proof. exact CodecC23.C23_encoder_output_total. Qed.

(* The full property is FALSE of the current broker; three witnesses (bytes the real broker writes,
   replayed by the `wire` engine) that the monitor rejects and classifies as the listed findings. *)
Definition v3ctx : cctx := {| cc_ver := 4; cc_mps := 0; cc_problem := true; cc_respinfo := false |}.
Definition v5ctx : cctx := {| cc_ver := 5; cc_mps := 0; cc_problem := true; cc_respinfo := false |}.

Theorem C23_refuted_v3_disconnect :
  stream_ok v3ctx [32; 2; 0; 0; 224; 0] = false /\
  KF_C23_v3_disconnect v3ctx DClientOnly (Some (SDisconnect 0 [])) = true.
Proof. vm_compute. split; reflexivity. Qed.

Theorem C23_refuted_v3_connack_code :
  stream_ok v3ctx [32; 2; 0; 130] = false /\
  KF_C23_v3_connack_code v3ctx DInvalid (Some (SConnack false 130 [])) = true.
Proof. vm_compute. split; reflexivity. Qed.

Theorem C23_refuted_suback_0x82 :
  stream_ok v5ctx [144; 4; 0; 2; 0; 130] = false /\
  KF_C23_suback_0x82 v5ctx DInvalid (Some (SSuback 2 [] [130])) = true.
Proof. vm_compute. split; reflexivity. Qed.

(* non-vacuity: CONNACK, a QoS 1 PUBLISH "t/1" and a PINGRESP are accepted for MQTT 3.1.1; two
   writers with one packet each really interleave in the model *)
Example C23_nonvacuous :
  stream_ok v3ctx [32; 2; 0; 0; 50; 8; 0; 3; 116; 47; 49; 0; 1; 109; 208; 0] = true /\
  conn (run [0; 1; 0; 0; 1; 1; 1; 1]%nat (init [[(KDirect, [1; 2])]; [(KBufferFlush, [3; 4])]])) = [1; 2; 3; 4].
Proof. vm_compute. split; reflexivity. Qed.

Print Assumptions C23_monitor_sound.
Print Assumptions C23_no_interleaving.
Print Assumptions C23_refuted_v3_disconnect.
Print Assumptions C23_refuted_v3_connack_code.
Print Assumptions C23_refuted_suback_0x82.
Print Assumptions C23_encoder_output.
