(* C42 — Every valid encoding a client may send is decoded as the sender meant.
   Statements only; every proof is [exact lemma].
   Specification side (Codec/SpecCodec.v, written from the OASIS texts): [valid_packet] — the value
   rules of the standard; [spec_encodings v p bs] — bs is an encoding of p the standard permits: the
   properties in any order that keeps user properties / subscription identifiers in sequence
   ([reorder]), and any permitted omission ([spec_forms]: remaining length 2 or 3 for the
   acknowledgements, 0 or 1 for DISCONNECT and AUTH).  [expected v p rem] (Codec/SpecBridge.v) is the
   Go Packet value the sender of p meant. *)
From MV Require Import Base.Val Codec.Vbi Codec.Wire Codec.Props Codec.MochiCodec Codec.SpecCodec
  Codec.SpecBridge Codec.CodecOrder Codec.CodecEnc Codec.CodecC42 Findings.FixedC42.
From Coq Require Import Permutation.
Open Scope N_scope.

(* Every permitted encoding of every valid packet (client-to-server or not), followed by arbitrary
   further bytes, is accepted by the decoder (fixed header, remaining length and body, as
   ReadFixedHeader/ReadPacket do) with exactly the fields the sender meant, and nothing beyond the
   packet is consumed.  [rem] is the remaining length found in the fixed header. *)
Theorem C42_all : forall v p bs rest,
  valid_packet v p = true -> spec_encodings v p bs -> Vbi.wf_bytes (bs ++ rest) ->
  exists rem, mochi_decode_packet v (bs ++ rest) = Ok (expected v p rem, rest) /\
              blen bs = 1 + blen (put_vbi rem) + rem.
Proof. exact permitted_encoding_decodes. Qed.

(* the same, spelled out for the packets a client may send *)
Theorem C42_client : forall v p bs rest,
  client_sendable p = true -> valid_packet v p = true -> spec_encodings v p bs ->
  Vbi.wf_bytes (bs ++ rest) ->
  exists rem, mochi_decode_packet v (bs ++ rest) = Ok (expected v p rem, rest).
Proof.
  intros v p bs rest _ Hv He Hw.
  destruct (permitted_encoding_decodes v p bs rest Hv He Hw) as (rem & H & _).
  exists rem. exact H.
Qed.

(* Properties may come in any order: the Properties struct filled from a property list does not
   depend on the order, as long as no single-valued property occurs twice and the repeatable ones
   keep their sequence. *)
Theorem C42_any_order : forall x ps ps',
  no_dup_ids x [] ps = true -> reorder ps ps' -> props_of ps' = props_of ps.
Proof. exact props_of_reorder. Qed.

(* A DISCONNECT carrying only the reason code 0x04 is a disconnect with will message. *)
Theorem C42_disconnect_will : forall rest, Vbi.wf_bytes rest ->
  mochi_decode_packet 5 ([224; 1; 4] ++ rest) = Ok (expected 5 (SDisconnect 4 []) 1, rest) /\
  pk_reason_code (expected 5 (SDisconnect 4 []) 1) = 4.
Proof. intros rest H. split; [exact (disconnect_with_will rest H) | reflexivity]. Qed.

(* non-vacuity: the shortened forms are permitted encodings; a PUBLISH with four properties has a
   permitted encoding in which the order is changed (user properties stay in sequence) *)
Example C42_forms_nonvacuous :
  spec_forms 5 (SDisconnect 4 []) = [[224; 2; 4; 0]; [224; 1; 4]] /\
  spec_forms 5 (SDisconnect 0 []) = [[224; 2; 0; 0]; [224; 1; 0]; [224; 0]] /\
  spec_forms 5 (SAuth 0 []) = [[240; 2; 0; 0]; [240; 1; 0]; [240; 0]] /\
  spec_forms 5 (SAck KPuback 7 16 []) = [[64; 4; 0; 7; 16; 0]; [64; 3; 0; 7; 16]] /\
  spec_forms 5 (SAck KPubrel 7 0 []) = [[98; 4; 0; 7; 0; 0]; [98; 3; 0; 7; 0]; [98; 2; 0; 7]] /\
  spec_forms 4 (SAck KPubrel 7 0 []) = [[98; 2; 0; 7]].
Proof. vm_compute. repeat split. Qed.

Example C42_order_nonvacuous :
  let ps := [UserProperty [97] [49]; TopicAlias 3; UserProperty [98] [50]; ContentType [116]] in
  let ps' := [ContentType [116]; UserProperty [97] [49]; UserProperty [98] [50]; TopicAlias 3] in
  valid_packet 5 (SPublish false 1 false [116] 9 ps [104; 105]) = true /\
  spec_encodings 5 (SPublish false 1 false [116] 9 ps [104; 105])
    (frame (SPublish false 1 false [116] 9 ps' [104; 105])
           (full_body 5 (SPublish false 1 false [116] 9 ps' [104; 105]))).
Proof.
  cbv zeta. split; [vm_compute; reflexivity|].
  exists (SPublish false 1 false [116] 9
            [ContentType [116]; UserProperty [97] [49]; UserProperty [98] [50]; TopicAlias 3] [104; 105]).
  split.
  - apply same_publish. split; [|reflexivity].
    eapply perm_trans; [apply perm_skip; apply perm_swap|].
    eapply perm_trans; [apply perm_skip; apply perm_skip; apply perm_swap|].
    eapply perm_trans; [apply perm_skip; apply perm_swap|].
    eapply perm_trans; [apply perm_swap|].
    apply Permutation_refl.
  - left. reflexivity.
Qed.

(* the repaired defects: before the fixes the short DISCONNECT lost its reason code and the short
   AUTH forms were rejected *)
Example C42_prefix_refuted :
  (exists pk, disconnect_decode_prefix (fresh_packet 5 (mkfh 1 DISCONNECT 0 false false)) [4] = Ok pk /\
              pk_reason_code pk = 0) /\
  auth_decode_prefix (fresh_packet 5 (mkfh 0 AUTH 0 false false)) [] = Err EReasonCode.
Proof. split; [exact prefix_disconnect_loses_reason | exact (proj1 prefix_auth_rejects_short)]. Qed.

Print Assumptions C42_all.
Print Assumptions C42_client.
Print Assumptions C42_any_order.
Print Assumptions C42_disconnect_will.
