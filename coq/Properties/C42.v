(* C42 — Every valid encoding a client may send is decoded as the sender meant.
   Statements only; every proof is [exact lemma].
   Specification side (Codec/SpecCodec.v, written from the OASIS texts): [valid_packet] — the value
   rules of the standard; [spec_encodings v p bs] — bs is an encoding of p the standard permits: the
   properties in any order that keeps user properties / subscription identifiers in sequence
   ([reorder]), and any permitted omission ([spec_forms]: remaining length 2 or 3 for the
   acknowledgements, 0 or 1 for DISCONNECT and AUTH).  [expected v p rem] (Codec/SpecBridge.v) is the
   Go Packet value the sender of p meant. *)
From MV Require Import Base.Val Codec.Vbi Codec.Wire Codec.Props Codec.MochiCodec Codec.SpecCodec
  Codec.SpecBridge Codec.SpecRT Codec.CodecOrder Codec.CodecEnc Codec.CodecC42 Findings.FixedC42.
From Coq Require Import Permutation.
Open Scope N_scope.

(* Every permitted encoding of every valid packet (client-to-server or not), followed by arbitrary
   further bytes, is accepted by the decoder (fixed header, remaining length and body, as
   ReadFixedHeader/ReadPacket do) with exactly the fields the sender meant, and nothing beyond the
   packet is consumed.  [rem] is the remaining length found in the fixed header. *)
Theorem C42_all : forall v p bs rest,
  valid_packet v p = true -> spec_encodings v p bs -> Vbi.wf_bytes (bs ++ rest) ->
  exists rem, mochi_decode_packet v (bs ++ rest) = Ok (expected v p rem, rest) /\
              blen bs = 1 + blen (put_vbi rem) + rem.
Proof. exact permitted_encoding_decodes. Qed.

(* the same, spelled out for the packets a client may send *)
Theorem C42_client : forall v p bs rest,
  client_sendable p = true -> valid_packet v p = true -> spec_encodings v p bs ->
  Vbi.wf_bytes (bs ++ rest) ->
  exists rem, mochi_decode_packet v (bs ++ rest) = Ok (expected v p rem, rest).
Proof.
  intros v p bs rest _ Hv He Hw.
  destruct (permitted_encoding_decodes v p bs rest Hv He Hw) as (rem & H & _).
  exists rem. exact H.
Qed.

(* Properties may come in any order: the Properties struct filled from a property list does not
   depend on the order, as long as no single-valued property occurs twice and the repeatable ones
   keep their sequence. *)
Theorem C42_any_order : forall x ps ps',
  no_dup_ids x [] ps = true -> reorder ps ps' -> props_of ps' = props_of ps.
Proof. exact props_of_reorder. Qed.

(* A DISCONNECT carrying only the reason code 0x04 is a disconnect with will message. *)
Theorem C42_disconnect_will : forall rest, Vbi.wf_bytes rest ->
  mochi_decode_packet 5 ([224; 1; 4] ++ rest) = Ok (expected 5 (SDisconnect 4 []) 1, rest) /\
  pk_reason_code (expected 5 (SDisconnect 4 []) 1) = 4.
Proof. intros rest H. split; [exact (disconnect_with_will rest H) | reflexivity]. Qed.

(* The reference decoder itself accepts every permitted encoding (round trip of the REFERENCE codec,
   all 15 packet types, every shortened form, followed by anything) and returns the packet with the
   properties in the order in which they were sent; with the reordering relation: for every
   encoding in [spec_encodings] it returns a packet [p'] that is [p] up to the permitted reordering
   of properties.  So the arbiter used by the engine codec_enc agrees with C42_all. *)
Theorem C42_reference_roundtrip : forall v p bs rest,
  valid_packet v p = true -> In bs (spec_forms v p) -> spec_decode_packet v (bs ++ rest) = Some (p, rest).
Proof. exact spec_roundtrip. Qed.

Theorem C42_reference_accepts_encodings : forall v p bs rest,
  valid_packet v p = true -> spec_encodings v p bs ->
  exists p', same_packet p p' /\ spec_decode_packet v (bs ++ rest) = Some (p', rest).
Proof. exact spec_accepts_encodings. Qed.

(* non-vacuity: the shortened forms are permitted encodings; a PUBLISH with four properties has a
   permitted encoding in which the order is changed (user properties stay in sequence) *)
Example C42_forms_nonvacuous :
  spec_forms 5 (SDisconnect 4 []) = [[224; 2; 4; 0]; [224; 1; 4]] /\
  spec_forms 5 (SDisconnect 0 []) = [[224; 2; 0; 0]; [224; 1; 0]; [224; 0]] /\
  spec_forms 5 (SAuth 0 []) = [[240; 2; 0; 0]; [240; 1; 0]; [240; 0]] /\
  spec_forms 5 (SAck KPuback 7 16 []) = [[64; 4; 0; 7; 16; 0]; [64; 3; 0; 7; 16]] /\
  spec_forms 5 (SAck KPubrel 7 0 []) = [[98; 4; 0; 7; 0; 0]; [98; 3; 0; 7; 0]; [98; 2; 0; 7]] /\
  spec_forms 4 (SAck KPubrel 7 0 []) = [[98; 2; 0; 7]].
Proof. vm_compute. repeat split. Qed.

Example C42_order_nonvacuous :
  let ps := [UserProperty [97] [49]; TopicAlias 3; UserProperty [98] [50]; ContentType [116]] in
  let ps' := [ContentType [116]; UserProperty [97] [49]; UserProperty [98] [50]; TopicAlias 3] in
  valid_packet 5 (SPublish false 1 false [116] 9 ps [104; 105]) = true /\
  spec_encodings 5 (SPublish false 1 false [116] 9 ps [104; 105])
    (frame (SPublish false 1 false [116] 9 ps' [104; 105])
           (full_body 5 (SPublish false 1 false [116] 9 ps' [104; 105]))).
Proof.
  cbv zeta. split; [vm_compute; reflexivity|].
  exists (SPublish false 1 false [116] 9
            [ContentType [116]; UserProperty [97] [49]; UserProperty [98] [50]; TopicAlias 3] [104; 105]).
  split.
  - apply same_publish. split; [|reflexivity].
    eapply perm_trans; [apply perm_skip; apply perm_swap|].
    eapply perm_trans; [apply perm_skip; apply perm_skip; apply perm_swap|].
    eapply perm_trans; [apply perm_skip; apply perm_swap|].
    eapply perm_trans; [apply perm_swap|].
    apply Permutation_refl.
  - left. reflexivity.
Qed.


(* self-check of the reference codec on one packet of every kind: each permitted form is accepted
   by the reference decoder and gives the packet back, with the following bytes left unread *)
Local Open Scope string_scope.
Definition selfcheck_packets : list (N * spkt) :=
  let s := bytes_of_string in
  [ (5, SConnect 5 true 30 [SessionExpiry 10; UserProperty (s "a") (s "b"); AuthMethod (s "m"); AuthData [1; 2]]
           (s "cid") (Some (mkwill [WillDelay 5; PayloadFormat 1] (s "w/t") (s "bye") 1 true))
           (Some (s "user")) (Some (s "pw")));
    (4, SConnect 4 false 0 [] (s "") None None None);
    (3, SConnect 3 true 60 [] (s "old") None (Some (s "u")) (Some [0; 255]));
    (5, SConnack true 0 [AssignedClientId (s "x"); MaximumQoS 1; ReceiveMaximum 10]);
    (4, SConnack false 5 []);
    (5, SPublish true 2 true (s "a/b") 65535 [TopicAlias 3; UserProperty (s "k") (s "v"); SubscriptionId 268435455; ResponseTopic (s "r")] (s "hello"));
    (5, SPublish false 0 false [] 0 [TopicAlias 1] []);
    (4, SPublish false 1 false (s "t") 1 [] [0; 1; 2]);
    (5, SAck KPuback 7 16 []); (5, SAck KPubrec 7 0 []); (5, SAck KPubrel 7 146 [ReasonString (s "why")]);
    (5, SAck KPubcomp 1 0 [UserProperty (s "a") (s "b")]); (4, SAck KPubrel 9 0 []);
    (5, SSubscribe 3 [SubscriptionId 200; UserProperty [] []] [mkfilter (s "a/#") 2 true false 1; mkfilter (s "b") 0 false true 2]);
    (4, SSubscribe 3 [] [mkfilter (s "+/x") 1 false false 0]);
    (5, SSuback 3 [ReasonString (s "r")] [0; 1; 2; 128; 162]); (4, SSuback 3 [] [0; 128]);
    (5, SUnsubscribe 4 [UserProperty (s "k") (s "v")] [s "a"; s "b/#"]); (3, SUnsubscribe 4 [] [s "a"]);
    (5, SUnsuback 4 [] [0; 17]); (4, SUnsuback 4 [] []);
    (5, SPingreq); (4, SPingresp);
    (5, SDisconnect 4 []); (5, SDisconnect 0 []); (5, SDisconnect 142 [SessionExpiry 0; ServerReference (s "other")]);
    (4, SDisconnect 0 []);
    (5, SAuth 0 []); (5, SAuth 24 [AuthMethod (s "SCRAM"); AuthData [9]]) ].

Local Close Scope string_scope.

Example C42_reference_codec_selfcheck :
  forallb (fun vp => let '(v, p) := vp in
     valid_packet v p &&
     match spec_forms v p with
     | [] => false
     | forms => forallb (fun bs => match spec_decode_packet v (bs ++ [192; 0]) with
                                   | Some (_, [192; 0]) => true
                                   | _ => false
                                   end) forms
     end &&
     forallb (fun bs => match spec_decode_packet v bs with
                        | Some (q, []) => beq_bytes (full_body v q) (full_body v p)
                        | _ => false
                        end) (spec_forms v p))
    selfcheck_packets = true.
Proof. vm_compute. reflexivity. Qed.

(* the repaired defects: before the fixes the short DISCONNECT lost its reason code and the short
   AUTH forms were rejected *)
Example C42_prefix_refuted :
  (exists pk, disconnect_decode_prefix (fresh_packet 5 (mkfh 1 DISCONNECT 0 false false)) [4] = Ok pk /\
              pk_reason_code pk = 0) /\
  auth_decode_prefix (fresh_packet 5 (mkfh 0 AUTH 0 false false)) [] = Err EOffsetByteOutOfRange.
Proof. split; [exact prefix_disconnect_loses_reason | exact (proj1 prefix_auth_rejects_short)]. Qed.

Print Assumptions C42_all.
Print Assumptions C42_client.
Print Assumptions C42_any_order.
Print Assumptions C42_disconnect_will.
Print Assumptions C42_reference_roundtrip.
Print Assumptions C42_reference_accepts_encodings.
