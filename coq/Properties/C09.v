(* C09 — Unacknowledged QoS 1/2 messages survive reconnection until acknowledged; redeliveries reuse the
   identifier and set DUP; PUBREL after PUBREC; acknowledged messages are never resent.
   Statements only.  Model: Session/Inflight.v; verdict on the code: QosSpecs.chk09 on the observed history
   (in-flight snapshot after every step + what the reconnected connection receives).

   The full property is FALSE of the faithful model of the current code:
     - a message held back by flow control is written by the post-packet block of processPacket and its record
       DELETED (pinned by TestServerProcessPacketAndNextImmediate): it is not in the session any more, is never
       resent, its acknowledgement is unknown; if the session is resumed before the release, the marked record is
       resent with DUP and later sent once more without                                     KF_C09_deferred
     - the client's own PUBLISH / PUBREL identifier deletes, replaces or completes the outbound record stored
       under the same number (one id-keyed map for both directions)                         KF_C09_id_collision
   Outside these, proved for all histories / every oracle: the record stays (C09_modulo_findings), everything
   stored is resent on a reconnection with the session — PUBLISH with the same identifier and DUP, PUBREL once
   PUBREC was received — and nothing else is (C09_resend), an acknowledged message is no longer stored. *)
From MV Require Import Base.Val Session.Pkt Session.Inflight Session.InflightProofs Session.QosSpecs
  Session.QosProofs Session.QosOrder Session.QosLive Session.QosSound Session.QosWitness.
Open Scope N_scope.

(* A stored record without the held-back mark (an outbound PUBLISH / PUBREL, or the PUBREC of an own exchange)
   is still stored, unchanged, after ANY history h in which no acknowledgement packet carries its identifier,
   (for an outbound record) no own PUBLISH of the client carries it [that would be KF_C09_id_collision], the
   session is kept (no clean start, no expiry interval 0) and no housekeeping expiry runs — whatever else happens:
   other messages in both directions, deferral and release of other messages, disconnections, reconnections. *)
Theorem C09_modulo_findings : forall c k r, cfg_ok c -> forall h s,
  wf c s -> persistent s ->
  get k (s_infl s) = Some r -> (0 <= r_expiry r)%Z -> r_ty r <> T_PUBACK -> r_ty r <> T_PUBCOMP ->
  leaves k (r_ty r =? T_PUBREC) h ->
  get k (s_infl (fst (run c s h))) = Some r.
Proof. exact run_keeps_record. Qed.

(* On a reconnection that keeps the session every stored record is written again — a PUBLISH record as PUBLISH
   with the same identifier, QoS, message and DUP = 1, a PUBREL record as PUBREL — and nothing that is not
   stored is written: for every oracle (map order / unstable sort). *)
Theorem C09_resend : forall c s v5 clean sei rm orc,
  wf c s -> persistent s -> keeps_session (Reconnect v5 clean sei rm) = true -> s_infl s <> [] ->
  exists sent, snd (reconnect c s v5 clean sei rm orc) = OPkt T_CONNACK 0 true 0 0 0 :: sent /\
    (forall k r, get k (s_infl s) = Some r -> In (pkt_of_rec true k r) sent) /\
    (forall p, In p sent -> exists k r, get k (s_infl s) = Some r /\ p = pkt_of_rec true k r).
Proof. exact resume_resends. Qed.

(* acknowledged = no longer stored (hence, by C09_resend, never resent) *)
Theorem C09_puback_removes : forall c s k rc now orc, get k (s_infl (fst (in_ack c s T_PUBACK k rc now orc))) = None.
Proof. exact puback_removes. Qed.
Theorem C09_pubcomp_removes : forall c s k rc now orc, get k (s_infl (fst (in_ack c s T_PUBCOMP k rc now orc))) = None.
Proof. exact pubcomp_removes. Qed.

(* after a PUBREC with a reason < 0x80 the stored packet is a PUBREL: that is what is resent *)
Theorem C09_pubrel_after_pubrec : forall c s k rc now orc r,
  cfg_ok c -> (0 <= now)%Z -> wf c s -> get k (s_infl s) = Some r ->
  (128 <=? rc) || negb (pubrec_rc_valid rc) = false ->
  exists r', get k (s_infl (fst (in_ack c s T_PUBREC k rc now orc))) = Some r' /\ r_ty r' = T_PUBREL.
Proof. exact pubrec_turns_into_pubrel. Qed.

(* the step check of the monitor says what the specification says (client-side bookkeeping = QosSpecs.view_step) *)
Theorem C09_monitor_sound : forall c v o ob,
  chk09 c v o ob (view_step c v o ob) = None -> Spec09_step c v o ob.
Proof. exact chk09_sound. Qed.

Theorem C09_refuted_deferred : exists c h, model_verdict 9 c h = Some (1, Some (tag "KF_C09_deferred")).
Proof. exists (wcfg 2 8), [w_connect; w_out 1 1; w_out 1 2; w_ack T_PUBACK 1]. vm_compute. reflexivity. Qed.

Theorem C09_refuted_collision : exists c h, model_verdict 9 c h = Some (1, Some (tag "KF_C09_id_collision")).
Proof. exists (wcfg 2 8), [w_connect; w_out 1 1; w_pub 1 1 false 7]. vm_compute. reflexivity. Qed.

(* non-vacuity: a QoS 2 message delivered, PUBREC sent, connection lost, other traffic, reconnection: the PUBREL
   record is there and is resent; the monitor accepts the whole history *)
Definition c09_h : list (op * list N) :=
  [w_connect; w_out 2 1; w_ack T_PUBREC 1; w_netclose; w_out 0 2; (Reconnect true false 300 1, [1])].
Example C09_nonvacuous :
  model_verdict 9 (wcfg 2 8) c09_h = None /\
  snd (run (wcfg 2 8) init_st c09_h) =
    [[OPkt T_CONNACK 0 false 0 0 0]; [OPkt T_PUBLISH 1 false 2 1 0]; [OPkt T_PUBREL 1 false 0 0 0]; []; [];
     [OPkt T_CONNACK 0 true 0 0 0; OPkt T_PUBREL 1 false 0 0 0]].
Proof. vm_compute. split; reflexivity. Qed.

(* fault injection: the PUBREL answering the client's PUBREC cannot be written (processPubrec stores it BEFORE writing):
   the session holds PUBREL and resends PUBREL, not PUBLISH; the monitor accepts *)
Example C09_fault_nonvacuous :
  model_verdict_f 9 (wcfg 2 8)
    [(w_connect, false); (w_out 2 1, false); (w_ack T_PUBREC 1, true); ((Reconnect true false 300 1, [1]), false);
     (w_ack T_PUBCOMP 1, false)] = None.
Proof. vm_compute. reflexivity. Qed.

Print Assumptions C09_modulo_findings.
Print Assumptions C09_resend.
Print Assumptions C09_puback_removes.
Print Assumptions C09_pubcomp_removes.
Print Assumptions C09_pubrel_after_pubrec.
Print Assumptions C09_monitor_sound.
Print Assumptions C09_refuted_deferred.
Print Assumptions C09_refuted_collision.
