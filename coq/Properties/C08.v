(* C08 — Inbound QoS 2 messages are forwarded exactly once; every retransmission is answered by a
   PUBREC that does not signal failure.
   Statements only; proofs are [exact lemma] or vm_compute witnesses.

   Model: Session/Inflight.v (the session's single in-flight map, quotas and handlers of server.go),
   tied to the real broker on every run by the qos engine (harness/cmd/hx/eng_qos.go) — the verdict on
   the code is the monitor QosSpecs.chk08 applied to what the broker actually did.

   The full property is FALSE of the faithful model of the current code:
     - every retransmission (same identifier, before PUBREL) is answered PUBREC 0x91, a failure code
       (pinned by TestServerProcessPacketPublishQos2PacketIDInUse)                 KF_C08_retransmit_0x91
     - a retransmission arriving with the receive quota at 0 is answered DISCONNECT 0x93 KF_C08_limit_on_retransmit
     - when the write of the PUBREC fails (broken connection) the PUBLISH is already recorded but not yet forwarded;
       the retransmission is refused / the exchange completes and the message is never forwarded  KF_C08_recorded_not_forwarded
     - an acknowledgement of a broker identifier equal to the identifier of the open exchange removes or
       replaces its record (one id-keyed map), the next retransmission is forwarded again     KF_C08_cross_ack
   Outside these the exactly-once clause is proved for all histories (C08_modulo_findings). *)
From MV Require Import Base.Val Session.Pkt Session.Inflight Session.InflightProofs Session.QosSpecs
  Session.QosProofs Session.QosOrder Session.QosLive Session.QosSound Session.QosWitness.
Open Scope N_scope.

(* Exactly once.  From any well-formed state (every reachable state is one: run_wf) with a session that
   outlives its connections, a connected client and receive quota left: the first QoS 2 PUBLISH with an
   identifier that is not an open exchange is forwarded, and in any continuation h — retransmissions of it
   (with or without DUP) in any number, disconnections, reconnections that keep the session, other traffic in
   both directions, acknowledgements of other identifiers, for every oracle — it is not forwarded again,
   provided no acknowledgement PACKET carries the same identifier (PUBREL ends the exchange; PUBACK / PUBREC /
   PUBCOMP with it is KF_C08_cross_ack), no housekeeping expiry runs and the session is not ended. *)
Theorem C08_modulo_findings : forall c s pid uid dup now orc0 h,
  cfg_ok c -> (0 <= now)%Z -> wf c s -> persistent s -> s_conn s = true ->
  (s_recvq s =? 0)%Z = false -> retrans s pid = false ->
  quiet pid uid h ->
  count_fwd uid (concat (snd (run c s ((InPublish 2 pid dup uid now, orc0) :: h)))) = 1%nat.
Proof. exact exactly_once. Qed.

(* The same over a WHOLE history from the start: [pre] is anything that does not publish message uid (and leads to a
   connected persistent session with quota left and no open exchange under pid), then the first PUBLISH, then the open
   exchange h1 as above, then [tail]: whatever follows the end of the exchange (the client's PUBREL, ...) without
   publishing uid again.  The forwards of uid in the entire output trace number exactly one. *)
Theorem C08_once : forall c pid uid dup now orc0 pre h1 tail,
  cfg_ok c -> (0 <= now)%Z -> hist_ok pre ->
  (forall o orc, In (o, orc) pre -> no_uid uid o) ->
  (forall o orc, In (o, orc) tail -> no_uid uid o) ->
  let s := fst (run c init_st pre) in
  persistent s -> s_conn s = true -> (s_recvq s =? 0)%Z = false -> retrans s pid = false ->
  quiet pid uid h1 ->
  count_fwd uid (concat (snd (run c init_st (pre ++ ((InPublish 2 pid dup uid now, orc0) :: h1) ++ tail)))) = 1%nat.
Proof. exact once_whole. Qed.

(* every state reached by any history under any oracle is well-formed *)
Theorem C08_reachable_wf : forall c, cfg_ok c -> forall h s, hist_ok h -> wf c s -> wf c (fst (run c s h)).
Proof. exact run_wf. Qed.

(* Partial (the second clause of the property): a retransmission IS answered at once by a PUBREC with its
   identifier and is not forwarded — but the reason code is 0x91 for MQTT 5 clients (the finding below). *)
Theorem C08_retransmission_answered_partial : forall c s qos pid uid now orc,
  (s_recvq s =? 0)%Z = false -> retrans s pid = true ->
  exists rest, snd (in_publish c s qos pid uid now orc) = OPkt T_PUBREC pid false 0 0 (wire_rc s 145) :: rest
               /\ count_fwd uid rest = 0%nat.
Proof. exact retrans_answer. Qed.

(* refutations: the monitor rejects the model's own behaviour, exactly as the listed findings *)
Theorem C08_refuted_retransmit : exists c h,
  model_verdict 8 c h = Some (2, Some (tag "KF_C08_retransmit_0x91")).
Proof. exists (wcfg 2 8), [w_connect; w_pub 2 5 false 1; w_pub 2 5 true 1]. vm_compute. reflexivity. Qed.

Theorem C08_refuted_limit : exists c h,
  model_verdict 8 c h = Some (2, Some (tag "KF_C08_limit_on_retransmit")).
Proof. exists (wcfg 1 8), [w_connect; w_pub 2 5 false 1; w_pub 2 5 true 1]. vm_compute. reflexivity. Qed.

Theorem C08_refuted_cross_ack : exists c h,
  model_verdict 8 c h = Some (1, Some (tag "KF_C08_cross_ack")).
Proof.
  exists (wcfg 2 8), [w_connect; w_out 1 1; w_pub 2 1 false 9; w_ack T_PUBACK 1; w_pub 2 1 true 9].
  vm_compute. reflexivity.
Qed.

(* fault injection (the broker's write of the first PUBREC fails): the PUBLISH is recorded, never forwarded, and the
   exchange completes on the next connection - the message is lost *)
Theorem C08_refuted_not_forwarded : exists c h,
  model_verdict_f 8 c h = Some (3, Some (tag "KF_C08_recorded_not_forwarded")).
Proof.
  exists (wcfg 2 8), [(w_connect, false); (w_pub 2 5 false 1, true); (w_connect, false); (w_ack T_PUBREL 5, false)].
  vm_compute. reflexivity.
Qed.

(* non-vacuity: a state and a continuation (two retransmissions around a reconnection, other traffic) that
   meet the hypotheses, and the count computed *)
Definition c08_s0 : st := fst (run (wcfg 2 8) init_st [w_connect]).
Definition c08_h : list (op * list N) :=
  [w_pub 2 5 true 1; w_out 1 7; w_netclose; (Reconnect true false 300 1, [1; 5]); w_pub 2 5 true 1; w_ack T_PUBACK 1].
Example C08_nonvacuous :
  persistent c08_s0 /\ s_conn c08_s0 = true /\ (s_recvq c08_s0 =? 0)%Z = false /\ retrans c08_s0 5 = false /\
  quiet 5 1 c08_h /\
  count_fwd 1 (concat (snd (run (wcfg 2 8) c08_s0 (w_pub 2 5 false 1 :: c08_h)))) = 1%nat.
Proof.
  split; [unfold persistent; repeat split; vm_compute; congruence|].
  split; [reflexivity|]. split; [reflexivity|]. split; [reflexivity|].
  split; [|vm_compute; reflexivity].
  intros x orc I. cbn in I.
  repeat (destruct I as [I|I];
          [inversion I; subst; repeat split; try reflexivity; try exact Logic.I; vm_compute; congruence|]).
  destruct I.
Qed.

Print Assumptions C08_modulo_findings.
Print Assumptions C08_once.
Print Assumptions C08_reachable_wf.
Print Assumptions C08_retransmission_answered_partial.
Print Assumptions C08_refuted_retransmit.
Print Assumptions C08_refuted_limit.
Print Assumptions C08_refuted_cross_ack.
Print Assumptions C08_refuted_not_forwarded.
