(* C12 — Messages on one topic from one publisher arrive in publish order (same subscriber, same QoS), including
   messages held back by flow control and messages resent after reconnection.
   Statements only.  Model: Session/Inflight.v — GetAll's sort.Slice by uint16(Created) with the order among equal
   keys (map iteration, unstable sort) as an ORACLE over which the theorems quantify; verdict on the code:
   QosSpecs.chk12 on the observed history.

   The full property is FALSE of the faithful model of the current code: the only order among stored records is
   uint16(Created) — one-second granularity, 16-bit truncation — so messages stamped in the same second are resent,
   and released from deferral, in arbitrary order                                         KF_C12_created_order
   Proved, for every oracle: a resumed session is written in an order SORTED by that key (so messages with
   increasing stamps keep their order), the released held-back message has the smallest key; a message that is not
   held back is written in the step in which it is published.  Partial: there is no theorem over whole histories
   (it would need the accounting of C11 to exclude a later message passing a held-back one). *)
From MV Require Import Base.Val Session.Pkt Session.Inflight Session.InflightProofs Session.QosSpecs
  Session.QosProofs Session.QosWitness.
Open Scope N_scope.

Theorem C12_resend_order_modulo_findings : forall c s v5 clean sei rm orc,
  wf c s -> persistent s -> keeps_session (Reconnect v5 clean sei rm) = true -> s_infl s <> [] ->
  exists lst, snd (reconnect c s v5 clean sei rm orc) =
                OPkt T_CONNACK 0 true 0 0 0 :: map (fun kv => pkt_of_rec true (fst kv) (snd kv)) lst
              /\ sorted_keys (map (fun kv => key16 (snd kv)) lst)
              /\ (forall k r, In (k, r) lst <-> get k (s_infl s) = Some r).
Proof. exact resend_sorted. Qed.

Theorem C12_release_order_partial : forall orc m p r,
  NoDup (keys m) -> next_immediate orc m = Some (p, r) ->
  get p m = Some r /\ (r_expiry r < 0)%Z /\
  forall k' r', get k' m = Some r' -> (r_expiry r' < 0)%Z -> (key16 r <= key16 r')%Z.
Proof. exact next_immediate_spec. Qed.

(* a message that is not held back (and not dropped) is written, as a first transmission, in its own step *)
Theorem C12_direct_partial : forall c s pq sq uid now mei pv qf i d q u rc,
  In (OPkt T_PUBLISH i d q u rc) (snd (out_publish c s pq sq uid now mei pv qf)) -> 0 < q -> d = false /\ u = uid.
Proof. exact direct_first. Qed.

(* three messages of one publisher on one topic queued in the same second while the client is away: the oracle
   decides; in reverse order the monitor rejects, in publish order it accepts *)
Definition c12_h (orc : list N) : list (op * list N) :=
  [w_connect; w_netclose; w_out 1 1; w_out 1 2; w_out 1 3; (Reconnect true false 300 1, orc)].

Theorem C12_refuted : exists c h, model_verdict 12 c h = Some (1, Some (tag "KF_C12_created_order")).
Proof. exists (wcfg 2 8), (c12_h [3; 2; 1]). vm_compute. reflexivity. Qed.

Example C12_nonvacuous : model_verdict 12 (wcfg 2 8) (c12_h [1; 2; 3]) = None.
Proof. vm_compute. reflexivity. Qed.

Print Assumptions C12_resend_order_modulo_findings.
Print Assumptions C12_release_order_partial.
Print Assumptions C12_direct_partial.
Print Assumptions C12_refuted.
