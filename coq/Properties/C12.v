(* C12 — Messages on one topic from one publisher arrive in publish order (same subscriber, same QoS), including
   messages held back by flow control and messages resent after reconnection.
   Statements only.  Model: Session/Inflight.v — GetAll's sort.Slice by uint16(Created) with the order among equal
   keys (map iteration, unstable sort) as an ORACLE over which the theorems quantify; verdict on the code:
   QosSpecs.chk12 on the observed history.

   The full property is FALSE of the faithful model of the current code: the only order among stored records is
   uint16(Created) — one-second granularity, 16-bit truncation — so messages stamped in the same second are resent,
   and released from deferral, in arbitrary order                                         KF_C12_created_order
   Proved, for every oracle: a resumed session is written in an order SORTED by that key (so messages with
   increasing stamps keep their order), the released held-back message has the smallest key; a message that is not
   held back is written in the step in which it is published.  The whole-history theorem C12_modulo_findings below needs nothing but that. *)
From MV Require Import Base.Val Session.Pkt Session.Inflight Session.InflightProofs Session.QosSpecs
  Session.QosProofs Session.QosOrder Session.QosLive Session.QosSound Session.QosWitness.
Open Scope N_scope.

(* WHOLE HISTORIES.  ha = everything up to the last publication of message u1 (stamped n1, delivered with QoS q1),
   hb = everything from the first publication of message u2 (n2, q2) on; the two are any messages for this subscriber -
   same publisher and topic is not even needed - with q1 = 0 or q2 > 0 (true for equal QoS).  If the stamps increase
   strictly after truncation to 16 bits (the ONLY finding needed: KF_C12_created_order is exactly "they do not"), then in
   the whole output, for every oracle and whatever else happens (deferral and release, resends after reconnections,
   collisions, wrong quota arithmetic ...): at no transmission of u2 that u1's first transmission has not preceded is u1
   transmitted later, i.e. first transmissions are in publish order if both messages are delivered (C12_first_occurrence). *)
Theorem C12_modulo_findings : forall c u1 u2 n1 n2 q1 q2,
  cfg_ok c -> u1 <> u2 ->
  (n1 mod 65536 < n2 mod 65536)%Z ->
  q1 = 0 \/ 0 < q2 ->
  forall ha hb,
  hist_all op_ok (ha ++ hb) ->
  hist_all (tagged u1 n1 q1) ha -> hist_all (not_pub u2) ha ->
  hist_all (not_pub u1) hb -> hist_all (tagged u2 n2 q2) hb ->
  ord_ok u1 u2 (txs (concat (snd (run c init_st (ha ++ hb))))).
Proof. exact first_transmissions_in_order. Qed.

Theorem C12_first_occurrence : forall u1 u2 l pre post,
  u1 <> u2 -> ord_ok u1 u2 l -> l = pre ++ u2 :: post -> ~ In u2 pre -> In u1 l -> In u1 pre.
Proof. exact ord_ok_first. Qed.

(* the two facts behind it, for every history and every oracle, unconditionally: while the client is connected every
   stored outbound PUBLISH that has never been transmitted carries the held-back mark, and while such a message exists
   the send quota is 0 (T = the uids transmitted so far) *)
Theorem C12_ghost_invariants : forall c, cfg_ok c -> forall h s T,
  hist_ok h -> ghost c s T -> ghost c (fst (run c s h)) (T ++ txs (concat (snd (run c s h)))).
Proof. exact run_ghost. Qed.

(* the monitor is sound for the specification in the property's words: if it accepts every step of an observed history
   (every message has its own uid and is received only after it was published), first transmissions are in publish order
   for any two messages of one publisher/topic delivered at the same QoS *)
Theorem C12_monitor_sound : forall c tr,
  uids_distinct tr -> causal [] tr -> accept12 c view0 tr -> Spec12 tr.
Proof. exact chk12_sound. Qed.

Theorem C12_engine_sound : forall c tr,
  uids_distinct tr -> causal [] tr -> never_err c view0 tr ->
  rs_viol (replay 12 c init_st view0 taint0 tr 0 true) = None -> Spec12 tr.
Proof. exact engine12_sound. Qed.

Theorem C12_resend_order_modulo_findings : forall c s v5 clean sei rm orc,
  wf c s -> persistent s -> keeps_session (Reconnect v5 clean sei rm) = true -> s_infl s <> [] ->
  exists lst, snd (reconnect c s v5 clean sei rm orc) =
                OPkt T_CONNACK 0 true 0 0 0 :: map (fun kv => pkt_of_rec true (fst kv) (snd kv)) lst
              /\ sorted_keys (map (fun kv => key16 (snd kv)) lst)
              /\ (forall k r, In (k, r) lst <-> get k (s_infl s) = Some r).
Proof. exact resend_sorted. Qed.

Theorem C12_release_order_partial : forall orc m p r,
  NoDup (keys m) -> next_immediate orc m = Some (p, r) ->
  get p m = Some r /\ (r_expiry r < 0)%Z /\
  forall k' r', get k' m = Some r' -> (r_expiry r' < 0)%Z -> (key16 r <= key16 r')%Z.
Proof. exact next_immediate_spec. Qed.

(* a message that is not held back (and not dropped) is written, as a first transmission, in its own step *)
Theorem C12_direct_partial : forall c s pq sq uid now mei pv qf i d q u rc,
  In (OPkt T_PUBLISH i d q u rc) (snd (out_publish c s pq sq uid now mei pv qf)) -> 0 < q -> d = false /\ u = uid.
Proof. exact direct_first. Qed.

(* three messages of one publisher on one topic queued in the same second while the client is away: the oracle
   decides; in reverse order the monitor rejects, in publish order it accepts *)
Definition c12_h (orc : list N) : list (op * list N) :=
  [w_connect; w_netclose; w_out 1 1; w_out 1 2; w_out 1 3; (Reconnect true false 300 1, orc)].

Theorem C12_refuted : exists c h, model_verdict 12 c h = Some (1, Some (tag "KF_C12_created_order")).
Proof. exists (wcfg 2 8), (c12_h [3; 2; 1]). vm_compute. reflexivity. Qed.

Example C12_nonvacuous : model_verdict 12 (wcfg 2 8) (c12_h [1; 2; 3]) = None.
Proof. vm_compute. reflexivity. Qed.

(* non-vacuity of the whole-history theorem: two QoS 1 messages stamped in different seconds are queued while the
   client is away; the oracle proposes the reverse order for the resend; the hypotheses hold and the output is in order *)
Definition c12_ha : list (op * list N) := [w_connect; w_netclose; (OutPublish 1 2 1 0 100 0 true false, [])].
Definition c12_hb : list (op * list N) := [(OutPublish 1 2 2 0 101 0 true false, []); (Reconnect true false 300 1, [2; 1])].
Example C12_modulo_findings_nonvacuous :
  hist_all op_ok (c12_ha ++ c12_hb) /\
  hist_all (tagged 1 100 1) c12_ha /\ hist_all (not_pub 2) c12_ha /\
  hist_all (not_pub 1) c12_hb /\ hist_all (tagged 2 101 1) c12_hb /\
  txs (concat (snd (run (wcfg 2 8) init_st (c12_ha ++ c12_hb)))) = [1; 2].
Proof.
  repeat split; try (vm_compute; reflexivity);
    intros o orc I; cbn in I;
    repeat (destruct I as [I|I]; [inversion I; subst; cbn; try exact Logic.I; try (vm_compute; congruence);
                                  try (intros E; split; [reflexivity|vm_compute; reflexivity])|]);
    try destruct I.
Qed.

Print Assumptions C12_modulo_findings.
Print Assumptions C12_first_occurrence.
Print Assumptions C12_ghost_invariants.
Print Assumptions C12_monitor_sound.
Print Assumptions C12_engine_sound.
Print Assumptions C12_resend_order_modulo_findings.
Print Assumptions C12_release_order_partial.
Print Assumptions C12_direct_partial.
Print Assumptions C12_refuted.
