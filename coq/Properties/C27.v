(* C27 — Packet decoding is total: no input makes it panic or overread.
   Statements only; every proof is [exact lemma].  The model (Codec/Wire.v, Props.v, MochiCodec.v)
   reads a buffer only through [index] (Go buf[i]) and [slice] (Go buf[lo:hi]); both yield [Panic]
   exactly when Go raises an index/slice bounds panic, so "never Panic" is "never reads outside the
   supplied bytes". *)
From MV Require Import Base.Val Codec.Vbi Codec.Wire Codec.Props Codec.MochiCodec Codec.CodecTotal
  Findings.FixedC27.
Open Scope N_scope.

(* For every protocol version byte, every fixed header (any type 0..255, any flags, any Remaining
   value, consistent with the body or not) and every body, the decoder selected by ReadPacket's
   switch returns a packet or an error: it never panics and no modelled loop runs out of fuel. *)
Theorem C27_total : forall (v : N) (fh : fixedheader) (body : bytes),
  mochi_decode_body v fh body <> Panic /\ mochi_decode_body v fh body <> Fuel.
Proof. exact decode_body_never_panics. Qed.

(* the same for a whole byte stream: header byte, remaining length, body *)
Theorem C27_total_stream : forall (v : N) (stream : bytes),
  mochi_decode_packet v stream <> Panic /\ mochi_decode_packet v stream <> Fuel.
Proof. exact decode_packet_never_panics. Qed.

(* A declared 16-bit length that exceeds the bytes remaining after it is rejected, for binary data
   and for strings. *)
Theorem C27_declared_length_checked : forall buf off len o,
  decodeUint16 buf off = Ok (len, o) -> blen buf < o + len ->
  decodeBytes buf off = Err EOffsetBytesOutOfRange /\ decodeString buf off = Err EOffsetBytesOutOfRange.
Proof. exact declared_length_checked. Qed.

(* What is returned for a length-prefixed field is exactly the declared number of bytes taken from
   inside the buffer, and the new offset does not pass the end of the buffer. *)
Theorem C27_bytes_inside : forall buf off s o,
  decodeBytes buf off = Ok (s, o) ->
  o = off + 2 + blen s /\ o <= blen buf /\
  s = firstn (N.to_nat (blen s)) (skipn (N.to_nat (off + 2)) buf).
Proof. exact decoded_bytes_inside. Qed.

(* A property length (variable byte integer) that exceeds the bytes following it is rejected. *)
Theorem C27_property_length_checked : forall pkt p b n bu bt,
  vbi_decode b = VOk n bu bt -> blen bt < n -> exists e, props_decode pkt p b = Err e.
Proof. exact declared_property_length_checked. Qed.

(* The number of bytes Properties.Decode reports as consumed never exceeds the bytes it was given
   (so the caller's [offset += n] stays inside the packet body). *)
Theorem C27_property_block_inside : forall pkt p b,
  match props_decode pkt p b with
  | Ok (n, _) => n <= blen b
  | Err _ => True
  | Panic => False
  | Fuel => False
  end.
Proof. exact props_decode_post. Qed.

(* non-vacuity: a well-formed MQTT 5 SUBSCRIBE is accepted, the same packet without its last
   options byte is rejected with an error *)
Example C27_nonvacuous :
  (exists pk, mochi_decode_body 5 (mkfh 7 SUBSCRIBE 1 false false) [0; 1; 0; 0; 1; 97; 1] = Ok pk /\
              map s_filter (pk_filters pk) = [[97]] /\ map s_qos (pk_filters pk) = [1]) /\
  mochi_decode_body 5 (mkfh 6 SUBSCRIBE 1 false false) [0; 1; 0; 0; 1; 97] = Err EOffsetByteOutOfRange.
Proof. split; [eexists; split; [vm_compute; reflexivity|split; reflexivity]|vm_compute; reflexivity]. Qed.

(* the repaired defect: the pre-fix decoder panicked on that input *)
Example C27_prefix_refuted :
  subscribe_decode_prefix (fresh_packet 5 (mkfh 6 SUBSCRIBE 1 false false)) [0; 1; 0; 0; 1; 97] = Panic.
Proof. exact prefix_subscribe_panics. Qed.

Print Assumptions C27_total.
Print Assumptions C27_total_stream.
Print Assumptions C27_declared_length_checked.
Print Assumptions C27_bytes_inside.
Print Assumptions C27_property_length_checked.
Print Assumptions C27_property_block_inside.
