(* C01 — subscription matching selects exactly the MQTT-matching subscribers.  (statements follow) *)
From MV Require Import Base.Val Topics.Levels Topics.Match Topics.IndexSpec Topics.Trie.
Open Scope N_scope.
