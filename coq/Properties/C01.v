(* C01 — subscription matching selects exactly the MQTT-matching subscribers.
   Statements only; every proof is [exact lemma] (plus unfolding of the section lemmas). *)
From MV Require Import Base.Val Topics.Levels Topics.Match Topics.Alist Topics.IndexSpec Topics.Trie
  Topics.TrieRefine Topics.TrieSelect Findings.FixedC01.
Open Scope N_scope.

(* For every history of Subscribe / Unsubscribe / InlineSubscribe / InlineUnsubscribe / RetainMessage calls
   (shared filters having a filter part after $share/<group>/) and every topic name, the three result sets
   of Subscribers(topic) on the particle tree built by the history are exactly the subscriptions of the
   abstract set (abs ops) whose filter matches the topic under the MQTT rules [topic_matches]:
   client subscriptions on their filter, shared subscriptions on the filter that follows $share/<group>/,
   inline subscriptions on their filter. *)
Theorem C01_refines : forall ops t, wf_ops ops -> valid_topic t ->
  set_eq (r_cl (subscribers (run ops) t)) (sel_cl (abs ops) t) /\
  set_eq (r_sh (subscribers (run ops) t)) (sel_sh (abs ops) t) /\
  set_eq (r_in (subscribers (run ops) t)) (sel_in (abs ops) t).
Proof.
  intros ops t W V. pose proof (R_run ops W) as HR.
  exact (conj (select_clients _ _ HR t V) (conj (select_shared _ _ HR t V) (select_inline _ _ HR t V))).
Qed.

(* the abstract shared entries are keyed by (client, group, filter after $share/<group>/) of the filter as given *)
Theorem C01_shared_on_inner_filter : forall ops c g i full pay, wf_ops ops ->
  In ((c, g, i), (full, pay)) (a_sh (abs ops)) ->
  is_share full = true /\ share_group full = g /\ eff_filter full = i.
Proof. intros ops c g i full pay W. exact (abs_shared_key _ _ c g i full pay (R_run ops W)). Qed.

(* consequences spelled out: nothing is selected whose filter does not match; a filter starting with a
   wildcard is never selected for a $-topic *)
Theorem C01_only_matching : forall ops t c f pay, wf_ops ops -> valid_topic t ->
  In (c, f, pay) (r_cl (subscribers (run ops) t)) -> topic_matches f t = true.
Proof.
  intros ops t c f pay W V HI. apply (proj1 (C01_refines ops t W V)) in HI.
  unfold sel_cl in HI. apply in_flat_map in HI. destruct HI as ([[c' f'] p'] & _ & HI).
  destruct (topic_matches f' t) eqn:M; [|destruct HI]. destruct HI as [HI|[]]. inversion HI; subst. exact M.
Qed.

Theorem C01_dollar : forall f t, starts_dollar t = true -> leading_wild (split f) = true -> topic_matches f t = false.
Proof. intros f t D L. unfold topic_matches. rewrite D, L. reflexivity. Qed.

(* non-vacuity: a history with all three kinds, an unsubscribe, '+', trailing '#' on the parent level, a $-topic *)
Example C01_nonvacuous :
  let ops := [OSub (tag "c1") (tag "+/#") 1; OSub (tag "c2") (tag "$share/g/a/#") 2; OInSub 7 (tag "a/#") 3;
              OSub (tag "c3") (tag "a") 4; OUnsub (tag "c3") (tag "a"); OSub (tag "c1") (tag "#") 5] in
  wf_ops ops /\ valid_topic (tag "a") /\
  r_cl (subscribers (run ops) (tag "a")) = [(tag "c1", tag "+/#", 1); (tag "c1", tag "#", 5)] /\
  r_sh (subscribers (run ops) (tag "a")) = [(tag "c2", tag "$share/g/a/#", 2)] /\
  r_in (subscribers (run ops) (tag "a")) = [(7, tag "a/#", 3)] /\
  r_cl (subscribers (run ops) (tag "$SYS/a")) = [].
Proof. vm_compute. repeat split; repeat constructor. Qed.

(* the repaired defects (fixed in /repo): the pre-fix scan missed / over-selected *)
Example C01_prefix_refuted :
  r_cl (subscribers_prefix (run [OSub (tag "c1") (tag "+/#") 1]) (tag "a")) = [] /\
  r_in (subscribers_prefix (run [OInSub 7 (tag "x/#") 1]) (tag "x")) = [] /\
  r_sh (subscribers_prefix (run [OSub (tag "c1") (tag "$share/g/#") 1]) (tag "$foo/x")) = [(tag "c1", tag "$share/g/#", 1)] /\
  r_in (subscribers_prefix (run [OInSub 7 (tag "+/x") 1]) (tag "$foo/x")) = [(7, tag "+/x", 1)].
Proof. vm_compute. repeat split. Qed.

Print Assumptions C01_refines.
Print Assumptions C01_shared_on_inner_filter.
Print Assumptions C01_only_matching.
Print Assumptions C01_dollar.
