(* C34 — Accepted output is flushed and every dropped message is reported.
   Statements only; proofs are [exact lemma] or vm_compute witnesses. *)
From MV Require Import Base.Val Session.Pkt IO.WriteBuf IO.WriteBufProofs IO.WriteFault.
From MV Require Conc.WriteQueue Conc.WriteQueueProofs.
Open Scope N_scope.

(* [wrun thr evs] is the state of one connection's write path after an arbitrary sequence of
   WritePacket calls [evs] — from the write loop (a PUBLISH taken from the pending-writes queue) or
   directly from the handler (acknowledgements) — each with its packet size, whether it is refused
   before the buffer logic (too large for the client's Maximum Packet Size, encoding error) and
   whether the pending-writes queue was empty when the call looked at it; [thr] is
   ClientNetWriteBufferSize.  [idle_after evs]: the last call that looked at the queue found it empty,
   i.e. the connection is quiescent. *)

(* whenever the connection is quiescent the internal buffer is empty and the packets reported as
   sent (OnPacketSent) are exactly the packets written to the connection, in order *)
Theorem C34_flushed : forall (thr : N) (evs : list wev),
  idle_after evs = true -> outbuf (wrun thr evs) = [] /\ reported (wrun thr evs) = written (wrun thr evs).
Proof. exact flushed_when_idle. Qed.

(* every PUBLISH taken from the queue has been written or has been reported dropped *)
Theorem C34_drops_reported : forall (thr : N) (evs : list wev),
  idle_after evs = true ->
  forall e, In e evs -> e_src e = Loop ->
    In (e_id e) (written (wrun thr evs)) \/ In (e_id e) (dropped (wrun thr evs)).
Proof. exact accounted_when_idle. Qed.

(* before the queue: a message for a connected client that publishToClient neither queues nor holds
   in flight is reported to a hook *)
Theorem C34_refusals_reported : forall f : fate, fate_is_drop f = true -> fate_report f <> None.
Proof. exact fate_drop_reported. Qed.

(* the Write calls have the shape the correspondence check looks for, in every history *)
Theorem C34_write_calls_shape : forall (thr : N) (evs : list wev),
  Forall (fun c => chunk_ok thr c = true) (chunks (wrun thr evs)).
Proof. exact chunks_shape. Qed.

(* non-vacuity: direct acknowledgements between queued publishes, a flush by threshold, a refusal *)
Definition mk (s : src) (id size : N) (early qempty : bool) : wev :=
  {| e_src := s; e_id := id; e_size := size; e_early := early; e_qempty := qempty |}.
Example C34_nonvacuous :
  let evs := [mk Direct 1 4 false false; mk Loop 2 30 false false; mk Loop 3 40 false false; mk Loop 4 10 false false;
              mk Loop 5 99 true true; mk Direct 6 4 false true] in
  idle_after evs = true /\
  chunks (wrun 64 evs) = [[4; 30; 40]; [10]; [4]] /\
  written (wrun 64 evs) = [1; 2; 3; 4; 6] /\ reported (wrun 64 evs) = [1; 2; 3; 4; 6] /\ dropped (wrun 64 evs) = [5].
Proof. vm_compute. repeat split. Qed.


(* Schedules: the write loop, the connection handlers and the publishers interleave arbitrarily
   (Conc/WriteQueue.v: the queue-empty test is made inside cl.Lock(), the write loop dequeues
   outside it).  For EVERY schedule, once nothing is left to do nothing is left in the write buffer.
   Only successful writes are modelled here; the failing-write paths are C34_flushed's business. *)
Theorem C34_flushed_all_schedules :
  forall (q : list bytes) (handlers : list (list bytes)) (sched : list WriteQueue.action),
  let s := WriteQueue.run false sched (WriteQueue.init q handlers) in
  WriteQueue.finished s -> WriteQueue.buf s = [].
Proof. exact WriteQueueProofs.flushed_when_finished. Qed.

(* what the lock placement buys: with the queue sampled before the lock the statement is false *)
Example C34_stale_sample_refuted :
  let s := WriteQueue.run true
             [WriteQueue.AStep 1 false; WriteQueue.AStep 0 false; WriteQueue.AStep 0 false; WriteQueue.AStep 0 false;
              WriteQueue.AStep 0 false; WriteQueue.AStep 1 false; WriteQueue.AStep 1 false; WriteQueue.AStep 1 false]
             (WriteQueue.init [[7%N]] [[[8%N]]]) in
  WriteQueue.finished s /\ WriteQueue.buf s = [8%N].
Proof. vm_compute. repeat split; repeat constructor. Qed.

(* the monitor of the transient-write-fault engine (flushfault) means clause 1: when it accepts an observation of a
   connection that is still open, every packet reported as sent is among the packets written *)
Theorem C34_fault_monitor_sound : forall reported written,
  WriteBuf.fault_ok reported written false = true -> forall k, In k reported -> In k written.
Proof. exact WriteBufProofs.fault_ok_sound. Qed.

(* TRANSIENT WRITE FAULTS (IO/WriteFault.v: any Write call of the connection may fail once, writing nothing; the write
   loop's retry through flushIdle succeeds; a handler that gets the error ends the connection).  For every history of
   WritePacket calls and every placement of such faults (not on a packet refused before the buffer logic): if the
   connection was not ended and is idle, nothing is left in the write buffer and every packet reported as sent has been
   written - clause 1 "nothing is stranded in an internal buffer because a later write failed". *)
Theorem C34_flushed_despite_faults : forall thr (evs : list (wev * bool)),
  (forall e f, In (e, f) evs -> e_early e = true -> f = false) ->
  snd (frun thr evs) = false -> idle_after (map fst evs) = true ->
  outbuf (fst (frun thr evs)) = [] /\
  forall id, In id (reported (fst (frun thr evs))) -> In id (written (fst (frun thr evs))).
Proof. exact fault_flushed. Qed.

(* without faults the fault model IS the model the writebuf engine runs against clients.go *)
Theorem C34_fault_model_extends : forall thr evs,
  frun thr (map (fun e => (e, false)) evs) = (wrun thr evs, false).
Proof. exact frun_nofault. Qed.

(* non-vacuity: a parked PUBACK (1), then the queued PUBLISH (2) whose flush fails: reported dropped, the retry writes
   both; the hypotheses hold *)
Example C34_faults_nonvacuous :
  let evs := [({| e_src := Direct; e_id := 1; e_size := 4; e_early := false; e_qempty := false |}, false);
              ({| e_src := Loop; e_id := 2; e_size := 30; e_early := false; e_qempty := true |}, true)] in
  snd (frun 64 evs) = false /\ idle_after (map fst evs) = true /\
  written (fst (frun 64 evs)) = [1; 2] /\ reported (fst (frun 64 evs)) = [1] /\ dropped (fst (frun 64 evs)) = [2].
Proof. vm_compute. repeat split. Qed.

Print Assumptions C34_flushed.
Print Assumptions C34_drops_reported.
Print Assumptions C34_refusals_reported.
Print Assumptions C34_write_calls_shape.
Print Assumptions C34_flushed_all_schedules.
Print Assumptions C34_fault_monitor_sound.
Print Assumptions C34_flushed_despite_faults.
Print Assumptions C34_fault_model_extends.
