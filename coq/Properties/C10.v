(* C10 — Packet identifiers are unique per direction and never cross-contaminate.
   Statements only.  Model: Session/Inflight.v (ONE map keyed by packet id for both directions, as
   inflight.go; NextPacketID's scan); verdict on the code: QosSpecs.chk10 on the observed history.

   The full property is FALSE of the faithful model of the current code:
     - the client's own PUBLISH deletes / replaces, its own PUBREL completes, whatever outbound record is stored
       under the same number                                                     KF_C10_own_id_hits_outbound
     - PUBACK / PUBREC / PUBCOMP (which name the broker's identifiers) delete / replace the PUBREC record of the
       client's own QoS 2 exchange stored under the same number                    KF_C10_ack_hits_inbound
     - once the record of a released held-back message has been deleted (C09) its identifier is handed out again
       while the client has not acknowledged it                         KF_C10_reuse_after_deferred_delete
   Proved: identifiers are in 1..maximumPacketID and unused by ANY stored record of either direction when handed
   out (all histories, unconditional); a packet can only touch the record stored under its OWN identifier
   (C10_modulo_findings): the cross-contamination is exactly "same number in both directions". *)
From MV Require Import Base.Val Session.Pkt Session.Inflight Session.InflightProofs Session.QosSpecs
  Session.QosProofs Session.QosOrder Session.QosLive Session.QosSound Session.QosWitness Conc.NextId Conc.NextIdProofs.
Open Scope N_scope.

(* every outbound QoS 1/2 PUBLISH ever written — first transmission, release of a held-back message, resend —
   carries an identifier in 1..maximumPacketID (65535 unless the test knob lowers it), from any well-formed state *)
Theorem C10_ids_in_range : forall c s o orc,
  cfg_ok c -> op_ok o -> wf c s ->
  forall p d q u rc, In (OPkt T_PUBLISH p d q u rc) (snd (step c s o orc)) -> 0 < q -> 1 <= p <= c_maxpid c.
Proof. exact publish_ids_in_range. Qed.

(* a new outbound message gets an identifier under which nothing is stored, neither an outbound message nor a
   record of the client's own exchanges *)
Theorem C10_fresh_id : forall c s pq sq uid now mei pv qf i d q u rc,
  In (OPkt T_PUBLISH i d q u rc) (snd (out_publish c s pq sq uid now mei pv qf)) -> 0 < q ->
  1 <= i <= c_maxpid c /\ get i (s_infl s) = None /\ d = false /\ u = uid.
Proof. exact out_publish_fresh. Qed.

(* Independence modulo the shared map.  One step from any well-formed state: a record (k, r) without the held-back
   mark is unchanged unless the operation is an acknowledgement packet carrying k, or the client's own PUBLISH
   carrying k while r is an outbound record [the two findings: the same number in the other direction], or the
   session ends / housekeeping expiry runs.  In particular the client's own PUBLISH / PUBREL with identifier p
   leaves every outbound record under k <> p alone, and PUBACK / PUBREC / PUBCOMP p leave every own exchange
   under k <> p alone. *)
Theorem C10_modulo_findings : forall c s o orc k r,
  cfg_ok c -> op_ok o -> wf c s -> persistent s ->
  get k (s_infl s) = Some r -> (0 <= r_expiry r)%Z -> r_ty r <> T_PUBACK -> r_ty r <> T_PUBCOMP ->
  keeps_session o = true -> acks k o = false -> (own_pub k o = false \/ r_ty r = T_PUBREC) ->
  persistent (fst (step c s o orc)) /\ get k (s_infl (fst (step c s o orc))) = Some r.
Proof. exact step_keeps_record. Qed.

(* CONCURRENT allocation (several publishers deliver to the same subscriber at once): interleaving model Conc/NextId.v.
   With Client.NextPacketID's load-scan-store one atomic step (it holds the client lock), for EVERY schedule of n
   allocators on a session whose identifiers in use are all at most the counter, with room for n more: the identifiers
   handed out are pairwise distinct, were not in use and lie in (c0, c0 + n].  Tied to the code by forced schedules
   (schedule point nextid.inside): nobody else gets inside the critical section while an allocator is parked there. *)
Theorem C10_allocation_all_schedules : forall maxpid c0 u0 n sched,
  (forall x, In x u0 -> x <= c0) -> c0 + N.of_nat n <= maxpid ->
  let '(sh, ths) := run_sched (step_atomic maxpid) {| sh_counter := c0; sh_used := u0 |} (repeat Start n) sched in
  NoDup (ids ths) /\ forall x, In x (ids ths) -> c0 < x <= c0 + N.of_nat n /\ ~ In x u0.
Proof. exact atomic_ids_distinct. Qed.

(* without the atomicity (load, scan and store as separate steps - what a shared lock would allow) a schedule hands the
   same identifier to two messages; the same schedule is harmless for the atomic variant *)
Theorem C10_refuted_split_allocation : exists maxpid c0 u0 sched,
  ids (snd (run_sched (step_split maxpid) {| sh_counter := c0; sh_used := u0 |} (repeat Start 2) sched)) = [1; 1] /\
  ids (snd (run_sched (step_atomic maxpid) {| sh_counter := c0; sh_used := u0 |} (repeat Start 2) sched)) = [1; 2].
Proof. exists 8, 0, [], [0; 1; 0; 1; 0; 1; 0; 1]%nat. vm_compute. split; reflexivity. Qed.

(* the step check of the monitor says what the specification says: identifiers in range and not shared with another
   outstanding message; own identifiers, acknowledgements and deliveries leave the other records alone *)
Theorem C10_monitor_sound : forall c v o ob,
  chk10 c v o ob (view_op c v o ob) = None -> Spec10_step c v o ob.
Proof. exact chk10_sound. Qed.

Theorem C10_refuted_own_id : exists c h, model_verdict 10 c h = Some (3, Some (tag "KF_C10_own_id_hits_outbound")).
Proof. exists (wcfg 2 8), [w_connect; w_out 1 1; w_pub 1 1 false 7]. vm_compute. reflexivity. Qed.

Theorem C10_refuted_ack : exists c h, model_verdict 10 c h = Some (4, Some (tag "KF_C10_ack_hits_inbound")).
Proof. exists (wcfg 2 8), [w_connect; w_pub 2 5 false 7; w_ack T_PUBACK 5]. vm_compute. reflexivity. Qed.

Theorem C10_refuted_reuse : exists c h, model_verdict 10 c h = Some (2, Some (tag "KF_C10_reuse_after_deferred_delete")).
Proof.
  exists (wcfg 2 2), [w_connect; w_out 1 1; w_out 1 2; w_ack T_PUBACK 1; w_netclose; w_connect; w_out 1 3; w_out 1 4;
                      w_ack T_PUBACK 1].
  vm_compute. reflexivity.
Qed.

(* non-vacuity: identifiers wrap around at maximumPacketID = 2 and skip the one still in use; the monitor accepts *)
Definition c10_h : list (op * list N) :=
  [(Reconnect true false 300 4, []); w_out 1 1; w_out 1 2; w_ack T_PUBACK 1; w_out 1 3; w_pub 1 7 false 9].
Example C10_nonvacuous :
  model_verdict 10 (wcfg 2 2) c10_h = None /\
  snd (run (wcfg 2 2) init_st c10_h) =
    [[OPkt T_CONNACK 0 false 0 0 0]; [OPkt T_PUBLISH 1 false 1 1 0]; [OPkt T_PUBLISH 2 false 1 2 0]; [];
     [OPkt T_PUBLISH 1 false 1 3 0]; [OPkt T_PUBACK 7 false 0 0 0; OFwd 9]].
Proof. vm_compute. split; reflexivity. Qed.

Print Assumptions C10_ids_in_range.
Print Assumptions C10_fresh_id.
Print Assumptions C10_modulo_findings.
Print Assumptions C10_allocation_all_schedules.
Print Assumptions C10_refuted_split_allocation.
Print Assumptions C10_monitor_sound.
Print Assumptions C10_refuted_own_id.
Print Assumptions C10_refuted_ack.
Print Assumptions C10_refuted_reuse.
